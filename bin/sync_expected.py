#!/usr/bin/env python3
"""bin/sync_expected.py <lean-dir> <FactsModule.lean> <name> [<name> ...]

Developer tool, never run by a check: after a deliberate change of /repo (a `fix:` commit),
copy the regenerated value of `Generated.<name>` into the hand-kept expected literal of
`theorem <name>_eq : Generated.<name> = <literal> := rfl` in JP/Props/<FactsModule>.lean.
The resulting diff of the expected table is what gets reviewed and committed."""
import re
import sys

lean, mod, names = sys.argv[1], sys.argv[2], sys.argv[3:]
gen = open(f"{lean}/JP/Generated/Facts.lean").read()
path = f"{lean}/JP/Props/{mod}"
src = open(path).read()
for n in names:
    m = re.search(r"^def " + n + r" : [^\n]*? :=\s*(.*?)(?=^def |^end |\Z)", gen, re.M | re.S)
    assert m, n
    val = m.group(1).strip().replace('), ("', '),\n     ("')      # one entry per line
    t = re.search(r"(theorem " + n + r"_eq : Generated\." + n + r" =\s*\n?)(.*?)( := rfl)", src, re.S)
    assert t, "theorem " + n
    src = src[:t.start(2)] + "    " + val + src[t.end(2):]
    print("updated", n)
open(path, "w").write(src)
