import Lean
IMPORTS
open Lean Elab Command

/-- prints `AUDIT <name> <status> <axioms…>` for every requested declaration -/
def auditNames : List String := NAMES

run_cmd do
  let env ← getEnv
  for s in auditNames do
    let n := s.toName
    match env.find? n with
    | none => IO.println s!"AUDIT {s} missing"
    | some ci =>
      let isThm := match ci with
        | .thmInfo _ => true
        | _ => false
      let ax ← Lean.collectAxioms n
      let axs := " ".intercalate (ax.toList.map toString)
      let status := if !isThm then "not-a-theorem" else if ax.contains ``sorryAx then "sorry" else "ok"
      IO.println s!"AUDIT {s} {status} {axs}"
