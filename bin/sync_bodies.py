#!/usr/bin/env python3
"""bin/sync_bodies.py [<repo>]

Developer tool, never run by a check: (re)writes the EXPECTED side of the source-text inventory,
lean/JP/Props/Bodies/<Group>.lean, from the Go sources of <repo> (default /repo) as they are NOW.  Run it after a
deliberate change of /repo (a `fix:` or hook commit) and review the diff: each changed digest names the function
whose text changed.  The checks regenerate JP/Generated/Bodies.lean from the working tree on every run and the
theorems `JP.Facts.bodies_<group>_eq` (one module per file group) equate the two by `rfl`."""
import os
import re
import subprocess
import sys
import tempfile

VERIF = os.path.dirname(os.path.dirname(os.path.abspath(__file__)))
repo = sys.argv[1] if len(sys.argv) > 1 else "/repo"
with tempfile.TemporaryDirectory() as td:
    subprocess.run([sys.executable, os.path.join(VERIF, "bin", "extract_facts.py"), repo, os.path.join(td, "Facts.lean")],
                   check=True, stdout=subprocess.DEVNULL)
    gen = open(os.path.join(td, "Bodies.lean")).read()
outdir = os.path.join(VERIF, "lean", "JP", "Props", "Bodies")
os.makedirs(outdir, exist_ok=True)
mods = []
for m in re.finditer(r"^def (bodies_([a-z0-9_]+)) : List \(String × String\) := (\[.*\])$", gen, re.M):
    name, key, val = m.group(1), m.group(2), m.group(3)
    val = val.replace('), ("', '),\n     ("')
    mod = "".join(x.capitalize() for x in key.split("_"))
    mods.append(mod)
    with open(os.path.join(outdir, mod + ".lean"), "w") as f:
        f.write(f"""import JP.Generated.Bodies

/-!
# Source-text inventory, group `{key}`: regenerated digests = the digests of the text the model was written against

`JP/Generated/Bodies.lean` is rewritten from the Go sources on every run: one digest per function body (comments and
white space removed) and one per file for everything outside function bodies.  The literal below is the inventory of
the source text that the hand-written model, its correspondence runs and the seeded-change campaign were validated
against (written by bin/sync_bodies.py, reviewed as a diff).  ANY edit of these files breaks this obligation; that
decides nothing about behaviour — it makes the check search for a failing input and, when it finds none, report that
the property is no longer shown to hold for the changed text.
-/

namespace JP
namespace Facts

theorem {name}_eq : Generated.{name} =
    {val} := rfl

end Facts
end JP
""")
m = re.search(r"^def sourceFilesOutsideGroups : List String := (\[.*\])$", gen, re.M)
with open(os.path.join(outdir, "Files.lean"), "w") as f:
    f.write(f"""import JP.Generated.Bodies

/-! no non-test Go source file exists outside the inventoried groups (a new file is a change, too) -/

namespace JP
namespace Facts

theorem sourceFilesOutsideGroups_eq : Generated.sourceFilesOutsideGroups = {m.group(1)} := rfl

end Facts
end JP
""")
print("wrote", ", ".join(mods + ["Files"]))
