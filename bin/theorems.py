"""Proof obligations per property: fully qualified theorem names in JP/Props/<ID>.lean
(and the modules it imports).  OPEN lists the stated goals not yet proved; ASSUME the
assumptions of the claim."""

THEOREMS = {
    "C03": ["JP.C03.roundtrip", "JP.C03.roundtrip_strong", "JP.C03.empty_iff", "JP.C03.deletions_null", "JP.C03.additions_whole",
            "JP.C03.minimal", "JP.C03.minimal_rec", "JP.C03.literals_from_target", "JP.C03.diff_nodupKeys", "JP.C03.diff_noDup"],
    "C06": ["JP.C06.eqv_refl", "JP.C06.eqv_symm", "JP.C06.eqv_trans", "JP.C06.null_only_null", "JP.C06.null_only_null'",
            "JP.C06.beq_imp_eq", "JP.C06.beq_imp_eqv"],
    "C07": ["JP.C07.compose_law", "JP.C07.compose_law_strong", "JP.C07.compose_law_nonobject_eq", "JP.C07.nonobject_p2",
            "JP.C07.compose_lookup", "JP.C07.later_overrides", "JP.C07.deletions_survive", "JP.C07.earlier_survives",
            "JP.C07.nested_composed", "JP.C07.compose_nodupKeys", "JP.C07.compose_noDup"],
}
OPEN = {}
ASSUME = {}
