"""Proof obligations per property: {module: [fully qualified theorem names]}.  Each
module is built and audited in its own environment (existence, theorem-hood, axioms).
OPEN lists the stated goals not yet proved; ASSUME the assumptions of the claim."""

THEOREMS = {
    "C02": {
        "JP.Props.C02": ["JP.C02.mergeNC_refines_eq", "JP.C02.mergeNC_refines", "JP.C02.mergeDocsC_refines", "JP.C02.pruneC_spec",
                         "JP.C02.doMergePatch_refines", "JP.C02.mergePatch_value", "JP.C02.doMergePatch_errors"],
    },
    "C03": {
        "JP.Props.C03spec": ["JP.C03.roundtrip", "JP.C03.roundtrip_strong", "JP.C03.empty_iff", "JP.C03.deletions_null",
                             "JP.C03.additions_whole", "JP.C03.minimal", "JP.C03.minimal_rec", "JP.C03.literals_from_target",
                             "JP.C03.diff_nodupKeys", "JP.C03.diff_noDup"],
    },
    "C06": {
        "JP.Props.C06spec": ["JP.C06.eqv_refl", "JP.C06.eqv_symm", "JP.C06.eqv_trans", "JP.C06.null_only_null", "JP.C06.null_only_null'",
                             "JP.C06.beq_imp_eq", "JP.C06.beq_imp_eqv"],
        "JP.Props.C06": ["JP.C06.eqCC_iff", "JP.C06.eqNC_iff'", "JP.C06.eqNC_iff", "JP.C06.equal_iff", "JP.C06.malformed_false",
                         "JP.C06.equal_spec", "JP.C06.eqCC_symm", "JP.C06.eqCC_refl", "JP.C06.eqCC_trans", "JP.C06.equal_symm'",
                         "JP.C06.equal_trans'", "JP.C06.equal_refl"],
    },
    "C07": {
        "JP.Props.C07spec": ["JP.C07.compose_law", "JP.C07.compose_law_strong", "JP.C07.compose_law_nonobject_eq", "JP.C07.nonobject_p2",
                             "JP.C07.compose_lookup", "JP.C07.later_overrides", "JP.C07.deletions_survive", "JP.C07.earlier_survives",
                             "JP.C07.nested_composed", "JP.C07.compose_nodupKeys", "JP.C07.compose_noDup"],
        "JP.Props.C07impl": ["JP.C07.mergeNC_compose", "JP.C07.mergeNC_compose_eqv", "JP.C07.mergeDocsC_compose",
                             "JP.C07.doMergePatch_true_refines"],
    },
}
OPEN = {}
ASSUME = {}
