"""Proof obligations per property: {module: [fully qualified theorem names]}.  Each
module is built and audited in its own environment (existence, theorem-hood, axioms).
OPEN lists the stated goals not yet proved; ASSUME the assumptions of the claim.
(generated with bin/list_theorems.py, then edited)"""

THEOREMS = {
    "C01": {
        "JP.Props.C01ensure": [
            "JP.C01.applyOp_refines_all", "JP.C01.applyOps_refines_all", "JP.C01.apply_bytes_refines_all",
            "JP.C01.c01_never_violated_all",
        ],
        "JP.Props.C14": [
            "JP.C14.applyOps_refines_ensure", "JP.C14.apply_refines_ensure",
        ],
        "JP.Props.C01limit": [
            "JP.C01.applyOp_refines_lim", "JP.C01.applyOps_refines_lim", "JP.C01.apply_bytes_refines_lim",
            "JP.C01.c01_never_violated_lim",
        ],
        "JP.Props.C01bytes": [
            "JP.C01.parse_wfc", "JP.C01.cstOK_of_wfc", "JP.C01.qk_of_utf8",
            "JP.C01.names_utf8", "JP.C01.tx_decodeRoot", "JP.C01.tokens_utf8",
            "JP.C01.apply_bytes_tree", "JP.C01.apply_bytes_refines_ops", "JP.C01.apply_bytes_refines",
            "JP.C01.apply_bytes_refines'", "JP.C01.c01_never_violated", "JP.C01.c05_never_violated",
        ],
        "JP.Props.C01": [
            "JP.C01.applyOp_refines", "JP.C01.applyOps_refines_inv", "JP.C01.applyOps_refines", "JP.C01.applyOps_refines_acc",
            "JP.C01.decodeRoot_spec", "JP.C01.apply_refines", "JP.C01.move_eq_remove_add", "JP.C01.test_absent_is_null",
            "JP.C01.write_then_read", "JP.C01.null_roundtrip", "JP.C01.applyOp_keeps", "JP.C01.copy_isolated",
            "JP.C01.engine_null_roundtrip", "JP.C01.engine_test_absent_is_null", "JP.C01.engine_copy_isolated",
            "JP.C01.novalue_refines", "JP.C01.spec_novalue",
        ],
        "JP.Props.C01laws": [
            "JP.C01.apply_nil", "JP.C01.apply_singleton", "JP.C01.applyFrom_append", "JP.C01.applyFrom_shift",
            "JP.C01.apply_append", "JP.C01.apply_append_nolimit", "JP.C01.apply_append_ok", "JP.C01.apply_append_fail",
            "JP.C01.apply_append_fail_left", "JP.C01.apply_append_unspec", "JP.C01.applyOp_container", "JP.C01.apply_ok_container",
            "JP.C01.test_pure", "JP.C01.test_outcome", "JP.C01.first_failure", "JP.C01.test_unequal_fails_patch",
            "JP.C01.test_unequal_fails_apply",
            "JP.C01.add_dash_eq_add_len", "JP.C01.add_existing_member_eq_replace",
            "JP.C01.add_existing_member_eq_replace_or_unspec", "JP.C01.add_existing_member_ensure_counterexample",
            "JP.C01.copy_eq_add_get", "JP.C01.copy_over_limit", "JP.C01.move_eq_remove_add_seq",
            "JP.C01.copy_eq_add_get_ensure_counterexample", "JP.C01.copy_to_root_counterexample",
            "JP.C01.add_then_remove_member", "JP.C01.add_then_remove_gen", "JP.C01.add_then_remove_index",
            "JP.C01.add_dash_then_remove_len", "JP.C01.add_then_remove_dash_counterexample",
            "JP.C01.remove_then_add_array", "JP.C01.remove_then_add_member", "JP.C01.remove_then_add_member_order_counterexample",
            "JP.C01.replace_eq_remove_add_array", "JP.C01.replace_eq_remove_add_array_of_exists", "JP.C01.replace_eqv_remove_add_member",
            "JP.C01.replace_remove_add_order_counterexample", "JP.C01.replace_remove_add_dup_counterexample",
            "JP.C01.replace_remove_add_cause_counterexample", "JP.C01.replace_remove_add_allowMissing_counterexample",
            "JP.C01.neg_index_remove", "JP.C01.neg_index_replace", "JP.C01.neg_index_test", "JP.C01.neg_index_get",
            "JP.C01.neg_index_add", "JP.C01.neg_off_fails", "JP.C01.neg_off_remove_allowMissing_counterexample",
            "JP.C01.impl_applyOps_append", "JP.C01.impl_apply_append",
        ],
    },
    "C02": {
        "JP.Props.C02bytes": [
            "JP.C02.text_layer", "JP.C02.mergePatch_bytes", "JP.C02.mergePatch_bytes_eqv", "JP.C02.merge_scalar_verbatim",
            "JP.C02.merge_scalar_value", "JP.C02.mergePatch_errors_bytes",
        ],
        "JP.Props.C02": [
            "JP.C02.mergeNC_refines_eq", "JP.C02.mergeNC_refines", "JP.C02.mergeDocsC_refines", "JP.C02.pruneC_spec",
            "JP.C02.doMergePatch_refines", "JP.C02.mergePatch_value", "JP.C02.doMergePatch_errors",
        ],
    },
    "C03": {
        "JP.Props.C03impl": [
            "JP.C03.anyOf_eqv", "JP.C03.matchesValue_eqv", "JP.C03.getDiff_refines", "JP.C03.getDiff_normal",
            "JP.C03.create_value", "JP.C03.create_refines", "JP.C03.create_roundtrip_strong", "JP.C03.create_roundtrip_bytes",
            "JP.C03.create_array_refines", "JP.C03.create_rejects", "JP.C03.create_accepts", "JP.C03.create_null_rejected",
            "JP.C03.create_null_elem_rejected",
        ],
        "JP.Props.C03spec": [
            "JP.C03.roundtrip_strong", "JP.C03.roundtrip", "JP.C03.empty_iff", "JP.C03.deletions_null",
            "JP.C03.additions_whole", "JP.C03.minimal", "JP.C03.minimal_rec", "JP.C03.literals_from_target",
            "JP.C03.diff_nodupKeys", "JP.C03.diff_noDup",
        ],
    },
    "C04": {
        "JP.Props.C04legacy": [
            "JP.C04.legacy_decodePatch_no_panic", "JP.C04.legacy_apply_no_panic", "JP.C04.legacy_decode_apply_no_panic",
            "JP.C04.legacy_applyOps_no_panic", "JP.C04.legacy_mergePatch_no_panic", "JP.C04.legacy_mergeMergePatches_no_panic",
            "JP.C04.legacy_createMergePatch_no_panic", "JP.C04.legacy_equal_total", "JP.C04.legacy_merge_no_panic",
        ],
        "JP.Props.C04": [
            "JP.C04.decodePatch_no_panic", "JP.C04.mergePatch_no_panic", "JP.C04.mergeMergePatches_no_panic", "JP.C04.createMergePatch_no_panic",
            "JP.C04.equal_total", "JP.C04.apply_no_panic_noensure", "JP.C04.apply_no_panic", "JP.C04.applyOps_no_panic",
        ],
        "JP.Props.C04heap": [
            "JP.C04heap.ex_repr", "JP.C04heap.shared_not_repr",
            "JP.C04heap.repr_frame", "JP.C04heap.repr_write", "JP.C04heap.repr_alloc", "JP.C04heap.repr_tree",
            "JP.C04heap.intoDoc_refines", "JP.C04heap.intoAry_refines", "JP.C04heap.intoContainer_refines",
            "JP.C04heap.get_refines", "JP.C04heap.add_refines", "JP.C04heap.set_refines", "JP.C04heap.remove_refines",
            "JP.C04heap.find_refines", "JP.C04heap.findObject_refines", "JP.C04heap.findObject_twice",
            "JP.C04heap.remove_op_refines", "JP.C04heap.replace_op_refines", "JP.C04heap.move_op_refines",
            "JP.C04heap.add_op_refines", "JP.C04heap.copy_op_refines", "JP.C04heap.test_op_refines",
            "JP.C04heap.ensure_refines", "JP.C04heap.ensure_anyNodeGoal_refuted", "JP.C04heap.ex_rootOK",
            "JP.C04heap.apply_refines", "JP.C04heap.tree_preserved",
            "JP.C04heap.marshal_terminates", "JP.C04heap.abs_terminates", "JP.C04heap.marshalRoot_eq",
            "JP.C04heap.applyHeap_eq", "JP.C04heap.applyHeap_no_panic", "JP.C04heap.patch_values_fresh",
        ],
        "JP.Props.C04heapLegacy": [
            "JP.C04heapLegacy.ex_repr", "JP.C04heapLegacy.repr_is_v5", "JP.C04heapLegacy.shared_not_repr",
            "JP.C04heapLegacy.repr_frame", "JP.C04heapLegacy.repr_write", "JP.C04heapLegacy.repr_alloc",
            "JP.C04heapLegacy.repr_tree", "JP.C04heapLegacy.intoDoc_refines", "JP.C04heapLegacy.intoAry_refines",
            "JP.C04heapLegacy.intoContainer_refines", "JP.C04heapLegacy.get_refines", "JP.C04heapLegacy.add_refines",
            "JP.C04heapLegacy.set_refines", "JP.C04heapLegacy.remove_refines", "JP.C04heapLegacy.find_refines",
            "JP.C04heapLegacy.findObject_refines", "JP.C04heapLegacy.findObject_twice", "JP.C04heapLegacy.remove_op_refines",
            "JP.C04heapLegacy.add_op_refines", "JP.C04heapLegacy.replace_op_refines", "JP.C04heapLegacy.move_op_refines",
            "JP.C04heapLegacy.copy_op_refines", "JP.C04heapLegacy.test_op_refines", "JP.C04heapLegacy.apply_refines_legacy",
            "JP.C04heapLegacy.tree_preserved_legacy", "JP.C04heapLegacy.marshal_terminates_legacy", "JP.C04heapLegacy.abs_terminates_legacy",
            "JP.C04heapLegacy.marshalRoot_eq_legacy", "JP.C04heapLegacy.applyHeapL_eq", "JP.C04heapLegacy.applyHeapL_no_panic",
            "JP.C04heapLegacy.patch_values_fresh_legacy",
        ],
    },
    "C05": {
        "JP.Props.C17decode": [
            "JP.C17.decode_mapraw",
        ],
        "JP.Props.C01ensure": [
            "JP.C01.c05_never_violated_all",
        ],
        "JP.Props.C02bytes": [
            "JP.C02.mergePatch_bytes",
        ],
        "JP.Props.C01limit": [
            "JP.C01.c05_never_violated_lim",
        ],
        "JP.Props.C01bytes": [
            "JP.C01.apply_bytes_refines", "JP.C01.c05_never_violated",
        ],
        "JP.Props.C05impl": [
            "JP.C05.impl_transfer", "JP.C05.impl_order", "JP.C05.impl_frame",
            "JP.C05.impl_literals", "JP.C05.impl_empty_patch",
        ],
        "JP.Props.C05spec": [
            "JP.C05.empty_patch_identity", "JP.C05.test_identity", "JP.C05.keys_set_present", "JP.C05.keys_set_absent",
            "JP.C05.keys_erase", "JP.C05.lookup_set_self", "JP.C05.lookup_set_other", "JP.C05.lookup_erase_other",
            "JP.C05.addIn_arr_elements", "JP.C05.removeIn_arr_elements", "JP.C05.replaceIn_arr_elements", "JP.C05.frame_object_paths",
            "JP.C05.frame_patch", "JP.C05.frame_diverge_at_object", "JP.C05.literals_applyOp", "JP.C05.literals_apply",
            "JP.C05.surviving_keys_op", "JP.C05.surviving_keys_patch", "JP.C05.surviving_keys_apply", "JP.C05.surviving_keys_sublist",
            "JP.C05.keys_prefix_of_no_removal", "JP.C05.merge_keys_exact", "JP.C05.merge_keys_old_first", "JP.C05.merge_obj_obj",
            "JP.C05.merge_member", "JP.C05.merge_literals",
        ],
    },
    "C06": {
        "JP.Props.C06bytes": [
            "JP.C06.valid_eq_parse", "JP.C06.equal_bytes", "JP.C06.equal_bytes_value", "JP.C06.equal_refl_bytes",
            "JP.C06.equal_symm_bytes", "JP.C06.equal_trans_bytes", "JP.C06.equal_malformed", "JP.C06.equal_invalid",
        ],
        "JP.Props.C06spec": [
            "JP.C06.eqv_refl", "JP.C06.eqv_symm", "JP.C06.eqv_trans", "JP.C06.null_only_null",
            "JP.C06.null_only_null'", "JP.C06.beq_imp_eq", "JP.C06.beq_imp_eqv",
        ],
        "JP.Props.C06": [
            "JP.C06.eqCC_iff", "JP.C06.eqNC_iff'", "JP.C06.eqNC_iff", "JP.C06.equal_iff",
            "JP.C06.malformed_false", "JP.C06.equal_spec", "JP.C06.eqCC_symm", "JP.C06.eqCC_refl",
            "JP.C06.eqCC_trans", "JP.C06.equal_symm'", "JP.C06.equal_trans'", "JP.C06.equal_refl",
        ],
        "JP.Props.C06dup": [
            "JP.C06.eqCC_symm_all", "JP.C06.eqCC_refl_all", "JP.C06.eqCC_trans_all", "JP.C06.eqCC_obj_iff",
            "JP.C06.eqCC_obj_same_names", "JP.C06.equal_symm_all", "JP.C06.equal_refl_all", "JP.C06.equal_refl_wf",
            "JP.C06.equal_trans_all", "JP.C06.c06rel_sound",
        ],
    },
    "C07": {
        "JP.Props.C07bytes": [
            "JP.C07.mergeMerge_bytes", "JP.C07.library_law",
        ],
        "JP.Props.C07spec": [
            "JP.C07.compose_law_strong", "JP.C07.compose_law", "JP.C07.compose_law_nonobject_eq", "JP.C07.nonobject_p2",
            "JP.C07.compose_lookup", "JP.C07.later_overrides", "JP.C07.deletions_survive", "JP.C07.earlier_survives",
            "JP.C07.nested_composed", "JP.C07.compose_nodupKeys", "JP.C07.compose_noDup",
        ],
        "JP.Props.C07impl": [
            "JP.C07.mergeNC_compose", "JP.C07.mergeNC_compose_eqv", "JP.C07.mergeDocsC_compose", "JP.C07.doMergePatch_true_refines",
        ],
    },
    "C08": {
        "JP.Props.C01ensure": [
            "JP.C01.c08_never_violated_all",
        ],
        "JP.Props.C01limit": [
            "JP.C08.classified_lim", "JP.C01.c08_never_violated_lim",
        ],
        "JP.Props.C08class": [
            "JP.C08.opAdd_class", "JP.C08.opRemove_class", "JP.C08.opReplace_class",
            "JP.C08.opMove_class", "JP.C08.opTest_class", "JP.C08.opCopy_class",
            "JP.C08.applyOp_class", "JP.C08.classified", "JP.C08.classified_bytes",
            "JP.C08.c08_never_violated",
        ],
        "JP.Props.C08": [
            "JP.C08.suffix_irrelevant", "JP.C08.suffix_irrelevant_bytes", "JP.C08.prefix_ok_of_ok", "JP.C08.err_of_prefix_err",
            "JP.C08.testFailed_only_from_test", "JP.C08.copySize_only_from_copy", "JP.C08.testFailed_in_patch", "JP.C08.copySize_in_patch",
        ],
    },
    "C09": {
        "JP.Props.C17decode": [
            "JP.C17.decode_null_keeps_lastKeys", "JP.C17.decode_mapraw",
        ],
        "JP.Props.C09": [
            "JP.C09.scan_reset", "JP.C09.history_independent_scanner", "JP.C09.history_independent_marshal",
            "JP.C09.history_independent_unmarshal", "JP.C09.history_independent_unmarshal_library",
            "JP.C09.stale_keys_returned", "JP.C09.fresh_keys_on_object", "JP.C09.stale_keys_erased",
            "JP.C09.stale_keys_never_read", "JP.C09.stale_keys_unobservable", "JP.C09.history_independent",
            "JP.C09.history_independent_apply", "JP.C09.history_independent_decodePatch", "JP.C09.history_independent_equal",
            "JP.C09.history_independent_mergePatch", "JP.C09.history_independent_mergeMergePatches",
            "JP.C09.history_independent_createMergePatch", "JP.C09.pool_invariant", "JP.C09.call_sequence",
            "JP.C09.call_sequence_oracle",
        ],
    },
    "C10": {
        "JP.Props.C10": [
            "JP.C10.schedule_independent", "JP.C10.schedule_preserves_invariant", "JP.C10.footprints_disjoint",
            "JP.C10.wellOwned_spec", "JP.C10.never_writes_shared", "JP.C10.no_conflicting_access",
        ],
    },
    "C11": {
        "JP.Props.C17decode": [
            "JP.C17.decode_patch", "JP.C17.decode_patch_error",
        ],
        "JP.Props.C16": [
            "JP.C16.scanner_iff",
        ],
        "JP.Props.C11": [
            "JP.C11.lookupLastC_valueOf", "JP.C11.decodeOps_iff", "JP.C11.decodePatch_iff", "JP.C11.decodePatch_total",
            "JP.C11.decodePatch_err_or_ok", "JP.C11.accessors", "JP.C11.accessors_text",
        ],
    },
    "C12": {
        "JP.Props.C01ensure": [
            "JP.C01.c12_never_violated_all",
        ],
        "JP.Props.C17encode": [
            "JP.C17.deepCopy_rep",
        ],
        "JP.Props.C01limit": [
            "JP.C01.apply_bytes_refines_lim", "JP.C01.c12_never_violated_lim",
        ],
        "JP.Props.C12legacy": [
            "JP.C12.legacy_zero_disables", "JP.C12.legacy_others_dont_count", "JP.C12.legacy_copy_adds_size",
            "JP.C12.legacy_copy_limit_exact", "JP.C12.legacy_copy_within_limit", "JP.C12.legacy_copy_ok_within",
            "JP.C12.legacy_running_total", "JP.C12.legacy_running_total_within", "JP.C12.legacy_patch_limit_exact",
        ],
        "JP.Props.C12": [
            "JP.C12.zero_disables", "JP.C12.others_dont_count", "JP.C12.copy_adds_size", "JP.C12.copy_limit_exact",
            "JP.C12.copy_within_limit", "JP.C12.copy_ok_within", "JP.C12.running_total", "JP.C12.running_total_within",
            "JP.C12.patch_limit_exact",
        ],
    },
    "C13": {
        "JP.Props.C13impl": [
            "JP.C13.impl_rewrite", "JP.C13.impl_rewrite_same",
        ],
        "JP.Props.C13": [
            "JP.C13.rewrite", "JP.C13.rewrite_nolimit", "JP.C13.rewrite_apply", "JP.C13.others_unchanged",
            "JP.C13.unskipped_succeeds", "JP.C13.skipped_is_identity", "JP.C13.skipped_only_absent", "JP.C13.specSkipped_head",
        ],
    },
    "C14": {
        "JP.Props.C01ensure": [
            "JP.C01.apply_bytes_refines_all", "JP.C01.c14_never_violated",
        ],
        "JP.Props.C14": [
            "JP.C14.found_at_path", "JP.C14.found_at_path_resolve", "JP.C14.agrees_with_plain_add", "JP.C14.agrees_with_plain_add_op",
            "JP.C14.only_path_and_padding", "JP.C14.only_path_and_padding_arr", "JP.C14.frame", "JP.C14.frame_through_arrays",
            "JP.C14.add_uses_parsed_tokens", "JP.C14.tokens_decoded", "JP.C14.opAdd_ensure_refines_toks", "JP.C14.opAdd_ensure_refines",
            "JP.C14.applyOp_refines_ensure", "JP.C14.applyOps_refines_ensure", "JP.C14.apply_refines_ensure",
        ],
    },
    "C15": {
        "JP.Props.C15escapes": [
            "JP.C15.noNewEscapes_iff", "JP.C15.no_new_escapes_tree", "JP.C15.no_new_escapes",
        ],
        "JP.Props.C15tests": [
            "JP.C15.tests_transparent_ops", "JP.C15.tests_transparent", "JP.C15.tests_transparent_indent",
            "JP.C15.counterexample_dup",
        ],
        "JP.Props.C15ensure": [
            "JP.C15.apply_output_tree_all", "JP.C15.apply_output_clean_all", "JP.C15.apply_output_parses_all",
            "JP.C15.apply_output_valid_all",
        ],
        "JP.Props.C17encode": [
            "JP.C17.marshal_node", "JP.C17.marshal_node_flags", "JP.C17.marshal_root",
        ],
        "JP.Props.C17codec": [
            "JP.C17.indent_preserves", "JP.C17.indent_layout", "JP.C17.compact_spec",
        ],
        "JP.Props.C15apply": [
            "JP.C15.apply_output_tree", "JP.C15.apply_output_clean", "JP.C15.apply_output_parses",
            "JP.C15.apply_output_valid", "JP.C15.indent_is_indent_of_plain", "JP.C15.indent_succeeds",
        ],
        "JP.Props.C15merge": [
            "JP.C15.doMergePatch_ok_shape", "JP.C15.doMerge_output_valid", "JP.C15.mergePatch_output_valid", "JP.C15.mergeMergePatches_output_valid",
            "JP.C15.doMerge_output_clean", "JP.C15.create_output_valid", "JP.C15.merge_output_valid",
        ],
        "JP.Props.C15text": [
            "JP.C15.unquote_escBody", "JP.C15.escBody_idem", "JP.C15.escBody_clean", "JP.C15.escBody_valid",
            "JP.C15.escBody_utf8", "JP.C15.valueOf_escape", "JP.C15.wfc_escape", "JP.C15.print_escape_clean",
            "JP.C15.parse_print_escape", "JP.C15.parseValueOf_print_escape", "JP.C15.print_escape_utf8",
        ],
    },
    "C16": {
        "JP.Props.C16entryCreate": [
            "JP.C16.create_rejects_malformed", "JP.C16.create_ws", "JP.C16.create_accepts_ws",
        ],
        "JP.Props.C16entry": [
            "JP.C16.parser_ws", "JP.C16.apply_rejects_malformed", "JP.C16.apply_empty_document",
            "JP.C16.apply_ws", "JP.C16.apply_ws_nonarray", "JP.C16.apply_accepts_wellformed",
            "JP.C16.decodePatch_rejects_malformed", "JP.C16.decodePatch_ws", "JP.C16.decodePatch_accepts_iff",
            "JP.C16.mergePatch_rejects_malformed", "JP.C16.mergeMerge_rejects_malformed", "JP.C16.doMergePatch_ws_doc",
            "JP.C16.doMergePatch_ws_patch", "JP.C16.mergePatch_accepts", "JP.C16.mergeMerge_accepts",
            "JP.C16.equal_rejects_malformed", "JP.C16.equal_ws", "JP.C16.equal_accepts_ws",
        ],
        "JP.Props.C11": [
            "JP.C11.decodePatch_iff",
        ],
        "JP.Props.C06bytes": [
            "JP.C06.valid_eq_parse", "JP.C06.equal_malformed",
        ],
        "JP.Props.C17codec": [
            "JP.C17.compact_spec", "JP.C17.indent_preserves", "JP.C17.parse_wfc",
        ],
        "JP.Props.C16": [
            "JP.C16.scanner_iff", "JP.C16.compact_accepts", "JP.C16.indent_accepts", "JP.C16.valid_ws",
        ],
    },
    "C17": {
        "JP.Props.C17decode": [
            "JP.C17.decode_mapraw", "JP.C17.decode_sliceraw", "JP.C17.decode_patch",
            "JP.C17.decode_patch_error", "JP.C17.decode_any", "JP.C17.decode_mapany",
            "JP.C17.decode_string", "JP.C17.decode_string_error", "JP.C17.decode_null_keeps_lastKeys",
            "JP.C17.decode_type_errors", "JP.C17.checked_agrees", "JP.C17.checked_rejects",
            "JP.C17.decode_spec",
        ],
        "JP.Props.C17encode": [
            "JP.C17.marshal_node", "JP.C17.marshal_node_flags", "JP.C17.marshal_node_toGo",
            "JP.C17.marshal_root", "JP.C17.deepCopy_rep", "JP.C17.trustMarshalJSON_member",
            "JP.C17.marshal_docNil", "JP.C17.marshal_docNil_nested", "JP.C17.marshal_lazy_drops",
            "JP.C17.marshal_any", "JP.C17.marshal_any_sorted", "JP.C17.marshal_anyOf",
            "JP.C17.isValidNumber_spec", "JP.C17.marshal_any_err", "JP.C17.marshal_raw",
            "JP.C17.marshal_raw_nil", "JP.C17.marshal_nodes", "JP.C17.marshal_create_array",
            "JP.C17.marshal_output_valid_partial", "JP.C17.marshal_node_output_valid", "JP.C17.marshal_root_output_valid",
            "JP.C17.marshal_any_output_valid",
        ],
        "JP.Props.C17codec": [
            "JP.C17.compact_spec", "JP.C17.compact_spec_noescape", "JP.C17.compact_preserves", "JP.C17.compact_escape_value",
            "JP.C17.compact_escape_parse", "JP.C17.indent_layout", "JP.C17.indent_preserves", "JP.C17.indent_print_partial",
            "JP.C17.htmlEscape_eq", "JP.C17.htmlEscape_parse", "JP.C17.htmlEscape_value", "JP.C17.htmlEscape_clean",
            "JP.C17.compact_htmlEscape", "JP.C17.parse_wfc", "JP.C17.scan_trace",
        ],
        "JP.Props.C17": [
            "JP.C17.encodeRune_decodeRune", "JP.C17.decodeRune_reencode", "JP.C17.unquote_quoteBody", "JP.C17.quoteBody_valid",
            "JP.C17.quoteBody_clean", "JP.C17.unquote_quoteBody_switch", "JP.C17.quoteBody_utf8", "JP.C17.unquoteBody_valid",
            "JP.C17.parse_print", "JP.C17.roundtrip", "JP.C17.marshal_wfc", "JP.C17.escape_switch_only_spelling",
            "JP.C17.parse_print_marshal", "JP.C17.print_marshal_utf8",
        ],
        "JP.Props.C17stream": [
            "JP.C17.token_stream_wellformed", "JP.C17.token_stream_value", "JP.C17.decode_stream_spec",
            "JP.C17.decode_stream_values", "JP.C17.anyResult_ok", "JP.C17.decode_error_not_sticky",
            "JP.C17.syntax_error_sticky", "JP.C17.unexpected_eof_sticky", "JP.C17.sticky_never_cleared",
            "JP.C17.syntax_sticky_every_call_false", "JP.C17.more_iff", "JP.C17.encode_stream",
            "JP.C17.encode_stream_indent_parses", "JP.C17.encode_stream_any", "JP.C17.encode_stream_error",
            "JP.C17.read_value_wellformed", "JP.C17.decode_stream_cases", "JP.C17.stream_never_panics",
        ],
        "JP.Props.C17typed": [
            "JP.C17.typed_wellformed", "JP.C17.typed_wellformed_tree", "JP.C17.typeFields_nodup", "JP.C17.typed_struct_fields",
            "JP.C17.typed_struct_fields_plain", "JP.C17.typed_omitempty", "JP.C17.typed_omitempty_bytes", "JP.C17.typed_nil_embedded",
            "JP.C17.typed_map_sorted", "JP.C17.typed_nil_null", "JP.C17.typed_nil_null_elem", "JP.C17.typed_agrees_with_untyped",
            "JP.C17.hasType_typesWf", "JP.C17.typed_escape_irrelevant_counterexample", "JP.C17.typed_escape_irrelevant_partial",
            "JP.C17.typed_escape_same_outcome", "JP.C17.typed_escape_irrelevant_unquoted", "JP.C17.typed_total",
            "JP.C17.typed_error_is_number", "JP.C17.typed_fuel_irrelevant", "JP.C17.typeFields_fuel_irrelevant",
            "JP.C17.typeFields_paths_valid",
        ],
        "JP.Props.C17float": [
            "JP.C17.float_roundtrip", "JP.C17.float_roundtrip_quoted", "JP.C17.float_roundtrip_bits",
            "JP.C17.float_encode_wellformed", "JP.C17.float_encode_wellformed_quoted", "JP.C17.float_encode_none_iff",
            "JP.C17.parse_sign", "JP.C17.parse_exact_nat", "JP.C17.store_exact_nat",
            "JP.C17.ofNat_value", "JP.C17.canonical_injective", "JP.C17.canonical_fixed",
            "JP.C17.encode_canonical", "JP.C17.format_exact_nat", "JP.C17.nat_literal_roundtrip",
            "JP.C17.canonical_nat", "JP.C17.format_neg", "JP.C17.canonical_neg",
            "JP.C17.numLitModelled_canonical", "JP.C17.canonicalB_iff", "JP.C17.float_roundtrip_pattern",
            "JP.C17.bits_fields", "JP.C17.parse_uses_roundRat", "JP.C17.round_nearest_even",
            "JP.C17.parse_zero", "JP.C17.round_nearest_all", "JP.C17.parse_nearest",
            "JP.C17.round_exact",
        ],
        # the shortest-digits search never gives up (closes `searchFails`; lemmas JP/Lemmas/FloatTotal*.lean)
        "JP.Props.C17floatTotal": [
            "JP.C17.search_total", "JP.C17.float_encode_none_iff'", "JP.C17.float_encode_total",
            "JP.C17.format_total", "JP.C17.round_of_close", "JP.C17.decPoint_low",
            "JP.C17.max_digits_candidate", "JP.C17.round_value_only", "JP.C17.round_scale",
            "JP.C17.layout_reads_back", "JP.C17.store_wf", "JP.C17.legacy_normNum_none_iff",
            "JP.C17.legacy_encNum_total",
        ],
        # closest-of-the-shortest, monotonicity, overflow threshold, integers to 2^53 (lemmas JP/Lemmas/FloatMore*.lean)
        "JP.Props.C17floatMore": [
            "JP.C17.round_overflow_iff", "JP.C17.overflow_iff", "JP.C17.overflow_value",
            "JP.C17.round_monotone", "JP.C17.round_interval", "JP.C17.le_iff_units",
            "JP.C17.parse_monotone", "JP.C17.search_is_minimal", "JP.C17.short_decimal_found",
            "JP.C17.decDist_eq", "JP.C17.search_is_closest", "JP.C17.decPoint_exact",
            "JP.C17.shortest_from_search", "JP.C17.shortest_is_shortest", "JP.C17.shortest_not_parsed_shorter",
            "JP.C17.shortest_is_closest", "JP.C17.format_exact_nat_53", "JP.C17.nat_literal_roundtrip_53",
            "JP.C17.canonical_nat_53", "JP.C17.format_nat_big_counterexample", "JP.C17.parse_exact_repr_nat",
            "JP.C17.format_exact_nat_reprGoal_false",
        ],
        "JP.Props.C17typeddec": [
            "JP.C17.typeddec_agrees_untyped", "JP.C17.typeddec_no_panic_untyped", "JP.C17.typeddec_panic_on_unsettable_pointer",
            "JP.C17.typeddec_result_typed", "JP.C17.typeddec_unknown_members_ignored", "JP.C17.typeddec_exact_before_fold",
            "JP.C17.typeddec_exact_before_fold_unique", "JP.C17.typeddec_last_duplicate_wins_int", "JP.C17.typeddec_last_duplicate_wins_string",
            "JP.C17.typeddec_last_duplicate_wins_map", "JP.C17.typeddec_roundtrip_iface_counterexample", "JP.C17.typeddec_roundtrip_ptr_counterexample",
            "JP.C17.typeddec_roundtrip_unrestricted_false", "JP.C17.typeddec_syntax_error", "JP.C17.typeddec_null",
            "JP.C17.typeddec_walk_stays_inside",
        ],
        "JP.Props.C17typeddecNP": [
            "JP.C17.typeddec_no_panic_no_fuel", "JP.C17.typeddec_no_panic_no_fuel_goal", "JP.C17.typeddec_decodable_needed",
            "JP.C17.typeddec_value_of_tree", "JP.C17.tvalue_struct", "JP.C17.tmember_unknown",
            "JP.C17.tstruct_filter_known", "JP.C17.typeddec_unknown_members_ignored_tree", "JP.C17.typeddec_all_unknown_tree",
            "JP.C17.typeddec_exact_before_fold_tree", "JP.C17.typeddec_last_duplicate_wins_int_tree", "JP.C17.typeddec_last_duplicate_wins_string_tree",
            "JP.C17.typeddec_last_duplicate_wins_map_tree", "JP.C17.tfield_top", "JP.C17.typeddec_last_duplicate_wins_struct_tree",
            "JP.C17.typeddec_roundtrip_via_tree", "JP.C17.top_sem", "JP.C17.typeddec_hard_error_of_tree",
            "JP.C17.typeddec_all_unknown_no_error", "JP.C17.typeddec_last_duplicate_wins_text",
        ],
        "JP.Props.C17typedRT": [
            "JP.C17.typeddec_parseInt_fmtInt", "JP.C17.typeddec_parseUint_decimal", "JP.C17.typeddec_roundtrip_leaf",
            "JP.C17.typeddec_roundtrip_leaf_reencode", "JP.C17.typeddec_roundtrip_bool", "JP.C17.typeddec_roundtrip_int",
            "JP.C17.typeddec_roundtrip_uint", "JP.C17.typeddec_roundtrip_string", "JP.C17.typeddec_roundtrip_seq",
            "JP.C17.typeddec_roundtrip_seq_reencode", "JP.C17.typeddec_roundtrip_ptr", "JP.C17.typeddec_roundtrip_ptr_reencode",
            "JP.C17.typeddec_roundtrip_map", "JP.C17.typeddec_roundtrip_map_reencode", "JP.C17.typeddec_roundtrip_classes",
            "JP.C17.typeddec_roundtrip_mapkeys", "JP.C17.typeddec_roundtrip_mapkeys_reencode",
        ],
    },
    "C20": {
        "JP.Props.C20": [
            "JP.C20.run_ok_iff", "JP.C20.run_status", "JP.C20.run_fail_clean", "JP.C20.run_missing",
            "JP.C20.run_order_opt", "JP.C20.run_order", "JP.C20.run_order_fail", "JP.C20.run_no_files",
            "JP.C20.run_one_file",
        ],
    },
    "C18": {
        "JP.Props.C19bytes": [
            "JP.C19.apply_output_valid_legacy", "JP.C19.apply_empty_doc_legacy",
        ],
        "JP.Props.C04legacy": [
            "JP.C04.legacy_decode_apply_no_panic",
        ],
        "JP.Props.C18": [
            "JP.C18.applyOps_refines", "JP.C18.apply_refines", "JP.C18.applyBytes_refines",
            "JP.C18.decodeOp_nn", "JP.C18.applyBytes_refines_plain",
        ],
        "JP.Props.C18agree": [
            "JP.C18.v5_legacy_agree_ops", "JP.C18.v5_legacy_agree", "JP.C18.v5_legacy_disagree_example",
        ],
        "JP.Props.C04heapLegacy": [
            "JP.C04heapLegacy.ex_repr", "JP.C04heapLegacy.repr_is_v5", "JP.C04heapLegacy.shared_not_repr",
            "JP.C04heapLegacy.repr_frame", "JP.C04heapLegacy.repr_write", "JP.C04heapLegacy.repr_alloc",
            "JP.C04heapLegacy.repr_tree", "JP.C04heapLegacy.intoDoc_refines", "JP.C04heapLegacy.intoAry_refines",
            "JP.C04heapLegacy.intoContainer_refines", "JP.C04heapLegacy.get_refines", "JP.C04heapLegacy.add_refines",
            "JP.C04heapLegacy.set_refines", "JP.C04heapLegacy.remove_refines", "JP.C04heapLegacy.find_refines",
            "JP.C04heapLegacy.findObject_refines", "JP.C04heapLegacy.findObject_twice", "JP.C04heapLegacy.remove_op_refines",
            "JP.C04heapLegacy.add_op_refines", "JP.C04heapLegacy.replace_op_refines", "JP.C04heapLegacy.move_op_refines",
            "JP.C04heapLegacy.copy_op_refines", "JP.C04heapLegacy.test_op_refines", "JP.C04heapLegacy.apply_refines_legacy",
            "JP.C04heapLegacy.tree_preserved_legacy", "JP.C04heapLegacy.marshal_terminates_legacy", "JP.C04heapLegacy.abs_terminates_legacy",
            "JP.C04heapLegacy.marshalRoot_eq_legacy", "JP.C04heapLegacy.applyHeapL_eq", "JP.C04heapLegacy.applyHeapL_no_panic",
            "JP.C04heapLegacy.patch_values_fresh_legacy",
        ],
    },
    "C19": {
        "JP.Props.C19bytes": [
            "JP.C19.text_layer_legacy", "JP.C19.mergePatch_bytes_legacy", "JP.C19.mergePatch_bytes_legacy_eqv",
            "JP.C19.merge_scalar_rejected_legacy", "JP.C19.mergePatch_errors_legacy", "JP.C19.mergeMerge_bytes_legacy",
            "JP.C19.library_law_legacy", "JP.C19.create_value_legacy", "JP.C19.create_refines_legacy",
            "JP.C19.create_roundtrip_legacy", "JP.C19.create_roundtrip_merge_legacy", "JP.C19.create_minimal_legacy",
            "JP.C19.create_null_legacy", "JP.C19.resemblesJSONArray_eq", "JP.C19.create_rejects_legacy",
            "JP.C19.create_array_refines_legacy", "JP.C19.equal_bytes_legacy", "JP.C19.equal_text_legacy",
            "JP.C19.equal_malformed_legacy", "JP.C19.merge_output_valid_legacy", "JP.C19.create_output_valid_legacy",
            "JP.C19.apply_output_valid_legacy",
        ],
        "JP.Props.C19float": [
            "JP.C19.createF_agrees", "JP.C19.createF_agrees_of_good", "JP.C19.createF_agrees_modelled",
            "JP.C19.create_value_float", "JP.C19.create_refines_float", "JP.C19.create_roundtrip_float",
            "JP.C19.create_roundtrip_merge_float", "JP.C19.create_minimal_float", "JP.C19.create_same_float",
            "JP.C19.create_null_float", "JP.C19.create_array_refines_float", "JP.C19.create_output_valid_float",
            "JP.C19.create_rejects_float", "JP.C19.create_overflow_float",
            "JP.C19.negZero_agrees_counterexample", "JP.C19.negZero_roundtrip_counterexample",
            "JP.C19.create_upToZero_float",
            "JP.Legacy.floatEqLit_good", "JP.Legacy.getDiffF_eq", "JP.Legacy.encV_of_NV", "JP.Legacy.NVM_getDiff",
            "JP.Legacy.floatEqLit_canonical", "JP.Legacy.zeroNormM_getDiffF", "JP.Legacy.zeroNorm_merge",
            "JP.Legacy.eqv_zeroNorm",
        ],
        # depends on the float theorems (JP.Props.C17float, JP/Lemmas/Float*.lean)
        "JP.Props.C19floatNat": [
            "JP.C19.modelledGood", "JP.C19.createF_extends_modelled", "JP.C19.createModelled_canonical",
        ],
        "JP.Props.C03spec": [
            "JP.C03.roundtrip", "JP.C03.empty_iff", "JP.C03.minimal_rec",
        ],
        "JP.Props.C19law": [
            "JP.C19.composeLaw_holds",
        ],
        "JP.Props.C19": [
            "JP.C19.merge_refines", "JP.C19.mergeDocs_refines", "JP.C19.pruneNulls_spec",
            "JP.C19.doMergePatch_refines", "JP.C19.mergePatch_value", "JP.C19.mergeMerge_refines",
            "JP.C19.mergeMergePatches_refines", "JP.C19.composition_law", "JP.C19.equal_trees",
            "JP.C19.equal_iff_plain", "JP.C19.equal_iff_partial", "JP.C19.equal_texts",
            "JP.C19.eqNC_iff",
        ],
    },
}

OPEN = {
    "C01": ["the byte-level theorem carries `result depth <= 10000` (needed: the reference parser has a nesting limit, Marshal has none; counterexample in C01bytes.lean)"],
    "C03": [],
    "C04": ["v5: the Go heap of *lazyNode is modelled by a store (JP/Heap/Model.lean) and PROVED to be refined by the value model (JP.C04heap.applyHeap_eq, tree_preserved, marshal_terminates: no sharing, no cycle, Marshal returns); residual: the store model is a hand transcription (one cell = a lazyNode together with the partialDoc/partialArray it owns; `equal` = verdict on the abstraction + in-place deepParse on success), tied to /repo by the per-case comparison applyHeap = applyBytes in the apply streams; the legacy root package has its own store model (JP/Heap/LegacyModel.lean: the v5 cells read the legacy way, partialDoc = map without key list, nil raw message = its own cell) PROVED to be refined by the legacy value model with no hypothesis (JP.C04heapLegacy.applyHeapL_eq, tree_preserved_legacy, marshal_terminates_legacy); residual there too: hand transcription, tied to /repo by the per-case comparison applyHeapL = Legacy.applyBytes on every LAPPLY line"],
    "C09": ["'no exported function writes to the byte slices or Patch it is given' is observed and supported by regenerated facts, not a theorem"],
    "C10": ["data-race freedom under the Go memory model: executed schedules only (race detector)"],
    "C15": ["tests_transparent holds outside the known-finding trigger class and for duplicate-free names (C15.counterexample_dup shows duplicates break it: outside every property's domain)"],
    "C16": [],
    "C17": ["foreign MarshalJSON/MarshalText methods and recursive types: differential testing against encoding/json only; the ENCODER and the DECODER on typed values / targets — structs, tags, embedding, maps, slices, arrays, pointers — are modelled (JP/Codec/Typed.lean, stream `typed`, JP.Props.C17typed; JP/Codec/TypedDecode.lean + TypedFold.lean, stream `typeddec`, JP.Props.C17typeddec)",
            "typed DECODER: typeddec_no_panic_no_fuel is PROVED on ALL decodable types (JP.Props.C17typeddecNP; a TAGGED embedded pointer to an unexported struct makes the real decoder and encoding/json panic in reflect.Value.Set: outside the theorem's domain, typeddec_decodable_needed), the decoded value is a structural recursion over the parse tree of the whole text (typeddec_value_of_tree: TDec.tvalue) and the struct-member theorems are restated over that tree (…_tree; duplicates: ADJACENT members only, scalar fields of the struct itself and map entries); the saved error and its Offset are not part of the tree function (proved apart: a returned error iff TR.abort is one direction, typeddec_hard_error_of_tree; no error at all when every member name is unknown, for EVERY struct type, typeddec_all_unknown_no_error); open: typeddec_roundtripGoal (PROVED for leaf kinds, nested slices and fixed arrays, one pointer level and maps with string or integer keys: JP.Props.C17typedRT; structs open) (reduced to a statement about typedCst and tvalue: typeddec_roundtrip_via_tree; its unrestricted form is refuted: typeddec_roundtrip_unrestricted_false); errorContext (Struct/Field of the message) and Decoder.DisallowUnknownFields are not modelled; float-kinded fields are outside GoType (floats are modelled separately: JP/Codec/Float.lean)",
            "floats (JP/Codec/Float.lean, stream `float`, JP.Props.C17float): the shortest-digits search checks its own answer, so the round trip is proved by construction; that the search never gives up (17 / 9 digits always suffice, the bytes laid out are read back) IS proved (JP.Props.C17floatTotal: search_total, float_encode_none_iff' — `searchFails` is still evaluated on every generated value); that the digits are the SHORTEST ones and of these the CLOSEST to the exact value, ties to the even last digit, IS proved (JP.Props.C17floatMore: shortest_is_shortest, shortest_not_parsed_shorter, shortest_is_closest, decPoint_exact); `parseFloat` is proved to be `roundRat` on the exact fraction for every literal (shortcuts for astronomic exponents included) and `roundRat` to round to the nearest integer significand (ties to even) at the exponent of the value's binade (round_nearest_even); and that result is nearest to the value among ALL finite floats of the format (round_nearest_all, parse_nearest); monotonicity (round_monotone, round_interval, parse_monotone in the order FP.le of the exact values) and the overflow threshold (overflow_iff: range error exactly from maxFinite + ulp/2 = overflowThr on) are proved (JP.Props.C17floatMore); format_exact_nat_53 holds for every n < 2^53, and for representable integers from 2^53 up to 10^21 the goal format_exact_nat_reprGoal is REFUTED (format_exact_nat_reprGoal_false, format_nat_big_counterexample: 2^69 prints as 590295810358705700000, the shortest digits padded with zeros; what does hold there: the decimal digits of every integer float are read back exactly, parse_exact_repr_nat); literals with more than 800 significant INTEGER digits are outside the model's domain (`withinGoDigits`): there strconv.ParseFloat itself is not correctly rounded (\"1\" + 800 zeros + \"e-800\" reads as 0.1 in the fork and in encoding/json alike); float fields inside typed values (stream `typed`) are still not generated",
            "typed_escape_irrelevantGoal (equal values under both EscapeHTML settings) is refuted for `,string` fields of kind string (JP.C17.typed_escape_irrelevant_counterexample: the standard library's own behaviour); proved up to the relation escRel",
            "Decoder/Encoder streams are modelled (JP/Codec/Stream.lean) for the decoder model's target types and the encoder model's value shapes; refill's chunking is abstracted (checked by differential runs through five chunkings), messages/offsets of stream-level errors are not modelled; Encode with a NON-EMPTY prefix: the bytes are the modelled Indent (compared differentially), parse-back is proved for the empty prefix only; `syntaxStickyEveryCallGoal` is false in the real code and in encoding/json (Token/More ignore dec.err): proved for every later Decode",
            "the unchecked entry points (UnmarshalValid*) on ILL-FORMED texts: model validated by testing only (the library never calls them behind a failed Valid gate)"],
    "C19": ["CreateMergePatch is modelled for ALL numbers (Legacy.createMergePatchF on JP/Codec/Float.lean; compared with the Go code on every case) and proved for C19's quantifier (numbers spelled the way Go prints a float64, `createCanonical`): on literals without `-0` (create_*_float; negZero_*_counterexample), and with `-0` up to float equality (create_upToZero_float = the run-time predicate Legacy.c19create). Outside canonical spellings (1.0, 1e2, ...) the model is validated by the correspondence only; that `floatEncode` never answers the defensive `none` on a finite float is proved (JP.C17.legacy_encNum_total, search_total)"],
    "C20": ["go-flags, OS, process exit: observed only"],
}
ASSUME = {
    "C01": ["member names are duplicate-free (RFC 8259 leaves repeated names open)"],
    "C02": ["member names are duplicate-free; document is not null"],
    "C06": ["numbers compared by literal text"],
    "C18": ["the statement's own domain: see DESIGN 13.4", "Legacy.strictOp: the path of every remove/move/copy and the from of every move parse as RFC 6901 pointers"],
}
