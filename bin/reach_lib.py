"""Statement reach of the generated streams (used by bin/reach and by bin/check --tier thorough).

Measures which statements of /repo's non-test sources the generated streams of ALL properties actually execute
(Go's own coverage instrumentation: `go build -cover -coverpkg=…` of the harness, GOCOVERDIR, `go tool covdata`).
The correspondence check is sampled; this is the measure of its reach into the code: a statement no stream executes
is a place where a behavioural change can only be seen by the regenerated facts, never by a failing input.
Not a check and not a proof: it measures how far the sampled correspondence reaches into the code.
"""
import concurrent.futures as cf
import json
import os
import re
import shutil
import subprocess
import sys

VERIF = os.path.dirname(os.path.dirname(os.path.abspath(__file__)))
sys.path.insert(0, os.path.join(VERIF, "bin"))

REPO = os.environ.get("VERIF_REPO", "/repo")
BUILD = os.path.join(VERIF, "build")
GOENV = dict(os.environ, GOFLAGS="-mod=mod", GOPROXY="off", GOSUMDB="off", GOTOOLCHAIN="local")
PKGS = "github.com/evanphx/json-patch/v5,github.com/evanphx/json-patch/v5/internal/json,github.com/evanphx/json-patch"


def sh(cmd, **kw):
    return subprocess.run(cmd, stdout=subprocess.PIPE, stderr=subprocess.PIPE, text=True, **kw)


def build(tag="reach"):
    d = os.path.join(BUILD, tag)
    shutil.rmtree(d, ignore_errors=True)
    os.makedirs(d)
    leg = os.path.join(d, "legacy")
    os.makedirs(leg)
    for f in os.listdir(REPO):
        if f.endswith(".go") and not f.endswith("_test.go"):
            shutil.copy(os.path.join(REPO, f), leg)
    with open(os.path.join(leg, "go.mod"), "w") as fh:
        fh.write("module github.com/evanphx/json-patch\n\ngo 1.18\n")
    src = os.path.join(d, "src")
    shutil.copytree(os.path.join(VERIF, "harness"), src)
    with open(os.path.join(src, "go.mod"), "w") as fh:
        fh.write("module github.com/evanphx/json-patch/v5/zverif\n\ngo 1.18\n\n"
                 "require (\n\tgithub.com/evanphx/json-patch v0.0.0\n\tgithub.com/evanphx/json-patch/v5 v5.0.0\n)\n\n"
                 f"replace github.com/evanphx/json-patch/v5 => {REPO}/v5\n\n"
                 f"replace github.com/evanphx/json-patch => {leg}\n")
    shutil.copy(os.path.join(REPO, "v5", "go.sum"), os.path.join(src, "go.sum"))
    r = sh(["go", "build", "-tags", "verif", "-cover", "-coverpkg=.," + PKGS, "-o", os.path.join(d, "harness"), "."], cwd=src, env=GOENV)
    if r.returncode != 0:
        raise RuntimeError("go build -cover of the harness: " + r.stderr[-3000:])
    return d


def measure(streams, tier="quick", seed=1, tag="reach"):
    """streams: dict {(name, arg): n}. Returns {"files": {...}, "not_executed": {...}} or raises RuntimeError."""
    d = build(tag)
    try:
        return _measure(d, streams, tier, seed)
    finally:
        if not os.environ.get("REACH_KEEP"):
            shutil.rmtree(d, ignore_errors=True)


def _measure(d, streams, tier, seed):
    jobs = []
    covroot = os.path.join(d, "cov")
    os.makedirs(covroot)

    def run(i, args):
        cd = os.path.join(covroot, str(i))
        os.makedirs(cd)
        r = subprocess.run([os.path.join(d, "harness")] + [str(x) for x in args], stdout=subprocess.DEVNULL, stderr=subprocess.PIPE,
                           env=dict(GOENV, GOCOVERDIR=cd, GOMEMLIMIT="6GiB"), timeout=3600)
        return args, r.returncode

    failed = []
    with cf.ThreadPoolExecutor(max_workers=int(os.environ.get("VERIF_JOBS", "12"))) as ex:
        i = 0
        for (name, arg), n in sorted(streams.items()):
            if name in ("cli", "conc"):
                continue   # separate binaries / race build
            if name == "small":
                if tier != "thorough":
                    continue
                for k in range(12):
                    jobs.append(ex.submit(run, i, [name, k, 12])); i += 1
            elif name == "e2x":
                for k in range(8):
                    jobs.append(ex.submit(run, i, [name, k, 8])); i += 1
            elif name in ("corpus", "scan", "validx", "index", "lindex", "deep"):
                jobs.append(ex.submit(run, i, [name, 0, arg if name == "validx" else 0])); i += 1
            else:
                shards = max(1, min(12, n // 1500))
                for k in range(shards):
                    jobs.append(ex.submit(run, i, [name, seed * 1000 + k, max(1, n // shards)])); i += 1
        for j in jobs:
            args, rc = j.result()
            if rc != 0:
                failed.append((args, rc))
    dirs = ",".join(os.path.join(covroot, x) for x in os.listdir(covroot))
    prof = os.path.join(d, "cov.txt")
    r = sh(["go", "tool", "covdata", "textfmt", "-i=" + dirs, "-o=" + prof], env=GOENV)
    if r.returncode != 0:
        raise RuntimeError("go tool covdata: " + r.stderr[-1500:])
    blocks = {}
    for line in open(prof):
        m = re.match(r"(.+?):(\d+)\.(\d+),(\d+)\.(\d+) (\d+) (\d+)", line)
        if not m:
            continue
        key = (m.group(1), int(m.group(2)), int(m.group(3)), int(m.group(4)), int(m.group(5)))
        ns, cnt = int(m.group(6)), int(m.group(7))
        prev = blocks.get(key, (ns, 0))
        blocks[key] = (ns, prev[1] + cnt)
    per_file, uncovered = {}, {}
    for (f, sl, sc, el, ec), (ns, cnt) in blocks.items():
        if "/zverif/" in f or f.endswith("verif_hook.go"):
            continue
        short = f.replace("github.com/evanphx/json-patch/v5/", "v5/").replace("github.com/evanphx/json-patch/", "")
        t = per_file.setdefault(short, [0, 0])
        t[0] += ns
        if cnt > 0:
            t[1] += ns
        else:
            uncovered.setdefault(short, []).append([sl, el, ns])
    for v in uncovered.values():
        v.sort()
    return {"files": {f: {"statements": t[0], "executed": t[1], "percent": round(100.0 * t[1] / max(1, t[0]), 1)} for f, t in sorted(per_file.items())},
            "not_executed": {f: v for f, v in sorted(uncovered.items())},
            "streams_failed": [f"{a} exit {rc}" for a, rc in failed]}
