"""Per-property plan: which generated streams run (name, cases quick, cases thorough
[, argument]), which Lean theorems are the proof obligations (fully qualified names,
checked by the audit for existence, theorem-hood and axioms), which regenerated-fact
theorems belong to it, and how cases are counted."""

ALLOWED_AXIOMS = {"propext", "Classical.choice", "Quot.sound"}

TRUSTED = [
    "Lean 4.33.0 kernel (lake build; leanchecker in the thorough tier)",
    "axioms admitted: propext, Classical.choice, Quot.sound (audited per theorem by Lean.collectAxioms)",
    "the specifications (JP/Spec/*.lean, JP/Cst.lean parseCst, JP/Value.lean eqv) are read, not proved",
    "correspondence machinery: Go harness (harness/*.go), hex line protocol, Lean driver I/O (JP/Driver.lean, Main.lean), bin/check aggregation",
    "fact extractor bin/extract_facts.py (textual, brace matching on gofmt-formatted source) and the Go toolchain",
    "generator reach: the correspondence is sampled (distribution printed in coverage.input_distribution_top), never assumed complete",
]

F = "JP.Facts."

# which module proves which regenerated fact (split by source file, so that an edit to one
# file only touches the obligations of the properties anchored there)
FACT_MODULE = {
    "JP.Facts.bodies_v5_patch_eq": "JP.Props.Bodies.V5Patch",
    "JP.Facts.bodies_v5_merge_eq": "JP.Props.Bodies.V5Merge",
    "JP.Facts.bodies_codec_scanner_eq": "JP.Props.Bodies.CodecScanner",
    "JP.Facts.bodies_codec_indent_eq": "JP.Props.Bodies.CodecIndent",
    "JP.Facts.bodies_codec_decode_eq": "JP.Props.Bodies.CodecDecode",
    "JP.Facts.bodies_codec_encode_eq": "JP.Props.Bodies.CodecEncode",
    "JP.Facts.bodies_codec_stream_eq": "JP.Props.Bodies.CodecStream",
    "JP.Facts.bodies_codec_other_eq": "JP.Props.Bodies.CodecOther",
    "JP.Facts.bodies_legacy_patch_eq": "JP.Props.Bodies.LegacyPatch",
    "JP.Facts.bodies_legacy_merge_eq": "JP.Props.Bodies.LegacyMerge",
    "JP.Facts.bodies_cmd_eq": "JP.Props.Bodies.Cmd",
    "JP.Facts.sourceFilesOutsideGroups_eq": "JP.Props.Bodies.Files",
    "JP.Facts.applyReturnsNil_eq": "JP.Props.FactsPatch",
    "JP.Facts.codecConditions_eq": "JP.Props.FactsCodec",
    "JP.Facts.codecVars_eq": "JP.Props.FactsCodec",
    "JP.Facts.conditions_eq": "JP.Props.FactsPatch",
    "JP.Facts.decodePool_eq": "JP.Props.FactsCodec",
    "JP.Facts.defaults_eq": "JP.Props.FactsPatch",
    "JP.Facts.disallowUnknown_eq": "JP.Props.FactsCodec",
    "JP.Facts.errorSites_eq": "JP.Props.FactsPatch",
    "JP.Facts.hex_eq": "JP.Props.FactsCodec",
    "JP.Facts.htmlSafeSet_eq": "JP.Props.FactsCodec",
    "JP.Facts.initResets_eq": "JP.Props.FactsCodec",
    "JP.Facts.inputWrites_eq": "JP.Props.FactsPatch",
    "JP.Facts.keysMentions_eq": "JP.Props.FactsPatch",
    "JP.Facts.lastKeys_sites_eq": "JP.Props.FactsCodec",
    "JP.Facts.legacyConditions_eq": "JP.Props.FactsLegacy",
    "JP.Facts.legacyDefaults_eq": "JP.Props.FactsLegacy",
    "JP.Facts.legacyErrorSites_eq": "JP.Props.FactsLegacy",
    "JP.Facts.legacyUsesStdlib_eq": "JP.Props.FactsLegacy",
    "JP.Facts.maxNestingDepth_eq": "JP.Props.FactsCodec",
    "JP.Facts.mergeConditions_eq": "JP.Props.FactsMerge",
    "JP.Facts.newEncodeState_eq": "JP.Props.FactsCodec",
    "JP.Facts.newOptions_eq": "JP.Props.FactsPatch",
    "JP.Facts.newScanner_eq": "JP.Props.FactsCodec",
    "JP.Facts.opDispatch_eq": "JP.Props.FactsPatch",
    "JP.Facts.packageVarWrites_eq": "JP.Props.FactsPatch",
    "JP.Facts.packageVars_eq": "JP.Props.FactsPatch",
    "JP.Facts.safeSet_eq": "JP.Props.FactsCodec",
    "JP.Facts.streamShape_eq": "JP.Props.FactsCodec",
    "JP.Facts.tokenStates_eq": "JP.Props.FactsCodec",
    "JP.Facts.scanOpcodes_eq": "JP.Props.FactsCodec",
    "JP.Facts.scanReset_eq": "JP.Props.FactsCodec",
    "JP.Facts.useNumber_eq": "JP.Props.FactsCodec",
    "JP.Facts.validGates_eq": "JP.Props.FactsPatch",
    "JP.Facts.validateKinds_eq": "JP.Props.FactsPatch",
}

_apply_rule = ("documents are generated type-directed (sizes <= ~40 nodes, names/numbers/strings from pools with awkward spellings, three "
               "spelling modes), patches of 0-6 operations whose pointers are drawn relative to the document as it evolves (the prefix is "
               "applied with the real library), plus near-misses; a case is non-trivial when the property predicate returned ok (not "
               "unspec) on it; distinct = distinct request text (hash of options+document+patch)")

PLAN = {
    "C01": dict(
        streams=[("corpus", 0, 0), ("apply", 12000, 150000), ("ensure", 2000, 20000), ("allow", 2000, 20000), ("bytes", 1500, 20000),
                 ("small", 0, 0), ("index", 0, 0)],
        theorems=[],
        facts=[F + "opDispatch_eq", F + "defaults_eq", F + "newOptions_eq", F + "errorSites_eq", F + "conditions_eq"],
        rule=_apply_rule,
    ),
    "C02": dict(
        streams=[("corpus", 0, 0), ("merge", 12000, 150000), ("bytes", 1500, 20000)],
        theorems=[],
        facts=[F + "validGates_eq", F + "mergeConditions_eq"],
        rule="(document, merge patch) pairs: the patch is derived from the document (touches, deletes, nests, replaces by type) so that most "
             "members are shared; nulls at every depth, arrays containing objects with nulls, scalar/array/null roots; non-trivial = C02 "
             "predicate ok (document non-null, names duplicate-free); distinct = distinct (document, patch) text",
    ),
    "C03": dict(
        streams=[("corpus", 0, 0), ("create", 12000, 150000), ("bytes", 1500, 20000)],
        theorems=[],
        facts=[F + "validGates_eq", F + "useNumber_eq", F + "mergeConditions_eq"],
        rule="(A, B) pairs with B derived from A by random edits (delete/add/replace/reorder members, edit elements), arrays of objects, "
             "mismatched roots, magnitudes beyond float64; the produced patch is re-applied with the library's MergePatch and with the "
             "reference merge; non-trivial = C03 predicate ok; distinct = distinct (A, B) text",
    ),
    "C04": dict(
        streams=[("corpus", 0, 0), ("bytes", 12000, 120000), ("apply", 3000, 30000), ("entry", 2000, 20000), ("deep", 0, 0), ("decode", 2000, 20000),
                 ("legacy-bytes", 6000, 60000)],
        theorems=[],
        facts=[F + "validGates_eq", F + "conditions_eq", F + "mergeConditions_eq", F + "codecConditions_eq", F + "legacyConditions_eq"],
        rule="arbitrary byte strings (hand-made malformed texts, corrupted well-formed texts, deep nesting at 9999/10000/10001) and awkward "
             "well-formed values (null roots, nulls in arrays, empty keys, root-replacing prefixes) into every entry point of both packages, "
             "each call under recover() and a 180 s watchdog; non-trivial = the call returned (C04 ok); distinct = distinct request",
    ),
    "C05": dict(
        streams=[("corpus", 0, 0), ("apply", 12000, 150000), ("merge", 6000, 60000), ("small", 0, 0), ("index", 0, 0)],
        theorems=[],
        facts=[F + "useNumber_eq", F + "opDispatch_eq", F + "conditions_eq"],
        rule=_apply_rule + "; the output is read back by the order- and literal-preserving reference parser and compared with the ORDERED "
             "specification result (Value.beq)",
    ),
    "C06": dict(
        streams=[("corpus", 0, 0), ("equal", 12000, 150000), ("bytes", 1500, 20000)],
        theorems=[],
        facts=[F + "validGates_eq", F + "conditions_eq"],
        rule="pairs (a, b) with b a copy, a member-shuffle or a small mutation of a, independently re-spelled (whitespace, escapes), a few "
             "corrupted; both orders are asked; non-trivial = C06 predicate ok (not numerically-equal-but-differently-spelled, names "
             "duplicate-free); distinct = distinct (a, b) text",
    ),
    "C07": dict(
        streams=[("corpus", 0, 0), ("compose", 12000, 150000)],
        theorems=[],
        facts=[F + "validGates_eq", F + "mergeConditions_eq"],
        rule="(P1, P2, D) with P1 derived from D and P2 derived from merge(D,P1) or shaped after P1 (overlaps at depth), both the reference "
             "merge and the library's MergePatch applied; non-trivial = C07 predicate ok (compatible patches, non-null D); distinct = distinct "
             "request",
    ),
    "C08": dict(
        streams=[("corpus", 0, 0), ("apply", 12000, 150000), ("limit", 3000, 30000), ("small", 0, 0), ("index", 0, 0), ("hist", 3000, 30000)],
        theorems=[],
        facts=[F + "errorSites_eq", F + "applyReturnsNil_eq", F + "opDispatch_eq", F + "conditions_eq"],
        rule=_apply_rule + "; for a failing patch the harness also applies the patch cut after its first failing operation; non-trivial = C08 "
             "predicate ok",
    ),
    "C09": dict(
        streams=[("hist", 12000, 120000)],
        theorems=[],
        facts=[F + "packageVars_eq", F + "codecVars_eq", F + "initResets_eq", F + "useNumber_eq", F + "scanReset_eq", F + "newScanner_eq",
               F + "newEncodeState_eq", F + "lastKeys_sites_eq", F + "disallowUnknown_eq", F + "keysMentions_eq", F + "packageVarWrites_eq",
               F + "decodePool_eq", F + "inputWrites_eq"],
        rule="call histories over a fixed set of prepared calls (Apply with one shared decoded Patch, Equal, MergePatch, CreateMergePatch, "
             "DecodePatch; some malformed or failing), each call repeated at random points, sync.Pools poisoned with adversarial leftovers "
             "in between (VerifPoisonPools); every result is judged against the history-free model byte for byte and inputs are compared "
             "with snapshots; non-trivial = the call agreed with the model and no input changed; distinct = distinct request",
    ),
    "C10": dict(
        streams=[("conc", 3000, 30000), ("hist", 3000, 30000), ("cold", 150, 1500)],
        theorems=[],
        facts=[F + "packageVars_eq", F + "codecVars_eq", F + "scanReset_eq", F + "newScanner_eq", F + "newEncodeState_eq",
               F + "packageVarWrites_eq", F + "decodePool_eq", F + "inputWrites_eq"],
        rule="4-8 goroutines run random call lists over shared Patch values and shared input slices under the race detector; every result "
             "is judged against the sequential model; stream cold: every trial is a FRESH process whose first calls (DecodePatch + ApplyWithOptions with a copy) are made by 16 "
             "goroutines released together, so that whatever the library fills lazily per type or per process is filled under contention; "
             "non-trivial = agreed with the model, no race report; distinct = distinct request",
    ),
    "C11": dict(
        streams=[("corpus", 0, 0), ("decode", 12000, 150000), ("entry", 2000, 20000)],
        theorems=[],
        facts=[F + "validateKinds_eq", F + "validGates_eq", F + "errorSites_eq", F + "conditions_eq"],
        rule="patch documents built member by member with systematic mutations (absent, null, retyped, duplicated, upper-cased, reordered "
             "members; unknown and wrong-case kinds; non-object elements; non-array roots; corrupted text); non-trivial = C11 predicate ok; "
             "distinct = distinct text",
    ),
    "C12": dict(
        streams=[("corpus", 0, 0), ("limit", 12000, 120000), ("legacy-limit", 3000, 30000), ("hist", 3000, 30000)],
        theorems=[],
        facts=[F + "defaults_eq", F + "legacyDefaults_eq", F + "newOptions_eq", F + "errorSites_eq", F + "conditions_eq"],
        rule="patches containing copies; the cumulative copy totals are learnt from the library's own error values and the limit is set to "
             "total-1 / total / total+1 of a random copy; both EscapeHTML settings; non-trivial = C12 predicate ok with a positive limit; "
             "distinct = distinct request",
    ),
    "C13": dict(
        streams=[("corpus", 0, 0), ("allow", 12000, 120000), ("index", 0, 0)],
        theorems=[],
        facts=[F + "errorSites_eq", F + "conditions_eq"],
        rule="patches rich in removes of near-miss paths, run three ways: option on; one operation at a time to find the removes the option "
             "skips; option off with those removes deleted; non-trivial = C13 predicate ok; distinct = distinct request",
    ),
    "C14": dict(
        streams=[("corpus", 0, 0), ("ensure", 12000, 120000)],
        theorems=[],
        facts=[F + "errorSites_eq", F + "conditions_eq"],
        rule="adds whose path leaves an existing prefix and continues with 1-4 fresh tokens (names, indices at/after the end, '-', names "
             "with ~ and /, a few out-of-domain spellings), followed by further operations; non-trivial = C14 predicate ok (in domain); "
             "distinct = distinct request",
    ),
    "C15": dict(
        streams=[("corpus", 0, 0), ("apply", 10000, 100000), ("testtr", 4000, 40000), ("merge", 3000, 30000), ("compose", 2000, 20000),
                 ("create", 2000, 20000), ("bytes", 1500, 15000)],
        theorems=[],
        facts=[F + "safeSet_eq", F + "htmlSafeSet_eq", F + "hex_eq", F + "conditions_eq", F + "codecConditions_eq"],
        rule=_apply_rule + "; output bytes are compared exactly with the model, parsed by the reference parser, scanned for raw < > & "
             "U+2028/9 and new escapes, ApplyIndent compared with the model's Indent of Apply, passing tests removed and bytes compared",
    ),
    "C16": dict(
        streams=[("corpus", 0, 0), ("scan", 0, 0), ("valid", 12000, 150000), ("entry", 4000, 40000), ("deep", 0, 0), ("validx", 0, 0, 4)],
        theorems=[],
        facts=[F + "maxNestingDepth_eq", F + "validGates_eq", F + "scanOpcodes_eq", F + "codecConditions_eq"],
        rule="the scanner's whole transition table (31 states x 16 stacks x 256 bytes, dumped by the verif hook) compared row by row with "
             "the model's step; texts: hand-made malformed, generated well-formed in three spellings, corrupted, depth 9999/10000/10001, all "
             "strings up to length 4 over a 16-byte alphabet; every public entry point on each; non-trivial = C16 predicate ok; distinct = "
             "distinct text/row",
    ),
    "C17": dict(
        streams=[("corpus", 0, 0), ("codec", 12000, 120000), ("std", 6000, 60000), ("streamprog", 4000, 60000), ("typed", 6000, 80000), ("typeddec", 6000, 80000), ("float", 8000, 120000), ("e2x", 0, 0)],
        theorems=[],
        facts=[F + "safeSet_eq", F + "htmlSafeSet_eq", F + "hex_eq", F + "useNumber_eq", F + "codecConditions_eq",
               F + "tokenStates_eq", F + "streamShape_eq"],
        rule="the embedded codec's Compact/Indent/HTMLEscape/Unmarshal+MarshalEscaped/UnmarshalWithKeys/Marshal(string) on generated and "
             "corrupted texts, compared byte for byte with the model; differential runs against encoding/json on dynamic values, tagged "
             "structs, Encoder and Decoder streams (STD lines: testing, not proof); stream `streamprog` (STREAM lines): the real "
             "Decoder (UseNumber) driven by random programs of Token / More / Decode(into 8 target types) over well-formed value "
             "sequences, truncated and corrupted ones, through readers with five chunkings, and Encoder.Encode of 1-3 generated Go "
             "values with both escape settings, prefix and indent, each compared byte for byte with the trace of the stream model "
             "JP/Codec/Stream.lean; "
             "stream typed: MarshalEscaped on typed values of "
             "run-time generated and declared struct types (tags, options, embedding to depth 3, clashing names, integer-keyed maps, "
             "arrays, []byte, pointers, interfaces; no floats) against the model marshalTyped, and against encoding/json; "
             "stream float (FLOAT lines): Marshal of float64 / float32 values and of `,string` fields (bit patterns: uniform, sparse "
             "mantissas, powers of two and ten and their neighbours, the 1e-6 / 1e21 cutoffs of both widths, subnormals, extremes, "
             "binades where two shortest candidates tie, NaN/Inf) and Unmarshal of number literals into float64 / float32 / pointers / "
             "interface{} (1-40 random digits, exact midpoints between adjacent floats written out in up to 1000 digits and perturbed in "
             "the last place, overflow thresholds, huge and tiny exponents, signed zeros, the classical hard cases) in the fork AND in "
             "encoding/json, each compared with JP/Codec/Float.lean bit for bit and byte for byte; "
             "non-trivial = C17 predicate ok",
    ),
    "C18": dict(
        streams=[("legacy-apply", 12000, 120000), ("legacy-bytes", 2000, 20000), ("lindex", 0, 0)],
        theorems=[],
        facts=[F + "legacyErrorSites_eq", F + "legacyDefaults_eq", F + "legacyUsesStdlib_eq", F + "legacyConditions_eq"],
        rule=_apply_rule + "; run against a staged copy of the root package built from the working tree",
    ),
    "C19": dict(
        streams=[("legacy-merge", 8000, 80000), ("legacy-create", 6000, 60000), ("legacy-compose", 6000, 60000), ("legacy-equal", 6000, 60000)],
        theorems=[],
        facts=[F + "legacyUsesStdlib_eq", F + "legacyConditions_eq"],
        rule="as C02/C03/C06/C07 but against the staged root package, within the domain the statement gives (object/array patches, "
             "object roots with numbers spelled the way Go prints a float64 for CreateMergePatch (values compared up to `0 == -0`; the model Legacy.createMergePatchF is compared on ALL inputs), escape-free container-rooted texts for Equal)",
    ),
    "C20": dict(
        streams=[("cli", 400, 4000)],
        theorems=[],
        facts=[F + "defaults_eq"],
        rule="the two commands built from the working tree, run in a scratch directory on a generated document and 0-3 patch files (valid, "
             "failing, corrupted, missing); stdout, emptiness of stdout on failure and exit status compared with the fold of the library's "
             "Apply; non-trivial = C20 predicate ok; distinct = distinct invocation",
    ),
}

# theorem lists are kept in a separate file so that they can be grown without touching the rest
try:
    from theorems import THEOREMS, OPEN, ASSUME  # noqa: E402
    for _k, _v in THEOREMS.items():
        # {module: [theorem names]}
        PLAN[_k]["modules"] = _v
        PLAN[_k]["theorems"] = [n for ns in _v.values() for n in ns]
    for _k, _v in OPEN.items():
        PLAN[_k]["open"] = _v
    for _k, _v in ASSUME.items():
        PLAN[_k]["assumptions"] = _v
except ImportError:
    pass

# ---- source-text inventory (JP/Generated/Bodies.lean vs JP/Props/Bodies/*.lean): which file groups a property is
# anchored in (properties.jsonl, anchors.files).  Any edit of such a file breaks the obligation.
_B = lambda *ks: [F + "bodies_" + k + "_eq" for k in ks] + [F + "sourceFilesOutsideGroups_eq"]
BODY_FACTS = {
    "C01": _B("v5_patch"),
    "C02": _B("v5_merge", "v5_patch"),
    "C03": _B("v5_merge", "v5_patch"),   # merge.go works on the node types of patch.go (lazyNode, partialDoc and their marshalling)
    "C04": _B("v5_patch", "v5_merge", "codec_decode", "legacy_patch", "legacy_merge"),
    "C05": _B("v5_patch", "v5_merge", "codec_decode", "codec_encode"),
    "C06": _B("v5_patch"),
    "C07": _B("v5_merge", "v5_patch"),
    "C08": _B("v5_patch"),
    "C09": _B("v5_patch", "v5_merge", "codec_decode", "codec_encode", "codec_scanner"),
    "C10": _B("v5_patch", "v5_merge", "codec_decode", "codec_encode", "codec_scanner", "codec_indent"),
    "C11": _B("v5_patch"),
    "C12": _B("v5_patch", "legacy_patch"),
    "C13": _B("v5_patch"),
    "C14": _B("v5_patch"),
    "C15": _B("v5_patch", "codec_encode", "codec_indent"),
    "C16": _B("codec_scanner", "codec_decode", "codec_indent", "v5_patch", "v5_merge"),
    "C17": _B("codec_decode", "codec_encode", "codec_indent", "codec_stream", "codec_other", "codec_scanner"),
    "C18": _B("legacy_patch"),
    "C19": _B("legacy_merge", "legacy_patch"),
    "C20": _B("cmd"),
}
# every v5 library property depends on the whole private codec its entry points run through (decode, encode, scanner, indent,
# tables/fold/tags): a codec edit reaches all of them, whatever file properties.jsonl names as the anchor
for _pid in ["C%02d" % _i for _i in range(1, 17)]:
    BODY_FACTS[_pid] = BODY_FACTS[_pid] + [f for f in _B("codec_decode", "codec_encode", "codec_scanner", "codec_indent", "codec_other")
                                            if f not in BODY_FACTS[_pid]]
# stream.go shares the package's pools and scanner with Unmarshal/Valid/Compact: an edit there can reach the entry points
# whose acceptance (C16), purity (C09) and thread safety (C10) are claimed, and the no-panic claim (C04)
for _pid in ("C04", "C09", "C10", "C16"):
    BODY_FACTS[_pid] = BODY_FACTS[_pid] + [f for f in _B("codec_stream") if f not in BODY_FACTS[_pid]]
for _pid, _fs in BODY_FACTS.items():
    PLAN[_pid]["facts"] = list(PLAN[_pid].get("facts", [])) + [f for f in _fs if f not in PLAN[_pid].get("facts", [])]
