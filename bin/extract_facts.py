#!/usr/bin/env python3
"""extract_facts.py <repo> <out.lean>

Re-reads the Go sources of the working tree and emits the facts the hand-written Lean
model relies on as a Lean module `JP.Generated.Facts` (rewritten only when its content
changes).  `JP/Props/Facts.lean` proves each of them equal to what the model assumes, so
an edit to one of these places breaks a proof obligation even when no generated input
reaches it.  A JSON summary goes to stdout.

The extraction is textual (function bodies by brace matching on gofmt-formatted
source); it is part of the trusted base and deliberately small.
"""
import json
import os
import re
import sys


def read(p):
    with open(p, encoding="utf-8") as f:
        return f.read()


def func_body(src, header_re):
    m = re.search(header_re, src, re.M)
    if not m:
        return None
    # the body's brace ends the header line (parameters may contain `interface{}`)
    i = src.index("{\n", m.end() - 1)
    depth, j, in_str, in_raw, in_chr = 0, i, False, False, False
    while j < len(src):
        c = src[j]
        if in_str:
            if c == "\\":
                j += 1
            elif c == '"':
                in_str = False
        elif in_raw:
            if c == "`":
                in_raw = False
        elif in_chr:
            if c == "\\":
                j += 1
            elif c == "'":
                in_chr = False
        elif c == '"':
            in_str = True
        elif c == "`":
            in_raw = True
        elif c == "'":
            in_chr = True
        elif c == "/" and src[j:j + 2] == "//":
            j = src.index("\n", j)
        elif c == "{":
            depth += 1
        elif c == "}":
            depth -= 1
            if depth == 0:
                return src[i:j + 1]
        j += 1
    return None


def lean_str(s):
    return '"' + s.replace("\\", "\\\\").replace('"', '\\"') + '"'


def lean_list(xs):
    return "[" + ", ".join(xs) + "]"


def char_code(lit):
    body = lit[1:-1]
    if body.startswith("\\"):
        esc = {"\\'": 39, '\\"': 34, "\\\\": 92, "\\n": 10, "\\t": 9, "\\r": 13}
        if body in esc:
            return esc[body]
        if body.startswith("\\u"):
            return int(body[2:], 16)
        if body.startswith("\\x"):
            return int(body[2:], 16)
        raise ValueError(lit)
    return ord(body)


def table(src, name):
    m = re.search(r"var " + name + r" = \[utf8\.RuneSelf\]bool\{(.*?)\n\}", src, re.S)
    if not m:
        return None
    t = [False] * 128
    for cm in re.finditer(r"^\s*('(?:\\.|[^'\\])+'):\s*(true|false),", m.group(1), re.M):
        t[char_code(cm.group(1))] = cm.group(2) == "true"
    return t


def iota_block(src, first):
    m = re.search(r"const \(\n((?:.*\n)*?)\)", src[src.index(first) - 200:] if first in src else "", re.M)
    names = []
    if m:
        for line in m.group(1).splitlines():
            line = line.split("//")[0].strip()
            mm = re.match(r"^([A-Za-z_][A-Za-z0-9_]*)(\s*=\s*iota)?$", line)
            if mm:
                names.append(mm.group(1))
    return names


def error_sites(body):
    """per function: the identifiers wrapped by %w / returned directly, in source order"""
    out = []
    for m in re.finditer(r"(?:fmt\.Errorf\(\"((?:\\.|[^\"\\])*)\"((?:[^()]|\([^()]*\))*)\)|return (Err[A-Za-z]+|NewAccumulatedCopySizeError)\b|return nil, (Err[A-Za-z]+)\b)", body):
        if m.group(1) is not None:
            fmt_s, args = m.group(1), m.group(2)
            if "%w" in fmt_s:
                last = args.split(",")[-1].strip()
                out.append("w:" + last)
            else:
                out.append("plain")
        elif m.group(3):
            out.append("r:" + m.group(3))
        elif m.group(4):
            out.append("r:" + m.group(4))
    return out


def gate(body):
    """does a json.Valid call precede the first decode of the input?"""
    v = body.find("json.Valid(")
    firsts = [body.find(x) for x in ("unmarshal(", "UnmarshalValid", "newLazyNode(", "UnmarshalJSON(", "resemblesJSONArray(")]
    firsts = [x for x in firsts if x >= 0]
    return v >= 0 and (not firsts or v < min(firsts))


def switch_cases(body, head):
    i = body.find(head)
    if i < 0:
        return []
    sw = func_body(body[i:], re.escape(head))
    out = []
    if not sw:
        return out
    parts = re.split(r"\n\s*(case [^\n]*:|default:)\n", sw)
    k = 1
    while k < len(parts):
        label, code = parts[k], parts[k + 1] if k + 1 < len(parts) else ""
        lits = re.findall(r'"([^"]*)"', label) if label.startswith("case") else ["default"]
        call = re.search(r"(?:p\.|op\.)([A-Za-z]+)\(", code)
        out.append((lits, call.group(1) if call else ""))
        k += 2
    return out


def strip_code(code):
    """Go source with comments removed and white space collapsed (string, rune and raw-string literals kept verbatim)"""
    out, j, n = [], 0, len(code)
    while j < n:
        c = code[j]
        if c == '"' or c == "'":
            k = j + 1
            while k < n and code[k] != c:
                k += 2 if code[k] == "\\" else 1
            out.append(code[j:k + 1])
            j = k + 1
        elif c == "`":
            k = code.index("`", j + 1)
            out.append(code[j:k + 1])
            j = k + 1
        elif code[j:j + 2] == "//":
            k = code.find("\n", j)
            j = n if k < 0 else k
        elif code[j:j + 2] == "/*":
            k = code.find("*/", j + 2)
            j = n if k < 0 else k + 2
            out.append(" ")
        else:
            out.append(c)
            j += 1
    return re.sub(r"\s+", " ", "".join(out)).strip()


def body_inventory(src):
    """every top-level function / method of a file as (qualified name, digest of its comment-free body), in source
    order, plus one entry for everything OUTSIDE function bodies (imports, types, variables, constants, signatures)"""
    import hashlib
    out, rest, last = [], [], 0
    for m in re.finditer(r"^func (?:\((?:[A-Za-z_][A-Za-z0-9_]* )?\*?([A-Za-z_][A-Za-z0-9_]*)\) )?([A-Za-z_][A-Za-z0-9_]*)[(\[]", src, re.M):
        if m.start() < last:
            continue
        name = (m.group(1) + "." if m.group(1) else "") + m.group(2)
        eol = src.find("\n", m.start())
        eol = len(src) if eol < 0 else eol
        line = src[m.start():eol]
        if not line.rstrip().endswith("{"):
            # a one-line function (or a declaration without a body): the whole line is its text
            out.append((name, hashlib.sha256(strip_code(line).encode()).hexdigest()[:12]))
            rest.append(src[last:m.start()])
            last = eol
            continue
        try:
            i = src.index("{\n", m.end() - 1)
        except ValueError:
            continue
        body = func_body(src[m.start():], r"\A" + re.escape(src[m.start():m.end()]))
        if body is None:
            continue
        out.append((name, hashlib.sha256(strip_code(body).encode()).hexdigest()[:12]))
        rest.append(src[last:i])
        last = i + len(body)
    rest.append(src[last:])
    out.append(("<declarations>", hashlib.sha256(strip_code("\n".join(rest)).encode()).hexdigest()[:12]))
    return out


BODY_GROUPS = [
    ("v5_patch", ["v5/patch.go", "v5/errors.go"]),
    ("v5_merge", ["v5/merge.go"]),
    ("codec_scanner", ["v5/internal/json/scanner.go"]),
    ("codec_indent", ["v5/internal/json/indent.go"]),
    ("codec_decode", ["v5/internal/json/decode.go"]),
    ("codec_encode", ["v5/internal/json/encode.go"]),
    ("codec_stream", ["v5/internal/json/stream.go"]),
    ("codec_other", ["v5/internal/json/fold.go", "v5/internal/json/tags.go", "v5/internal/json/tables.go"]),
    ("legacy_patch", ["patch.go", "errors.go"]),
    ("legacy_merge", ["merge.go"]),
    ("cmd", ["v5/cmd/json-patch/main.go", "v5/cmd/json-patch/file_flag.go", "cmd/json-patch/main.go", "cmd/json-patch/file_flag.go"]),
]


def bodies_lean(repo):
    L = ["/- GENERATED by bin/extract_facts.py from the Go sources of the working tree.  Do not edit.",
         "   One digest per function body (comments and white space removed) and one per file for everything outside",
         "   function bodies: the whole non-test source text is pinned, file group by file group. -/",
         "namespace JP.Generated\n"]
    summary = {}
    for key, files in BODY_GROUPS:
        entries = []
        for f in files:
            pth = os.path.join(repo, f)
            if not os.path.exists(pth):
                entries.append((f + ":<missing>", ""))
                continue
            for name, h in body_inventory(read(pth)):
                entries.append((f + ":" + name, h))
        summary[key] = len(entries)
        L.append(f"def bodies_{key} : List (String × String) := " + lean_list("(" + lean_str(a) + ", " + lean_str(b) + ")" for a, b in entries))
    # source files that belong to no group (a new file is a change too)
    known = set(f for _, fs in BODY_GROUPS for f in fs)
    extra = []
    for d in ("", "v5", "v5/internal/json", "v5/cmd/json-patch", "cmd/json-patch"):
        dd = os.path.join(repo, d)
        if os.path.isdir(dd):
            for f in sorted(os.listdir(dd)):
                rel = os.path.join(d, f) if d else f
                if f.endswith(".go") and not f.endswith("_test.go") and f != "verif_hook.go" and rel not in known:
                    extra.append(rel)
    L.append("def sourceFilesOutsideGroups : List String := " + lean_list(lean_str(x) for x in extra))
    L.append("\nend JP.Generated")
    return "\n".join(L) + "\n", summary


def main():
    repo, outp = sys.argv[1], sys.argv[2]
    facts = {}
    scanner = read(os.path.join(repo, "v5/internal/json/scanner.go"))
    tables = read(os.path.join(repo, "v5/internal/json/tables.go"))
    encode = read(os.path.join(repo, "v5/internal/json/encode.go"))
    decode = read(os.path.join(repo, "v5/internal/json/decode.go"))
    patch = read(os.path.join(repo, "v5/patch.go"))
    merge = read(os.path.join(repo, "v5/merge.go"))
    lpatch = read(os.path.join(repo, "patch.go"))
    lmerge = read(os.path.join(repo, "merge.go"))

    m = re.search(r"const maxNestingDepth = (\d+)", scanner)
    facts["maxNestingDepth"] = int(m.group(1)) if m else -1
    m = re.search(r"SupportNegativeIndices bool = (true|false)", patch)
    facts["negDefault"] = (m.group(1) == "true") if m else None
    m = re.search(r"AccumulatedCopySizeLimit int64 = (\d+)", patch)
    facts["limitDefault"] = int(m.group(1)) if m else -1
    nb = func_body(patch, r"^func NewApplyOptions\(\)") or ""
    facts["newOptions"] = [re.sub(r"\s+", "", x) for x in re.findall(r"^\s+([A-Za-z]+:\s+[A-Za-z]+),", nb, re.M)]
    m = re.search(r"SupportNegativeIndices bool = (true|false)", lpatch)
    facts["legacyNegDefault"] = (m.group(1) == "true") if m else None
    m = re.search(r"AccumulatedCopySizeLimit int64 = (\d+)", lpatch)
    facts["legacyLimitDefault"] = int(m.group(1)) if m else -1

    facts["safeSet"] = table(tables, "safeSet")
    facts["htmlSafeSet"] = table(tables, "htmlSafeSet")
    m = re.search(r'var hex = "([0-9a-f]+)"', encode)
    facts["hex"] = m.group(1) if m else ""
    facts["scanOpcodes"] = iota_block(scanner, "scanContinue")
    facts["parseStates"] = iota_block(scanner, "parseObjectKey")
    # every Unmarshal entry point of the fork forces useNumber
    facts["useNumber"] = [bool(re.search(r"d\.useNumber = true", func_body(decode, r"^func " + f + r"\(") or ""))
                          for f in ("Unmarshal", "UnmarshalWithKeys", "UnmarshalValid", "UnmarshalValidWithKeys")]
    ib = func_body(decode, r"^func \(d \*decodeState\) init\(") or ""
    facts["initResets"] = sorted(set(re.findall(r"d\.([A-Za-z]+) = ", ib)))

    ab = func_body(patch, r"^func \(p Patch\) ApplyIndentWithOptions\(") or ""
    facts["opDispatch"] = [(l, c) for l, c in switch_cases(ab, "switch op.Kind() {")]
    vb = func_body(patch, r"^func validateOperation\(") or ""
    facts["validateKinds"] = [(l, c) for l, c in switch_cases(vb, "switch op.Kind() {")]
    facts["applyReturnsNilOnError"] = bool(re.search(r"if err != nil \{\s*return nil, err\s*\}\s*\}\s*data, err := json\.MarshalEscaped", ab))

    gates = {}
    for name, src, hdr in (("Equal", patch, r"^func Equal\("), ("DecodePatch", patch, r"^func DecodePatch\("),
                           ("ApplyIndentWithOptions", patch, r"^func \(p Patch\) ApplyIndentWithOptions\("),
                           ("doMergePatch", merge, r"^func doMergePatch\("), ("CreateMergePatch", merge, r"^func CreateMergePatch\(")):
        gates[name] = gate(func_body(src, hdr) or "")
    facts["validGates"] = gates
    # doMergePatch has two gates
    db = func_body(merge, r"^func doMergePatch\(") or ""
    facts["mergeGates"] = len(re.findall(r"json\.Valid\(", db[:db.find("UnmarshalJSON(") if "UnmarshalJSON(" in db else len(db)]))

    sites = {}
    for fn in ("add", "remove", "replace", "move", "test", "copy"):
        sites[fn] = error_sites(func_body(patch, r"^func \(p Patch\) " + fn + r"\(") or "")
    for recv, fn in (("partialDoc", "get"), ("partialDoc", "set"), ("partialDoc", "remove"), ("partialArray", "get"),
                     ("partialArray", "set"), ("partialArray", "add"), ("partialArray", "remove")):
        sites[recv + "." + fn] = error_sites(func_body(patch, r"^func \(d \*" + recv + r"\) " + fn + r"\(") or "")
    sites["ensurePathExists"] = error_sites(func_body(patch, r"^func ensurePathExists\(") or "")
    sites["DecodePatch"] = error_sites(func_body(patch, r"^func DecodePatch\(") or "")
    sites["doMergePatch"] = error_sites(func_body(merge, r"^func doMergePatch\(") or "")
    facts["errorSites"] = sites
    lsites = {}
    for fn in ("add", "remove", "replace", "move", "test", "copy"):
        lsites[fn] = error_sites(func_body(lpatch, r"^func \(p Patch\) " + fn + r"\(") or "")
    facts["legacyErrorSites"] = lsites
    # package-level variables (shared state inventory)
    pv = set(re.findall(r"^var ([A-Za-z_][A-Za-z0-9_]*)\b", patch + merge, re.M))
    for blk in re.findall(r"^var \((.*?)^\)", patch + "\n" + merge, re.S | re.M):
        # every identifier declared in a `var ( … )` block, with or without a type or initialiser
        pv |= set(re.findall(r"^\t([A-Za-z_][A-Za-z0-9_]*)\b", blk, re.M))
    facts["packageVars"] = sorted(pv)
    ijson_vars = set()
    for f in sorted(os.listdir(os.path.join(repo, "v5/internal/json"))):
        if f.endswith(".go") and not f.endswith("_test.go") and f != "verif_hook.go":
            src = read(os.path.join(repo, "v5/internal/json", f))
            for mm in re.finditer(r"^var ([A-Za-z_][A-Za-z0-9_]*)\b[^\n]*", src, re.M):
                line = mm.group(0)
                kind = "pool" if "sync.Pool" in line else "syncmap" if "sync.Map" in line else "other"
                ijson_vars.add(mm.group(1) + ":" + kind)
    facts["codecVars"] = sorted(ijson_vars)
    facts["legacyGates"] = {"usesStdlib": '"encoding/json"' in lpatch and '"encoding/json"' in lmerge}

    # ---- shared state / pooled objects (assumed facts of the C09/C10 world model, JP/World)
    def funcs_of(src):
        """(name, body) of every top-level function / method"""
        out = []
        for m in re.finditer(r"^func (?:\([^)]*\) )?([A-Za-z_][A-Za-z0-9_]*)\(", src, re.M):
            hdr = re.escape(src[m.start():m.end()])
            body = func_body(src, "^" + hdr)
            out.append((m.group(1), body or ""))
        return out

    rb = func_body(scanner, r"^func \(s \*scanner\) reset\(") or ""
    facts["scanResetAssigns"] = sorted(set(re.findall(r"s\.([A-Za-z]+) = ", rb)))
    nsb = func_body(scanner, r"^func newScanner\(") or ""
    facts["newScannerResets"] = ("scan.reset()" in nsb) and ("scan.bytes = 0" in nsb) and ("scannerPool.Get()" in nsb)
    neb = func_body(encode, r"^func newEncodeState\(") or ""
    facts["newEncodeState"] = [x in neb for x in ("e.Reset()", "len(e.ptrSeen) > 0", "panic(", "e.ptrLevel = 0")]
    facts["lastKeysAssignSites"] = len(re.findall(r"d\.lastKeys = ", decode))
    facts["lastKeysReadSites"] = len(re.findall(r"return d\.lastKeys", decode))
    facts["disallowUnknownAssignSites"] = sorted(set(
        f for f in sorted(os.listdir(os.path.join(repo, "v5/internal/json")))
        if f.endswith(".go") and not f.endswith("_test.go") and f != "verif_hook.go"
        and re.search(r"disallowUnknownFields = ", read(os.path.join(repo, "v5/internal/json", f)))))
    # which functions of the library mention the order list `keys`
    facts["keysMentions"] = sorted(set(name for name, body in funcs_of(patch) + funcs_of(merge) if re.search(r"\.keys\b", body)))
    # package variables are never assigned outside their declaration
    # (any package-level variable of patch.go / merge.go: plain, compound and indexed assignment, ++/--)
    _pv = "|".join(sorted(facts["packageVars"])) or "SupportNegativeIndices"
    _code = re.sub(r"^var \(.*?^\)", "", patch + "\n" + merge, flags=re.S | re.M)      # declarations are not writes
    facts["packageVarWrites"] = len(re.findall(r"^\s+(?:jsonpatch\.)?(?:" + _pv + r")(?:\[[^\]]*\])?\s*(?:=[^=]|\+=|-=|\+\+|--|:=)", _code, re.M))
    # every pool Get in the codec's entry points is released by a deferred Put in the same function
    pools = {}
    for name in ("Unmarshal", "UnmarshalWithKeys", "UnmarshalValid", "UnmarshalValidWithKeys"):
        bd = func_body(decode, r"^func " + name + r"\(") or ""
        pools[name] = [len(re.findall(r"ds\.Get\(\)", bd)), len(re.findall(r"defer ds\.Put\(d\)", bd)), bd.find("d.init(data)") > bd.find("ds.Get()") >= 0]
    facts["decodePoolDiscipline"] = pools
    # the caller's bytes: every write through an index / append to doc, patchData, docData or *n.raw in patch.go/merge.go
    facts["inputWrites"] = len(re.findall(r"\b(?:doc|docData|patchData|originalJSON|modifiedJSON|buf)\[[^\]]*\]\s*=[^=]", patch + merge)) \
        + len(re.findall(r"\(\*n\.raw\)\[[^\]]*\]\s*=[^=]", patch + merge))

    # ---- branch conditions of the functions the model transcribes: every `if` / `else if` /
    # `for` / `switch` / `case` header, in source order, white space normalised
    def conditions(body):
        out = []
        for m in re.finditer(r"^\s*(?:\} else )?(if|for|switch|case) ?([^\n]*?)\s*[:{]\s*$|^\s*(default):\s*$|^\s*\} (else) \{\s*$", body or "", re.M):
            if m.group(1):
                out.append(m.group(1) + " " + re.sub(r"\s+", " ", m.group(2)).strip())
            else:
                out.append(m.group(3) or m.group(4))
        return out

    conds = {}
    for recv, fn in (("partialDoc", "set"), ("partialDoc", "get"), ("partialDoc", "remove"), ("partialArray", "set"),
                     ("partialArray", "add"), ("partialArray", "get"), ("partialArray", "remove")):
        conds[recv + "." + fn] = conditions(func_body(patch, r"^func \(d \*" + recv + r"\) " + fn + r"\("))
    for fn in ("add", "remove", "replace", "move", "test", "copy"):
        conds["Patch." + fn] = conditions(func_body(patch, r"^func \(p Patch\) " + fn + r"\("))
    for fn in ("findObject", "ensurePathExists", "isArray", "deepCopy", "validateOperation", "Equal", "DecodePatch"):
        conds[fn] = conditions(func_body(patch, r"^func " + fn + r"\("))
    for fn in ("equal", "isNull", "tryDoc", "tryAry", "intoDoc", "intoAry"):
        conds["lazyNode." + fn] = conditions(func_body(patch, r"^func \(n \*lazyNode\) " + fn + r"\("))
    conds["ApplyIndentWithOptions"] = conditions(func_body(patch, r"^func \(p Patch\) ApplyIndentWithOptions\("))
    conds["TrustMarshalJSON"] = conditions(func_body(patch, r"^func \(n \*partialDoc\) TrustMarshalJSON\("))
    for fn in ("merge", "mergeDocs", "pruneNulls", "pruneDocNulls", "doMergePatch", "CreateMergePatch", "createObjectMergePatch",
               "createArrayMergePatch", "matchesArray", "matchesValue", "getDiff", "resemblesJSONArray"):
        conds["merge." + fn] = conditions(func_body(merge, r"^func " + fn + r"\("))
    facts["conditions"] = conds
    indent_go = read(os.path.join(repo, "v5/internal/json/indent.go"))
    cc = {}
    cc["compact"] = conditions(func_body(indent_go, r"^func compact\("))
    cc["Indent"] = conditions(func_body(indent_go, r"^func Indent\("))
    cc["HTMLEscape"] = conditions(func_body(encode, r"^func HTMLEscape\("))
    cc["encodeState.string"] = conditions(func_body(encode, r"^func \(e \*encodeState\) string\("))
    cc["unquoteBytes"] = conditions(func_body(decode, r"^func unquoteBytes\("))
    cc["getu4"] = conditions(func_body(decode, r"^func getu4\("))
    cc["checkValid"] = conditions(func_body(scanner, r"^func checkValid\("))
    cc["Valid"] = conditions(func_body(scanner, r"^func Valid\("))
    cc["scanner.eof"] = conditions(func_body(scanner, r"^func \(s \*scanner\) eof\("))
    cc["pushParseState"] = conditions(func_body(scanner, r"^func \(s \*scanner\) pushParseState\("))
    cc["rescanLiteral"] = conditions(func_body(decode, r"^func \(d \*decodeState\) rescanLiteral\("))
    # the decoder functions transcribed in JP/Codec/Decode.lean
    for fn in ("skip", "scanNext", "scanWhile", "value", "array", "object", "literalStore", "valueInterface",
               "arrayInterface", "objectInterface", "literalInterface", "unmarshal", "init"):
        cc["decodeState." + fn] = conditions(func_body(decode, r"^func \(d \*decodeState\) " + fn + r"\("))
    # the streams transcribed in JP/Codec/Stream.lean (refill is abstracted there: its conditions are kept as a
    # fact so that a change to the buffering is noticed)
    stream = read(os.path.join(repo, "v5/internal/json/stream.go"))
    for fn in ("Decode", "readValue", "refill", "Token", "More", "peek", "tokenPrepareForDecode", "tokenValueAllowed", "tokenValueEnd"):
        cc["Decoder." + fn] = conditions(func_body(stream, r"^func \(dec \*Decoder\) " + fn + r"\("))
    cc["Encoder.Encode"] = conditions(func_body(stream, r"^func \(enc \*Encoder\) Encode\("))
    cc["nonSpace"] = conditions(func_body(stream, r"^func nonSpace\("))
    # the encoder functions transcribed in JP/Codec/Typed.lean (typed values: structs, tags, maps, slices, pointers)
    tags_go = read(os.path.join(repo, "v5/internal/json/tags.go"))
    for fn in ("isEmptyValue", "newTypeEncoder", "boolEncoder", "intEncoder", "uintEncoder", "stringEncoder", "isValidNumber",
               "interfaceEncoder", "newMapEncoder", "encodeByteSlice", "newSliceEncoder", "isValidTag", "typeByIndex", "typeFields",
               "dominantField"):
        cc[fn] = conditions(func_body(encode, r"^func " + fn + r"\("))
    for recv, fn in (("se structEncoder", "encode"), ("me mapEncoder", "encode"), ("se sliceEncoder", "encode"), ("ae arrayEncoder", "encode"),
                     ("pe ptrEncoder", "encode"), ("w \\*reflectWithString", "resolve"), ("x byIndex", "Less")):
        cc[recv.split(" ")[1].replace("\\*", "") + "." + fn] = conditions(func_body(encode, r"^func \(" + recv + r"\) " + fn + r"\("))
    cc["parseTag"] = conditions(func_body(tags_go, r"^func parseTag\("))
    cc["tagOptions.Contains"] = conditions(func_body(tags_go, r"^func \(o tagOptions\) Contains\("))
    facts["codecConditions"] = cc
    # the token-state constants in their iota order; where the sticky `dec.err` is assigned (only in readValue);
    # the expression More returns (it has no branch of its own)
    facts["tokenStates"] = iota_block(stream, "tokenTopValue")
    ss = []
    for fn in ("Decode", "readValue", "refill", "Token", "More", "peek", "tokenPrepareForDecode", "tokenValueAllowed", "tokenValueEnd", "tokenError"):
        bd = func_body(stream, r"^func \(dec \*Decoder\) " + fn + r"\(") or ""
        ss.append((fn + ".stickyAssigns", str(len(re.findall(r"dec\.err = ", bd)))))
    mb = func_body(stream, r"^func \(dec \*Decoder\) More\(") or ""
    mm = re.search(r"return ([^\n]*)", mb)
    ss.append(("More.returns", mm.group(1).strip() if mm else ""))
    eb = func_body(stream, r"^func \(enc \*Encoder\) Encode\(") or ""
    ss.append(("Encode.newline", str(len(re.findall(r"e\.WriteByte\('\\n'\)", eb)))))
    facts["streamShape"] = ss
    lc = {}
    for recv, fn in (("partialDoc", "set"), ("partialDoc", "add"), ("partialDoc", "get"), ("partialDoc", "remove"), ("partialArray", "set"),
                     ("partialArray", "add"), ("partialArray", "get"), ("partialArray", "remove")):
        lc[recv + "." + fn] = conditions(func_body(lpatch, r"^func \(d \*" + recv + r"\) " + fn + r"\("))
    for fn in ("add", "remove", "replace", "move", "test", "copy", "ApplyIndent"):
        lc["Patch." + fn] = conditions(func_body(lpatch, r"^func \(p Patch\) " + fn + r"\("))
    for fn in ("findObject", "deepCopy", "Equal", "DecodePatch", "isArray"):
        lc[fn] = conditions(func_body(lpatch, r"^func " + fn + r"\("))
    for fn in ("equal", "isNull", "tryDoc", "tryAry", "intoDoc", "intoAry"):
        lc["lazyNode." + fn] = conditions(func_body(lpatch, r"^func \(n \*lazyNode\) " + fn + r"\("))
    for fn in ("merge", "mergeDocs", "pruneNulls", "pruneDocNulls", "doMergePatch", "CreateMergePatch", "createObjectMergePatch",
               "createArrayMergePatch", "matchesArray", "matchesValue", "getDiff", "resemblesJSONArray"):
        lc["merge." + fn] = conditions(func_body(lmerge, r"^func " + fn + r"\("))
    facts["legacyConditions"] = lc

    def b(x):
        return "true" if x else "false"

    L = []
    L.append("/- GENERATED by bin/extract_facts.py from the Go sources of the working tree.  Do not edit. -/")
    L.append("namespace JP.Generated\n")
    L.append(f"def maxNestingDepth : Nat := {max(facts['maxNestingDepth'], 0)}")
    L.append(f"def negDefault : Bool := {b(facts['negDefault'])}")
    L.append(f"def limitDefault : Nat := {max(facts['limitDefault'], 0)}")
    L.append(f"def legacyNegDefault : Bool := {b(facts['legacyNegDefault'])}")
    L.append(f"def legacyLimitDefault : Nat := {max(facts['legacyLimitDefault'], 0)}")
    L.append("def newOptions : List String := " + lean_list(lean_str(x) for x in facts["newOptions"]))
    L.append("def safeSet : List Bool := " + lean_list(b(x) for x in (facts["safeSet"] or [])))
    L.append("def htmlSafeSet : List Bool := " + lean_list(b(x) for x in (facts["htmlSafeSet"] or [])))
    L.append("def hexDigits : List Nat := " + lean_list(str(ord(c)) for c in facts["hex"]))
    L.append("def scanOpcodes : List String := " + lean_list(lean_str(x) for x in facts["scanOpcodes"]))
    L.append("def parseStates : List String := " + lean_list(lean_str(x) for x in facts["parseStates"]))
    L.append("def useNumberForced : List Bool := " + lean_list(b(x) for x in facts["useNumber"]))
    L.append("def initResets : List String := " + lean_list(lean_str(x) for x in facts["initResets"]))
    L.append("def opDispatch : List (List String × String) := " + lean_list(
        "(" + lean_list(lean_str(x) for x in l) + ", " + lean_str(c) + ")" for l, c in facts["opDispatch"]))
    L.append("def validateKinds : List (List String × String) := " + lean_list(
        "(" + lean_list(lean_str(x) for x in l) + ", " + lean_str(c) + ")" for l, c in facts["validateKinds"]))
    L.append(f"def applyReturnsNilOnError : Bool := {b(facts['applyReturnsNilOnError'])}")
    L.append("def validGates : List (String × Bool) := " + lean_list(
        "(" + lean_str(k) + ", " + b(v) + ")" for k, v in sorted(gates.items())))
    L.append(f"def mergeGates : Nat := {facts['mergeGates']}")
    L.append("def errorSites : List (String × List String) := " + lean_list(
        "(" + lean_str(k) + ", " + lean_list(lean_str(x) for x in v) + ")" for k, v in sorted(sites.items())))
    L.append("def legacyErrorSites : List (String × List String) := " + lean_list(
        "(" + lean_str(k) + ", " + lean_list(lean_str(x) for x in v) + ")" for k, v in sorted(lsites.items())))
    L.append("def packageVars : List String := " + lean_list(lean_str(x) for x in facts["packageVars"]))
    L.append("def codecVars : List String := " + lean_list(lean_str(x) for x in facts["codecVars"]))
    L.append(f"def legacyUsesStdlib : Bool := {b(facts['legacyGates']['usesStdlib'])}")
    L.append("def scanResetAssigns : List String := " + lean_list(lean_str(x) for x in facts["scanResetAssigns"]))
    L.append(f"def newScannerResets : Bool := {b(facts['newScannerResets'])}")
    L.append("def newEncodeState : List Bool := " + lean_list(b(x) for x in facts["newEncodeState"]))
    L.append(f"def lastKeysAssignSites : Nat := {facts['lastKeysAssignSites']}")
    L.append(f"def lastKeysReadSites : Nat := {facts['lastKeysReadSites']}")
    L.append("def disallowUnknownAssignFiles : List String := " + lean_list(lean_str(x) for x in facts["disallowUnknownAssignSites"]))
    L.append("def keysMentions : List String := " + lean_list(lean_str(x) for x in facts["keysMentions"]))
    L.append(f"def packageVarWrites : Nat := {facts['packageVarWrites']}")
    L.append("def decodePoolDiscipline : List (String × Nat × Nat × Bool) := " + lean_list(
        "(" + lean_str(k) + ", " + str(v[0]) + ", " + str(v[1]) + ", " + b(v[2]) + ")" for k, v in sorted(pools.items())))
    L.append(f"def inputWrites : Nat := {facts['inputWrites']}")
    L.append("def codecConditions : List (String × List String) := " + lean_list(
        "(" + lean_str(k) + ", " + lean_list(lean_str(x) for x in v) + ")" for k, v in sorted(cc.items())))
    L.append("def tokenStates : List String := " + lean_list(lean_str(x) for x in facts["tokenStates"]))
    L.append("def streamShape : List (String × String) := " + lean_list(
        "(" + lean_str(k) + ", " + lean_str(v) + ")" for k, v in facts["streamShape"]))
    L.append("def legacyConditions : List (String × List String) := " + lean_list(
        "(" + lean_str(k) + ", " + lean_list(lean_str(x) for x in v) + ")" for k, v in sorted(lc.items())))
    L.append("def conditions : List (String × List String) := " + lean_list(
        "(" + lean_str(k) + ", " + lean_list(lean_str(x) for x in v) + ")" for k, v in sorted(conds.items()) if not k.startswith("merge.")))
    L.append("def mergeConditions : List (String × List String) := " + lean_list(
        "(" + lean_str(k) + ", " + lean_list(lean_str(x) for x in v) + ")" for k, v in sorted(conds.items()) if k.startswith("merge.")))
    L.append("\nend JP.Generated")
    text = "\n".join(L) + "\n"
    os.makedirs(os.path.dirname(outp), exist_ok=True)
    old = read(outp) if os.path.exists(outp) else None
    if old != text:
        with open(outp, "w", encoding="utf-8") as f:
            f.write(text)
    btext, bsum = bodies_lean(repo)
    bpath = os.path.join(os.path.dirname(outp), "Bodies.lean")
    if (read(bpath) if os.path.exists(bpath) else None) != btext:
        with open(bpath, "w", encoding="utf-8") as f:
            f.write(btext)
    facts["bodyInventory"] = bsum
    json.dump({k: v for k, v in facts.items() if k not in ("safeSet", "htmlSafeSet")}, sys.stdout, default=str)


if __name__ == "__main__":
    main()
