#!/usr/bin/env python3
"""list the theorems of a Lean file with their namespaces: prints fully qualified names"""
import re, sys
for path in sys.argv[1:]:
    ns = []
    for line in open(path):
        m = re.match(r"^namespace (\S+)", line)
        if m:
            ns.append(m.group(1)); continue
        m = re.match(r"^end (\S+)", line)
        if m and ns and ns[-1] == m.group(1):
            ns.pop(); continue
        m = re.match(r"^(?:protected |private )?theorem (\S+)", line)
        if m:
            print(".".join(ns + [m.group(1)]))
