import JP.Lemmas.CloseMergeDiff
import JP.Lemmas.CloseMergeGood

/-!
# `CreateMergePatch`: the text layer, normal forms of the produced patch, congruence of merge

* `GV d v`: strings and names valid UTF-8, number literals valid, depth at most `d` — holds for the
  value of every parsed text, is kept by `anyOf` and `getDiff`, and makes
  `parse ∘ print ∘ marshal` the identity;
* the produced patch is hereditarily name-sorted (`Norm`), hence duplicate-free;
* `Spec.merge t ·` respects `eqv` in the patch argument;
* equations for `createObject` / `createArray` / `createMergePatch`.
-/

namespace JP
namespace Impl
open Value

/-! ### values that survive marshal / print / parse -/

mutual
def GV : Nat → Value → Bool
  | _, .null => true
  | _, .bool _ => true
  | _, .num l => validNum l
  | _, .str s => isValidUtf8 s
  | d, .arr xs => decide (1 ≤ d) && GVL (d - 1) xs
  | d, .obj ms => decide (1 ≤ d) && GVM (d - 1) ms
def GVL : Nat → List Value → Bool
  | _, [] => true
  | d, x :: xs => GV d x && GVL d xs
def GVM : Nat → Members → Bool
  | _, [] => true
  | d, (k, v) :: ms => isValidUtf8 k && GV d v && GVM d ms
end

theorem GVM_iff (d : Nat) : ∀ (ms : Members),
    GVM d ms = true ↔ ∀ x ∈ ms, isValidUtf8 x.1 = true ∧ GV d x.2 = true
  | [] => by simp [GVM]
  | (k, v) :: ms => by
    simp only [GVM, Bool.and_eq_true, GVM_iff d ms, List.mem_cons, forall_eq_or_imp, and_assoc]

theorem GVL_iff (d : Nat) : ∀ (xs : List Value), GVL d xs = true ↔ ∀ x ∈ xs, GV d x = true
  | [] => by simp [GVL]
  | x :: xs => by simp only [GVL, Bool.and_eq_true, GVL_iff d xs, List.mem_cons, forall_eq_or_imp]

theorem GV_obj (d : Nat) (ms : Members) : GV d (.obj ms) = true ↔ 1 ≤ d ∧ GVM (d - 1) ms = true := by
  simp [GV]

theorem GV_arr (d : Nat) (xs : List Value) : GV d (.arr xs) = true ↔ 1 ≤ d ∧ GVL (d - 1) xs = true := by
  simp [GV]

theorem GV_null (d : Nat) : GV d .null = true := by simp [GV]

theorem GV_litValue (d : Nat) (l : Bytes) (h : validLit l = true) : GV d (Cst.litValue l) = true := by
  unfold Cst.litValue
  split
  · simp [GV]
  · split
    · simp [GV]
    · split
      · simp [GV]
      · rename_i h1 h2 h3
        simp only [validLit, Bool.or_eq_true, decide_eq_true_eq] at h
        simp only [GV, validNum, decide_eq_true_eq]
        rcases h with ((h | h) | h) | h
        · exact absurd h h2
        · exact absurd h h3
        · exact absurd h h1
        · exact h

mutual
theorem GV_valueOf : ∀ (c : Cst) (d : Nat), GC d c → GV d c.valueOf = true
  | .lit l, d, h => by simp only [Cst.valueOf]; exact GV_litValue d l (by simpa [WFC] using h.1)
  | .str b, _, _ => by simp only [Cst.valueOf, GV]; exact isValidUtf8_unquote b
  | .arr xs, d, h => by
    rw [GC_arr] at h
    simp only [Cst.valueOf]
    rw [GV_arr]
    exact ⟨h.1, GVL_valueOfL xs (d - 1) h.2⟩
  | .obj ms, d, h => by
    rw [GC_obj] at h
    simp only [Cst.valueOf]
    rw [GV_obj]
    exact ⟨h.1, GVM_valueOfM ms (d - 1) h.2⟩
theorem GVL_valueOfL : ∀ (xs : List Cst) (d : Nat), GCL d xs → GVL d (Cst.valueOfL xs) = true
  | [], _, _ => rfl
  | x :: xs, d, h => by
    rw [GCL_cons] at h
    simp only [Cst.valueOfL, GVL, GV_valueOf x d h.1, GVL_valueOfL xs d h.2, Bool.and_self]
theorem GVM_valueOfM : ∀ (ms : List (Bytes × Cst)) (d : Nat), GCM d ms → GVM d (Cst.valueOfM ms) = true
  | [], _, _ => rfl
  | (k, v) :: ms, d, h => by
    rw [GCM_cons] at h
    simp only [Cst.valueOfM, GVM, isValidUtf8_unquote k, GV_valueOf v d h.2.1, GVM_valueOfM ms d h.2.2,
      Bool.and_self]
end

theorem GVM_insertSorted (d : Nat) (k : Bytes) (v : Value) (ms : Members)
    (hk : isValidUtf8 k = true) (hv : GV d v = true) (h : GVM d ms = true) :
    GVM d (insertSorted k v ms) = true := by
  rw [GVM_iff] at h ⊢
  intro x hx
  rcases mem_insertSorted k v ms x hx with rfl | hx
  · exact ⟨hk, hv⟩
  · exact h x hx

mutual
theorem GV_anyOf : ∀ (v : Value) (d : Nat), GV d v = true → GV d (anyOf v) = true
  | .null, _, h => h
  | .bool _, _, h => h
  | .num _, _, h => h
  | .str _, _, h => h
  | .arr xs, d, h => by
    rw [GV_arr] at h
    simp only [anyOf]
    rw [GV_arr]
    exact ⟨h.1, GVL_anyOfL xs (d - 1) h.2⟩
  | .obj ms, d, h => by
    rw [GV_obj] at h
    simp only [anyOf]
    rw [GV_obj]
    exact ⟨h.1, GVM_anyOfM ms [] (d - 1) h.2 rfl⟩
theorem GVL_anyOfL : ∀ (xs : List Value) (d : Nat), GVL d xs = true → GVL d (anyOfL xs) = true
  | [], _, _ => rfl
  | x :: xs, d, h => by
    simp only [GVL, Bool.and_eq_true] at h
    simp only [anyOfL, GVL, GV_anyOf x d h.1, GVL_anyOfL xs d h.2, Bool.and_self]
theorem GVM_anyOfM : ∀ (ms acc : Members) (d : Nat), GVM d ms = true → GVM d acc = true →
    GVM d (anyOfM ms acc) = true
  | [], acc, _, _, h => by simpa [anyOfM] using h
  | (k, v) :: ms, acc, d, hm, h => by
    simp only [GVM, Bool.and_eq_true] at hm
    simp only [anyOfM]
    exact GVM_anyOfM ms _ d hm.2 (GVM_insertSorted d k _ acc hm.1.1 (GV_anyOf v d hm.1.2) h)
end

theorem GVM_mergeSorted (d : Nat) (xs ys : Members) (hx : GVM d xs = true) (hy : GVM d ys = true) :
    GVM d (mergeSorted xs ys) = true := by
  rw [GVM_iff] at hx hy ⊢
  intro x h
  rcases mem_mergeSorted ys xs x h with h | h
  · exact hx x h
  · exact hy x h

theorem GVM_append (d : Nat) (xs ys : Members) (hx : GVM d xs = true) (hy : GVM d ys = true) :
    GVM d (xs ++ ys) = true := by
  rw [GVM_iff] at hx hy ⊢
  intro x h
  rcases List.mem_append.1 h with h | h
  · exact hx x h
  · exact hy x h

theorem GVM_deletedM (d : Nat) (b : Members) : ∀ (as : Members), GVM d as = true →
    GVM d (deletedM b as) = true
  | [], _ => by simp [deletedM, GVM]
  | (k, v) :: as, h => by
    simp only [GVM, Bool.and_eq_true] at h
    simp only [deletedM]
    split
    · exact GVM_deletedM d b as h.2
    · simp only [GVM, Bool.and_eq_true]
      exact ⟨⟨h.1.1, GV_null d⟩, GVM_deletedM d b as h.2⟩

theorem GV_of_lookup {d : Nat} {ms : Members} (h : GVM d ms = true) {k : Bytes} {v : Value}
    (hl : lookup k ms = some v) : GV d v = true :=
  ((GVM_iff d ms).1 h _ (mem_of_lookup hl)).2

mutual
theorem GVM_getDiffM : ∀ (bs a : Members) (d : Nat), GVM d a = true → GVM d bs = true →
    GVM d (getDiffM a bs) = true
  | [], _, _, _, _ => by rw [getDiffM_nil]; rfl
  | (k, bv) :: bs, a, d, ha, hb => by
    simp only [GVM, Bool.and_eq_true] at hb
    have ih := GVM_getDiffM bs a d ha hb.2
    cases hl : lookup k a with
    | none =>
      rw [getDiffM_cons_none hl]
      simp only [GVM, Bool.and_eq_true]
      exact ⟨hb.1, ih⟩
    | some av =>
      rw [getDiffM_cons_some hl]
      exact GVM_append d _ _ (GVM_getDiffOne bv k av d hb.1.1 (GV_of_lookup ha hl) hb.1.2) ih
theorem GVM_getDiffOne : ∀ (bv : Value) (k : Bytes) (av : Value) (d : Nat), isValidUtf8 k = true →
    GV d av = true → GV d bv = true → GVM d (getDiffOne k av bv) = true
  | .obj bms, k, av, d, hk, ha, hb => by
    by_cases hao : av.isObj = true
    · cases av <;> simp [isObj] at hao
      rename_i ams
      rw [getDiffOne_obj_obj]
      split
      · rfl
      · rw [GV_obj] at ha hb
        simp only [GVM, Bool.and_eq_true, hk, true_and, and_true]
        rw [GV_obj]
        refine ⟨ha.1, ?_⟩
        rw [getDiff]
        exact GVM_mergeSorted _ _ _ (GVM_getDiffM bms ams (d - 1) ha.2 hb.2) (GVM_deletedM _ _ _ ha.2)
    · rw [getDiffOne_nonobj_obj k (by simpa using hao)]
      simp only [GVM, Bool.and_eq_true, hk, hb, and_self]
  | .null, k, av, d, hk, _, hb => by
    rw [getDiffOne_of_not_obj k av rfl]; split <;> simp [GVM, hk, hb]
  | .bool _, k, av, d, hk, _, hb => by
    rw [getDiffOne_of_not_obj k av rfl]; split <;> simp [GVM, hk, hb]
  | .num _, k, av, d, hk, _, hb => by
    rw [getDiffOne_of_not_obj k av rfl]; split <;> simp [GVM, hk, hb]
  | .str _, k, av, d, hk, _, hb => by
    rw [getDiffOne_of_not_obj k av rfl]; split <;> simp [GVM, hk, hb]
  | .arr _, k, av, d, hk, _, hb => by
    rw [getDiffOne_of_not_obj k av rfl]; split <;> simp [GVM, hk, hb]
end

theorem GVM_getDiff (d : Nat) (a b : Members) (ha : GVM d a = true) (hb : GVM d b = true) :
    GVM d (getDiff a b) = true :=
  GVM_mergeSorted _ _ _ (GVM_getDiffM b a d ha hb) (GVM_deletedM _ _ _ ha)

mutual
theorem GV_spec (e : Bool) : ∀ (v : Value) (d : Nat), GV d v = true →
    StrsUtf8 v = true ∧ NumsValid v = true ∧ (marshalAnyE e v).depth ≤ d
  | .null, _, _ => ⟨rfl, rfl, by simp [marshalAnyE, litNull, Cst.depth]⟩
  | .bool _, _, _ => ⟨rfl, rfl, by simp [marshalAnyE, Cst.depth]⟩
  | .num l, _, h => ⟨rfl, by simpa [GV, NumsValid] using h, by simp [marshalAnyE, Cst.depth]⟩
  | .str s, _, h => ⟨by simpa [GV, StrsUtf8] using h, rfl, by simp [marshalAnyE, Cst.depth]⟩
  | .arr xs, d, h => by
    rw [GV_arr] at h
    have ⟨a, b, c⟩ := GVL_spec e xs (d - 1) h.2
    simp only [StrsUtf8, NumsValid, marshalAnyE, Cst.depth]
    exact ⟨a, b, by omega⟩
  | .obj ms, d, h => by
    rw [GV_obj] at h
    have ⟨a, b, c⟩ := GVM_spec e ms (d - 1) h.2
    simp only [StrsUtf8, NumsValid, marshalAnyE, Cst.depth]
    exact ⟨a, b, by omega⟩
theorem GVL_spec (e : Bool) : ∀ (xs : List Value) (d : Nat), GVL d xs = true →
    StrsUtf8L xs = true ∧ NumsValidL xs = true ∧ Cst.depthL (marshalAnyEL e xs) ≤ d
  | [], _, _ => ⟨rfl, rfl, by simp [marshalAnyEL, Cst.depthL]⟩
  | x :: xs, d, h => by
    simp only [GVL, Bool.and_eq_true] at h
    have ⟨a, b, c⟩ := GV_spec e x d h.1
    have ⟨a', b', c'⟩ := GVL_spec e xs d h.2
    simp only [StrsUtf8L, NumsValidL, marshalAnyEL, Cst.depthL, a, b, a', b', Bool.and_self, Nat.max_le]
    exact ⟨trivial, trivial, c, c'⟩
theorem GVM_spec (e : Bool) : ∀ (ms : Members) (d : Nat), GVM d ms = true →
    StrsUtf8M ms = true ∧ NumsValidM ms = true ∧ Cst.depthM (marshalAnyEM e ms) ≤ d
  | [], _, _ => ⟨rfl, rfl, by simp [marshalAnyEM, Cst.depthM]⟩
  | (k, v) :: ms, d, h => by
    simp only [GVM, Bool.and_eq_true] at h
    have ⟨a, b, c⟩ := GV_spec e v d h.1.2
    have ⟨a', b', c'⟩ := GVM_spec e ms d h.2
    simp only [StrsUtf8M, NumsValidM, marshalAnyEM, Cst.depthM, a, b, a', b', h.1.1, Bool.and_self, Nat.max_le]
    exact ⟨trivial, trivial, c, c'⟩
end

/-- marshal, print, parse, evaluate: the value comes back -/
theorem parse_print_marshal_GV (e : Bool) (v : Value) (h : GV maxDepth v = true) :
    parseValueOf (Cst.print (marshalAnyE e v)) = some v := by
  have ⟨a, b, c⟩ := GV_spec e v maxDepth h
  simp only [parseValueOf, JP.parse_print _ (JP.marshal_wfc e v b) c, Option.map_some, JP.roundtrip e v a b]

/-- … and the text is accepted by the reference parser -/
theorem parseCst_print_marshal_GV (e : Bool) (v : Value) (h : GV maxDepth v = true) :
    parseCst (Cst.print (marshalAnyE e v)) = some (marshalAnyE e v) := by
  have ⟨_, b, c⟩ := GV_spec e v maxDepth h
  exact JP.parse_print _ (JP.marshal_wfc e v b) c

/-! ### the produced patch is hereditarily name-sorted -/

theorem NormM_append (xs ys : Members) (hx : NormM xs = true) (hy : NormM ys = true) :
    NormM (xs ++ ys) = true := by
  rw [NormM_iff] at hx hy ⊢
  intro x h
  rcases List.mem_append.1 h with h | h
  · exact hx x h
  · exact hy x h

theorem NormM_mergeSorted (xs ys : Members) (hx : NormM xs = true) (hy : NormM ys = true) :
    NormM (mergeSorted xs ys) = true := by
  rw [NormM_iff] at hx hy ⊢
  intro x h
  rcases mem_mergeSorted ys xs x h with h | h
  · exact hx x h
  · exact hy x h

theorem NormM_deletedM (b : Members) : ∀ (as : Members), NormM (deletedM b as) = true
  | [] => by simp [deletedM, NormM]
  | (k, v) :: as => by
    simp only [deletedM]
    split
    · exact NormM_deletedM b as
    · simp only [NormM, Norm, Bool.true_and]; exact NormM_deletedM b as

theorem Norm_of_lookup {ms : Members} (h : NormM ms = true) {k : Bytes} {v : Value}
    (hl : lookup k ms = some v) : Norm v = true :=
  (NormM_iff ms).1 h _ (mem_of_lookup hl)

mutual
theorem NormM_getDiffM : ∀ (bs a : Members), NormM a = true → NormM bs = true →
    NormM (getDiffM a bs) = true
  | [], _, _, _ => by rw [getDiffM_nil]; rfl
  | (k, bv) :: bs, a, ha, hb => by
    simp only [NormM, Bool.and_eq_true] at hb
    have ih := NormM_getDiffM bs a ha hb.2
    cases hl : lookup k a with
    | none =>
      rw [getDiffM_cons_none hl]
      simp only [NormM, Bool.and_eq_true]
      exact ⟨hb.1, ih⟩
    | some av =>
      rw [getDiffM_cons_some hl]
      exact NormM_append _ _ (NormM_getDiffOne bv k av (Norm_of_lookup ha hl) hb.1) ih
theorem NormM_getDiffOne : ∀ (bv : Value) (k : Bytes) (av : Value), Norm av = true → Norm bv = true →
    NormM (getDiffOne k av bv) = true
  | .obj bms, k, av, ha, hb => by
    by_cases hao : av.isObj = true
    · cases av <;> simp [isObj] at hao
      rename_i ams
      rw [getDiffOne_obj_obj]
      split
      · rfl
      · rw [Norm_obj] at ha hb
        simp only [NormM, Bool.and_eq_true, and_true]
        rw [Norm_obj]
        refine ⟨SortedK_getDiff ams bms hb.1, ?_⟩
        rw [getDiff]
        exact NormM_mergeSorted _ _ (NormM_getDiffM bms ams ha.2 hb.2) (NormM_deletedM _ _)
    · rw [getDiffOne_nonobj_obj k (by simpa using hao)]
      simp only [NormM, Bool.and_eq_true, hb, and_self]
  | .null, k, av, _, hb => by
    rw [getDiffOne_of_not_obj k av rfl]; split <;> simp [NormM, hb]
  | .bool _, k, av, _, hb => by
    rw [getDiffOne_of_not_obj k av rfl]; split <;> simp [NormM, hb]
  | .num _, k, av, _, hb => by
    rw [getDiffOne_of_not_obj k av rfl]; split <;> simp [NormM, hb]
  | .str _, k, av, _, hb => by
    rw [getDiffOne_of_not_obj k av rfl]; split <;> simp [NormM, hb]
  | .arr _, k, av, _, hb => by
    rw [getDiffOne_of_not_obj k av rfl]; split <;> simp [NormM, hb]
end

theorem Norm_getDiff (a b : Members) (ha : Norm (.obj a) = true) (hb : Norm (.obj b) = true) :
    Norm (.obj (getDiff a b)) = true := by
  rw [Norm_obj] at ha hb ⊢
  refine ⟨SortedK_getDiff a b hb.1, ?_⟩
  rw [getDiff]
  exact NormM_mergeSorted _ _ (NormM_getDiffM b a ha.2 hb.2) (NormM_deletedM _ _)

theorem Norm_anyOfM (A : Members) : Norm (.obj (anyOfM A [])) = true := by
  have := Norm_anyOf (.obj A); simpa only [anyOf] using this

/-- the produced patch is duplicate-free, hereditarily -/
theorem noDup_getDiff_anyOf (A B : Members) :
    noDup (.obj (getDiff (anyOfM A []) (anyOfM B []))) = true :=
  noDup_of_Norm _ (Norm_getDiff _ _ (Norm_anyOfM A) (Norm_anyOfM B))

/-! ### `Spec.merge t ·` respects `eqv` -/

theorem merge_congr_patch : ∀ (p p' t : Value), noDup t = true → noDup p = true → noDup p' = true →
    eqv p' p = true → eqv (Spec.merge t p') (Spec.merge t p) = true := by
  have nonobj : ∀ (p p' t : Value), p.isObj = false → eqv p' p = true →
      eqv (Spec.merge t p') (Spec.merge t p) = true := by
    intro p p' t hp he
    rw [Spec.merge_of_not_obj t hp, Spec.merge_of_not_obj t (by rw [eqv_isObj he]; exact hp)]
    exact he
  apply Value.ind
  · intro p' t _ _ _ he; exact nonobj _ p' t rfl he
  · intro b p' t _ _ _ he; exact nonobj _ p' t rfl he
  · intro l p' t _ _ _ he; exact nonobj _ p' t rfl he
  · intro s p' t _ _ _ he; exact nonobj _ p' t rfl he
  · intro xs _ p' t _ _ _ he; exact nonobj _ p' t rfl he
  · intro ps ih p' t ht hp hp' he
    obtain ⟨ps', rfl⟩ := eqv_obj_right he
    rw [Spec.merge_obj, Spec.merge_obj]
    have np := (noDup_obj ps).1 hp
    have np' := (noDup_obj ps').1 hp'
    rw [eqv_obj_iff (Spec.nodupKeys_mergeMs ps' _ (Spec.nodupKeys_mems ht))]
    intro k
    rw [Spec.lookup_mergeMs k ps' np'.1, Spec.lookup_mergeMs k ps np.1]
    have ok := optEqv_of_eqv_obj he k
    have hts : ∀ v, lookup k (Spec.mems t) = some v → noDup v = true :=
      fun v hv => noDup_of_lookup (Spec.noDupM_mems ht) hv
    cases hl : lookup k ps with
    | none =>
      rw [hl] at ok
      rw [(optEqv_none_iff ok).2 rfl]
      simp only [Spec.mergeOpt_none]
      exact Spec.optEqv_refl hts
    | some pk =>
      rw [hl] at ok
      cases hl' : lookup k ps' with
      | none => rw [hl'] at ok; cases ok
      | some pk' =>
        rw [hl'] at ok
        simp only [optEqv_some_some] at ok
        by_cases hn : pk = .null
        · subst hn
          rw [(eqv_null_right pk').1 ok]
          rfl
        · have hn' : pk' ≠ .null := by
            intro e; subst e
            exact hn ((Value.eqv_null_left pk).1 ok)
          rw [Spec.mergeOpt_of_ne_null _ hn, Spec.mergeOpt_of_ne_null _ hn']
          simp only [optEqv_some_some]
          exact ih k pk (mem_of_lookup hl) pk' _ (Spec.noDup_getD_lookup (Spec.noDupM_mems ht) k)
            (noDup_of_lookup np.2 hl) (noDup_of_lookup np'.2 hl') ok

/-! ### equations for the top of `CreateMergePatch` -/

/-- the map a root value is read as: an object, normalised; everything else (`null` included:
it decodes to a nil map) is rejected -/
def rootM : Value → Option Members
  | .obj ms => some (anyOfM ms [])
  | _ => none

theorem createObject_eq (a b : Cst) :
    createObject a b =
      match rootM a.valueOf, rootM b.valueOf with
      | some am, some bm => .ok (.obj (getDiff am bm))
      | _, _ => .err .badDoc := by
  simp only [createObject]
  generalize a.valueOf = va
  generalize b.valueOf = vb
  cases va <;> cases vb <;> simp [rootM, anyOf]

theorem GVM_rootM (d : Nat) (v : Value) (ms : Members) (h : GV d v = true) (hr : rootM v = some ms) :
    GVM (d - 1) ms = true := by
  cases v with
  | obj A =>
    simp only [rootM, Option.some.injEq] at hr
    subst hr
    have := GV_anyOf (.obj A) d h
    simp only [anyOf] at this
    exact ((GV_obj d _).1 this).2
  | _ => simp [rootM] at hr

/-- the value `createObject` returns survives the text round trip -/
theorem GV_createObject (d : Nat) (a b : Cst) (v : Value) (hd : 1 ≤ d) (ha : GC d a) (hb : GC d b)
    (h : createObject a b = .ok v) : GV d v = true := by
  rw [createObject_eq] at h
  cases hra : rootM a.valueOf with
  | none => rw [hra] at h; simp at h
  | some am =>
    cases hrb : rootM b.valueOf with
    | none => rw [hra, hrb] at h; simp at h
    | some bm =>
      rw [hra, hrb] at h
      simp only [Outcome.ok.injEq] at h
      subst h
      rw [GV_obj]
      exact ⟨hd, GVM_getDiff _ _ _ (GVM_rootM d _ am (GV_valueOf a d ha) hra)
        (GVM_rootM d _ bm (GV_valueOf b d hb) hrb)⟩

theorem createArray_ok_GV (d : Nat) : ∀ (xs ys : List Cst) (vs : List Value), 1 ≤ d → GCL d xs → GCL d ys →
    createArray xs ys = .ok vs → GVL d vs = true
  | [], [], vs, _, _, _, h => by
    simp only [createArray, Outcome.ok.injEq] at h; subst h; rfl
  | [], _ :: _, _, _, _, _, h => by simp [createArray] at h
  | _ :: _, [], _, _, _, _, h => by simp [createArray] at h
  | x :: xs, y :: ys, vs, hd, hx, hy, h => by
    rw [GCL_cons] at hx hy
    simp only [createArray] at h
    cases ho : createObject x y with
    | err e => rw [ho] at h; simp at h
    | panic => rw [ho] at h; simp at h
    | ok v =>
      rw [ho] at h
      cases hr : createArray xs ys with
      | err e => rw [hr] at h; simp at h
      | panic => rw [hr] at h; simp at h
      | ok vs' =>
        rw [hr] at h
        simp only [Outcome.ok.injEq] at h
        subst h
        simp only [GVL, Bool.and_eq_true]
        exact ⟨GV_createObject d x y v hd hx.1 hy.1 ho, createArray_ok_GV d xs ys vs' hd hx.2 hy.2 hr⟩

theorem marshalAnyEL_eq_map (e : Bool) : ∀ (vs : List Value), marshalAnyEL e vs = vs.map (marshalAnyE e)
  | [] => rfl
  | v :: vs => by simp [marshalAnyEL, marshalAnyEL_eq_map e vs]

theorem marshalAny_arr (vs : List Value) : Cst.arr (vs.map marshalAny) = marshalAnyE true (.arr vs) := by
  simp only [marshalAnyE, marshalAnyEL_eq_map]; rfl

end Impl
end JP
