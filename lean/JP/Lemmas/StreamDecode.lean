import JP.Lemmas.StreamRead
import JP.Lemmas.DecodeViews

/-!
# `Decode` on an input that starts with a well-formed value

`NextValue rest ws vt r c`: the decoder's input is white space `ws`, the text `vt` of a value with
parse tree `c`, and a continuation `r` that is empty or starts with white space, `,`, `]` or `}`.
`decode_next`: `Decode` then reads exactly `ws ++ vt`, hands it to `unmarshal` (whose result on a
well-formed text is `unmarshal_spec`), leaves `r`, and moves the token state with `tokenValueEnd`.
-/

namespace JP
namespace Codec
namespace Stream

open Scanner

structure NextValue (rest ws vt r : Bytes) (c : Cst) : Prop where
  split : rest = ws ++ vt ++ r
  ws : ∀ b ∈ ws, isWs b = true
  ends : EndsNonWs vt
  head : ∀ e t, vt = e :: t → isWs e = false
  reparse : ∀ F rest', vt.length + 1 ≤ F → OkNext c rest' → parseValue F 0 (vt ++ rest') = some (c, rest')
  delim : OkNext c r

/-- a string, in front of any continuation (in particular a member name in front of its colon) -/
theorem nextValue_of_str (ws cs b r : Bytes) (hws : ∀ b ∈ ws, isWs b = true)
    (h : parseStrBody cs = some (b, r)) :
    NextValue (ws ++ 34 :: cs) ws (34 :: b ++ [34]) r (.str b) := by
  obtain ⟨hcs, hvb⟩ := parseStrBody_split cs b r h
  refine ⟨by rw [hcs]; simp, hws, endsNonWs_snoc _ _ (by decide), ?_, ?_, .inr ⟨b, rfl⟩⟩
  · intro e t he
    simp only [List.cons_append, List.cons.injEq] at he
    rw [← he.1]; decide
  · intro F rest' hF _
    cases F with
    | zero => omega
    | succ F =>
      have : (34 :: b ++ [34]) ++ rest' = 34 :: (b ++ 34 :: rest') := by simp
      rw [this, parseValue_str, parseStrBody_valid b rest' ((validBody_eq_true_iff b).2 hvb)]
      rfl

/-- from a successful parse of the input behind the white space -/
theorem nextValue_of_parse (f d : Nat) (ws bs r : Bytes) (c : Cst) (hws : ∀ b ∈ ws, isWs b = true)
    (hbs : NoWs bs) (hp : parseValue f d bs = some (c, r)) (hr : DelimW r) :
    ∃ vt, bs = vt ++ r ∧ NextValue (ws ++ bs) ws vt r c := by
  by_cases hstr : ∃ b, c = .str b
  · obtain ⟨b, rfl⟩ := hstr
    cases f with
    | zero => simp [parseValue] at hp
    | succ f =>
      rcases parseValue_inv f d bs _ r hp with ⟨_, _, _, _, _, h, _⟩ | ⟨_, _, _, _, _, _, h⟩ | ⟨_, _, _, _, _, h, _⟩ |
        ⟨_, _, _, _, _, _, h⟩ | ⟨cs, b', rfl, hb, h⟩ | ⟨_, _, _, h⟩ | ⟨_, _, _, _, _, _, h⟩
      all_goals try (cases h; done)
      cases h
      obtain ⟨hcs, _⟩ := parseStrBody_split cs b r hb
      exact ⟨34 :: b ++ [34], by rw [hcs]; simp, nextValue_of_str ws cs b r hws hb⟩
  · obtain ⟨vt, hsplit, hend, hre⟩ := (split_all f).1 d bs c r hp
    refine ⟨vt, hsplit, ⟨by rw [hsplit, List.append_assoc], hws, hend, ?_, ?_, .inl hr⟩⟩
    · intro e t he
      apply hbs e (t ++ r)
      rw [hsplit, he]; rfl
    · intro F rest' hF hdl
      exact hre F 0 rest' hF (by omega) (hdl.resolve_right hstr)

theorem NextValue.parseCst {rest ws vt r : Bytes} {c : Cst} (nv : NextValue rest ws vt r c) :
    parseCst (ws ++ vt) = some c := by
  have hsk : skipWs (ws ++ vt) = vt := by
    rw [skipWs_append_ws ws vt nv.ws]
    cases hv : vt with
    | nil => rfl
    | cons e t => exact skipWs_head e t (nv.head e t hv)
  have := nv.reparse ((ws ++ vt).length + 1) [] (by simp only [List.length_append]; omega) (.inl trivial)
  simp only [List.append_nil] at this
  unfold JP.parseCst
  rw [hsk, this]
  rfl

theorem valueAllowed_states {s : TokState} (h : valueAllowed s = true) : s ≠ .arrayComma ∧ s ≠ .objectColon := by
  cases s <;> simp [valueAllowed] at h ⊢

theorem readValue_next (D : Dec) (ws vt r : Bytes) (c : Cst) (nv : NextValue D.rest ws vt r c) :
    readValue D = (D, .ok (ws ++ vt).length) := by
  have := readLoop_value D.rest ws vt r c nv.ws nv.ends nv.head nv.reparse nv.delim
  rw [← nv.split] at this
  simp only [readValue, this]

theorem tokenPrepare_id (D : Dec) (hst : valueAllowed D.tokenState = true) : tokenPrepareForDecode D = (D, none) := by
  obtain ⟨h1, h2⟩ := valueAllowed_states hst
  simp only [tokenPrepareForDecode, h1, h2, if_false]

/-- `Decode(&v)` in front of a well-formed value, in a token state that allows a value -/
theorem decode_next (t : Target) (D : Dec) (ws vt r : Bytes) (c : Cst) (nv : NextValue D.rest ws vt r c)
    (herr : D.err = none) (hst : valueAllowed D.tokenState = true) :
    ∃ DS v, unmarshal t (ws ++ vt) D.lastKeys = .ok (DS, v) ∧ view v = sem c t ∧
      SeOK none (bad c t) DS.savedError ∧ DS.lastKeys = keysAfter c t D.lastKeys ∧
      decode t D = ({ D with rest := r, tokenState := valueEnd D.tokenState, lastKeys := DS.lastKeys },
        resOf DS.savedError v) := by
  obtain ⟨DS, v, hu, hview, hse, hlk⟩ := unmarshal_spec t (ws ++ vt) c D.lastKeys nv.parseCst
  refine ⟨DS, v, hu, hview, hse, hlk, ?_⟩
  have htake : D.rest.take (ws ++ vt).length = ws ++ vt := by rw [nv.split]; exact List.take_left' rfl
  have hdrop : D.rest.drop (ws ++ vt).length = r := by rw [nv.split]; exact List.drop_left' rfl
  simp only [decode, herr, tokenPrepare_id D hst, decodeAfterPrepare, tokenValueAllowed, hst, Bool.not_true,
    Bool.false_eq_true, if_false, readValue_next D ws vt r c nv, decodeAfterRead, decodeRead, htake, hdrop, hu,
    tokenValueEnd]

end Stream
end Codec
end JP
