import JP.Lemmas.HeapLegacyPrim
import JP.Lemmas.HeapParse

/-!
# Legacy: what a successful `equal` leaves behind: `Lg.deepParseH` (in place) refines `Legacy.deepParse`

Copy-adapted from `JP/Lemmas/HeapParse.lean` (`Ext.par`, `Ext.under` are reused from there).
-/

namespace JP
namespace Heap
namespace Lg

open JP.Impl (Outcome)
open JP.Legacy (Node NMembers deepParse deepParseM deepParseL deepParseC deepParseCL deepParseCM setN)

/-- a tree of cells all allocated after `h` -/
def LBuilt (h : Heap) (r : Heap × Ptr) (n : Node) : Prop :=
  ∃ ext f, r.1 = h ++ ext ∧ LRepr r.1 n r.2 f ∧ ∀ x ∈ f, h.length ≤ x

mutual
theorem buildC_spec : ∀ (c : Cst) (h : Heap), LBuilt h (buildC h c) (deepParseC c)
  | .lit s, h => by
    simp only [buildC, deepParseC]
    by_cases hs : s = ascii "null"
    · simp only [hs, if_true]
      exact ⟨[], [], by simp, LRepr.mk_nil h, fun x hx => by cases hx⟩
    · simp only [hs, if_false]
      exact ⟨[.raw (.lit s)], [h.length], rfl, LRepr.mk_raw (by simp), fun x hx => by simp at hx; omega⟩
  | .str b, h => by
    simp only [buildC, deepParseC]
    exact ⟨[.raw (.str b)], [h.length], rfl, LRepr.mk_raw (by simp), fun x hx => by simp at hx; omega⟩
  | .arr xs, h => by
    obtain ⟨ext, f, he, rl, fr⟩ := buildCL_spec xs h
    simp only [buildC, deepParseC]
    have hlen : h.length ≤ (buildCL h xs).1.length := by rw [he]; simp
    have hnot : (buildCL h xs).1.length ∉ f := by
      intro hx
      have := LReprL.valid rl _ hx
      omega
    refine ⟨ext ++ [.ary (buildCL h xs).2], _ :: f, by simp [he],
      LRepr.mk_ary (by simp) (LReprL.alloc rl _) hnot, fun x hx => ?_⟩
    simp only [List.mem_cons] at hx
    rcases hx with rfl | hx
    · exact hlen
    · exact fr x hx
  | .obj ms, h => by
    obtain ⟨ext, f, he, rl, fr⟩ := buildCM_spec ms h [] [] [] (LReprM.mk_nil h)
    simp only [buildC, deepParseC]
    have hlen : h.length ≤ (buildCM h ms []).1.length := by rw [he]; simp
    have hnot : (buildCM h ms []).1.length ∉ f := by
      intro hx
      have := LReprM.valid rl _ hx
      omega
    refine ⟨ext ++ [.doc [] (buildCM h ms []).2], _ :: f, by simp [he],
      LRepr.mk_doc (by simp) (LReprM.alloc rl _) hnot, fun x hx => ?_⟩
    simp only [List.mem_cons] at hx
    rcases hx with rfl | hx
    · exact hlen
    · rcases fr x hx with h1 | h1
      · cases h1
      · exact h1
theorem buildCL_spec : ∀ (xs : List Cst) (h : Heap),
    ∃ ext f, (buildCL h xs).1 = h ++ ext ∧ LReprL (buildCL h xs).1 (deepParseCL xs) (buildCL h xs).2 f ∧
      ∀ x ∈ f, h.length ≤ x
  | [], h => ⟨[], [], by simp [buildCL], by simp [buildCL, deepParseCL, LReprL], fun x hx => by cases hx⟩
  | c :: cs, h => by
    obtain ⟨e1, f1, he1, r1, fr1⟩ := buildC_spec c h
    obtain ⟨e2, f2, he2, r2, fr2⟩ := buildCL_spec cs (buildC h c).1
    simp only [buildCL, deepParseCL]
    refine ⟨e1 ++ e2, f1 ++ f2, by rw [he2, he1, List.append_assoc], ?_, fun x hx => ?_⟩
    · refine LReprL.mk_cons (by rw [he2]; exact LRepr.alloc r1 e2) r2 ?_
      intro x hx hy
      have h1 := LRepr.valid r1 x hx
      have h2 := fr2 x hy
      omega
    · simp only [List.mem_append] at hx
      rcases hx with hx | hx
      · exact fr1 x hx
      · have := fr2 x hx
        have : h.length ≤ (buildC h c).1.length := by rw [he1]; simp
        omega
theorem buildCM_spec : ∀ (ms : List (Bytes × Cst)) (h : Heap) (accN : NMembers) (accP : PMembers)
    (facc : List Nat), LReprM h accN accP facc →
    ∃ ext f, (buildCM h ms accP).1 = h ++ ext ∧
      LReprM (buildCM h ms accP).1 (deepParseCM ms accN) (buildCM h ms accP).2 f ∧
      ∀ x ∈ f, x ∈ facc ∨ h.length ≤ x
  | [], h, accN, accP, facc, r =>
    ⟨[], facc, by simp [buildCM], by simpa [buildCM, deepParseCM] using r, fun x hx => Or.inl hx⟩
  | (k, v) :: ms, h, accN, accP, facc, r => by
    obtain ⟨e1, f1, he1, r1, fr1⟩ := buildC_spec v h
    have racc : LReprM (buildC h v).1 accN accP facc := by rw [he1]; exact LReprM.alloc r e1
    have d : Disj f1 facc := by
      intro x hx hy
      have h1 := fr1 x hx
      have h2 := LReprM.valid r x hy
      omega
    obtain ⟨fp1, rset, sub1⟩ := LReprM.set accN (unquote k) racc r1 d
    obtain ⟨e2, f2, he2, r2, fr2⟩ := buildCM_spec ms (buildC h v).1 _ _ fp1 rset
    simp only [buildCM, deepParseCM]
    refine ⟨e1 ++ e2, f2, by rw [he2, he1, List.append_assoc], r2, fun x hx => ?_⟩
    have hl : h.length ≤ (buildC h v).1.length := by rw [he1]; simp
    rcases fr2 x hx with h1 | h1
    · rcases sub1 x h1 with h2 | h2
      · exact Or.inr (fr1 x h2)
      · exact Or.inl h2
    · exact Or.inr (by omega)
end

/-- an in-place step: the same pointer stands for `n'` afterwards -/
def LStepP (h : Heap) (p : Ptr) (f : List Nat) (h' : Heap) (n' : Node) : Prop :=
  ∃ f', LRepr h' n' p f' ∧ Ext h h' f f'

theorem parseRawAt_spec {h : Heap} {a : Nat} {c : Cst} (ha : h[a]? = some (.raw c)) :
    LStepP h (some a) [a] (parseRawAt h a c) (deepParse (.raw c)) := by
  have halt : a < h.length := (List.getElem?_eq_some_iff.mp ha).1
  cases c with
  | lit s => simp only [parseRawAt, deepParse, Cst.isArr, Cst.isObj, Bool.or_self, Bool.false_eq_true, if_false]
             exact ⟨[a], LRepr.mk_raw ha, Ext.refl _ _⟩
  | str s => simp only [parseRawAt, deepParse, Cst.isArr, Cst.isObj, Bool.or_self, Bool.false_eq_true, if_false]
             exact ⟨[a], LRepr.mk_raw ha, Ext.refl _ _⟩
  | arr xs =>
    simp only [parseRawAt, deepParse, Cst.isArr, Bool.true_or, if_true, deepParseC]
    obtain ⟨ext, f', he, rm, fr⟩ := buildCL_spec xs h
    have hnot : a ∉ f' := by
      intro hx
      have := fr a hx
      omega
    refine ⟨a :: f', LRepr.mk_ary ?_ (LReprL.write rm _ hnot) hnot, ?_⟩
    · rw [List.getElem?_set_self]; rw [he]; simp; omega
    · rw [he]
      refine set_after_alloc_ext (by simp) (fun x hx => ?_)
      simp only [List.mem_cons] at hx
      rcases hx with rfl | hx
      · exact Or.inl (by simp)
      · exact Or.inr (fr x hx)
  | obj ms =>
    simp only [parseRawAt, deepParse, Cst.isArr, Cst.isObj, Bool.or_true, if_true, deepParseC]
    obtain ⟨ext, f', he, rm, fr⟩ := buildCM_spec ms h [] [] [] (LReprM.mk_nil h)
    have hnot : a ∉ f' := by
      intro hx
      rcases fr a hx with h1 | h1
      · cases h1
      · omega
    refine ⟨a :: f', LRepr.mk_doc ?_ (LReprM.write rm _ hnot) hnot, ?_⟩
    · rw [List.getElem?_set_self]; rw [he]; simp; omega
    · rw [he]
      refine set_after_alloc_ext (by simp) (fun x hx => ?_)
      simp only [List.mem_cons] at hx
      rcases hx with rfl | hx
      · exact Or.inl (by simp)
      · rcases fr x hx with h1 | h1
        · cases h1
        · exact Or.inr h1

mutual
theorem deepParseH_spec : ∀ (n : Node) {h : Heap} {p : Ptr} {f : List Nat}, LRepr h n p f →
    ∀ fuel, f.length < fuel → LStepP h p f (deepParseH fuel h p) (deepParse n)
  | .nil, h, p, f, r, fuel, _ => by
    have r0 := r
    simp only [LRepr] at r; obtain ⟨rfl, rfl⟩ := r
    cases fuel <;> simp only [deepParseH, deepParse] <;> exact ⟨[], r0, Ext.refl _ _⟩
  | .raw c, h, p, f, r, fuel, hf => by
    simp only [LRepr] at r; obtain ⟨a, rfl, ha, rfl⟩ := r
    cases fuel with
    | zero => simp at hf
    | succ k =>
      simp only [deepParseH, ha, deepParseCell]
      exact parseRawAt_spec ha
  | .docNil, h, p, f, r, fuel, hf => by
    have r0 := r
    simp only [LRepr] at r; obtain ⟨a, rfl, ha, rfl⟩ := r
    cases fuel with
    | zero => simp at hf
    | succ k => simp only [deepParseH, ha, deepParseCell, deepParse]; exact ⟨_, r0, Ext.refl _ _⟩
  | .rawNil, h, p, f, r, fuel, hf => by
    have r0 := r
    simp only [LRepr] at r; obtain ⟨a, rfl, ha, rfl⟩ := r
    cases fuel with
    | zero => simp at hf
    | succ k => simp only [deepParseH, ha, deepParseCell, deepParse]; exact ⟨_, r0, Ext.refl _ _⟩
  | .doc ms, h, p, f, r, fuel, hf => by
    have hv := LRepr.valid r
    simp only [LRepr] at r; obtain ⟨a, ps, f0, rfl, ha, hm, hn, rfl⟩ := r
    cases fuel with
    | zero => simp at hf
    | succ k =>
      simp only [List.length_cons] at hf
      simp only [deepParseH, ha, deepParseCell, deepParse]
      obtain ⟨f', hm', e⟩ := deepParseM_spec ms hm k (by omega)
      have halt : a < h.length := hv a (by simp)
      have hn' : a ∉ f' := by
        intro hx
        rcases e.sub a hx with h1 | h1
        · exact hn h1
        · omega
      exact ⟨a :: f', LRepr.mk_doc (by rw [e.frame a halt hn]; exact ha) hm' hn', e.under a⟩
  | .ary ns, h, p, f, r, fuel, hf => by
    have hv := LRepr.valid r
    simp only [LRepr] at r; obtain ⟨a, ps, f0, rfl, ha, hm, hn, rfl⟩ := r
    cases fuel with
    | zero => simp at hf
    | succ k =>
      simp only [List.length_cons] at hf
      simp only [deepParseH, ha, deepParseCell, deepParse]
      obtain ⟨f', hm', e⟩ := deepParseL_spec ns hm k (by omega)
      have halt : a < h.length := hv a (by simp)
      have hn' : a ∉ f' := by
        intro hx
        rcases e.sub a hx with h1 | h1
        · exact hn h1
        · omega
      exact ⟨a :: f', LRepr.mk_ary (by rw [e.frame a halt hn]; exact ha) hm' hn', e.under a⟩
theorem deepParseL_spec : ∀ (ns : List Node) {h : Heap} {ps : List Ptr} {f : List Nat}, LReprL h ns ps f →
    ∀ fuel, f.length < fuel →
    ∃ f', LReprL (ps.foldl (fun h p => deepParseH fuel h p) h) (deepParseL ns) ps f' ∧
      Ext h (ps.foldl (fun h p => deepParseH fuel h p) h) f f'
  | [], h, ps, f, r, fuel, _ => by
    have r0 := r
    simp only [LReprL] at r; obtain ⟨rfl, rfl⟩ := r
    exact ⟨[], by simpa [deepParseL] using r0, by simpa using Ext.refl h []⟩
  | n :: ns, h, ps, f, r, fuel, hf => by
    have hv := LReprL.valid r
    simp only [LReprL] at r; obtain ⟨p, ps', f1, f2, rfl, h1, h2, d, rfl⟩ := r
    simp only [List.length_append] at hf
    obtain ⟨f1', r1', e1⟩ := deepParseH_spec n h1 fuel (by omega)
    have h2' : LReprL (deepParseH fuel h p) ns ps' f2 := LReprL.ext h2 e1 (Disj.symm d)
    obtain ⟨f2', r2', e2⟩ := deepParseL_spec ns h2' fuel (by omega)
    have v2 : ∀ x ∈ f2, x < h.length := fun x hx => hv x (by simp [hx])
    have d12 : Disj f1' f2 := Disj.symm (Ext.disj e1 (Disj.symm d) v2)
    simp only [List.foldl_cons, deepParseL]
    refine ⟨f1' ++ f2', LReprL.mk_cons (LRepr.ext r1' e2 d12) r2' ?_, Ext.par e1 e2 v2⟩
    exact Ext.disj e2 d12 (LRepr.valid r1')
theorem deepParseM_spec : ∀ (ms : NMembers) {h : Heap} {ps : PMembers} {f : List Nat}, LReprM h ms ps f →
    ∀ fuel, f.length < fuel →
    ∃ f', LReprM (ps.foldl (fun h kp => deepParseH fuel h kp.2) h) (deepParseM ms) ps f' ∧
      Ext h (ps.foldl (fun h kp => deepParseH fuel h kp.2) h) f f'
  | [], h, ps, f, r, fuel, _ => by
    have r0 := r
    simp only [LReprM] at r; obtain ⟨rfl, rfl⟩ := r
    exact ⟨[], by simpa [deepParseM] using r0, by simpa using Ext.refl h []⟩
  | (k, n) :: ms, h, ps, f, r, fuel, hf => by
    have hv := LReprM.valid r
    simp only [LReprM] at r; obtain ⟨p, ps', f1, f2, rfl, h1, h2, d, rfl⟩ := r
    simp only [List.length_append] at hf
    obtain ⟨f1', r1', e1⟩ := deepParseH_spec n h1 fuel (by omega)
    have h2' : LReprM (deepParseH fuel h p) ms ps' f2 := LReprM.ext h2 e1 (Disj.symm d)
    obtain ⟨f2', r2', e2⟩ := deepParseM_spec ms h2' fuel (by omega)
    have v2 : ∀ x ∈ f2, x < h.length := fun x hx => hv x (by simp [hx])
    have d12 : Disj f1' f2 := Disj.symm (Ext.disj e1 (Disj.symm d) v2)
    simp only [List.foldl_cons, deepParseM]
    refine ⟨f1' ++ f2', LReprM.mk_cons (LRepr.ext r1' e2 d12) r2' ?_, Ext.par e1 e2 v2⟩
    exact Ext.disj e2 d12 (LRepr.valid r1')
end

end Lg
end Heap
end JP
