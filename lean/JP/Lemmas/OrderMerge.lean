import JP.Lemmas.OrderBasic
import JP.Lemmas.MergeLawsMerge

/-!
# RFC 7396 merge: order of the members of the result, provenance of number literals
-/

namespace JP
namespace Spec
open Value

/-- a name survives a merge patch unless the patch holds `null` under it -/
def survives (ps : Members) (k : Bytes) : Bool :=
  match Value.lookup k ps with
  | some .null => false
  | _ => true

theorem survives_nil (k : Bytes) : survives [] k = true := rfl

theorem survives_of_absent {ps : Members} {k : Bytes} (h : Value.lookup k ps = none) :
    survives ps k = true := by
  simp only [survives, h]

theorem survives_cons_ne {k k' : Bytes} (h : k' ≠ k) (p : Value) (ps : Members) :
    survives ((k', p) :: ps) k = survives ps k := by
  simp only [survives, lookup_cons_ne h]

theorem survives_cons_null (k : Bytes) (ps : Members) : survives ((k, .null) :: ps) k = false := by
  simp only [survives, lookup_cons_self]

theorem survives_cons_self {k : Bytes} {p : Value} (h : p ≠ .null) (ps : Members) :
    survives ((k, p) :: ps) k = true := by
  simp only [survives, lookup_cons_self]
  cases p <;> first | rfl | exact absurd rfl h

/-- the names of the result of a merge: the surviving names of the target in their original
order, then the names only the patch holds (with a non-null value), in the order of the patch -/
theorem keys_mergeMs : ∀ (ps : Members), nodupKeys (keys ps) = true → ∀ ts : Members,
    keys (mergeMs ts ps) =
      (keys ts).filter (survives ps) ++
      (keys ps).filter (fun k => (Value.lookup k ts).isNone && survives ps k)
  | [], _, ts => by
    rw [mergeMs_nil]
    have : survives [] = fun _ => true := funext survives_nil
    simp only [keys_nil, this, List.filter_nil, List.append_nil]
    exact (List.filter_eq_self.2 (fun _ _ => rfl)).symm
  | (k, p) :: ps, hnd, ts => by
    have hnd' := (nodupKeys_members_cons k p ps).1 hnd
    have hk : Value.lookup k ps = none := hnd'.1
    have ih := keys_mergeMs ps hnd'.2
    have hps : ∀ k', k' ∈ keys ps → k' ≠ k := by
      intro k' hm he; subst he
      exact (not_mem_keys_iff.2 hk) hm
    by_cases hp : p = .null
    · subst hp
      rw [mergeMs_cons_null, ih, keys_erase, List.filter_filter, keys_cons, List.filter_cons]
      simp only [survives_cons_null, Bool.and_false]
      congr 1
      · apply List.filter_congr
        intro k' _
        by_cases he : k' = k
        · subst he; simp [survives_cons_null]
        · simp [he, survives_cons_ne (Ne.symm he)]
      · apply List.filter_congr
        intro k' hm
        have he := hps k' hm
        rw [lookup_erase_other he, survives_cons_ne (Ne.symm he)]
    · rw [mergeMs_cons_of_ne_null _ _ hp, ih, keys_cons, List.filter_cons]
      have hsurv : ∀ k', survives ((k, p) :: ps) k' = survives ps k' := by
        intro k'
        by_cases he : k' = k
        · subst he; rw [survives_cons_self hp, survives_of_absent hk]
        · exact survives_cons_ne (Ne.symm he) _ _
      have hf1 : List.filter (survives ((k, p) :: ps)) = List.filter (survives ps) := by
        congr 1; funext k'; exact hsurv k'
      have hrest : ∀ (ts' : Members), (∀ k', k' ≠ k → Value.lookup k' ts' = Value.lookup k' ts) →
          (keys ps).filter (fun k => (Value.lookup k ts').isNone && survives ps k) =
          (keys ps).filter (fun k' => (Value.lookup k' ts).isNone && survives ((k, p) :: ps) k') := by
        intro ts' hts'
        apply List.filter_congr
        intro k' hm
        rw [hts' k' (hps k' hm), hsurv]
      rw [hf1, hrest _ (fun k' he => lookup_set_other he _ ts)]
      cases hl : Value.lookup k ts with
      | none =>
        rw [keys_set_absent _ _ _ (by simp [hl])]
        simp [survives_cons_self hp, survives_of_absent hk]
      | some w =>
        rw [keys_set_present _ _ _ (by simp [hl])]
        simp

/-! ### literals -/

theorem lits_mergeMs {l : Bytes} : ∀ (ps : Members),
    (∀ k p, (k, p) ∈ ps → ∀ t, l ∈ (merge t p).numLits → l ∈ t.numLits ∨ l ∈ p.numLits) →
    ∀ ts, l ∈ numLitsM (mergeMs ts ps) → l ∈ numLitsM ts ∨ l ∈ numLitsM ps
  | [], _, ts, h => by rw [mergeMs_nil] at h; exact Or.inl h
  | (k, p) :: ps, ih, ts, h => by
    have ih' : ∀ k p, (k, p) ∈ ps → ∀ t, l ∈ (merge t p).numLits → l ∈ t.numLits ∨ l ∈ p.numLits :=
      fun k' p' hm => ih k' p' (List.mem_cons_of_mem _ hm)
    have hcons : l ∈ numLitsM ps → l ∈ numLitsM ((k, p) :: ps) := by
      intro hm; simp only [numLitsM, List.mem_append]; exact Or.inr hm
    by_cases hp : p = .null
    · subst hp
      rw [mergeMs_cons_null] at h
      rcases lits_mergeMs ps ih' _ h with h | h
      · exact Or.inl (numLitsM_erase h)
      · exact Or.inr (hcons h)
    · rw [mergeMs_cons_of_ne_null _ _ hp] at h
      rcases lits_mergeMs ps ih' _ h with h | h
      · rcases numLitsM_set h with h | h
        · exact Or.inl h
        · rcases ih k p List.mem_cons_self _ h with h | h
          · cases hl : Value.lookup k ts with
            | none => rw [hl] at h; simp [numLits] at h
            | some w => rw [hl] at h; exact Or.inl (numLitsM_of_lookup hl h)
          · refine Or.inr ?_
            simp only [numLitsM, List.mem_append]; exact Or.inl h
      · exact Or.inr (hcons h)

/-- a merge never alters or invents a number literal -/
theorem lits_merge : ∀ (p t : Value) (l : Bytes), l ∈ (merge t p).numLits → l ∈ t.numLits ∨ l ∈ p.numLits := by
  apply Value.ind
  · intro t l h; exact Or.inr h
  · intro b t l h; exact Or.inr h
  · intro n t l h; exact Or.inr h
  · intro s t l h; exact Or.inr h
  · intro xs _ t l h; rw [merge_of_not_obj t rfl] at h; exact Or.inr h
  · intro ps ih t l h
    rw [merge_obj, numLits_obj] at h
    rcases lits_mergeMs ps (fun k p hm t' => ih k p hm t' l) _ h with h | h
    · left
      cases t <;> simp [mems, numLitsM] at h
      rw [numLits_obj]; exact h
    · right; rw [numLits_obj]; exact h

end Spec
end JP
