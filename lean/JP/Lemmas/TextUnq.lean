import JP.Lemmas.TextEsc

/-!
# The decoder is total on valid bodies
-/

namespace JP

/-- behind the validity gate `unquoteBytes` never fails (so `unquote`'s default `[]` is never used) -/
theorem unquoteBody_isSome : ∀ (n : Nat) (b : Bytes), b.length ≤ n → VB b → ∃ x, unquoteBody b = some x := by
  intro n
  induction n with
  | zero =>
    intro b hn _
    cases b with
    | nil => exact ⟨[], rfl⟩
    | cons _ _ => simp at hn
  | succ n ih =>
    intro b hn h
    rcases VB_cases b h with rfl | ⟨c, r, rfl, h92, h34, h32, hr⟩ | ⟨e, r, rfl, he, hr⟩ |
        ⟨g1, g2, g3, g4, r, rfl, x1, x2, x3, x4, hr⟩
    · exact ⟨[], rfl⟩
    · simp only [List.length_cons] at hn
      rw [unquoteBody_plain _ _ h92, if_neg (by simp only [h34, false_or]; omega)]
      by_cases hlt : c.toNat < 128
      · obtain ⟨x, hx⟩ := ih r (by omega) hr
        exact ⟨c :: x, by simp only [hlt, if_true, hx, Option.map_some]⟩
      · have hsz := decodeRune_size_pos c r
        have hv := VB_drop_rune c r (by omega) h
        obtain ⟨x, hx⟩ := ih _ (by simp only [List.length_drop, List.length_cons]; omega) hv
        exact ⟨encodeRune (decodeRune (c :: r)).fst ++ x, by simp only [hlt, if_false, hx, Option.map_some]⟩
    · simp only [List.length_cons] at hn
      obtain ⟨x, hx⟩ := ih r (by omega) hr
      exact ⟨_, by rw [unquoteBody_simple _ _ he, hx, Option.map_some]⟩
    · simp only [List.length_cons] at hn
      obtain ⟨rr, hrr⟩ := hex4_isSome g1 g2 g3 g4 x1 x2 x3 x4
      obtain ⟨x, hx⟩ := ih r (by omega) hr
      cases hs : isSurrogate rr with
      | false => exact ⟨_, by rw [unquoteBody_u4 _ _ _ _ _ rr hrr hs, hx, Option.map_some]⟩
      | true =>
        cases hp : utf16Pair rr (getu4 r) with
        | none => exact ⟨_, by rw [unquoteBody_u4_lone _ _ _ _ _ rr hrr hs hp, hx, Option.map_some]⟩
        | some dec =>
          rcases getu4_escBody r hr with ⟨k1, k2, k3, k4, r', rfl, hr', _⟩ | ⟨hg, _⟩
          · simp only [List.length_cons] at hn
            obtain ⟨y, hy⟩ := ih r' (by omega) hr'
            refine ⟨encodeRune dec ++ y, ?_⟩
            rw [unquoteBody_u4_pair _ _ _ _ _ rr dec hrr hs hp]
            simp only [List.drop_succ_cons, List.drop_zero, hy, Option.map_some]
          · rw [hg] at hp; cases hp

theorem unquoteBody_valid (b : Bytes) (hb : parseStrBody (b ++ [34]) = some (b, [])) :
    unquoteBody b = some (unquote b) := by
  obtain ⟨x, hx⟩ := unquoteBody_isSome _ b (Nat.le_refl _) hb
  simp only [unquote, hx, Option.getD_some]

end JP
