import JP.Codec.Views
import JP.Lemmas.DecodeTop

/-!
# From the specification view of a decoded value to the implementation model's terms
-/

namespace JP
namespace Codec

open Impl

/-! ### targets that accept everything -/

mutual
theorem bad_raw : ∀ (c : Cst) (p : Bool), bad c (.raw p) = false
  | .lit _, _ => rfl
  | .str _, _ => rfl
  | .arr _, _ => rfl
  | .obj _, _ => rfl
end

theorem badL_raw (p : Bool) : ∀ xs : List Cst, badL xs (.raw p) = false
  | [] => rfl
  | x :: xs => by simp only [badL, bad_raw, badL_raw p xs, Bool.or_false]

theorem badM_raw (p : Bool) : ∀ ms : List (Bytes × Cst), badM ms (.raw p) = false
  | [] => rfl
  | (k, v) :: ms => by simp only [badM, bad_raw, badM_raw p ms, Bool.or_false]

theorem bad_any : ∀ (c : Cst), bad c .any = false
  | .lit _ => rfl
  | .str _ => rfl
  | .arr _ => rfl
  | .obj _ => rfl

theorem keysAfter_raw (c : Cst) (p : Bool) (lk : List Bytes) : keysAfter c (.raw p) lk = lk := by
  cases c <;> simp only [keysAfter]

theorem keysAfterL_raw (p : Bool) : ∀ (xs : List Cst) (lk : List Bytes), keysAfterL xs (.raw p) lk = lk
  | [], _ => rfl
  | x :: xs, lk => by simp only [keysAfterL, keysAfter_raw, keysAfterL_raw p xs]

theorem keysAfter_any (c : Cst) (lk : List Bytes) : keysAfter c .any lk = lk := by
  cases c <;> simp only [keysAfter]

theorem keysAfter_str_target (c : Cst) (lk : List Bytes) : keysAfter c .str lk = lk := by
  cases c <;> simp only [keysAfter]

theorem badM_any : ∀ ms : List (Bytes × Cst), badM ms .any = false
  | [] => rfl
  | (k, v) :: ms => by simp only [badM, bad_any, badM_any ms, Bool.or_false]

/-! ### `*lazyNode` children -/

/-- `nodeOf` on the specification view -/
def nodeOfV : DView → Option Node
  | .rawText (some c) => some (childOf c)
  | .nilPtr => some .nil
  | _ => none

def nodesOfV : DMembersG (Option Cst) → Option NMembers
  | [] => some []
  | (k, v) :: ms =>
    match nodeOfV v, nodesOfV ms with
    | some n, some ns => some ((k, n) :: ns)
    | _, _ => none

def nodeListV : List DView → Option (List Node)
  | [] => some []
  | v :: vs =>
    match nodeOfV v, nodeListV vs with
    | some n, some ns => some (n :: ns)
    | _, _ => none

theorem nodeOf_view (v : DVal) : nodeOf v = nodeOfV (view v) := by
  cases v <;> simp only [nodeOf, view, mapRaw, nodeOfV]
  rename_i t
  cases parseCst t <;> rfl

theorem nodesOf_view : ∀ m : DMembers, nodesOf m = nodesOfV (mapRawM parseCst m)
  | [] => rfl
  | (k, v) :: ms => by
    simp only [nodesOf, mapRawM, nodesOfV, nodeOf_view v, nodesOf_view ms]; rfl

theorem nodeList_view : ∀ vs : List DVal, nodeList vs = nodeListV (mapRawL parseCst vs)
  | [] => rfl
  | v :: vs => by
    simp only [nodeList, mapRawL, nodeListV, nodeOf_view v, nodeList_view vs]; rfl

theorem nodeOfV_sem_raw (c : Cst) (p : Bool) : nodeOfV (sem c (.raw p)) = some (childOf c) := by
  cases c with
  | lit s =>
    simp only [sem, semLit]
    split
    · rename_i h
      simp only [Bool.and_eq_true, decide_eq_true_eq] at h
      simp only [nodeOfV, childOf, Cst.isNullLit, h.2, nullLit, beq_self_eq_true, if_true]
    · rfl
  | str b => rfl
  | arr xs => simp only [sem, nodeOfV]
  | obj ms => simp only [sem, nodeOfV]

theorem nodesOfV_setD (k : Bytes) (v : DView) (n : Node) (hv : nodeOfV v = some n) :
    ∀ (m : DMembersG (Option Cst)) (nm : NMembers), nodesOfV m = some nm →
      nodesOfV (setD k v m) = some (setN k n nm)
  | [], nm, h => by
    simp only [nodesOfV, Option.some.injEq] at h
    subst h
    simp only [setD, nodesOfV, hv, setN]
  | (k', v') :: m, nm, h => by
    simp only [nodesOfV] at h
    cases h1 : nodeOfV v' with
    | none => rw [h1] at h; simp at h
    | some n' =>
      cases h2 : nodesOfV m with
      | none => rw [h1, h2] at h; simp at h
      | some nm' =>
        rw [h1, h2] at h
        simp only [Option.some.injEq] at h
        subst h
        simp only [setD, setN]
        split
        · simp only [nodesOfV, hv, h2]
        · simp only [nodesOfV, h1, nodesOfV_setD k v n hv m nm' h2]

theorem nodesOfV_semM (p : Bool) : ∀ (ms : List (Bytes × Cst)) (acc : DMembersG (Option Cst)) (nacc : NMembers),
    nodesOfV acc = some nacc → nodesOfV (semM ms (.raw p) acc) = some (decodeMembers ms nacc)
  | [], acc, nacc, h => by simpa [semM, decodeMembers] using h
  | (k, c) :: ms, acc, nacc, h => by
    simp only [semM, decodeMembers]
    exact nodesOfV_semM p ms _ _ (nodesOfV_setD (unquote k) _ _ (nodeOfV_sem_raw c p) acc nacc h)

theorem nodeListV_semL (p : Bool) : ∀ (xs : List Cst), nodeListV (semL xs (.raw p)) = some (xs.map childOf)
  | [] => rfl
  | x :: xs => by
    simp only [semL, nodeListV, nodeOfV_sem_raw, nodeListV_semL p xs, List.map_cons]

/-! ### views are faithful on the constructors that carry no raw text -/

theorem view_eq_nilMap (v : DVal) (h : view v = .nilMap) : v = .nilMap := by
  cases v <;> simp [view, mapRaw] at h ⊢
theorem view_eq_nilSlice (v : DVal) (h : view v = .nilSlice) : v = .nilSlice := by
  cases v <;> simp [view, mapRaw] at h ⊢
theorem view_eq_str (v : DVal) (s : Bytes) (h : view v = .str s) : v = .str s := by
  cases v <;> simp [view, mapRaw] at h ⊢
  exact h
theorem view_eq_map (v : DVal) (m : DMembersG (Option Cst)) (h : view v = .map m) :
    ∃ m', v = .map m' ∧ mapRawM parseCst m' = m := by
  cases v <;> simp [view, mapRaw] at h ⊢
  exact h
theorem view_eq_list (v : DVal) (l : List DView) (h : view v = .list l) :
    ∃ l', v = .list l' ∧ mapRawL parseCst l' = l := by
  cases v <;> simp [view, mapRaw] at h ⊢
  exact h

/-! ### `map[string]*json.RawMessage` entries -/

theorem lookupD_setD {ρ : Type} (q k : Bytes) (v : DValG ρ) : ∀ m : DMembersG ρ,
    lookupD q (setD k v m) = if k = q then some v else lookupD q m
  | [] => by simp only [setD, lookupD]
  | (k', v') :: m => by
    simp only [setD]
    split
    · rename_i hk
      subst hk
      simp only [lookupD]
      split <;> rfl
    · rename_i hk
      simp only [lookupD, lookupD_setD q k v m]
      by_cases h1 : k' = q
      · have : ¬ k = q := fun e => hk (h1.trans e.symm)
        simp [h1, this]
      · simp [h1]

theorem lookupD_mapRawM {ρ σ : Type} (f : ρ → σ) (q : Bytes) : ∀ m : DMembersG ρ,
    lookupD q (mapRawM f m) = (lookupD q m).map (mapRaw f)
  | [] => rfl
  | (k, v) :: m => by
    simp only [mapRawM, lookupD]
    split
    · rfl
    · exact lookupD_mapRawM f q m

theorem lookupD_semM (t : Target) (q : Bytes) : ∀ (ms : List (Bytes × Cst)) (acc : DMembersG (Option Cst)),
    lookupD q (semM ms t acc) =
      match lookupLastC q ms with
      | some c => some (sem c t)
      | none => lookupD q acc
  | [], acc => rfl
  | (k, c) :: ms, acc => by
    simp only [semM, lookupLastC]
    rw [lookupD_semM t q ms]
    cases lookupLastC q ms with
    | some c' => rfl
    | none =>
      simp only [lookupD_setD]
      split <;> rfl

def memberOfV : Option DView → Option Member
  | none => some .absent
  | some .nilPtr => some .null
  | some (.rawText (some c)) => some (.val c)
  | _ => none

theorem memberOf_view (o : Option DVal) : memberOf o = memberOfV (o.map view) := by
  cases o with
  | none => rfl
  | some v =>
    cases v <;> simp only [memberOf, Option.map_some, view, mapRaw, memberOfV]
    rename_i t
    cases parseCst t <;> rfl

theorem memberOfV_sem (c : Cst) :
    memberOfV (some (sem c (.raw true))) = some (if c.isNullLit then Member.null else Member.val c) := by
  cases c with
  | lit s =>
    simp only [sem, semLit, Bool.true_and, Cst.isNullLit, nullLit, beq_iff_eq]
    by_cases h : s = ascii "null"
    · simp [h, memberOfV]
    · simp [h, memberOfV]
  | str b => rfl
  | arr xs => simp only [sem, memberOfV, Cst.isNullLit]; rfl
  | obj ms => simp only [sem, memberOfV, Cst.isNullLit]; rfl

/-- the entries of a decoded operation are the `member` view of the object's members -/
theorem memberOf_lookup (m : DMembers) (ms : List (Bytes × Cst))
    (hm : mapRawM parseCst m = semM ms (.raw true) []) (k : Bytes) :
    memberOf (lookupD k m) = some (member k ms) := by
  rw [memberOf_view]
  have : (lookupD k m).map view = lookupD k (mapRawM parseCst m) := (lookupD_mapRawM parseCst k m).symm
  rw [this, hm, lookupD_semM]
  simp only [member]
  cases lookupLastC k ms with
  | none => rfl
  | some c => simp only [memberOfV_sem]

/-- one element of a decoded patch against the tree of that element -/
def OpView (x : Cst) (v : DVal) : Prop :=
  match x with
  | .obj ms => ∃ m, v = .map m ∧ ∀ k, memberOf (lookupD k m) = some (member k ms)
  | _ => v = .nilMap

theorem opView_of_view (x : Cst) (v : DVal) (h : view v = sem x (.mapOf (.raw true))) : OpView x v := by
  cases x with
  | obj ms =>
    simp only [sem] at h
    obtain ⟨m, rfl, hm⟩ := view_eq_map v _ h
    exact ⟨m, rfl, memberOf_lookup m ms hm⟩
  | lit s => exact view_eq_nilMap v h
  | str b => exact view_eq_nilMap v h
  | arr xs => exact view_eq_nilMap v (h.trans (by simp only [sem]; rfl))

/-- all elements of a decoded patch against the trees of the elements -/
def AllOps : List Cst → List DVal → Prop
  | [], [] => True
  | x :: xs, v :: vs => OpView x v ∧ AllOps xs vs
  | _, _ => False

theorem opViews_of_view : ∀ (xs : List Cst) (vs : List DVal),
    mapRawL parseCst vs = semL xs (.mapOf (.raw true)) → AllOps xs vs
  | [], [], _ => trivial
  | [], _ :: _, h => by simp [mapRawL, semL] at h
  | _ :: _, [], h => by simp [mapRawL, semL] at h
  | x :: xs, v :: vs, h => by
    simp only [mapRawL, semL, List.cons.injEq] at h
    exact ⟨opView_of_view x v h.1, opViews_of_view xs vs h.2⟩

theorem bad_op (x : Cst) : bad x (.mapOf (.raw true)) = !(x.isObj || x.isNullLit) := by
  cases x with
  | lit s => simp only [bad, Cst.isObj, Cst.isNullLit, nullLit, Bool.false_or]; cases h : s == ascii "null" <;> simp [bne, h]
  | str b => rfl
  | arr xs => rfl
  | obj ms => simp only [bad, badM_raw, Cst.isObj, Bool.true_or, Bool.not_true]

theorem badL_op : ∀ xs : List Cst, badL xs (.mapOf (.raw true)) = xs.any fun x => !(x.isObj || x.isNullLit)
  | [] => rfl
  | x :: xs => by simp only [badL, bad_op, badL_op xs, List.any_cons]

end Codec
end JP
