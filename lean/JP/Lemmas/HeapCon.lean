import JP.Lemmas.HeapPrim

/-!
# The `container` methods through an address refine `Impl.conGet/conSet/conAdd/conRemove`

First the value model's array methods are rewritten through the index functions the heap model
uses (`getIdx`, `setIdx`, `addIdx`, `removeIdx`: they depend on the LENGTH only, and the pointer
list of a cell has the length of the node list it represents); then each method, run on the cell
at an address, is related to the value-level method on the represented container.
-/
namespace JP
namespace Heap
open JP.Impl (Node NMembers Outcome listSet listInsert lookupN setN eraseN)

theorem conGet_ary (o : Impl.Opts) (s : Node) (ns : List Node) (key : Bytes) :
    Impl.conGet o s (.ary ns) key =
      match getIdx o ns.length key with
      | .ok i => (match ns[i]? with | some n => .ok n | none => .err .invalidIndex)
      | .err e => .err e
      | .panic => .panic := by
  simp only [Impl.conGet, getIdx]
  cases atoi key with
  | none => rfl
  | some idx =>
    simp only
    repeat' (first | rfl | contradiction | split)

theorem conSet_ary (o : Impl.Opts) (ns : List Node) (key : Bytes) (val : Node) :
    Impl.conSet o (.ary ns) key val =
      match setIdx o ns.length key with
      | .ok i => .ok (.ary (listSet i val ns))
      | .err e => .err e
      | .panic => .panic := by
  simp only [Impl.conSet, setIdx]
  cases atoi key with
  | none => rfl
  | some idx =>
    simp only
    repeat' (first | rfl | contradiction | split)

theorem conAdd_ary (o : Impl.Opts) (ns : List Node) (key : Bytes) (val : Node) :
    Impl.conAdd o (.ary ns) key val =
      match addIdx o ns.length key with
      | .ok none => .ok (.ary (ns ++ [val]))
      | .ok (some i) => .ok (.ary (listInsert i val ns))
      | .err e => .err e
      | .panic => .panic := by
  simp only [Impl.conAdd, addIdx]
  split
  · rfl
  cases atoi key with
  | none => rfl
  | some idx =>
    simp only
    repeat' (first | rfl | contradiction | split)

theorem conRemove_ary (o : Impl.Opts) (ns : List Node) (key : Bytes) :
    Impl.conRemove o (.ary ns) key =
      match removeIdx o ns.length key with
      | .ok none => .ok (.ary ns)
      | .ok (some i) => .ok (.ary (ns.eraseIdx i))
      | .err e => .err e
      | .panic => .panic := by
  simp only [Impl.conRemove, removeIdx]
  cases atoi key with
  | none => rfl
  | some idx =>
    simp only
    repeat' (first | rfl | contradiction | split)

theorem putChild_ary {o : Impl.Opts} {ns : List Node} {key : Bytes} {i : Nat} (c : Node)
    (hi : getIdx o ns.length key = .ok i) :
    Impl.putChild o (.ary ns) key c = .ary (listSet i c ns) := by
  simp only [Impl.putChild, getIdx] at hi ⊢
  cases hk : atoi key with
  | none => rw [hk] at hi; cases hi
  | some idx =>
    rw [hk] at hi
    simp only at hi ⊢
    by_cases h1 : idx < 0
    · simp only [h1, if_true] at hi ⊢
      by_cases h2 : (!o.neg) = true
      · simp only [h2, if_true] at hi; cases hi
      · simp only [h2] at hi
        by_cases h3 : idx < -(ns.length : Int)
        · simp only [h3, if_true] at hi; cases hi
        · simp only [h3] at hi
          cases hi; rfl
    · simp only [h1] at hi ⊢
      cases hi; rfl

/-- `get` then `remove` of the same key address the same index -/
theorem removeIdx_of_getIdx {o : Impl.Opts} {len : Nat} {key : Bytes} {i : Nat}
    (hi : getIdx o len key = .ok i) (hl : i < len) : removeIdx o len key = .ok (some i) := by
  simp only [getIdx, removeIdx] at hi ⊢
  cases hk : atoi key with
  | none => rw [hk] at hi; cases hi
  | some idx =>
    rw [hk] at hi
    simp only at hi ⊢
    by_cases h1 : idx < 0
    · simp only [h1, if_true] at hi ⊢
      have h0 : ¬ idx ≥ (len : Int) := by omega
      simp only [h0, if_false]
      by_cases h2 : (!o.neg) = true
      · simp only [h2, if_true] at hi; cases hi
      · simp only [h2] at hi ⊢
        by_cases h3 : idx < -(len : Int)
        · simp only [h3, if_true] at hi; cases hi
        · simp only [h3] at hi ⊢
          cases hi; rfl
    · simp only [h1] at hi ⊢
      cases hi
      have h0 : ¬ idx ≥ (len : Int) := by omega
      simp only [h0, if_false]

theorem removeIdx_lt {o : Impl.Opts} {len : Nat} {key : Bytes} {i : Nat}
    (hi : removeIdx o len key = .ok (some i)) : i < len := by
  simp only [removeIdx] at hi
  cases hk : atoi key with
  | none => rw [hk] at hi; cases hi
  | some idx =>
    rw [hk] at hi
    simp only at hi
    by_cases h0 : idx ≥ (len : Int)
    · simp only [h0, if_true] at hi
      by_cases ha : o.allow = true
      · simp only [ha, if_true] at hi; cases hi
      · simp only [ha] at hi; cases hi
    · simp only [h0, if_false] at hi
      by_cases h1 : idx < 0
      · simp only [h1, if_true] at hi
        by_cases h2 : (!o.neg) = true
        · simp only [h2, if_true] at hi; cases hi
        · simp only [h2] at hi
          by_cases h3 : idx < -(len : Int)
          · simp only [h3, if_true] at hi
            by_cases ha : o.allow = true
            · simp only [ha, if_true] at hi; cases hi
            · simp only [ha] at hi; cases hi
          · simp only [h3] at hi
            cases hi; omega
      · simp only [h1] at hi
        cases hi; omega

theorem setIdx_lt {o : Impl.Opts} {len : Nat} {key : Bytes} {i : Nat}
    (hi : setIdx o len key = .ok i) : i < len := by
  simp only [setIdx] at hi
  cases hk : atoi key with
  | none => rw [hk] at hi; cases hi
  | some idx =>
    rw [hk] at hi
    simp only at hi
    by_cases h1 : idx < 0
    · simp only [h1, if_true] at hi
      by_cases h2 : (!o.neg) = true
      · simp only [h2, if_true] at hi; cases hi
      · simp only [h2] at hi
        by_cases h3 : idx < -(len : Int)
        · simp only [h3, if_true] at hi; cases hi
        · simp only [h3] at hi
          by_cases h4 : (idx + len).toNat < len
          · simp only [h4, if_true] at hi; cases hi; exact h4
          · simp only [h4] at hi; cases hi
    · simp only [h1] at hi
      by_cases h4 : idx.toNat < len
      · simp only [h4, if_true] at hi; cases hi; exact h4
      · simp only [h4] at hi; cases hi

theorem listSet_self {α} : ∀ (ps : List α) {i : Nat} {p : α}, ps[i]? = some p → listSet i p ps = ps
  | [], i, p, hp => by simp at hp
  | q :: qs, 0, p, hp => by
    simp only [List.getElem?_cons_zero, Option.some.injEq] at hp; subst hp; rfl
  | q :: qs, j + 1, p, hp => by
    simp only [List.getElem?_cons_succ] at hp
    simp only [listSet]; rw [listSet_self qs hp]

theorem set_same {h : Heap} {c : Nat} {cell : Cell} (hc : h[c]? = some cell) : h.set c cell = h := by
  apply List.ext_getElem?
  intro i
  by_cases e : c = i
  · subst e; rw [List.getElem?_set_self (List.getElem?_eq_some_iff.mp hc).1, hc]
  · rw [List.getElem?_set_ne e]

/-! ### `get`: the child is in focus, the rest of the container is a frame -/

/-- what `get` hands out: a pointer to the child `n`, and the rule to put a changed child back
(`putChild`) as long as the rest of the container's footprint was left alone -/
def Focus (o : Impl.Opts) (h : Heap) (con : Node) (c : Nat) (fc : List Nat) (key : Bytes)
    (p : Ptr) (n : Node) : Prop :=
  ∃ f rest, Repr h n p f ∧ Disj f rest ∧ (∀ x ∈ f, x ∈ fc) ∧ (∀ x ∈ rest, x ∈ fc) ∧ c ∈ rest ∧
    ∀ (h' : Heap) (n' : Node) (f' : List Nat), Repr h' n' p f' →
      (∀ x ∈ rest, h'[x]? = h[x]?) → Disj f' rest →
      ∃ fc', Repr h' (Impl.putChild o con key n') (some c) fc' ∧ ∀ x ∈ fc', x ∈ f' ∨ x ∈ rest

theorem hGet_refines (o : Impl.Opts) (s : Node) {h : Heap} {con : Node} {c : Nat} {fc : List Nat}
    (key : Bytes) (r : Repr h con (some c) fc) :
    OutRel (Focus o h con c fc key) (hGet o h c key) (Impl.conGet o s con key) := by
  cases con with
  | nil => simp only [Repr] at r; cases r.1
  | raw x =>
    simp only [Repr] at r; obtain ⟨a', e, ha, rfl⟩ := r; cases e
    simp [hGet, ha, cellGet, Impl.conGet]
  | docNil =>
    simp only [Repr] at r; obtain ⟨a', e, ha, rfl⟩ := r; cases e
    simp [hGet, ha, cellGet, Impl.conGet]
  | nilAry =>
    simp only [Repr] at r; obtain ⟨a', e, ha, rfl⟩ := r; cases e
    simp [hGet, ha, cellGet, Impl.conGet]
  | doc keys ms =>
    simp only [Repr] at r; obtain ⟨a', ps, fm, e, ha, hm, hn, rfl⟩ := r; cases e
    simp only [hGet, ha, cellGet, Impl.conGet]
    cases hk : lookupN key ms with
    | none => simp [ReprM.lookup_none ms key hm hk]
    | some n =>
      obtain ⟨p, f, rest0, hp, hr, dr, sf, sr, wand⟩ := ReprM.focus ms key hm hk
      simp only [hp, OutRel_ok_ok]
      refine ⟨f, c :: rest0, hr, ?_, fun x hx => by simp [sf x hx], fun x hx => ?_, by simp, ?_⟩
      · intro x hx hy
        simp only [List.mem_cons] at hy
        rcases hy with rfl | hy
        · exact hn (sf x hx)
        · exact dr x hx hy
      · simp only [List.mem_cons] at hx ⊢
        rcases hx with rfl | hx
        · exact Or.inl rfl
        · exact Or.inr (sr x hx)
      · intro h' n' f' r' fr d'
        obtain ⟨fp0, hl, sub⟩ := wand h' n' p f' r' (fun x hx => fr x (by simp [hx]))
          (fun x hx hy => d' x hx (by simp [hy]))
        rw [setP_self ps hp] at hl
        have hc0 : c ∉ fp0 := by
          intro hx
          rcases sub c hx with h1 | h1
          · exact d' c h1 (by simp)
          · exact hn (sr c h1)
        refine ⟨c :: fp0, ?_, fun x hx => ?_⟩
        · simp only [Impl.putChild]
          exact Repr.mk_doc (by rw [fr c (by simp)]; exact ha) hl hc0
        · simp only [List.mem_cons] at hx ⊢
          rcases hx with rfl | hx
          · exact Or.inr (Or.inl rfl)
          · rcases sub x hx with h1 | h1
            · exact Or.inl h1
            · exact Or.inr (Or.inr h1)
  | ary ns =>
    simp only [Repr] at r; obtain ⟨a', ps, fm, e, ha, hm, hn, rfl⟩ := r; cases e
    rw [conGet_ary]
    simp only [hGet, ha, cellGet, ReprL.length_eq ns hm]
    cases hi : getIdx o ns.length key with
    | err e => simp
    | panic => simp
    | ok i =>
      simp only
      cases hk : ns[i]? with
      | none => simp [ReprL.get_none i hm hk]
      | some n =>
        obtain ⟨p, f, rest0, hp, hr, dr, sf, sr, wand⟩ := ReprL.focus ns i hm hk
        simp only [hp, OutRel_ok_ok]
        refine ⟨f, c :: rest0, hr, ?_, fun x hx => by simp [sf x hx], fun x hx => ?_, by simp, ?_⟩
        · intro x hx hy
          simp only [List.mem_cons] at hy
          rcases hy with rfl | hy
          · exact hn (sf x hx)
          · exact dr x hx hy
        · simp only [List.mem_cons] at hx ⊢
          rcases hx with rfl | hx
          · exact Or.inl rfl
          · exact Or.inr (sr x hx)
        · intro h' n' f' r' fr d'
          obtain ⟨fp0, hl, sub⟩ := wand h' n' p f' r' (fun x hx => fr x (by simp [hx]))
            (fun x hx hy => d' x hx (by simp [hy]))
          have hself : listSet i p ps = ps := listSet_self ps hp
          rw [hself] at hl
          have hc0 : c ∉ fp0 := by
            intro hx
            rcases sub c hx with h1 | h1
            · exact d' c h1 (by simp)
            · exact hn (sr c h1)
          refine ⟨c :: fp0, ?_, fun x hx => ?_⟩
          · rw [putChild_ary n' hi]
            exact Repr.mk_ary (by rw [fr c (by simp)]; exact ha) hl hc0
          · simp only [List.mem_cons] at hx ⊢
            rcases hx with rfl | hx
            · exact Or.inr (Or.inl rfl)
            · rcases sub x hx with h1 | h1
              · exact Or.inl h1
              · exact Or.inr (Or.inr h1)

end Heap
end JP
