import JP.Lemmas.LegacyEngineMore

/-!
# Legacy engine lemmas, part 5: `copy`

`copy` looks the source up, probes the destination's container, reads the source again, duplicates
it by marshalling (`deepCopy`: a fresh raw message, members of parsed objects *sorted by name*),
and adds the duplicate.  The duplicate denotes the source's value only up to member order, which is
where `Sim` (rather than equality of ordered values) enters the refinement.
-/

namespace JP
namespace Legacy

open Value
open Impl (QK Outcome Err nav)
open Spec (Res)

/-- the action of `copySource` -/
def actCopySrc (neg : Bool) : Node → Bytes → Outcome (Node × Node) :=
  fun con key =>
    match conGet neg con key with
    | .panic => .panic
    | .err e => .err e
    | .ok val => .ok (con, val)

theorem copySource_eq (neg : Bool) (root : Node) (f : Bytes) :
    copySource neg root f = withPath neg root f (actCopySrc neg) := rfl

def actProbe : Node → Bytes → Outcome (Node × Unit) := fun con _ => .ok (con, ())

/-- the causes for which `copy` has to report an error -/
def CopyL (c : Spec.Cause) : Prop := c = .badIndex ∨ c = .testUnequal

theorem getIn_fail_cause {so : Spec.Opts} {b : Bool} {p : Value} {t : Bytes} {c : Spec.Cause}
    (h : Spec.getIn so b p t = .fail c) : c ≠ .testUnequal := by
  cases p with
  | obj ms =>
    simp only [Spec.getIn] at h
    cases hl : Value.lookup t ms with
    | none => rw [hl] at h; cases b <;> simp at h; subst h; simp
    | some x => rw [hl] at h; cases h
  | arr xs =>
    simp only [Spec.getIn] at h
    cases hr : Spec.readIdx so.neg xs.length t with
    | unspec => rw [hr] at h; cases h
    | bad => rw [hr] at h; cases h; simp
    | «at» i =>
      rw [hr] at h
      simp only at h
      cases hx : xs[i]? with
      | none => rw [hx] at h; cases h; simp
      | some x => rw [hx] at h; cases h
  | null => simp only [Spec.getIn] at h; cases h; simp
  | bool b => simp only [Spec.getIn] at h; cases h; simp
  | num l => simp only [Spec.getIn] at h; cases h; simp
  | str s => simp only [Spec.getIn] at h; cases h; simp

theorem actCopySrc_ref {neg : Bool} {key : Bytes} :
    ActRef CopyL key (actCopySrc neg) (Spec.getIn (specOpts neg) false)
      (fun val v => Inv val ∧ den val = v) := by
  intro pc hi hd
  have hget := conGet_refines (neg := neg) (key := key) hi hd
  cases hf : Spec.getIn (specOpts neg) false (den pc) key with
  | unspec => trivial
  | fail c =>
    rw [hf] at hget
    intro hL
    rcases hget with ⟨er, hg⟩ | ⟨hc, _⟩
    · exact ⟨er, by simp only [actCopySrc, hg]⟩
    · subst hc
      rcases hL with h | h <;> cases h
  | ok pv =>
    rw [hf] at hget
    obtain ⟨n, hn, hin, hdn⟩ := hget
    exact ⟨pc, n, by simp only [actCopySrc, hn], hi, hd, (Impl.getIn_fst hf).symm, hin, hdn⟩

/-- looking the source of a `copy` up -/
theorem copySource_refines {neg : Bool} {root : Node} {f : Bytes} {ft : Bytes} {fts : List Bytes}
    (hr : Inv root) (hc : isDA root = true) (hpf : Spec.parsePointer f = some (ft :: fts)) :
    match Spec.atParent (specOpts neg) (Spec.getIn (specOpts neg) false) (den root) (ft :: fts) with
    | .ok pv => ∃ root1 val, copySource neg root f = .done root1 val ∧ Inv root1 ∧ isDA root1 = true ∧
        den root1 = den root ∧ Inv val ∧ den val = pv.2
    | .fail c => CopyL c → ∃ er, copySource neg root f = .fail er
    | .unspec => True := by
  have := withPath_refines (neg := neg) (root := root) (path := f) (act := actCopySrc neg)
    (f := Spec.getIn (specOpts neg) false) (R := fun val v => Inv val ∧ den val = v) (L := CopyL)
    hr hc hpf (by simp) (fun key _ => actCopySrc_ref)
  rw [copySource_eq]
  cases hres : Spec.atParent (specOpts neg) (Spec.getIn (specOpts neg) false) (den root) (ft :: fts) with
  | unspec => trivial
  | fail c =>
    rw [hres] at this
    intro hL
    rcases this hL with h | ⟨h, _⟩
    · exact h
    · subst h; rcases hL with h | h <;> cases h
  | ok pv =>
    rw [hres] at this
    obtain ⟨root1, val, h1, h2, h3, h4, h5, h6⟩ := this
    have hsame := Impl.atParent_same (specOpts neg) (Spec.getIn (specOpts neg) false)
      (fun p t pb h => Impl.getIn_fst h) (den root) (ft :: fts) (by simp) pv hres
    exact ⟨root1, val, h1, h2, h3, by rw [h4, hsame], h5, h6⟩

/-- probing the destination's container -/
theorem probe_refines {neg : Bool} {root1 : Node} {path : Bytes} {pt : Bytes} {pts : List Bytes}
    (hr : Inv root1) (hc : isDA root1 = true) (hp : Spec.parsePointer path = some (pt :: pts)) :
    match Spec.atParent (specOpts neg) (fun p _ => .ok (p, ())) (den root1) (pt :: pts) with
    | .ok _ => ∃ root2, (withPath neg root1 path fun con _ => (.ok (con, ()) : Outcome (Node × Unit))) = .done root2 () ∧
        Inv root2 ∧ isDA root2 = true ∧ den root2 = den root1
    | .fail c => (∃ er, (withPath neg root1 path fun con _ => (.ok (con, ()) : Outcome (Node × Unit))) = .fail er) ∨
        c = .parentUnreachable
    | .unspec => True := by
  have := withPath_refines (neg := neg) (root := root1) (path := path) (act := actProbe)
    (f := fun p _ => (.ok (p, ()) : Res (Value × Unit))) (R := fun _ _ => True) (L := fun _ => True)
    hr hc hp (by simp)
    (fun key _ pc hi hd => ⟨pc, (), rfl, hi, hd, rfl, trivial⟩)
  cases hres : Spec.atParent (specOpts neg) (fun p _ => (.ok (p, ()) : Res (Value × Unit))) (den root1) (pt :: pts) with
  | unspec => trivial
  | fail c =>
    rw [hres] at this
    rcases this trivial with h | ⟨h, _⟩
    · exact Or.inl h
    · exact Or.inr h
  | ok vb =>
    rw [hres] at this
    obtain ⟨root2, a, h1, h2, h3, h4, _⟩ := this
    have hsame := Impl.atParent_same (specOpts neg) (fun p _ => (.ok (p, ()) : Res (Value × Unit)))
      (fun p t pb h => by cases h; rfl) (den root1) (pt :: pts) (by simp) vb hres
    exact ⟨root2, h1, h2, h3, by rw [h4, hsame]⟩

def fstOutL : Outcome (Node × Int) → Outcome Node
  | .ok (r, _) => .ok r
  | .err e => .err e
  | .panic => .panic

theorem listed_copy {c : Spec.Cause} (h : listed .copy c = true) : CopyL c := by
  simp only [listed, Bool.or_eq_true, decide_eq_true_eq, Bool.and_eq_true] at h
  rcases h with (h | h) | ⟨h, _⟩
  · exact Or.inr h
  · exact Or.inl h
  · rcases h with h | h <;> cases h

theorem copyL_ne {c : Spec.Cause} (h : CopyL c) : c ≠ .parentUnreachable := by
  intro e; subst e; rcases h with h | h <;> cases h

/-- what `copy` does once source, destination container and the re-read source are there -/
theorem opCopy_tail (neg : Bool) (root op : _) (acci : Int) (f path : Bytes) (root1 root2 root3 v1 val : Node)
    (hfrm : op.frm = .ok f) (hpath : op.path = .ok path)
    (h1 : copySource neg root f = .done root1 v1)
    (h2 : (withPath neg root1 path fun con _ => (.ok (con, ()) : Outcome (Node × Unit))) = .done root2 ())
    (h3 : copySource neg root2 f = .done root3 val) :
    fstOutL (opCopy neg 0 root acci op) =
      liftWalk (withPath neg root2 path fun con key => unitAct (conAdd neg con key (deepCopy val).1)) := by
  have hprep : copyPrepare neg root op = .ok (root2, (deepCopy val).1, (deepCopy val).2) := by
    simp only [copyPrepare, hfrm, h1, hpath, h2, h3]
  simp only [opCopy, hprep, hpath]
  have : ¬ ((0 : Int) > 0 ∧ acci + ((deepCopy val).2 : Int) > 0) := by omega
  rw [if_neg this]
  cases liftWalk (withPath neg root2 path fun con key => unitAct (conAdd neg con key (deepCopy val).1)) <;> rfl

theorem opCopy_err_of_src {neg : Bool} {root : Node} {op : Op} {acci : Int} {f : Bytes} {er : Err}
    (hfrm : op.frm = .ok f) (h1 : copySource neg root f = .fail er) :
    fstOutL (opCopy neg 0 root acci op) = .err er := by
  have hprep : copyPrepare neg root op = .err er := by simp only [copyPrepare, hfrm, h1]
  simp only [opCopy, hprep, fstOutL]

theorem opCopy_err_of_probe {neg : Bool} {root root1 v1 : Node} {op : Op} {acci : Int} {f path : Bytes}
    {er : Err} (hfrm : op.frm = .ok f) (hpath : op.path = .ok path)
    (h1 : copySource neg root f = .done root1 v1)
    (h2 : (withPath neg root1 path fun con _ => (.ok (con, ()) : Outcome (Node × Unit))) = .fail er) :
    fstOutL (opCopy neg 0 root acci op) = .err er := by
  have hprep : copyPrepare neg root op = .err er := by simp only [copyPrepare, hfrm, h1, hpath, h2]
  simp only [opCopy, hprep, fstOutL]

theorem opCopy_refines {neg : Bool} {root : Node} {op : Op} {sop : Spec.Op} {path f : Bytes}
    {ptoks : List Bytes} (sz acc : Nat) (acci : Int)
    (hr : Inv root) (hc : isDA root = true)
    (hpath : op.path = .ok path) (hfrm : op.frm = .ok f)
    (hk : sop.kind = .copy) (hsp : sop.path = path) (hsf : sop.frm = f)
    (hp : Spec.parsePointer path = some ptoks) (hfne : f ≠ [])
    (hq : ∀ x ∈ ptoks, QK true x = true) :
    OpRefL .copy (Spec.applyOp (specOpts neg) sz acc (den root) sop)
      (fstOutL (opCopy neg 0 root acci op)) := by
  have hp' : Spec.parsePointer sop.path = some ptoks := by rw [hsp]; exact hp
  cases hpf : Spec.parsePointer f with
  | none =>
    -- an unparsable `from`: the specification fails with a cause that is not listed for `copy`
    rw [Impl.spec_copy_none hk hp' (by rw [hsf]; exact hpf)]
    simp [OpRefL, listed]
  | some ftoks =>
    cases ftoks with
    | nil => exact absurd ((Impl.parsePointer_nil_iff hpf).1 rfl) hfne
    | cons ft fts =>
      rw [Impl.spec_copy hk hp' (by rw [hsf]; exact hpf) rfl]
      simp only [Impl.eng_copySrc]
      have h1 := copySource_refines (neg := neg) hr hc hpf
      cases hres1 : Spec.atParent (specOpts neg) (Spec.getIn (specOpts neg) false) (den root) (ft :: fts) with
      | unspec => trivial
      | fail c =>
        rw [hres1] at h1
        simp only [Res.bind, OpRefL]
        intro hl
        obtain ⟨er, her⟩ := h1 (listed_copy hl)
        exact ⟨er, opCopy_err_of_src hfrm her⟩
      | ok pv =>
        rw [hres1] at h1
        obtain ⟨root1, v1, hs1, hi1, hc1, hd1, _, _⟩ := h1
        simp only [Res.bind]
        cases ptoks with
        | nil => trivial
        | cons pt pts =>
          simp only
          have h2 := probe_refines (neg := neg) hi1 hc1 hp
          rw [hd1] at h2
          cases hres2 : Spec.atParent (specOpts neg) (fun p _ => (.ok (p, ()) : Res (Value × Unit))) (den root) (pt :: pts) with
          | unspec => trivial
          | fail c =>
            rw [hres2] at h2
            simp only [Res.bind, OpRefL]
            intro hl
            rcases h2 with ⟨er, her⟩ | h
            · exact ⟨er, opCopy_err_of_probe hfrm hpath hs1 her⟩
            · exact absurd h (copyL_ne (listed_copy hl))
          | ok u =>
            rw [hres2] at h2
            obtain ⟨root2, hs2, hi2, hc2, hd2⟩ := h2
            have h3 := copySource_refines (neg := neg) hi2 hc2 hpf
            rw [hd2, hres1] at h3
            obtain ⟨root3, val, hs3, _, _, _, hival, hdval⟩ := h3
            obtain ⟨hicp, hscp⟩ := deepCopy_spec val hival
            rw [opCopy_tail neg root op acci f path root1 root2 root3 v1 val hfrm hpath hs1 hs2 hs3]
            have h4 := addAt_refines (neg := neg) (path := path) hi2 hc2 hp (by simp) hicp hq
            rw [hd2] at h4
            have hsimv : Sim (den (deepCopy val).1) pv.2 := by rw [← hdval]; exact hscp
            have hdoc : Sim (den root) (den root) := Sim.refl (noDup_den root hr.1)
            have hcong := atParent_sim (specOpts neg)
              (Spec.addIn (specOpts neg) (den (deepCopy val).1)) (Spec.addIn (specOpts neg) pv.2)
              (fun _ _ => True) (fun p q t hpq _ => addIn_sim (specOpts neg) t hsimv hpq)
              (pt :: pts) (den root) (den root) hdoc
            simp only [Res.bind]
            cases hL : Spec.atParent (specOpts neg) (Spec.addIn (specOpts neg) (den (deepCopy val).1)) (den root) (pt :: pts) with
            | unspec =>
              rw [hL] at hcong
              cases hS : Spec.atParent (specOpts neg) (Spec.addIn (specOpts neg) pv.2) (den root) (pt :: pts) with
              | unspec => trivial
              | fail c => rw [hS] at hcong; exact hcong.elim
              | ok vb => rw [hS] at hcong; exact hcong.elim
            | fail c =>
              rw [hL] at hcong h4
              cases hS : Spec.atParent (specOpts neg) (Spec.addIn (specOpts neg) pv.2) (den root) (pt :: pts) with
              | unspec => trivial
              | ok vb => rw [hS] at hcong; exact hcong.elim
              | fail c' =>
                simp only [OpRefL]
                intro _
                rcases h4 with ⟨er, h⟩ | h
                · exact ⟨er, by rw [h]; rfl⟩
                · exact ⟨.missing, by rw [h]; rfl⟩
            | ok vb' =>
              rw [hL] at hcong h4
              cases hS : Spec.atParent (specOpts neg) (Spec.addIn (specOpts neg) pv.2) (den root) (pt :: pts) with
              | unspec => rw [hS] at hcong; exact hcong.elim
              | fail c => rw [hS] at hcong; exact hcong.elim
              | ok vb =>
                rw [hS] at hcong
                obtain ⟨con', a, w1, w2, w3, w4, _⟩ := h4
                simp only [OpRefL]
                refine ⟨con', by rw [w1]; rfl, w2, w3, ?_⟩
                rw [w4]
                exact hcong.1

end Legacy
end JP
