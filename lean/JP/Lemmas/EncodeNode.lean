import JP.Codec.Encode
import JP.Lemmas.TransduceTop
import JP.Lemmas.CloseWN
import JP.Lemmas.TextParse
import JP.Lemmas.TransduceWF

/-!
# The encoder on the library's nodes writes the printed syntax tree

`RepN o n g`: the Go value `g` is a `*lazyNode` heap that the model node `n` stands for — a raw
message may be *any* text that parses to the tree kept in the node, every parsed object carries
the options `o`.  `enc_rep`: the encoder run with flag `esc` on such a value writes
`Cst.print (cstOf2 esc (escapedOf o) n)`, where `cstOf2 e f` spells with `e` until it enters a
parsed object and with `f` inside (names included); `cstOf2 e e = cstOf e`.
-/

namespace JP
namespace Codec
namespace Enc
open Impl

/-! ### `W` algebra -/

@[simp] theorem seq_ok_ok (a b : Bytes) : (W.ok a).seq (W.ok b) = W.ok (a ++ b) := rfl
@[simp] theorem seq_ok_err (a b : Bytes) (e : EncErr) : (W.ok a).seq (W.err b e) = W.err (a ++ b) e := rfl
@[simp] theorem seq_ok_panic (a : Bytes) : (W.ok a).seq W.panic = W.panic := rfl
@[simp] theorem seq_err (a : Bytes) (e : EncErr) (w : W) : (W.err a e).seq w = W.err a e := rfl
@[simp] theorem seq_panic (w : W) : W.panic.seq w = W.panic := rfl
@[simp] theorem write_eq (bs : Bytes) : write bs = W.ok bs := rfl
@[simp] theorem dropErr_ok (a : Bytes) : dropErr (W.ok a) = W.ok a := rfl
@[simp] theorem dropErr_err (a : Bytes) (e : EncErr) : dropErr (W.err a e) = W.ok a := rfl
@[simp] theorem dropErr_panic : dropErr W.panic = W.panic := rfl
@[simp] theorem nested_ok (a : Bytes) : nested (W.ok a) = W.ok a := rfl
@[simp] theorem nested_err (a : Bytes) (e : EncErr) : nested (W.err a e) = W.err [] e := rfl
@[simp] theorem nested_panic : nested W.panic = W.panic := rfl
@[simp] theorem wrapMarshaler_ok (a : Bytes) : wrapMarshaler (W.ok a) = W.ok a := rfl
@[simp] theorem wrapMarshaler_err (a : Bytes) (e : EncErr) : wrapMarshaler (W.err a e) = W.err a (.marshaler e) := rfl
@[simp] theorem wrapMarshaler_panic : wrapMarshaler W.panic = W.panic := rfl
@[simp] theorem encString_eq (esc : Bool) (s : Bytes) : encString esc s = W.ok (34 :: quoteBody esc s ++ [34]) := rfl

theorem null_eq : null = Cst.print litNull := rfl

/-- B2 in the form the encoder uses it -/
theorem compact_of_parse (e : Bool) (bs : Bytes) (c : Cst) (h : parseCst bs = some c) :
    Scanner.compact e bs = some (Cst.print (Cst.escape e c)) := by
  cases e with
  | false => rw [escape_false]; exact compact_noescape bs c h
  | true => exact compact_escape bs c h

theorem encRawMessage_of_parse (e : Bool) (bs : Bytes) (c : Cst) (h : parseCst bs = some c) :
    encRawMessage e (some bs) = W.ok (Cst.print (Cst.escape e c)) := by
  simp only [encRawMessage, rawMarshalJSON, compact_of_parse e bs c h, write_eq]

/-! ### the tree with two flags -/

mutual
/-- what the encoder writes for a node when its own flag is `e` and every parsed object carries
a flag `f`: `e` governs the raw messages reached through arrays only, `f` everything inside an
object (names, and all members, which `TrustMarshalJSON` marshals with `f`) -/
def cstOf2 (e f : Bool) : Node → Cst
  | .nil => litNull
  | .raw c => Cst.escape e c
  | .doc keys obj =>
    let ms := cstOfM f obj
    .obj (keys.map fun k => (quoteBody f k, (lookupC k ms).getD litNull))
  | .ary ns => .arr (cstOf2L e f ns)
  | .docNil => litNull
  | .nilAry => litNull
def cstOf2L (e f : Bool) : List Node → List Cst
  | [] => []
  | n :: ns => cstOf2 e f n :: cstOf2L e f ns
end

mutual
theorem cstOf2_same (e : Bool) : ∀ n : Node, cstOf2 e e n = cstOf e n
  | .nil => rfl
  | .raw _ => rfl
  | .doc _ _ => rfl
  | .ary ns => by simp only [cstOf2, cstOf, cstOf2L_same e ns]
  | .docNil => rfl
  | .nilAry => rfl
theorem cstOf2L_same (e : Bool) : ∀ ns : List Node, cstOf2L e e ns = cstOfL e ns
  | [] => rfl
  | n :: ns => by simp only [cstOf2L, cstOfL, cstOf2_same e n, cstOf2L_same e ns]
end

/-! ### representation -/

mutual
def RepN (o : Option Bool) : Node → GoVal → Prop
  | .nil, g => g = .lazyNil
  | .raw c, g => ∃ bs, g = .lazyRaw (.rawPtr (some bs)) ∧ parseCst bs = some c
  | .doc keys obj, g => ∃ gobj, g = .lazyDoc (.docPtr keys gobj o) ∧ RepM o obj gobj
  | .ary ns, g => ∃ gs, g = .lazyAry (.slice gs) ∧ RepL o ns gs
  | .docNil, _ => False
  | .nilAry, _ => False
def RepM (o : Option Bool) : NMembers → List (Bytes × GoVal) → Prop
  | [], gm => gm = []
  | (k, n) :: ms, gm => ∃ g gm', gm = (k, g) :: gm' ∧ RepN o n g ∧ RepM o ms gm'
def RepL (o : Option Bool) : List Node → List GoVal → Prop
  | [], gs => gs = []
  | n :: ns, gs => ∃ g gs', gs = g :: gs' ∧ RepN o n g ∧ RepL o ns gs'
end

/-- the root container: a `*partialDoc` or a `*partialArray` held in the `container` interface -/
def RepRoot (o : Option Bool) : Node → GoVal → Prop
  | .doc keys obj, g => ∃ gobj, g = .docPtr keys gobj o ∧ RepM o obj gobj
  | .ary ns, g => ∃ gs, g = .aryPtr (.slice gs) ∧ RepL o ns gs
  | .docNil, g => ∃ keys, g = .docPtrNilMap keys o
  | .nilAry, g => g = .aryNilPtr
  | _, _ => False

/-- the results of marshalling the members, all successful -/
def okM : List (Bytes × Cst) → List (Bytes × W)
  | [] => []
  | (k, c) :: ms => (k, W.ok (Cst.print c)) :: okM ms

theorem lookupW_okM (k : Bytes) : ∀ cm : List (Bytes × Cst),
    (lookupW k (okM cm)).getD (W.ok null) = W.ok (Cst.print ((lookupC k cm).getD litNull))
  | [] => rfl
  | (k', c) :: cm => by
    simp only [okM, lookupW, lookupC]
    split
    · rfl
    · exact lookupW_okM k cm

/-- the loop of `TrustMarshalJSON` over successful member results -/
theorem emitKeys_okM (f : Bool) (cm : List (Bytes × Cst)) : ∀ keys : List Bytes,
    emitKeys f (okM cm) keys =
      W.ok (Cst.printM (keys.map fun k => (quoteBody f k, (lookupC k cm).getD litNull)))
  | [] => rfl
  | [k] => by
    simp only [emitKeys, lookupW_okM, encString_eq, nested_ok, write_eq, seq_ok_ok, List.map_cons,
      List.map_nil, Cst.printM, List.cons_append, List.append_assoc, List.nil_append]
  | k :: k2 :: ks => by
    have ih := emitKeys_okM f cm (k2 :: ks)
    simp only [List.map_cons] at ih
    simp only [emitKeys, ih, lookupW_okM, encString_eq, nested_ok, write_eq, seq_ok_ok, List.map_cons,
      Cst.printM, List.cons_append, List.append_assoc, List.nil_append]

mutual
theorem enc_rep (o : Option Bool) : ∀ (n : Node) (g : GoVal) (esc : Bool), RepN o n g →
    enc esc g = W.ok (Cst.print (cstOf2 esc (escapedOf o) n))
  | .nil, g, esc, h => by
    simp only [RepN] at h
    subst h
    rfl
  | .raw c, g, esc, h => by
    simp only [RepN] at h
    obtain ⟨bs, rfl, hp⟩ := h
    simp only [enc, encRawMessage_of_parse esc bs c hp, dropErr_ok, cstOf2]
  | .doc keys obj, g, esc, h => by
    simp only [RepN] at h
    obtain ⟨gobj, rfl, hm⟩ := h
    simp only [enc, encMembers_rep o obj gobj (escapedOf o) hm, emitKeys_okM, write_eq, seq_ok_ok,
      wrapMarshaler_ok, dropErr_ok, cstOf2, Cst.print, List.cons_append, List.nil_append]
  | .ary ns, g, esc, h => by
    simp only [RepN] at h
    obtain ⟨gs, rfl, hl⟩ := h
    simp only [enc, encElems_rep o ns gs esc hl, write_eq, seq_ok_ok, dropErr_ok, cstOf2, Cst.print,
      List.cons_append, List.nil_append]
  | .docNil, _, _, h => by simp only [RepN] at h
  | .nilAry, _, _, h => by simp only [RepN] at h
theorem encMembers_rep (o : Option Bool) : ∀ (obj : NMembers) (gobj : List (Bytes × GoVal)) (esc : Bool),
    RepM o obj gobj → esc = escapedOf o → encMembers esc gobj = okM (cstOfM esc obj)
  | [], gobj, esc, h, _ => by
    simp only [RepM] at h
    subst h
    rfl
  | (k, n) :: ms, gobj, esc, h, he => by
    simp only [RepM] at h
    obtain ⟨g, gm', rfl, hn, hm⟩ := h
    have h1 := enc_rep o n g esc hn
    rw [← he, cstOf2_same] at h1
    simp only [encMembers, h1, encMembers_rep o ms gm' esc hm he, cstOfM, okM]
theorem encElems_rep (o : Option Bool) : ∀ (ns : List Node) (gs : List GoVal) (esc : Bool), RepL o ns gs →
    encElems esc gs = W.ok (Cst.printL (cstOf2L esc (escapedOf o) ns))
  | [], gs, esc, h => by
    simp only [RepL] at h
    subst h
    rfl
  | n :: ns, gs, esc, h => by
    simp only [RepL] at h
    obtain ⟨g, gs', rfl, hn, hl⟩ := h
    have h1 := enc_rep o n g esc hn
    have h2 := encElems_rep o ns gs' esc hl
    cases ns with
    | nil =>
      simp only [RepL] at hl
      subst hl
      simp only [encElems, h1, cstOf2L, Cst.printL]
    | cons n2 ns2 =>
      simp only [RepL] at hl
      obtain ⟨g2, gs2, rfl, _, _⟩ := hl
      simp only [encElems, h1, h2, write_eq, seq_ok_ok, cstOf2L, Cst.printL, List.cons_append,
        List.nil_append]
end

/-! ### the canonical representative, and what a representation implies -/

mutual
/-- no `docNil`/`nilAry` below the root (they are root containers only); every raw message is
within the nesting limit of the scanner (true of every text the scanner accepted) -/
def Proper : Node → Bool
  | .nil => true
  | .raw c => decide (c.depth ≤ maxDepth)
  | .doc _ obj => ProperM obj
  | .ary ns => ProperL ns
  | .docNil => false
  | .nilAry => false
def ProperM : NMembers → Bool
  | [] => true
  | (_, n) :: ms => Proper n && ProperM ms
def ProperL : List Node → Bool
  | [] => true
  | n :: ns => Proper n && ProperL ns
end

mutual
theorem RepN_toGo (o : Option Bool) : ∀ n : Node, WN n = true → Proper n = true → RepN o n (toGo o n)
  | .nil, _, _ => by simp only [RepN, toGo]
  | .raw c, hw, hp => by
    simp only [WN] at hw
    simp only [Proper, decide_eq_true_eq] at hp
    simp only [RepN, toGo]
    exact ⟨_, rfl, parse_print c hw hp⟩
  | .doc keys obj, hw, hp => by
    simp only [WN] at hw
    simp only [Proper] at hp
    simp only [RepN, toGo]
    exact ⟨_, rfl, RepM_toGoM o obj hw hp⟩
  | .ary ns, hw, hp => by
    simp only [WN] at hw
    simp only [Proper] at hp
    simp only [RepN, toGo]
    exact ⟨_, rfl, RepL_toGoL o ns hw hp⟩
  | .docNil, _, hp => by simp [Proper] at hp
  | .nilAry, _, hp => by simp [Proper] at hp
theorem RepM_toGoM (o : Option Bool) : ∀ obj : NMembers, WNM obj = true → ProperM obj = true →
    RepM o obj (toGoM o obj)
  | [], _, _ => by simp only [RepM, toGoM]
  | (k, n) :: ms, hw, hp => by
    simp only [WNM, Bool.and_eq_true] at hw
    simp only [ProperM, Bool.and_eq_true] at hp
    simp only [RepM, toGoM]
    exact ⟨_, _, rfl, RepN_toGo o n hw.1 hp.1, RepM_toGoM o ms hw.2 hp.2⟩
theorem RepL_toGoL (o : Option Bool) : ∀ ns : List Node, WNL ns = true → ProperL ns = true →
    RepL o ns (toGoL o ns)
  | [], _, _ => by simp only [RepL, toGoL]
  | n :: ns, hw, hp => by
    simp only [WNL, Bool.and_eq_true] at hw
    simp only [ProperL, Bool.and_eq_true] at hp
    simp only [RepL, toGoL]
    exact ⟨_, _, rfl, RepN_toGo o n hw.1 hp.1, RepL_toGoL o ns hw.2 hp.2⟩
end

mutual
/-- a represented node holds well-formed raw messages only: the scanner accepted their texts -/
theorem RepN_wn (o : Option Bool) : ∀ (n : Node) (g : GoVal), RepN o n g → WN n = true ∧ Proper n = true
  | .nil, _, _ => ⟨rfl, rfl⟩
  | .raw c, g, h => by
    simp only [RepN] at h
    obtain ⟨bs, _, hp⟩ := h
    obtain ⟨h1, h2⟩ := parseCst_wfc bs c hp
    simp only [WN, Proper, h1, decide_eq_true_eq, h2, and_self]
  | .doc keys obj, g, h => by
    simp only [RepN] at h
    obtain ⟨gobj, _, hm⟩ := h
    simpa only [WN, Proper] using RepM_wn o obj gobj hm
  | .ary ns, g, h => by
    simp only [RepN] at h
    obtain ⟨gs, _, hl⟩ := h
    simpa only [WN, Proper] using RepL_wn o ns gs hl
  | .docNil, _, h => by simp only [RepN] at h
  | .nilAry, _, h => by simp only [RepN] at h
theorem RepM_wn (o : Option Bool) : ∀ (obj : NMembers) (gobj : List (Bytes × GoVal)), RepM o obj gobj →
    WNM obj = true ∧ ProperM obj = true
  | [], _, _ => ⟨rfl, rfl⟩
  | (k, n) :: ms, gobj, h => by
    simp only [RepM] at h
    obtain ⟨g, gm', _, hn, hm⟩ := h
    have h1 := RepN_wn o n g hn
    have h2 := RepM_wn o ms gm' hm
    simp only [WNM, ProperM, h1.1, h1.2, h2.1, h2.2, Bool.and_self, and_self]
theorem RepL_wn (o : Option Bool) : ∀ (ns : List Node) (gs : List GoVal), RepL o ns gs →
    WNL ns = true ∧ ProperL ns = true
  | [], _, _ => ⟨rfl, rfl⟩
  | n :: ns, gs, h => by
    simp only [RepL] at h
    obtain ⟨g, gs', _, hn, hl⟩ := h
    have h1 := RepN_wn o n g hn
    have h2 := RepL_wn o ns gs' hl
    simp only [WNL, ProperL, h1.1, h1.2, h2.1, h2.2, Bool.and_self, and_self]
end

/-- the root container -/
theorem enc_root (o : Option Bool) (esc : Bool) (ho : escapedOf o = esc) : ∀ (n : Node) (g : GoVal),
    RepRoot o n g →
    enc esc g = (match n with
      | .docNil => W.err [] (.marshaler .expectedObject)
      | .nilAry => W.ok null
      | n => W.ok (Cst.print (cstOf esc n)))
  | .doc keys obj, g, h => by
    simp only [RepRoot] at h
    obtain ⟨gobj, rfl, hm⟩ := h
    subst ho
    simp only [enc, encMembers_rep o obj gobj (escapedOf o) hm rfl, emitKeys_okM, write_eq, seq_ok_ok,
      wrapMarshaler_ok, cstOf, Cst.print, List.cons_append, List.nil_append]
  | .ary ns, g, h => by
    simp only [RepRoot] at h
    obtain ⟨gs, rfl, hl⟩ := h
    have h2 := encElems_rep o ns gs esc hl
    rw [ho, cstOf2L_same] at h2
    simp only [enc, h2, write_eq, seq_ok_ok, dropErr_ok, cstOf, Cst.print, List.cons_append,
      List.nil_append]
  | .docNil, g, h => by
    simp only [RepRoot] at h
    obtain ⟨keys, rfl⟩ := h
    rfl
  | .nilAry, g, h => by
    simp only [RepRoot] at h
    subst h
    rfl
  | .nil, _, h => by simp only [RepRoot] at h
  | .raw _, _, h => by simp only [RepRoot] at h

theorem RepRoot_rootToGo (o : Option Bool) (n : Node) (hw : WN n = true)
    (hp : Proper n = true ∨ n = .docNil ∨ n = .nilAry) (hc : n ≠ .nil ∧ ∀ c, n ≠ .raw c) :
    RepRoot o n (rootToGo o n) := by
  cases n with
  | nil => exact absurd rfl hc.1
  | raw c => exact absurd rfl (hc.2 c)
  | doc keys obj =>
    rcases hp with hp | hp | hp
    · simp only [WN] at hw
      simp only [Proper] at hp
      exact ⟨_, rfl, RepM_toGoM o obj hw hp⟩
    · cases hp
    · cases hp
  | ary ns =>
    rcases hp with hp | hp | hp
    · simp only [WN] at hw
      simp only [Proper] at hp
      exact ⟨_, rfl, RepL_toGoL o ns hw hp⟩
    · cases hp
    · cases hp
  | docNil => exact ⟨[], rfl⟩
  | nilAry => rfl

/-! ### the tabulated member results are the per-name calls of `TrustMarshalJSON` -/

/-- `n.obj[k]` as a Go map read: the entry, or the zero value (a nil `*lazyNode`) -/
def lookupG (k : Bytes) : List (Bytes × GoVal) → Option GoVal
  | [] => none
  | (k', g) :: ms => if k' = k then some g else lookupG k ms

theorem lookupW_encMembers (esc : Bool) (k : Bytes) : ∀ obj : List (Bytes × GoVal),
    lookupW k (encMembers esc obj) = (lookupG k obj).map (enc esc)
  | [] => rfl
  | (k', g) :: ms => by
    simp only [encMembers, lookupW, lookupG]
    split
    · rfl
    · exact lookupW_encMembers esc k ms

/-- what `emitKeys` uses for the name `k` is `enc escaped (n.obj[k])`, i.e. the run of
`json.MarshalEscaped(n.obj[k], escaped)` -/
theorem trust_member (esc : Bool) (k : Bytes) (obj : List (Bytes × GoVal)) :
    (lookupW k (encMembers esc obj)).getD (write null) = enc esc ((lookupG k obj).getD .lazyNil) := by
  rw [lookupW_encMembers]
  cases lookupG k obj with
  | none => rfl
  | some g => rfl

end Enc
end Codec
end JP
