import JP.Lemmas.HeapRepr

/-!
# Reading a tree back: `abs` and `marshal` terminate within the footprint's size and return the
represented node / its `cstOf`
-/

namespace JP
namespace Heap

open JP.Impl (Node NMembers Outcome cstOf cstOfL cstOfM)

/-- pigeonhole: distinct addresses below `n` are at most `n` -/
theorem nodup_bound : ∀ (n : Nat) (l : List Nat), l.Nodup → (∀ x ∈ l, x < n) → l.length ≤ n
  | 0, l, _, hb => by
    cases l with
    | nil => simp
    | cons x xs => exact absurd (hb x (by simp)) (by omega)
  | n + 1, l, hn, hb => by
    have ih := nodup_bound n (l.erase n) (hn.erase n) (fun x hx => by
      have hm := (List.Nodup.mem_erase_iff hn).mp hx
      have := hb x hm.2
      omega)
    by_cases hmem : n ∈ l
    · rw [List.length_erase_of_mem hmem] at ih; omega
    · rw [List.erase_of_not_mem hmem] at ih; omega

/-- a footprint has at most as many cells as the heap -/
theorem Repr.size_le {h : Heap} {n : Node} {p : Ptr} {fp : List Nat} (r : Repr h n p fp) :
    fp.length ≤ h.length :=
  nodup_bound h.length fp (Repr.nodup n r) (Repr.valid n r)

mutual
theorem abs_of_repr {h : Heap} : ∀ (n : Node) {p fp}, Repr h n p fp → ∀ fuel, fp.length < fuel →
    abs h fuel p = some n
  | .nil, p, fp, r, fuel, _ => by
    simp only [Repr] at r; obtain ⟨rfl, _⟩ := r
    cases fuel <;> rfl
  | .raw c, p, fp, r, fuel, hf => by
    simp only [Repr] at r; obtain ⟨a, rfl, ha, rfl⟩ := r
    cases fuel with
    | zero => simp at hf
    | succ k => simp only [abs, ha, absCell]
  | .docNil, p, fp, r, fuel, hf => by
    simp only [Repr] at r; obtain ⟨a, rfl, ha, rfl⟩ := r
    cases fuel with
    | zero => simp at hf
    | succ k => simp only [abs, ha, absCell]
  | .nilAry, p, fp, r, fuel, hf => by
    simp only [Repr] at r; obtain ⟨a, rfl, ha, rfl⟩ := r
    cases fuel with
    | zero => simp at hf
    | succ k => simp only [abs, ha, absCell]
  | .doc keys ms, p, fp, r, fuel, hf => by
    simp only [Repr] at r; obtain ⟨a, ps, f, rfl, ha, hm, _, rfl⟩ := r
    cases fuel with
    | zero => simp at hf
    | succ k =>
      simp only [List.length_cons] at hf
      simp only [abs, ha, absCell, absM_of_repr ms hm k (by omega)]
  | .ary ns, p, fp, r, fuel, hf => by
    simp only [Repr] at r; obtain ⟨a, ps, f, rfl, ha, hm, _, rfl⟩ := r
    cases fuel with
    | zero => simp at hf
    | succ k =>
      simp only [List.length_cons] at hf
      simp only [abs, ha, absCell, absL_of_repr ns hm k (by omega)]
theorem absL_of_repr {h : Heap} : ∀ (ns : List Node) {ps fp}, ReprL h ns ps fp → ∀ fuel, fp.length < fuel →
    optMapL (fun p => abs h fuel p) ps = some ns
  | [], ps, fp, r, fuel, _ => by
    simp only [ReprL] at r; obtain ⟨rfl, _⟩ := r; rfl
  | n :: ns, ps, fp, r, fuel, hf => by
    simp only [ReprL] at r; obtain ⟨p, ps', f1, f2, rfl, h1, h2, _, rfl⟩ := r
    simp only [List.length_append] at hf
    simp only [optMapL, abs_of_repr n h1 fuel (by omega), absL_of_repr ns h2 fuel (by omega)]
theorem absM_of_repr {h : Heap} : ∀ (ms : NMembers) {ps fp}, ReprM h ms ps fp → ∀ fuel, fp.length < fuel →
    optMapM (fun p => abs h fuel p) ps = some ms
  | [], ps, fp, r, fuel, _ => by
    simp only [ReprM] at r; obtain ⟨rfl, _⟩ := r; rfl
  | (k, n) :: ms, ps, fp, r, fuel, hf => by
    simp only [ReprM] at r; obtain ⟨p, ps', f1, f2, rfl, h1, h2, _, rfl⟩ := r
    simp only [List.length_append] at hf
    simp only [optMapM, abs_of_repr n h1 fuel (by omega), absM_of_repr ms h2 fuel (by omega)]
end

mutual
theorem marshal_of_repr {h : Heap} (esc : Bool) : ∀ (n : Node) {p fp}, Repr h n p fp → ∀ fuel,
    fp.length < fuel → marshal esc h fuel p = some (cstOf esc n)
  | .nil, p, fp, r, fuel, _ => by
    simp only [Repr] at r; obtain ⟨rfl, _⟩ := r
    cases fuel <;> simp [marshal, cstOf]
  | .raw c, p, fp, r, fuel, hf => by
    simp only [Repr] at r; obtain ⟨a, rfl, ha, rfl⟩ := r
    cases fuel with
    | zero => simp at hf
    | succ k => simp only [marshal, ha, marshalCell, cstOf]
  | .docNil, p, fp, r, fuel, hf => by
    simp only [Repr] at r; obtain ⟨a, rfl, ha, rfl⟩ := r
    cases fuel with
    | zero => simp at hf
    | succ k => simp only [marshal, ha, marshalCell, cstOf]
  | .nilAry, p, fp, r, fuel, hf => by
    simp only [Repr] at r; obtain ⟨a, rfl, ha, rfl⟩ := r
    cases fuel with
    | zero => simp at hf
    | succ k => simp only [marshal, ha, marshalCell, cstOf]
  | .doc keys ms, p, fp, r, fuel, hf => by
    simp only [Repr] at r; obtain ⟨a, ps, f, rfl, ha, hm, _, rfl⟩ := r
    cases fuel with
    | zero => simp at hf
    | succ k =>
      simp only [List.length_cons] at hf
      simp only [marshal, ha, marshalCell, marshalM_of_repr esc ms hm k (by omega), cstOf]
  | .ary ns, p, fp, r, fuel, hf => by
    simp only [Repr] at r; obtain ⟨a, ps, f, rfl, ha, hm, _, rfl⟩ := r
    cases fuel with
    | zero => simp at hf
    | succ k =>
      simp only [List.length_cons] at hf
      simp only [marshal, ha, marshalCell, marshalL_of_repr esc ns hm k (by omega), cstOf]
theorem marshalL_of_repr {h : Heap} (esc : Bool) : ∀ (ns : List Node) {ps fp}, ReprL h ns ps fp →
    ∀ fuel, fp.length < fuel → optMapL (fun p => marshal esc h fuel p) ps = some (cstOfL esc ns)
  | [], ps, fp, r, fuel, _ => by
    simp only [ReprL] at r; obtain ⟨rfl, _⟩ := r; simp [optMapL, cstOfL]
  | n :: ns, ps, fp, r, fuel, hf => by
    simp only [ReprL] at r; obtain ⟨p, ps', f1, f2, rfl, h1, h2, _, rfl⟩ := r
    simp only [List.length_append] at hf
    simp only [optMapL, marshal_of_repr esc n h1 fuel (by omega),
      marshalL_of_repr esc ns h2 fuel (by omega), cstOfL]
theorem marshalM_of_repr {h : Heap} (esc : Bool) : ∀ (ms : NMembers) {ps fp}, ReprM h ms ps fp →
    ∀ fuel, fp.length < fuel → optMapM (fun p => marshal esc h fuel p) ps = some (cstOfM esc ms)
  | [], ps, fp, r, fuel, _ => by
    simp only [ReprM] at r; obtain ⟨rfl, _⟩ := r; simp [optMapM, cstOfM]
  | (k, n) :: ms, ps, fp, r, fuel, hf => by
    simp only [ReprM] at r; obtain ⟨p, ps', f1, f2, rfl, h1, h2, _, rfl⟩ := r
    simp only [List.length_append] at hf
    simp only [optMapM, marshal_of_repr esc n h1 fuel (by omega),
      marshalM_of_repr esc ms h2 fuel (by omega), cstOfM]
end

/-- `fuelOf h` (number of cells + 1) always suffices on a tree -/
theorem abs_fuelOf {h : Heap} {n : Node} {p : Ptr} {fp : List Nat} (r : Repr h n p fp) :
    abs h (fuelOf h) p = some n :=
  abs_of_repr n r _ (by have := r.size_le; simp only [fuelOf]; omega)

theorem marshal_fuelOf {h : Heap} (esc : Bool) {n : Node} {p : Ptr} {fp : List Nat} (r : Repr h n p fp) :
    marshal esc h (fuelOf h) p = some (cstOf esc n) :=
  marshal_of_repr esc n r _ (by have := r.size_le; simp only [fuelOf]; omega)

end Heap
end JP
