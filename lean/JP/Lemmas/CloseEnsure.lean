import JP.Lemmas.CloseWN
import JP.Lemmas.CloseClass
import JP.Lemmas.ErrClass
import JP.Lemmas.EnsureOps

/-!
# Closing the text hypotheses with `EnsurePathExistsOnAdd` set

* `ensure` / `ensurePath` keep every raw message well formed (`WN`): the nodes they create are
  `padNulls` raw nulls and empty containers; hence `applyOps_W_all` (no hypothesis on the option);
* the specification's `ensureAdd` only fails with the cause `badIndex`, and `opAdd` never returns
  one of the two special errors: the error classes of C08 hold for an `add` with the option
  (`opAdd_ensure_class`).
-/

namespace JP
namespace Impl

open Spec (Res Cause)

/-! ### `WN` through `ensure` -/

theorem WN_rawNull : WN rawNull = true := by decide

theorem WNL_padNulls (n : Nat) : ∀ x ∈ padNulls n, WN x = true := by
  intro x hx
  rw [padNulls, List.mem_replicate] at hx
  rw [hx.2]; exact WN_rawNull

theorem WN_aryPad (n : Nat) : WN (.ary (padNulls n)) = true := (WN_ary _).2 (WNL_padNulls n)

theorem WN_emptyDoc : WN (.doc [] []) = true := rfl

/-- outcome of `ensure` -/
def EnsW : Outcome (Node × Node) → Prop
  | .ok (c, s) => WN c = true ∧ WN s = true
  | _ => True

theorem ensurePad_W {part con} (hc : WN con = true) : WN (ensurePad part con) = true := by
  unfold ensurePad
  split
  · rename_i ai nodes
    split
    · rw [WN_ary] at hc ⊢
      intro n hn
      rcases List.mem_append.1 hn with h | h
      · exact hc n h
      · exact WNL_padNulls _ n h
    · exact hc
  · exact hc

theorem ensureAdd_W {o con1 key self x} (hc : WN con1 = true) (hs : WN self = true) (hx : EnsW x) :
    EnsW (ensureAdd o con1 key self x) := by
  cases x with
  | ok p =>
    obtain ⟨child, s'⟩ := p
    simp only [ensureAdd]
    have := conAdd_W (o := o) (key := key) hc hx.1
    cases h : conAdd o con1 key child with
    | ok con2 => rw [h] at this; exact ⟨this, hs⟩
    | err e => exact ⟨hc, hs⟩
    | panic => trivial
  | err e => trivial
  | panic => trivial

theorem ensurePut_W {o con key self x} (hc : WN con = true) (hs : WN self = true) (hx : EnsW x) :
    EnsW (ensurePut o con key self x) := by
  cases x with
  | ok p =>
    obtain ⟨child, s'⟩ := p
    simp only [ensurePut]
    exact ⟨putChild_W hc hx.1, hs⟩
  | err e => trivial
  | panic => trivial

theorem ensureTarget_W {o self con key t} (hs : WN self = true) (hc : WN con = true)
    (h : ensureTarget o self con key = some t) : WN t = true := by
  have hg := conGet_W (o := o) (key := key) hs hc
  unfold ensureTarget at h
  cases hx : conGet o self con key with
  | ok n =>
    rw [hx] at h hg
    cases n <;> simp only [Option.some.injEq] at h <;> first | contradiction | (subst h; exact hg)
  | err e => rw [hx] at h; cases h
  | panic => rw [hx] at h; cases h

/-- **`ensure` keeps every raw message well formed** -/
theorem ensure_W (o : Opts) : ∀ (parts : List Bytes) (cr : Bool) (self con : Node),
    WN con = true → WN self = true → EnsW (ensure o cr self con parts) := by
  intro parts
  induction parts with
  | nil => intro cr self con hc hs; rw [ensure]; exact ⟨hc, hs⟩
  | cons part rest ih =>
    intro cr self con hc hs
    cases rest with
    | nil => rw [ensure]; exact ⟨hc, hs⟩
    | cons nxt rest =>
      rw [ensure_cons2]
      cases ht : ensureTarget o self con (decodeToken part) with
      | none =>
        simp only []
        split
        · split
          · trivial
          · split
            · trivial
            · exact ensureAdd_W (ensurePad_W hc) hs (ih false .nil _ (WN_aryPad _) WN_nil)
        · exact ensureAdd_W (ensurePad_W hc) hs (ih false .nil _ WN_emptyDoc WN_nil)
      | some t =>
        simp only []
        have hwt := ensureTarget_W hs hc ht
        have he := enter_W (cr := cr) (key := decodeToken part) hwt
        cases hent : enter cr (decodeToken part) t with
        | panic => trivial
        | err e => trivial
        | ok child =>
          rw [hent] at he
          exact ensurePut_W hc hs (ih false .nil child he WN_nil)

theorem ensurePath_W {o r path} (hr : RootW r) : OutW (ensurePath o r path) := by
  unfold ensurePath
  split
  · exact hr
  · exact hr
  · rename_i hd parts _ _
    split
    · exact hr
    have := ensure_W o parts r.selfCR r.self r.con hr.1 hr.2
    cases h : ensure o r.selfCR r.self r.con parts with
    | ok p => obtain ⟨c, s⟩ := p; rw [h] at this; exact this
    | err e => trivial
    | panic => trivial

theorem opAdd_W_all {o r op} (hr : RootW r) (hv : OpW op) : OutW (opAdd o r op) := by
  cases ho : o.ensure with
  | false => exact opAdd_W ho hr hv
  | true =>
    unfold opAdd
    split
    · cases hval : op.value with
      | none => trivial
      | some c =>
        simp only []
        have hd := decodeRoot_W (hv c hval)
        cases h : decodeRoot c with
        | ok con => rw [h] at hd; exact ⟨hd, hv c hval⟩
        | err e => trivial
        | panic => trivial
    · simp only [ho, if_true]
      have h1 := ensurePath_W (o := o) (path := op.path) hr
      cases he : ensurePath o r op.path with
      | err e => trivial
      | panic => trivial
      | ok r1 =>
        rw [he] at h1
        exact liftWalk_W h1 (addWalk_W h1 (WN_valueNode hv)) (fun _ _ => trivial)

theorem applyOp_W_all {o r acc op} (hr : RootW r) (hv : OpW op) : OutW2 (applyOp o r acc op) := by
  rw [applyOp_eq]
  split
  · exact liftAcc_W2 (opAdd_W_all hr hv)
  split
  · exact liftAcc_W2 (opRemove_W hr)
  split
  · exact liftAcc_W2 (opReplace_W hr hv)
  split
  · exact liftAcc_W2 (opMove_W hr)
  split
  · exact liftAcc_W2 (opTest_W hr)
  split
  · exact opCopy_W hr
  · trivial

/-- **the engine keeps every raw message well formed**, whatever the options are -/
theorem applyOps_W_all (o : Opts) (ops : List Op) : ∀ (r : Root) (acc : Int), RootW r →
    (∀ op ∈ ops, OpW op) → OutW (applyOps o r acc ops) := by
  induction ops with
  | nil => intro r acc hr _; exact hr
  | cons op ops ih =>
    intro r acc hr hv
    rw [applyOps_cons]
    have h1 := applyOp_W_all (o := o) (acc := acc) hr (hv op List.mem_cons_self)
    cases h : applyOp o r acc op with
    | ok p =>
      obtain ⟨r', acc'⟩ := p
      rw [h] at h1
      exact ih r' acc' h1 (fun op' hm => hv op' (List.mem_cons_of_mem _ hm))
    | err e => trivial
    | panic => trivial

/-! ### error classes of an `add` with the option -/

theorem freshFor_container {t : Bytes} {f : Value} (h : Spec.freshFor t = .ok f) : f.isContainer = true := by
  simp only [Spec.freshFor] at h
  split at h
  · cases h; rfl
  · split at h
    · cases h
    · split at h
      · cases h
      · cases h; rfl
  · cases h
  · cases h; rfl

/-- the specification of an `add` with the option only fails where the final `add` has a bad index -/
theorem ensureAdd_fail_cause (so : Spec.Opts) (v : Value) : ∀ (toks : List Bytes) (c : Value) (cause : Cause),
    c.isContainer = true → Spec.ensureAdd so v c toks = .fail cause → cause = .badIndex := by
  intro toks
  induction toks with
  | nil => intro c cause _ h; rw [Ens.ensureAdd_nil] at h; cases h
  | cons t rest ih =>
    intro c cause hc h
    cases rest with
    | nil =>
      rw [Ens.ensureAdd_single] at h
      rcases bind_fail h with hf | ⟨a, _, hx⟩
      · exact addIn_fail hf hc
      · cases hx
    | cons t2 ts =>
      rcases container_cases hc with ⟨ms, rfl⟩ | ⟨xs, rfl⟩
      · rw [Ens.ensureAdd_obj_cons] at h
        split at h
        · rename_i child _
          split at h
          · rename_i hcc
            rcases bind_fail h with hf | ⟨a, _, hx⟩
            · exact ih child cause hcc hf
            · cases hx
          · cases h
        · rcases bind_fail h with hf | ⟨fresh, hfr, hx⟩
          · exact absurd hf (Ens.freshFor_ne_fail _ _)
          · rcases bind_fail hx with hf | ⟨a, _, hy⟩
            · exact ih fresh cause (freshFor_container hfr) hf
            · cases hy
      · rw [Ens.ensureAdd_arr_cons] at h
        split at h
        · split at h
          · cases h
          · split at h
            · cases h
            · split at h
              · rename_i child _
                split at h
                · rename_i hcc
                  rcases bind_fail h with hf | ⟨a, _, hx⟩
                  · exact ih child cause hcc hf
                  · cases hx
                · cases h
              · rcases bind_fail h with hf | ⟨fresh, hfr, hx⟩
                · exact absurd hf (Ens.freshFor_ne_fail _ _)
                · rcases bind_fail hx with hf | ⟨a, _, hy⟩
                  · exact ih fresh cause (freshFor_container hfr) hf
                  · cases hy
        · cases h

/-- `opAdd_class` for `o.ensure = true` -/
theorem opAdd_ensure_class {o : Opts} {e : Bool} {r : Root} {op : Op} {sop : Spec.Op} {cv : Cst}
    (sz acc : Nat) (he : o.ensure = true) (hr : InvRoot e r)
    (hk : sop.kind = .add) (hpath : sop.path = op.path)
    (hval : op.value = some cv) (hsval : sop.value = some cv.valueOf)
    (hc : Inv e (.raw cv))
    (hq : ∀ toks, Spec.parsePointer op.path = some toks → ∀ t ∈ toks, QK e t = true) {c : Cause}
    (h : Spec.applyOp (specOpts o) sz acc (den r.con) sop = .fail c) : OpC c (opAdd o r op) := by
  have href := Ens.opAdd_ensure_refines (o := o) sz acc he hr hk hpath hval hsval hc hq
  rw [h] at href
  obtain ⟨er, her⟩ := href
  cases hp : Spec.parsePointer op.path with
  | none =>
    rw [spec_path_none (by rw [hpath]; exact hp) (by simp [hk])] at h
    cases h
    exact ⟨.missing, opAdd_path_none_any o r op hp, ErrC_missing (Or.inr rfl)⟩
  | some toks =>
    refine ⟨er, her, ErrC_plain ?_ (opAdd_not_special her)⟩
    cases toks with
    | nil =>
      rw [spec_add_root hk (by rw [hpath]; exact hp) hsval] at h
      exact Or.inr (Or.inr (root_value_fail h))
    | cons t ts =>
      rw [Ens.spec_add_ensure hk (by rw [hpath]; exact hp) hsval (by simp [specOpts, he])] at h
      rcases bind_fail h with hf | ⟨a, _, hx⟩
      · exact Or.inl (ensureAdd_fail_cause _ _ _ _ _ (den_isContainer hr.1 hr.2) hf)
      · cases hx

end Impl
end JP
