import JP.Lemmas.EscQuote
import JP.Lemmas.CloseUtf8

/-!
# T4: a raw U+2028/U+2029 in a decoded string was raw or a ` `/` ` escape in the body
-/

namespace JP
namespace Impl

theorem u8_ne_E2 (n : Nat) (h : n < 256) (hn : n ≠ 0xE2) : u8 n ≠ 0xE2 := by
  intro he
  have := congrArg UInt8.toNat he
  rw [u8_toNat n h] at this
  exact hn this

/-- the raw line separators of an encoded rune followed by `x` -/
theorem rawLineSeps_encodeRune (r : Nat) (x : Bytes) :
    ∀ v ∈ rawLineSeps (encodeRune r ++ x), (v = r ∧ (r = 0x2028 ∨ r = 0x2029)) ∨ v ∈ rawLineSeps x := by
  intro v hv
  unfold encodeRune at hv
  split at hv
  · rename_i h
    rw [List.singleton_append, rawLineSeps_ne _ _ (u8_ne_E2 _ (by omega) (by omega))] at hv
    exact Or.inr hv
  · split at hv
    · rename_i h1 h2
      change v ∈ rawLineSeps (u8 (0xC0 + r / 64) :: u8 (0x80 + r % 64) :: x) at hv
      rw [rawLineSeps_ne _ _ (u8_ne_E2 _ (by omega) (by omega)),
        rawLineSeps_ne _ _ (u8_ne_E2 _ (by omega) (by omega))] at hv
      exact Or.inr hv
    · split at hv
      · change v ∈ rawLineSeps (0xEF :: 0xBF :: 0xBD :: x) at hv
        rw [rawLineSeps_ne _ _ (by decide), rawLineSeps_ne _ _ (by decide), rawLineSeps_ne _ _ (by decide)] at hv
        exact Or.inr hv
      · split at hv
        · rename_i h1 h2 h3 h4
          change v ∈ rawLineSeps (u8 (0xE0 + r / 4096) :: u8 (0x80 + (r / 64) % 64) :: u8 (0x80 + r % 64) :: x) at hv
          rw [rawLineSeps_cons, rawLineSeps_ne _ _ (u8_ne_E2 _ (by omega) (by omega)),
            rawLineSeps_ne _ _ (u8_ne_E2 _ (by omega) (by omega))] at hv
          rcases List.mem_append.1 hv with h | h
          · left
            split at h
            · rename_i hc
              simp only [List.take_succ_cons, List.take_zero, List.cons.injEq, and_true] at hc
              obtain ⟨e1, e2, e3⟩ := hc
              have a1 := congrArg UInt8.toNat e1
              have a2 := congrArg UInt8.toNat e2
              have a3 := congrArg UInt8.toNat e3
              rw [u8_toNat _ (by omega)] at a1 a2 a3
              simp only [List.mem_singleton] at h
              have hr : r = 0x2028 := by
                have b1 : (0xE2 : UInt8).toNat = 226 := by decide
                have b2 : (0x80 : UInt8).toNat = 128 := by decide
                have b3 : (0xA8 : UInt8).toNat = 168 := by decide
                rw [b1] at a1; rw [b2] at a2; rw [b3] at a3
                omega
              exact ⟨by rw [h, hr], Or.inl hr⟩
            · split at h
              · rename_i hc
                simp only [List.take_succ_cons, List.take_zero, List.cons.injEq, and_true] at hc
                obtain ⟨e1, e2, e3⟩ := hc
                have a1 := congrArg UInt8.toNat e1
                have a2 := congrArg UInt8.toNat e2
                have a3 := congrArg UInt8.toNat e3
                rw [u8_toNat _ (by omega)] at a1 a2 a3
                simp only [List.mem_singleton] at h
                have hr : r = 0x2029 := by
                  have b1 : (0xE2 : UInt8).toNat = 226 := by decide
                  have b2 : (0x80 : UInt8).toNat = 128 := by decide
                  have b3 : (0xA9 : UInt8).toNat = 169 := by decide
                  rw [b1] at a1; rw [b2] at a2; rw [b3] at a3
                  omega
                exact ⟨by rw [h, hr], Or.inr hr⟩
              · simp at h
          · exact Or.inr h
        · rename_i h1 h2 h3 h4
          have hr : r ≤ 0x10FFFF := by omega
          change v ∈ rawLineSeps (u8 (0xF0 + r / 262144) :: u8 (0x80 + (r / 4096) % 64) ::
            u8 (0x80 + (r / 64) % 64) :: u8 (0x80 + r % 64) :: x) at hv
          rw [rawLineSeps_ne _ _ (u8_ne_E2 _ (by omega) (by omega)),
            rawLineSeps_ne _ _ (u8_ne_E2 _ (by omega) (by omega)),
            rawLineSeps_ne _ _ (u8_ne_E2 _ (by omega) (by omega)),
            rawLineSeps_ne _ _ (u8_ne_E2 _ (by omega) (by omega))] at hv
          exact Or.inr hv

theorem rawLineSeps_ascii_cons (c : UInt8) (x : Bytes) (hc : c.toNat < 128) : rawLineSeps (c :: x) = rawLineSeps x :=
  rawLineSeps_ne _ _ (by rintro rfl; revert hc; decide)

set_option maxRecDepth 100000 in
theorem isHex_lt (h : UInt8) (hh : isHex h = true) : h.toNat < 128 := by
  have : ∀ b : UInt8, isHex b = true → b.toNat < 128 := by
    apply byte_forall; decide
  exact this h hh

theorem simpleEsc_lt (e : UInt8) (h : simpleEsc e) : e.toNat < 128 := by
  rcases h with h | h | h | h | h | h | h | h <;> subst h <;> decide

theorem hE_u4_tail (h1 h2 h3 h4 : UInt8) (rest : Bytes) (v : Nat) (rr : Nat)
    (hrr : hex4 [h1, h2, h3, h4] = some rr) (hv : v ∈ hE rest) :
    v ∈ hE (92 :: 117 :: h1 :: h2 :: h3 :: h4 :: rest) := by
  rw [hE_u4 _ _ _ _ _ rr hrr]
  split
  · exact List.mem_cons_of_mem _ hv
  · exact hv

theorem rawLineSeps_u4 (h1 h2 h3 h4 : UInt8) (rest : Bytes) (x1 : isHex h1 = true) (x2 : isHex h2 = true)
    (x3 : isHex h3 = true) (x4 : isHex h4 = true) :
    rawLineSeps (92 :: 117 :: h1 :: h2 :: h3 :: h4 :: rest) = rawLineSeps rest := by
  rw [rawLineSeps_ne _ _ (by decide), rawLineSeps_ne _ _ (by decide), rawLineSeps_ascii_cons _ _ (isHex_lt _ x1),
    rawLineSeps_ascii_cons _ _ (isHex_lt _ x2), rawLineSeps_ascii_cons _ _ (isHex_lt _ x3),
    rawLineSeps_ascii_cons _ _ (isHex_lt _ x4)]

theorem utf16Pair_ge {rr : Nat} {r2 : Option Nat} {dec : Nat} (h : utf16Pair rr r2 = some dec) : 0x10000 ≤ dec := by
  unfold utf16Pair at h
  cases r2 with
  | none => cases h
  | some r2 =>
    simp only at h
    split at h
    · simp only [Option.some.injEq] at h; omega
    · cases h

/-- **T4** -/
theorem unquoteBody_lineSeps : ∀ (n : Nat) (b : Bytes), b.length ≤ n → VB b →
    ∃ x, unquoteBody b = some x ∧ ∀ v ∈ rawLineSeps x, v ∈ hE b ∨ v ∈ rawLineSeps b := by
  intro n
  induction n with
  | zero =>
    intro b hn _
    cases b with
    | nil => exact ⟨[], rfl, by intro v hv; simp [rawLineSeps] at hv⟩
    | cons _ _ => simp at hn
  | succ n ih =>
    intro b hn h
    rcases VB_cases b h with rfl | ⟨c, r, rfl, h92, h34, h32, hr⟩ | ⟨e, r, rfl, he, hr⟩ |
        ⟨g1, g2, g3, g4, r, rfl, x1, x2, x3, x4, hr⟩
    · exact ⟨[], rfl, by intro v hv; simp [rawLineSeps] at hv⟩
    · simp only [List.length_cons] at hn
      rw [unquoteBody_plain _ _ h92, if_neg (by simp only [h34, false_or]; omega)]
      by_cases hlt : c.toNat < 128
      · obtain ⟨x, hx, hu⟩ := ih r (by omega) hr
        refine ⟨c :: x, by simp only [hlt, if_true, hx, Option.map_some], ?_⟩
        intro v hv
        rw [rawLineSeps_ascii_cons c x hlt] at hv
        rw [hE_plain _ _ h92, rawLineSeps_ascii_cons c r hlt]
        exact hu v hv
      · have hc : 0x80 ≤ c.toNat := by omega
        have hsz := decodeRune_size_pos c r
        have hv := VB_drop_rune c r hc h
        obtain ⟨x, hx, hu⟩ := ih _ (by simp only [List.length_drop, List.length_cons]; omega) hv
        refine ⟨encodeRune (decodeRune (c :: r)).fst ++ x, by simp only [hlt, if_false, hx, Option.map_some], ?_⟩
        intro v hvv
        have hEeq : hE (c :: r) = hE ((c :: r).drop (decodeRune (c :: r)).2) := by
          conv => lhs; rw [← List.take_append_drop (decodeRune (c :: r)).2 (c :: r)]
          exact hE_high_append _ _ (rune_bytes_high c r hc)
        rcases rawLineSeps_encodeRune _ x v hvv with ⟨rfl, hls⟩ | hvx
        · right
          rcases hls with hl | hl
          · obtain ⟨t, ht, _⟩ := decodeRune_ls_bytes c r hl
            rw [hl, ht, rawLineSeps_cons]; simp
          · obtain ⟨t, ht, _⟩ := decodeRune_ps_bytes c r hl
            rw [hl, ht, rawLineSeps_cons]; simp
        · rcases hu v hvx with h1 | h1
          · left; rw [hEeq]; exact h1
          · right; exact rawLineSeps_drop _ _ v h1
    · simp only [List.length_cons] at hn
      obtain ⟨x, hx, hu⟩ := ih r (by omega) hr
      refine ⟨_, by rw [unquoteBody_simple _ _ he, hx, Option.map_some], ?_⟩
      intro v hv
      rw [rawLineSeps_ascii_cons _ x (escChar_ascii e he)] at hv
      rw [hE_bs_other _ _ (simpleEsc_plain e he).2, rawLineSeps_ne _ _ (by decide),
        rawLineSeps_ascii_cons _ _ (simpleEsc_lt e he)]
      exact hu v hv
    · simp only [List.length_cons] at hn
      obtain ⟨rr, hrr⟩ := hex4_isSome g1 g2 g3 g4 x1 x2 x3 x4
      obtain ⟨x, hx, hu⟩ := ih r (by omega) hr
      have tail : ∀ v, (v ∈ hE r ∨ v ∈ rawLineSeps r) →
          v ∈ hE (92 :: 117 :: g1 :: g2 :: g3 :: g4 :: r) ∨ v ∈ rawLineSeps (92 :: 117 :: g1 :: g2 :: g3 :: g4 :: r) := by
        intro v hv
        rcases hv with hv | hv
        · exact Or.inl (hE_u4_tail _ _ _ _ _ v rr hrr hv)
        · right; rw [rawLineSeps_u4 _ _ _ _ _ x1 x2 x3 x4]; exact hv
      cases hs : isSurrogate rr with
      | false =>
        refine ⟨_, by rw [unquoteBody_u4 _ _ _ _ _ rr hrr hs, hx, Option.map_some], ?_⟩
        intro v hv
        rcases rawLineSeps_encodeRune _ x v hv with ⟨rfl, hls⟩ | hvx
        · left
          rw [hE_u4 _ _ _ _ _ v hrr, if_pos (by unfold cls; rcases hls with h | h <;> simp [h])]
          simp
        · exact tail v (hu v hvx)
      | true =>
        cases hp : utf16Pair rr (getu4 r) with
        | none =>
          refine ⟨_, by rw [unquoteBody_u4_lone _ _ _ _ _ rr hrr hs hp, hx, Option.map_some], ?_⟩
          intro v hv
          rcases rawLineSeps_encodeRune _ x v hv with ⟨_, hls⟩ | hvx
          · rcases hls with h | h <;> simp [runeError] at h
          · exact tail v (hu v hvx)
        | some dec =>
          rcases getu4_escBody r hr with ⟨k1, k2, k3, k4, r', rfl, hr', _⟩ | ⟨hg, _⟩
          · simp only [List.length_cons] at hn
            obtain ⟨y, hy, hyu⟩ := ih r' (by omega) hr'
            refine ⟨encodeRune dec ++ y, ?_, ?_⟩
            · rw [unquoteBody_u4_pair _ _ _ _ _ rr dec hrr hs hp]
              simp only [List.drop_succ_cons, List.drop_zero, hy, Option.map_some]
            · intro v hv
              have hge := utf16Pair_ge hp
              rcases rawLineSeps_encodeRune _ y v hv with ⟨_, hls⟩ | hvy
              · rcases hls with h | h <;> omega
              · have hk := (VB_u_iff k1 k2 k3 k4 r').1 hr
                obtain ⟨kk, hkk⟩ := hex4_isSome k1 k2 k3 k4 hk.1.1 hk.1.2.1 hk.1.2.2.1 hk.1.2.2.2
                apply tail
                rcases hyu v hvy with h1 | h1
                · exact Or.inl (hE_u4_tail _ _ _ _ _ v kk hkk h1)
                · right
                  rw [rawLineSeps_u4 _ _ _ _ _ hk.1.1 hk.1.2.1 hk.1.2.2.1 hk.1.2.2.2]; exact h1
          · rw [hg] at hp; cases hp

theorem unquote_lineSeps (b : Bytes) (hb : validBody b = true) :
    ∀ v ∈ rawLineSeps (unquote b), v ∈ hE b ∨ v ∈ rawLineSeps b := by
  obtain ⟨x, hx, hu⟩ := unquoteBody_lineSeps _ b (Nat.le_refl _) ((validBody_eq_true_iff b).1 hb)
  simp only [unquote, hx, Option.getD_some]
  exact hu

/-- the text facts of `JP/Lemmas/EscInv.lean`, for every set of allowed code points -/
theorem textFacts (A : Nat → Prop) : TextFacts A where
  unq := by
    intro b hb hba v hv
    rcases unquote_lineSeps b hb v hv with h | h
    · exact hba.1 v h
    · exact hba.2 v h
  quo := fun k h => quoteBody_false_BA k h
  tok := fun path p hp h v hv => h v (rawLineSeps_token path p hp v hv)

end Impl
end JP
