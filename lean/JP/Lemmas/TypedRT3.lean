import JP.Lemmas.TypedRT2

set_option linter.unusedSimpArgs false
set_option linter.unusedVariables false

/-!
# C17 — round trip of the typed codec: a pointer to a non-nilable type of the class `rtSeqT`
-/

namespace JP.C17
open JP JP.Codec JP.Codec.Typed JP.Codec.TDec JP.Scanner

/-- the tree is not `null` (nor an empty literal, nor an object) -/
def notNullHead : Cst → Prop
  | .lit (c0 :: _) => c0 ≠ 110
  | .lit [] => False
  | .str _ => True
  | .arr _ => True
  | .obj _ => False

theorem tlit_ptr_nil (c0 : UInt8) (r : Bytes) (e : GoType) (h : c0 ≠ 110) :
    tlit (c0 :: r) (.ptr e) .nil false = TR.map DV.ptr (tlit (c0 :: r) e (zeroDV e) false) := by
  have key : ∀ X : TR DV, TR.map (rewrap (.ptr e)) X = TR.map DV.ptr (TR.map (rewrap e) X) := by
    intro X; cases X <;> rfl
  simp only [tlit, h, if_false, derefT, derefV]
  by_cases h1 : c0 = 116 ∨ c0 = 102
  · simp only [h1, if_true, key]
  · simp only [h1, if_false]
    by_cases h2 : c0 = 34
    · simp only [h2, if_true, key]
    · simp only [h2, if_false]
      by_cases h3 : c0 ≠ 45 ∧ (!isDigit c0) = true
      · rw [if_pos h3, if_pos h3]; rfl
      · simp only [h3, if_false, key]

theorem tvalue_ptr_nil (c : Cst) (e : GoType) (hn : notNullHead c) :
    tvalue c (.ptr e) .nil = TR.map DV.ptr (tvalue c e (zeroDV e)) := by
  cases c with
  | lit s =>
    cases s with
    | nil => exact absurd hn id
    | cons c0 r => simp only [tvalue]; exact tlit_ptr_nil c0 r e hn
  | str b => simp only [tvalue, strText]; exact tlit_ptr_nil 34 _ e (by decide)
  | obj ms => exact absurd hn id
  | arr xs =>
    simp only [tvalue, derefT, derefV, rewrap]
    split
    · rfl
    · split <;> rfl
    · split <;> rfl
    · rfl

theorem digit_ne_110 (c : UInt8) (h : isDigit c = true) : c ≠ 110 := by
  intro hc; subst hc; revert h; decide

theorem seq_notNull (esc : Bool) (e : GoType) (fuel : Nat) (v : GoVal) (c : Cst) (hl : rtSeqT e = true)
    (hn : e.nilable = false) (hv : v.hasType e = true) (hc : cst esc fuel false e v = some c) : notNullHead c := by
  cases fuel with
  | zero => simp [cst] at hc
  | succ fuel =>
    simp only [cst] at hc
    cases e with
    | bool =>
      cases v with
      | bool b =>
        simp only [cstT, boolCst, litOrStr, Bool.false_eq_true, if_false, Option.some.injEq] at hc
        subst hc
        cases b
        · exact (by decide : (102 : UInt8) ≠ 110)
        · exact (by decide : (116 : UInt8) ≠ 110)
      | _ => simp [cstT, boolCst] at hc
    | int k =>
      cases v with
      | int n =>
        simp only [cstT, intCst, litOrStr, Bool.false_eq_true, if_false, Option.some.injEq] at hc
        subst hc
        obtain ⟨c0, r, hcr, h0⟩ := fmtInt_head n
        rw [hcr]
        rcases h0 with h0 | h0
        · subst h0; exact (by decide : (45 : UInt8) ≠ 110)
        · exact digit_ne_110 c0 h0
      | _ => simp [cstT, intCst] at hc
    | uint k =>
      cases v with
      | uint n =>
        simp only [cstT, uintCst, litOrStr, Bool.false_eq_true, if_false, Option.some.injEq] at hc
        subst hc
        obtain ⟨c0, r, hcr, h0⟩ := decimal_cons n
        rw [hcr]
        exact digit_ne_110 c0 h0
      | _ => simp [cstT, uintCst] at hc
    | string =>
      cases v with
      | str x =>
        simp only [cstT, stringCst, Bool.false_eq_true, if_false, Option.some.injEq] at hc
        subst hc
        exact True.intro
      | _ => simp [cstT, stringCst] at hc
    | array n e' =>
      cases v with
      | list xs =>
        simp only [cstT, arrayCst, arrayCstBody] at hc
        split at hc
        · split at hc
          · cases hc
          · simp only [Option.some.injEq] at hc
            subst hc
            exact True.intro
        · cases hc
      | _ => simp [cstT, arrayCst] at hc
    | slice e' => simp [GoType.nilable] at hn
    | _ => simp [rtSeqT] at hl

/-- a pointer to a non-nilable type of `rtSeqT` (`*int`, `*string`, `*[3][]bool` …) -/
def rtPtrT : GoType → Bool
  | .ptr e => rtSeqT e && !e.nilable
  | _ => false

def rtPtrV : GoVal → Bool
  | .ptr v => rtSeqV v
  | _ => true

theorem rt_ptr_tree (esc : Bool) (t : GoType) (fuel : Nat) (v : GoVal) (c : Cst) (hl : rtPtrT t = true)
    (hv : v.hasType t = true) (hu : rtPtrV v = true) (hc : cst esc fuel false t v = some c) :
    ∃ d, tvalue c t (zeroDV t) = .ok d ∧ toGoVal t d = v := by
  cases t with
  | ptr e =>
    simp only [rtPtrT, Bool.and_eq_true, Bool.not_eq_true'] at hl
    cases fuel with
    | zero => simp [cst] at hc
    | succ fuel =>
      simp only [cst, cstT] at hc
      cases v with
      | nil =>
        simp only [ptrCst, Option.some.injEq] at hc
        subst hc
        exact ⟨.nil, by rfl, rfl⟩
      | ptr x =>
        simp only [ptrCst] at hc
        simp only [GoVal.hasType] at hv
        simp only [rtPtrV] at hu
        obtain ⟨d, hd1, hd2⟩ := rt_seq_tree esc e fuel x c hl.1 hv hu hc
        refine ⟨.ptr d, ?_, by simp only [toGoVal, hd2]⟩
        simp only [zeroDV]
        rw [tvalue_ptr_nil c e (seq_notNull esc e fuel x c hl.1 hl.2 hv hc), hd1]
        rfl
      | _ => simp [ptrCst] at hc
  | _ => simp [rtPtrT] at hl

theorem rt_ptr_side (t : GoType) (hl : rtPtrT t = true) : t.wf = true ∧ decodable t = true := by
  cases t with
  | ptr e =>
    simp only [rtPtrT, Bool.and_eq_true] at hl
    have := rt_seq_side e hl.1
    exact ⟨by simpa [GoType.wf] using this.1, by simpa [decodable] using this.2⟩
  | _ => simp [rtPtrT] at hl

end JP.C17
