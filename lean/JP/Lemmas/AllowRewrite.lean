import JP.Lemmas.AllowMissing

/-!
# Lemmas for C13: the rewrite law (skipped removes deleted, option off)
-/

namespace JP
namespace AllowLemmas
open Spec

/-! ### deleting indices from a list -/

def eraseFrom {α} (i : Nat) (xs : List α) (sk : List Nat) : List α :=
  ((xs.zipIdx i).filter fun (_, k) => !sk.contains k).map Prod.fst

theorem eraseIdxs_eq {α} (xs : List α) (sk : List Nat) : Driver.eraseIdxs xs sk = eraseFrom 0 xs sk := rfl

theorem eraseFrom_nil {α} (i : Nat) (sk : List Nat) : eraseFrom i ([] : List α) sk = [] := rfl

theorem eraseFrom_cons {α} (i : Nat) (x : α) (xs : List α) (sk : List Nat) :
    eraseFrom i (x :: xs) sk =
      if sk.contains i then eraseFrom (i + 1) xs sk else x :: eraseFrom (i + 1) xs sk := by
  simp only [eraseFrom, List.zipIdx_cons, List.filter_cons]
  cases sk.contains i <;> simp

theorem eraseFrom_skip_lt {α} (x : Nat) (sk : List Nat) :
    ∀ (xs : List α) (i : Nat), x < i → eraseFrom i xs (x :: sk) = eraseFrom i xs sk := by
  intro xs
  induction xs with
  | nil => intros; rfl
  | cons y ys ih =>
    intro i hi
    rw [eraseFrom_cons, eraseFrom_cons, ih (i + 1) (by omega)]
    have : (x :: sk).contains i = sk.contains i := by
      simp only [List.contains_cons]
      have : (i == x) = false := by simp; omega
      rw [this, Bool.false_or]
    rw [this]

theorem eraseFrom_none {α} : ∀ (xs : List α) (i : Nat), eraseFrom i xs [] = xs := by
  intro xs
  induction xs with
  | nil => intros; rfl
  | cons y ys ih => intro i; rw [eraseFrom_cons, ih]; rfl

/-- number of deleted indices below `k` -/
def below (sk : List Nat) (k : Nat) : Nat := (sk.filter (· < k)).length

theorem below_nil (k : Nat) : below [] k = 0 := rfl

theorem below_cons_lt (i k : Nat) (r : List Nat) (h : i < k) : below (i :: r) k = below r k + 1 := by
  simp [below, h]

theorem below_eq_zero (r : List Nat) (k : Nat) (h : ∀ x ∈ r, k ≤ x) : below r k = 0 := by
  simp only [below, List.length_eq_zero_iff, List.filter_eq_nil_iff, decide_eq_true_eq]
  intro x hx; have := h x hx; omega

/-! ### `specSkipped` -/

/-- does the specification skip this operation? (`none` = outside the domain) -/
def here (o : Opts) (d : Value) (op : Op) : Option Bool :=
  if op.kind = .remove then
    match parsePointer op.path with
    | some (t :: ts) =>
      (match skipsRemove o d (t :: ts) with
       | .ok b => some b
       | .fail _ => some false
       | .unspec => none)
    | _ => none
  else some false

theorem specSkipped_cons (o : Opts) (i : Nat) (d : Value) (op : Op) (ops : List Op) :
    Driver.specSkipped o i d (op :: ops) =
      match here o d op with
      | none => none
      | some b =>
        match applyOp o 0 0 d op with
        | .ok (d', _) => (Driver.specSkipped o (i + 1) d' ops).map fun r => if b then i :: r else r
        | .fail _ => some (if b then [i] else [])
        | .unspec => none := rfl

theorem specSkipped_ge (o : Opts) : ∀ (ops : List Op) (i : Nat) (d : Value) (sk : List Nat),
    Driver.specSkipped o i d ops = some sk → ∀ x ∈ sk, i ≤ x := by
  intro ops
  induction ops with
  | nil =>
    intro i d sk h x hx
    simp only [Driver.specSkipped, Option.some.injEq] at h
    subst h; simp at hx
  | cons op ops ih =>
    intro i d sk h x hx
    rw [specSkipped_cons] at h
    cases hh : here o d op with
    | none => simp [hh] at h
    | some b =>
      simp only [hh] at h
      cases hA : applyOp o 0 0 d op with
      | unspec => simp [hA] at h
      | fail c =>
        simp only [hA, Option.some.injEq] at h
        subst h
        cases b <;> simp at hx
        omega
      | ok p =>
        simp only [hA] at h
        cases hr : Driver.specSkipped o (i + 1) p.1 ops with
        | none => simp [hr] at h
        | some r =>
          simp only [hr, Option.map_some, Option.some.injEq] at h
          subst h
          have := ih (i + 1) p.1 r hr
          cases b
          · simp only [Bool.false_eq_true, if_false] at hx
            have := this x hx; omega
          · simp only [if_true, List.mem_cons] at hx
            cases hx with
            | inl h => omega
            | inr h => have := this x h; omega

/-- what `here` says about one step -/
theorem here_true (o : Opts) (d : Value) (op : Op) (h : here (on o) d op = some true)
    (size acc : Nat) : applyOp (on o) size acc d op = .ok (d, acc) := by
  unfold here at h
  split at h
  · rename_i hk
    split at h
    · rename_i t ts hp
      rw [applyOp_remove_on o size acc d op t ts hk hp]
      rw [skipsRemove_congr (on o) o rfl] at h
      cases hs : skipsRemove o d (t :: ts) with
      | ok b => simp only [hs, Option.some.injEq] at h; subst h; rfl
      | fail c => simp [hs] at h
      | unspec => simp [hs] at h
    · simp at h
  · simp at h

theorem here_false (o : Opts) (d : Value) (op : Op) (h : here (on o) d op = some false)
    (size acc : Nat) : applyOp (on o) size acc d op = applyOp (off o) size acc d op := by
  unfold here at h
  split at h
  · rename_i hk
    split at h
    · rename_i t ts hp
      rw [applyOp_remove_on o size acc d op t ts hk hp, applyOp_remove_off o size acc d op t ts hk hp]
      rw [skipsRemove_congr (on o) o rfl] at h
      cases hs : skipsRemove o d (t :: ts) with
      | ok b => simp only [hs, Option.some.injEq] at h; subst h; rfl
      | fail c => exact absurd hs (skipsRemove_ne_fail o d _ c)
      | unspec => simp [hs] at h
    · simp at h
  · rename_i hk
    exact applyOp_congr (on o) (off o) rfl rfl rfl size acc d op hk

/-! ### outcomes up to re-indexing -/

/-- `ok` with `ok` of the same document; `fail` at index `k` with `fail` at the re-indexed
position and the same cause; `unspec` (outside the domain) with anything -/
def outcomeEq (reidx : Nat → Nat) : Outcome → Outcome → Prop
  | .ok v, r => r = .ok v
  | .fail k c, r => r = .fail (reidx k) c
  | .unspec, _ => True

theorem outcomeEq_congr (f g : Nat → Nat) (a b : Outcome)
    (hfg : ∀ k c, a = .fail k c → f k = g k) (h : outcomeEq f a b) : outcomeEq g a b := by
  cases a with
  | ok v => exact h
  | unspec => trivial
  | fail k c =>
    simp only [outcomeEq] at h ⊢
    rw [← hfg k c rfl]; exact h

theorem applyFrom_fail_ge (o : Opts) (sizeAt : Nat → Nat) :
    ∀ (ops : List Op) (i acc : Nat) (d : Value) (k : Nat) (c : Cause),
      applyFrom o sizeAt i acc d ops = .fail k c → i ≤ k := by
  intro ops
  induction ops with
  | nil => intro i acc d k c h; simp [applyFrom] at h
  | cons op ops ih =>
    intro i acc d k c h
    simp only [applyFrom] at h
    cases hA : applyOp o (sizeAt i) acc d op with
    | ok p => simp only [hA] at h; have := ih _ _ _ _ _ h; omega
    | fail c' => simp only [hA, Outcome.fail.injEq] at h; omega
    | unspec => simp [hA] at h

/-! ### the rewrite law, generalised over the starting indices -/

theorem rewrite_from (o : Opts) (sizeAt sizeAt' : Nat → Nat) :
    ∀ (ops : List Op) (i j acc : Nat) (d : Value) (sk : List Nat),
      Driver.specSkipped (on o) i d ops = some sk →
      (∀ k, i ≤ k → k ∉ sk → sizeAt' (j + (k - i) - below sk k) = sizeAt k) →
      outcomeEq (fun k => j + (k - i) - below sk k)
        (applyFrom (on o) sizeAt i acc d ops)
        (applyFrom (off o) sizeAt' j acc d (eraseFrom i ops sk)) := by
  intro ops
  induction ops with
  | nil =>
    intro i j acc d sk h hsz
    simp only [applyFrom, eraseFrom_nil, outcomeEq]
  | cons op ops ih =>
    intro i j acc d sk h hsz
    have hge := specSkipped_ge (on o) (op :: ops) i d sk h
    rw [specSkipped_cons] at h
    cases hh : here (on o) d op with
    | none => simp [hh] at h
    | some b =>
      simp only [hh] at h
      have hrel := applyOp_sizeRel (on o) (sizeAt i) acc d op
      cases hA : applyOp (on o) 0 0 d op with
      | unspec => simp [hA] at h
      | fail c =>
        simp only [hA, Option.some.injEq] at h
        cases b with
        | true => rw [here_true o d op hh 0 0] at hA; cases hA
        | false =>
          simp only [Bool.false_eq_true, if_false] at h
          subst h
          rw [eraseFrom_none]
          have hs : sizeAt' j = sizeAt i := by
            have := hsz i (Nat.le_refl i) (by simp)
            simpa [below_nil] using this
          simp only [hA, SizeRel] at hrel
          obtain ⟨c', hc'⟩ := hrel
          have hB := here_false o d op hh (sizeAt i) acc
          simp only [applyFrom, hs, ← hB, hc', outcomeEq, below_nil, Nat.sub_self, Nat.add_zero, Nat.sub_zero]
      | ok p =>
        simp only [hA] at h
        cases hr : Driver.specSkipped (on o) (i + 1) p.1 ops with
        | none => simp [hr] at h
        | some r =>
          simp only [hr, Option.map_some, Option.some.injEq] at h
          have hrge := specSkipped_ge (on o) ops (i + 1) p.1 r hr
          cases b with
          | true =>
            simp only [if_true] at h
            subst h
            have hT := here_true o d op hh
            rw [hT 0 0] at hA
            simp only [Res.ok.injEq] at hA
            have hd : p.1 = d := by rw [← hA]
            rw [hd] at hr
            rw [eraseFrom_cons]
            simp only [List.contains_cons, beq_self_eq_true, Bool.true_or, if_true]
            rw [eraseFrom_skip_lt i r ops (i + 1) (by omega)]
            simp only [applyFrom, hT (sizeAt i) acc]
            have hsz' : ∀ k, i + 1 ≤ k → k ∉ r → sizeAt' (j + (k - (i + 1)) - below r k) = sizeAt k := by
              intro k hk hkr
              have := hsz k (by omega) (by simp only [List.mem_cons, not_or]; exact ⟨by omega, hkr⟩)
              rw [below_cons_lt i k r (by omega)] at this
              rw [← this]; congr 1; omega
            have := ih (i + 1) j acc d r hr hsz'
            refine outcomeEq_congr _ _ _ _ ?_ this
            intro k c hk
            have := applyFrom_fail_ge _ _ _ _ _ _ _ _ hk
            simp only [below_cons_lt i k r (by omega)]
            omega
          | false =>
            simp only [Bool.false_eq_true, if_false] at h
            subst h
            have hi : r.contains i = false := by
              rw [Bool.eq_false_iff]; intro hc
              have := hrge i (by simpa using hc); omega
            rw [eraseFrom_cons, hi]
            simp only [Bool.false_eq_true, if_false]
            have hb0 : below r i = 0 := below_eq_zero r i (fun x hx => by have := hrge x hx; omega)
            have hs : sizeAt' j = sizeAt i := by
              have := hsz i (Nat.le_refl i) (by intro hm; have := hrge i hm; omega)
              simpa [hb0] using this
            have hB := here_false o d op hh (sizeAt i) acc
            simp only [hA, SizeRel] at hrel
            simp only [applyFrom, hs, ← hB]
            cases hrel with
            | inr hf =>
              obtain ⟨c, hc⟩ := hf
              simp only [hc, outcomeEq, hb0, Nat.sub_self, Nat.add_zero, Nat.sub_zero]
            | inl hok =>
              obtain ⟨a, ha⟩ := hok
              simp only [ha]
              have hsz' : ∀ k, i + 1 ≤ k → k ∉ r →
                  sizeAt' (j + 1 + (k - (i + 1)) - below r k) = sizeAt k := by
                intro k hk hkr
                have := hsz k (by omega) hkr
                rw [← this]; congr 1; omega
              have := ih (i + 1) (j + 1) a p.1 r hr hsz'
              refine outcomeEq_congr _ _ _ _ ?_ this
              intro k c hk
              have := applyFrom_fail_ge _ _ _ _ _ _ _ _ hk
              omega

end AllowLemmas
end JP
