import JP.Impl.Apply

/-!
# Basic equations about the implementation model of `Apply`

* `applyOpsAcc`: `applyOps` that also returns the accumulator, and the composition lemmas;
* a convenient cons-equation for `walk` (`walk_cons`);
* the error classes `testFailed` and `copySize` ("special" errors) never come out of a
  container method, a walk, or `ensure`.
-/

namespace JP
namespace Impl

/-! ### `applyOps` with the accumulator -/

/-- `applyOps`, also returning the running copy-size total -/
def applyOpsAcc (o : Opts) : Root → Int → List Op → Outcome (Root × Int)
  | r, acc, [] => .ok (r, acc)
  | r, acc, op :: ops =>
    match applyOp o r acc op with
    | .ok (r', acc') => applyOpsAcc o r' acc' ops
    | .err e => .err e
    | .panic => .panic

/-- sequencing of outcomes -/
def Outcome.bind {α β} : Outcome α → (α → Outcome β) → Outcome β
  | .ok a, f => f a
  | .err e, _ => .err e
  | .panic, _ => .panic

theorem applyOps_cons (o : Opts) (r : Root) (acc : Int) (op : Op) (ops : List Op) :
    applyOps o r acc (op :: ops) = (applyOp o r acc op).bind fun p => applyOps o p.1 p.2 ops := by
  rw [applyOps]
  cases h : applyOp o r acc op with
  | ok p => cases p; rfl
  | err e => rfl
  | panic => rfl

theorem applyOpsAcc_cons (o : Opts) (r : Root) (acc : Int) (op : Op) (ops : List Op) :
    applyOpsAcc o r acc (op :: ops) = (applyOp o r acc op).bind fun p => applyOpsAcc o p.1 p.2 ops := by
  rw [applyOpsAcc]
  cases h : applyOp o r acc op with
  | ok p => cases p; rfl
  | err e => rfl
  | panic => rfl

theorem applyOps_append (o : Opts) (ops₁ ops₂ : List Op) : ∀ (r : Root) (acc : Int),
    applyOps o r acc (ops₁ ++ ops₂) =
      (applyOpsAcc o r acc ops₁).bind fun p => applyOps o p.1 p.2 ops₂ := by
  induction ops₁ with
  | nil => intro r acc; rfl
  | cons op ops ih =>
    intro r acc
    rw [List.cons_append, applyOps_cons, applyOpsAcc_cons]
    cases h : applyOp o r acc op with
    | ok p => simp only [Outcome.bind]; exact ih p.1 p.2
    | err e => rfl
    | panic => rfl

theorem applyOpsAcc_append (o : Opts) (ops₁ ops₂ : List Op) : ∀ (r : Root) (acc : Int),
    applyOpsAcc o r acc (ops₁ ++ ops₂) =
      (applyOpsAcc o r acc ops₁).bind fun p => applyOpsAcc o p.1 p.2 ops₂ := by
  induction ops₁ with
  | nil => intro r acc; rfl
  | cons op ops ih =>
    intro r acc
    rw [List.cons_append, applyOpsAcc_cons, applyOpsAcc_cons]
    cases h : applyOp o r acc op with
    | ok p => simp only [Outcome.bind]; exact ih p.1 p.2
    | err e => rfl
    | panic => rfl

/-- `applyOps` is `applyOpsAcc` with the accumulator forgotten -/
theorem applyOps_eq_acc (o : Opts) (ops : List Op) : ∀ (r : Root) (acc : Int),
    applyOps o r acc ops = (applyOpsAcc o r acc ops).bind fun p => .ok p.1 := by
  induction ops with
  | nil => intro r acc; rfl
  | cons op ops ih =>
    intro r acc
    rw [applyOps_cons, applyOpsAcc_cons]
    cases h : applyOp o r acc op with
    | ok p => simp only [Outcome.bind]; exact ih p.1 p.2
    | err e => rfl
    | panic => rfl

/-! ### `walk`, one step -/

def isNilN : Node → Bool
  | .nil => true
  | _ => false

/-- entering the node `get key` returned (the `cr` flag and the key are no longer consulted:
an empty token is an ordinary member name; the arguments are kept for the callers) -/
def enter (_cr : Bool) (_key : Bytes) (next : Node) : Outcome Node :=
  intoContainer next

/-- what the walk does with the result of the walk below the child `get key` returned -/
def wrapWalk {α} (o : Opts) (con : Node) (key : Bytes) : Walk α → Walk α
  | .done child' a => .done (putChild o con key child') a
  | .notFound child' => .notFound (putChild o con key child')
  | .fail e => .fail e
  | .panic => .panic
  | .doneSelf s a => .doneSelf s a
  | .notFoundSelf s => .notFoundSelf s

theorem walk_nil {α} (o : Opts) (act : Node → Node → Outcome (Node × α)) (cr : Bool) (self con : Node) :
    walk o act cr self con [] =
      match act self con with
      | .ok (con', a) => .done con' a
      | .err e => .fail e
      | .panic => .panic := by
  simp only [walk]
  split <;> simp_all

theorem walk_cons {α} (o : Opts) (act : Node → Node → Outcome (Node × α)) (cr : Bool) (self con : Node)
    (part : Bytes) (rest : List Bytes) :
    walk o act cr self con (part :: rest) =
      match conGet o self con (decodeToken part) with
      | .panic => .panic
      | .err _ => .notFound con
      | .ok next =>
        if isNilN next then .notFound con
        else match enter cr (decodeToken part) next with
          | .panic => .panic
          | .err _ => .notFound con
          | .ok child => wrapWalk o con (decodeToken part) (walk o act false .nil child rest) := by
  rw [walk]
  cases h : conGet o self con (decodeToken part) with
  | panic => rfl
  | err e => rfl
  | ok next =>
    cases next with
    | nil => rfl
    | _ =>
      simp only [isNilN, enter, Bool.false_eq_true, if_false]
      generalize intoContainer _ = x
      cases x with
      | panic => rfl
      | err e => rfl
      | ok child =>
        simp only []
        generalize walk o act false Node.nil child rest = w
        cases w <;> simp [wrapWalk]

/-! ### `copy`, first step -/

/-- the first step of a copy: `from = ""` is the whole document as it is now, taken without a
walk (a null root cannot be copied); any other `from` is looked up by `copySource` -/
def copyFirst (o : Opts) (r : Root) (frm : Bytes) : Walk Node :=
  if frm = [] then (if isNullN r.con then .fail .invalid else .done r.con r.con)
  else copySource o r frm

theorem copyFirst_nil (o : Opts) (r : Root) :
    copyFirst o r [] = if isNullN r.con then .fail .invalid else .done r.con r.con := by
  simp [copyFirst]

theorem copyFirst_ne (o : Opts) (r : Root) {frm : Bytes} (h : frm ≠ []) :
    copyFirst o r frm = copySource o r frm := by
  simp [copyFirst, h]

/-! ### `ensure`, one step -/

/-- the node `ensurePathExists` finds at `key`, `none` when it has to be created -/
def ensureTarget (o : Opts) (self con : Node) (key : Bytes) : Option Node :=
  match conGet o self con key with
  | .ok .nil => none
  | .ok n => some n
  | _ => none

/-- padding of the current array up to the index about to be created -/
def ensurePad (part : Bytes) (con : Node) : Node :=
  match atoi part, con with
  | some ai, .ary nodes =>
    if ai ≥ (nodes.length : Int) + 1 then .ary (nodes ++ padNulls (ai.toNat - nodes.length)) else con
  | _, _ => con

/-- `doc.add(key, child)` with the error ignored -/
def ensureAdd (o : Opts) (con1 : Node) (key : Bytes) (self : Node) :
    Outcome (Node × Node) → Outcome (Node × Node)
  | .ok (child, _) =>
    (match conAdd o con1 key child with
     | .ok con2 => .ok (con2, self)
     | .err _ => .ok (con1, self)
     | .panic => .panic)
  | .err e => .err e
  | .panic => .panic

def ensurePut (o : Opts) (con : Node) (key : Bytes) (self : Node) :
    Outcome (Node × Node) → Outcome (Node × Node)
  | .ok (child', _) => .ok (putChild o con key child', self)
  | .err e => .err e
  | .panic => .panic

theorem ensure_cons2 (o : Opts) (cr : Bool) (self con : Node) (part nxt : Bytes) (rest : List Bytes) :
    ensure o cr self con (part :: nxt :: rest) =
      match ensureTarget o self con (decodeToken part) with
      | none =>
        if (atoi nxt).isSome ∨ nxt = [45] then
          if (atoi nxt).getD 0 < 0 ∧ !o.neg then .err .invalidIndex
          else if (atoi nxt).getD 0 < -1 then .err .invalidIndex
          else
            ensureAdd o (ensurePad part con) (decodeToken part) self
              (ensure o false .nil
                (.ary (padNulls (if (atoi nxt).getD 0 < 0 then 0 else ((atoi nxt).getD 0).toNat))) (nxt :: rest))
        else
          ensureAdd o (ensurePad part con) (decodeToken part) self
            (ensure o false .nil (.doc [] []) (nxt :: rest))
      | some t =>
        match enter cr (decodeToken part) t with
        | .panic => .panic
        | .err e => .err e
        | .ok child => ensurePut o con (decodeToken part) self (ensure o false .nil child (nxt :: rest)) := by
  rw [ensure.eq_def]
  simp only [ensureTarget, enter]
  cases hc : conGet o self con (decodeToken part) with
  | panic =>
    simp only []
    split
    · split; · rfl
      split; · rfl
      generalize ensure o false Node.nil _ (nxt :: rest) = x
      cases x with
      | ok p => cases p; rfl
      | err e => rfl
      | panic => rfl
    · generalize ensure o false Node.nil _ (nxt :: rest) = x
      cases x with
      | ok p => cases p; rfl
      | err e => rfl
      | panic => rfl
  | err e =>
    simp only []
    split
    · split; · rfl
      split; · rfl
      generalize ensure o false Node.nil _ (nxt :: rest) = x
      cases x with
      | ok p => cases p; rfl
      | err e => rfl
      | panic => rfl
    · generalize ensure o false Node.nil _ (nxt :: rest) = x
      cases x with
      | ok p => cases p; rfl
      | err e => rfl
      | panic => rfl
  | ok n =>
    cases n with
    | nil =>
      simp only []
      split
      · split; · rfl
        split; · rfl
        generalize ensure o false Node.nil _ (nxt :: rest) = x
        cases x with
        | ok p => cases p; rfl
        | err e => rfl
        | panic => rfl
      · generalize ensure o false Node.nil _ (nxt :: rest) = x
        cases x with
        | ok p => cases p; rfl
        | err e => rfl
        | panic => rfl
    | _ =>
      simp only []
      generalize intoContainer _ = x
      cases x with
      | panic => rfl
      | err e => rfl
      | ok child =>
        simp only []
        generalize ensure o false Node.nil child (nxt :: rest) = y
        cases y with
        | ok p => cases p; rfl
        | err e => rfl
        | panic => rfl

end Impl
end JP
