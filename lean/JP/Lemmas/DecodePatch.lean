import JP.Impl.Apply
import JP.Spec.PatchDoc

/-!
# Lemmas for C11: `DecodePatch` versus the well-formedness predicate of `Spec/PatchDoc`
-/

namespace JP
namespace DecodePatchLemmas
open Impl Spec

/-! ### literals -/

theorem ascii_true_ne_null : ascii "true" ≠ ascii "null" := by decide
theorem ascii_false_ne_null : ascii "false" ≠ ascii "null" := by decide

theorem litValue_null_iff (s : Bytes) : Cst.litValue s = .null ↔ s = ascii "null" := by
  unfold Cst.litValue
  split
  · simp [*]
  · split
    · simp [*, ascii_true_ne_null]
    · split <;> simp [*, ascii_false_ne_null]

theorem litValue_ne_str (s t : Bytes) : Cst.litValue s ≠ .str t := by
  unfold Cst.litValue
  split
  · simp
  · split
    · simp
    · split <;> simp

theorem litValue_ne_obj (s : Bytes) (ms) : Cst.litValue s ≠ .obj ms := by
  unfold Cst.litValue
  split
  · simp
  · split
    · simp
    · split <;> simp

theorem litValue_ne_arr (s : Bytes) (xs) : Cst.litValue s ≠ .arr xs := by
  unfold Cst.litValue
  split
  · simp
  · split
    · simp
    · split <;> simp

theorem isNullLit_iff (c : Cst) : c.isNullLit = true ↔ c.valueOf = .null := by
  cases c with
  | lit s => simp [Cst.isNullLit, Cst.valueOf, litValue_null_iff]
  | str b => simp [Cst.isNullLit, Cst.valueOf]
  | arr xs => simp [Cst.isNullLit, Cst.valueOf]
  | obj ms => simp [Cst.isNullLit, Cst.valueOf]

theorem valueOf_litNull : Cst.valueOf litNull = .null := by
  simp [litNull, Cst.valueOf, litValue_null_iff]

/-! ### member lookup -/

theorem lookupLastC_valueOf (k : Bytes) (ms : List (Bytes × Cst)) :
    (lookupLastC k ms).map Cst.valueOf = Spec.lookupLast k (Cst.valueOfM ms) := by
  induction ms with
  | nil => simp [lookupLastC, Cst.valueOfM, Spec.lookupLast]
  | cons m ms ih =>
    obtain ⟨k', c⟩ := m
    simp only [lookupLastC, Cst.valueOfM, Spec.lookupLast]
    rw [← ih]
    cases h : lookupLastC k ms with
    | some c' => simp
    | none =>
      by_cases hk : unquote k' = k <;> simp [hk]

/-- `asString` is `strOf` of the value, for a non-null member -/
theorem asString_valueOf (c : Cst) : asString c = Spec.strOf (some c.valueOf) := by
  cases c with
  | lit s =>
    simp only [asString, Cst.valueOf]
    cases h : Cst.litValue s with
    | str t => exact absurd h (litValue_ne_str s t)
    | null => simp [Spec.strOf]
    | bool b => simp [Spec.strOf]
    | num l => simp [Spec.strOf]
    | arr xs => simp [Spec.strOf]
    | obj ms => simp [Spec.strOf]
  | str b => simp [asString, Cst.valueOf, Spec.strOf]
  | arr xs => simp [asString, Cst.valueOf, Spec.strOf]
  | obj ms => simp [asString, Cst.valueOf, Spec.strOf]

theorem opStr_eq (name : Bytes) (ms : List (Bytes × Cst)) :
    opStr name ms = Spec.strOf (Spec.lookupLast name (Cst.valueOfM ms)) := by
  rw [← lookupLastC_valueOf]
  unfold opStr member
  cases h : lookupLastC name ms with
  | none => simp [Spec.strOf]
  | some c =>
    by_cases hn : c.isNullLit = true
    · have := (isNullLit_iff c).1 hn
      simp [hn, this, Spec.strOf]
    · simp [hn, asString_valueOf]

theorem opKind_eq (ms : List (Bytes × Cst)) :
    opKind ms = (Spec.strOf (Spec.lookupLast (ascii "op") (Cst.valueOfM ms))).getD (ascii "unknown") := by
  rw [← opStr_eq]
  unfold opKind opStr
  cases member (ascii "op") ms with
  | absent => simp
  | null => simp
  | val c => simp

theorem opValue_eq (ms : List (Bytes × Cst)) :
    (opValue ms).map Cst.valueOf = Spec.lookupLast (ascii "value") (Cst.valueOfM ms) := by
  rw [← lookupLastC_valueOf]
  unfold opValue member
  cases h : lookupLastC (ascii "value") ms with
  | none => simp
  | some c =>
    by_cases hn : c.isNullLit = true
    · have := (isNullLit_iff c).1 hn
      simp [hn, this, valueOf_litNull]
    · simp [hn]

theorem opValue_isSome (ms : List (Bytes × Cst)) :
    (opValue ms).isSome = (Spec.lookupLast (ascii "value") (Cst.valueOfM ms)).isSome := by
  rw [← opValue_eq]; simp

/-! ### the six kinds -/

theorem knownKinds_contains (k : Bytes) : Spec.knownKinds.contains k =
    decide (k = ascii "add" ∨ k = ascii "remove" ∨ k = ascii "replace" ∨ k = ascii "move"
      ∨ k = ascii "copy" ∨ k = ascii "test") := by
  simp [Spec.knownKinds]

theorem unknown_not_known : Spec.knownKinds.contains (ascii "unknown") = false := by decide

/-- the acceptance condition of the implementation, in terms of the three accessors -/
def accepts (kind : Bytes) (hasValue hasFrom hasPath : Bool) : Bool :=
  (if kind = ascii "add" ∨ kind = ascii "replace" then hasValue
   else if kind = ascii "move" ∨ kind = ascii "copy" then hasFrom
   else if kind = ascii "remove" ∨ kind = ascii "test" then true
   else false) && hasPath

theorem decodeOp_isSome (ms : List (Bytes × Cst)) :
    (decodeOp ms).isSome = accepts (opKind ms) (opValue ms).isSome
      (opStr (ascii "from") ms).isSome (opStr (ascii "path") ms).isSome := by
  unfold decodeOp accepts
  simp only []
  generalize (if opKind ms = ascii "add" ∨ opKind ms = ascii "replace" then (opValue ms).isSome
    else if opKind ms = ascii "move" ∨ opKind ms = ascii "copy" then (opStr (ascii "from") ms).isSome
    else if opKind ms = ascii "remove" ∨ opKind ms = ascii "test" then true else false) = b
  cases b <;> cases hp : opStr (ascii "path") ms <;> simp

theorem accepts_spec (kind : Bytes) (v f p : Bool) :
    accepts kind v f p =
      (Spec.knownKinds.contains kind && p
        && (if kind = ascii "add" ∨ kind = ascii "replace" then v else true)
        && (if kind = ascii "move" ∨ kind = ascii "copy" then f else true)) := by
  rw [knownKinds_contains]
  unfold accepts
  by_cases h1 : kind = ascii "add"
  · subst h1; cases v <;> cases f <;> cases p <;> decide
  by_cases h2 : kind = ascii "replace"
  · subst h2; cases v <;> cases f <;> cases p <;> decide
  by_cases h3 : kind = ascii "move"
  · subst h3; cases v <;> cases f <;> cases p <;> decide
  by_cases h4 : kind = ascii "copy"
  · subst h4; cases v <;> cases f <;> cases p <;> decide
  by_cases h5 : kind = ascii "remove"
  · subst h5; cases v <;> cases f <;> cases p <;> decide
  by_cases h6 : kind = ascii "test"
  · subst h6; cases v <;> cases f <;> cases p <;> decide
  simp [h1, h2, h3, h4, h5, h6]

theorem accepts_unknown (v f p : Bool) : accepts (ascii "unknown") v f p = false := by
  rw [accepts_spec, unknown_not_known]; simp

theorem decodeOp_iff (ms : List (Bytes × Cst)) :
    (decodeOp ms).isSome = Spec.wellFormedOp (.obj (Cst.valueOfM ms)) := by
  rw [decodeOp_isSome, opKind_eq, opValue_isSome, opStr_eq, opStr_eq]
  simp only [Spec.wellFormedOp]
  cases h : Spec.strOf (Spec.lookupLast (ascii "op") (Cst.valueOfM ms)) with
  | none => simp [accepts_unknown]
  | some kind => simp [accepts_spec]

/-- acceptance of one array element -/
def decodeElem : Cst → Option Op
  | .obj ms => decodeOp ms
  | _ => none

theorem decodeElem_iff (c : Cst) : (decodeElem c).isSome = Spec.wellFormedOp c.valueOf := by
  cases c with
  | obj ms => simp only [decodeElem, Cst.valueOf]; exact decodeOp_iff ms
  | lit s =>
    simp only [decodeElem, Cst.valueOf]
    cases h : Cst.litValue s with
    | obj ms => exact absurd h (litValue_ne_obj s ms)
    | null => simp [Spec.wellFormedOp]
    | bool b => simp [Spec.wellFormedOp]
    | num l => simp [Spec.wellFormedOp]
    | arr xs => simp [Spec.wellFormedOp]
    | str t => simp [Spec.wellFormedOp]
  | str b => simp [decodeElem, Cst.valueOf, Spec.wellFormedOp]
  | arr xs => simp [decodeElem, Cst.valueOf, Spec.wellFormedOp]

theorem decodeOps_cons (c : Cst) (cs : List Cst) :
    decodeOps (c :: cs) =
      (match decodeElem c, decodeOps cs with
       | some op, some ops => some (op :: ops)
       | _, _ => none) := by
  cases c <;> first | rfl | simp [decodeOps, decodeElem]

theorem decodeOps_isSome (xs : List Cst) :
    (decodeOps xs).isSome = (Cst.valueOfL xs).all Spec.wellFormedOp := by
  induction xs with
  | nil => simp [decodeOps, Cst.valueOfL]
  | cons c cs ih =>
    rw [decodeOps_cons]
    simp only [Cst.valueOfL, List.all_cons, ← ih, ← decodeElem_iff]
    cases decodeElem c <;> cases decodeOps cs <;> simp

/-! ### accessors -/

abbrev View := Bytes × Bytes × Option Bytes × Option Value

def viewOf (v : Value) : View :=
  match Spec.viewOp v with
  | some w => (w.kind, w.path, w.frm, w.value)
  | none => default

def viewImpl (op : Op) : View := (op.kind, op.path, op.frm, op.value.map Cst.valueOf)

theorem decodeOp_some (ms : List (Bytes × Cst)) (op : Op) (h : decodeOp ms = some op) :
    ∃ p, opStr (ascii "path") ms = some p ∧
      op = { kind := opKind ms, path := p, frm := opStr (ascii "from") ms, value := opValue ms } := by
  unfold decodeOp at h
  simp only [] at h
  generalize (if opKind ms = ascii "add" ∨ opKind ms = ascii "replace" then (opValue ms).isSome
    else if opKind ms = ascii "move" ∨ opKind ms = ascii "copy" then (opStr (ascii "from") ms).isSome
    else if opKind ms = ascii "remove" ∨ opKind ms = ascii "test" then true else false) = b at h
  cases b <;> cases hp : opStr (ascii "path") ms <;> simp [hp] at h ⊢
  exact h.symm

theorem decodeOp_view (ms : List (Bytes × Cst)) (op : Op) (h : decodeOp ms = some op) :
    viewImpl op = viewOf (.obj (Cst.valueOfM ms)) := by
  have hs : (decodeOp ms).isSome = true := by simp [h]
  rw [decodeOp_iff] at hs
  simp only [Spec.wellFormedOp] at hs
  simp only [viewOf, Spec.viewOp]
  obtain ⟨p', hp', rfl⟩ := decodeOp_some ms op h
  cases hk : Spec.strOf (Spec.lookupLast (ascii "op") (Cst.valueOfM ms)) with
  | none => simp [hk] at hs
  | some kind =>
    cases hp : Spec.strOf (Spec.lookupLast (ascii "path") (Cst.valueOfM ms)) with
    | none => simp [hk, hp] at hs
    | some p =>
      rw [opStr_eq, hp] at hp'
      simp only [Option.some.injEq] at hp'
      subst hp'
      simp [viewImpl, opKind_eq, hk, opValue_eq, opStr_eq]

theorem decodeElem_view (c : Cst) (op : Op) (h : decodeElem c = some op) :
    viewImpl op = viewOf c.valueOf := by
  cases c with
  | obj ms => simp only [Cst.valueOf]; exact decodeOp_view ms op h
  | lit s => simp [decodeElem] at h
  | str b => simp [decodeElem] at h
  | arr xs => simp [decodeElem] at h

theorem decodeOps_view (xs : List Cst) : ∀ ops, decodeOps xs = some ops →
    ops.map viewImpl = (Cst.valueOfL xs).map viewOf := by
  induction xs with
  | nil => intro ops h; simp [decodeOps] at h; subst h; simp [Cst.valueOfL]
  | cons c cs ih =>
    intro ops h
    rw [decodeOps_cons] at h
    cases h1 : decodeElem c with
    | none => simp [h1] at h
    | some op =>
      cases h2 : decodeOps cs with
      | none => simp [h1, h2] at h
      | some ops' =>
        simp only [h1, h2, Option.some.injEq] at h
        subst h
        simp only [List.map_cons, Cst.valueOfL]
        rw [decodeElem_view c op h1, ih ops' h2]

/-! ### texts -/

theorem valueOf_arr_inv (c : Cst) (vs : List Value) (h : c.valueOf = .arr vs) :
    ∃ xs, c = .arr xs ∧ vs = Cst.valueOfL xs := by
  cases c with
  | arr xs => simp only [Cst.valueOf, Value.arr.injEq] at h; exact ⟨xs, rfl, h.symm⟩
  | lit s => simp only [Cst.valueOf] at h; exact absurd h (litValue_ne_arr s vs)
  | str b => simp [Cst.valueOf] at h
  | obj ms => simp [Cst.valueOf] at h

end DecodePatchLemmas
end JP
