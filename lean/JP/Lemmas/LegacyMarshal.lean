import JP.Lemmas.LegacyEngineDefs
import JP.Lemmas.LegacyRespell

/-!
# Legacy package: marshalling (`cstOf`), `deepCopy`, `deepParse`, decoding one level

* `sortByName` is a permutation (`sortByName_perm`) – lookups, lengths, membership, duplicate
  freedom of the names are those of the unsorted list;
* `cstOf_sim`      – what `json.Marshal` prints denotes the node's value up to member order;
* `RawOK_cstOf`    – and satisfies the text invariant of raw messages again;
* `deepCopy_spec`, `deepParse_spec`, `intoContainer_spec`, `isNullN_den`.
-/

namespace JP
namespace Legacy

open Value

/-! ### 1. sorting by name is a permutation -/

/-- lookup in an association list with arbitrary payload -/
def lookupG {α} (k : Bytes) : List (Bytes × α) → Option α
  | [] => none
  | (k', a) :: ms => if k' = k then some a else lookupG k ms

theorem lookupG_eq_lookup (k : Bytes) : ∀ ms : Members, lookupG k ms = lookup k ms
  | [] => rfl
  | (k', v) :: ms => by simp only [lookupG, lookup, lookupG_eq_lookup k ms]

theorem lookupG_eq_lookupN (k : Bytes) : ∀ ms : NMembers, lookupG k ms = lookupN k ms
  | [] => rfl
  | (k', v) :: ms => by simp only [lookupG, lookupN, lookupG_eq_lookupN k ms]

theorem insertByName_perm {α} (k : Bytes) (a : α) :
    ∀ ms : List (Bytes × α), (insertByName k a ms).Perm ((k, a) :: ms)
  | [] => List.Perm.refl _
  | (k', a') :: ms => by
    simp only [insertByName]
    split
    · exact List.Perm.refl _
    · exact ((insertByName_perm k a ms).cons (k', a')).trans (List.Perm.swap (k, a) (k', a') ms)

theorem sortByName_perm {α} : ∀ ms : List (Bytes × α), (sortByName ms).Perm ms
  | [] => List.Perm.refl _
  | (k, a) :: ms =>
    (insertByName_perm k a (sortByName ms)).trans ((sortByName_perm ms).cons (k, a))

theorem sortByName_length {α} (ms : List (Bytes × α)) : (sortByName ms).length = ms.length :=
  (sortByName_perm ms).length_eq

theorem mem_sortByName {α} {m : Bytes × α} {ms : List (Bytes × α)} : m ∈ sortByName ms ↔ m ∈ ms :=
  (sortByName_perm ms).mem_iff

theorem sortByName_keys_perm {α} (ms : List (Bytes × α)) :
    ((sortByName ms).map Prod.fst).Perm (ms.map Prod.fst) :=
  (sortByName_perm ms).map Prod.fst

theorem sortByName_keys_nodup {α} (ms : List (Bytes × α)) :
    ((sortByName ms).map Prod.fst).Nodup ↔ (ms.map Prod.fst).Nodup :=
  (sortByName_keys_perm ms).nodup_iff

theorem mem_keys_sortByName {α} {k : Bytes} {ms : List (Bytes × α)} :
    k ∈ (sortByName ms).map Prod.fst ↔ k ∈ ms.map Prod.fst :=
  (sortByName_keys_perm ms).mem_iff

theorem lookupG_eq_none_iff {α} (k : Bytes) :
    ∀ ms : List (Bytes × α), lookupG k ms = none ↔ k ∉ ms.map Prod.fst
  | [] => by simp [lookupG]
  | (k', a) :: ms => by
    simp only [lookupG, List.map_cons, List.mem_cons, not_or]
    by_cases h : k' = k
    · simp [h]
    · simp only [if_neg h, lookupG_eq_none_iff k ms]
      constructor
      · intro hm; exact ⟨fun e => h e.symm, hm⟩
      · intro hm; exact hm.2

theorem mem_of_lookupG {α} {k : Bytes} {a : α} :
    ∀ {ms : List (Bytes × α)}, lookupG k ms = some a → (k, a) ∈ ms
  | [], h => by simp [lookupG] at h
  | (k', a') :: ms, h => by
    simp only [lookupG] at h
    by_cases hk : k' = k
    · rw [if_pos hk] at h; cases h; subst hk; exact List.mem_cons_self
    · rw [if_neg hk] at h; exact List.mem_cons_of_mem _ (mem_of_lookupG h)

theorem lookupG_of_mem_nodup {α} {k : Bytes} {a : α} :
    ∀ {ms : List (Bytes × α)}, (ms.map Prod.fst).Nodup → (k, a) ∈ ms → lookupG k ms = some a
  | [], _, hm => by simp at hm
  | (k', a') :: ms, hn, hm => by
    simp only [List.map_cons, List.nodup_cons] at hn
    simp only [lookupG]
    cases List.mem_cons.mp hm with
    | inl h => cases h; simp
    | inr h =>
      have hk : k ∈ ms.map Prod.fst := List.mem_map.mpr ⟨(k, a), h, rfl⟩
      have hne : k' ≠ k := fun e => hn.1 (e ▸ hk)
      rw [if_neg hne]
      exact lookupG_of_mem_nodup hn.2 h

/-- lookups only depend on the set of members when the names are duplicate-free -/
theorem lookupG_perm {α} {xs ys : List (Bytes × α)} (hp : xs.Perm ys)
    (hn : (ys.map Prod.fst).Nodup) (k : Bytes) : lookupG k xs = lookupG k ys := by
  cases hy : lookupG k ys with
  | none =>
    rw [lookupG_eq_none_iff] at hy ⊢
    intro hm
    exact hy ((hp.map Prod.fst).mem_iff.1 hm)
  | some a =>
    have hnx : (xs.map Prod.fst).Nodup := (hp.map Prod.fst).nodup_iff.2 hn
    exact lookupG_of_mem_nodup hnx (hp.mem_iff.2 (mem_of_lookupG hy))

theorem lookupG_sortByName {α} (ms : List (Bytes × α)) (hn : (ms.map Prod.fst).Nodup) (k : Bytes) :
    lookupG k (sortByName ms) = lookupG k ms :=
  lookupG_perm (sortByName_perm ms) hn k

/-! ### 2a. two objects with the same members up to order -/

theorem eqv_obj_of_mem {xs ys : Members} (hx : (xs.map Prod.fst).Nodup) (hy : (ys.map Prod.fst).Nodup)
    (hlen : xs.length = ys.length)
    (h : ∀ k v, (k, v) ∈ xs → ∃ w, lookup k ys = some w ∧ eqv v w = true) :
    eqv (.obj xs) (.obj ys) = true := by
  rw [eqv_obj_nodup xs ys ((nodupKeys_iff _).2 hx) ((nodupKeys_iff _).2 hy), Bool.and_eq_true]
  exact ⟨by simpa using hlen, (eqvM_iff_E xs ys).2 h⟩

/-- the lookup form: both sides duplicate-free, every name is absent on both sides or present on
both sides with `eqv` values -/
theorem eqv_obj_of_lookup {xs ys : Members} (hx : (xs.map Prod.fst).Nodup) (hy : (ys.map Prod.fst).Nodup)
    (h : ∀ k, (lookup k xs = none ∧ lookup k ys = none) ∨
      ∃ v w, lookup k xs = some v ∧ lookup k ys = some w ∧ eqv v w = true) :
    eqv (.obj xs) (.obj ys) = true := by
  have hsub : ∀ k ∈ xs.map Prod.fst, k ∈ ys.map Prod.fst := by
    intro k hk
    rcases h k with ⟨h1, _⟩ | ⟨v, w, _, h2, _⟩
    · exact absurd hk ((lookup_eq_none_iff_E k xs).1 h1)
    · rw [← lookup_isSome_iff_E, h2]; rfl
  have hsup : ∀ k ∈ ys.map Prod.fst, k ∈ xs.map Prod.fst := by
    intro k hk
    rcases h k with ⟨_, h2⟩ | ⟨v, w, h1, _, _⟩
    · exact absurd hk ((lookup_eq_none_iff_E k ys).1 h2)
    · rw [← lookup_isSome_iff_E, h1]; rfl
  have hlen := (length_eq_iff_subset _ _ hx hy hsub).2 hsup
  simp only [List.length_map] at hlen
  refine eqv_obj_of_mem hx hy hlen ?_
  intro k v hm
  have hl := lookup_of_mem_nodup k v xs hx hm
  rcases h k with ⟨h1, _⟩ | ⟨v', w, h1, h2, h3⟩
  · rw [hl] at h1; cases h1
  · rw [hl] at h1; cases h1; exact ⟨w, h2, h3⟩

/-! ### list forms -/

theorem cstOfM_eq_map : ∀ ob : NMembers, cstOfM ob = ob.map fun p => (p.1, cstOf p.2)
  | [] => rfl
  | (k, n) :: ms => by simp only [cstOfM, List.map_cons, cstOfM_eq_map ms]

theorem cstOfL_eq_map : ∀ ns : List Node, cstOfL ns = ns.map cstOf
  | [] => rfl
  | n :: ns => by simp only [cstOfL, List.map_cons, cstOfL_eq_map ns]

theorem keys_cstOfM (ob : NMembers) : (cstOfM ob).map Prod.fst = ob.map Prod.fst := by
  rw [cstOfM_eq_map, List.map_map]; rfl

theorem LTM_iff (ob : NMembers) :
    LTM ob = true ↔ ∀ p ∈ ob, Impl.QK true p.1 = true ∧ LT p.2 = true := by
  induction ob with
  | nil => simp [LTM]
  | cons p ms ih => obtain ⟨k, n⟩ := p; simp [LTM, ih, and_assoc]

theorem LTL_iff (ns : List Node) : LTL ns = true ↔ ∀ n ∈ ns, LT n = true := by
  induction ns with
  | nil => simp [LTL]
  | cons n ns ih => simp [LTL, ih]

theorem StrFixL_iff (xs : List Cst) : StrFixL xs = true ↔ ∀ x ∈ xs, StrFix x = true := by
  induction xs with
  | nil => simp [StrFixL]
  | cons x xs ih => simp [StrFixL, ih]

theorem StrFixM_iff (ms : List (Bytes × Cst)) : StrFixM ms = true ↔ ∀ m ∈ ms, StrFix m.2 = true := by
  induction ms with
  | nil => simp [StrFixM]
  | cons m ms ih => obtain ⟨k, v⟩ := m; simp [StrFixM, ih]

theorem LT_raw (c : Cst) : LT (.raw c) = true ↔ Impl.CstOK true c = true ∧ StrFix c = true := by
  simp only [LT, RawOK, Bool.and_eq_true]

theorem RawOK_iff (c : Cst) : RawOK c = true ↔ Impl.CstOK true c = true ∧ StrFix c = true := by
  simp only [RawOK, Bool.and_eq_true]

/-! ### 2b. the printed members of a parsed object -/

/-- a name that survives the fork's quoting survives the standard library's (`\\b` / `\\f` for
`\\u0008` / `\\u000c`): both spellings decode to the same bytes -/
theorem QK_eq_std {k : Bytes} (h : Impl.QK true k = true) : unquote (quoteBodyStd k) = k := by
  rw [unquote_quoteBodyStd]; exact Impl.QK_eq h

theorem EscOK_quoteBodyStd (k : Bytes) : Impl.EscOK true (quoteBodyStd k) = true := by
  simp only [Impl.EscOK, Impl.escB, if_true, Bool.and_eq_true, beq_iff_eq, escBody_quoteBodyStd, and_self]

theorem QK_unquote_quoteBodyStd {k : Bytes} (h : Impl.QK true k = true) :
    Impl.QK true (unquote (quoteBodyStd k)) = true := by
  rw [QK_eq_std h]; exact h

/-- the members `json.Marshal` prints for a map -/
def printedM (ob : NMembers) : List (Bytes × Cst) :=
  (sortByName (cstOfM ob)).map fun m => (quoteBodyStd m.1, m.2)

theorem cstOf_doc (ob : NMembers) : cstOf (.doc ob) = .obj (printedM ob) := by
  simp only [cstOf, printedM]

theorem mem_printedM {ob : NMembers} {m : Bytes × Cst} :
    m ∈ printedM ob ↔ ∃ p ∈ ob, m = (quoteBodyStd p.1, cstOf p.2) := by
  simp only [printedM, List.mem_map, mem_sortByName, cstOfM_eq_map]
  constructor
  · rintro ⟨a, ⟨p, hp, rfl⟩, rfl⟩; exact ⟨p, hp, rfl⟩
  · rintro ⟨p, hp, rfl⟩; exact ⟨_, ⟨p, hp, rfl⟩, rfl⟩

theorem length_printedM (ob : NMembers) : (printedM ob).length = ob.length := by
  simp only [printedM, List.length_map, sortByName_length, cstOfM_eq_map]

theorem keys_valueOfM_printedM {ob : NMembers} (hq : ∀ p ∈ ob, Impl.QK true p.1 = true) :
    ((Cst.valueOfM (printedM ob)).map Prod.fst).Perm (ob.map Prod.fst) := by
  have h1 : (Cst.valueOfM (printedM ob)).map Prod.fst = (sortByName (cstOfM ob)).map Prod.fst := by
    rw [Impl.keys_valueOfM, printedM, List.map_map]
    apply List.map_congr_left
    intro m hm
    rw [mem_sortByName, cstOfM_eq_map, List.mem_map] at hm
    obtain ⟨p, hp, rfl⟩ := hm
    exact QK_eq_std (hq p hp)
  rw [h1, ← keys_cstOfM ob]
  exact sortByName_keys_perm _

theorem mem_valueOfM_printedM {ob : NMembers} (hq : ∀ p ∈ ob, Impl.QK true p.1 = true)
    {k : Bytes} {v : Value} (h : (k, v) ∈ Cst.valueOfM (printedM ob)) :
    ∃ p ∈ ob, k = p.1 ∧ v = (cstOf p.2).valueOf := by
  rw [Impl.valueOfM_eq_map, List.mem_map] at h
  obtain ⟨m, hm, he⟩ := h
  obtain ⟨p, hp, rfl⟩ := mem_printedM.1 hm
  simp only [Prod.mk.injEq] at he
  exact ⟨p, hp, by rw [← he.1]; exact QK_eq_std (hq p hp), he.2.symm⟩

theorem sim_null : Sim .null .null := ⟨rfl, rfl, rfl⟩

theorem sim_refl {v : Value} (h : v.noDup = true) : Sim v v := ⟨h, h, eqv_refl_E v h⟩

theorem litNull_valueOf : Impl.litNull.valueOf = .null := Impl.litNull_valueOf

/-- the object case of `cstOf_sim`, from the statement for the members -/
theorem sim_printedM {ob : NMembers} (hn : (ob.map Prod.fst).Nodup)
    (hq : ∀ p ∈ ob, Impl.QK true p.1 = true)
    (hs : ∀ p ∈ ob, Sim (cstOf p.2).valueOf (den p.2)) (hd : noDupM (denM ob) = true) :
    Sim (.obj (Cst.valueOfM (printedM ob))) (.obj (denM ob)) := by
  have hkp := keys_valueOfM_printedM hq
  have hx : ((Cst.valueOfM (printedM ob)).map Prod.fst).Nodup := hkp.nodup_iff.2 hn
  have hy : ((denM ob).map Prod.fst).Nodup := by rw [keys_denM]; exact hn
  refine ⟨?_, ?_, ?_⟩
  · simp only [noDup, Bool.and_eq_true]
    refine ⟨(nodupKeys_iff _).2 hx, (Impl.noDupM_iff _).2 ?_⟩
    rintro ⟨k, v⟩ hm
    obtain ⟨p, hp, _, rfl⟩ := mem_valueOfM_printedM hq hm
    exact (hs p hp).1
  · simp only [noDup, Bool.and_eq_true]
    exact ⟨(nodupKeys_iff _).2 hy, hd⟩
  · refine eqv_obj_of_mem hx hy ?_ ?_
    · rw [Impl.length_valueOfM, length_printedM, denM_eq_map, List.length_map]
    · intro k v hm
      obtain ⟨p, hp, rfl, rfl⟩ := mem_valueOfM_printedM hq hm
      refine ⟨den p.2, ?_, (hs p hp).2.2⟩
      apply lookup_of_mem_nodup _ _ _ hy
      rw [denM_eq_map]
      exact List.mem_map.2 ⟨p, hp, rfl⟩

/-! ### 2. `cstOf` denotes the node's value up to member order -/

mutual
theorem cstOf_sim : ∀ n : Node, Inv n → Sim (cstOf n).valueOf (den n)
  | .nil, _ => by simp only [cstOf, den, litNull_valueOf]; exact sim_null
  | .rawNil, _ => by simp only [cstOf, den, litNull_valueOf]; exact sim_null
  | .docNil, h => by have := h.1; simp [WF] at this
  | .raw c, h => by
    have h1 : c.valueOf.noDup = true := by simpa [WF] using h.1
    have h2 := ((LT_raw c).1 h.2).1
    simp only [cstOf, den, Impl.valueOf_escape true c h2]
    exact sim_refl h1
  | .doc ob, h => by
    have h1 := (WF_doc_iff ob).1 h.1
    have h2 : LTM ob = true := by simpa [LT] using h.2
    rw [cstOf_doc]
    simp only [Cst.valueOf, den]
    exact sim_printedM h1.1 (fun p hp => ((LTM_iff ob).1 h2 p hp).1) (cstOfM_sim ob h1.2 h2)
      (noDupM_denM ob h1.2)
  | .ary ns, h => by
    have h1 : WFL ns = true := by simpa [WF] using h.1
    have h2 : LTL ns = true := by simpa [LT] using h.2
    obtain ⟨a, b⟩ := cstOfL_sim ns h1 h2
    simp only [cstOf, Cst.valueOf, den]
    exact ⟨by simpa [noDup] using a, by simpa [noDup] using noDupL_denL ns h1, by simpa [eqv] using b⟩
theorem cstOfM_sim : ∀ ob : NMembers, WFM ob = true → LTM ob = true →
    ∀ p ∈ ob, Sim (cstOf p.2).valueOf (den p.2)
  | [], _, _ => by intro p hp; cases hp
  | (k, n) :: ms, h1, h2 => by
    simp only [WFM, Bool.and_eq_true] at h1
    simp only [LTM, Bool.and_eq_true] at h2
    intro p hp
    rcases List.mem_cons.1 hp with rfl | hp
    · exact cstOf_sim n ⟨h1.1, h2.1.2⟩
    · exact cstOfM_sim ms h1.2 h2.2 p hp
theorem cstOfL_sim : ∀ ns : List Node, WFL ns = true → LTL ns = true →
    noDupL (Cst.valueOfL (cstOfL ns)) = true ∧ eqvL (Cst.valueOfL (cstOfL ns)) (denL ns) = true
  | [], _, _ => ⟨rfl, rfl⟩
  | n :: ns, h1, h2 => by
    simp only [WFL, Bool.and_eq_true] at h1
    simp only [LTL, Bool.and_eq_true] at h2
    obtain ⟨a, _, c⟩ := cstOf_sim n ⟨h1.1, h2.1⟩
    obtain ⟨a', c'⟩ := cstOfL_sim ns h1.2 h2.2
    simp only [cstOfL, Cst.valueOfL, denL, noDupL, eqvL, Bool.and_eq_true]
    exact ⟨⟨a, a'⟩, c, c'⟩
end

/-! ### 3. the text invariant of raw messages is closed under printing -/

theorem fixBody_iff (b : Bytes) : fixBody b = true ↔ unquote b = b ∧ escBody b = b := by
  simp only [fixBody, Bool.and_eq_true, beq_iff_eq]

mutual
theorem StrFix_escape : ∀ c : Cst, StrFix c = true → StrFix (Cst.escape true c) = true
  | .lit s, _ => by simp only [Cst.escape, StrFix]
  | .str b, h => by
    simp only [StrFix] at h
    have hb := ((fixBody_iff b).1 h).2
    simp only [Cst.escape, if_true, hb, StrFix, h]
  | .arr xs, h => by
    simp only [StrFix] at h
    simp only [Cst.escape, StrFix, StrFixL_escape xs h]
  | .obj ms, h => by
    simp only [StrFix] at h
    simp only [Cst.escape, StrFix, StrFixM_escape ms h]
theorem StrFixL_escape : ∀ xs : List Cst, StrFixL xs = true → StrFixL (Cst.escapeL true xs) = true
  | [], _ => rfl
  | x :: xs, h => by
    simp only [StrFixL, Bool.and_eq_true] at h
    simp only [Cst.escapeL, StrFixL, StrFix_escape x h.1, StrFixL_escape xs h.2, Bool.and_self]
theorem StrFixM_escape : ∀ ms : List (Bytes × Cst), StrFixM ms = true →
    StrFixM (Cst.escapeM true ms) = true
  | [], _ => rfl
  | (k, v) :: ms, h => by
    simp only [StrFixM, Bool.and_eq_true] at h
    simp only [Cst.escapeM, StrFixM, StrFix_escape v h.1, StrFixM_escape ms h.2, Bool.and_self]
end

theorem RawOK_escape {c : Cst} (h : RawOK c = true) : RawOK (Cst.escape true c) = true := by
  rw [RawOK_iff] at h ⊢
  exact ⟨Impl.CstOK_escape true c h.1, StrFix_escape c h.2⟩

theorem RawOK_litNull : RawOK Impl.litNull = true := by
  simp [RawOK, Impl.litNull, Impl.CstOK, StrFix]

/-- the object case of `RawOK_cstOf`, from the statement for the members -/
theorem RawOK_printedM {ob : NMembers} (hq : ∀ p ∈ ob, Impl.QK true p.1 = true)
    (hs : ∀ p ∈ ob, RawOK (cstOf p.2) = true) : RawOK (.obj (printedM ob)) = true := by
  rw [RawOK_iff]
  simp only [Impl.CstOK, StrFix]
  rw [Impl.CstOKM_iff, StrFixM_iff]
  constructor
  · intro m hm
    obtain ⟨p, hp, rfl⟩ := mem_printedM.1 hm
    exact ⟨EscOK_quoteBodyStd p.1, QK_unquote_quoteBodyStd (hq p hp),
      ((RawOK_iff _).1 (hs p hp)).1⟩
  · intro m hm
    obtain ⟨p, hp, rfl⟩ := mem_printedM.1 hm
    exact ((RawOK_iff _).1 (hs p hp)).2

mutual
theorem RawOK_cstOf : ∀ n : Node, Inv n → RawOK (cstOf n) = true
  | .nil, _ => by simp only [cstOf]; exact RawOK_litNull
  | .rawNil, _ => by simp only [cstOf]; exact RawOK_litNull
  | .docNil, _ => by simp only [cstOf]; exact RawOK_litNull
  | .raw c, h => by
    have h2 : RawOK c = true := by simpa [LT] using h.2
    simp only [cstOf]; exact RawOK_escape h2
  | .doc ob, h => by
    have h1 := (WF_doc_iff ob).1 h.1
    have h2 : LTM ob = true := by simpa [LT] using h.2
    rw [cstOf_doc]
    exact RawOK_printedM (fun p hp => ((LTM_iff ob).1 h2 p hp).1) (RawOK_cstOfM ob h1.2 h2)
  | .ary ns, h => by
    have h1 : WFL ns = true := by simpa [WF] using h.1
    have h2 : LTL ns = true := by simpa [LT] using h.2
    obtain ⟨a, b⟩ := RawOK_cstOfL ns h1 h2
    rw [RawOK_iff]
    simp only [cstOf, Impl.CstOK, StrFix]
    exact ⟨a, b⟩
theorem RawOK_cstOfM : ∀ ob : NMembers, WFM ob = true → LTM ob = true →
    ∀ p ∈ ob, RawOK (cstOf p.2) = true
  | [], _, _ => by intro p hp; cases hp
  | (k, n) :: ms, h1, h2 => by
    simp only [WFM, Bool.and_eq_true] at h1
    simp only [LTM, Bool.and_eq_true] at h2
    intro p hp
    rcases List.mem_cons.1 hp with rfl | hp
    · exact RawOK_cstOf n ⟨h1.1, h2.1.2⟩
    · exact RawOK_cstOfM ms h1.2 h2.2 p hp
theorem RawOK_cstOfL : ∀ ns : List Node, WFL ns = true → LTL ns = true →
    Impl.CstOKL true (cstOfL ns) = true ∧ StrFixL (cstOfL ns) = true
  | [], _, _ => ⟨rfl, rfl⟩
  | n :: ns, h1, h2 => by
    simp only [WFL, Bool.and_eq_true] at h1
    simp only [LTL, Bool.and_eq_true] at h2
    have a := (RawOK_iff _).1 (RawOK_cstOf n ⟨h1.1, h2.1⟩)
    obtain ⟨b, c⟩ := RawOK_cstOfL ns h1.2 h2.2
    simp only [cstOfL, Impl.CstOKL, StrFixL, Bool.and_eq_true]
    exact ⟨⟨a.1, b⟩, a.2, c⟩
end

/-! ### 4. `deepCopy` -/

theorem Inv_nil : Inv .nil := ⟨rfl, rfl⟩

theorem Inv_raw (c : Cst) : Inv (.raw c) ↔ c.valueOf.noDup = true ∧ RawOK c = true := by
  simp only [Inv, WF, LT]

/-- a copy has the same value up to member order and satisfies the invariant again -/
theorem deepCopy_spec (n : Node) (h : Inv n) : Inv (deepCopy n).1 ∧ Sim (den (deepCopy n).1) (den n) := by
  have key : Inv (.raw (cstOf n)) ∧ Sim (den (.raw (cstOf n))) (den n) :=
    ⟨(Inv_raw _).2 ⟨(cstOf_sim n h).1, RawOK_cstOf n h⟩, by simp only [den]; exact cstOf_sim n h⟩
  cases n with
  | nil => exact ⟨Inv_nil, sim_null⟩
  | rawNil => exact key
  | raw c => exact key
  | doc ob => exact key
  | docNil => exact key
  | ary ns => exact key

/-! ### 5. `deepParse` -/

theorem WFM_append (xs ys : NMembers) : WFM (xs ++ ys) = (WFM xs && WFM ys) := by
  induction xs with
  | nil => simp [WFM]
  | cons m ms ih => obtain ⟨k, n⟩ := m; simp [WFM, ih, Bool.and_assoc]

theorem LTM_append (xs ys : NMembers) : LTM (xs ++ ys) = (LTM xs && LTM ys) := by
  induction xs with
  | nil => simp [LTM]
  | cons m ms ih => obtain ⟨k, n⟩ := m; simp [LTM, ih, Bool.and_assoc]

theorem denM_append (xs ys : NMembers) : denM (xs ++ ys) = denM xs ++ denM ys := by
  simp [denM_eq_map]

theorem litValue_null : Cst.litValue (ascii "null") = .null := by
  simp [Cst.litValue]

mutual
theorem deepParseC_spec : ∀ c : Cst, c.valueOf.noDup = true → Impl.CstOK true c = true →
    StrFix c = true →
    den (deepParseC c) = c.valueOf ∧ WF (deepParseC c) = true ∧ LT (deepParseC c) = true
  | .lit s, h1, h2, h3 => by
    simp only [deepParseC]
    split
    · next hs => subst hs; exact ⟨by simp only [den, Cst.valueOf, litValue_null], rfl, rfl⟩
    · exact ⟨rfl, by simpa [WF] using h1, (LT_raw _).2 ⟨h2, h3⟩⟩
  | .str b, h1, h2, h3 => by
    simp only [deepParseC]
    exact ⟨rfl, by simpa [WF] using h1, (LT_raw _).2 ⟨h2, h3⟩⟩
  | .arr xs, h1, h2, h3 => by
    simp only [Cst.valueOf, noDup] at h1
    simp only [Impl.CstOK] at h2
    simp only [StrFix] at h3
    obtain ⟨a, b, c⟩ := deepParseCL_spec xs h1 h2 h3
    simp only [deepParseC, den, WF, LT, Cst.valueOf, a, b, c, and_self]
  | .obj ms, h1, h2, h3 => by
    simp only [Cst.valueOf, noDup, Bool.and_eq_true] at h1
    simp only [Impl.CstOK] at h2
    simp only [StrFix] at h3
    have hk := (nodupKeys_iff _).1 h1.1
    obtain ⟨a, k, b, c⟩ := deepParseCM_spec ms [] h1.2 h2 h3 (by simpa using hk)
    simp only [List.map_nil, List.nil_append, denM] at a k
    simp only [deepParseC, den, WF, LT, Cst.valueOf, a, k, h1.1, b rfl, c rfl, Bool.and_self, and_self]
theorem deepParseCL_spec : ∀ xs : List Cst, noDupL (Cst.valueOfL xs) = true →
    Impl.CstOKL true xs = true → StrFixL xs = true →
    denL (deepParseCL xs) = Cst.valueOfL xs ∧ WFL (deepParseCL xs) = true ∧ LTL (deepParseCL xs) = true
  | [], _, _, _ => ⟨rfl, rfl, rfl⟩
  | x :: xs, h1, h2, h3 => by
    simp only [Cst.valueOfL, noDupL, Bool.and_eq_true] at h1
    simp only [Impl.CstOKL, Bool.and_eq_true] at h2
    simp only [StrFixL, Bool.and_eq_true] at h3
    obtain ⟨a, b, c⟩ := deepParseC_spec x h1.1 h2.1 h3.1
    obtain ⟨a', b', c'⟩ := deepParseCL_spec xs h1.2 h2.2 h3.2
    simp only [deepParseCL, denL, WFL, LTL, Cst.valueOfL, a, b, c, a', b', c', and_self, Bool.and_self]
theorem deepParseCM_spec : ∀ (ms : List (Bytes × Cst)) (acc : NMembers),
    noDupM (Cst.valueOfM ms) = true → Impl.CstOKM true ms = true → StrFixM ms = true →
    (acc.map Prod.fst ++ (Cst.valueOfM ms).map Prod.fst).Nodup →
    denM (deepParseCM ms acc) = denM acc ++ Cst.valueOfM ms ∧
      (deepParseCM ms acc).map Prod.fst = acc.map Prod.fst ++ (Cst.valueOfM ms).map Prod.fst ∧
      (WFM acc = true → WFM (deepParseCM ms acc) = true) ∧
      (LTM acc = true → LTM (deepParseCM ms acc) = true)
  | [], acc, _, _, _, _ => by simp [deepParseCM, Cst.valueOfM]
  | (k, v) :: ms, acc, h1, h2, h3, h4 => by
    simp only [Cst.valueOfM, noDupM, Bool.and_eq_true] at h1
    simp only [Impl.CstOKM, Bool.and_eq_true] at h2
    simp only [StrFixM, Bool.and_eq_true] at h3
    simp only [Cst.valueOfM, List.map_cons] at h4
    have hk : unquote k ∉ acc.map Prod.fst := by
      intro hmem
      exact (List.nodup_append.mp h4).2.2 _ hmem _ List.mem_cons_self rfl
    obtain ⟨a, b, c⟩ := deepParseC_spec v h1.1 h2.1.2 h3.1
    have h4' : ((acc ++ [(unquote k, deepParseC v)]).map Prod.fst ++
        (Cst.valueOfM ms).map Prod.fst).Nodup := by
      simpa using h4
    obtain ⟨a', k', b', c'⟩ := deepParseCM_spec ms (acc ++ [(unquote k, deepParseC v)]) h1.2 h2.2 h3.2 h4'
    simp only [deepParseCM]
    rw [setN_of_not_mem _ _ _ hk]
    refine ⟨?_, ?_, ?_, ?_⟩
    · rw [a', denM_append]; simp [denM, a, Cst.valueOfM]
    · rw [k']; simp [Cst.valueOfM]
    · intro hacc; apply b'; rw [WFM_append]; simp [WFM, hacc, b]
    · intro hacc; apply c'; rw [LTM_append]; simp [LTM, hacc, c, h2.1.1.2]
end

theorem keys_deepParseM : ∀ ob : NMembers, (deepParseM ob).map Prod.fst = ob.map Prod.fst
  | [] => rfl
  | (k, n) :: ms => by simp only [deepParseM, List.map_cons, keys_deepParseM ms]

mutual
theorem deepParse_spec : ∀ n : Node, Inv n →
    Inv (deepParse n) ∧ den (deepParse n) = den n ∧ (isDA n = true → isDA (deepParse n) = true)
  | .nil, h => ⟨h, rfl, fun x => x⟩
  | .rawNil, h => ⟨h, rfl, fun x => x⟩
  | .docNil, h => ⟨h, rfl, fun x => x⟩
  | .raw c, h => by
    simp only [deepParse]
    split
    · have h1 : c.valueOf.noDup = true := by simpa [WF] using h.1
      have h2 := (LT_raw c).1 h.2
      obtain ⟨a, b, c'⟩ := deepParseC_spec c h1 h2.1 h2.2
      exact ⟨⟨b, c'⟩, by simpa [den] using a, by simp [isDA]⟩
    · exact ⟨h, rfl, fun x => x⟩
  | .ary ns, h => by
    have h1 : WFL ns = true := by simpa [WF] using h.1
    have h2 : LTL ns = true := by simpa [LT] using h.2
    obtain ⟨a, b, c⟩ := deepParseL_spec ns h1 h2
    simp only [deepParse, Inv, den, WF, LT, isDA, a, b, c, and_self, implies_true]
  | .doc ob, h => by
    have h1 := (WF_doc_iff ob).1 h.1
    have h2 : LTM ob = true := by simpa [LT] using h.2
    obtain ⟨a, b, c⟩ := deepParseM_spec ob h1.2 h2
    refine ⟨⟨?_, ?_⟩, ?_, ?_⟩
    · simp only [deepParse]; rw [WF_doc_iff, keys_deepParseM]; exact ⟨h1.1, b⟩
    · simp only [deepParse, LT, c]
    · simp only [deepParse, den, a]
    · simp [deepParse, isDA]
theorem deepParseM_spec : ∀ ob : NMembers, WFM ob = true → LTM ob = true →
    denM (deepParseM ob) = denM ob ∧ WFM (deepParseM ob) = true ∧ LTM (deepParseM ob) = true
  | [], _, _ => ⟨rfl, rfl, rfl⟩
  | (k, n) :: ms, h1, h2 => by
    simp only [WFM, Bool.and_eq_true] at h1
    simp only [LTM, Bool.and_eq_true] at h2
    obtain ⟨⟨b, c⟩, a, _⟩ := deepParse_spec n ⟨h1.1, h2.1.2⟩
    obtain ⟨a', b', c'⟩ := deepParseM_spec ms h1.2 h2.2
    simp only [deepParseM, denM, WFM, LTM, a, b, c, a', b', c', h2.1.1, and_self, Bool.and_self]
theorem deepParseL_spec : ∀ ns : List Node, WFL ns = true → LTL ns = true →
    denL (deepParseL ns) = denL ns ∧ WFL (deepParseL ns) = true ∧ LTL (deepParseL ns) = true
  | [], _, _ => ⟨rfl, rfl, rfl⟩
  | n :: ns, h1, h2 => by
    simp only [WFL, Bool.and_eq_true] at h1
    simp only [LTL, Bool.and_eq_true] at h2
    obtain ⟨⟨b, c⟩, a, _⟩ := deepParse_spec n ⟨h1.1, h2.1⟩
    obtain ⟨a', b', c'⟩ := deepParseL_spec ns h1.2 h2.2
    simp only [deepParseL, denL, WFL, LTL, a, b, c, a', b', c', and_self, Bool.and_self]
end

/-! ### 6. decoding one level -/

theorem LT_childOf {c : Cst} (h : RawOK c = true) : LT (childOf c) = true := by
  unfold childOf
  split
  · rfl
  · simpa [LT] using h

theorem LTM_childM : ∀ ms : List (Bytes × Cst), Impl.CstOKM true ms = true → StrFixM ms = true →
    LTM (childM ms) = true
  | [], _, _ => rfl
  | (k, v) :: ms, h1, h2 => by
    simp only [Impl.CstOKM, Bool.and_eq_true] at h1
    simp only [StrFixM, Bool.and_eq_true] at h2
    simp only [childM, LTM, Bool.and_eq_true]
    exact ⟨⟨h1.1.1.2, LT_childOf ((RawOK_iff v).2 ⟨h1.1.2, h2.1⟩)⟩, LTM_childM ms h1.2 h2.2⟩

theorem LTL_map_childOf : ∀ xs : List Cst, Impl.CstOKL true xs = true → StrFixL xs = true →
    LTL (xs.map childOf) = true
  | [], _, _ => rfl
  | x :: xs, h1, h2 => by
    simp only [Impl.CstOKL, Bool.and_eq_true] at h1
    simp only [StrFixL, Bool.and_eq_true] at h2
    simp only [List.map_cons, LTL, Bool.and_eq_true]
    exact ⟨LT_childOf ((RawOK_iff x).2 ⟨h1.1, h2.1⟩), LTL_map_childOf xs h1.2 h2.2⟩

theorem Inv_decodeDoc {ms : List (Bytes × Cst)} (h : Inv (.raw (.obj ms))) : Inv (decodeDoc ms) := by
  rw [Inv_raw, RawOK_iff] at h
  obtain ⟨h1, h2, h3⟩ := h
  refine ⟨WF_decodeDoc ms h1, ?_⟩
  simp only [Cst.valueOf, noDup, Bool.and_eq_true] at h1
  simp only [Impl.CstOK] at h2
  simp only [StrFix] at h3
  simp only [decodeDoc, LT]
  rw [decodeMembers_eq ms h1.1]
  exact LTM_childM ms h2 h3

theorem Inv_decodeAry {xs : List Cst} (h : Inv (.raw (.arr xs))) : Inv (decodeAry xs) := by
  rw [Inv_raw, RawOK_iff] at h
  obtain ⟨h1, h2, h3⟩ := h
  refine ⟨WF_decodeAry xs h1, ?_⟩
  simp only [Impl.CstOK] at h2
  simp only [StrFix] at h3
  simp only [decodeAry, LT]
  exact LTL_map_childOf xs h2 h3

/-- entering a child: succeeds exactly on containers, keeps the value, parses one level -/
theorem intoContainer_spec {next : Node} (h : Inv next) :
    if (den next).isContainer then
      ∃ child, intoContainer next = .ok child ∧ Inv child ∧ isDA child = true ∧ den child = den next
    else (next = .nil ∨ rawIsNil next = true ∨ (∃ e, intoContainer next = .err e) ∨
      intoContainer next = .ok .docNil) := by
  cases next with
  | nil => simp [den, isContainer, isObj, isArr]
  | rawNil => simp [den, isContainer, isObj, isArr, rawIsNil]
  | docNil => have := h.1; simp [WF] at this
  | raw c =>
    cases c with
    | lit s =>
      have : (den (.raw (.lit s))).isContainer = false := by
        simp only [den, Cst.valueOf, Impl.litValue_isContainer_false]
      rw [this]
      simp only [Bool.false_eq_true, if_false]
      refine Or.inr (Or.inr ?_)
      simp only [intoContainer, rawIsArray, Cst.isArr, Bool.false_eq_true, if_false, intoDoc]
      split
      · exact Or.inr rfl
      · exact Or.inl ⟨_, rfl⟩
    | str b =>
      simp [den, Cst.valueOf, isContainer, isObj, isArr, intoContainer, rawIsArray, Cst.isArr, intoDoc,
        Cst.isNullLit]
    | arr xs =>
      have : (den (.raw (.arr xs))).isContainer = true := by
        simp [den, Cst.valueOf, isContainer, isArr]
      rw [this]
      simp only [if_true]
      refine ⟨decodeAry xs, by simp [intoContainer, rawIsArray, Cst.isArr, intoAry], Inv_decodeAry h,
        by simp [decodeAry, isDA], ?_⟩
      rw [den_decodeAry]; simp only [den]
    | obj ms =>
      have : (den (.raw (.obj ms))).isContainer = true := by
        simp [den, Cst.valueOf, isContainer, isObj]
      rw [this]
      simp only [if_true]
      have h1 : noDup (Cst.valueOf (.obj ms)) = true := by simpa [WF] using h.1
      refine ⟨decodeDoc ms, by simp [intoContainer, rawIsArray, Cst.isArr, intoDoc], Inv_decodeDoc h,
        by simp [decodeDoc, isDA], ?_⟩
      rw [den_decodeDoc ms h1]; simp only [den]
  | doc ob =>
    have : (den (.doc ob)).isContainer = true := by simp [den, isContainer, isObj]
    rw [this]
    simp only [if_true]
    exact ⟨.doc ob, by simp [intoContainer, rawIsArray, intoDoc], h, rfl, rfl⟩
  | ary ns =>
    have : (den (.ary ns)).isContainer = true := by simp [den, isContainer, isArr]
    rw [this]
    simp only [if_true]
    exact ⟨.ary ns, by simp [intoContainer, rawIsArray, intoAry], h, rfl, rfl⟩

/-! ### 7. nullness -/

theorem isNull_iff (v : Value) : v.isNull = true ↔ v = .null := by
  cases v <;> simp [isNull]

theorem isNullN_den (n : Node) (h : WF n = true) : isNullN n = (den n).isNull := by
  cases n with
  | nil => rfl
  | rawNil => rfl
  | docNil => simp [WF] at h
  | doc ob => rfl
  | ary ns => rfl
  | raw c =>
    simp only [isNullN, den]
    cases hc : c.isNullLit with
    | true => rw [(isNullLit_valueOf c).1 hc]; rfl
    | false =>
      cases hv : c.valueOf.isNull with
      | false => rfl
      | true =>
        rw [(isNullLit_valueOf c).2 ((isNull_iff _).1 hv)] at hc
        cases hc

end Legacy
end JP
