import JP.Lemmas.EscInv
import JP.Lemmas.TextQuote

/-!
# `htmlEscapes` and `rawLineSeps`: scanning lemmas

* fuel independence and one-step equations for `hE`;
* `Cpl a` — the text `a` ends outside an escape sequence: `hE (a ++ b) = hE a ++ hE b` for every
  continuation `b`; valid string bodies and backslash-free texts are complete;
* `rawLineSeps` is monotone under prefixes and suffixes, and ignores ASCII bytes.
-/

namespace JP
namespace Impl

/-- the HTML-class code points -/
def cls (v : Nat) : Prop := v = 0x3c ∨ v = 0x3e ∨ v = 0x26 ∨ v = 0x2028 ∨ v = 0x2029

instance (v : Nat) : Decidable (cls v) := by unfold cls; infer_instance

/-! ### `htmlEscapes`: unfolding -/

theorem hEf_nil (f : Nat) : htmlEscapes f [] = [] := by
  cases f <;> rfl

theorem hEf_plain (f : Nat) (c : UInt8) (cs : Bytes) (h : c ≠ 92) :
    htmlEscapes (f + 1) (c :: cs) = htmlEscapes f cs := by
  simp only [htmlEscapes, h, if_false]

theorem hEf_bs_nil (f : Nat) : htmlEscapes (f + 1) [92] = [] := by
  simp only [htmlEscapes, if_true]

theorem hEf_bs_other (f : Nat) (e : UInt8) (rest : Bytes) (h : e ≠ 117) :
    htmlEscapes (f + 1) (92 :: e :: rest) = htmlEscapes f rest := by
  simp only [htmlEscapes, if_true]

theorem hEf_bs_u (f : Nat) (rest : Bytes) :
    htmlEscapes (f + 1) (92 :: 117 :: rest) =
      match hex4 rest with
      | some v => if cls v then v :: htmlEscapes f (rest.drop 4) else htmlEscapes f (rest.drop 4)
      | none => htmlEscapes f rest := by
  simp only [htmlEscapes, if_true, cls]
  cases hex4 rest <;> rfl

theorem htmlEscapes_fuel : ∀ (f g : Nat) (x : Bytes), x.length < f → x.length < g →
    htmlEscapes f x = htmlEscapes g x := by
  intro f
  induction f with
  | zero => intro g x h; omega
  | succ f ih =>
    intro g x h1 h2
    cases g with
    | zero => omega
    | succ g =>
      cases x with
      | nil => rfl
      | cons c cs =>
        simp only [List.length_cons] at h1 h2
        by_cases hc : c = 92
        · subst hc
          cases cs with
          | nil => rw [hEf_bs_nil, hEf_bs_nil]
          | cons e rest =>
            simp only [List.length_cons] at h1 h2
            by_cases he : e = 117
            · subst he
              rw [hEf_bs_u, hEf_bs_u]
              have e1 := ih g (rest.drop 4) (by simp only [List.length_drop]; omega)
                (by simp only [List.length_drop]; omega)
              have e2 := ih g rest (by omega) (by omega)
              rw [e1, e2]
            · rw [hEf_bs_other _ _ _ he, hEf_bs_other _ _ _ he]
              exact ih g rest (by omega) (by omega)
        · rw [hEf_plain _ _ _ hc, hEf_plain _ _ _ hc]
          exact ih g cs (by omega) (by omega)

theorem hE_eq (f : Nat) (x : Bytes) (h : x.length < f) : htmlEscapes f x = hE x :=
  htmlEscapes_fuel f _ x h (by omega)

theorem hE_nil : hE [] = [] := rfl

theorem hE_plain (c : UInt8) (cs : Bytes) (h : c ≠ 92) : hE (c :: cs) = hE cs := by
  unfold hE
  rw [List.length_cons, hEf_plain _ _ _ h]

theorem hE_bs_other (e : UInt8) (rest : Bytes) (h : e ≠ 117) : hE (92 :: e :: rest) = hE rest := by
  unfold hE
  rw [List.length_cons, hEf_bs_other _ _ _ h]
  exact hE_eq _ _ (by simp only [List.length_cons]; omega)

theorem hE_bs_u (rest : Bytes) :
    hE (92 :: 117 :: rest) =
      match hex4 rest with
      | some v => if cls v then v :: hE (rest.drop 4) else hE (rest.drop 4)
      | none => hE rest := by
  unfold hE
  rw [List.length_cons, hEf_bs_u]
  have e1 := hE_eq ((117 :: rest).length + 1) (rest.drop 4) (by simp only [List.length_drop, List.length_cons]; omega)
  have e2 := hE_eq ((117 :: rest).length + 1) rest (by simp only [List.length_cons]; omega)
  rw [e1, e2]
  rfl

theorem hE_u4 (h1 h2 h3 h4 : UInt8) (rest : Bytes) (v : Nat) (hv : hex4 [h1, h2, h3, h4] = some v) :
    hE (92 :: 117 :: h1 :: h2 :: h3 :: h4 :: rest) = if cls v then v :: hE rest else hE rest := by
  rw [hE_bs_u, hex4_cons4, hv]
  rfl

/-! ### complete texts -/

/-- `a` ends outside an escape sequence -/
def Cpl (a : Bytes) : Prop := ∀ b, hE (a ++ b) = hE a ++ hE b

theorem Cpl_nil : Cpl [] := fun b => by simp [hE_nil]

theorem Cpl_plain {c : UInt8} {a : Bytes} (hc : c ≠ 92) (h : Cpl a) : Cpl (c :: a) := by
  intro b
  rw [List.cons_append, hE_plain _ _ hc, hE_plain _ _ hc, h b]

theorem Cpl_bs_other {e : UInt8} {a : Bytes} (he : e ≠ 117) (h : Cpl a) : Cpl (92 :: e :: a) := by
  intro b
  simp only [List.cons_append]
  rw [hE_bs_other _ _ he, hE_bs_other _ _ he, h b]

theorem Cpl_u4 {h1 h2 h3 h4 : UInt8} {a : Bytes} {v : Nat} (hv : hex4 [h1, h2, h3, h4] = some v) (h : Cpl a) :
    Cpl (92 :: 117 :: h1 :: h2 :: h3 :: h4 :: a) := by
  intro b
  simp only [List.cons_append]
  rw [hE_u4 _ _ _ _ _ v hv, hE_u4 _ _ _ _ _ v hv, h b]
  split <;> simp

theorem Cpl_append {a b : Bytes} (ha : Cpl a) (hb : Cpl b) : Cpl (a ++ b) := by
  intro c
  rw [List.append_assoc, ha, hb, ha, List.append_assoc]

theorem Cpl_noBS : ∀ (a : Bytes), (∀ c ∈ a, c ≠ 92) → Cpl a ∧ hE a = []
  | [], _ => ⟨Cpl_nil, rfl⟩
  | c :: a, h => by
    have hc := h c (by simp)
    obtain ⟨h1, h2⟩ := Cpl_noBS a (fun x hx => h x (by simp [hx]))
    exact ⟨Cpl_plain hc h1, by rw [hE_plain _ _ hc, h2]⟩

theorem hE_append {a b : Bytes} (ha : Cpl a) : hE (a ++ b) = hE a ++ hE b := ha b

/-- valid string bodies are complete -/
theorem Cpl_VB : ∀ (n : Nat) (b : Bytes), b.length ≤ n → VB b → Cpl b := by
  intro n
  induction n with
  | zero =>
    intro b hb _
    have : b = [] := List.length_eq_zero_iff.1 (by omega)
    subst this; exact Cpl_nil
  | succ n ih =>
    intro b hb hv
    rcases VB_cases b hv with rfl | ⟨c, rest, rfl, h92, _, _, hr⟩ | ⟨e, rest, rfl, hs, hr⟩ |
      ⟨h1, h2, h3, h4, rest, rfl, a1, a2, a3, a4, hr⟩
    · exact Cpl_nil
    · exact Cpl_plain h92 (ih rest (by simp only [List.length_cons] at hb; omega) hr)
    · exact Cpl_bs_other (simpleEsc_plain e hs).2 (ih rest (by simp only [List.length_cons] at hb; omega) hr)
    · obtain ⟨v, hv'⟩ := hex4_isSome h1 h2 h3 h4 a1 a2 a3 a4
      exact Cpl_u4 hv' (ih rest (by simp only [List.length_cons] at hb; omega) hr)

theorem Cpl_validBody {b : Bytes} (h : validBody b = true) : Cpl b :=
  Cpl_VB _ b (Nat.le_refl _) ((validBody_eq_true_iff b).1 h)

/-! ### `rawLineSeps` -/

theorem rawLineSeps_cons (c : UInt8) (cs : Bytes) :
    rawLineSeps (c :: cs) =
      (if c = 0xE2 ∧ cs.take 2 = [0x80, 0xA8] then [0x2028]
       else if c = 0xE2 ∧ cs.take 2 = [0x80, 0xA9] then [0x2029] else []) ++ rawLineSeps cs := rfl

theorem rawLineSeps_ne (c : UInt8) (cs : Bytes) (h : c ≠ 0xE2) : rawLineSeps (c :: cs) = rawLineSeps cs := by
  rw [rawLineSeps_cons]
  simp [h]

theorem rawLineSeps_ascii : ∀ (a b : Bytes), (∀ c ∈ a, c ≠ 0xE2) → rawLineSeps (a ++ b) = rawLineSeps b
  | [], _, _ => rfl
  | c :: a, b, h => by
    rw [List.cons_append, rawLineSeps_ne _ _ (h c (by simp)), rawLineSeps_ascii a b (fun x hx => h x (by simp [hx]))]

theorem rawLineSeps_suffix (a b : Bytes) : ∀ v ∈ rawLineSeps b, v ∈ rawLineSeps (a ++ b) := by
  induction a with
  | nil => intro v hv; exact hv
  | cons c a ih =>
    intro v hv
    rw [List.cons_append, rawLineSeps_cons]
    exact List.mem_append_right _ (ih v hv)

theorem take2_prefix (a b : Bytes) (x y : UInt8) (h : a.take 2 = [x, y]) : (a ++ b).take 2 = [x, y] := by
  rcases a with _ | ⟨p, _ | ⟨q, t⟩⟩ <;> simp_all

theorem rawLineSeps_prefix (a b : Bytes) : ∀ v ∈ rawLineSeps a, v ∈ rawLineSeps (a ++ b) := by
  induction a with
  | nil => intro v hv; simp [rawLineSeps] at hv
  | cons c a ih =>
    intro v hv
    rw [rawLineSeps_cons] at hv
    rw [List.cons_append, rawLineSeps_cons]
    rcases List.mem_append.1 hv with h | h
    · apply List.mem_append_left
      by_cases h1 : c = 0xE2 ∧ a.take 2 = [0x80, 0xA8]
      · rw [if_pos h1] at h
        rw [if_pos ⟨h1.1, take2_prefix a b _ _ h1.2⟩]; exact h
      · rw [if_neg h1] at h
        by_cases h2 : c = 0xE2 ∧ a.take 2 = [0x80, 0xA9]
        · rw [if_pos h2] at h
          have h2' : c = 0xE2 ∧ (a ++ b).take 2 = [0x80, 0xA9] := ⟨h2.1, take2_prefix a b _ _ h2.2⟩
          have h1' : ¬ (c = 0xE2 ∧ (a ++ b).take 2 = [0x80, 0xA8]) := by
            rintro ⟨_, h3⟩; rw [h2'.2] at h3; simp at h3
          rw [if_neg h1', if_pos h2']; exact h
        · rw [if_neg h2] at h; simp at h
    · exact List.mem_append_right _ (ih v h)

theorem rawLineSeps_drop (n : Nat) (l : Bytes) : ∀ v ∈ rawLineSeps (l.drop n), v ∈ rawLineSeps l := by
  intro v hv
  have := rawLineSeps_suffix (l.take n) (l.drop n) v hv
  rwa [List.take_append_drop] at this

end Impl
end JP
