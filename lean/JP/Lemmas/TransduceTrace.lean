import JP.Lemmas.ScanStep

/-!
# The token trace of a scan, and the loops of `compact` / `Indent` as folds over it

`ftr s bs`: the (byte, opcode) pairs the scanner produces on `bs` from configuration `s`,
without the skipped white space (`scanSkipSpace`), up to the first error.  `Indent` and
`compact` without escaping only look at these pairs.
-/

namespace JP
namespace Scanner

abbrev Tok := UInt8 × Nat

def ftr : Scan → Bytes → List Tok
  | _, [] => []
  | s, c :: cs =>
    if (step s c).2 = scanError then []
    else if (step s c).2 = scanSkipSpace then ftr (step s c).1 cs
    else (c, (step s c).2) :: ftr (step s c).1 cs

@[simp] theorem ftr_nil (s : Scan) : ftr s [] = [] := rfl

theorem ftr_step {s s' : Scan} {c : UInt8} {op : Nat} (h : step s c = (s', op)) (h1 : op ≠ scanError)
    (h2 : op ≠ scanSkipSpace) (cs : Bytes) : ftr s (c :: cs) = (c, op) :: ftr s' cs := by
  simp only [ftr, h, h1, h2, if_false]

theorem ftr_skip {s s' : Scan} {c : UInt8} (h : step s c = (s', scanSkipSpace)) (cs : Bytes) :
    ftr s (c :: cs) = ftr s' cs := by
  simp only [ftr, h, if_true]
  rw [if_neg (by decide)]

theorem ftr_congr {s s' : Scan} (bs : Bytes) (h1 : ∀ c cs, bs = c :: cs → step s c = step s' c) :
    ftr s bs = ftr s' bs := by
  cases bs with
  | nil => rfl
  | cons c cs => simp only [ftr, h1 c cs rfl]

theorem ftr_skipWs {s : Scan} (h : ∀ c, isWs c = true → step s c = (s, scanSkipSpace)) (bs : Bytes) :
    ftr s bs = ftr s (skipWs bs) := by
  induction bs with
  | nil => rfl
  | cons c cs ih =>
    simp only [skipWs]
    split
    · rename_i hc
      rw [ftr_skip (h c hc)]; exact ih
    · rfl

theorem ftr_afterClose (stk : List Nat) (bs : Bytes) : ftr (afterClose stk) bs = ftr (ev stk) bs := by
  cases stk with
  | nil =>
    simp only [afterClose, List.isEmpty_nil, if_true]
    exact (ftr_congr bs (fun c _ _ => step_ev_nil c)).symm
  | cons p stk => rfl

/-- trailing white space after the top-level value: every byte gets `scanEnd` -/
theorem ftr_topS_ws (ws : Bytes) (h : ∀ b ∈ ws, isWs b = true) : ftr topS ws = ws.map (·, scanEnd) := by
  induction ws with
  | nil => rfl
  | cons c cs ih =>
    rw [ftr_step (step_topS_ws c (h c (List.mem_cons_self ..))) (by decide) (by decide)]
    rw [ih (fun b hb => h b (List.mem_cons_of_mem _ hb))]
    rfl

theorem ftr_ev_nil_ws (ws : Bytes) (h : ∀ b ∈ ws, isWs b = true) : ftr (ev []) ws = ws.map (·, scanEnd) := by
  rw [← ftr_topS_ws ws h]
  exact ftr_congr ws (fun c _ _ => step_ev_nil c)

theorem skipWs_nil_iff (ws : Bytes) : skipWs ws = [] ↔ ∀ b ∈ ws, isWs b = true := by
  induction ws with
  | nil => simp [skipWs]
  | cons c cs ih =>
    simp only [skipWs]
    by_cases hc : isWs c = true
    · simp only [hc, if_true, ih, List.mem_cons, forall_eq_or_imp, true_and]
    · simp only [hc, Bool.false_eq_true, if_false, List.mem_cons, forall_eq_or_imp, false_and]
      simp

/-! ### `compact` without escaping -/

/-- the bytes `compact` keeps: those whose opcode is below `scanSkipSpace` -/
def emitC : List Tok → Bytes
  | [] => []
  | (c, op) :: t => if op ≥ scanSkipSpace then emitC t else c :: emitC t

theorem emitC_append (a b : List Tok) : emitC (a ++ b) = emitC a ++ emitC b := by
  induction a with
  | nil => rfl
  | cons x a ih =>
    obtain ⟨c, op⟩ := x
    simp only [List.cons_append, emitC]
    split <;> simp [ih]

theorem compactEmit_false (c : UInt8) (cs : Bytes) : compactEmit false c cs = ([c], 0) := by
  simp [compactEmit]

theorem compactLoop_false_snd (s : Scan) (bs out : Bytes) :
    (compactLoop false s 0 bs out).2 = (emitC (ftr s bs)).reverse ++ out := by
  induction bs generalizing s out with
  | nil => rfl
  | cons c cs ih =>
    simp only [compactLoop, ftr, compactEmit_false, Nat.lt_irrefl, if_false]
    by_cases he : (step s c).2 = scanError
    · simp [he, emitC]
    · simp only [he, if_false]
      by_cases hs : (step s c).2 = scanSkipSpace
      · simp only [hs, if_true, ge_iff_le, Nat.le_refl]
        exact ih _ _
      · simp only [hs, if_false, emitC]
        by_cases hge : (step s c).2 ≥ scanSkipSpace
        · simp only [hge, if_true]; exact ih _ _
        · simp only [hge, if_false]
          rw [ih]
          simp

/-! ### `Indent` -/

/-- the loop of `Indent` on the token trace -/
def foldI (ind : Bytes) : Bool → Nat → Bytes → List Tok → Bytes
  | _, _, out, [] => out
  | need, depth, out, (c, v) :: t =>
    let (need1, depth1, out1) : Bool × Nat × Bytes :=
      if need && v ≠ scanEndObject && v ≠ scanEndArray then
        (false, depth + 1, (newline ind (depth + 1)).reverse ++ out)
      else (need, depth, out)
    if v = scanContinue then foldI ind need1 depth1 (c :: out1) t
    else if c = 123 ∨ c = 91 then foldI ind true depth1 (c :: out1) t
    else if c = 44 then foldI ind need1 depth1 ((newline ind depth1).reverse ++ c :: out1) t
    else if c = 58 then foldI ind need1 depth1 (32 :: c :: out1) t
    else if c = 125 ∨ c = 93 then
      if need1 then foldI ind false depth1 (c :: out1) t
      else foldI ind need1 (depth1 - 1) (c :: (newline ind (depth1 - 1)).reverse ++ out1) t
    else foldI ind need1 depth1 (c :: out1) t

theorem indentLoop_snd (ind : Bytes) (s : Scan) (need : Bool) (depth : Nat) (bs out : Bytes) :
    (indentLoop ind s need depth bs out).2 = foldI ind need depth out (ftr s bs) := by
  induction bs generalizing s need depth out with
  | nil => rfl
  | cons c cs ih =>
    simp only [indentLoop, ftr]
    by_cases hs : (step s c).2 = scanSkipSpace
    · simp only [hs, if_true]
      rw [if_neg (by decide)]
      exact ih _ _ _ _
    · simp only [hs, if_false]
      by_cases he : (step s c).2 = scanError
      · simp only [he, if_true]; rfl
      · simp only [he, if_false, foldI]
        repeat' split
        all_goals exact ih _ _ _ _

end Scanner
end JP
