import JP.Lemmas.FloatParse
import JP.Lemmas.TypedLeaf

/-!
# Integers below `2 ^ (mantBits + 1)` are read exactly
-/

namespace JP
namespace Codec
namespace Float

open JP.Codec.Typed (decimal decGo)

/-! ## `decimal n` denotes `n` -/

theorem digitsNat_append_one (d : Bytes) (c : UInt8) :
    digitsNat (d ++ [c]) = digitsNat d * 10 + (c.toNat - 48) := by
  simp [digitsNat, List.foldl_append]

theorem digitsNat_append_acc (d acc : Bytes) :
    digitsNat (d ++ acc) = acc.foldl (fun a c => a * 10 + (c.toNat - 48)) (digitsNat d) := by
  simp [digitsNat, List.foldl_append]

theorem ofNat_digit_val (n : Nat) (h : n < 10) : (UInt8.ofNat (48 + n)).toNat - 48 = n := by
  simp only [UInt8.toNat_ofNat']
  omega

theorem decGo_val : ∀ (fuel n : Nat) (acc : Bytes) (k : Nat), n < fuel → n < 10 ^ (k + 1) →
    ∃ d, decGo fuel n acc = d ++ acc ∧ digitsNat d = n ∧ d.length ≤ k + 1 := by
  intro fuel
  induction fuel with
  | zero => intro n acc k h; omega
  | succ fuel ih =>
    intro n acc k h hk
    rw [decGo.eq_def]
    simp only
    by_cases hn : n < 10
    · rw [if_pos hn]
      refine ⟨[UInt8.ofNat (48 + n)], rfl, ?_, by simp⟩
      simp only [digitsNat, List.foldl_cons, List.foldl_nil, Nat.zero_mul, Nat.zero_add]
      exact ofNat_digit_val n hn
    · rw [if_neg hn]
      have hlt : n / 10 < fuel := by omega
      cases k with
      | zero => simp at hk; omega
      | succ k =>
        have hk' : n / 10 < 10 ^ (k + 1) := by
          rw [Nat.pow_succ] at hk
          omega
        obtain ⟨d, hd, hv, hl⟩ := ih (n / 10) (UInt8.ofNat (48 + n % 10) :: acc) k hlt hk'
        refine ⟨d ++ [UInt8.ofNat (48 + n % 10)], ?_, ?_, ?_⟩
        · rw [hd]; simp
        · rw [digitsNat_append_one, hv, ofNat_digit_val _ (by omega)]
          omega
        · simp only [List.length_append, List.length_cons, List.length_nil]
          omega

theorem digitsNat_decimal (n : Nat) : digitsNat (decimal n) = n := by
  have hk : n < 10 ^ (n + 1) := by
    have h1 : n + 1 < 10 ^ (n + 1) := Nat.lt_pow_self (by omega)
    omega
  obtain ⟨d, hd, hv, _⟩ := decGo_val (n + 1) n [] n (Nat.lt_succ_self n) hk
  simp only [List.append_nil] at hd
  rw [decimal, hd]; exact hv

theorem decimal_length_le (n k : Nat) (h : n < 10 ^ (k + 1)) : (decimal n).length ≤ k + 1 := by
  obtain ⟨d, hd, _, hl⟩ := decGo_val (n + 1) n [] k (Nat.lt_succ_self n) h
  simp only [List.append_nil] at hd
  rw [decimal, hd]; exact hl

/-! ## reading a digit string -/

theorem splitE_digits : ∀ d : Bytes, d.all isDigit = true → splitE d = (d, none)
  | [], _ => rfl
  | c :: cs, h => by
    simp only [List.all_cons, Bool.and_eq_true] at h
    have hc : ¬ (c = 101 ∨ c = 69) := by
      rintro (rfl | rfl) <;> exact absurd h.1 (by decide)
    simp [splitE, hc, splitE_digits cs h.2]

theorem splitDot_digits : ∀ d : Bytes, d.all isDigit = true → splitDot d = (d, none)
  | [], _ => rfl
  | c :: cs, h => by
    simp only [List.all_cons, Bool.and_eq_true] at h
    have hc : ¬ (c = 46) := by
      rintro rfl; exact absurd h.1 (by decide)
    simp [splitDot, hc, splitDot_digits cs h.2]

theorem parseLit_digits (d : Bytes) (hd : d.all isDigit = true) (hne : d ≠ [])
    (hz : d.head? = some 48 → d = [48]) :
    parseLit d = some ⟨false, digitsNat d, 0, d.length⟩ := by
  have h45 : d.head? ≠ some 45 := by
    cases d with
    | nil => simp
    | cons c t =>
      simp only [List.all_cons, Bool.and_eq_true] at hd
      simp only [List.head?_cons, ne_eq, Option.some.injEq]
      rintro rfl; exact absurd hd.1 (by decide)
  have hint : intOk d = true := by
    simp only [intOk, allDigits, hd, Bool.and_true, Bool.and_eq_true, Bool.not_eq_true',
      Bool.or_eq_true, decide_eq_true_eq]
    refine ⟨by cases d <;> simp_all, ?_⟩
    by_cases h0 : d.head? = some 48
    · left; rw [hz h0]; rfl
    · right; simpa using h0
  simp only [parseLit, splitE_digits d hd, parseMant, h45, if_false, decide_false, Bool.false_eq_true,
    splitDot_digits d hd, hint, Bool.not_true, List.append_nil, List.length_nil]
  simp

theorem parseLit_decimal (n : Nat) : parseLit (decimal n) = some ⟨false, n, 0, (decimal n).length⟩ := by
  have h := Typed.decimal_digits n
  rw [parseLit_digits (decimal n) h.1 h.2 (Typed.decimal_no_leading_zero n), digitsNat_decimal]

/-! ## rounding an integer that fits the significand -/

theorem log2_one : Nat.log2 1 = 0 := by decide

theorem roundRat_nat (bits n : Nat) (hn0 : n ≠ 0) (hn : n < 2 ^ (mantBits bits + 1)) :
    roundRat bits n 1 =
      (bias bits + Nat.log2 n, n * 2 ^ (mantBits bits - Nat.log2 n) - 2 ^ mantBits bits, false) := by
  have hl1 : 2 ^ Nat.log2 n ≤ n := Nat.log2_self_le hn0
  have hl2 : n < 2 ^ (Nat.log2 n + 1) := Nat.lt_log2_self
  generalize hl : Nat.log2 n = l at hl1 hl2
  generalize hmb : mantBits bits = mb at hn
  have hlm : l ≤ mb := by
    have : 2 ^ l < 2 ^ (mb + 1) := Nat.lt_of_le_of_lt hl1 hn
    have := (Nat.pow_lt_pow_iff_right (a := 2) (by omega)).1 this
    omega
  -- Q = n · 2^(mb-l) ∈ [2^mb, 2^(mb+1))
  have hQ1 : 2 ^ mb ≤ n * 2 ^ (mb - l) := by
    calc 2 ^ mb = 2 ^ l * 2 ^ (mb - l) := by rw [← Nat.pow_add]; congr 1; omega
      _ ≤ n * 2 ^ (mb - l) := Nat.mul_le_mul_right _ hl1
  have hQ2 : n * 2 ^ (mb - l) < 2 ^ (mb + 1) := by
    calc n * 2 ^ (mb - l) < 2 ^ (l + 1) * 2 ^ (mb - l) :=
          Nat.mul_lt_mul_of_pos_right hl2 (Nat.pos_of_ne_zero (by simp))
      _ = 2 ^ (mb + 1) := by rw [← Nat.pow_add]; congr 1; omega
  have hbias : 2 ≤ bias bits ∧ mb + bias bits < expMax bits := by
    rw [← hmb]; unfold bias mantBits expMax expBits
    by_cases hb : bits = 32 <;> simp [hb]
  -- the scaled fraction
  have hsc : (scaled n 1 ((l : Int) - (mb : Int))).2 = 1 ∧
      (scaled n 1 ((l : Int) - (mb : Int))).1 = n * 2 ^ (mb - l) := by
    unfold scaled
    by_cases hq : (l : Int) - (mb : Int) ≥ 0
    · have : l = mb := by omega
      subst this
      simp
    · rw [if_neg hq]
      have : (-((l : Int) - (mb : Int))).toNat = mb - l := by omega
      simp [this]
  have hpick : pickQ bits n 1 = (l : Int) - (mb : Int) := by
    unfold pickQ
    simp only [hl, log2_one, hmb, Int.natCast_zero, Int.sub_zero]
    have hq : ¬ ((l : Int) - (mb : Int) ≤ 1 - ((bias bits + mb : Nat) : Int)) := by
      have := hbias.1
      omega
    rw [if_neg hq]
    simp only [hsc.1, hsc.2, Nat.div_one]
    rw [if_neg (by omega)]
  unfold roundRat
  simp only [hpick, hmb, hsc.1, hsc.2, Nat.div_one, Nat.mod_one, Nat.mul_zero]
  have hne : ¬ (n * 2 ^ (mb - l) = 2 ^ (mb + 1)) := by omega
  simp only [Nat.not_lt_zero, decide_false, Bool.false_or, Nat.zero_ne_one, Bool.false_and,
    Bool.false_eq_true, if_false, hne]
  rw [if_neg (by omega)]
  have he : ((l : Int) - (mb : Int) - (1 - ((bias bits + mb : Nat) : Int))).toNat + 1 = bias bits + l := by
    omega
  rw [he, if_neg (by have := hbias.2; omega)]

end Float
end Codec
end JP

namespace JP
namespace Codec
namespace Float

open JP.Codec.Typed (decimal)

theorem pow_mant_le (bits : Nat) : 2 ^ (mantBits bits + 1) ≤ 10 ^ 17 := by
  unfold mantBits
  by_cases hb : bits = 32 <;> simp [hb]

theorem roundDec_nat (bits n : Nat) (hn : n < 2 ^ (mantBits bits + 1)) :
    roundDec bits n 0 = ((FP.ofNat bits n).exp, (FP.ofNat bits n).mant, false) := by
  unfold roundDec FP.ofNat
  by_cases h0 : n = 0
  · simp [h0]
  · have hlen : numDigits n ≤ 17 :=
      decimal_length_le n 16 (Nat.lt_of_lt_of_le hn (pow_mant_le bits))
    rw [if_neg h0, if_neg h0]
    simp only
    rw [if_neg (by omega), if_neg (by omega), if_pos (by omega)]
    simp only [Int.toNat_zero, Nat.pow_zero, Nat.mul_one]
    exact roundRat_nat bits n h0 hn

theorem parseFloat_decimal (bits n : Nat) (hn : n < 2 ^ (mantBits bits + 1)) :
    parseFloat bits (decimal n) = some (FP.ofNat bits n, false) := by
  unfold parseFloat
  rw [parseLit_decimal]
  simp only [roundDec_nat bits n hn]
  unfold FP.ofNat
  by_cases h0 : n = 0 <;> simp [h0]

end Float
end Codec
end JP
