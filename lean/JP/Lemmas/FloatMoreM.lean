import JP.Lemmas.FloatMoreO
import JP.Lemmas.FloatTotalA
import JP.Lemmas.FloatTotalR

/-!
# `roundRat` is monotone

The result of `roundRat` — the overflow answer `(expMax, 0, true)` included, which `ulps` reads as `2^(emax+1)` —
is measured in units `2^qmin` (`resUlps`); `N₁/D₁ ≤ N₂/D₂ ⇒ resUlps (roundRat N₁ D₁) ≤ resUlps (roundRat N₂ D₂)`.
Proof: both results are nearest among all floats (`roundRat_nearest`); were they in the wrong order, both values
would be the midpoint of the two results, hence equal, and `roundRat` sees the value only (`roundRat_scale`).
Overflow is handled by the threshold (`roundRat_overflow_iff`).
-/

namespace JP
namespace Codec
namespace Float

/-- the result fields of `roundRat` in units of `2^qmin` -/
def resUlps (bits : Nat) (r : Nat × Nat × Bool) : Nat := ulps bits ⟨false, r.1, r.2.1⟩

/-- two well-formed floats with the same number of units have the same fields -/
theorem ulps_inj (bits : Nat) (y x : FP) (hy : y.wf bits = true) (hx : x.wf bits = true)
    (h : ulps bits y = ulps bits x) : y.exp = x.exp ∧ y.mant = x.mant := by
  have hbias : 1 ≤ bias bits := by unfold bias; split <;> omega
  apply fields_unique bits y x hy hx (1 - ((bias bits + mantBits bits : Nat) : Int))
  · unfold FP.qexp; split <;> omega
  · unfold FP.qexp; split <;> omega
  · unfold ulps at h
    have e1 : (y.qexp bits - (1 - ((bias bits + mantBits bits : Nat) : Int))).toNat
        = (if y.exp = 0 then 1 else y.exp) - 1 := by
      unfold FP.qexp; split <;> omega
    have e2 : (x.qexp bits - (1 - ((bias bits + mantBits bits : Nat) : Int))).toNat
        = (if x.exp = 0 then 1 else x.exp) - 1 := by
      unfold FP.qexp; split <;> omega
    rw [e1, e2]; exact h

/-- a well-formed finite float is below `2^(emax+1)` -/
theorem ulps_lt_inf (bits : Nat) (x : FP) (hx : x.wf bits = true) (hfin : x.exp < expMax bits) :
    ulps bits x < ulps bits ⟨false, expMax bits, 0⟩ := by
  obtain ⟨c1, c2, c3, c4, c5, c6, c7⟩ := fmt_consts bits
  unfold FP.wf at hx
  simp only [Bool.and_eq_true, decide_eq_true_eq] at hx
  unfold ulps FP.sig
  simp only
  rw [if_neg (by omega : ¬ expMax bits = 0), if_neg (by omega : ¬ expMax bits = 0), Nat.add_zero]
  generalize hex : (if x.exp = 0 then 1 else x.exp) = ex
  have hex1 : ex - 1 + 1 ≤ expMax bits - 1 := by rw [← hex]; split <;> omega
  have hs : (if x.exp = 0 then x.mant else 2 ^ mantBits bits + x.mant) < 2 * 2 ^ mantBits bits := by
    split <;> omega
  have hp : 2 ^ (ex - 1 + 1) ≤ 2 ^ (expMax bits - 1) := Nat.pow_le_pow_right (by omega) hex1
  rw [Nat.pow_succ] at hp
  have hpos : 0 < 2 ^ (ex - 1) := two_pow_pos _
  generalize (if x.exp = 0 then x.mant else 2 ^ mantBits bits + x.mant) = s at *
  generalize 2 ^ (ex - 1) = T at *
  generalize 2 ^ (expMax bits - 1) = U at *
  generalize 2 ^ mantBits bits = P at *
  have e1 : s * T < 2 * P * T := Nat.mul_lt_mul_of_pos_right hs hpos
  have e2 : P * (T * 2) ≤ P * U := Nat.mul_le_mul_left _ hp
  grind

/-- what `roundRat` returns: the overflow answer, or a well-formed finite float without error -/
theorem roundRat_shape (bits N D : Nat) (hN : 0 < N) (hD : 0 < D) :
    roundRat bits N D = (expMax bits, 0, true) ∨
      ((roundRat bits N D).2.2 = false ∧
        (FP.mk false (roundRat bits N D).1 (roundRat bits N D).2.1).wf bits = true ∧
        (roundRat bits N D).1 < expMax bits) := by
  obtain ⟨S, q, a, b, _, _, _, _, _, _, _, _, hres⟩ := roundRat_spec bits N D hN hD
  rcases hres with ⟨h, _, _⟩ | ⟨h1, h2, h3, _, _⟩
  · left; exact h
  · right; exact ⟨h1, h2, h3⟩

/-- equal values are rounded alike -/
theorem roundRat_congr (bits N₁ D₁ N₂ D₂ : Nat) (hN₁ : 0 < N₁) (hD₁ : 0 < D₁) (hN₂ : 0 < N₂) (hD₂ : 0 < D₂)
    (h : N₁ * D₂ = N₂ * D₁) : roundRat bits N₁ D₁ = roundRat bits N₂ D₂ := by
  rw [← roundRat_scale bits N₁ D₁ D₂ hN₁ hD₁ hD₂, ← roundRat_scale bits N₂ D₂ D₁ hN₂ hD₂ hD₁, h,
    Nat.mul_comm D₁ D₂]

theorem adiff_mid (A p q : Nat) (hlt : q < p) (h : adiff A p ≤ adiff A q) : p + q ≤ 2 * A := by
  unfold adiff at h; omega

theorem adiff_mid' (A p q : Nat) (hlt : q < p) (h : adiff A q ≤ adiff A p) : 2 * A ≤ p + q := by
  unfold adiff at h; omega

/-- MONOTONICITY of rounding: a larger value is never rounded to a smaller float -/
theorem roundRat_mono (bits N₁ D₁ N₂ D₂ : Nat) (hN₁ : 0 < N₁) (hD₁ : 0 < D₁) (hN₂ : 0 < N₂) (hD₂ : 0 < D₂)
    (h : N₁ * D₂ ≤ N₂ * D₁) :
    resUlps bits (roundRat bits N₁ D₁) ≤ resUlps bits (roundRat bits N₂ D₂) := by
  rcases roundRat_shape bits N₂ D₂ hN₂ hD₂ with h2 | ⟨h2e, h2w, h2f⟩
  · rw [h2]
    rcases roundRat_shape bits N₁ D₁ hN₁ hD₁ with h1 | ⟨_, h1w, h1f⟩
    · rw [h1]; exact Nat.le_refl _
    · exact Nat.le_of_lt (ulps_lt_inf bits _ h1w h1f)
  · rcases roundRat_shape bits N₁ D₁ hN₁ hD₁ with h1 | ⟨h1e, h1w, h1f⟩
    · -- the smaller value overflows: so does the larger one
      exfalso
      have ho1 : overflowThr bits * D₁ ≤ N₁ := (roundRat_overflow_iff bits N₁ D₁ hN₁ hD₁).1 (by rw [h1])
      have ho2 : ¬ overflowThr bits * D₂ ≤ N₂ := by
        intro hc
        have := (roundRat_overflow_iff bits N₂ D₂ hN₂ hD₂).2 hc
        rw [h2e] at this; simp at this
      apply ho2
      apply Nat.le_of_mul_le_mul_right _ hD₁
      have e1 : overflowThr bits * D₁ * D₂ ≤ N₁ * D₂ := Nat.mul_le_mul_right _ ho1
      have e2 : overflowThr bits * D₂ * D₁ = overflowThr bits * D₁ * D₂ := by ac_rfl
      omega
    · apply Nat.le_of_not_lt
      intro hlt
      unfold resUlps at hlt
      have n1 := roundRat_nearest bits N₁ D₁ hN₁ hD₁ h1e _ h2w
      have n2 := roundRat_nearest bits N₂ D₂ hN₂ hD₂ h2e _ h1w
      generalize hu₁ : ulps bits ⟨false, (roundRat bits N₁ D₁).1, (roundRat bits N₁ D₁).2.1⟩ = u₁ at *
      generalize hu₂ : ulps bits ⟨false, (roundRat bits N₂ D₂).1, (roundRat bits N₂ D₂).2.1⟩ = u₂ at *
      have m1 := adiff_mid _ _ _ (Nat.mul_lt_mul_of_pos_right hlt hD₁) n1
      have m2 := adiff_mid' _ _ _ (Nat.mul_lt_mul_of_pos_right hlt hD₂) n2
      have hK : 0 < 2 ^ (bias bits + mantBits bits - 1) := two_pow_pos _
      generalize 2 ^ (bias bits + mantBits bits - 1) = K at *
      -- (u₁+u₂)·D₁ ≤ 2·N₁·K and 2·N₂·K ≤ (u₁+u₂)·D₂
      have a1 : (u₁ * D₁ + u₂ * D₁) * D₂ ≤ 2 * (N₁ * K) * D₂ := Nat.mul_le_mul_right _ m1
      have a2 : 2 * (N₂ * K) * D₁ ≤ (u₁ * D₂ + u₂ * D₂) * D₁ := Nat.mul_le_mul_right _ m2
      have a3 : N₁ * D₂ * K ≤ N₂ * D₁ * K := Nat.mul_le_mul_right _ h
      have heq : N₁ * D₂ * K = N₂ * D₁ * K := by grind
      have heq' : N₁ * D₂ = N₂ * D₁ := Nat.eq_of_mul_eq_mul_right hK heq
      have := roundRat_congr bits N₁ D₁ N₂ D₂ hN₁ hD₁ hN₂ hD₂ heq'
      rw [this, hu₂] at hu₁
      omega

/-- the set of values rounded to one float is an interval -/
theorem roundRat_between (bits N₁ D₁ N₂ D₂ N₃ D₃ : Nat) (hN₁ : 0 < N₁) (hD₁ : 0 < D₁) (hN₂ : 0 < N₂)
    (hD₂ : 0 < D₂) (hN₃ : 0 < N₃) (hD₃ : 0 < D₃) (h12 : N₁ * D₂ ≤ N₂ * D₁) (h23 : N₂ * D₃ ≤ N₃ * D₂)
    (heq : roundRat bits N₁ D₁ = roundRat bits N₃ D₃) :
    roundRat bits N₂ D₂ = roundRat bits N₁ D₁ := by
  have m1 := roundRat_mono bits N₁ D₁ N₂ D₂ hN₁ hD₁ hN₂ hD₂ h12
  have m2 := roundRat_mono bits N₂ D₂ N₃ D₃ hN₂ hD₂ hN₃ hD₃ h23
  rw [← heq] at m2
  have hu : resUlps bits (roundRat bits N₂ D₂) = resUlps bits (roundRat bits N₁ D₁) := Nat.le_antisymm m2 m1
  rcases roundRat_shape bits N₂ D₂ hN₂ hD₂ with h2 | ⟨h2e, h2w, h2f⟩ <;>
    rcases roundRat_shape bits N₁ D₁ hN₁ hD₁ with h1 | ⟨h1e, h1w, h1f⟩
  · rw [h1, h2]
  · exfalso
    have := ulps_lt_inf bits _ h1w h1f
    rw [h2] at hu
    unfold resUlps at hu
    simp only at hu
    omega
  · exfalso
    have := ulps_lt_inf bits _ h2w h2f
    rw [h1] at hu
    unfold resUlps at hu
    simp only at hu
    omega
  · obtain ⟨he, hm⟩ := ulps_inj bits _ _ h2w h1w hu
    simp only at he hm
    exact Prod.ext he (Prod.ext hm (by rw [h2e, h1e]))

end Float
end Codec
end JP
