import JP.Lemmas.EqualBasic

/-!
# `Value.eqv` is reflexive and symmetric on duplicate-free values, and transitive
-/

namespace JP
namespace Value

mutual
theorem eqv_refl_E : ∀ (v : Value), noDup v = true → eqv v v = true
  | .null, _ => by simp [eqv]
  | .bool b, _ => by simp [eqv]
  | .num l, _ => by simp [eqv]
  | .str s, _ => by simp [eqv]
  | .arr xs, h => by
    simp only [noDup] at h
    simp only [eqv]; exact eqvL_refl xs h
  | .obj ms, h => by
    simp only [noDup, Bool.and_eq_true] at h
    simp only [eqv, Bool.and_eq_true]
    refine ⟨eqvM_sub ms ms h.2 ?_, (subKeys_iff_E ms ms).mpr (fun k hk => hk)⟩
    intro k v hm
    exact lookup_of_mem_nodup k v ms ((nodupKeys_iff _).mp h.1) hm
theorem eqvL_refl : ∀ (xs : List Value), noDupL xs = true → eqvL xs xs = true
  | [], _ => rfl
  | x :: xs, h => by
    simp only [noDupL, Bool.and_eq_true] at h
    simp only [eqvL, Bool.and_eq_true]
    exact ⟨eqv_refl_E x h.1, eqvL_refl xs h.2⟩
theorem eqvM_sub : ∀ (xs ys : Members), noDupM xs = true →
    (∀ k v, (k, v) ∈ xs → lookup k ys = some v) → eqvM xs ys = true
  | [], _, _, _ => rfl
  | (k, v) :: xs, ys, h, hl => by
    simp only [noDupM, Bool.and_eq_true] at h
    simp only [eqvM, Bool.and_eq_true]
    rw [hl k v (by simp)]
    exact ⟨eqv_refl_E v h.1, eqvM_sub xs ys h.2 (fun k' v' hm => hl k' v' (List.mem_cons_of_mem _ hm))⟩
end


theorem eqvM_iff_E : ∀ (xs ys : Members), eqvM xs ys = true ↔
    ∀ k v, (k, v) ∈ xs → ∃ w, lookup k ys = some w ∧ eqv v w = true
  | [], ys => by simp [eqvM]
  | (k0, v0) :: xs, ys => by
    simp only [eqvM, Bool.and_eq_true, eqvM_iff_E xs ys, List.mem_cons]
    constructor
    · intro ⟨h1, h2⟩ k v hm
      cases hm with
      | inl e =>
        cases e
        cases hl : lookup k0 ys with
        | none => simp [hl] at h1
        | some w => exact ⟨w, rfl, by simpa [hl] using h1⟩
      | inr hm => exact h2 k v hm
    · intro h
      refine ⟨?_, fun k v hm => h k v (Or.inr hm)⟩
      obtain ⟨w, hl, he⟩ := h k0 v0 (Or.inl rfl)
      simp [hl, he]

theorem noDup_of_mem (k : Bytes) (w : Value) : ∀ (ys : Members), noDupM ys = true → (k, w) ∈ ys → noDup w = true
  | [], _, hm => by simp at hm
  | (k', w') :: ys, h, hm => by
    simp only [noDupM, Bool.and_eq_true] at h
    cases List.mem_cons.mp hm with
    | inl e => cases e; exact h.1
    | inr hm => exact noDup_of_mem k w ys h.2 hm

mutual
theorem eqv_symm' : ∀ (a b : Value), noDup a = true → noDup b = true → eqv a b = true → eqv b a = true
  | .null, b, _, _, h => by cases b <;> simp [eqv] at h ⊢
  | .bool x, b, _, _, h => by cases b <;> simp [eqv] at h ⊢; exact h.symm
  | .num x, b, _, _, h => by cases b <;> simp [eqv] at h ⊢; exact h.symm
  | .str x, b, _, _, h => by cases b <;> simp [eqv] at h ⊢; exact h.symm
  | .arr xs, b, ha, hb, h => by
    cases b with
    | arr ys =>
      simp only [noDup] at ha hb
      simp only [eqv] at h ⊢
      exact eqvL_symm' xs ys ha hb h
    | null => simp [eqv] at h
    | bool y => simp [eqv] at h
    | num y => simp [eqv] at h
    | str y => simp [eqv] at h
    | obj ys => simp [eqv] at h
  | .obj xs, b, ha, hb, h => by
    cases b with
    | obj ys =>
      simp only [noDup, Bool.and_eq_true] at ha hb
      simp only [eqv, Bool.and_eq_true] at h ⊢
      have hsub := eqvM_keys_subset xs ys h.1
      refine ⟨?_, (subKeys_iff_E xs ys).mpr hsub⟩
      rw [eqvM_iff_E]
      intro k w hm
      have hk : k ∈ xs.map Prod.fst :=
        (subKeys_iff_E ys xs).mp h.2 k (List.mem_map.mpr ⟨(k, w), hm, rfl⟩)
      cases hl : lookup k xs with
      | none => exact absurd hk ((lookup_eq_none_iff_E k xs).mp hl)
      | some v =>
        refine ⟨v, rfl, ?_⟩
        have hmx := mem_of_lookup_E k v xs hl
        obtain ⟨w', hl', he⟩ := (eqvM_iff_E xs ys).mp h.1 k v hmx
        have : lookup k ys = some w := lookup_of_mem_nodup k w ys ((nodupKeys_iff _).mp hb.1) hm
        rw [this] at hl'; cases hl'
        exact eqvM_symm_mem xs ha.2 k v hmx w (noDup_of_mem k w ys hb.2 hm) he
    | null => simp [eqv] at h
    | bool y => simp [eqv] at h
    | num y => simp [eqv] at h
    | str y => simp [eqv] at h
    | arr ys => simp [eqv] at h
theorem eqvL_symm' : ∀ (xs ys : List Value), noDupL xs = true → noDupL ys = true →
    eqvL xs ys = true → eqvL ys xs = true
  | [], ys, _, _, h => by cases ys <;> simp [eqvL] at h ⊢
  | x :: xs, ys, ha, hb, h => by
    cases ys with
    | nil => simp [eqvL] at h
    | cons y ys =>
      simp only [noDupL, Bool.and_eq_true] at ha hb
      simp only [eqvL, Bool.and_eq_true] at h ⊢
      exact ⟨eqv_symm' x y ha.1 hb.1 h.1, eqvL_symm' xs ys ha.2 hb.2 h.2⟩
theorem eqvM_symm_mem : ∀ (xs : Members), noDupM xs = true → ∀ k v, (k, v) ∈ xs →
    ∀ w, noDup w = true → eqv v w = true → eqv w v = true
  | [], _, _, _, hm, _, _, _ => by simp at hm
  | (k0, v0) :: xs, h, k, v, hm, w, hw, he => by
    simp only [noDupM, Bool.and_eq_true] at h
    cases List.mem_cons.mp hm with
    | inl e => cases e; exact eqv_symm' v0 w h.1 hw he
    | inr hm => exact eqvM_symm_mem xs h.2 k v hm w hw he
end

theorem eqv_symm_E (a b : Value) (ha : noDup a = true) (hb : noDup b = true) : eqv a b = eqv b a := by
  cases h1 : eqv a b with
  | true => exact (eqv_symm' a b ha hb h1).symm
  | false =>
    cases h2 : eqv b a with
    | false => rfl
    | true => rw [eqv_symm' b a hb ha h2] at h1; cases h1

mutual
theorem eqv_trans_E : ∀ (a b c : Value), eqv a b = true → eqv b c = true → eqv a c = true
  | .null, b, c, h1, h2 => by cases b <;> simp [eqv] at h1; exact h2
  | .bool x, b, c, h1, h2 => by cases b <;> simp [eqv] at h1; subst h1; exact h2
  | .num x, b, c, h1, h2 => by cases b <;> simp [eqv] at h1; subst h1; exact h2
  | .str x, b, c, h1, h2 => by cases b <;> simp [eqv] at h1; subst h1; exact h2
  | .arr xs, b, c, h1, h2 => by
    cases b with
    | arr ys =>
      cases c with
      | arr zs => simp only [eqv] at h1 h2 ⊢; exact eqvL_trans xs ys zs h1 h2
      | null => simp [eqv] at h2
      | bool y => simp [eqv] at h2
      | num y => simp [eqv] at h2
      | str y => simp [eqv] at h2
      | obj ys => simp [eqv] at h2
    | null => simp [eqv] at h1
    | bool y => simp [eqv] at h1
    | num y => simp [eqv] at h1
    | str y => simp [eqv] at h1
    | obj ys => simp [eqv] at h1
  | .obj xs, b, c, h1, h2 => by
    cases b with
    | obj ys =>
      cases c with
      | obj zs =>
        simp only [eqv, Bool.and_eq_true] at h1 h2 ⊢
        constructor
        · rw [eqvM_iff_E]
          intro k v hm
          obtain ⟨w, hl, he⟩ := (eqvM_iff_E xs ys).mp h1.1 k v hm
          obtain ⟨u, hl2, he2⟩ := (eqvM_iff_E ys zs).mp h2.1 k w (mem_of_lookup_E k w ys hl)
          exact ⟨u, hl2, eqvM_trans_mem xs k v hm w u he he2⟩
        · rw [subKeys_iff_E]
          intro k hk
          exact (subKeys_iff_E ys xs).mp h1.2 k ((subKeys_iff_E zs ys).mp h2.2 k hk)
      | null => simp [eqv] at h2
      | bool y => simp [eqv] at h2
      | num y => simp [eqv] at h2
      | str y => simp [eqv] at h2
      | arr ys => simp [eqv] at h2
    | null => simp [eqv] at h1
    | bool y => simp [eqv] at h1
    | num y => simp [eqv] at h1
    | str y => simp [eqv] at h1
    | arr ys => simp [eqv] at h1
theorem eqvL_trans : ∀ (xs ys zs : List Value), eqvL xs ys = true → eqvL ys zs = true → eqvL xs zs = true
  | [], ys, zs, h1, h2 => by
    cases ys with
    | nil => exact h2
    | cons y ys => simp [eqvL] at h1
  | x :: xs, ys, zs, h1, h2 => by
    cases ys with
    | nil => simp [eqvL] at h1
    | cons y ys =>
      cases zs with
      | nil => simp [eqvL] at h2
      | cons z zs =>
        simp only [eqvL, Bool.and_eq_true] at h1 h2 ⊢
        exact ⟨eqv_trans_E x y z h1.1 h2.1, eqvL_trans xs ys zs h1.2 h2.2⟩
theorem eqvM_trans_mem : ∀ (xs : Members) (k : Bytes) (v : Value), (k, v) ∈ xs →
    ∀ w u, eqv v w = true → eqv w u = true → eqv v u = true
  | [], _, _, hm, _, _, _, _ => by simp at hm
  | (k0, v0) :: xs, k, v, hm, w, u, h1, h2 => by
    cases List.mem_cons.mp hm with
    | inl e => cases e; exact eqv_trans_E v0 w u h1 h2
    | inr hm => exact eqvM_trans_mem xs k v hm w u h1 h2
end

end Value
end JP
