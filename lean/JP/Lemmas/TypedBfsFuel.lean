import JP.Lemmas.TypedFields

/-!
# The fuel of the breadth-first search of `typeFields` is enough

`bfs` models `for len(next) > 0 { … }` with fuel; `rawFields t` supplies `t.depth + 1`.  Every level
of the search queues only types strictly shallower than the ones it scans, so the queue is empty
after at most `t.depth + 1` iterations: any larger fuel gives the same list
(`bfs_fuel_irrelevant`), i.e. `rawFields t` is the list the unfuelled Go loop computes.
-/

namespace JP
namespace Codec
namespace Typed

/-! ### `depth` -/

theorem depth_deref_le (t : GoType) : t.deref.depth ≤ t.depth := by
  cases t <;> simp only [GoType.deref, GoType.depth] <;> omega

theorem depthFields_mem : ∀ (fs : List (FieldInfo × GoType)) (p : FieldInfo × GoType),
    p ∈ fs → p.2.depth ≤ depthFields fs
  | [], _, h => nomatch h
  | (sf, sft) :: rest, p, h => by
    simp only [depthFields]
    rcases List.mem_cons.1 h with rfl | h
    · exact Nat.le_max_left _ _
    · exact Nat.le_trans (depthFields_mem rest p h) (Nat.le_max_right _ _)

/-- the fields of a type of depth `≤ d` have types of depth `< d` (none if the type is not a struct) -/
theorem structFieldsOf_depth (t : GoType) (d : Nat) (h : t.depth ≤ d) :
    ∀ p ∈ structFieldsOf t, p.2.depth < d := by
  cases t with
  | struct n fs =>
    intro p hp
    simp only [structFieldsOf] at hp
    simp only [GoType.depth] at h
    have := depthFields_mem fs p hp
    omega
  | _ => intro p hp; simp only [structFieldsOf] at hp; cases hp

/-! ### what one level queues -/

theorem scanField_next_depth (count : List (GoType × Nat)) (f : Fld) (i : Nat) (sf : FieldInfo)
    (sft : GoType) (st : Scan) (d : Nat) (ht : sft.depth < d) (h : ∀ g ∈ st.next, g.typ.depth < d) :
    ∀ g ∈ (scanField count f i sf sft st).next, g.typ.depth < d := by
  intro g hg
  rcases scanField_next_mem count f i sf sft st g hg with hg | hg
  · exact h g hg
  · rw [hg]; exact Nat.lt_of_le_of_lt (depth_deref_le sft) ht

theorem scanStruct_next_depth (count : List (GoType × Nat)) (f : Fld) (d : Nat) :
    ∀ (fs : List (FieldInfo × GoType)) (i : Nat) (st : Scan), (∀ p ∈ fs, p.2.depth < d) →
      (∀ g ∈ st.next, g.typ.depth < d) → ∀ g ∈ (scanStruct count f i fs st).next, g.typ.depth < d
  | [], _, _, _, h => by simp only [scanStruct]; exact h
  | (sf, sft) :: rest, i, st, hfs, h => by
    simp only [scanStruct]
    exact scanStruct_next_depth count f d rest (i + 1) _
      (fun p hp => hfs p (List.mem_cons_of_mem _ hp))
      (scanField_next_depth count f i sf sft st d (hfs (sf, sft) List.mem_cons_self) h)

theorem scanLevel_next_depth (count : List (GoType × Nat)) (d : Nat) :
    ∀ (current : List Fld) (visited : List GoType) (st : Scan),
      (∀ f ∈ current, f.typ.depth ≤ d) → (∀ g ∈ st.next, g.typ.depth < d) →
      ∀ g ∈ (scanLevel count current visited st).2.next, g.typ.depth < d
  | [], _, _, _, h => by simp only [scanLevel]; exact h
  | f :: current, visited, st, hc, h => by
    have hc' : ∀ g ∈ current, g.typ.depth ≤ d := fun g hg => hc g (List.mem_cons_of_mem _ hg)
    simp only [scanLevel]
    split
    · exact scanLevel_next_depth count d current visited st hc' h
    · exact scanLevel_next_depth count d current _ _ hc'
        (scanStruct_next_depth count f d _ 0 st
          (structFieldsOf_depth _ d (hc f List.mem_cons_self)) h)

/-! ### `bfs` -/

/-- an empty queue ends the loop, whatever the fuel -/
theorem bfs_nil (fuel : Nat) (nc : List (GoType × Nat)) (visited : List GoType) (fields : List Fld) :
    bfs fuel [] nc visited fields = fields := by
  cases fuel with
  | zero => simp only [bfs]
  | succ k => simp only [bfs, List.isEmpty_nil, if_true]

/-- fuel beyond the depth of the queued types changes nothing -/
theorem bfs_enough : ∀ (fuel fuel' : Nat) (next : List Fld) (nc : List (GoType × Nat))
    (visited : List GoType) (fields : List Fld) (d : Nat), (∀ f ∈ next, f.typ.depth ≤ d) →
    d < fuel → d < fuel' → bfs fuel next nc visited fields = bfs fuel' next nc visited fields
  | 0, _, _, _, _, _, _, _, h, _ => absurd h (Nat.not_lt_zero _)
  | _ + 1, 0, _, _, _, _, _, _, _, h => absurd h (Nat.not_lt_zero _)
  | fuel + 1, fuel' + 1, next, nc, visited, fields, d, hn, h1, h2 => by
    simp only [bfs]
    split
    · rfl
    · have hq := scanLevel_next_depth nc d next visited
        { next := [], nextCount := [], fields := fields } hn (fun _ h => (nomatch h))
      cases d with
      | zero =>
        have hnil : (scanLevel nc next visited
            { next := [], nextCount := [], fields := fields }).2.next = [] := by
          cases hl : (scanLevel nc next visited
              { next := [], nextCount := [], fields := fields }).2.next with
          | nil => rfl
          | cons g r =>
            rw [hl] at hq
            exact absurd (hq g List.mem_cons_self) (Nat.not_lt_zero _)
        rw [hnil, bfs_nil, bfs_nil]
      | succ d' =>
        exact bfs_enough fuel fuel' _ _ _ _ d'
          (fun g hg => Nat.le_of_lt_succ (hq g hg)) (Nat.lt_of_succ_lt_succ h1)
          (Nat.lt_of_succ_lt_succ h2)

/-- the fuel `t.depth + 1` of `rawFields` never cuts the search short: `rawFields t` is what the
loop `for len(next) > 0` computes -/
theorem bfs_fuel_irrelevant (t : GoType) (fuel : Nat) (h : t.depth < fuel) :
    bfs fuel [rootFld t] [] [] [] = rawFields t := by
  unfold rawFields
  refine bfs_enough fuel (t.depth + 1) _ _ _ _ t.depth ?_ h (Nat.lt_succ_self _)
  intro f hf
  simp only [List.mem_cons, List.not_mem_nil, or_false] at hf
  rw [hf]
  exact Nat.le_refl _

/-- after the search of `rawFields` the queue is empty: one more iteration would not run.  Stated on
`bfs`: with `t.depth + 1 + k` units the result is that of `t.depth + 1` -/
theorem rawFields_fixpoint (t : GoType) (k : Nat) :
    bfs (t.depth + 1 + k) [rootFld t] [] [] [] = rawFields t :=
  bfs_fuel_irrelevant t _ (by omega)

end Typed
end Codec
end JP

#print axioms JP.Codec.Typed.bfs_enough
#print axioms JP.Codec.Typed.bfs_fuel_irrelevant
#print axioms JP.Codec.Typed.rawFields_fixpoint

/-
Output of the `#print axioms` commands above (Lean 4.33, `lake build JP.Lemmas.TypedBfsFuel`):

'JP.Codec.Typed.bfs_enough' depends on axioms: [propext, Classical.choice, Quot.sound]
'JP.Codec.Typed.bfs_fuel_irrelevant' depends on axioms: [propext, Classical.choice, Quot.sound]
'JP.Codec.Typed.rawFields_fixpoint' depends on axioms: [propext, Classical.choice, Quot.sound]
-/
