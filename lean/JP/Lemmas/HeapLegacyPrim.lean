import JP.Lemmas.HeapLegacyRepr

/-!
# Legacy heap primitives refine the legacy value model: `intoDoc`, `intoAry`, `intoContainer`
-/

namespace JP
namespace Heap
namespace Lg

open JP.Impl (Outcome listSet listInsert)
open JP.Legacy (Node NMembers)

/-- the result of an in-place step on the node at `a`: the same address now stands for `n'` -/
def LStep (h : Heap) (a : Nat) (f : List Nat) (h' : Heap) (n' : Node) : Prop :=
  ∃ f', LRepr h' n' (some a) f' ∧ Ext h h' f f'

theorem set_ext {h : Heap} {a : Nat} {c : Cell} {f f' : List Nat}
    (ha : a ∈ f) (sub : ∀ x ∈ f', x ∈ f ∨ h.length ≤ x) : Ext h (h.set a c) f f' := by
  have := set_after_alloc_ext (h := h) (ext := []) (c := c) ha sub
  simpa using this

theorem intoDoc_refines {h : Heap} {n : Node} {a : Nat} {f : List Nat} (r : LRepr h n (some a) f) :
    OutRel (fun h' n' => LStep h a f h' n') (intoDoc h (some a)) (Legacy.intoDoc n) := by
  have hv := LRepr.valid r
  cases n with
  | nil => simp only [LRepr] at r; cases r.1
  | rawNil =>
    simp only [LRepr] at r; obtain ⟨a', e, ha, rfl⟩ := r; cases e
    simp [intoDoc, ha, cellIntoDoc, Legacy.intoDoc]
  | raw c =>
    simp only [LRepr] at r; obtain ⟨a', e, ha, rfl⟩ := r; cases e
    have halt : a < h.length := hv a (by simp)
    simp only [intoDoc, ha]
    cases c with
    | obj ms =>
      simp only [cellIntoDoc, Legacy.intoDoc, OutRel_ok_ok, Legacy.decodeDoc]
      obtain ⟨ext, f', he, rm, fr⟩ := newMembers_spec ms h
      have hnot : a ∉ f' := by
        intro hx
        have := fr a hx
        omega
      refine ⟨a :: f', LRepr.mk_doc ?_ (LReprM.write rm _ hnot) hnot, ?_⟩
      · rw [List.getElem?_set_self]; rw [he]; simp; omega
      · rw [he]
        refine set_after_alloc_ext (by simp) (fun x hx => ?_)
        simp only [List.mem_cons] at hx
        rcases hx with rfl | hx
        · exact Or.inl (by simp)
        · exact Or.inr (fr x hx)
    | lit s =>
      simp only [cellIntoDoc, Legacy.intoDoc]
      by_cases hn : (Cst.lit s).isNullLit = true
      · simp only [hn, if_true, OutRel_ok_ok]
        refine ⟨[a], LRepr.mk_docNil ?_, set_ext (by simp) (fun x hx => Or.inl hx)⟩
        rw [List.getElem?_set_self halt]
      · simp [hn]
    | str s =>
      have hn : (Cst.str s).isNullLit = false := rfl
      simp [cellIntoDoc, Legacy.intoDoc, hn]
    | arr s =>
      have hn : (Cst.arr s).isNullLit = false := rfl
      simp [cellIntoDoc, Legacy.intoDoc, hn]
  | doc ms =>
    have r0 := r
    simp only [LRepr] at r; obtain ⟨a', ps, f0, e, ha, hm, hn, rfl⟩ := r; cases e
    simp only [intoDoc, ha, cellIntoDoc, Legacy.intoDoc, OutRel_ok_ok]
    exact ⟨_, r0, Ext.refl _ _⟩
  | ary ns =>
    simp only [LRepr] at r; obtain ⟨a', ps, f0, e, ha, hm, hn, rfl⟩ := r; cases e
    simp [intoDoc, ha, cellIntoDoc, Legacy.intoDoc]
  | docNil =>
    have r0 := r
    simp only [LRepr] at r; obtain ⟨a', e, ha, rfl⟩ := r; cases e
    simp only [intoDoc, ha, cellIntoDoc, Legacy.intoDoc, OutRel_ok_ok]
    exact ⟨_, r0, Ext.refl _ _⟩

theorem intoAry_refines {h : Heap} {n : Node} {a : Nat} {f : List Nat} (r : LRepr h n (some a) f) :
    OutRel (fun h' n' => LStep h a f h' n') (intoAry h (some a)) (Legacy.intoAry n) := by
  have hv := LRepr.valid r
  cases n with
  | nil => simp only [LRepr] at r; cases r.1
  | rawNil =>
    simp only [LRepr] at r; obtain ⟨a', e, ha, rfl⟩ := r; cases e
    simp [intoAry, ha, cellIntoAry, Legacy.intoAry]
  | raw c =>
    simp only [LRepr] at r; obtain ⟨a', e, ha, rfl⟩ := r; cases e
    simp only [intoAry, ha]
    cases c with
    | arr xs =>
      simp only [cellIntoAry, Legacy.intoAry, OutRel_ok_ok, Legacy.decodeAry]
      obtain ⟨ext, f', he, rm, fr⟩ := newChildren_spec xs h
      have halt : a < h.length := hv a (by simp)
      have hnot : a ∉ f' := by
        intro hx
        have := fr a hx
        omega
      refine ⟨a :: f', LRepr.mk_ary ?_ (LReprL.write rm _ hnot) hnot, ?_⟩
      · rw [List.getElem?_set_self]; rw [he]; simp; omega
      · rw [he]
        refine set_after_alloc_ext (by simp) (fun x hx => ?_)
        simp only [List.mem_cons] at hx
        rcases hx with rfl | hx
        · exact Or.inl (by simp)
        · exact Or.inr (fr x hx)
    | lit s => simp [cellIntoAry, Legacy.intoAry]
    | str s => simp [cellIntoAry, Legacy.intoAry]
    | obj s => simp [cellIntoAry, Legacy.intoAry]
  | ary ns =>
    have r0 := r
    simp only [LRepr] at r; obtain ⟨a', ps, f0, e, ha, hm, hn, rfl⟩ := r; cases e
    simp only [intoAry, ha, cellIntoAry, Legacy.intoAry, OutRel_ok_ok]
    exact ⟨_, r0, Ext.refl _ _⟩
  | doc ms =>
    simp only [LRepr] at r; obtain ⟨a', ps, f0, e, ha, hm, hn, rfl⟩ := r; cases e
    simp [intoAry, ha, cellIntoAry, Legacy.intoAry]
  | docNil =>
    simp only [LRepr] at r; obtain ⟨a', e, ha, rfl⟩ := r; cases e
    simp [intoAry, ha, cellIntoAry, Legacy.intoAry]

theorem ptrIsArray_eq {h : Heap} {n : Node} {a : Nat} {f : List Nat} (r : LRepr h n (some a) f) :
    ptrIsArray h (some a) = Legacy.rawIsArray n := by
  cases n with
  | nil => simp only [LRepr] at r; cases r.1
  | rawNil =>
    simp only [LRepr] at r; obtain ⟨a', e, ha, rfl⟩ := r; cases e
    simp [ptrIsArray, ha, cellIsArray, Legacy.rawIsArray]
  | raw c =>
    simp only [LRepr] at r; obtain ⟨a', e, ha, rfl⟩ := r; cases e
    simp [ptrIsArray, ha, cellIsArray, Legacy.rawIsArray]
  | doc ms =>
    simp only [LRepr] at r; obtain ⟨a', ps, f0, e, ha, hm, hn, rfl⟩ := r; cases e
    simp [ptrIsArray, ha, cellIsArray, Legacy.rawIsArray]
  | ary ns =>
    simp only [LRepr] at r; obtain ⟨a', ps, f0, e, ha, hm, hn, rfl⟩ := r; cases e
    simp [ptrIsArray, ha, cellIsArray, Legacy.rawIsArray]
  | docNil =>
    simp only [LRepr] at r; obtain ⟨a', e, ha, rfl⟩ := r; cases e
    simp [ptrIsArray, ha, cellIsArray, Legacy.rawIsArray]

theorem ptrRawIsNil_eq {h : Heap} {n : Node} {a : Nat} {f : List Nat} (r : LRepr h n (some a) f) :
    ptrRawIsNil h a = Legacy.rawIsNil n := by
  cases n with
  | nil => simp only [LRepr] at r; cases r.1
  | rawNil =>
    simp only [LRepr] at r; obtain ⟨a', e, ha, rfl⟩ := r; cases e
    simp [ptrRawIsNil, ha, cellRawIsNil, Legacy.rawIsNil]
  | raw c =>
    simp only [LRepr] at r; obtain ⟨a', e, ha, rfl⟩ := r; cases e
    simp [ptrRawIsNil, ha, cellRawIsNil, Legacy.rawIsNil]
  | doc ms =>
    simp only [LRepr] at r; obtain ⟨a', ps, f0, e, ha, hm, hn, rfl⟩ := r; cases e
    simp [ptrRawIsNil, ha, cellRawIsNil, Legacy.rawIsNil]
  | ary ns =>
    simp only [LRepr] at r; obtain ⟨a', ps, f0, e, ha, hm, hn, rfl⟩ := r; cases e
    simp [ptrRawIsNil, ha, cellRawIsNil, Legacy.rawIsNil]
  | docNil =>
    simp only [LRepr] at r; obtain ⟨a', e, ha, rfl⟩ := r; cases e
    simp [ptrRawIsNil, ha, cellRawIsNil, Legacy.rawIsNil]

/-- the descent step of `findObject` -/
theorem intoContainer_refines {h : Heap} {n : Node} {a : Nat} {f : List Nat} (r : LRepr h n (some a) f) :
    OutRel (fun h' n' => LStep h a f h' n') (intoContainer h (some a)) (Legacy.intoContainer n) := by
  unfold intoContainer Legacy.intoContainer
  rw [ptrIsArray_eq r]
  by_cases hb : Legacy.rawIsArray n = true
  · simp only [hb, if_true]; exact intoAry_refines r
  · simp only [hb]; exact intoDoc_refines r

end Lg
end Heap
end JP
