import JP.Lemmas.TypedDecPos3

set_option linter.unusedSimpArgs false
set_option linter.unusedVariables false

/-!
# The typed decoder as a function of the PARSE TREE, part 1: the tree decoder, literals

`tvalue c t cur cs`: what `d.value(v)` leaves in a target of type `t` that held `cur`, when the text of the
value parses to `c` — `TR.ok v` when the decoder goes on (possibly with a saved `UnmarshalTypeError`),
`TR.abort v` when a Go `return err` ends `Unmarshal`.  No scanner, no offsets, no fuel: a structural
recursion over the tree (`tarr`, `tmap`, `tstruct` for the three loops).  `RSem Q tv r`: the run `r` of the
model neither panicked nor ran out of fuel, its value is `tv`, and its state satisfies `Q`.
-/

namespace JP
namespace Codec
namespace TDec

open Scanner
open JP.Codec.Typed
open JP.Codec.Enc (isValidNumber)
open JP.C17 (decodable decodableF structSettable lastField)

inductive TR (α : Type) where
  | ok (a : α)
  | abort (a : α)

def TR.map {α β : Type} (f : α → β) : TR α → TR β
  | .ok a => .ok (f a)
  | .abort a => .abort (f a)

def TR.val {α : Type} : TR α → α
  | .ok a => a
  | .abort a => a

def RSem {α : Type} (Q : DState → Prop) (tv : TR α) : R α → Prop
  | .ok d v => Q d ∧ tv = .ok v
  | .abort _ v _ => tv = .abort v
  | .panic => False
  | .fuel => False

theorem RSem_map {α β : Type} (f : α → β) (Q : DState → Prop) (tv : TR α) (r : R α) (h : RSem Q tv r) :
    RSem Q (tv.map f) (R.map f r) := by
  cases r with
  | ok d v => obtain ⟨h1, h2⟩ := h; subst h2; exact ⟨h1, rfl⟩
  | abort d v e => have h2 : tv = .abort v := h; subst h2; exact rfl
  | panic => exact h
  | fuel => exact h

theorem RSem_mono {α : Type} (P Q : DState → Prop) (hPQ : ∀ d, P d → Q d) (tv : TR α) (r : R α) (h : RSem P tv r) :
    RSem Q tv r := by
  cases r with
  | ok d v => exact ⟨hPQ _ h.1, h.2⟩
  | abort d v e => exact h
  | panic => exact h
  | fuel => exact h

theorem RSem.post {α : Type} {Q : DState → Prop} {tv : TR α} {r : R α} (h : RSem Q tv r) : RPost Q r := by
  cases r with
  | ok d v => exact h.1
  | abort d v e => exact True.intro
  | panic => exact h
  | fuel => exact h

/-- the embedding used to run the (state-passing) walk `atPath` on tree results -/
def dummyD : DState := { data := [], off := 0, opcode := 0, scan := Scan.init, savedError := none, lastKeys := [] }

def TR.toR {α : Type} : TR α → R α
  | .ok a => .ok dummyD a
  | .abort a => .abort dummyD a .other

def trOf {α : Type} (dflt : α) : R α → TR α
  | .ok _ a => .ok a
  | .abort _ a _ => .abort a
  | .panic => .abort dflt
  | .fuel => .abort dflt

/-! ### `literalStore` without the decoder state -/

def tBool (item : Bytes) (bt : GoType) (bv : DV) (fromQuoted : Bool) : TR DV :=
  if fromQuoted && item ≠ ascii "true" && item ≠ ascii "false" then .ok bv
  else
    match bt with
    | .bool => .ok (.bool (item.head? = some 116))
    | .iface => .ok (.iface .bool (.bool (item.head? = some 116)))
    | _ => .ok bv

def tString (item : Bytes) (bt : GoType) (bv : DV) (fromQuoted : Bool) : TR DV :=
  match unquoteBytes item with
  | none => .abort bv
  | some s =>
    match bt with
    | .slice e =>
      if !e.isUint8 then .ok bv
      else
        (match base64Decode s with
         | none => .ok bv
         | some b => .ok (.slice (b.map fun x => .uint x.toNat) (List.replicate (s.length / 4 * 3 - b.length) (.uint 0))))
    | .string => .ok (.str s)
    | .number => if !isValidNumber s then .abort bv else .ok (.str s)
    | .iface => .ok (.iface .string (.str s))
    | _ => .ok bv

def tNumber (item : Bytes) (bt : GoType) (bv : DV) (fromQuoted : Bool) : TR DV :=
  match bt with
  | .number => .ok (.str item)
  | .iface => .ok (.iface .number (.str item))
  | .int k =>
    (match parseInt64 item with
     | some n => if k.inRange n then .ok (.int n) else .ok bv
     | none => .ok bv)
  | .uint k =>
    (match parseUint64 item with
     | some n => if k.inRange n then .ok (.uint n) else .ok bv
     | none => .ok bv)
  | _ => if fromQuoted then .abort bv else .ok bv

/-- the value part of `literalStore item t cur … fromQuoted` (`canSet` is a precondition, not an input) -/
def tlit (item : Bytes) (t : GoType) (cur : DV) (fromQuoted : Bool) : TR DV :=
  match item with
  | [] => .ok cur
  | c :: _ =>
    if c = 110 then
      if fromQuoted && item ≠ nullLiteral then .ok cur
      else if t.nilable then .ok .nil
      else .ok cur
    else if c = 116 ∨ c = 102 then TR.map (rewrap t) (tBool item (derefT t) (derefV t cur) fromQuoted)
    else if c = 34 then TR.map (rewrap t) (tString item (derefT t) (derefV t cur) fromQuoted)
    else if c ≠ 45 ∧ !isDigit c then .abort (rewrap t (derefV t cur))
    else TR.map (rewrap t) (tNumber item (derefT t) (derefV t cur) fromQuoted)

/-- `valueQuoted` + `literalStore` on a literal with text `item` -/
def tquotedLit (item : Bytes) (t : GoType) (cur : DV) : TR DV :=
  match litIfaceVal item with
  | some .null => tlit nullLiteral t cur false
  | some (.str s) => tlit s t cur true
  | _ => .ok cur

theorem storeBool_sem (Q : DState → Prop) (hQ : SaveClosed Q) (item : Bytes) (bt : GoType) (bv : DV) (fq : Bool)
    (d : DState) (hq : Q d) : RSem Q (tBool item bt bv fq) (storeBool item bt bv fq d) := by
  simp only [storeBool, tBool]
  split
  · exact ⟨hQ _ _ hq, rfl⟩
  · cases bt with
    | bool => exact ⟨hq, rfl⟩
    | iface => exact ⟨hq, rfl⟩
    | _ => cases fq <;> exact ⟨hQ _ _ hq, rfl⟩

theorem storeString_sem (Q : DState → Prop) (hQ : SaveClosed Q) (item : Bytes) (bt : GoType) (bv : DV) (fq : Bool)
    (d : DState) (hq : Q d) (hu : fq = false → (unquoteBytes item).isSome = true) :
    RSem Q (tString item bt bv fq) (storeString item bt bv fq d) := by
  simp only [storeString, tString]
  cases hub : unquoteBytes item with
  | none =>
    cases fq with
    | true => exact rfl
    | false => rw [hub] at hu; exact absurd (hu rfl) (by simp)
  | some s =>
    cases bt with
    | slice e =>
      simp only []
      split
      · exact ⟨hQ _ _ hq, rfl⟩
      · cases hb : base64Decode s with
        | none => exact ⟨hQ _ _ hq, rfl⟩
        | some b => exact ⟨hq, rfl⟩
    | string => exact ⟨hq, rfl⟩
    | number =>
      simp only []
      split
      · exact rfl
      · exact ⟨hq, rfl⟩
    | iface => exact ⟨hq, rfl⟩
    | _ => exact ⟨hQ _ _ hq, rfl⟩

theorem storeNumber_sem (Q : DState → Prop) (hQ : SaveClosed Q) (item : Bytes) (bt : GoType) (bv : DV) (fq : Bool)
    (d : DState) (hq : Q d) : RSem Q (tNumber item bt bv fq) (storeNumber item bt bv fq d) := by
  cases bt with
  | number => exact ⟨hq, rfl⟩
  | iface => exact ⟨hq, rfl⟩
  | int k =>
    simp only [storeNumber, tNumber]
    cases hp : parseInt64 item with
    | none => exact ⟨hQ _ _ hq, rfl⟩
    | some n =>
      simp only []
      split
      · exact ⟨hq, rfl⟩
      · exact ⟨hQ _ _ hq, rfl⟩
  | uint k =>
    simp only [storeNumber, tNumber]
    cases hp : parseUint64 item with
    | none => exact ⟨hQ _ _ hq, rfl⟩
    | some n =>
      simp only []
      split
      · exact ⟨hq, rfl⟩
      · exact ⟨hQ _ _ hq, rfl⟩
  | _ => cases fq <;> first | exact ⟨hQ _ _ hq, rfl⟩ | exact rfl

theorem literalStore_sem (Q : DState → Prop) (hQ : SaveClosed Q) (item : Bytes) (t : GoType) (cur : DV) (cs fq : Bool)
    (d : DState) (hq : Q d) (hcs : t.isPtr = true → cs = true) (hok : fq = false → LitOK item) :
    RSem Q (tlit item t cur fq) (literalStore item t cur cs fq d) := by
  cases item with
  | nil => exact ⟨hQ _ _ hq, rfl⟩
  | cons c rest =>
    simp only [literalStore, tlit]
    have h0 : (t.isPtr && !cs) = false := by
      cases hp : t.isPtr with
      | false => rfl
      | true => simp [hcs hp]
    simp only [h0, Bool.false_eq_true, if_false]
    split
    · split
      · exact ⟨hQ _ _ hq, rfl⟩
      · split
        · exact ⟨hq, rfl⟩
        · exact ⟨hq, rfl⟩
    · split
      · exact RSem_map _ _ _ _ (storeBool_sem Q hQ _ _ _ _ _ hq)
      · split
        · rename_i h34
          refine RSem_map _ _ _ _ (storeString_sem Q hQ _ _ _ _ _ hq ?_)
          intro hf
          exact (hok hf).2 h34
        · split
          · rename_i h110 htf h34 hnd
            cases fq with
            | true => exact rfl
            | false =>
              exfalso
              obtain ⟨hc, _⟩ := hok rfl
              rcases hc with h | h | h | h | h | h
              · exact h110 h
              · exact htf (.inl h)
              · exact htf (.inr h)
              · exact h34 h
              · exact hnd.1 h
              · simp [h] at hnd
          · exact RSem_map _ _ _ _ (storeNumber_sem Q hQ _ _ _ _ _ hq)

/-! ### `interface{}` targets: the value of the `*Interface` fast paths from the tree -/

mutual
def ifaceOfV : DView → GoVal
  | .str s => .iface .string (.str s)
  | .num l => .iface .number (.str l)
  | .bool b => .iface .bool (.bool b)
  | .null => .nil
  | .list xs => .iface (.slice .iface) (.list (ifaceOfVL xs))
  | .map ms => .iface (.map .str .iface) (.map (ifaceOfVM ms))
  | .rawText _ => .nil
  | .nilPtr => .nil
  | .nilSlice => .nil
  | .nilMap => .nil
def ifaceOfVL : List DView → List GoVal
  | [] => []
  | x :: xs => ifaceOfV x :: ifaceOfVL xs
def ifaceOfVM : DMembersG (Option Cst) → List (MapKey × GoVal)
  | [] => []
  | (k, v) :: ms => (.str k, ifaceOfV v) :: ifaceOfVM ms
end

mutual
theorem ifaceOf_view : ∀ v : DVal, ifaceOf v = ifaceOfV (view v)
  | .str s => rfl
  | .num l => rfl
  | .bool b => rfl
  | .null => rfl
  | .list xs => by simp only [ifaceOf, view, mapRaw, ifaceOfV, ifaceOfL_view xs]
  | .map ms => by simp only [ifaceOf, view, mapRaw, ifaceOfV, ifaceOfM_view ms]
  | .rawText _ => rfl
  | .nilPtr => rfl
  | .nilSlice => rfl
  | .nilMap => rfl
theorem ifaceOfL_view : ∀ xs : List DVal, ifaceOfL xs = ifaceOfVL (mapRawL parseCst xs)
  | [] => rfl
  | x :: xs => by
    simp only [ifaceOfL, mapRawL, ifaceOfVL, ifaceOfL_view xs]
    rw [ifaceOf_view x]; rfl
theorem ifaceOfM_view : ∀ ms : DMembers, ifaceOfM ms = ifaceOfVM (mapRawM parseCst ms)
  | [] => rfl
  | (k, v) :: ms => by
    simp only [ifaceOfM, mapRawM, ifaceOfVM, ifaceOfM_view ms]
    rw [ifaceOf_view v]; rfl
end

/-! ### the tree decoder -/

def litText : Cst → Bytes
  | .lit s => s
  | .str b => strText b
  | _ => []

/-- `valueQuoted` + `literalStore(…, fromQuoted)`: the target of a `,string` field -/
def tquoted (c : Cst) (t : GoType) (cur : DV) : TR DV :=
  match c with
  | .arr _ => .ok cur
  | .obj _ => .ok cur
  | c => tquotedLit (litText c) t cur

mutual
def tvalue : Cst → GoType → DV → TR DV
  | .lit s, t, cur => tlit s t cur false
  | .str b, t, cur => tlit (strText b) t cur false
  | .arr xs, t, cur =>
    match derefT t with
    | .iface => .ok (rewrap t (dvOfIface (ifaceOfV (sem (.arr xs) .any))))
    | .slice e =>
      (match tarr xs true e (sliceXs (derefV t cur)) (sliceSpare (derefV t cur)) 0 with
       | .ok r => .ok (rewrap t (finishSlice r.1 r.2.1 r.2.2))
       | .abort r => .abort (rewrap t (.slice r.1 r.2.1)))
    | .array _ e =>
      (match tarr xs false e (arrXs (derefV t cur)) [] 0 with
       | .ok r => .ok (rewrap t (finishArray e r.1 r.2.2))
       | .abort r => .abort (rewrap t (.arr r.1)))
    | _ => .ok (rewrap t (derefV t cur))
  | .obj ms, t, cur =>
    match derefT t with
    | .iface => .ok (rewrap t (dvOfIface (ifaceOfV (sem (.obj ms) .any))))
    | .map kt e =>
      (match tmap ms kt e (mapMs (derefV t cur)) with
       | .ok r => .ok (rewrap t (.map r))
       | .abort r => .abort (rewrap t (.map r)))
    | .struct n fs => TR.map (rewrap t) (tstruct ms (.struct n fs) (typeFields (.struct n fs)) (derefV t cur))
    | _ => .ok (rewrap t (derefV t cur))
/-- the `for` loop of `array` -/
def tarr : List Cst → Bool → GoType → List DV → List DV → Nat → TR (List DV × List DV × Nat)
  | [], _, _, xs, spare, i => .ok (xs, spare, i)
  | c :: cs, isSlice, e, xs, spare, i =>
    match (match (if isSlice then growSlice e xs spare i else (xs, spare)).1[i]? with
           | some x => TR.map (fun v => (if isSlice then growSlice e xs spare i else (xs, spare)).1.set i v) (tvalue c e x)
           | none => TR.ok (if isSlice then growSlice e xs spare i else (xs, spare)).1) with
    | .abort xs2 => .abort (xs2, (if isSlice then growSlice e xs spare i else (xs, spare)).2, i + 1)
    | .ok xs2 => tarr cs isSlice e xs2 (if isSlice then growSlice e xs spare i else (xs, spare)).2 (i + 1)
/-- the `for` loop of `object` on a map -/
def tmap : List (Bytes × Cst) → KeyType → GoType → List (MapKey × DV) → TR (List (MapKey × DV))
  | [], _, _, ms => .ok ms
  | (k, c) :: r, kt, e, ms =>
    match tvalue c e (zeroDV e) with
    | .abort _ => .abort ms
    | .ok v => tmap r kt e (match mapKeyOf kt (unquote k) with | some key => setKey key v ms | none => ms)
/-- the `for` loop of `object` on a struct -/
def tstruct : List (Bytes × Cst) → GoType → List Fld → DV → TR DV
  | [], _, _, cur => .ok cur
  | (k, c) :: r, t, flds, cur =>
    match (match findField flds (unquote k) with
           | none => TR.ok cur
           | some f =>
             trOf cur (atPath (fun t' cur' _ _ => TR.toR (if f.quoted then tquoted c t' cur' else tvalue c t' cur'))
               (fun _ => .ok dummyD ()) f.index t cur true dummyD)) with
    | .abort v => .abort v
    | .ok v => tstruct r t flds v
end

/-- one member into a struct, as `tstruct` does it -/
def tmember (c : Cst) (t : GoType) (flds : List Fld) (cur : DV) (key : Bytes) : TR DV :=
  match findField flds key with
  | none => TR.ok cur
  | some f =>
    trOf cur (atPath (fun t' cur' _ _ => TR.toR (if f.quoted then tquoted c t' cur' else tvalue c t' cur'))
      (fun _ => .ok dummyD ()) f.index t cur true dummyD)

theorem tstruct_cons (k : Bytes) (c : Cst) (r : List (Bytes × Cst)) (t : GoType) (flds : List Fld) (cur : DV) :
    tstruct ((k, c) :: r) t flds cur =
      (match tmember c t flds cur (unquote k) with
       | .abort v => .abort v
       | .ok v => tstruct r t flds v) := by
  simp only [tstruct, tmember]

/-- one element of an array, as `tarr` does it -/
def telem (c : Cst) (e : GoType) (xs : List DV) (i : Nat) : TR (List DV) :=
  match xs[i]? with
  | some x => TR.map (fun v => xs.set i v) (tvalue c e x)
  | none => TR.ok xs

theorem tarr_cons (c : Cst) (cs : List Cst) (isSlice : Bool) (e : GoType) (xs spare : List DV) (i : Nat) :
    tarr (c :: cs) isSlice e xs spare i =
      (match telem c e (if isSlice then growSlice e xs spare i else (xs, spare)).1 i with
       | .abort xs2 => .abort (xs2, (if isSlice then growSlice e xs spare i else (xs, spare)).2, i + 1)
       | .ok xs2 => tarr cs isSlice e xs2 (if isSlice then growSlice e xs spare i else (xs, spare)).2 (i + 1)) := by
  simp only [tarr, telem]

/-- `SetMapIndex`, or nothing when the key does not parse -/
def tentry (kt : KeyType) (key : Bytes) (v : DV) (ms : List (MapKey × DV)) : List (MapKey × DV) :=
  match mapKeyOf kt key with
  | some k => setKey k v ms
  | none => ms

theorem tmap_cons (k : Bytes) (c : Cst) (r : List (Bytes × Cst)) (kt : KeyType) (e : GoType) (ms : List (MapKey × DV)) :
    tmap ((k, c) :: r) kt e ms =
      (match tvalue c e (zeroDV e) with
       | .abort _ => .abort ms
       | .ok v => tmap r kt e (tentry kt (unquote k) v ms)) := by
  simp only [tmap, tentry]

theorem storeEntry_snd (kt : KeyType) (key : Bytes) (start : Nat) (v : DV) (ms : List (MapKey × DV)) (d : DState) :
    (storeEntry kt key start v ms d).2 = tentry kt key v ms := by
  simp only [storeEntry, tentry]
  cases mapKeyOf kt key <;> rfl

/-! ### the three consumers, with their values -/

structure ConsumesS (G : Nat) (Q : DState → Prop) (c : Cst) (D : DState) : Prop where
  val : ∀ t cur cs, Inv t cur cs → RSem Q (tvalue c t cur) (value G t cur cs D)
  skip : RSem Q (.ok ()) (valueSkip D)
  quoted : ∀ t cur cs, (t.isPtr = true → cs = true) → RSem Q (tquoted c t cur) (quotedValue t cur cs D)

theorem ConsumesS.toConsumes {G : Nat} {Q : DState → Prop} {c : Cst} {D : DState} (h : ConsumesS G Q c D) :
    Consumes G Q D :=
  ⟨fun t cur cs hi => (h.val t cur cs hi).post, h.skip.post, fun t cur cs hc => (h.quoted t cur cs hc).post⟩

theorem consumesS_lit (Q : DState → Prop) (hQ : SaveClosed Q) (G : Nat) (D D1 : DState) (c : Cst)
    (hc : (∃ s, c = .lit s) ∨ (∃ b, c = .str b))
    (hop : D.opcode = scanBeginLiteral) (hres : rescanLiteral D = .ok D1)
    (hslice : slice? D1.data D.readIndex D1.readIndex = some (litText c)) (hitem : LitOK (litText c)) (hq : Q D1) :
    ConsumesS (G + 1) Q c D := by
  have e1 : (scanBeginLiteral = scanBeginArray) = False := by decide
  have e2 : (scanBeginLiteral = scanBeginObject) = False := by decide
  have hval : ∀ t cur, tvalue c t cur = tlit (litText c) t cur false := by
    intro t cur
    rcases hc with ⟨s, rfl⟩ | ⟨b, rfl⟩ <;> simp only [tvalue, litText]
  have hquo : ∀ t cur, tquoted c t cur = tquotedLit (litText c) t cur := by
    intro t cur
    rcases hc with ⟨s, rfl⟩ | ⟨b, rfl⟩ <;> simp only [tquoted]
  refine ⟨?_, ?_, ?_⟩
  · intro t cur cs hinv
    rw [hval]
    simp only [value, hop, e1, e2, if_false, if_true, hres, hslice]
    exact literalStore_sem Q hQ _ t cur cs false D1 hq hinv.2.2 (fun _ => hitem)
  · simp only [valueSkip, hop, e1, e2, or_self, if_false, if_true, hres]
    exact ⟨hq, rfl⟩
  · intro t cur cs hcs
    rw [hquo]
    obtain ⟨v, hv⟩ := litIfaceVal_of_ok _ hitem
    have hli := literalInterface_of D D1 _ v hres hslice hv
    simp only [quotedValue, hop, e1, e2, or_self, if_false, if_true, hli, tquotedLit, hv]
    cases v with
    | null => exact literalStore_sem Q hQ _ _ _ _ _ _ hq hcs (fun _ => litOK_null)
    | str s => exact literalStore_sem Q hQ _ _ _ _ _ _ hq hcs (fun h => by cases h)
    | _ => exact ⟨hQ _ _ hq, rfl⟩

/-! ### the statement about values, and the literal cases -/

def SemV (f dd : Nat) (bs : Bytes) (c : Cst) (rest : Bytes) : Prop :=
  parseValue f dd bs = some (c, rest) →
  ∀ stk : List Nat, stk.length = dd → ValueStk stk → ∀ (pre : Bytes) (x : UInt8) (bs' : Bytes), bs = x :: bs' →
    DelimW rest →
    ∃ vt, bs = vt ++ rest ∧ StartOp (step (bv stk) x).2 ∧
      ∀ (se : Option DErr) (lk : List Bytes) (G : Nat), 3 * f ≤ G →
        ConsumesS G (PostQ (pre ++ bs) (pre ++ vt).length stk rest) c
          (atD (pre ++ bs) (pre.length + 1) (step (bv stk) x) se lk)

theorem sem_lit (bs rest : Bytes) (c : Cst) (hc : (∃ s, c = .lit s) ∨ (∃ b, c = .str b))
    (hbs : bs = litText c ++ rest) (x : UInt8) (bs' : Bytes)
    (hx : bs = x :: bs') (stk : List Nat) (X : St) (hX : step (bv stk) x = (mk X stk, scanBeginLiteral))
    (hres : ∀ (pre : Bytes) (se : Option DErr) (lk : List Bytes),
      rescanLiteral (atD (pre ++ (litText c ++ rest)) (pre.length + 1) (mk X stk, scanBeginLiteral) se lk) =
        .ok (atD (pre ++ (litText c ++ rest)) ((pre ++ litText c).length + 1) (afterLit (mk X stk) rest) se lk))
    (hitem : LitOK (litText c)) (pre : Bytes) :
    ∃ vt, bs = vt ++ rest ∧ StartOp (step (bv stk) x).2 ∧
      ∀ (se : Option DErr) (lk : List Bytes) (G : Nat), 1 ≤ G →
        ConsumesS G (PostQ (pre ++ bs) (pre ++ vt).length stk rest) c
          (atD (pre ++ bs) (pre.length + 1) (step (bv stk) x) se lk) := by
  refine ⟨litText c, hbs, by rw [hX]; exact .inl rfl, ?_⟩
  intro se lk G hG
  obtain ⟨G, rfl⟩ : ∃ G', G = G' + 1 := ⟨G - 1, by omega⟩
  rw [hX, hbs]
  have hsl : slice? (atD (pre ++ (litText c ++ rest)) ((pre ++ litText c).length + 1) (afterLit (mk X stk) rest) se lk).data
      (atD (pre ++ (litText c ++ rest)) (pre.length + 1) (mk X stk, scanBeginLiteral) se lk).readIndex
      (atD (pre ++ (litText c ++ rest)) ((pre ++ litText c).length + 1) (afterLit (mk X stk) rest) se lk).readIndex =
        some (litText c) := by
    simp only [DState.readIndex, atD_off, atD_data, Nat.add_sub_cancel, slice_mid]
  exact consumesS_lit _ (postQ_saveClosed _ _ _ _) G _ _ c hc rfl (hres pre se lk) hsl hitem
    ⟨se, lk, postV_atD _ _ stk _ rest se lk⟩

theorem sem_str (f d : Nat) (cs b rest : Bytes) (h : parseStrBody cs = some (b, rest)) :
    SemV (f + 1) d (34 :: cs) (.str b) rest := by
  intro hp stk _ _ pre x bs' hx _
  obtain ⟨hcs, hvb⟩ := parseStrBody_split cs b rest h
  have hx' := hx
  simp only [List.cons.injEq] at hx'
  obtain ⟨rfl, _⟩ := hx'
  have hdata : (34 : UInt8) :: cs = strText b ++ rest := by rw [hcs]; simp [strText]
  obtain ⟨vt, h1, h2, h3⟩ := sem_lit _ rest (.str b) (.inr ⟨b, rfl⟩) hdata 34 bs' hx stk .stateInString (step_bv_quote stk)
    (fun pre se lk => rescan_string pre b rest hvb _ _ se lk) (litOK_str b hvb) pre
  exact ⟨vt, h1, h2, fun se lk G hG => h3 se lk G (by omega)⟩

theorem sem_word (f d : Nat) (w rest : Bytes) (hw : w = ascii "true" ∨ w = ascii "false" ∨ w = ascii "null") :
    SemV (f + 1) d (w ++ rest) (.lit w) rest := by
  intro hp stk _ _ pre x bs' hx _
  have hres := fun (X : St) (pre : Bytes) (se : Option DErr) (lk : List Bytes) =>
    rescan_word pre w rest hw (mk X stk) scanBeginLiteral se lk
  have hok := litOK_word w hw
  have key : ∀ X, step (bv stk) x = (mk X stk, scanBeginLiteral) →
      ∃ vt, w ++ rest = vt ++ rest ∧ StartOp (step (bv stk) x).2 ∧
      ∀ (se : Option DErr) (lk : List Bytes) (G : Nat), 3 * (f + 1) ≤ G →
        ConsumesS G (PostQ (pre ++ (w ++ rest)) (pre ++ vt).length stk rest) (.lit w)
          (atD (pre ++ (w ++ rest)) (pre.length + 1) (step (bv stk) x) se lk) := by
    intro X hX
    obtain ⟨vt, h1, h2, h3⟩ := sem_lit _ rest (.lit w) (.inl ⟨w, rfl⟩) rfl x bs' hx stk X hX (hres X) hok pre
    exact ⟨vt, h1, h2, fun se lk G hG => h3 se lk G (by omega)⟩
  rcases hw with rfl | rfl | rfl
  · have : x = 116 := by simp [ascii] at hx; exact hx.1.symm
    subst this
    exact key _ (step_bv_t stk)
  · have : x = 102 := by simp [ascii] at hx; exact hx.1.symm
    subst this
    exact key _ (step_bv_f stk)
  · have : x = 110 := by simp [ascii] at hx; exact hx.1.symm
    subst this
    exact key _ (step_bv_n stk)

theorem sem_num (f d : Nat) (c : UInt8) (cs l rest : Bytes) (hc : c = 45 ∨ isDigit c = true)
    (hpn : parseNumber (c :: cs) = some (l, rest)) : SemV (f + 1) d (c :: cs) (.lit l) rest := by
  intro hp stk _ _ pre x bs' hx hdl
  have hx' := hx
  simp only [List.cons.injEq] at hx'
  obtain ⟨rfl, _⟩ := hx'
  obtain ⟨hsp, hself⟩ := parseNumber_prefix _ _ _ hpn
  have halpha := parseNumber_alphabet _ _ _ hpn
  obtain ⟨c', lt, hl, _⟩ := parseNumber_head l l [] hself
  subst hl
  have hcc : c' = c := by simp only [List.cons_append, List.cons.injEq] at hsp; exact hsp.1.symm
  subst hcc
  obtain ⟨X, hX⟩ := step_bv_numhead stk c' hc
  obtain ⟨vt, h1, h2, h3⟩ := sem_lit _ rest (.lit (c' :: lt)) (.inl ⟨_, rfl⟩) hsp c' bs' hx stk X hX
    (fun pre se lk => rescan_number pre c' lt rest hc (fun b hb => halpha b (List.mem_cons_of_mem _ hb))
      (delimW_numEnd rest hdl) _ _ se lk)
    (litOK_num c' lt hc) pre
  exact ⟨vt, h1, h2, fun se lk G hG => h3 se lk G (by omega)⟩

end TDec
end Codec
end JP
