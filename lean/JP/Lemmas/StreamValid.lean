import JP.Lemmas.StreamSeq
import JP.Lemmas.ScanWs

/-!
# Whatever `readValue` accepts is a well-formed JSON text

`readValue` hands `dec.buf[dec.scanp : dec.scanp+n]` to `unmarshal` WITHOUT `checkValid`.  This is
sound: when `readLoop` returns `n`, the scanner has accepted exactly those `n` bytes as a complete
top-level value (`Scanner.valid`), hence they parse (`valid_iff_parseCst`).

The proof needs an invariant of the scanner configurations met before the top-level value is
complete (`RS`): no error, `endTop` unset, not in `stateEndTop`, and the three "begin … or empty /
begin string" states only with a non-empty parse stack.
-/

namespace JP
namespace Codec
namespace Stream

open Scanner

/-- states entered right after `{`, `[` or `,` in an object: the parse stack is not empty -/
def Open (st : St) : Prop := st = .stateBeginValueOrEmpty ∨ st = .stateBeginStringOrEmpty ∨ st = .stateBeginString

/-- what a state function does to the invariant -/
def SV (s : Scan) (r : Scan × Nat) : Prop :=
  s.st ≠ .stateEndTop → (Open s.st → s.stack ≠ []) →
  r.2 ≠ scanError → r.2 ≠ scanEnd → ¬ (isClose r.2 ∧ s.stack.tail = []) →
    r.1.st ≠ .stateEndTop ∧ (Open r.1.st → r.1.stack ≠ [])

theorem sv_error (s : Scan) : SV s s.error := fun _ _ h => absurd rfl h

theorem sv_same (s : Scan) (op : Nat) : SV s (s, op) := fun h1 h2 _ _ _ => ⟨h1, h2⟩

theorem sv_goto (s : Scan) (st : St) (op : Nat) (h : st ≠ .stateEndTop) (ho : ¬ Open st) : SV s (s.goto st op) :=
  fun _ _ _ _ _ => ⟨h, fun h' => absurd h' ho⟩

theorem sv_push (s : Scan) (st : St) (p op : Nat) (h : st ≠ .stateEndTop) :
    SV s (({ s with st := st }).push p op) := by
  intro _ _ h1 _ _
  unfold Scan.push at h1 ⊢
  simp only at h1 ⊢
  split
  · exact ⟨h, fun _ => by simp⟩
  · rename_i hh; simp only [hh, if_false, Scan.error] at h1; exact absurd rfl h1

theorem pop_of_tail (s : Scan) (h : s.stack.tail ≠ []) :
    s.pop = { s with stack := s.stack.tail, st := .stateEndValue } := by
  unfold Scan.pop
  simp only
  rw [if_neg]
  intro he; exact h (List.isEmpty_iff.1 he)

theorem not_open_endValue : ¬ Open .stateEndValue := by
  intro h; rcases h with h | h | h <;> cases h

theorem sv_pop (s : Scan) (op : Nat) (h : isClose op) : SV s (s.pop, op) := by
  intro _ _ _ _ h3
  have ht : s.stack.tail ≠ [] := fun h' => h3 ⟨h, h'⟩
  rw [pop_of_tail s ht]
  exact ⟨fun h => (by cases h), fun h' => absurd h' not_open_endValue⟩

macro "sv_tac" : tactic => `(tactic| first
  | exact sv_error _
  | exact sv_goto _ _ _ (by decide) (by intro h; rcases h with h | h | h <;> cases h)
  | exact sv_same _ _
  | exact sv_pop _ _ (by decide)
  | exact sv_push _ _ _ _ (by decide))

theorem sv_stateEndTop (s : Scan) (c : UInt8) : SV s (stateEndTop s c) := by
  unfold stateEndTop; split <;> exact fun _ _ _ h => absurd rfl h

theorem sv_stateEndValue (s : Scan) (c : UInt8) : SV s (stateEndValue s c) := by
  unfold stateEndValue
  split
  · intro _ _ _ h2
    exfalso; apply h2
    unfold stateEndTop; split <;> rfl
  · rename_i ps rest hs
    repeat' split
    all_goals first | sv_tac | skip
    · -- object key, `:`
      intro _ _ _ _ _
      exact ⟨fun h => (by cases h), fun h => (by rcases h with h | h | h <;> cases h)⟩
    · -- object value, `,`
      intro _ _ _ _ _
      exact ⟨fun h => (by cases h), fun _ => (by simp)⟩

theorem sv_stateBeginValue (s : Scan) (c : UInt8) : SV s (stateBeginValue s c) := by
  unfold stateBeginValue
  repeat' split
  all_goals sv_tac

theorem sv_stateBeginString (s : Scan) (c : UInt8) : SV s (stateBeginString s c) := by
  unfold stateBeginString
  repeat' split
  all_goals sv_tac

theorem sv_state0 (s : Scan) (c : UInt8) : SV s (state0 s c) := by
  unfold state0
  repeat' split
  all_goals first | sv_tac | exact sv_stateEndValue _ _

theorem sv_stateESign (s : Scan) (c : UInt8) : SV s (stateESign s c) := by
  unfold stateESign
  split
  all_goals sv_tac

theorem sv_hexStep (s : Scan) (c : UInt8) (n : St) (hn : n ≠ .stateEndTop) (ho : ¬ Open n) : SV s (hexStep s c n) := by
  unfold hexStep
  split
  · exact sv_goto _ _ _ hn ho
  · exact sv_error _

theorem sv_expect (s : Scan) (c w : UInt8) (n : St) (hn : n ≠ .stateEndTop) (ho : ¬ Open n) : SV s (expect s c w n) := by
  unfold expect
  split
  · exact sv_goto _ _ _ hn ho
  · exact sv_error _

theorem sv_bsoe_close (s : Scan) (rest : List Nat) (p : Nat) (hs : s.stack = p :: rest) :
    SV s (stateEndValue { s with stack := parseObjectValue :: rest } 125) := by
  have he : stateEndValue { s with stack := parseObjectValue :: rest } 125 =
      (({ s with stack := parseObjectValue :: rest } : Scan).pop, scanEndObject) := by
    simp [stateEndValue, isSpace, parseObjectValue, parseObjectKey]
  rw [he]
  intro _ _ _ _ h3
  have ht : rest ≠ [] := fun h' => h3 ⟨.inl rfl, by rw [hs]; exact h'⟩
  rw [pop_of_tail _ (by simpa using ht)]
  exact ⟨fun h => (by cases h), fun h' => absurd h' not_open_endValue⟩

macro "not_open" : tactic => `(tactic| (intro h; rcases h with h | h | h <;> cases h))

theorem sv_step (s : Scan) (c : UInt8) : SV s (step s c) := by
  unfold step
  split
  all_goals first
    | exact sv_stateEndValue _ _ | exact sv_stateEndTop _ _ | exact sv_stateBeginValue _ _
    | exact sv_stateBeginString _ _ | exact sv_state0 _ _ | exact sv_stateESign _ _
    | exact sv_hexStep _ _ _ (by decide) (by not_open) | exact sv_expect _ _ _ _ (by decide) (by not_open)
    | exact sv_error _
    | skip
  · unfold stateBeginValueOrEmpty
    repeat' split
    all_goals first | sv_tac | exact sv_stateEndValue _ _ | exact sv_stateBeginValue _ _
  · unfold stateBeginStringOrEmpty
    repeat' split
    all_goals first | sv_tac | exact sv_stateBeginString _ _ | skip
    rename_i hc _ _ _ hs
    subst hc
    exact sv_bsoe_close s _ _ hs
  · unfold stateInString
    repeat' split
    all_goals sv_tac
  · unfold stateInStringEsc
    repeat' split
    all_goals sv_tac
  · unfold stateNeg
    repeat' split
    all_goals sv_tac
  · unfold state1
    split
    all_goals first | sv_tac | exact sv_state0 _ _
  · unfold stateDot
    split
    all_goals sv_tac
  · unfold stateDot0
    repeat' split
    all_goals first | sv_tac | exact sv_stateEndValue _ _
  · unfold stateE
    split
    all_goals first | sv_tac | exact sv_stateESign _ _
  · unfold stateE0
    split
    all_goals first | sv_tac | exact sv_stateEndValue _ _
  · exact fun _ _ h _ _ => absurd rfl h

/-! ### `scanEnd` is only reported when the top-level value is complete -/

/-- never `scanEnd` -/
def NE (r : Scan × Nat) : Prop := r.2 ≠ scanEnd
/-- `scanEnd` only with an empty parse stack -/
def SE (s : Scan) (r : Scan × Nat) : Prop := r.2 = scanEnd → s.stack = []

theorem ne_error (s : Scan) : NE s.error := by
  unfold NE Scan.error
  show scanError ≠ scanEnd
  decide
theorem ne_goto (s : Scan) (st : St) (op : Nat) (h : op ≠ scanEnd) : NE (s.goto st op) := h
theorem ne_pair (s : Scan) (op : Nat) (h : op ≠ scanEnd) : NE (s, op) := h
theorem ne_push (s : Scan) (p op : Nat) (h : op ≠ scanEnd) : NE (s.push p op) := by
  unfold Scan.push NE
  simp only
  split
  · exact h
  · exact ne_error _

macro "ne_tac" : tactic => `(tactic| first
  | exact ne_error _
  | exact ne_goto _ _ _ (by decide)
  | exact ne_pair _ _ (by decide)
  | exact ne_push _ _ _ (by decide))

theorem se_of_ne {s : Scan} {r : Scan × Nat} (h : NE r) : SE s r := fun he => absurd he h

theorem se_stateEndValue (s : Scan) (c : UInt8) : SE s (stateEndValue s c) := by
  unfold stateEndValue
  split
  · rename_i hs; exact fun _ => hs
  · apply se_of_ne
    repeat' split
    all_goals ne_tac

theorem ne_stateBeginValue (s : Scan) (c : UInt8) : NE (stateBeginValue s c) := by
  unfold stateBeginValue
  repeat' split
  all_goals ne_tac

theorem ne_stateBeginString (s : Scan) (c : UInt8) : NE (stateBeginString s c) := by
  unfold stateBeginString
  repeat' split
  all_goals ne_tac

theorem ne_hexStep (s : Scan) (c : UInt8) (n : St) : NE (hexStep s c n) := by
  unfold hexStep
  split
  all_goals ne_tac

theorem ne_expect (s : Scan) (c w : UInt8) (n : St) : NE (expect s c w n) := by
  unfold expect
  split
  all_goals ne_tac

theorem ne_stateESign (s : Scan) (c : UInt8) : NE (stateESign s c) := by
  unfold stateESign
  split
  all_goals ne_tac

theorem se_state0 (s : Scan) (c : UInt8) : SE s (state0 s c) := by
  unfold state0
  repeat' split
  all_goals first | exact se_of_ne (by ne_tac) | exact se_stateEndValue _ _

theorem se_state1 (s : Scan) (c : UInt8) : SE s (state1 s c) := by
  unfold state1
  split
  all_goals first | exact se_of_ne (by ne_tac) | exact se_state0 _ _

theorem se_stateDot0 (s : Scan) (c : UInt8) : SE s (stateDot0 s c) := by
  unfold stateDot0
  repeat' split
  all_goals first | exact se_of_ne (by ne_tac) | exact se_stateEndValue _ _

theorem se_stateE0 (s : Scan) (c : UInt8) : SE s (stateE0 s c) := by
  unfold stateE0
  split
  all_goals first | exact se_of_ne (by ne_tac) | exact se_stateEndValue _ _

theorem ne_stateInString (s : Scan) (c : UInt8) : NE (stateInString s c) := by
  unfold stateInString
  repeat' split
  all_goals ne_tac

theorem ne_stateInStringEsc (s : Scan) (c : UInt8) : NE (stateInStringEsc s c) := by
  unfold stateInStringEsc
  repeat' split
  all_goals ne_tac

theorem ne_stateNeg (s : Scan) (c : UInt8) : NE (stateNeg s c) := by
  unfold stateNeg
  repeat' split
  all_goals ne_tac

theorem ne_stateDot (s : Scan) (c : UInt8) : NE (stateDot s c) := by
  unfold stateDot
  split
  all_goals ne_tac

theorem ne_stateE (s : Scan) (c : UInt8) : NE (stateE s c) := by
  unfold stateE
  split
  all_goals first | ne_tac | exact ne_stateESign _ _

theorem se_bvoe (s : Scan) (c : UInt8) : SE s (stateBeginValueOrEmpty s c) := by
  unfold stateBeginValueOrEmpty
  repeat' split
  all_goals first | exact se_of_ne (by ne_tac) | exact se_stateEndValue _ _ | exact se_of_ne (ne_stateBeginValue _ _)

theorem ne_bsoe (s : Scan) (c : UInt8) : NE (stateBeginStringOrEmpty s c) := by
  unfold stateBeginStringOrEmpty
  repeat' split
  all_goals first | ne_tac | exact ne_stateBeginString _ _ | skip
  rename_i rest _
  intro he
  have := se_stateEndValue _ _ he
  cases this

/-- the end-of-value states of the scanner -/
def EndLike (st : St) : Prop :=
  st = .stateEndValue ∨ st = .state1 ∨ st = .state0 ∨ st = .stateDot0 ∨ st = .stateE0

theorem eof_endLike (s : Scan) (hl : Live s) (hst : EndLike s.st) (hs : s.stack = []) : eof s = true := by
  obtain ⟨st, stack, endTop, err⟩ := s
  obtain ⟨h1, h2⟩ := hl
  simp only at h1 h2 hs hst
  subst h1 h2 hs
  rcases hst with rfl | rfl | rfl | rfl | rfl <;> rfl

/-- before the top-level value is complete, `scanEnd` on ANY byte means that the value is complete at the end
of input as well -/
theorem end_eof (s : Scan) (c : UInt8) (hl : Live s) (h1 : s.st ≠ .stateEndTop) (h2 : Open s.st → s.stack ≠ [])
    (he : (step s c).2 = scanEnd) : eof s = true := by
  unfold step at he
  split at he
  all_goals first
    | exact absurd he (ne_stateBeginValue _ _)
    | exact absurd he (ne_stateBeginString _ _)
    | exact absurd he (ne_bsoe _ _)
    | exact absurd he (ne_stateInString _ _)
    | exact absurd he (ne_stateInStringEsc _ _)
    | exact absurd he (ne_hexStep _ _ _)
    | exact absurd he (ne_stateNeg _ _)
    | exact absurd he (ne_stateDot _ _)
    | exact absurd he (ne_stateE _ _)
    | exact absurd he (ne_stateESign _ _)
    | exact absurd he (ne_expect _ _ _ _)
    | skip
  · rename_i hst
    exact absurd (se_bvoe s c he) (h2 (.inl hst))
  · rename_i hst
    exact eof_endLike s hl (.inl hst) (se_stateEndValue s c he)
  · rename_i hst; exact absurd hst h1
  · rename_i hst
    exact eof_endLike s hl (.inr (.inl hst)) (se_state1 s c he)
  · rename_i hst
    exact eof_endLike s hl (.inr (.inr (.inl hst))) (se_state0 s c he)
  · rename_i hst
    exact eof_endLike s hl (.inr (.inr (.inr (.inl hst)))) (se_stateDot0 s c he)
  · rename_i hst
    exact eof_endLike s hl (.inr (.inr (.inr (.inr hst)))) (se_stateE0 s c he)
  · exact absurd he (show scanError ≠ scanEnd by decide)

/-! ### the bytes `readLoop` accepts are a valid text -/

/-- the scanner configurations `readLoop` is in before the value is complete -/
def RS (s : Scan) : Prop := Live s ∧ s.st ≠ .stateEndTop ∧ (Open s.st → s.stack ≠ [])

theorem rs_init : RS Scan.init :=
  ⟨⟨rfl, rfl⟩, fun h => (by cases h), fun h => (by rcases h with h | h | h <;> cases h)⟩

theorem rs_ev (p : Nat) (t : List Nat) : RS (ev (p :: t)) :=
  ⟨live_mk _ _, fun h => (by cases h), fun h => (by rcases h with h | h | h <;> cases h)⟩

theorem readLoop_valid (all : Bytes) : ∀ (rest : Bytes) (s : Scan) (n0 n : Nat), RS s →
    readLoop all s rest n0 = .ok n →
    ∃ k, n = n0 + k ∧ k ≤ rest.length ∧ validFrom s (rest.take k) = true := by
  intro rest
  induction rest with
  | nil =>
    intro s n0 n hrs h
    simp only [readLoop] at h
    split at h
    · rename_i he
      simp only [ReadRes.ok.injEq] at h
      exact ⟨0, by omega, Nat.le_refl _, end_eof s 32 hrs.1 hrs.2.1 hrs.2.2 he⟩
    · split at h <;> cases h
  | cons c cs ih =>
    intro s n0 n hrs h
    simp only [readLoop] at h
    by_cases hend : (step s c).2 = scanEnd
    · simp only [hend, if_true, ReadRes.ok.injEq] at h
      exact ⟨0, by omega, Nat.zero_le _, end_eof s c hrs.1 hrs.2.1 hrs.2.2 hend⟩
    · simp only [hend, if_false] at h
      by_cases hcl : (step s c).2 = scanEndObject ∨ (step s c).2 = scanEndArray
      · have hne : (step s c).2 ≠ scanError := by
          rcases hcl with h' | h' <;> rw [h'] <;> decide
        obtain ⟨_, _, h3, _⟩ := step_shape s c hrs.1 hne hend
        have hs1 := h3 hcl
        simp only [hcl, if_true] at h
        cases htl : s.stack.tail with
        | nil =>
          rw [htl] at hs1
          have hs2 : (step s c).1 = topS := hs1
          rw [hs2, stateEndValue_topS_space] at h
          simp only [if_true, ReadRes.ok.injEq] at h
          refine ⟨1, by omega, by simp, ?_⟩
          simp only [List.take_succ_cons, List.take_zero]
          rw [validFrom_cons, if_neg hne, hs2]
          rfl
        | cons p t =>
          rw [htl] at hs1
          have hs2 : (step s c).1 = ev (p :: t) := hs1
          rw [hs2, stateEndValue_ev_cons_space] at h
          simp only [show scanSkipSpace ≠ scanEnd from by decide, if_false] at h
          obtain ⟨k, hk, hle, hv⟩ := ih (ev (p :: t)) (n0 + 1) n (rs_ev p t) h
          refine ⟨k + 1, by omega, by simp only [List.length_cons]; omega, ?_⟩
          simp only [List.take_succ_cons]
          rw [validFrom_cons, if_neg hne, hs2]
          exact hv
      · simp only [hcl, if_false] at h
        by_cases herr : (step s c).2 = scanError
        · simp only [herr, if_true] at h; cases h
        · simp only [herr, if_false] at h
          obtain ⟨_, h2, _, h4⟩ := step_shape s c hrs.1 herr hend
          have hsv := sv_step s c hrs.2.1 hrs.2.2 herr hend (fun hh => hcl hh.1)
          have hrs' : RS (step s c).1 := ⟨⟨h4 hcl, h2⟩, hsv.1, hsv.2⟩
          obtain ⟨k, hk, hle, hv⟩ := ih (step s c).1 (n0 + 1) n hrs' h
          refine ⟨k + 1, by omega, by simp only [List.length_cons]; omega, ?_⟩
          simp only [List.take_succ_cons]
          rw [validFrom_cons, if_neg herr]
          exact hv

/-- **`readValue` validates what it returns**: when it returns `n`, the first `n` bytes of the input are a
well-formed JSON text -/
theorem readValue_ok_parses (D : Dec) (D' : Dec) (n : Nat) (h : readValue D = (D', .ok n)) :
    D' = D ∧ n ≤ D.rest.length ∧ ∃ c, parseCst (D.rest.take n) = some c := by
  unfold readValue at h
  split at h
  · rename_i m hm
    simp only [Prod.mk.injEq, ReadRes.ok.injEq] at h
    obtain ⟨k, hk, hle, hv⟩ := readLoop_valid D.rest D.rest Scan.init 0 m rs_init hm
    have hkm : k = n := by omega
    subst hkm
    refine ⟨h.1.symm, hle, ?_⟩
    have hvalid : Scanner.valid (D.rest.take k) = true := hv
    rw [valid_iff_parseCst] at hvalid
    exact Option.isSome_iff_exists.1 hvalid
  · simp only [Prod.mk.injEq] at h
    cases h.2

end Stream
end Codec
end JP
