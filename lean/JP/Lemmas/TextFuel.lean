import JP.Text
import JP.Check

/-!
# Fuel-free unfolding equations for the fuelled text routines
-/

namespace JP

/-! ### escBody -/

theorem escGo_fuel : ∀ (f1 f2 : Nat) (b : Bytes), b.length < f1 → b.length < f2 → escGo f1 b = escGo f2 b := by
  intro f1
  induction f1 with
  | zero => intro f2 b h; omega
  | succ f1 ih =>
    intro f2 b h1 h2
    cases f2 with
    | zero => omega
    | succ f2 =>
      cases b with
      | nil => simp only [escGo]
      | cons c rest =>
        simp only [List.length_cons] at h1 h2
        simp only [escGo]
        have e1 : escGo f1 rest = escGo f2 rest := ih f2 rest (by omega) (by omega)
        have e2 : escGo f1 (rest.drop 2) = escGo f2 (rest.drop 2) :=
          ih f2 _ (by simp only [List.length_drop]; omega) (by simp only [List.length_drop]; omega)
        rw [e1, e2]

theorem escBody_nil : escBody [] = [] := rfl

theorem escBody_cons (c : UInt8) (rest : Bytes) :
    escBody (c :: rest) =
      if c = 60 ∨ c = 62 ∨ c = 38 then
        92 :: 117 :: 48 :: 48 :: hexLower (c.toNat / 16) :: hexLower (c.toNat % 16) :: escBody rest
      else if c = 0xE2 ∧ rest.take 2 = [0x80, 0xA8] then ascii "\\u2028" ++ escBody (rest.drop 2)
      else if c = 0xE2 ∧ rest.take 2 = [0x80, 0xA9] then ascii "\\u2029" ++ escBody (rest.drop 2)
      else c :: escBody rest := by
  simp only [escBody, List.length_cons, escGo]
  have e1 : escGo (rest.length + 1) rest = escGo (rest.length + 1) rest := rfl
  have e2 : escGo (rest.length + 1) (rest.drop 2) = escGo ((rest.drop 2).length + 1) (rest.drop 2) :=
    escGo_fuel _ _ _ (by simp only [List.length_drop]; omega) (by omega)
  rw [e2]

/-! ### decodeRune sizes, unquoteBody -/

theorem decodeRune_size_pos (c : UInt8) (rest : Bytes) : 1 ≤ (decodeRune (c :: rest)).2 := by
  unfold decodeRune
  simp only
  repeat' split
  all_goals simp

theorem decodeRune_size_le (b : Bytes) : (decodeRune b).2 ≤ 4 := by
  unfold decodeRune
  split
  · simp
  · simp only
    repeat' split
    all_goals simp

theorem unquoteGo_fuel : ∀ (f1 f2 : Nat) (b : Bytes), b.length < f1 → b.length < f2 → unquoteGo f1 b = unquoteGo f2 b := by
  intro f1
  induction f1 with
  | zero => intro f2 b h; omega
  | succ f1 ih =>
    intro f2 b h1 h2
    cases f2 with
    | zero => omega
    | succ f2 =>
      cases b with
      | nil => simp only [unquoteGo]
      | cons c rest =>
        simp only [List.length_cons] at h1 h2
        have hsz := decodeRune_size_pos c rest
        have e0 : unquoteGo f1 rest = unquoteGo f2 rest := ih f2 _ (by omega) (by omega)
        have e4 : unquoteGo f1 (List.drop (decodeRune (c :: rest)).snd (c :: rest))
            = unquoteGo f2 (List.drop (decodeRune (c :: rest)).snd (c :: rest)) :=
          ih f2 _ (by simp only [List.length_drop, List.length_cons]; omega)
            (by simp only [List.length_drop, List.length_cons]; omega)
        cases rest with
        | nil => simp only [unquoteGo, e0, e4]
        | cons e rest' =>
          simp only [List.length_cons] at h1 h2
          have e1 : unquoteGo f1 rest' = unquoteGo f2 rest' := ih f2 _ (by omega) (by omega)
          have e2 : unquoteGo f1 (rest'.drop 4) = unquoteGo f2 (rest'.drop 4) :=
            ih f2 _ (by simp only [List.length_drop]; omega) (by simp only [List.length_drop]; omega)
          have e3 : unquoteGo f1 ((rest'.drop 4).drop 6) = unquoteGo f2 ((rest'.drop 4).drop 6) :=
            ih f2 _ (by simp only [List.length_drop]; omega) (by simp only [List.length_drop]; omega)
          simp only [unquoteGo, e0, e1, e2, e3, e4]

theorem unquoteGo_eq_body (f : Nat) (b : Bytes) (h : b.length < f) : unquoteGo f b = unquoteBody b :=
  unquoteGo_fuel _ _ _ h (by omega)

theorem unquoteBody_nil : unquoteBody [] = some [] := rfl

theorem unquoteBody_bs_nil : unquoteBody [92] = none := rfl

private theorem drop_len_lt {α} (l : List α) (n k : Nat) : (l.drop n).length < l.length + 1 + k := by
  simp only [List.length_drop]; omega

theorem unquoteBody_esc (e : UInt8) (rest : Bytes) :
    unquoteBody (92 :: e :: rest) =
      if e = 34 ∨ e = 92 ∨ e = 47 ∨ e = 39 then (unquoteBody rest).map (e :: ·)
      else if e = 98 then (unquoteBody rest).map (8 :: ·)
      else if e = 102 then (unquoteBody rest).map (12 :: ·)
      else if e = 110 then (unquoteBody rest).map (10 :: ·)
      else if e = 114 then (unquoteBody rest).map (13 :: ·)
      else if e = 116 then (unquoteBody rest).map (9 :: ·)
      else if e = 117 then
        match hex4 rest with
        | none => none
        | some rr =>
          if isSurrogate rr then
            match utf16Pair rr (getu4 (rest.drop 4)) with
            | some dec => (unquoteBody ((rest.drop 4).drop 6)).map (encodeRune dec ++ ·)
            | none => (unquoteBody (rest.drop 4)).map (encodeRune runeError ++ ·)
          else (unquoteBody (rest.drop 4)).map (encodeRune rr ++ ·)
      else none := by
  have e1 := unquoteGo_eq_body (rest.length + 1 + 1) rest (by omega)
  have e2 := unquoteGo_eq_body (rest.length + 1 + 1) (rest.drop 4) (drop_len_lt _ _ 1)
  have e3 := unquoteGo_eq_body (rest.length + 1 + 1) ((rest.drop 4).drop 6)
    (by simp only [List.length_drop]; omega)
  rw [unquoteBody]
  simp only [List.length_cons, unquoteGo, e1, e2, e3]
  simp only [if_true]
  cases hex4 rest with
  | none => rfl
  | some rr =>
    simp only
    cases utf16Pair rr (getu4 (List.drop 4 rest)) <;> rfl

theorem unquoteBody_plain (c : UInt8) (rest : Bytes) (hc : c ≠ 92) :
    unquoteBody (c :: rest) =
      if c = 34 ∨ c.toNat < 32 then none
      else if c.toNat < 128 then (unquoteBody rest).map (c :: ·)
      else (unquoteBody ((c :: rest).drop (decodeRune (c :: rest)).2)).map (encodeRune (decodeRune (c :: rest)).1 ++ ·) := by
  have hsz := decodeRune_size_pos c rest
  have e1 := unquoteGo_eq_body (rest.length + 1) rest (by omega)
  have e2 := unquoteGo_eq_body (rest.length + 1) ((c :: rest).drop (decodeRune (c :: rest)).2)
    (by simp only [List.length_drop, List.length_cons]; omega)
  rw [unquoteBody]
  simp only [List.length_cons, unquoteGo, e1, e2, hc, if_false]

/-! ### quoteBody -/

theorem quoteGo_fuel (esc : Bool) : ∀ (f1 f2 : Nat) (b : Bytes), b.length < f1 → b.length < f2 →
    quoteGo esc f1 b = quoteGo esc f2 b := by
  intro f1
  induction f1 with
  | zero => intro f2 b h; omega
  | succ f1 ih =>
    intro f2 b h1 h2
    cases f2 with
    | zero => omega
    | succ f2 =>
      cases b with
      | nil => simp only [quoteGo]
      | cons c rest =>
        simp only [List.length_cons] at h1 h2
        have hsz := decodeRune_size_pos c rest
        have e0 : quoteGo esc f1 rest = quoteGo esc f2 rest := ih f2 _ (by omega) (by omega)
        have e4 : quoteGo esc f1 (List.drop (decodeRune (c :: rest)).snd (c :: rest))
            = quoteGo esc f2 (List.drop (decodeRune (c :: rest)).snd (c :: rest)) :=
          ih f2 _ (by simp only [List.length_drop, List.length_cons]; omega)
            (by simp only [List.length_drop, List.length_cons]; omega)
        simp only [quoteGo, e0, e4]

theorem quoteGo_eq_body (esc : Bool) (f : Nat) (b : Bytes) (h : b.length < f) : quoteGo esc f b = quoteBody esc b :=
  quoteGo_fuel esc _ _ _ h (by omega)

theorem quoteBody_nil (esc : Bool) : quoteBody esc [] = [] := rfl

/-- what the encoder writes for one ASCII byte -/
def quoteAscii (esc : Bool) (b : UInt8) : Bytes :=
  if htmlSafe b || (!esc && safe b) then [b]
  else if b = 92 ∨ b = 34 then [92, b]
  else if b = 10 then [92, 110]
  else if b = 13 then [92, 114]
  else if b = 9 then [92, 116]
  else [92, 117, 48, 48, hexLower (b.toNat / 16), hexLower (b.toNat % 16)]

theorem quoteBody_ascii (esc : Bool) (b : UInt8) (rest : Bytes) (hb : b.toNat < 128) :
    quoteBody esc (b :: rest) = quoteAscii esc b ++ quoteBody esc rest := by
  have e1 := quoteGo_eq_body esc (rest.length + 1) rest (by omega)
  rw [quoteBody]
  simp only [List.length_cons, quoteGo, e1, hb, if_true, quoteAscii]
  repeat' split
  all_goals rfl

theorem quoteBody_multi (esc : Bool) (b : UInt8) (rest : Bytes) (hb : ¬ b.toNat < 128) :
    quoteBody esc (b :: rest) =
      if (decodeRune (b :: rest)).1 = runeError ∧ (decodeRune (b :: rest)).2 = 1 then
        ascii "\\ufffd" ++ quoteBody esc rest
      else if (decodeRune (b :: rest)).1 = 0x2028 ∨ (decodeRune (b :: rest)).1 = 0x2029 then
        ascii "\\u202" ++ [hexLower ((decodeRune (b :: rest)).1 % 16)]
          ++ quoteBody esc ((b :: rest).drop (decodeRune (b :: rest)).2)
      else (b :: rest).take (decodeRune (b :: rest)).2
          ++ quoteBody esc ((b :: rest).drop (decodeRune (b :: rest)).2) := by
  have hsz := decodeRune_size_pos b rest
  have e1 := quoteGo_eq_body esc (rest.length + 1) rest (by omega)
  have e2 := quoteGo_eq_body esc (rest.length + 1) ((b :: rest).drop (decodeRune (b :: rest)).2)
    (by simp only [List.length_drop, List.length_cons]; omega)
  rw [quoteBody]
  simp only [List.length_cons, quoteGo, e1, e2, hb, if_false]

/-! ### isValidUtf8 -/

theorem validUtf8_fuel : ∀ (f1 f2 : Nat) (b : Bytes), b.length < f1 → b.length < f2 →
    validUtf8 f1 b = validUtf8 f2 b := by
  intro f1
  induction f1 with
  | zero => intro f2 b h; omega
  | succ f1 ih =>
    intro f2 b h1 h2
    cases f2 with
    | zero => omega
    | succ f2 =>
      cases b with
      | nil => simp only [validUtf8]
      | cons c rest =>
        simp only [List.length_cons] at h1 h2
        have hsz := decodeRune_size_pos c rest
        have e4 : validUtf8 f1 (List.drop (decodeRune (c :: rest)).snd (c :: rest))
            = validUtf8 f2 (List.drop (decodeRune (c :: rest)).snd (c :: rest)) :=
          ih f2 _ (by simp only [List.length_drop, List.length_cons]; omega)
            (by simp only [List.length_drop, List.length_cons]; omega)
        simp only [validUtf8, e4]

theorem isValidUtf8_nil : isValidUtf8 [] = true := rfl

theorem isValidUtf8_cons (b : UInt8) (rest : Bytes) :
    isValidUtf8 (b :: rest) =
      if (decodeRune (b :: rest)).1 = runeError ∧ (decodeRune (b :: rest)).2 = 1 then false
      else isValidUtf8 ((b :: rest).drop (decodeRune (b :: rest)).2) := by
  have hsz := decodeRune_size_pos b rest
  have e2 := validUtf8_fuel (rest.length + 1) (((b :: rest).drop (decodeRune (b :: rest)).2).length + 1)
    ((b :: rest).drop (decodeRune (b :: rest)).2)
    (by simp only [List.length_drop, List.length_cons]; omega) (by omega)
  simp only [isValidUtf8, List.length_cons, validUtf8, e2]

/-- induction along the rune segmentation of a byte string -/
theorem rune_induction {P : Bytes → Prop} (nil : P [])
    (cons : ∀ b rest, P ((b :: rest).drop (decodeRune (b :: rest)).2) → P (b :: rest)) : ∀ l, P l := by
  intro l
  generalize hn : l.length = n
  induction n using Nat.strongRecOn generalizing l with
  | _ n ih =>
    cases l with
    | nil => exact nil
    | cons b rest =>
      have hsz := decodeRune_size_pos b rest
      apply cons
      apply ih _ _ _ rfl
      simp only [List.length_drop, List.length_cons] at *; omega
end JP
