import JP.Lemmas.HeapOps

/-!
# The operations of the heap model refine the value model's: replace, move
-/

namespace JP
namespace Heap

open JP.Impl (Node NMembers Outcome walk Walk putChild conGet Opts Op Root)

theorem opReplace_refines (o : Opts) {s : St} {r : Root} {fp : List Nat} (op : Op)
    (hr : Repr s.h r.con (some s.root) fp) :
    OutRel (RelSt s.h fp) (Heap.opReplace o s op) (Impl.opReplace o r op) := by
  unfold Heap.opReplace Impl.opReplace
  by_cases hp : op.path = []
  · simp only [hp, if_true]
    cases op.value with
    | none => simp
    | some c =>
      cases c with
      | obj ms =>
        simp only [OutRel_ok_ok]
        exact FreshTree.relSt (r' := { con := Impl.decodeDoc ms, self := .nil }) (fresh_doc ms)
      | arr xs =>
        simp only [OutRel_ok_ok]
        exact FreshTree.relSt (r' := { con := Impl.decodeAry xs, self := .nil }) (fresh_ary xs)
      | str b => simp
      | lit l =>
        simp only
        by_cases hl : l = ascii "null"
        · simp only [hl, if_true, OutRel_ok_ok]
          refine FreshTree.relSt (r' := { con := .nilAry, self := .nil })
            ⟨[s.h.length], ?_, ⟨[.nilAry], rfl⟩, fun x hx => by simp at hx; omega⟩
          simp only [Repr]
          exact ⟨s.h.length, rfl, by simp, rfl⟩
        · simp [hl]
  · simp only [hp, if_false]
    have hF := findObject_refines o r op.path hr
    cases hf : findObject o s.h s.root op.path with
    | panic =>
      rw [hf] at hF; simp only [FoundP] at hF
      rw [hF]; simp [Impl.liftWalk]
    | err e => rw [hf] at hF; simp only [FoundP] at hF
    | ok res =>
      obtain ⟨h1, oc⟩ := res
      rw [hf] at hF
      cases oc with
      | none =>
        simp only [FoundP] at hF
        obtain ⟨n', fp', h1r, e1, hw⟩ := hF
        rw [hw]
        simp [Impl.liftWalk]
      | some ck =>
        obtain ⟨c, key⟩ := ck
        simp only [FoundP] at hF
        obtain ⟨conc, fc, ctx, plug, s', hrc, dc, e1, hctx, vctx, hw⟩ := hF
        rw [hw]
        have hG := hGet_refines o s' key hrc
        simp only
        cases hg : hGet o h1 c key with
        | panic =>
          cases hc : conGet o s' conc key with
          | panic => simp [doneOf, Impl.liftWalk]
          | ok x => rw [hg, hc] at hG; simp at hG
          | err e => rw [hg, hc] at hG; simp at hG
        | err e =>
          cases hc : conGet o s' conc key with
          | panic => rw [hg, hc] at hG; simp at hG
          | ok x => rw [hg, hc] at hG; simp at hG
          | err e' => simp [doneOf, Impl.liftWalk]
        | ok p0 =>
          cases hc : conGet o s' conc key with
          | panic => rw [hg, hc] at hG; simp at hG
          | err e' => rw [hg, hc] at hG; simp at hG
          | ok n0 =>
            simp only
            obtain ⟨ext, fv, hext, rv, frv⟩ := newValue_spec h1 op
            have dv : Disj fv fc := by
              intro x hx hy
              have := frv x hx
              have := Repr.valid _ hrc x hy
              omega
            have hA := hSet_refines o key (by rw [hext]; exact Repr.alloc hrc ext) rv dv
            cases h1a : hSet o (newValue h1 op).1 c key (newValue h1 op).2 with
            | panic =>
              cases h2 : Impl.conSet o conc key (op.valueNode.getD .nil) with
              | panic => simp [liftHeap, doneOf, Impl.liftWalk]
              | ok x => rw [h1a, h2] at hA; simp at hA
              | err e => rw [h1a, h2] at hA; simp at hA
            | err e =>
              cases h2 : Impl.conSet o conc key (op.valueNode.getD .nil) with
              | panic => rw [h1a, h2] at hA; simp at hA
              | ok x => rw [h1a, h2] at hA; simp at hA
              | err e' =>
                rw [h1a, h2] at hA; simp only [OutRel_err_err] at hA; subst hA
                simp [liftHeap, doneOf, Impl.liftWalk]
            | ok h' =>
              cases h2 : Impl.conSet o conc key (op.valueNode.getD .nil) with
              | panic => rw [h1a, h2] at hA; simp at hA
              | err e' => rw [h1a, h2] at hA; simp at hA
              | ok con' =>
                rw [h1a, h2] at hA; simp only [OutRel_ok_ok] at hA
                rw [hext] at hA
                simp only [liftHeap, doneOf, Impl.liftWalk, OutRel_ok_ok]
                exact link_fresh hrc dc e1 hctx vctx frv hA

/-- `move`: the pointer leaves the source container (its footprint leaves the document's) before
THE SAME pointer enters the destination; no cell is reachable twice in between or afterwards -/
theorem opMove_refines (o : Opts) {s : St} {r : Root} {fp : List Nat} (op : Op)
    (hr : Repr s.h r.con (some s.root) fp) :
    OutRel (RelSt s.h fp) (Heap.opMove o s op) (Impl.opMove o r op) := by
  unfold Heap.opMove Impl.opMove
  cases op.frm with
  | none => simp
  | some frm =>
    simp only
    by_cases hfe : frm = []
    · simp [hfe]
    · simp only [hfe, if_false]
      have hF := findObject_refines o r frm hr
      cases hf : findObject o s.h s.root frm with
      | panic =>
        rw [hf] at hF; simp only [FoundP] at hF
        rw [hF]; simp
      | err e => rw [hf] at hF; simp only [FoundP] at hF
      | ok res =>
        obtain ⟨h1, oc⟩ := res
        rw [hf] at hF
        cases oc with
        | none =>
          simp only [FoundP] at hF
          obtain ⟨n', fp', h1r, e1, hw⟩ := hF
          rw [hw]
          simp
        | some ck =>
          obtain ⟨c, key⟩ := ck
          simp only [FoundP] at hF
          obtain ⟨conc, fc, ctx, plug, s', hrc, dc, e1, hctx, vctx, hw⟩ := hF
          rw [hw]
          have hG := hGet_refines o s' key hrc
          simp only
          cases hg : hGet o h1 c key with
          | panic =>
            cases hc : conGet o s' conc key with
            | panic => simp [doneOf]
            | ok x => rw [hg, hc] at hG; simp at hG
            | err e => rw [hg, hc] at hG; simp at hG
          | err e =>
            cases hc : conGet o s' conc key with
            | panic => rw [hg, hc] at hG; simp at hG
            | ok x => rw [hg, hc] at hG; simp at hG
            | err e' =>
              rw [hg, hc] at hG; simp only [OutRel_err_err] at hG; subst hG
              simp [doneOf]
          | ok p =>
            cases hc : conGet o s' conc key with
            | panic => rw [hg, hc] at hG; simp at hG
            | err e' => rw [hg, hc] at hG; simp at hG
            | ok n0 =>
              simp only
              have hR := hRemove_refines o s' key hrc
              cases h1r : hRemove o h1 c key with
              | panic =>
                cases h2 : Impl.conRemove o conc key with
                | panic => simp [doneOf]
                | ok x => rw [h1r, h2] at hR; simp at hR
                | err e => rw [h1r, h2] at hR; simp at hR
              | err e =>
                cases h2 : Impl.conRemove o conc key with
                | panic => rw [h1r, h2] at hR; simp at hR
                | ok x => rw [h1r, h2] at hR; simp at hR
                | err e' =>
                  rw [h1r, h2] at hR; simp only [OutRel_err_err] at hR; subst hR
                  simp [doneOf]
              | ok h2 =>
                cases h2c : Impl.conRemove o conc key with
                | panic => rw [h1r, h2c] at hR; simp at hR
                | err e' => rw [h1r, h2c] at hR; simp at hR
                | ok con' =>
                  rw [h1r, h2c] at hR; simp only [OutRel_ok_ok] at hR
                  obtain ⟨fc', cell', rfl, hr', sub, hmv⟩ := hR
                  obtain ⟨fn, rn, dn, sn⟩ := hmv p n0 hg hc
                  -- phase 1 committed: the document without the moved node
                  obtain ⟨fp2, hr2, e2, sub2⟩ := commit hrc dc e1 hctx vctx [] cell' (by simpa using hr')
                    (fun x hx => ⟨fun hy => dc x (sub x hx) hy, e1.sub x (by simp [sub x hx])⟩)
                  simp only [List.append_nil] at hr2 e2
                  have dn2 : Disj fn fp2 := by
                    intro x hx hy
                    rcases sub2 x hy with h1' | h1'
                    · exact dn x hx h1'
                    · exact dc x (sn x hx) h1'
                  have vn := Repr.valid _ rn
                  -- the first phase, seen as an operation on `fp` whose result footprint also
                  -- lists the unlinked node
                  have e2' : Ext s.h (h1.set c cell') fp (fp2 ++ fn) :=
                    ⟨e2.len, e2.frame, fun x hx => by
                      simp only [List.mem_append] at hx
                      rcases hx with hx | hx
                      · exact e2.sub x hx
                      · exact e1.sub x (by simp [sn x hx])⟩
                  simp only [doneOf]
                  have hF2 := findObject_refines o { r with con := plug con' } op.path hr2
                  cases hf2 : findObject o (h1.set c cell') s.root op.path with
                  | panic =>
                    rw [hf2] at hF2; simp only [FoundP] at hF2
                    rw [hF2]; simp [Impl.liftWalk]
                  | err e => rw [hf2] at hF2; simp only [FoundP] at hF2
                  | ok res2 =>
                    obtain ⟨h3, oc2⟩ := res2
                    rw [hf2] at hF2
                    cases oc2 with
                    | none =>
                      simp only [FoundP] at hF2
                      obtain ⟨n', fp', _, _, hw2⟩ := hF2
                      rw [hw2]
                      simp [Impl.liftWalk]
                    | some ck2 =>
                      obtain ⟨c2, key2⟩ := ck2
                      simp only [FoundP] at hF2
                      obtain ⟨conc2, fc2, ctx2, plug2, s2', hrc2, dc2, e3, hctx2, vctx2, hw2⟩ := hF2
                      rw [hw2]
                      have rn3 : Repr h3 n0 p fn := Repr.ext rn e3 dn2
                      have dn3 : Disj fn (fc2 ++ ctx2) := Ext.disj e3 dn2 vn
                      have e3' : Ext (h1.set c cell') h3 (fp2 ++ fn) (fc2 ++ ctx2) :=
                        Ext.widen e3 (fun x hx => by simp [hx]) (fun x hx => Or.inl hx)
                      have hA := hAdd_refines o key2 hrc2 rn3 (fun x hx hy => dn3 x hx (by simp [hy]))
                      simp only
                      cases h1a : hAdd o h3 c2 key2 p with
                      | panic =>
                        cases h2 : Impl.conAdd o conc2 key2 n0 with
                        | panic => simp [liftHeap, doneOf, Impl.liftWalk]
                        | ok x => rw [h1a, h2] at hA; simp at hA
                        | err e => rw [h1a, h2] at hA; simp at hA
                      | err e =>
                        cases h2 : Impl.conAdd o conc2 key2 n0 with
                        | panic => rw [h1a, h2] at hA; simp at hA
                        | ok x => rw [h1a, h2] at hA; simp at hA
                        | err e' =>
                          rw [h1a, h2] at hA; simp only [OutRel_err_err] at hA; subst hA
                          simp [liftHeap, doneOf, Impl.liftWalk]
                      | ok h4 =>
                        cases h2 : Impl.conAdd o conc2 key2 n0 with
                        | panic => rw [h1a, h2] at hA; simp at hA
                        | err e' => rw [h1a, h2] at hA; simp at hA
                        | ok con2' =>
                          rw [h1a, h2] at hA; simp only [OutRel_ok_ok] at hA
                          obtain ⟨fc2', cell2', rfl, hr4, sub4⟩ := hA
                          simp only [liftHeap, doneOf, Impl.liftWalk, OutRel_ok_ok]
                          obtain ⟨fp4, hr5, e5, _⟩ := commit hrc2 dc2 e3' hctx2 vctx2 [] cell2'
                            (by simpa using hr4)
                            (fun x hx => by
                              rcases sub4 x hx with h1' | h1'
                              · exact ⟨fun hy => dn3 x h1' (by simp [hy]), Or.inl (by simp [h1'])⟩
                              · exact ⟨fun hy => dc2 x h1' hy, e3'.sub x (by simp [h1'])⟩)
                          simp only [List.append_nil] at hr5 e5
                          exact ⟨fp4, hr5, Ext.trans e2' e5⟩

end Heap
end JP
