import JP.Lemmas.TransduceSim
import JP.Lemmas.TransduceWF

/-!
# The indented printer, `Indent` on the token trace, and the parser on indented text
-/

namespace JP

open Scanner (newline)

namespace Cst

mutual
/-- Go's `Indent` layout (prefix `""`): `ind` = the indent string, `d` = current depth -/
def printIndented (ind : Bytes) : Nat → Cst → Bytes
  | _, .lit s => s
  | _, .str b => 34 :: b ++ [34]
  | d, .arr xs => 91 :: (if xs.isEmpty then [93] else newline ind (d + 1) ++ printIE ind d xs)
  | d, .obj ms => 123 :: (if ms.isEmpty then [125] else newline ind (d + 1) ++ printIM ind d ms)
/-- the elements (at depth `d + 1`) and the closing bracket (at depth `d`) -/
def printIE (ind : Bytes) : Nat → List Cst → Bytes
  | _, [] => [93]
  | d, [x] => printIndented ind (d + 1) x ++ (newline ind d ++ [93])
  | d, x :: y :: xs => printIndented ind (d + 1) x ++ 44 :: (newline ind (d + 1) ++ printIE ind d (y :: xs))
/-- the members (at depth `d + 1`) and the closing brace (at depth `d`) -/
def printIM (ind : Bytes) : Nat → List (Bytes × Cst) → Bytes
  | _, [] => [125]
  | d, [(k, v)] => 34 :: (k ++ 34 :: 58 :: 32 :: (printIndented ind (d + 1) v ++ (newline ind d ++ [125])))
  | d, (k, v) :: m :: ms =>
    34 :: (k ++ 34 :: 58 :: 32 :: (printIndented ind (d + 1) v ++ 44 :: (newline ind (d + 1) ++ printIM ind d (m :: ms))))
end

end Cst

open Cst (printIndented printIE printIM)

theorem printIE_cons (ind : Bytes) (d : Nat) (x : Cst) (xs : List Cst) (h : xs ≠ []) :
    printIE ind d (x :: xs) = printIndented ind (d + 1) x ++ 44 :: (newline ind (d + 1) ++ printIE ind d xs) := by
  cases xs with
  | nil => exact absurd rfl h
  | cons y ys => simp only [printIE]

theorem printIM_cons (ind : Bytes) (d : Nat) (k : Bytes) (v : Cst) (ms : List (Bytes × Cst)) (h : ms ≠ []) :
    printIM ind d ((k, v) :: ms) =
      34 :: (k ++ 34 :: 58 :: 32 :: (printIndented ind (d + 1) v ++ 44 :: (newline ind (d + 1) ++ printIM ind d ms))) := by
  cases ms with
  | nil => exact absurd rfl h
  | cons y ys => simp only [printIM]

/-! ### heads -/

set_option maxRecDepth 100000 in
theorem notPunct_fin : ∀ n : Fin 256, (UInt8.ofNat n = 45 ∨ isDigit (UInt8.ofNat n) = true) →
    UInt8.ofNat n ≠ 123 ∧ UInt8.ofNat n ≠ 91 ∧ UInt8.ofNat n ≠ 44 ∧ UInt8.ofNat n ≠ 58 ∧
      UInt8.ofNat n ≠ 125 ∧ UInt8.ofNat n ≠ 93 := by decide

/-- not one of the bytes `Indent` treats as punctuation -/
def notPunct (c : UInt8) : Prop := c ≠ 123 ∧ c ≠ 91 ∧ c ≠ 44 ∧ c ≠ 58 ∧ c ≠ 125 ∧ c ≠ 93

instance (c : UInt8) : Decidable (notPunct c) := by unfold notPunct; infer_instance

theorem notPunct_num (c : UInt8) (h : c = 45 ∨ isDigit c = true) : notPunct c := by
  have := notPunct_fin ⟨c.toNat, c.toNat_lt⟩
  simpa [notPunct, h] using this

theorem validLit_head (s : Bytes) (h : validLit s = true) : ∃ c l, s = c :: l ∧ notPunct c := by
  rcases validLit_cases s h with rfl | rfl | rfl | hn
  · exact ⟨116, _, rfl, by decide⟩
  · exact ⟨102, _, rfl, by decide⟩
  · exact ⟨110, _, rfl, by decide⟩
  · obtain ⟨b, t, rfl, hb⟩ := parseNumber_head s s [] hn
    exact ⟨b, t, rfl, notPunct_num b hb⟩

namespace Scanner

/-! ### single tokens in `foldI` -/

theorem foldI_cont (ind : Bytes) (need : Bool) (d : Nat) (out : Bytes) (c : UInt8) (t : List Tok)
    (hn : need = false) :
    foldI ind need d out ((c, scanContinue) :: t) = foldI ind false d (c :: out) t := by
  subst hn; simp [foldI]

theorem foldI_conts (ind : Bytes) (d : Nat) (l : Bytes) : ∀ (out : Bytes) (t : List Tok),
    foldI ind false d out (cont l ++ t) = foldI ind false d (l.reverse ++ out) t := by
  induction l with
  | nil => intro out t; rfl
  | cons c l ih =>
    intro out t
    rw [cont_cons, List.cons_append, foldI_cont _ _ _ _ _ _ rfl, ih]
    simp

theorem foldI_plain (ind : Bytes) (d : Nat) (out : Bytes) (c : UInt8) (v : Nat) (t : List Tok)
    (hc : notPunct c) : foldI ind false d out ((c, v) :: t) = foldI ind false d (c :: out) t := by
  obtain ⟨h1, h2, h3, h4, h5, h6⟩ := hc
  simp [foldI, h1, h2, h3, h4, h5, h6]

theorem foldI_open (ind : Bytes) (d : Nat) (out : Bytes) (c : UInt8) (v : Nat) (t : List Tok)
    (hc : c = 123 ∨ c = 91) (hv : v ≠ scanContinue) :
    foldI ind false d out ((c, v) :: t) = foldI ind true d (c :: out) t := by
  simp [foldI, hc, hv]

theorem foldI_comma (ind : Bytes) (d : Nat) (out : Bytes) (v : Nat) (t : List Tok) (hv : v ≠ scanContinue) :
    foldI ind false d out ((44, v) :: t) = foldI ind false d ((newline ind d).reverse ++ 44 :: out) t := by
  simp [foldI, hv]

theorem foldI_colon (ind : Bytes) (d : Nat) (out : Bytes) (v : Nat) (t : List Tok) (hv : v ≠ scanContinue) :
    foldI ind false d out ((58, v) :: t) = foldI ind false d (32 :: 58 :: out) t := by
  simp [foldI, hv]

theorem foldI_close (ind : Bytes) (d : Nat) (out : Bytes) (c : UInt8) (v : Nat) (t : List Tok)
    (hc : c = 125 ∨ c = 93) (hv : v ≠ scanContinue) :
    foldI ind false (d + 1) out ((c, v) :: t) = foldI ind false d (c :: ((newline ind d).reverse ++ out)) t := by
  rcases hc with rfl | rfl <;> simp [foldI, hv]

theorem foldI_close_empty (ind : Bytes) (d : Nat) (out : Bytes) (c : UInt8) (v : Nat) (t : List Tok)
    (hc : c = 125 ∨ c = 93) (hv : v = scanEndObject ∨ v = scanEndArray) :
    foldI ind true d out ((c, v) :: t) = foldI ind false d (c :: out) t := by
  rcases hc with rfl | rfl <;> rcases hv with rfl | rfl <;> simp [foldI, scanEndObject, scanEndArray, scanContinue]

/-- the delayed newline after `{` / `[` comes out before the first token of the first element -/
theorem foldI_need (ind : Bytes) (d : Nat) (out : Bytes) (c : UInt8) (v : Nat) (t : List Tok)
    (h5 : v ≠ scanEndObject) (h8 : v ≠ scanEndArray) :
    foldI ind true d out ((c, v) :: t) =
      foldI ind false (d + 1) ((newline ind (d + 1)).reverse ++ out) ((c, v) :: t) := by
  simp [foldI, h5, h8]

theorem foldI_strToks (ind : Bytes) (d : Nat) (out : Bytes) (b : Bytes) (t : List Tok) :
    foldI ind false d out (strToks b ++ t) = foldI ind false d (34 :: (b.reverse ++ 34 :: out)) t := by
  simp only [strToks, List.cons_append, List.append_assoc]
  rw [foldI_plain _ _ _ _ _ _ (by decide), foldI_conts, foldI_cont _ _ _ _ _ _ rfl]
  rfl

theorem foldI_litToks (ind : Bytes) (d : Nat) (out : Bytes) (s : Bytes) (t : List Tok) (h : validLit s = true) :
    foldI ind false d out (litToks s ++ t) = foldI ind false d (s.reverse ++ out) t := by
  obtain ⟨c, l, rfl, hc⟩ := validLit_head s h
  simp only [litToks, List.cons_append]
  rw [foldI_plain _ _ _ _ _ _ hc, foldI_conts]
  simp

/-- the first token of a value is not a closing one -/
theorem toksV_head (c : Cst) (h : WFC c = true) :
    ∃ b v t, toksV c = (b, v) :: t ∧ v ≠ scanEndObject ∧ v ≠ scanEndArray := by
  cases c with
  | lit s =>
    simp only [WFC] at h
    obtain ⟨c, l, rfl, _⟩ := validLit_head s h
    exact ⟨c, _, _, rfl, by decide, by decide⟩
  | str b => exact ⟨34, _, _, rfl, by decide, by decide⟩
  | arr xs => exact ⟨91, _, _, by rw [toksV], by decide, by decide⟩
  | obj ms => exact ⟨123, _, _, by rw [toksV], by decide, by decide⟩

/-! ### `Indent` on the tokens of a tree prints the tree indented -/

mutual
theorem foldI_toksV (ind : Bytes) : ∀ (c : Cst) (d : Nat) (out : Bytes) (t : List Tok), WFC c = true →
    foldI ind false d out (toksV c ++ t) = foldI ind false d ((printIndented ind d c).reverse ++ out) t
  | .lit s, d, out, t, h => by
    rw [toksV, printIndented]; exact foldI_litToks ind d out s t (by simpa [WFC] using h)
  | .str b, d, out, t, _ => by
    rw [toksV, printIndented, foldI_strToks]; simp
  | .arr xs, d, out, t, h => by
    have ih := foldI_toksE ind xs
    rw [toksV, printIndented, List.cons_append, foldI_open _ _ _ _ _ _ (.inr rfl) (by decide)]
    cases xs with
    | nil =>
      simp only [toksE, List.cons_append, List.nil_append]
      rw [foldI_close_empty _ _ _ _ _ _ (.inr rfl) (.inr rfl)]
      simp
    | cons x tl =>
      simp only [WFC, WFCL, Bool.and_eq_true] at h
      obtain ⟨b, v, t', hv, h5, h8⟩ := toksV_head x h.1
      have hhead : ∃ t'', toksE (x :: tl) = (b, v) :: t'' := by
        cases tl with
        | nil => exact ⟨_, by rw [toksE, hv]; rfl⟩
        | cons y ys => exact ⟨_, by rw [toksE, hv]; rfl⟩
      obtain ⟨t'', ht''⟩ := hhead
      have := foldI_need ind d (91 :: out) b v (t'' ++ t) h5 h8
      rw [← List.cons_append, ← ht''] at this
      rw [this, ih d _ t (by simp) (by simp [WFCL, h])]
      simp
  | .obj ms, d, out, t, h => by
    have ih := foldI_toksM ind ms
    rw [toksV, printIndented, List.cons_append, foldI_open _ _ _ _ _ _ (.inl rfl) (by decide)]
    cases ms with
    | nil =>
      simp only [toksM, List.cons_append, List.nil_append]
      rw [foldI_close_empty _ _ _ _ _ _ (.inl rfl) (.inl rfl)]
      simp
    | cons m tl =>
      obtain ⟨k, v⟩ := m
      have hhead : ∃ t'', toksM ((k, v) :: tl) = (34, scanBeginLiteral) :: t'' := by
        cases tl with
        | nil => exact ⟨_, by rw [toksM, strToks]; rfl⟩
        | cons y ys => exact ⟨_, by rw [toksM, strToks]; rfl⟩
      obtain ⟨t'', ht''⟩ := hhead
      have := foldI_need ind d (123 :: out) 34 scanBeginLiteral (t'' ++ t) (by decide) (by decide)
      rw [← List.cons_append, ← ht''] at this
      rw [this, ih d _ t (by simp) (by simpa [WFC] using h)]
      simp
theorem foldI_toksE (ind : Bytes) : ∀ (xs : List Cst) (d : Nat) (out : Bytes) (t : List Tok), xs ≠ [] →
    WFCL xs = true →
    foldI ind false (d + 1) out (toksE xs ++ t) = foldI ind false d ((printIE ind d xs).reverse ++ out) t
  | [], _, _, _, hne, _ => absurd rfl hne
  | [x], d, out, t, _, h => by
    simp only [WFCL, Bool.and_eq_true] at h
    rw [toksE, List.append_assoc, foldI_toksV ind x (d + 1) out _ h.1, List.cons_append, List.nil_append,
      foldI_close _ _ _ _ _ _ (.inr rfl) (by decide), printIE]
    simp
  | x :: y :: xs, d, out, t, _, h => by
    simp only [WFCL, Bool.and_eq_true] at h
    rw [toksE, List.append_assoc, foldI_toksV ind x (d + 1) out _ h.1, List.cons_append,
      foldI_comma _ _ _ _ _ (by decide), foldI_toksE ind (y :: xs) d _ t (by simp) (by simp [WFCL, h]), printIE]
    simp
theorem foldI_toksM (ind : Bytes) : ∀ (ms : List (Bytes × Cst)) (d : Nat) (out : Bytes) (t : List Tok), ms ≠ [] →
    WFCM ms = true →
    foldI ind false (d + 1) out (toksM ms ++ t) = foldI ind false d ((printIM ind d ms).reverse ++ out) t
  | [], _, _, _, hne, _ => absurd rfl hne
  | [(k, v)], d, out, t, _, h => by
    simp only [WFCM, Bool.and_eq_true] at h
    rw [toksM, List.append_assoc, foldI_strToks, List.cons_append, foldI_colon _ _ _ _ _ (by decide),
      List.append_assoc, foldI_toksV ind v (d + 1) _ _ h.1.2, List.cons_append, List.nil_append,
      foldI_close _ _ _ _ _ _ (.inl rfl) (by decide), printIM]
    simp
  | (k, v) :: m :: ms, d, out, t, _, h => by
    rw [WFCM] at h
    simp only [Bool.and_eq_true] at h
    rw [toksM, List.append_assoc, foldI_strToks, List.cons_append, foldI_colon _ _ _ _ _ (by decide),
      List.append_assoc, foldI_toksV ind v (d + 1) _ _ h.1.2, List.cons_append,
      foldI_comma _ _ _ _ _ (by decide), foldI_toksM ind (m :: ms) d _ t (by simp) h.2, printIM]
    simp
end

/-- trailing white space is copied -/
theorem foldI_scanEnd (ind : Bytes) (d : Nat) (ws : Bytes) (h : ∀ b ∈ ws, isWs b = true) : ∀ out : Bytes,
    foldI ind false d out (ws.map (·, scanEnd)) = ws.reverse ++ out := by
  induction ws with
  | nil => intro out; rfl
  | cons c ws ih =>
    intro out
    have hc : notPunct c := by
      have := h c (List.mem_cons_self ..)
      simp only [isWs, Bool.or_eq_true, decide_eq_true_eq] at this
      rcases this with ((rfl | rfl) | rfl) | rfl <;> decide
    rw [List.map_cons, foldI_plain _ _ _ _ _ _ hc, ih (fun b hb => h b (List.mem_cons_of_mem _ hb))]
    simp

end Scanner

/-! ### the reference parser on indented text -/

theorem newline_ws (ind : Bytes) (hind : ∀ b ∈ ind, isWs b = true) (d : Nat) :
    ∀ b ∈ newline ind d, isWs b = true := by
  intro b hb
  simp only [newline, List.mem_cons, List.mem_flatten, List.mem_replicate] at hb
  rcases hb with rfl | ⟨l, ⟨_, rfl⟩, hl⟩
  · decide
  · exact hind b hl

theorem skipWs_ws_append (ws X : Bytes) (h : ∀ b ∈ ws, isWs b = true) : skipWs (ws ++ X) = skipWs X := by
  induction ws with
  | nil => rfl
  | cons c ws ih =>
    simp only [List.cons_append, skipWs, h c (List.mem_cons_self ..), if_true]
    exact ih (fun b hb => h b (List.mem_cons_of_mem _ hb))

theorem numStop_newline (ind : Bytes) (d : Nat) (X : Bytes) : numStop (newline ind d ++ X) := by
  simp only [newline, List.cons_append, numStop]; decide

theorem printIndented_head (ind : Bytes) (k : Nat) (c : Cst) (h : WFC c = true) :
    ∃ b t, printIndented ind k c = b :: t ∧ startByte b = true := by
  cases c with
  | lit l =>
    obtain ⟨b, t, hp, hb⟩ := print_head (.lit l) h
    exact ⟨b, t, by rw [printIndented]; simpa [Cst.print] using hp, hb⟩
  | str b => exact ⟨34, _, by rw [printIndented]; rfl, by decide⟩
  | arr xs => exact ⟨91, _, by rw [printIndented], by decide⟩
  | obj ms => exact ⟨123, _, by rw [printIndented], by decide⟩

theorem printIE_head (ind : Bytes) (k : Nat) (x : Cst) (tl : List Cst) (h : WFC x = true) :
    ∃ b t, printIE ind k (x :: tl) = b :: t ∧ startByte b = true := by
  obtain ⟨b, t, hp, hb⟩ := printIndented_head ind (k + 1) x h
  cases tl with
  | nil => exact ⟨b, _, by rw [printIE, hp]; rfl, hb⟩
  | cons y ys => exact ⟨b, _, by rw [printIE, hp]; rfl, hb⟩

theorem printIM_head (ind : Bytes) (k : Nat) (m : Bytes × Cst) (tl : List (Bytes × Cst)) :
    ∃ t, printIM ind k (m :: tl) = 34 :: t := by
  obtain ⟨key, v⟩ := m
  cases tl with
  | nil => exact ⟨_, by rw [printIM]⟩
  | cons y ys => exact ⟨_, by rw [printIM]⟩

theorem skipWs_printIndented (ind : Bytes) (k : Nat) (c : Cst) (rest : Bytes) (h : WFC c = true) :
    skipWs (printIndented ind k c ++ rest) = printIndented ind k c ++ rest := by
  obtain ⟨b, t, hp, hb⟩ := printIndented_head ind k c h
  exact skipWs_start _ rest b t hp hb

section
variable (ind : Bytes) (hind : ∀ b ∈ ind, isWs b = true)
include hind

mutual
theorem parseValue_printI : ∀ (c : Cst) (fuel d k : Nat) (rest : Bytes), WFC c = true →
    (printIndented ind k c).length < fuel → d + c.depth ≤ maxDepth → numStop rest →
    parseValue fuel d (printIndented ind k c ++ rest) = some (c, rest)
  | .lit l, fuel, d, k, rest, hw, hf, hd, hr => by
    cases fuel with
    | zero => omega
    | succ f => rw [printIndented]; exact parseValue_print_lit l f d rest (by simpa [WFC] using hw) hr
  | .str b, fuel, d, k, rest, hw, hf, hd, hr => by
    cases fuel with
    | zero => omega
    | succ f =>
      have := parseValue_print_str b f d rest (by simpa [WFC] using hw)
      rw [printIndented]; simpa [Cst.print] using this
  | .arr xs, fuel, d, k, rest, hw, hf, hd, hr => by
    have ih := parseElems_printI xs
    cases fuel with
    | zero => omega
    | succ f =>
      cases xs with
      | nil =>
        simp only [Cst.depth, Cst.depthL] at hd
        rw [printIndented]
        exact parseValue_arr_nil f d _ rest (by omega) (skipWs_cons 93 rest (by decide))
      | cons x tl =>
        simp only [WFC, WFCL, Bool.and_eq_true] at hw
        simp only [Cst.depth] at hd
        rw [printIndented] at hf ⊢
        simp only [List.isEmpty_cons, Bool.false_eq_true, if_false, List.length_cons, List.length_append] at hf
        simp only [List.isEmpty_cons, Bool.false_eq_true, if_false, List.cons_append, List.append_assoc]
        obtain ⟨b, t, hp, hb⟩ := printIE_head ind k x tl hw.1
        have hs : skipWs (newline ind (k + 1) ++ (printIE ind k (x :: tl) ++ rest)) =
            printIE ind k (x :: tl) ++ rest := by
          rw [skipWs_ws_append _ _ (newline_ws ind hind _)]
          exact skipWs_start _ rest b t hp hb
        rw [parseValue_arr_cons f d _ (by omega), hs,
          ih f (d + 1) k rest (by simp) (by simp [WFCL, hw]) (by omega) (by omega)]
        · rfl
        · intro r hr'
          rw [hs, hp] at hr'
          simp only [List.cons_append, List.cons.injEq] at hr'
          exact (startByte_spec b hb).2.1 hr'.1
  | .obj ms, fuel, d, k, rest, hw, hf, hd, hr => by
    have ih := parseMembers_printI ms
    cases fuel with
    | zero => omega
    | succ f =>
      cases ms with
      | nil =>
        simp only [Cst.depth, Cst.depthM] at hd
        rw [printIndented]
        exact parseValue_obj_nil f d _ rest (by omega) (skipWs_cons 125 rest (by decide))
      | cons m tl =>
        simp only [WFC] at hw
        simp only [Cst.depth] at hd
        rw [printIndented] at hf ⊢
        simp only [List.isEmpty_cons, Bool.false_eq_true, if_false, List.length_cons, List.length_append] at hf
        simp only [List.isEmpty_cons, Bool.false_eq_true, if_false, List.cons_append, List.append_assoc]
        obtain ⟨t, hp⟩ := printIM_head ind k m tl
        have hs : skipWs (newline ind (k + 1) ++ (printIM ind k (m :: tl) ++ rest)) =
            printIM ind k (m :: tl) ++ rest := by
          rw [skipWs_ws_append _ _ (newline_ws ind hind _)]
          exact skipWs_start _ rest 34 t hp (by decide)
        rw [parseValue_obj_cons f d _ (by omega), hs,
          ih f (d + 1) k rest (by simp) hw (by omega) (by omega)]
        · rfl
        · intro r hr'
          rw [hs, hp] at hr'
          simp only [List.cons_append, List.cons.injEq] at hr'
          exact absurd hr'.1 (by decide)
theorem parseElems_printI : ∀ (xs : List Cst) (fuel d k : Nat) (rest : Bytes), xs ≠ [] →
    WFCL xs = true → (printIE ind k xs).length < fuel → d + Cst.depthL xs ≤ maxDepth →
    parseElems fuel d (printIE ind k xs ++ rest) = some (xs, rest)
  | [], _, _, _, _, hne, _, _, _ => absurd rfl hne
  | x :: tl, fuel, d, k, rest, _, hw, hf, hd => by
    have ihx := parseValue_printI x
    have iht := parseElems_printI tl
    simp only [WFCL, Bool.and_eq_true] at hw
    simp only [Cst.depthL] at hd
    cases fuel with
    | zero => omega
    | succ f =>
      cases tl with
      | nil =>
        simp only [printIE, List.length_append, List.length_cons] at hf
        simp only [printIE, List.append_assoc, List.cons_append, List.nil_append]
        have h1 := ihx f d (k + 1) (newline ind k ++ 93 :: rest) hw.1 (by omega) (by omega)
          (numStop_newline ind k _)
        exact parseElems_last f d _ _ rest x h1 (by
          rw [skipWs_ws_append _ _ (newline_ws ind hind _)]; exact skipWs_cons 93 rest (by decide))
      | cons y ys =>
        simp only [printIE, List.length_append, List.length_cons] at hf
        simp only [printIE, List.append_assoc, List.cons_append]
        have h1 := ihx f d (k + 1) (44 :: (newline ind (k + 1) ++ (printIE ind k (y :: ys) ++ rest))) hw.1
          (by omega) (by omega) (by simp only [numStop]; decide)
        obtain ⟨b, t, hp, hb⟩ := printIE_head ind k y ys (by simp only [WFCL, Bool.and_eq_true] at hw; exact hw.2.1)
        have hs : skipWs (newline ind (k + 1) ++ (printIE ind k (y :: ys) ++ rest)) =
            printIE ind k (y :: ys) ++ rest := by
          rw [skipWs_ws_append _ _ (newline_ws ind hind _)]
          exact skipWs_start _ rest b t hp hb
        rw [parseElems_more f d _ _ _ x h1 (skipWs_cons 44 _ (by decide)), hs,
          iht f d k rest (by simp) hw.2 (by omega) (by omega)]
        rfl
theorem parseMembers_printI : ∀ (ms : List (Bytes × Cst)) (fuel d k : Nat) (rest : Bytes), ms ≠ [] →
    WFCM ms = true → (printIM ind k ms).length < fuel → d + Cst.depthM ms ≤ maxDepth →
    parseMembers fuel d (printIM ind k ms ++ rest) = some (ms, rest)
  | [], _, _, _, _, hne, _, _, _ => absurd rfl hne
  | (key, v) :: tl, fuel, d, k, rest, _, hw, hf, hd => by
    have ihv := parseValue_printI v
    have iht := parseMembers_printI tl
    simp only [WFCM, Bool.and_eq_true] at hw
    simp only [Cst.depthM] at hd
    cases fuel with
    | zero => omega
    | succ f =>
      cases tl with
      | nil =>
        simp only [printIM, List.length_append, List.length_cons] at hf
        simp only [printIM, List.append_assoc, List.cons_append, List.nil_append]
        have h1 := parseStrBody_valid key (58 :: 32 :: (printIndented ind (k + 1) v ++ (newline ind k ++ 125 :: rest))) hw.1.1
        have h3 := ihv f d (k + 1) (newline ind k ++ 125 :: rest) hw.1.2 (by omega) (by omega)
          (numStop_newline ind k _)
        have hsv : skipWs (32 :: (printIndented ind (k + 1) v ++ (newline ind k ++ 125 :: rest))) =
            printIndented ind (k + 1) v ++ (newline ind k ++ 125 :: rest) := by
          simp only [skipWs, show isWs 32 = true by decide, if_true]
          exact skipWs_printIndented ind (k + 1) v _ hw.1.2
        rw [← hsv] at h3
        exact parseMembers_last f d _ key _ _ _ rest v h1 (skipWs_cons 58 _ (by decide)) h3 (by
          rw [skipWs_ws_append _ _ (newline_ws ind hind _)]; exact skipWs_cons 125 rest (by decide))
      | cons m ms =>
        simp only [printIM, List.length_append, List.length_cons] at hf
        simp only [printIM, List.append_assoc, List.cons_append]
        have h1 := parseStrBody_valid key (58 :: 32 :: (printIndented ind (k + 1) v ++
          44 :: (newline ind (k + 1) ++ (printIM ind k (m :: ms) ++ rest)))) hw.1.1
        have h3 := ihv f d (k + 1) (44 :: (newline ind (k + 1) ++ (printIM ind k (m :: ms) ++ rest))) hw.1.2
          (by omega) (by omega) (by simp only [numStop]; decide)
        have hsv : skipWs (32 :: (printIndented ind (k + 1) v ++
            44 :: (newline ind (k + 1) ++ (printIM ind k (m :: ms) ++ rest)))) =
            printIndented ind (k + 1) v ++ 44 :: (newline ind (k + 1) ++ (printIM ind k (m :: ms) ++ rest)) := by
          simp only [skipWs, show isWs 32 = true by decide, if_true]
          exact skipWs_printIndented ind (k + 1) v _ hw.1.2
        rw [← hsv] at h3
        obtain ⟨t, hp⟩ := printIM_head ind k m ms
        have hs : skipWs (newline ind (k + 1) ++ (printIM ind k (m :: ms) ++ rest)) =
            printIM ind k (m :: ms) ++ rest := by
          rw [skipWs_ws_append _ _ (newline_ws ind hind _)]
          exact skipWs_start _ rest 34 t hp (by decide)
        rw [parseMembers_more f d _ key _ _ _ _ v h1 (skipWs_cons 58 _ (by decide)) h3
          (skipWs_cons 44 _ (by decide)), hs, iht f d k rest (by simp) hw.2 (by omega) (by omega)]
        rfl
end

/-- the indented print of a well-formed tree, followed by white space, parses back to the tree -/
theorem parse_printIndented (c : Cst) (ws : Bytes) (hc : WFC c = true) (hd : c.depth ≤ maxDepth)
    (hws : skipWs ws = []) : parseCst (printIndented ind 0 c ++ ws) = some c := by
  have h1 := parseValue_printI ind hind c ((printIndented ind 0 c ++ ws).length + 1) 0 0 ws hc
    (by simp only [List.length_append]; omega) (by omega) (numStop_of_skipWs_nil ws hws)
  have h2 := skipWs_printIndented ind 0 c ws hc
  unfold parseCst
  rw [h2, h1]
  simp [hws]

end

end JP
