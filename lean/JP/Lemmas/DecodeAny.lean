import JP.Lemmas.DecodeViews
import JP.Lemmas.CloseMergeSorted

/-!
# Decoding into `any`: the dynamic value, in the sorted normal form of `Impl.anyOf`
-/

namespace JP
namespace Codec

open Impl Value

/-! ### sorted member lists are determined by their lookups -/

theorem lookup_none_of_lt (k : Bytes) : ∀ (ms : Members), (∀ y ∈ ms, bytesLt k y.1 = true) → lookup k ms = none
  | [], _ => rfl
  | (k', v) :: ms, h => by
    simp only [lookup]
    have hk : k' ≠ k := by
      intro e
      have := h (k', v) (List.mem_cons_self ..)
      simp only [e, bytesLt_irrefl] at this
      cases this
    simp only [hk, if_false]
    exact lookup_none_of_lt k ms (fun y hy => h y (List.mem_cons_of_mem _ hy))

theorem sorted_ext : ∀ (a b : Members), SortedK a → SortedK b → (∀ q, lookup q a = lookup q b) → a = b
  | [], [], _, _, _ => rfl
  | [], (k, v) :: b, _, _, h => by
    have := h k; simp [lookup] at this
  | (k, v) :: a, [], _, _, h => by
    have := h k; simp [lookup] at this
  | (k1, v1) :: a, (k2, v2) :: b, ha, hb, h => by
    rw [SortedK_cons] at ha hb
    by_cases hk : k1 = k2
    · subst hk
      have hv : v1 = v2 := by
        have := h k1; simp only [lookup, if_true, Option.some.injEq] at this; exact this
      subst hv
      congr 1
      apply sorted_ext a b ha.2 hb.2
      intro q
      by_cases hq : k1 = q
      · subst hq
        rw [lookup_none_of_lt k1 a ha.1, lookup_none_of_lt k1 b hb.1]
      · have := h q
        simpa only [lookup, hq, if_false] using this
    · exfalso
      by_cases hlt : bytesLt k1 k2 = true
      · have h1 := h k1
        simp only [lookup, if_true, hk, Ne.symm hk, if_false] at h1
        rw [lookup_none_of_lt k1 b (fun y hy => bytesLt_trans _ _ _ hlt (hb.1 y hy))] at h1
        cases h1
      · have hlt' : bytesLt k2 k1 = true := bytesLt_total k1 k2 (by simpa using hlt) hk
        have h2 := h k2
        simp only [lookup, if_true, hk, if_false] at h2
        rw [lookup_none_of_lt k2 a (fun y hy => bytesLt_trans _ _ _ hlt' (ha.1 y hy))] at h2
        cases h2

/-! ### `canon` -/

theorem SortedK_canonM {ρ : Type} : ∀ (m : DMembersG ρ) (acc : Members), SortedK acc → SortedK (canonM m acc)
  | [], acc, h => h
  | (k, v) :: m, acc, h => SortedK_canonM m _ (SortedK_insertSorted k (canon v) acc h)

/-- names of a map representation are distinct (an invariant of `setD`) -/
def NoDupD {ρ : Type} : DMembersG ρ → Prop
  | [] => True
  | (k, _) :: m => lookupD k m = none ∧ NoDupD m

theorem lookup_canonM {ρ : Type} (q : Bytes) : ∀ (m : DMembersG ρ) (acc : Members), NoDupD m →
    lookup q (canonM m acc) = match lookupD q m with
      | some v => some (canon v)
      | none => lookup q acc
  | [], acc, _ => rfl
  | (k, v) :: m, acc, h => by
    simp only [canonM, lookupD]
    rw [lookup_canonM q m _ h.2, lookup_insertSorted]
    by_cases hk : k = q
    · subst hk
      simp only [if_true, h.1]
    · simp only [hk, if_false]

theorem noDupD_setD {ρ : Type} (k : Bytes) (v : DValG ρ) : ∀ m : DMembersG ρ, NoDupD m → NoDupD (setD k v m)
  | [], _ => ⟨rfl, trivial⟩
  | (k', v') :: m, h => by
    simp only [setD]
    split
    · rename_i hk
      subst hk
      exact h
    · rename_i hk
      refine ⟨?_, noDupD_setD k v m h.2⟩
      rw [lookupD_setD, if_neg (fun e : k = k' => hk e.symm)]
      exact h.1

/-- map assignment against sorted insertion -/
theorem canonM_setD {ρ : Type} (k : Bytes) (v : DValG ρ) (m : DMembersG ρ) (h : NoDupD m) :
    canonM (setD k v m) [] = insertSorted k (canon v) (canonM m []) := by
  apply sorted_ext _ _ (SortedK_canonM _ _ SortedK_nil)
    (SortedK_insertSorted _ _ _ (SortedK_canonM _ _ SortedK_nil))
  intro q
  rw [lookup_canonM q _ _ (noDupD_setD k v m h), lookup_insertSorted, lookup_canonM q m _ h, lookupD_setD]
  by_cases hk : k = q
  · simp only [hk, if_true]
  · simp only [hk, if_false]

mutual
/-- `canon` does not look at raw texts -/
theorem canon_mapRaw {ρ σ : Type} (f : ρ → σ) : ∀ v : DValG ρ, canon (mapRaw f v) = canon v
  | .rawText x => rfl
  | .nilPtr => rfl
  | .str s => rfl
  | .num l => rfl
  | .bool b => rfl
  | .null => rfl
  | .list xs => by simp only [mapRaw, canon, canonL_mapRawL f xs]
  | .nilSlice => rfl
  | .map ms => by simp only [mapRaw, canon, canonM_mapRawM f ms []]
  | .nilMap => rfl
theorem canonL_mapRawL {ρ σ : Type} (f : ρ → σ) : ∀ xs : List (DValG ρ), canonL (mapRawL f xs) = canonL xs
  | [] => rfl
  | x :: xs => by simp only [mapRawL, canonL, canon_mapRaw f x, canonL_mapRawL f xs]
theorem canonM_mapRawM {ρ σ : Type} (f : ρ → σ) : ∀ (ms : DMembersG ρ) (acc : Members),
    canonM (mapRawM f ms) acc = canonM ms acc
  | [], _ => rfl
  | (k, v) :: ms, acc => by simp only [mapRawM, canonM, canon_mapRaw f v, canonM_mapRawM f ms]
end

/-! ### `sem c .any` in normal form is `anyOf` of the value denoted -/

theorem noDupD_semM (t : Target) : ∀ (ms : List (Bytes × Cst)) (acc : DMembersG (Option Cst)), NoDupD acc →
    NoDupD (semM ms t acc)
  | [], _, h => h
  | (k, c) :: ms, acc, h => noDupD_semM t ms _ (noDupD_setD _ _ acc h)

theorem canon_semLit (s : Bytes) : canon (semLit s .any) = Cst.litValue s := by
  simp only [semLit, Cst.litValue, nullLit]
  by_cases h1 : s = ascii "null"
  · simp only [h1, if_true]; rfl
  · by_cases h2 : s = ascii "true"
    · simp only [h1, h2, if_true, if_false]; rfl
    · by_cases h3 : s = ascii "false"
      · simp only [h1, h2, h3, if_true, if_false]; rfl
      · simp only [h1, h2, h3, if_false]; rfl

mutual
theorem canon_sem : ∀ c : Cst, canon (sem c .any) = anyOf c.valueOf
  | .lit s => by
    rw [sem, canon_semLit, Cst.valueOf]
    simp only [Cst.litValue]
    by_cases h1 : s = ascii "null"
    · simp only [h1, if_true]; rfl
    · by_cases h2 : s = ascii "true"
      · simp only [h1, h2, if_true, if_false]; rfl
      · by_cases h3 : s = ascii "false"
        · simp only [h1, h2, h3, if_true, if_false]; rfl
        · simp only [h1, h2, h3, if_false]; rfl
  | .str b => rfl
  | .arr xs => by simp only [sem, canon, Cst.valueOf, anyOf, canonL_semL xs]
  | .obj ms => by
    simp only [sem, canon, Cst.valueOf, anyOf]
    rw [canonM_semM ms [] trivial]; rfl
theorem canonL_semL : ∀ xs : List Cst, canonL (semL xs .any) = anyOfL (Cst.valueOfL xs)
  | [] => rfl
  | x :: xs => by simp only [semL, canonL, Cst.valueOfL, anyOfL, canon_sem x, canonL_semL xs]
theorem canonM_semM : ∀ (ms : List (Bytes × Cst)) (acc : DMembersG (Option Cst)), NoDupD acc →
    canonM (semM ms .any acc) [] = anyOfM (Cst.valueOfM ms) (canonM acc [])
  | [], _, _ => rfl
  | (k, c) :: ms, acc, h => by
    simp only [semM, Cst.valueOfM, anyOfM]
    rw [canonM_semM ms _ (noDupD_setD _ _ acc h), canonM_setD _ _ acc h, canon_sem c]
end

end Codec
end JP

