import JP.Lemmas.TextUnq
import JP.Lemmas.TextUtf8Tree

/-!
# Closing the text hypotheses, part 3: decoded strings are valid UTF-8

`unquoteBytes` replaces every invalid byte sequence and every lone surrogate escape by U+FFFD, so
what it returns is always valid UTF-8: `VB b → isValidUtf8 (unquote b)`.  Also: the HTML escaper of
`compact` leaves a body without raw HTML-sensitive bytes alone.
-/

namespace JP

theorem encodeRune_nonscalar_A (r : Nat) (h : ¬ isScalar r) : encodeRune r = [0xEF, 0xBF, 0xBD] := by
  simp only [isScalar, not_or, not_and] at h
  have n1 : ¬ r < 0x80 := by omega
  have n2 : ¬ r < 0x800 := by omega
  have n3 : (0xD800 ≤ r ∧ r < 0xE000) ∨ r > 0x10FFFF := by omega
  simp only [encodeRune, n1, n2, n3, if_false, if_true]

theorem encodeRune_ne_nil (r : Nat) : encodeRune r ≠ [] := by
  simp only [encodeRune]
  split
  · simp
  · split
    · simp
    · split
      · simp
      · split <;> simp

/-- `utf8.EncodeRune` always writes valid UTF-8 -/
theorem isValidUtf8_encodeRune_A (r : Nat) : isValidUtf8 (encodeRune r) = true := by
  by_cases hr : isScalar r
  · have hd := decodeRune_encodeRune r hr []
    rw [List.append_nil] at hd
    cases he : encodeRune r with
    | nil => exact absurd he (encodeRune_ne_nil r)
    | cons b rest =>
      rw [he] at hd
      rw [isValidUtf8_cons, hd]
      have hne : ¬ (r = runeError ∧ (b :: rest).length = 1) := by
        rintro ⟨h1, h2⟩
        subst h1
        rw [← he] at h2
        revert h2; decide
      simp only [hne, if_false]
      rw [List.drop_length]; rfl
  · rw [encodeRune_nonscalar_A r hr]; decide

theorem escChar_ascii (e : UInt8) (h : simpleEsc e) : (escChar e).toNat < 128 := by
  rcases h with h | h | h | h | h | h | h | h <;> subst h <;> decide

/-- behind the validity gate the decoder returns valid UTF-8 -/
theorem unquoteBody_utf8 : ∀ (n : Nat) (b : Bytes), b.length ≤ n → VB b →
    ∃ x, unquoteBody b = some x ∧ isValidUtf8 x = true := by
  intro n
  induction n with
  | zero =>
    intro b hn _
    cases b with
    | nil => exact ⟨[], rfl, rfl⟩
    | cons _ _ => simp at hn
  | succ n ih =>
    intro b hn h
    rcases VB_cases b h with rfl | ⟨c, r, rfl, h92, h34, h32, hr⟩ | ⟨e, r, rfl, he, hr⟩ |
        ⟨g1, g2, g3, g4, r, rfl, x1, x2, x3, x4, hr⟩
    · exact ⟨[], rfl, rfl⟩
    · simp only [List.length_cons] at hn
      rw [unquoteBody_plain _ _ h92, if_neg (by simp only [h34, false_or]; omega)]
      by_cases hlt : c.toNat < 128
      · obtain ⟨x, hx, hu⟩ := ih r (by omega) hr
        exact ⟨c :: x, by simp only [hlt, if_true, hx, Option.map_some],
          by rw [isValidUtf8_ascii_cons c x hlt]; exact hu⟩
      · have hsz := decodeRune_size_pos c r
        have hv := VB_drop_rune c r (by omega) h
        obtain ⟨x, hx, hu⟩ := ih _ (by simp only [List.length_drop, List.length_cons]; omega) hv
        exact ⟨encodeRune (decodeRune (c :: r)).fst ++ x, by simp only [hlt, if_false, hx, Option.map_some],
          isValidUtf8_append_true _ _ (isValidUtf8_encodeRune_A _) hu⟩
    · simp only [List.length_cons] at hn
      obtain ⟨x, hx, hu⟩ := ih r (by omega) hr
      exact ⟨_, by rw [unquoteBody_simple _ _ he, hx, Option.map_some],
        by rw [isValidUtf8_ascii_cons _ x (escChar_ascii e he)]; exact hu⟩
    · simp only [List.length_cons] at hn
      obtain ⟨rr, hrr⟩ := hex4_isSome g1 g2 g3 g4 x1 x2 x3 x4
      obtain ⟨x, hx, hu⟩ := ih r (by omega) hr
      cases hs : isSurrogate rr with
      | false =>
        exact ⟨_, by rw [unquoteBody_u4 _ _ _ _ _ rr hrr hs, hx, Option.map_some],
          isValidUtf8_append_true _ _ (isValidUtf8_encodeRune_A _) hu⟩
      | true =>
        cases hp : utf16Pair rr (getu4 r) with
        | none =>
          exact ⟨_, by rw [unquoteBody_u4_lone _ _ _ _ _ rr hrr hs hp, hx, Option.map_some],
            isValidUtf8_append_true _ _ (isValidUtf8_encodeRune_A _) hu⟩
        | some dec =>
          rcases getu4_escBody r hr with ⟨k1, k2, k3, k4, r', rfl, hr', _⟩ | ⟨hg, _⟩
          · simp only [List.length_cons] at hn
            obtain ⟨y, hy, hyu⟩ := ih r' (by omega) hr'
            refine ⟨encodeRune dec ++ y, ?_, isValidUtf8_append_true _ _ (isValidUtf8_encodeRune_A _) hyu⟩
            rw [unquoteBody_u4_pair _ _ _ _ _ rr dec hrr hs hp]
            simp only [List.drop_succ_cons, List.drop_zero, hy, Option.map_some]
          · rw [hg] at hp; cases hp

/-- **decoded strings are valid UTF-8**: `unquoteBytes` replaces what is not -/
theorem unquote_utf8 (b : Bytes) (hb : VB b) : isValidUtf8 (unquote b) = true := by
  obtain ⟨x, hx, hu⟩ := unquoteBody_utf8 _ b (Nat.le_refl _) hb
  simp only [unquote, hx, Option.getD_some, hu]

/-- the escaper of `compact` leaves a body without raw HTML-sensitive bytes alone -/
theorem escBody_of_clean : ∀ (b : Bytes), hasRawHtml b = false → escBody b = b
  | [], _ => rfl
  | c :: rest, h => by
    rw [hasRawHtml_cons] at h
    simp only [Bool.or_eq_false_iff, decide_eq_false_iff_not, Bool.and_eq_false_iff] at h
    obtain ⟨⟨⟨⟨h1, h2⟩, h3⟩, h4⟩, h5⟩ := h
    have ih := escBody_of_clean rest h5
    by_cases hE : c = 0xE2
    · subst hE
      rcases h4 with h4 | h4
      · exact absurd rfl h4
      · simp only [beq_eq_false_iff_ne, ne_eq] at h4
        rw [escBody_E2 rest h4.1 h4.2, ih]
    · rw [escBody_plain c rest ⟨h1, h2, h3, hE⟩, ih]

end JP
