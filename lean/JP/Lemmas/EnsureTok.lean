import JP.Lemmas.EngineSpecFacts

/-!
# EnsurePathExistsOnAdd, part 1: reference tokens

`ensurePathExists` looks at the *undecoded* token when it decides whether a token is an array
index (`strconv.Atoi(part)`) or `-`, and at the decoded token when it calls the container
methods.  The specification only sees decoded tokens.  The two views coincide: a token that
contains `~` is neither a number nor `-`, before and after decoding.
-/

namespace JP
namespace Ens

open Impl

theorem decodeToken_of_no_tilde : ∀ p : Bytes, (126 : UInt8) ∉ p → decodeToken p = p
  | [], _ => rfl
  | [_], _ => rfl
  | a :: b :: rest, h => by
    simp only [List.mem_cons, not_or] at h
    have ha : a ≠ 126 := fun x => h.1 x.symm
    simp only [decodeToken, ha, false_and, if_false]
    rw [decodeToken_of_no_tilde (b :: rest) (by
      simp only [List.mem_cons, not_or]; exact ⟨h.2.1, h.2.2⟩)]

theorem decodeToken_tilde : ∀ p : Bytes, (126 : UInt8) ∈ p →
    (126 : UInt8) ∈ decodeToken p ∨ (47 : UInt8) ∈ decodeToken p
  | [], h => by simp at h
  | [c], h => Or.inl (by simpa [decodeToken] using h)
  | a :: b :: rest, h => by
    simp only [decodeToken]
    by_cases h1 : a = 126 ∧ b = 49
    · rw [if_pos h1]; exact Or.inr (by simp)
    · rw [if_neg h1]
      by_cases h2 : a = 126 ∧ b = 48
      · rw [if_pos h2]; exact Or.inl (by simp)
      · rw [if_neg h2]
        by_cases ha : a = 126
        · exact Or.inl (by simp [ha])
        · have : (126 : UInt8) ∈ b :: rest := by
            simp only [List.mem_cons] at h ⊢
            rcases h with h | h
            · exact absurd h.symm ha
            · exact h
          rcases decodeToken_tilde (b :: rest) this with h | h
          · exact Or.inl (List.mem_cons_of_mem _ h)
          · exact Or.inr (List.mem_cons_of_mem _ h)

theorem isDigit_ne {c : UInt8} (h : isDigit c = true) : c ≠ 126 ∧ c ≠ 47 := by
  simp only [isDigit, Bool.and_eq_true, decide_eq_true_eq] at h
  constructor
  · intro hc; subst hc; exact absurd h.2 (by decide)
  · intro hc; subst hc; exact absurd h.1 (by decide)

theorem digitsVal_digits : ∀ (s : Bytes) (acc n : Nat), digitsVal acc s = some n → ∀ c ∈ s, isDigit c = true
  | [], _, _, _ => by simp
  | c :: cs, acc, n, h => by
    simp only [digitsVal] at h
    by_cases hc : isDigit c = true
    · rw [if_pos hc] at h
      intro x hx
      simp only [List.mem_cons] at hx
      rcases hx with rfl | hx
      · exact hc
      · exact digitsVal_digits cs _ n h x hx
    · rw [if_neg hc] at h; cases h

/-- a token `Atoi` accepts contains neither `~` nor `/` -/
theorem atoi_clean {s : Bytes} {i : Int} (h : atoi s = some i) : (126 : UInt8) ∉ s ∧ (47 : UInt8) ∉ s := by
  cases s with
  | nil => simp [atoi] at h
  | cons c cs =>
    have key : ∀ n, digitsVal 0 cs = some n → (c = 45 ∨ c = 43) →
        (126 : UInt8) ∉ c :: cs ∧ (47 : UInt8) ∉ c :: cs := by
      intro n hn hc
      have hd := digitsVal_digits cs 0 n hn
      constructor
      · intro hm
        simp only [List.mem_cons] at hm
        rcases hm with hm | hm
        · rcases hc with hc | hc <;> (rw [hc] at hm; exact absurd hm (by decide))
        · exact (isDigit_ne (hd _ hm)).1 rfl
      · intro hm
        simp only [List.mem_cons] at hm
        rcases hm with hm | hm
        · rcases hc with hc | hc <;> (rw [hc] at hm; exact absurd hm (by decide))
        · exact (isDigit_ne (hd _ hm)).2 rfl
    simp only [atoi] at h
    by_cases h1 : c = 45
    · rw [if_pos h1] at h
      split at h
      · cases h
      · cases hn : digitsVal 0 cs with
        | none => rw [hn] at h; cases h
        | some n => exact key n hn (Or.inl h1)
    · rw [if_neg h1] at h
      by_cases h2 : c = 43
      · rw [if_pos h2] at h
        split at h
        · cases h
        · cases hn : digitsVal 0 cs with
          | none => rw [hn] at h; cases h
          | some n => exact key n hn (Or.inr h2)
      · rw [if_neg h2] at h
        cases hn : digitsVal 0 (c :: cs) with
        | none => rw [hn] at h; cases h
        | some n =>
          have hd := digitsVal_digits (c :: cs) 0 n hn
          exact ⟨fun hm => (isDigit_ne (hd _ hm)).1 rfl, fun hm => (isDigit_ne (hd _ hm)).2 rfl⟩

/-- `Atoi` gives the same answer on the token and on the decoded token -/
theorem atoi_decodeToken (p : Bytes) : atoi (decodeToken p) = atoi p := by
  by_cases ht : (126 : UInt8) ∈ p
  · have h1 : atoi p = none := by
      cases h : atoi p with
      | none => rfl
      | some i => exact absurd ht (atoi_clean h).1
    have h2 : atoi (decodeToken p) = none := by
      cases h : atoi (decodeToken p) with
      | none => rfl
      | some i =>
        rcases decodeToken_tilde p ht with h' | h'
        · exact absurd h' (atoi_clean h).1
        · exact absurd h' (atoi_clean h).2
    rw [h1, h2]
  · rw [decodeToken_of_no_tilde p ht]

/-- a token is `-` exactly when it decodes to `-` -/
theorem decodeToken_eq_dash (p : Bytes) : decodeToken p = [45] ↔ p = [45] := by
  by_cases ht : (126 : UInt8) ∈ p
  · constructor
    · intro h
      rcases decodeToken_tilde p ht with h' | h' <;> (rw [h] at h'; exact absurd h' (by decide))
    · intro h; rw [h] at ht; exact absurd ht (by decide)
  · rw [decodeToken_of_no_tilde p ht]

end Ens
end JP
