import JP.Lemmas.MergeLawsMerge

/-!
# The difference function `Spec.diff`: equations, lookup characterisation, duplicate-freeness
-/

namespace JP
namespace Spec
open Value

/-! ### equations -/

theorem diffMs_nil (a : Members) : diffMs a [] = [] := by simp only [diffMs]

theorem diffMs_cons_none {a : Members} {k : Bytes} (h : lookup k a = none) (bv : Value) (bs : Members) :
    diffMs a ((k, bv) :: bs) = (k, bv) :: diffMs a bs := by simp only [diffMs, h]

theorem diffMs_cons_some {a : Members} {k : Bytes} {av : Value} (h : lookup k a = some av)
    (bv : Value) (bs : Members) :
    diffMs a ((k, bv) :: bs) = diffMember k av bv ++ diffMs a bs := by simp only [diffMs, h]

theorem diffMember_obj_obj (k : Bytes) (ams bms : Members) :
    diffMember k (.obj ams) (.obj bms) =
      if (diff ams bms).isEmpty = true then [] else [(k, .obj (diff ams bms))] := by
  simp only [diffMember, diff]
  split <;> simp_all

theorem diffMember_nonobj_obj (k : Bytes) {av : Value} (h : av.isObj = false) (bms : Members) :
    diffMember k av (.obj bms) = [(k, .obj bms)] := by
  cases av <;> simp [diffMember, isObj] at h ⊢

theorem diffMember_of_not_obj (k : Bytes) (av : Value) {bv : Value} (h : bv.isObj = false) :
    diffMember k av bv = if eqv av bv = true then [] else [(k, bv)] := by
  cases bv <;> simp [diffMember, isObj] at h ⊢

theorem deletions_nil (b : Members) : deletions b [] = [] := by simp only [deletions]

theorem deletions_cons (b : Members) (k : Bytes) (v : Value) (as : Members) :
    deletions b ((k, v) :: as) =
      if (lookup k b).isSome = true then deletions b as else (k, .null) :: deletions b as := by
  simp only [deletions]

/-- the patch entry for one common name: nothing or a single member under that name -/
theorem diffMember_shape (k : Bytes) (av bv : Value) :
    diffMember k av bv = [] ∨ ∃ x, diffMember k av bv = [(k, x)] := by
  by_cases hb : bv.isObj = true
  · cases bv <;> simp [isObj] at hb
    rename_i bms
    by_cases ha : av.isObj = true
    · cases av <;> simp [isObj] at ha
      rw [diffMember_obj_obj]
      split
      · exact Or.inl rfl
      · exact Or.inr ⟨_, rfl⟩
    · rw [diffMember_nonobj_obj k (by simpa using ha)]; exact Or.inr ⟨_, rfl⟩
  · rw [diffMember_of_not_obj k av (by simpa using hb)]
    split
    · exact Or.inl rfl
    · exact Or.inr ⟨_, rfl⟩

theorem lookup_diffMember_ne {k k' : Bytes} (h : k' ≠ k) (av bv : Value) :
    lookup k (diffMember k' av bv) = none := by
  rcases diffMember_shape k' av bv with h1 | ⟨x, h1⟩
  · rw [h1]; rfl
  · rw [h1, lookup_cons_ne h]; rfl

theorem lookup_diffMember_eq_none_iff (k : Bytes) (av bv : Value) :
    lookup k (diffMember k av bv) = none ↔ diffMember k av bv = [] := by
  rcases diffMember_shape k av bv with h1 | ⟨x, h1⟩
  · rw [h1]; simp [lookup]
  · rw [h1, lookup_cons_self]; simp

theorem diffMember_eq_of_lookup {k : Bytes} {av bv pv : Value}
    (h : lookup k (diffMember k av bv) = some pv) : diffMember k av bv = [(k, pv)] := by
  rcases diffMember_shape k av bv with h1 | ⟨x, h1⟩
  · rw [h1] at h; cases h
  · rw [h1, lookup_cons_self] at h; cases h; exact h1

/-! ### lookups -/

theorem lookup_deletions (k : Bytes) (b : Members) : ∀ as : Members,
    lookup k (deletions b as) =
      if (lookup k as).isSome = true ∧ lookup k b = none then some .null else none
  | [] => by simp [deletions_nil, lookup]
  | (k', v) :: as => by
    have ih := lookup_deletions k b as
    rw [deletions_cons]
    by_cases hk : k' = k
    · subst hk
      rw [lookup_cons_self]
      cases hb : lookup k' b with
      | none => simp [lookup_cons_self]
      | some w => simp [ih, hb]
    · rw [lookup_cons_ne hk]
      split
      · exact ih
      · rw [lookup_cons_ne hk]; exact ih

/-- the member of `diffMs a bs` under one name -/
def diffOpt (k : Bytes) (a : Option Value) : Option Value → Option Value
  | none => none
  | some bv =>
    match a with
    | none => some bv
    | some av => lookup k (diffMember k av bv)

@[simp] theorem diffOpt_none (k : Bytes) (a : Option Value) : diffOpt k a none = none := rfl
@[simp] theorem diffOpt_none_some (k : Bytes) (bv : Value) : diffOpt k none (some bv) = some bv := rfl
@[simp] theorem diffOpt_some_some (k : Bytes) (av bv : Value) :
    diffOpt k (some av) (some bv) = lookup k (diffMember k av bv) := rfl

theorem lookup_diffMs (k : Bytes) (a : Members) : ∀ bs : Members, nodupKeys (bs.map Prod.fst) = true →
    lookup k (diffMs a bs) = diffOpt k (lookup k a) (lookup k bs)
  | [], _ => by simp [diffMs_nil, lookup]
  | (k', bv) :: bs, hnd => by
    rw [nodupKeys_members_cons] at hnd
    have ih := lookup_diffMs k a bs hnd.2
    by_cases hk : k' = k
    · subst hk
      rw [lookup_cons_self]
      rw [hnd.1] at ih
      cases ha : lookup k' a with
      | none => rw [diffMs_cons_none ha, lookup_cons_self]; rfl
      | some av =>
        rw [diffMs_cons_some ha, lookup_append, ih]
        simp
    · rw [lookup_cons_ne hk]
      cases ha : lookup k' a with
      | none => rw [diffMs_cons_none ha, lookup_cons_ne hk]; exact ih
      | some av =>
        rw [diffMs_cons_some ha, lookup_append, lookup_diffMember_ne hk, ih]
        simp

/-- the member of `diff a b` under one name -/
def diffOptFull (k : Bytes) (a b : Option Value) : Option Value :=
  match b with
  | none => (match a with | none => none | some _ => some .null)
  | some bv => (match a with | none => some bv | some av => lookup k (diffMember k av bv))

@[simp] theorem diffOptFull_none_none (k : Bytes) : diffOptFull k none none = none := rfl
@[simp] theorem diffOptFull_some_none (k : Bytes) (av : Value) : diffOptFull k (some av) none = some .null := rfl
@[simp] theorem diffOptFull_none_some (k : Bytes) (bv : Value) : diffOptFull k none (some bv) = some bv := rfl
@[simp] theorem diffOptFull_some_some (k : Bytes) (av bv : Value) :
    diffOptFull k (some av) (some bv) = lookup k (diffMember k av bv) := rfl

theorem lookup_diff (k : Bytes) (a b : Members) (hnd : nodupKeys (b.map Prod.fst) = true) :
    lookup k (diff a b) = diffOptFull k (lookup k a) (lookup k b) := by
  rw [diff, lookup_append, lookup_diffMs k a b hnd, lookup_deletions]
  cases ha : lookup k a <;> cases hb : lookup k b <;> simp

/-! ### duplicate-free names -/

theorem nodupKeys_append : ∀ (xs ys : Members), nodupKeys (xs.map Prod.fst) = true →
    nodupKeys (ys.map Prod.fst) = true →
    (∀ k, (lookup k xs).isSome = true → lookup k ys = none) →
    nodupKeys ((xs ++ ys).map Prod.fst) = true
  | [], ys, _, hy, _ => hy
  | (k, v) :: xs, ys, hx, hy, hd => by
    rw [nodupKeys_members_cons] at hx
    rw [List.cons_append, nodupKeys_members_cons, lookup_append, hx.1, hd k (by simp [lookup_cons_self])]
    refine ⟨rfl, nodupKeys_append xs ys hx.2 hy fun k' hk' => hd k' ?_⟩
    by_cases hk : k = k'
    · subst hk; simp [lookup_cons_self]
    · rw [lookup_cons_ne hk]; exact hk'

theorem nodupKeys_deletions (b : Members) : ∀ as : Members, nodupKeys (as.map Prod.fst) = true →
    nodupKeys ((deletions b as).map Prod.fst) = true
  | [], _ => by rw [deletions_nil]; rfl
  | (k, v) :: as, h => by
    rw [nodupKeys_members_cons] at h
    rw [deletions_cons]
    split
    · exact nodupKeys_deletions b as h.2
    · rw [nodupKeys_members_cons, lookup_deletions, h.1]
      exact ⟨by simp, nodupKeys_deletions b as h.2⟩

theorem nodupKeys_diffMs (a : Members) : ∀ bs : Members, nodupKeys (bs.map Prod.fst) = true →
    nodupKeys ((diffMs a bs).map Prod.fst) = true
  | [], _ => by rw [diffMs_nil]; rfl
  | (k, bv) :: bs, h => by
    have h0 := h
    rw [nodupKeys_members_cons] at h
    have ih := nodupKeys_diffMs a bs h.2
    have hnone : lookup k (diffMs a bs) = none := by rw [lookup_diffMs k a bs h.2, h.1]; rfl
    cases ha : lookup k a with
    | none => rw [diffMs_cons_none ha, nodupKeys_members_cons]; exact ⟨hnone, ih⟩
    | some av =>
      rw [diffMs_cons_some ha]
      rcases diffMember_shape k av bv with h1 | ⟨x, h1⟩
      · rw [h1]; exact ih
      · rw [h1, List.cons_append, List.nil_append, nodupKeys_members_cons]; exact ⟨hnone, ih⟩

theorem nodupKeys_diff (a b : Members) (ha : nodupKeys (a.map Prod.fst) = true)
    (hb : nodupKeys (b.map Prod.fst) = true) : nodupKeys ((diff a b).map Prod.fst) = true := by
  rw [diff]
  refine nodupKeys_append _ _ (nodupKeys_diffMs a b hb) (nodupKeys_deletions b a ha) ?_
  intro k hk
  rw [lookup_diffMs k a b hb] at hk
  rw [lookup_deletions]
  cases hbk : lookup k b with
  | none => rw [hbk] at hk; simp at hk
  | some w => simp

end Spec
end JP
