import JP.Lemmas.HeapFind

/-!
# The operations of the heap model refine the value model's: remove, add, replace
-/

namespace JP
namespace Heap

open JP.Impl (Node NMembers Outcome walk Walk putChild conGet Opts Op Root)

/-- the state after an operation: the root represents the value model's new document as a TREE,
and the heap changed only inside the old footprint and by allocation -/
def RelSt (h : Heap) (fp : List Nat) (s' : St) (r' : Root) : Prop :=
  ∃ fp', Repr s'.h r'.con (some s'.root) fp' ∧ Ext h s'.h fp fp'

theorem opRemove_refines (o : Opts) {s : St} {r : Root} {fp : List Nat} (op : Op)
    (hr : Repr s.h r.con (some s.root) fp) :
    OutRel (RelSt s.h fp) (Heap.opRemove o s op) (Impl.opRemove o r op) := by
  have hF := findObject_refines o r op.path hr
  unfold Heap.opRemove Impl.opRemove
  cases hf : findObject o s.h s.root op.path with
  | panic =>
    rw [hf] at hF; simp only [FoundP] at hF
    rw [hF]; simp [Impl.liftWalk]
  | err e => rw [hf] at hF; simp only [FoundP] at hF
  | ok res =>
    obtain ⟨h1, oc⟩ := res
    rw [hf] at hF
    cases oc with
    | none =>
      simp only [FoundP] at hF
      obtain ⟨n', fp', h1r, e1, hw⟩ := hF
      rw [hw]
      simp only [Impl.liftWalk]
      by_cases ha : o.allow = true
      · simp only [ha, if_true, OutRel_ok_ok]
        exact ⟨fp', h1r, e1⟩
      · simp [ha]
    | some ck =>
      obtain ⟨c, key⟩ := ck
      simp only [FoundP] at hF
      obtain ⟨conc, fc, ctx, plug, s', hrc, dc, e1, hctx, vctx, hw⟩ := hF
      rw [hw]
      have hR := hRemove_refines o s' key hrc
      simp only
      cases h1 : hRemove o h1 c key with
      | panic =>
        cases h2 : Impl.conRemove o conc key with
        | panic => simp [liftHeap, doneOf, Impl.liftWalk]
        | ok x => rw [h1, h2] at hR; simp at hR
        | err e => rw [h1, h2] at hR; simp at hR
      | err e =>
        cases h2 : Impl.conRemove o conc key with
        | panic => rw [h1, h2] at hR; simp at hR
        | ok x => rw [h1, h2] at hR; simp at hR
        | err e' =>
          rw [h1, h2] at hR; simp only [OutRel_err_err] at hR; subst hR
          simp [liftHeap, doneOf, Impl.liftWalk]
      | ok h' =>
        cases h2 : Impl.conRemove o conc key with
        | panic => rw [h1, h2] at hR; simp at hR
        | err e' => rw [h1, h2] at hR; simp at hR
        | ok con' =>
          rw [h1, h2] at hR; simp only [OutRel_ok_ok] at hR
          obtain ⟨fc', cell', rfl, hr', sub, _⟩ := hR
          simp only [liftHeap, doneOf, Impl.liftWalk, OutRel_ok_ok]
          have hcm := commit hrc dc e1 hctx vctx [] cell' (by simpa using hr')
            (fun x hx => ⟨fun hy => dc x (sub x hx) hy, e1.sub x (by simp [sub x hx])⟩)
          obtain ⟨fp', a1, a2, _⟩ := hcm
          exact ⟨fp', by simpa using a1, by simpa using a2⟩

/-! ### fresh roots and fresh values -/

/-- a tree all of whose cells were allocated after `h` -/
def FreshTree (h : Heap) (s' : St) (con : Node) : Prop :=
  ∃ fp', Repr s'.h con (some s'.root) fp' ∧ (∃ ext, s'.h = h ++ ext) ∧ ∀ x ∈ fp', h.length ≤ x

theorem FreshTree.relSt {h : Heap} {fp : List Nat} {s' : St} {r' : Root} (ft : FreshTree h s' r'.con) :
    RelSt h fp s' r' := by
  obtain ⟨fp', hr, ⟨ext, he⟩, fr⟩ := ft
  refine ⟨fp', hr, ?_, fun x hx _ => ?_, fun x hx => Or.inr (fr x hx)⟩
  · rw [he]; simp
  · rw [he]; exact List.getElem?_append_left hx

theorem fresh_ary {h : Heap} (xs : List Cst) :
    FreshTree h ⟨(newChildren h xs).1 ++ [.ary (newChildren h xs).2], (newChildren h xs).1.length⟩
      (Impl.decodeAry xs) := by
  obtain ⟨ext, f, he, rl, fr⟩ := newChildren_spec xs h
  have hlen : h.length ≤ (newChildren h xs).1.length := by rw [he]; simp
  have hnot : (newChildren h xs).1.length ∉ f := by
    intro hx
    have := ReprL.valid _ rl _ hx
    omega
  refine ⟨_ :: f, Repr.mk_ary (by simp) (ReprL.alloc rl _) hnot,
    ⟨ext ++ [.ary (newChildren h xs).2], by simp [he]⟩, ?_⟩
  intro x hx
  simp only [List.mem_cons] at hx
  rcases hx with rfl | hx
  · exact hlen
  · exact fr x hx

theorem fresh_doc {h : Heap} (ms : List (Bytes × Cst)) :
    FreshTree h ⟨(newMembers h ms []).1 ++ [.doc (Impl.decodeKeys ms) (newMembers h ms []).2],
      (newMembers h ms []).1.length⟩ (Impl.decodeDoc ms) := by
  obtain ⟨ext, f, he, rl, fr⟩ := newMembers_spec ms h [] [] [] (ReprM.mk_nil h)
  have hlen : h.length ≤ (newMembers h ms []).1.length := by rw [he]; simp
  have hnot : (newMembers h ms []).1.length ∉ f := by
    intro hx
    have := ReprM.valid _ rl _ hx
    omega
  refine ⟨_ :: f, Repr.mk_doc (by simp) (ReprM.alloc rl _) hnot,
    ⟨ext ++ [.doc (Impl.decodeKeys ms) (newMembers h ms []).2], by simp [he]⟩, ?_⟩
  intro x hx
  simp only [List.mem_cons] at hx
  rcases hx with rfl | hx
  · exact hlen
  · rcases fr x hx with h1 | h1
    · cases h1
    · exact h1

theorem newRoot_refines (h : Heap) (c : Cst) :
    OutRel (FreshTree h) (newRoot h c) (Impl.decodeRoot c) := by
  cases c with
  | arr xs => simp only [newRoot, Impl.decodeRoot, OutRel_ok_ok]; exact fresh_ary xs
  | obj ms => simp only [newRoot, Impl.decodeRoot, OutRel_ok_ok]; exact fresh_doc ms
  | str b => simp [newRoot, Impl.decodeRoot]
  | lit l =>
    simp only [newRoot, Impl.decodeRoot]
    by_cases hl : l = ascii "null"
    · simp only [hl, if_true, OutRel_ok_ok]
      refine ⟨[h.length], ?_, ⟨[.docNil], rfl⟩, fun x hx => by simp at hx; omega⟩
      simp only [Repr]
      exact ⟨h.length, rfl, by simp, rfl⟩
    · simp [hl]

theorem newValue_spec (h : Heap) (op : Op) :
    ∃ ext fv, (newValue h op).1 = h ++ ext ∧
      Repr (newValue h op).1 (op.valueNode.getD .nil) (newValue h op).2 fv ∧ ∀ x ∈ fv, h.length ≤ x := by
  unfold newValue Op.valueNode
  cases op.value with
  | none => exact ⟨[], [], by simp, by simpa using Repr.mk_nil h, fun x hx => by cases hx⟩
  | some c =>
    refine ⟨[.raw c], [h.length], rfl, ?_, fun x hx => by simp at hx; omega⟩
    simp only [Option.map_some, Option.getD_some]
    exact Repr.mk_raw (by simp)

/-- link a fresh value into the container found (`add` / `replace` below the root) -/
theorem link_fresh {h h2 : Heap} {fp : List Nat} {root c : Nat} {conc : Node}
    {fc ctx : List Nat} {plug : Node → Node} (hrc : Repr h2 conc (some c) fc) (dc : Disj fc ctx)
    (e : Ext h h2 fp (fc ++ ctx)) (hctx : Ctx h2 root c ctx plug) (vctx : ∀ x ∈ ctx, x < h2.length)
    {ext : List Cell} {fv : List Nat} (frv : ∀ x ∈ fv, h2.length ≤ x)
    {h' : Heap} {con' : Node} (hw : Wrote (h2 ++ ext) c fc fv h' con') :
    ∃ fp', Repr h' (plug con') (some root) fp' ∧ Ext h h' fp fp' := by
  obtain ⟨fc', cell', rfl, hr', sub⟩ := hw
  have hcm := commit hrc dc e hctx vctx ext cell' hr' (fun x hx => ?_)
  · obtain ⟨fp', a1, a2, _⟩ := hcm
    exact ⟨fp', a1, a2⟩
  rcases sub x hx with h1 | h1
  · have h2l := frv x h1
    refine ⟨fun hy => ?_, Or.inr (Nat.le_trans e.len h2l)⟩
    have := vctx x hy
    omega
  · exact ⟨fun hy => dc x h1 hy, e.sub x (by simp [h1])⟩

/-- the value model's `findObject` + `add` -/
def vAddAt (o : Opts) (r1 : Root) (op : Op) : Outcome Root :=
  Impl.liftWalk r1
    (Impl.withPath o r1 op.path fun _ con key =>
      match Impl.conAdd o con key ((op.valueNode).getD .nil) with
      | .ok con' => .ok (con', ())
      | .err e => .err e
      | .panic => .panic)
    (fun _ => .err .missing)

theorem opAdd_eq (o : Opts) (r : Root) (op : Op) :
    Impl.opAdd o r op =
      if op.path = [] then
        match op.value with
        | none => .panic
        | some c =>
          match Impl.decodeRoot c with
          | .ok con => .ok { con := con, self := .raw c }
          | .err e => .err e
          | .panic => .panic
      else
        match (if o.ensure then Impl.ensurePath o r op.path else .ok r) with
        | .err e => .err e
        | .panic => .panic
        | .ok r1 => vAddAt o r1 op := by
  unfold Impl.opAdd
  rfl

theorem addAt_refines (o : Opts) {h1 : Heap} {root : Nat} {r1 : Root} {fp : List Nat} (op : Op)
    (hr : Repr h1 r1.con (some root) fp) :
    OutRel (RelSt h1 fp) (addAt o h1 root op) (vAddAt o r1 op) := by
  unfold addAt vAddAt
  have hF := findObject_refines o r1 op.path hr
  cases hf : findObject o h1 root op.path with
  | panic =>
    rw [hf] at hF; simp only [FoundP] at hF
    rw [hF]; simp [Impl.liftWalk]
  | err e => rw [hf] at hF; simp only [FoundP] at hF
  | ok res =>
    obtain ⟨h2, oc⟩ := res
    rw [hf] at hF
    cases oc with
    | none =>
      simp only [FoundP] at hF
      obtain ⟨n', fp', h1r, e1, hw⟩ := hF
      rw [hw]
      simp [Impl.liftWalk]
    | some ck =>
      obtain ⟨c, key⟩ := ck
      simp only [FoundP] at hF
      obtain ⟨conc, fc, ctx, plug, s', hrc, dc, e1, hctx, vctx, hw⟩ := hF
      rw [hw]
      obtain ⟨ext, fv, hext, rv, frv⟩ := newValue_spec h2 op
      have dv : Disj fv fc := by
        intro x hx hy
        have := frv x hx
        have := Repr.valid _ hrc x hy
        omega
      have hA := hAdd_refines o key (by rw [hext]; exact Repr.alloc hrc ext) rv dv
      simp only
      cases h1a : hAdd o (newValue h2 op).1 c key (newValue h2 op).2 with
      | panic =>
        cases h2a : Impl.conAdd o conc key (op.valueNode.getD .nil) with
        | panic => simp [liftHeap, doneOf, Impl.liftWalk]
        | ok x => rw [h1a, h2a] at hA; simp at hA
        | err e => rw [h1a, h2a] at hA; simp at hA
      | err e =>
        cases h2a : Impl.conAdd o conc key (op.valueNode.getD .nil) with
        | panic => rw [h1a, h2a] at hA; simp at hA
        | ok x => rw [h1a, h2a] at hA; simp at hA
        | err e' =>
          rw [h1a, h2a] at hA; simp only [OutRel_err_err] at hA; subst hA
          simp [liftHeap, doneOf, Impl.liftWalk]
      | ok h' =>
        cases h2a : Impl.conAdd o conc key (op.valueNode.getD .nil) with
        | panic => rw [h1a, h2a] at hA; simp at hA
        | err e' => rw [h1a, h2a] at hA; simp at hA
        | ok con' =>
          rw [h1a, h2a] at hA; simp only [OutRel_ok_ok] at hA
          rw [hext] at hA
          simp only [liftHeap, doneOf, Impl.liftWalk, OutRel_ok_ok]
          exact link_fresh hrc dc e1 hctx vctx frv hA

theorem addRoot_refines (o : Opts) {s : St} {fp : List Nat} (op : Op) :
    OutRel (RelSt s.h fp)
      (match op.value with
       | none => .panic
       | some c => newRoot s.h c)
      (match op.value with
       | none => .panic
       | some c =>
         match Impl.decodeRoot c with
         | .ok con => .ok { con := con, self := .raw c }
         | .err e => .err e
         | .panic => .panic) := by
  cases op.value with
  | none => simp
  | some c =>
    simp only
    have hN := newRoot_refines s.h c
    cases h1 : newRoot s.h c with
    | panic =>
      cases h2 : Impl.decodeRoot c with
      | panic => simp
      | ok x => rw [h1, h2] at hN; simp at hN
      | err e => rw [h1, h2] at hN; simp at hN
    | err e =>
      cases h2 : Impl.decodeRoot c with
      | panic => rw [h1, h2] at hN; simp at hN
      | ok x => rw [h1, h2] at hN; simp at hN
      | err e' => rw [h1, h2] at hN; simp only [OutRel_err_err] at hN; subst hN; simp
    | ok s' =>
      cases h2 : Impl.decodeRoot c with
      | panic => rw [h1, h2] at hN; simp at hN
      | err e' => rw [h1, h2] at hN; simp at hN
      | ok con =>
        rw [h1, h2] at hN; simp only [OutRel_ok_ok] at hN ⊢
        exact FreshTree.relSt (r' := { con := con, self := .raw c }) hN

theorem opAdd_refines (o : Opts) (he : o.ensure = false) {s : St} {r : Root} {fp : List Nat} (op : Op)
    (hr : Repr s.h r.con (some s.root) fp) :
    OutRel (RelSt s.h fp) (Heap.opAdd o s op) (Impl.opAdd o r op) := by
  rw [opAdd_eq]
  unfold Heap.opAdd
  by_cases hp : op.path = []
  · simp only [hp, if_true]
    exact addRoot_refines o op
  · simp only [hp, if_false, he, Bool.false_eq_true]
    exact addAt_refines o op hr

end Heap
end JP
