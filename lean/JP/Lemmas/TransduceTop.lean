import JP.Lemmas.TransduceEscLoop
import JP.Lemmas.TransduceIndent
import JP.Lemmas.ScanSim

/-!
# `compact`, `Indent`, `HTMLEscape` on well-formed texts: the outputs in closed form
-/

namespace JP

open Scanner

mutual
theorem escape_false : ∀ c : Cst, Cst.escape false c = c
  | .lit s => rfl
  | .str b => by simp [Cst.escape]
  | .arr xs => by rw [Cst.escape, escapeL_false xs]
  | .obj ms => by rw [Cst.escape, escapeM_false ms]
theorem escapeL_false : ∀ xs : List Cst, Cst.escapeL false xs = xs
  | [] => rfl
  | x :: xs => by rw [Cst.escapeL, escape_false x, escapeL_false xs]
theorem escapeM_false : ∀ ms : List (Bytes × Cst), Cst.escapeM false ms = ms
  | [] => rfl
  | (k, v) :: ms => by rw [Cst.escapeM, escape_false v, escapeM_false ms]; simp
end

theorem valid_of_parse (bs : Bytes) (c : Cst) (h : parseCst bs = some c) : valid bs = true := by
  rw [valid_iff_parseCst, h]; rfl

theorem compact_eq_some (e : Bool) (bs : Bytes) (hv : valid bs = true) :
    compact e bs = some (compactLoop e Scan.init 0 bs []).2.reverse := by
  have hfst : eof (compactLoop e Scan.init 0 bs []).1 = true := by
    rw [compactLoop_fst, eof_runE _ _ good_init, ← valid_eq_validFrom]; exact hv
  unfold compact
  generalize compactLoop e Scan.init 0 bs [] = p at *
  obtain ⟨s, out⟩ := p
  simp only at hfst ⊢
  simp [hfst]

theorem indent_eq_some (ind bs : Bytes) (hv : valid bs = true) :
    indent ind bs = some (indentLoop ind Scan.init false 0 bs []).2.reverse := by
  have hfst : eof (indentLoop ind Scan.init false 0 bs []).1 = true := by
    rw [indentLoop_fst, eof_runE _ _ good_init, ← valid_eq_validFrom]; exact hv
  unfold indent
  generalize indentLoop ind Scan.init false 0 bs [] = p at *
  obtain ⟨s, out⟩ := p
  simp only at hfst ⊢
  simp [hfst]

/-- `Compact` prints the parse tree -/
theorem compact_noescape (bs : Bytes) (c : Cst) (h : parseCst bs = some c) :
    compact false bs = some (Cst.print c) := by
  obtain ⟨rest, hp, hws⟩ := parseCst_inv bs c h
  rw [compact_eq_some false bs (valid_of_parse bs c h), compactLoop_false_snd,
    ftr_parse _ bs c rest hp hws, emitC_append, emitC_toksV, emitC_scanEnd]
  simp

/-- `compact(escape = true)` prints the escaped parse tree -/
theorem compact_escape (bs : Bytes) (c : Cst) (h : parseCst bs = some c) :
    compact true bs = some (Cst.print (Cst.escape true c)) := by
  rw [compact_true_eq bs (valid_of_parse bs c h)]
  exact compact_noescape _ _ (parseCst_escBody bs c h)

/-- `Indent` prints the parse tree indented and keeps the trailing white space -/
theorem indent_spec (ind bs : Bytes) (c : Cst) (rest : Bytes) (f : Nat)
    (hp : parseValue f 0 (skipWs bs) = some (c, rest)) (hws : skipWs rest = [])
    (hv : valid bs = true) (hc : WFC c = true) :
    indent ind bs = some (Cst.printIndented ind 0 c ++ rest) := by
  rw [indent_eq_some ind bs hv, indentLoop_snd, ftr_parse f bs c rest hp hws,
    foldI_toksV ind c 0 [] _ hc, foldI_scanEnd ind 0 rest ((skipWs_nil_iff rest).1 hws)]
  simp

end JP
