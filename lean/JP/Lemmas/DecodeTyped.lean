import JP.Lemmas.DecodeIface

/-!
# `value` / `array` / `object` / `literalStore` on a well-formed text, for every target type

Induction along the reference parser: the decoded value is `sem c t` (raw messages compared through
their parse trees), a type error is saved exactly when `bad c t`, `lastKeys` becomes
`keysAfter c t lk`, and the decoder has read one byte beyond the value.
-/

namespace JP
namespace Codec

open Scanner

/-! ### saved errors -/

/-- `saveError` on the saved-error field -/
def saveE (se : Option DErr) (e : DErr) : Option DErr := if se.isNone then some e else se

theorem saveError_atD (data : Bytes) (n : Nat) (r : Scan × Nat) (se : Option DErr) (lk : List Bytes) (e : DErr) :
    (atD data n r se lk).saveError e = atD data n r (saveE se e) lk := by
  simp only [DState.saveError, atD, saveE]
  split <;> rename_i h <;> simp [h]

/-- `se'` is `se` after a stretch of decoding during which an error was saved iff `b` -/
def SeOK (se : Option DErr) (b : Bool) (se' : Option DErr) : Prop :=
  (b = false → se' = se) ∧ (b = true → se'.isSome = true ∧ (se.isSome = true → se' = se))

theorem seOK_false (se : Option DErr) : SeOK se false se := ⟨fun _ => rfl, fun h => (by cases h)⟩

theorem seOK_save (se : Option DErr) (e : DErr) : SeOK se true (saveE se e) := by
  refine ⟨fun h => (by cases h), fun _ => ?_⟩
  cases se with
  | none => exact ⟨rfl, fun h => (by cases h)⟩
  | some x => exact ⟨rfl, fun _ => rfl⟩

theorem seOK_trans {se se1 se2 : Option DErr} {b1 b2 : Bool} (h1 : SeOK se b1 se1) (h2 : SeOK se1 b2 se2) :
    SeOK se (b1 || b2) se2 := by
  cases b1 <;> cases b2
  · exact ⟨fun _ => by rw [h2.1 rfl, h1.1 rfl], fun h => (by cases h)⟩
  · refine ⟨fun h => (by cases h), fun _ => ?_⟩
    have := h2.2 rfl
    rw [h1.1 rfl] at this
    exact this
  · refine ⟨fun h => (by cases h), fun _ => ?_⟩
    rw [h2.1 rfl]; exact h1.2 rfl
  · refine ⟨fun h => (by cases h), fun _ => ?_⟩
    have a := h1.2 rfl
    have b := h2.2 rfl
    refine ⟨b.1, fun hs => ?_⟩
    rw [b.2 a.1, a.2 hs]

/-! ### `literalStore` as a function of the literal's text -/

/-- the value stored and the kind of the type error saved, if any -/
def litStoreVal (item : Bytes) (t : Target) : Option (DVal × Option JKind) :=
  match item with
  | [] => none
  | c :: _ =>
    if isUnmarshaler t (c = 110) then some (.rawText item, none)
    else if c = 110 then some (zero t, none)
    else if c = 116 ∨ c = 102 then
      (match t with
       | .any => some (.bool (c = 116), none)
       | _ => some (zero t, some .bool))
    else if c = 34 then
      (match unquoteBytes item with
       | none => none
       | some s =>
         match t with
         | .str => some (.str s, none)
         | .any => some (.str s, none)
         | _ => some (zero t, some .string))
    else if c ≠ 45 ∧ !isDigit c then none
    else
      (match t with
       | .any => some (.num item, none)
       | _ => some (zero t, some .number))

/-- what saving the error (if any) does to the state -/
def applyErr (d : DState) : Option JKind → DState
  | none => d
  | some k => d.saveError (.typeError k d.readIndex)

theorem literalStore_of (item : Bytes) (t : Target) (d : DState) (v : DVal) (ko : Option JKind)
    (h : litStoreVal item t = some (v, ko)) : literalStore item t d = .ok (applyErr d ko, v) := by
  cases item with
  | nil => simp [litStoreVal] at h
  | cons c item' =>
    simp only [litStoreVal] at h
    simp only [literalStore]
    by_cases h0 : isUnmarshaler t (decide (c = 110)) = true
    · simp only [h0, if_true, Option.some.injEq, Prod.mk.injEq] at h ⊢
      obtain ⟨rfl, rfl⟩ := h; rfl
    · simp only [h0, Bool.false_eq_true, if_false] at h ⊢
      by_cases h1 : c = 110
      · simp only [h1, if_true, Option.some.injEq, Prod.mk.injEq] at h ⊢
        obtain ⟨rfl, rfl⟩ := h; rfl
      · simp only [h1, if_false] at h ⊢
        by_cases h2 : c = 116 ∨ c = 102
        · simp only [h2, if_true] at h ⊢
          cases t <;> simp only [Option.some.injEq, Prod.mk.injEq] at h <;> obtain ⟨rfl, rfl⟩ := h <;> rfl
        · simp only [h2, if_false] at h ⊢
          by_cases h3 : c = 34
          · simp only [h3, if_true] at h ⊢
            cases hu : unquoteBytes (34 :: item') with
            | none => rw [hu] at h; simp at h
            | some s =>
              rw [hu] at h
              simp only at h ⊢
              cases t <;> simp only [Option.some.injEq, Prod.mk.injEq] at h <;> obtain ⟨rfl, rfl⟩ := h <;> rfl
          · simp only [h3, if_false] at h ⊢
            by_cases h4 : c ≠ 45 ∧ (!isDigit c) = true
            · rw [if_pos h4] at h; cases h
            · rw [if_neg h4] at h ⊢
              cases t <;> simp only [Option.some.injEq, Prod.mk.injEq] at h <;> obtain ⟨rfl, rfl⟩ := h <;> rfl

theorem value_lit (G : Nat) (t : Target) (d d1 : DState) (item : Bytes) (v : DVal) (ko : Option JKind)
    (hop : d.opcode = scanBeginLiteral) (hres : rescanLiteral d = .ok d1)
    (hslice : slice? d1.data d.readIndex d1.readIndex = some item)
    (hval : litStoreVal item t = some (v, ko)) : value (G + 1) t d = .ok (applyErr d1 ko, v) := by
  have e1 : (scanBeginLiteral = scanBeginArray) = False := by decide
  have e2 : (scanBeginLiteral = scanBeginObject) = False := by decide
  simp only [value, hop, e1, e2, if_false, if_true, hres, hslice]
  exact literalStore_of item t d1 v ko hval

def TypedV (f dd : Nat) (bs : Bytes) (c : Cst) (rest : Bytes) : Prop :=
  parseValue f dd bs = some (c, rest) →
  ∀ stk : List Nat, stk.length = dd → ValueStk stk → ∀ (pre : Bytes) (x : UInt8) (bs' : Bytes), bs = x :: bs' →
    ∀ (se : Option DErr) (lk : List Bytes) (G : Nat), 3 * f ≤ G → DelimW rest → ∀ t : Target,
    ∃ vt D' v se', bs = vt ++ rest ∧ StartOp (step (bv stk) x).2 ∧
      value G t (atD (pre ++ bs) (pre.length + 1) (step (bv stk) x) se lk) = .ok (D', v) ∧
      view v = sem c t ∧ SeOK se (bad c t) se' ∧
      PostV D' (pre ++ bs) (pre ++ vt).length stk rest se' (keysAfter c t lk)

/-- the consumed text of a successful parse re-parses to the same tree -/
theorem reparse_of_parse (f d : Nat) (bs : Bytes) (c : Cst) (rest vt : Bytes)
    (hp : parseValue f d bs = some (c, rest)) (hbs : bs = vt ++ rest)
    (hhead : ∀ e t, vt = e :: t → isWs e = false) : parseCst vt = some c := by
  obtain ⟨vt', hbs', hend, hre⟩ := (split_all f).1 d bs c rest hp
  have : vt' = vt := List.append_cancel_right (by rw [← hbs', hbs])
  subst this
  exact reparse vt' c hend hhead (fun F d' rest' hF hd' hdl => hre F d' rest' hF (by omega) hdl)

theorem startOp_nonws (stk : List Nat) (x : UInt8) (h : StartOp (step (bv stk) x).2) : isWs x = false := by
  cases hw : isWs x with
  | false => rfl
  | true =>
    rw [step_bv_ws stk x hw] at h
    rcases h with h | h | h <;> cases h

theorem view_raw (vt : Bytes) : view (.rawText vt) = .rawText (parseCst vt) := rfl

theorem view_zero (t : Target) : view (zero t) = zeroG (parseCst []) t := by
  cases t with
  | raw p => cases p <;> rfl
  | _ => rfl

theorem parseCst_nil : parseCst [] = none := by decide

/-- literals: everything but what `literalStore` does with the text -/
theorem typed_lit (bs : Bytes) (c : Cst) (rest vt : Bytes) (hbs : bs = vt ++ rest) (x : UInt8) (bs' : Bytes)
    (hx : bs = x :: bs') (stk : List Nat) (X : St) (hX : step (bv stk) x = (mk X stk, scanBeginLiteral))
    (hres : ∀ (pre : Bytes) (se : Option DErr) (lk : List Bytes),
      rescanLiteral (atD (pre ++ (vt ++ rest)) (pre.length + 1) (mk X stk, scanBeginLiteral) se lk) =
        .ok (atD (pre ++ (vt ++ rest)) ((pre ++ vt).length + 1) (afterLit (mk X stk) rest) se lk))
    (hstore : ∀ t, ∃ v ko, litStoreVal vt t = some (v, ko) ∧ view v = sem c t ∧ ko.isSome = bad c t)
    (hkeys : ∀ t lk, keysAfter c t lk = lk) (pre : Bytes) (se : Option DErr) (lk : List Bytes) (G : Nat) (t : Target) :
    ∃ vt D' v se', bs = vt ++ rest ∧ StartOp (step (bv stk) x).2 ∧
      value (G + 1) t (atD (pre ++ bs) (pre.length + 1) (step (bv stk) x) se lk) = .ok (D', v) ∧
      view v = sem c t ∧ SeOK se (bad c t) se' ∧
      PostV D' (pre ++ bs) (pre ++ vt).length stk rest se' (keysAfter c t lk) := by
  obtain ⟨v, ko, hv, hview, hko⟩ := hstore t
  rw [hX, hkeys, hbs]
  have hsl : slice? (atD (pre ++ (vt ++ rest)) ((pre ++ vt).length + 1) (afterLit (mk X stk) rest) se lk).data
      (atD (pre ++ (vt ++ rest)) (pre.length + 1) (mk X stk, scanBeginLiteral) se lk).readIndex
      (atD (pre ++ (vt ++ rest)) ((pre ++ vt).length + 1) (afterLit (mk X stk) rest) se lk).readIndex = some vt := by
    simp only [DState.readIndex, atD_off, atD_data, Nat.add_sub_cancel, slice_mid]
  have hval := value_lit G t _ _ vt v ko rfl (hres pre se lk) hsl hv
  cases ko with
  | none =>
    refine ⟨vt, _, v, se, rfl, .inl rfl, hval, hview, ?_, postV_atD _ _ stk _ rest se lk⟩
    rw [← hko]; exact seOK_false se
  | some k =>
    simp only [applyErr, saveError_atD] at hval
    refine ⟨vt, _, v, _, rfl, .inl rfl, hval, hview, ?_, postV_atD _ _ stk _ rest _ lk⟩
    rw [← hko]; exact seOK_save se _

theorem store_str (b : Bytes) (hvb : VB b) (hparse : parseCst (strText b) = some (.str b)) (t : Target) :
    ∃ v ko, litStoreVal (strText b) t = some (v, ko) ∧ view v = sem (.str b) t ∧ ko.isSome = bad (.str b) t := by
  have hu := unquoteBytes_strText b hvb
  simp only [strText] at hu hparse
  have h110 : (decide ((34 : UInt8) = 110)) = false := by decide
  cases t with
  | raw p =>
    refine ⟨.rawText (strText b), none, ?_, by rw [view_raw]; simp only [strText, hparse, sem, semStr], rfl⟩
    simp only [litStoreVal, strText, isUnmarshaler, h110, Bool.and_false, Bool.not_false, if_true]
  | str =>
    refine ⟨.str (unquote b), none, ?_, rfl, rfl⟩
    simp only [litStoreVal, strText, isUnmarshaler, Bool.false_eq_true, if_false, hu]
    rw [if_neg (by decide), if_neg (by decide)]; rfl
  | any =>
    refine ⟨.str (unquote b), none, ?_, rfl, rfl⟩
    simp only [litStoreVal, strText, isUnmarshaler, Bool.false_eq_true, if_false, hu]
    rw [if_neg (by decide), if_neg (by decide)]; rfl
  | mapOf e =>
    refine ⟨zero (.mapOf e), some .string, ?_, rfl, rfl⟩
    simp only [litStoreVal, strText, isUnmarshaler, Bool.false_eq_true, if_false, hu]
    rw [if_neg (by decide), if_neg (by decide)]; rfl
  | sliceOf e =>
    refine ⟨zero (.sliceOf e), some .string, ?_, rfl, rfl⟩
    simp only [litStoreVal, strText, isUnmarshaler, Bool.false_eq_true, if_false, hu]
    rw [if_neg (by decide), if_neg (by decide)]; rfl

theorem parseCst_null : parseCst (ascii "null") = some (.lit (ascii "null")) := by rfl
theorem parseCst_true : parseCst (ascii "true") = some (.lit (ascii "true")) := by rfl
theorem parseCst_false : parseCst (ascii "false") = some (.lit (ascii "false")) := by rfl

theorem store_null (t : Target) :
    ∃ v ko, litStoreVal (ascii "null") t = some (v, ko) ∧ view v = sem (.lit (ascii "null")) t ∧
      ko.isSome = bad (.lit (ascii "null")) t := by
  cases t with
  | raw p =>
    cases p
    · exact ⟨_, none, rfl, by rw [view_raw, parseCst_null]; rfl, rfl⟩
    · exact ⟨_, none, rfl, rfl, rfl⟩
  | str => exact ⟨_, none, rfl, rfl, rfl⟩
  | any => exact ⟨_, none, rfl, rfl, rfl⟩
  | mapOf e => exact ⟨_, none, rfl, rfl, rfl⟩
  | sliceOf e => exact ⟨_, none, rfl, rfl, rfl⟩

theorem store_true (t : Target) :
    ∃ v ko, litStoreVal (ascii "true") t = some (v, ko) ∧ view v = sem (.lit (ascii "true")) t ∧
      ko.isSome = bad (.lit (ascii "true")) t := by
  cases t with
  | raw p => cases p <;> exact ⟨_, none, rfl, by rw [view_raw, parseCst_true]; rfl, rfl⟩
  | str => exact ⟨_, some .bool, rfl, rfl, rfl⟩
  | any => exact ⟨_, none, rfl, rfl, rfl⟩
  | mapOf e => exact ⟨_, some .bool, rfl, rfl, rfl⟩
  | sliceOf e => exact ⟨_, some .bool, rfl, rfl, rfl⟩

theorem store_false (t : Target) :
    ∃ v ko, litStoreVal (ascii "false") t = some (v, ko) ∧ view v = sem (.lit (ascii "false")) t ∧
      ko.isSome = bad (.lit (ascii "false")) t := by
  cases t with
  | raw p => cases p <;> exact ⟨_, none, rfl, by rw [view_raw, parseCst_false]; rfl, rfl⟩
  | str => exact ⟨_, some .bool, rfl, rfl, rfl⟩
  | any => exact ⟨_, none, rfl, rfl, rfl⟩
  | mapOf e => exact ⟨_, some .bool, rfl, rfl, rfl⟩
  | sliceOf e => exact ⟨_, some .bool, rfl, rfl, rfl⟩

theorem bad_num (c : UInt8) (lt : Bytes) (h1 : c ≠ 110) (t : Target) :
    bad (.lit (c :: lt)) t = (match t with | .raw _ => false | .any => false | _ => true) := by
  have : (c :: lt != nullLit) = true := by
    simp only [bne_iff_ne, ne_eq]
    exact lit_head_ne c lt nullLit 110 _ rfl h1
  cases t <;> simp only [bad, this]

theorem store_num (c : UInt8) (lt : Bytes) (hc : c = 45 ∨ isDigit c = true)
    (hparse : parseCst (c :: lt) = some (.lit (c :: lt))) (t : Target) :
    ∃ v ko, litStoreVal (c :: lt) t = some (v, ko) ∧ view v = sem (.lit (c :: lt)) t ∧
      ko.isSome = bad (.lit (c :: lt)) t := by
  obtain ⟨h1, h2, h3, h4, h5, h6⟩ := numHead_spec c hc
  have h110 : decide (c = 110) = false := by simp [h6]
  have hnp : ¬ (c ≠ 45 ∧ (!isDigit c) = true) := by
    intro h; rcases hc with hc | hc
    · exact h.1 hc
    · simp [hc] at h
  have hb := bad_num c lt h6
  cases t with
  | raw p =>
    refine ⟨.rawText (c :: lt), none, ?_, ?_, by rw [hb]; rfl⟩
    · simp only [litStoreVal, isUnmarshaler, h110, Bool.and_false, Bool.not_false, if_true]
    · rw [view_raw, hparse]; simp only [sem, semLit]
      rw [if_neg]; simp only [Bool.and_eq_true, decide_eq_true_eq, not_and]
      intro _; exact lit_head_ne c lt nullLit 110 _ rfl h6
  | str =>
    refine ⟨zero .str, some .number, ?_, rfl, by rw [hb]; rfl⟩
    simp only [litStoreVal, isUnmarshaler, Bool.false_eq_true, if_false]
    rw [if_neg h6, if_neg (by intro h; rcases h with h | h; exact h4 h; exact h5 h), if_neg h3, if_neg hnp]
  | any =>
    refine ⟨.num (c :: lt), none, ?_, by rw [sem_num_any c lt h6 h4 h5]; rfl, by rw [hb]; rfl⟩
    simp only [litStoreVal, isUnmarshaler, Bool.false_eq_true, if_false]
    rw [if_neg h6, if_neg (by intro h; rcases h with h | h; exact h4 h; exact h5 h), if_neg h3, if_neg hnp]
  | mapOf e =>
    refine ⟨zero (.mapOf e), some .number, ?_, rfl, by rw [hb]; rfl⟩
    simp only [litStoreVal, isUnmarshaler, Bool.false_eq_true, if_false]
    rw [if_neg h6, if_neg (by intro h; rcases h with h | h; exact h4 h; exact h5 h), if_neg h3, if_neg hnp]
  | sliceOf e =>
    refine ⟨zero (.sliceOf e), some .number, ?_, rfl, by rw [hb]; rfl⟩
    simp only [litStoreVal, isUnmarshaler, Bool.false_eq_true, if_false]
    rw [if_neg h6, if_neg (by intro h; rcases h with h | h; exact h4 h; exact h5 h), if_neg h3, if_neg hnp]

theorem keysAfter_lit (s : Bytes) (t : Target) (lk : List Bytes) : keysAfter (.lit s) t lk = lk := by
  simp only [keysAfter]
theorem keysAfter_str (b : Bytes) (t : Target) (lk : List Bytes) : keysAfter (.str b) t lk = lk := by
  simp only [keysAfter]

theorem typed_str (f d : Nat) (cs b rest : Bytes) (h : parseStrBody cs = some (b, rest)) :
    TypedV (f + 1) d (34 :: cs) (.str b) rest := by
  intro hp stk _ _ pre x bs' hx se lk G hG _ t
  obtain ⟨hcs, hvb⟩ := parseStrBody_split cs b rest h
  obtain ⟨G, rfl⟩ : ∃ G', G = G' + 1 := ⟨G - 1, by omega⟩
  have hx' := hx
  simp only [List.cons.injEq] at hx'
  obtain ⟨rfl, _⟩ := hx'
  have hdata : (34 : UInt8) :: cs = strText b ++ rest := by rw [hcs]; simp [strText]
  have hparse : parseCst (strText b) = some (.str b) :=
    reparse_of_parse (f + 1) d _ _ rest (strText b) hp hdata (by
      intro e t' he; simp only [strText, List.cons.injEq] at he; rw [← he.1]; decide)
  exact typed_lit _ (.str b) rest (strText b) hdata 34 bs' hx stk .stateInString (step_bv_quote stk)
    (fun pre se lk => rescan_string pre b rest hvb _ _ se lk) (store_str b hvb hparse)
    (keysAfter_str b) pre se lk G t

theorem typed_word (f d : Nat) (w rest : Bytes) (hw : w = ascii "true" ∨ w = ascii "false" ∨ w = ascii "null") :
    TypedV (f + 1) d (w ++ rest) (.lit w) rest := by
  intro hp stk _ _ pre x bs' hx se lk G hG _ t
  obtain ⟨G, rfl⟩ : ∃ G', G = G' + 1 := ⟨G - 1, by omega⟩
  have hres := fun (X : St) (pre : Bytes) (se : Option DErr) (lk : List Bytes) =>
    rescan_word pre w rest hw (mk X stk) scanBeginLiteral se lk
  rcases hw with rfl | rfl | rfl
  · have : x = 116 := by simp [ascii] at hx; exact hx.1.symm
    subst this
    exact typed_lit _ _ rest _ rfl 116 bs' hx stk .stateT (step_bv_t stk) (hres _) store_true (keysAfter_lit _)
      pre se lk G t
  · have : x = 102 := by simp [ascii] at hx; exact hx.1.symm
    subst this
    exact typed_lit _ _ rest _ rfl 102 bs' hx stk .stateF (step_bv_f stk) (hres _) store_false (keysAfter_lit _)
      pre se lk G t
  · have : x = 110 := by simp [ascii] at hx; exact hx.1.symm
    subst this
    exact typed_lit _ _ rest _ rfl 110 bs' hx stk .stateN (step_bv_n stk) (hres _) store_null (keysAfter_lit _)
      pre se lk G t

theorem typed_num (f d : Nat) (c : UInt8) (cs l rest : Bytes) (hc : c = 45 ∨ isDigit c = true)
    (hpn : parseNumber (c :: cs) = some (l, rest)) : TypedV (f + 1) d (c :: cs) (.lit l) rest := by
  intro hp stk _ _ pre x bs' hx se lk G hG hdl t
  obtain ⟨G, rfl⟩ : ∃ G', G = G' + 1 := ⟨G - 1, by omega⟩
  have hx' := hx
  simp only [List.cons.injEq] at hx'
  obtain ⟨rfl, _⟩ := hx'
  obtain ⟨hsp, hself⟩ := parseNumber_prefix _ _ _ hpn
  have halpha := parseNumber_alphabet _ _ _ hpn
  obtain ⟨c', lt, hl, _⟩ := parseNumber_head l l [] hself
  subst hl
  have hcc : c' = c := by simp only [List.cons_append, List.cons.injEq] at hsp; exact hsp.1.symm
  subst hcc
  obtain ⟨X, hX⟩ := step_bv_numhead stk c' hc
  have hparse : parseCst (c' :: lt) = some (.lit (c' :: lt)) :=
    reparse_of_parse (f + 1) d _ _ rest (c' :: lt) hp hsp (by
      intro e t' he; simp only [List.cons.injEq] at he; rw [← he.1]
      exact (startByte_spec c' (startByte_num c' hc)).1)
  exact typed_lit _ _ rest (c' :: lt) hsp c' bs' hx stk X hX
    (fun pre se lk => rescan_number pre c' lt rest hc (fun b hb => halpha b (List.mem_cons_of_mem _ hb))
      (delimW_numEnd rest hdl) _ _ se lk)
    (store_num c' lt hc hparse) (keysAfter_lit _) pre se lk G t

/-! ### containers: unfolding `value`, `array`, `object` -/

theorem value_arr (G : Nat) (t : Target) (d d1 : DState) (v : DVal) (hop : d.opcode = scanBeginArray)
    (h : array G t d = .ok (d1, v)) : value (G + 1) t d = .ok (scanNext d1, v) := by
  simp only [value, hop, if_true, h]

theorem value_obj (G : Nat) (t : Target) (d d1 : DState) (v : DVal) (hop : d.opcode = scanBeginObject)
    (h : object G t d = .ok (d1, v)) : value (G + 1) t d = .ok (scanNext d1, v) := by
  have e1 : (scanBeginObject = scanBeginArray) = False := by decide
  simp only [value, hop, e1, if_false, if_true, h]

theorem value_any_arr (G : Nat) (d : DState) (hop : d.opcode = scanBeginArray) :
    value (G + 2) .any d = valueInterface (G + 1) d := by
  simp only [value, hop, if_true, array, isUnmarshaler, Bool.false_eq_true, if_false, valueInterface]
  cases arrayInterface G d [] with
  | ok r => rfl
  | panic => rfl
  | fuel => rfl

theorem value_any_obj (G : Nat) (d : DState) (hop : d.opcode = scanBeginObject) :
    value (G + 2) .any d = valueInterface (G + 1) d := by
  have e1 : (scanBeginObject = scanBeginArray) = False := by decide
  simp only [value, hop, e1, if_false, if_true, object, isUnmarshaler, Bool.false_eq_true, valueInterface]
  cases objectInterface G d [] with
  | ok r => rfl
  | panic => rfl
  | fuel => rfl

theorem array_raw (G : Nat) (p : Bool) (d : DState) : array (G + 1) (.raw p) d = captureRaw d := by
  simp only [array, isUnmarshaler, Bool.and_false, Bool.not_false, if_true]

theorem object_raw (G : Nat) (p : Bool) (d : DState) : object (G + 1) (.raw p) d = captureRaw d := by
  simp only [object, isUnmarshaler, Bool.and_false, Bool.not_false, if_true]

theorem array_str (G : Nat) (d : DState) : array (G + 1) .str d = typeErrorSkip .array .str d := by
  simp only [array, isUnmarshaler, Bool.false_eq_true, if_false]
theorem array_map (G : Nat) (e : Target) (d : DState) :
    array (G + 1) (.mapOf e) d = typeErrorSkip .array (.mapOf e) d := by
  simp only [array, isUnmarshaler, Bool.false_eq_true, if_false]
theorem object_str (G : Nat) (d : DState) : object (G + 1) .str d = typeErrorSkip .object .str d := by
  simp only [object, isUnmarshaler, Bool.false_eq_true, if_false]
theorem object_slice (G : Nat) (e : Target) (d : DState) :
    object (G + 1) (.sliceOf e) d = typeErrorSkip .object (.sliceOf e) d := by
  simp only [object, isUnmarshaler, Bool.false_eq_true, if_false]

theorem array_slice (G : Nat) (e : Target) (d d1 : DState) (vs : List DVal)
    (h : arrayLoop G e d [] = .ok (d1, vs)) : array (G + 1) (.sliceOf e) d = .ok (d1, .list vs) := by
  simp only [array, isUnmarshaler, Bool.false_eq_true, if_false, h]

theorem object_map (G : Nat) (e : Target) (d d1 : DState) (m : DMembers) (keys : List Bytes)
    (h : objectLoop G e d [] [] = .ok (d1, m, keys)) :
    object (G + 1) (.mapOf e) d = .ok ({ d1 with lastKeys := keys }, .map m) := by
  simp only [object, isUnmarshaler, Bool.false_eq_true, if_false, h]

/-! ### containers decoded without descending: raw capture, `any`, type errors -/

theorem captureRaw_of (pre vt rest : Bytes) (r : Scan × Nat) (stk : List Nat) (cop : Nat) (se : Option DErr)
    (lk : List Bytes)
    (hskip : skip (atD (pre ++ (vt ++ rest)) (pre.length + 1) r se lk) =
      .ok (atD (pre ++ (vt ++ rest)) (pre ++ vt).length (afterClose stk, cop) se lk)) :
    captureRaw (atD (pre ++ (vt ++ rest)) (pre.length + 1) r se lk) =
      .ok (atD (pre ++ (vt ++ rest)) (pre ++ vt).length (afterClose stk, cop) se lk, .rawText vt) := by
  simp only [captureRaw, hskip, DState.readIndex, atD_off, atD_data, Nat.add_sub_cancel, slice_mid]

theorem typeErrorSkip_of (k : JKind) (t : Target) (pre vt rest : Bytes) (r : Scan × Nat) (stk : List Nat) (cop : Nat)
    (se : Option DErr) (lk : List Bytes)
    (hskip : ∀ se', skip (atD (pre ++ (vt ++ rest)) (pre.length + 1) r se' lk) =
      .ok (atD (pre ++ (vt ++ rest)) (pre ++ vt).length (afterClose stk, cop) se' lk)) :
    typeErrorSkip k t (atD (pre ++ (vt ++ rest)) (pre.length + 1) r se lk) =
      .ok (atD (pre ++ (vt ++ rest)) (pre ++ vt).length (afterClose stk, cop)
        (saveE se (.typeError k (pre.length + 1))) lk, zero t) := by
  simp only [typeErrorSkip, saveError_atD, atD_off, hskip]

/-- the shape of the conclusions below -/
def TConcl (bs : Bytes) (c : Cst) (rest : Bytes) (stk : List Nat) (pre : Bytes) (x : UInt8) (se : Option DErr)
    (lk : List Bytes) (G : Nat) (t : Target) : Prop :=
  ∃ vt D' v se', bs = vt ++ rest ∧ StartOp (step (bv stk) x).2 ∧
    value G t (atD (pre ++ bs) (pre.length + 1) (step (bv stk) x) se lk) = .ok (D', v) ∧
    view v = sem c t ∧ SeOK se (bad c t) se' ∧
    PostV D' (pre ++ bs) (pre ++ vt).length stk rest se' (keysAfter c t lk)

/-- a container decoded by one of the non-descending branches of `array`/`object` -/
theorem flat_of_skip (c : Cst) (t : Target) (k : JKind) (b0 : UInt8) (inner rest : Bytes) (stk : List Nat) (cop : Nat)
    (hstart : StartOp (step (bv stk) b0).2) (pre : Bytes) (se : Option DErr) (lk : List Bytes) (G : Nat)
    (hparse : parseCst (b0 :: inner) = some c)
    (hskip : ∀ se', skip (atD (pre ++ (b0 :: inner ++ rest)) (pre.length + 1) (step (bv stk) b0) se' lk) =
      .ok (atD (pre ++ (b0 :: inner ++ rest)) (pre ++ b0 :: inner).length (afterClose stk, cop) se' lk))
    (hvalC : ∀ d1 v, (∃ p, t = .raw p) →
      captureRaw (atD (pre ++ (b0 :: inner ++ rest)) (pre.length + 1) (step (bv stk) b0) se lk) = .ok (d1, v) →
      value (G + 1) t (atD (pre ++ (b0 :: inner ++ rest)) (pre.length + 1) (step (bv stk) b0) se lk) =
        .ok (scanNext d1, v))
    (hvalE : ∀ d1 v, (∀ p, t ≠ .raw p) →
      typeErrorSkip k t (atD (pre ++ (b0 :: inner ++ rest)) (pre.length + 1) (step (bv stk) b0) se lk) = .ok (d1, v) →
      value (G + 1) t (atD (pre ++ (b0 :: inner ++ rest)) (pre.length + 1) (step (bv stk) b0) se lk) =
        .ok (scanNext d1, v))
    (hcase : ((∃ p, t = .raw p) ∧ sem c t = .rawText (some c) ∧ bad c t = false) ∨
      (sem c t = zeroG none t ∧ bad c t = true ∧ ∀ p, t ≠ .raw p))
    (hkeys : keysAfter c t lk = lk) :
    TConcl (b0 :: inner ++ rest) c rest stk pre b0 se lk (G + 1) t := by
  rcases hcase with ⟨hraw, hsem, hbad⟩ | ⟨hsem, hbad, hnr⟩
  · have hc := captureRaw_of pre (b0 :: inner) rest _ stk cop se lk (hskip se)
    refine ⟨b0 :: inner, _, .rawText (b0 :: inner), se, rfl, hstart, hvalC _ _ hraw hc, ?_, ?_, ?_⟩
    · rw [view_raw, hparse, hsem]
    · rw [hbad]; exact seOK_false se
    · rw [hkeys]; exact postV_scanNext pre (b0 :: inner) rest stk cop se lk
  · have he := typeErrorSkip_of k t pre (b0 :: inner) rest _ stk cop se lk hskip
    refine ⟨b0 :: inner, _, zero t, saveE se (.typeError k (pre.length + 1)), rfl, hstart, hvalE _ _ hnr he, ?_, ?_, ?_⟩
    · rw [view_zero, parseCst_nil, hsem]
    · rw [hbad]; exact seOK_save se _
    · rw [hkeys]; exact postV_scanNext pre (b0 :: inner) rest stk cop _ lk

theorem sem_arr_raw (xs : List Cst) (p : Bool) : sem (.arr xs) (.raw p) = .rawText (some (.arr xs)) := by
  simp only [sem]
theorem sem_obj_raw (ms : List (Bytes × Cst)) (p : Bool) : sem (.obj ms) (.raw p) = .rawText (some (.obj ms)) := by
  simp only [sem]

theorem typed_flat_arr (F d : Nat) (cs : Bytes) (xs : List Cst) (rest : Bytes)
    (hp : parseValue F d (91 :: cs) = some (.arr xs, rest)) (hd : d + 1 ≤ maxDepth) (stk : List Nat)
    (hstk : stk.length = d) (hvs : ValueStk stk) (pre : Bytes) (se : Option DErr) (lk : List Bytes) (G : Nat)
    (hG : 3 * F ≤ G) (hF : 1 ≤ F) (hdl : DelimW rest) (t : Target) (hnot : ∀ e, t ≠ .sliceOf e) :
    TConcl (91 :: cs) (.arr xs) rest stk pre 91 se lk G t := by
  obtain ⟨G, rfl⟩ : ∃ G', G = G' + 2 := ⟨G - 2, by omega⟩
  obtain ⟨vt, hbs, hend, hre⟩ := (split_all F).1 d _ _ rest hp
  obtain ⟨e0, inner, rfl⟩ := head_of_append (endsNonWs_ne_nil hend)
  simp only [List.cons_append, List.cons.injEq] at hbs
  obtain ⟨rfl, rfl⟩ := hbs
  have hparse : parseCst (91 :: inner) = some (.arr xs) :=
    reparse (91 :: inner) _ hend (by intro e t' he; simp only [List.cons.injEq] at he; rw [← he.1]; decide)
      (fun F' d' rest' hF' hd' hdl' => hre F' d' rest' hF' (by omega) hdl')
  have heq := fun rest' hdl' => trace_of_split (91 :: inner) (.arr xs) d hre stk (by omega) rest' hdl'
  have hskip := fun se' => skip_arr stk hvs (by omega) pre inner rest xs heq hend se' lk
  have h0 := step_lbrack_ok stk (by omega)
  have hstart : StartOp (step (bv stk) 91).2 := by rw [h0]; exact .inr (.inr rfl)
  have hop : (atD (pre ++ (91 :: inner ++ rest)) (pre.length + 1) (step (bv stk) 91) se lk).opcode = scanBeginArray := by
    rw [h0]; rfl
  cases t with
  | raw p =>
    exact flat_of_skip _ _ .array 91 inner rest stk scanEndArray hstart pre se lk (G + 1) hparse hskip
      (fun d1 v _ h => value_arr (G + 1) _ _ d1 v hop (by rw [array_raw]; exact h))
      (fun d1 v hn _ => absurd rfl (hn p)) (.inl ⟨⟨p, rfl⟩, sem_arr_raw xs p, rfl⟩) rfl
  | str =>
    exact flat_of_skip _ _ .array 91 inner rest stk scanEndArray hstart pre se lk (G + 1) hparse hskip
      (fun d1 v hr _ => by obtain ⟨p, hp⟩ := hr; cases hp)
      (fun d1 v _ h => value_arr (G + 1) _ _ d1 v hop (by rw [array_str]; exact h))
      (.inr ⟨rfl, rfl, fun p h => by cases h⟩) rfl
  | mapOf e =>
    exact flat_of_skip _ _ .array 91 inner rest stk scanEndArray hstart pre se lk (G + 1) hparse hskip
      (fun d1 v hr _ => by obtain ⟨p, hp⟩ := hr; cases hp)
      (fun d1 v _ h => value_arr (G + 1) _ _ d1 v hop (by rw [array_map]; exact h))
      (.inr ⟨rfl, rfl, fun p h => by cases h⟩) rfl
  | sliceOf e => exact absurd rfl (hnot e)
  | any =>
    obtain ⟨vt2, D', v, hvt2, _, hval, hview, hpost⟩ := (iface_all F).1 d _ _ rest hp stk hstk pre 91
      (inner ++ rest) rfl se lk (G + 1) (by omega) hdl
    have : vt2 = 91 :: inner := List.append_cancel_right (by rw [← hvt2]; simp)
    subst this
    refine ⟨91 :: inner, D', v, se, rfl, hstart, ?_, hview, seOK_false se, hpost⟩
    exact (value_any_arr G _ hop).trans hval

theorem typed_flat_obj (F d : Nat) (cs : Bytes) (ms : List (Bytes × Cst)) (rest : Bytes)
    (hp : parseValue F d (123 :: cs) = some (.obj ms, rest)) (hd : d + 1 ≤ maxDepth) (stk : List Nat)
    (hstk : stk.length = d) (hvs : ValueStk stk) (pre : Bytes) (se : Option DErr) (lk : List Bytes) (G : Nat)
    (hG : 3 * F ≤ G) (hF : 1 ≤ F) (hdl : DelimW rest) (t : Target) (hnot : ∀ e, t ≠ .mapOf e) :
    TConcl (123 :: cs) (.obj ms) rest stk pre 123 se lk G t := by
  obtain ⟨G, rfl⟩ : ∃ G', G = G' + 2 := ⟨G - 2, by omega⟩
  obtain ⟨vt, hbs, hend, hre⟩ := (split_all F).1 d _ _ rest hp
  obtain ⟨e0, inner, rfl⟩ := head_of_append (endsNonWs_ne_nil hend)
  simp only [List.cons_append, List.cons.injEq] at hbs
  obtain ⟨rfl, rfl⟩ := hbs
  have hparse : parseCst (123 :: inner) = some (.obj ms) :=
    reparse (123 :: inner) _ hend (by intro e t' he; simp only [List.cons.injEq] at he; rw [← he.1]; decide)
      (fun F' d' rest' hF' hd' hdl' => hre F' d' rest' hF' (by omega) hdl')
  have heq := fun rest' hdl' => trace_of_split (123 :: inner) (.obj ms) d hre stk (by omega) rest' hdl'
  have hskip := fun se' => skip_obj stk hvs (by omega) pre inner rest ms heq hend se' lk
  have h0 := step_lbrace_ok stk (by omega)
  have hstart : StartOp (step (bv stk) 123).2 := by rw [h0]; exact .inr (.inl rfl)
  have hop : (atD (pre ++ (123 :: inner ++ rest)) (pre.length + 1) (step (bv stk) 123) se lk).opcode = scanBeginObject := by
    rw [h0]; rfl
  cases t with
  | raw p =>
    exact flat_of_skip _ _ .object 123 inner rest stk scanEndObject hstart pre se lk (G + 1) hparse hskip
      (fun d1 v _ h => value_obj (G + 1) _ _ d1 v hop (by rw [object_raw]; exact h))
      (fun d1 v hn _ => absurd rfl (hn p)) (.inl ⟨⟨p, rfl⟩, sem_obj_raw ms p, rfl⟩) rfl
  | str =>
    exact flat_of_skip _ _ .object 123 inner rest stk scanEndObject hstart pre se lk (G + 1) hparse hskip
      (fun d1 v hr _ => by obtain ⟨p, hp⟩ := hr; cases hp)
      (fun d1 v _ h => value_obj (G + 1) _ _ d1 v hop (by rw [object_str]; exact h))
      (.inr ⟨rfl, rfl, fun p h => by cases h⟩) rfl
  | sliceOf e =>
    exact flat_of_skip _ _ .object 123 inner rest stk scanEndObject hstart pre se lk (G + 1) hparse hskip
      (fun d1 v hr _ => by obtain ⟨p, hp⟩ := hr; cases hp)
      (fun d1 v _ h => value_obj (G + 1) _ _ d1 v hop (by rw [object_slice]; exact h))
      (.inr ⟨rfl, rfl, fun p h => by cases h⟩) rfl
  | mapOf e => exact absurd rfl (hnot e)
  | any =>
    obtain ⟨vt2, D', v, hvt2, _, hval, hview, hpost⟩ := (iface_all F).1 d _ _ rest hp stk hstk pre 123
      (inner ++ rest) rfl se lk (G + 1) (by omega) hdl
    have : vt2 = 123 :: inner := List.append_cancel_right (by rw [← hvt2]; simp)
    subst this
    refine ⟨123 :: inner, D', v, se, rfl, hstart, ?_, hview, seOK_false se, hpost⟩
    exact (value_any_obj G _ hop).trans hval

end Codec
end JP
