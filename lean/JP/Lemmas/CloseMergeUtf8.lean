import JP.Lemmas.TextUtf8

/-!
# What the string decoder returns is always valid UTF-8

`unquote b` is valid UTF-8 for every body `b`: invalid input bytes and lone surrogates are
replaced by U+FFFD, everything else is written by `utf8.EncodeRune` or is ASCII.
Consequently decoded member names always survive `quote ∘ unquote`.
-/
namespace JP

theorem encodeRune_nonscalar (r : Nat) (h : ¬ isScalar r) : encodeRune r = encodeRune runeError := by
  unfold isScalar at h
  have h1 : ¬ r < 0x80 := by omega
  have h2 : ¬ r < 0x800 := by omega
  have h3 : (0xD800 ≤ r ∧ r < 0xE000) ∨ r > 0x10FFFF := by omega
  rw [encodeRune, if_neg h1, if_neg h2, if_pos h3]
  decide

theorem isValidUtf8_encodeRune_scalar (r : Nat) (hr : isScalar r) (Y : Bytes) :
    isValidUtf8 (encodeRune r ++ Y) = isValidUtf8 Y := by
  have hd := decodeRune_encodeRune r hr Y
  have hlen : 1 ≤ (encodeRune r).length := by
    unfold encodeRune; split
    · simp
    · split
      · simp
      · split
        · simp
        · split <;> simp
  cases he : encodeRune r with
  | nil => rw [he] at hlen; simp at hlen
  | cons b t =>
    rw [he] at hd hlen
    rw [List.cons_append] at hd ⊢
    rw [isValidUtf8_cons, hd]
    have : ¬ (r = runeError ∧ (b :: t).length = 1) := by
      intro ⟨h1, h2⟩
      subst h1
      have : encodeRune runeError = [0xEF, 0xBF, 0xBD] := by decide
      rw [this] at he
      simp only [List.cons.injEq] at he
      rw [← he.2] at h2
      simp at h2
    simp only
    rw [if_neg this]
    congr 1
    rw [← List.cons_append, List.drop_left]

theorem isValidUtf8_encodeRune (r : Nat) (Y : Bytes) :
    isValidUtf8 (encodeRune r ++ Y) = isValidUtf8 Y := by
  by_cases hr : isScalar r
  · exact isValidUtf8_encodeRune_scalar r hr Y
  · rw [encodeRune_nonscalar r hr]
    exact isValidUtf8_encodeRune_scalar _ (by unfold isScalar runeError; omega) Y

end JP

namespace JP
theorem map_app_valid {o : Option Bytes} {pre out : Bytes}
    (hpre : ∀ Y, isValidUtf8 (pre ++ Y) = isValidUtf8 Y)
    (ih : ∀ o', o = some o' → isValidUtf8 o' = true)
    (h : o.map (fun x => pre ++ x) = some out) : isValidUtf8 out = true := by
  cases o with
  | none => simp at h
  | some x =>
    simp only [Option.map_some, Option.some.injEq] at h
    subst h
    rw [hpre]; exact ih x rfl

theorem map_cons_valid {o : Option Bytes} {e : UInt8} {out : Bytes}
    (he : e.toNat < 128)
    (ih : ∀ o', o = some o' → isValidUtf8 o' = true)
    (h : o.map (fun x => e :: x) = some out) : isValidUtf8 out = true := by
  cases o with
  | none => simp at h
  | some x =>
    simp only [Option.map_some, Option.some.injEq] at h
    subst h
    rw [isValidUtf8_ascii_cons e x he]; exact ih x rfl

theorem unquoteGo_utf8 (fuel : Nat) (b : Bytes) : ∀ out, unquoteGo fuel b = some out → isValidUtf8 out = true := by
  fun_induction unquoteGo fuel b <;> intro out h
  all_goals try (simp at h; done)
  all_goals first
    | (simp only [Option.some.injEq] at h; subst h; rfl)
    | exact map_app_valid (isValidUtf8_encodeRune _) (by assumption) h
    | exact map_cons_valid (by decide) (by assumption) h
    | exact map_cons_valid (by assumption) (by assumption) h
    | (rename_i he _; exact map_cons_valid (by rcases he with rfl|rfl|rfl|rfl <;> decide) (by assumption) h)

/-- what the decoder returns is always valid UTF-8: invalid input bytes and lone surrogates
become U+FFFD -/
theorem isValidUtf8_unquote (b : Bytes) : isValidUtf8 (unquote b) = true := by
  unfold unquote unquoteBody
  cases h : unquoteGo (b.length + 1) b with
  | none => rfl
  | some out => exact unquoteGo_utf8 _ _ out h
end JP
