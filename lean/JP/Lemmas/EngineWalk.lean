import JP.Lemmas.EnginePointer

/-!
# Engine lemmas, part 6: `walk` / `withPath` refine the specification's navigation
-/

namespace JP
namespace Impl

open Spec (Res)

/-! ### one step of `walk`, in convenient forms -/

/-- what `walk` does with the result of the walk below a child stored under `key` -/
def wrapW {α} (o : Opts) (con : Node) (key : Bytes) : Walk α → Walk α
  | .done c a => .done (putChild o con key c) a
  | .notFound c => .notFound (putChild o con key c)
  | .fail e => .fail e
  | .panic => .panic
  | .doneSelf s a => .doneSelf s a
  | .notFoundSelf s => .notFoundSelf s

/-- the walk result once the action has run on the container found -/
def doneOf {α} (rb : Node → Node) : Outcome (Node × α) → Walk α
  | .ok (pc', a) => .done (rb pc') a
  | .err e => .fail e
  | .panic => .panic

theorem eng_walk_nil {α} (o : Opts) (act : Node → Node → Outcome (Node × α)) (cr : Bool) (self con : Node) :
    walk o act cr self con [] = doneOf id (act self con) := by
  rw [walk]
  cases act self con with
  | ok x => obtain ⟨a, b⟩ := x; rfl
  | err e => rfl
  | panic => rfl

theorem walk_cons_err {α} {o : Opts} {act : Node → Node → Outcome (Node × α)} {cr : Bool}
    {self con : Node} {part : Bytes} {rest : List Bytes} {er : Err}
    (hg : conGet o self con (decodeToken part) = .err er) :
    walk o act cr self con (part :: rest) = .notFound con := by
  rw [walk]
  simp only [hg]

theorem walk_cons_notfound {α} {o : Opts} {act : Node → Node → Outcome (Node × α)} {cr : Bool}
    {self con next : Node} {part : Bytes} {rest : List Bytes}
    (hg : conGet o self con (decodeToken part) = .ok next)
    (hn : isNil next = true ∨ ∃ er, intoContainer next = .err er) :
    walk o act cr self con (part :: rest) = .notFound con := by
  rw [walk]
  simp only [hg]
  cases next with
  | nil => rfl
  | raw c => simp only [isNil, Bool.false_eq_true, false_or] at hn
             obtain ⟨er, her⟩ := hn
             simp [her]
  | doc keys obj => simp only [isNil, Bool.false_eq_true, false_or] at hn
                    obtain ⟨er, her⟩ := hn
                    simp [her]
  | ary ns => simp only [isNil, Bool.false_eq_true, false_or] at hn
              obtain ⟨er, her⟩ := hn
              simp [her]
  | docNil => simp only [isNil, Bool.false_eq_true, false_or] at hn
              obtain ⟨er, her⟩ := hn
              simp [her]
  | nilAry => simp only [isNil, Bool.false_eq_true, false_or] at hn
              obtain ⟨er, her⟩ := hn
              simp [her]

theorem walk_cons_ok {α} {o : Opts} {act : Node → Node → Outcome (Node × α)} {cr : Bool}
    {self con next child : Node} {part : Bytes} {rest : List Bytes}
    (hg : conGet o self con (decodeToken part) = .ok next)
    (hn : isNil next = false)
    (hc : intoContainer next = .ok child) :
    walk o act cr self con (part :: rest) =
      wrapW o con (decodeToken part) (walk o act false .nil child rest) := by
  rw [walk]
  simp only [hg]
  cases next with
  | nil => simp [isNil] at hn
  | raw c => simp only [hc]
             cases walk o act false .nil child rest <;> rfl
  | doc keys obj => simp only [hc]
                    cases walk o act false .nil child rest <;> rfl
  | ary ns => simp only [hc]
              cases walk o act false .nil child rest <;> rfl
  | docNil => simp only [hc]
              cases walk o act false .nil child rest <;> rfl
  | nilAry => simp only [hc]
              cases walk o act false .nil child rest <;> rfl

/-! ### `putChild` -/

theorem putChild_doc (o : Opts) (keys : List Bytes) (obj : NMembers) (key : Bytes) (c : Node) :
    putChild o (.doc keys obj) key c = .doc keys (setN key c obj) := rfl

theorem putChild_ary {o : Opts} {ns : List Node} {key : Bytes} {i : Nat} (c : Node)
    (hr : Spec.readIdx o.neg ns.length key = .at i) :
    putChild o (.ary ns) key c = .ary (listSet i c ns) := by
  have := readIdx_cases o.neg ns.length key
  rw [hr] at this
  obtain ⟨hi, idx, ha, h | h⟩ := this
  · obtain ⟨h0, h1⟩ := h
    have hlt : ¬ idx < 0 := by omega
    simp [putChild, ha, hlt, h1]
  · obtain ⟨h0, h1, h2, h3⟩ := h
    simp [putChild, ha, h0, h3]

theorem Inv_putChild_doc {e : Bool} {keys : List Bytes} {obj : NMembers} {key : Bytes} {next c : Node}
    (h : Inv e (.doc keys obj)) (hl : lookupN key obj = some next) (hc : Inv e c) :
    Inv e (.doc keys (setN key c obj)) ∧
      den (.doc keys (setN key c obj)) = .obj (Value.set key (den c) (denM obj)) := by
  have hq : QK e key = true := by
    rw [Inv_doc] at h; exact (InvM_lookupN h.2.2 hl).1
  have h' := Inv_docSet h hq hc
  have hmem : keys.contains key = true := by
    rw [Inv_doc] at h
    simp only [List.contains_eq_mem, decide_eq_true_eq]
    rw [h.1, ← lookupN_isSome_iff, hl]; rfl
  simp only [docSet, hmem, if_true] at h'
  exact ⟨h', by rw [den_doc_inv h', denM_setN]⟩

/-! ### the walk refines `nav` -/

/-- what `walk` does, given the answer of `nav` -/
def WalkNav (o : Opts) (e : Bool) (cr : Bool) (self con : Node) (parts : List Bytes)
    (r : Res (Value × (Value → Value))) : Prop :=
  match r with
  | .ok pk =>
    ∃ (s pc : Node) (rb : Node → Node), Inv e pc ∧ isCon pc = true ∧ den pc = pk.1 ∧
      (∀ pc', Inv e pc' → isCon pc' = true →
        Inv e (rb pc') ∧ isCon (rb pc') = true ∧ den (rb pc') = pk.2 (den pc')) ∧
      (∀ (α : Type) (act : Node → Node → Outcome (Node × α)),
        walk o act cr self con parts = doneOf rb (act s pc))
  | .fail _ =>
    ∃ con', Inv e con' ∧ isCon con' = true ∧ den con' = den con ∧
      ∀ (α : Type) (act : Node → Node → Outcome (Node × α)), walk o act cr self con parts = .notFound con'
  | .unspec => True

/-- the step through a child `next` stored under `key`, given how `putChild` and the value-level
rebuild `kk` behave at this container -/
theorem walk_step {o : Opts} {e : Bool} {cr : Bool} {self con next : Node} {part : Bytes}
    {rest : List Bytes} (mk : Node → Node) (kk : Value → Value)
    (hinv : Inv e con) (hcon : isCon con = true)
    (hg : conGet o self con (decodeToken part) = .ok next)
    (hnext : Inv e next)
    (hput : ∀ c, putChild o con (decodeToken part) c = mk c)
    (hmk : ∀ c, Inv e c → isCon c = true → Inv e (mk c) ∧ isCon (mk c) = true ∧ den (mk c) = kk (den c))
    (hself : kk (den next) = den con)
    (ih : ∀ child, Inv e child → isCon child = true →
      WalkNav o e false .nil child rest (nav (specOpts o) (den child) (rest.map decodeToken))) :
    WalkNav o e cr self con (part :: rest)
      ((nav (specOpts o) (den next) (rest.map decodeToken)).bind fun pk =>
        .ok (pk.1, fun p' => kk (pk.2 p'))) := by
  have hic := intoContainer_spec hnext
  by_cases hcont : (den next).isContainer = true
  · rw [if_pos hcont] at hic
    obtain ⟨child, hinto, hchild, hcc, hden⟩ := hic
    have hnn : isNil next = false := by
      cases hx : isNil next with
      | false => rfl
      | true => rw [isNil_den hx] at hcont; simp [Value.isContainer, Value.isObj, Value.isArr] at hcont
    have ih' := ih child hchild hcc
    rw [hden] at ih'
    have hw : ∀ (α : Type) (act : Node → Node → Outcome (Node × α)),
        walk o act cr self con (part :: rest) =
          wrapW o con (decodeToken part) (walk o act false .nil child rest) :=
      fun α act => walk_cons_ok hg hnn hinto
    cases hn : nav (specOpts o) (den next) (rest.map decodeToken) with
    | unspec => simp only [Res.bind, WalkNav]
    | fail c =>
      rw [hn] at ih'
      simp only [WalkNav] at ih'
      simp only [Res.bind, WalkNav]
      obtain ⟨con', h1, h2, h3, h4⟩ := ih'
      obtain ⟨a, b, c'⟩ := hmk con' h1 h2
      refine ⟨mk con', a, b, ?_, ?_⟩
      · rw [c', h3, hden, hself]
      · intro α act
        rw [hw, h4]
        simp only [wrapW, hput]
    | ok pk =>
      rw [hn] at ih'
      simp only [WalkNav] at ih'
      simp only [Res.bind, WalkNav]
      obtain ⟨s, pc, rb, h1, h2, h3, h4, h5⟩ := ih'
      refine ⟨s, pc, fun pc' => mk (rb pc'), h1, h2, h3, ?_, ?_⟩
      · intro pc' hp1 hp2
        obtain ⟨a, b, c⟩ := h4 pc' hp1 hp2
        obtain ⟨a', b', c'⟩ := hmk (rb pc') a b
        exact ⟨a', b', by rw [c', c]⟩
      · intro α act
        rw [hw, h5]
        cases act s pc with
        | ok x => obtain ⟨x1, x2⟩ := x; simp only [doneOf, wrapW, hput]
        | err er => rfl
        | panic => rfl
  · have hcont' : (den next).isContainer = false := by
      cases hx : (den next).isContainer with
      | false => rfl
      | true => exact absurd hx hcont
    rw [if_neg hcont] at hic
    rw [nav_noncontainer _ _ _ hcont']
    simp only [Res.bind, WalkNav]
    exact ⟨con, hinv, hcon, rfl, fun α act => walk_cons_notfound hg hic⟩

theorem walk_nav (o : Opts) (e : Bool) : ∀ (parts : List Bytes) (self con : Node) (cr : Bool),
    Inv e con → isCon con = true →
    WalkNav o e cr self con parts (nav (specOpts o) (den con) (parts.map decodeToken)) := by
  intro parts
  induction parts with
  | nil =>
    intro self con cr hinv hcon
    simp only [List.map_nil, nav, den_isContainer hinv hcon, if_true, WalkNav]
    exact ⟨self, con, id, hinv, hcon, rfl, fun pc' a b => ⟨a, b, rfl⟩, fun α act => eng_walk_nil o act cr self con⟩
  | cons part rest ih =>
    intro self con cr hinv hcon
    have ih' : ∀ child, Inv e child → isCon child = true →
        WalkNav o e false .nil child rest (nav (specOpts o) (den child) (rest.map decodeToken)) :=
      fun child a b => ih .nil child false a b
    cases con with
    | doc keys obj =>
      rw [den_doc_inv hinv]
      simp only [List.map_cons, nav, lookupN_denM]
      cases hl : lookupN (decodeToken part) obj with
      | none =>
        simp only [Option.map_none, WalkNav]
        exact ⟨_, hinv, hcon, rfl, fun α act =>
          walk_cons_err (er := .missing) (by rw [conGet_doc _ _ _ _ _, hl])⟩
      | some next =>
        simp only [Option.map_some]
        have hg : conGet o self (.doc keys obj) (decodeToken part) = .ok next := by
          rw [conGet_doc _ _ _ _ _, hl]
        have hnext : Inv e next := (InvM_lookupN ((Inv_doc _ _ _).1 hinv).2.2 hl).2
        exact walk_step (fun c => .doc keys (setN (decodeToken part) c obj))
          (fun v => .obj (Value.set (decodeToken part) v (denM obj))) hinv hcon hg hnext
          (fun c => rfl)
          (fun c hc _ => ⟨(Inv_putChild_doc hinv hl hc).1, rfl, (Inv_putChild_doc hinv hl hc).2⟩)
          (by rw [set_lookup_self _ _ _ (by rw [lookupN_denM, hl]; rfl), den_doc_inv hinv])
          ih'
    | ary ns =>
      rw [den_ary]
      simp only [List.map_cons, nav, denL_length, specOpts_neg]
      have hget := conGet_ary o self ns (decodeToken part)
      cases hr : Spec.readIdx o.neg ns.length (decodeToken part) with
      | unspec => simp only [WalkNav]
      | bad =>
        rw [hr] at hget
        obtain ⟨er, her⟩ := hget
        simp only [WalkNav]
        exact ⟨_, hinv, hcon, rfl, fun α act => walk_cons_err her⟩
      | «at» i =>
        rw [hr] at hget
        obtain ⟨n, hn, hg⟩ := hget
        simp only [denL_getElem?, hn, Option.map_some]
        have hinvL := (Inv_ary e ns).1 hinv
        exact walk_step (fun c => .ary (listSet i c ns))
          (fun v => .arr (Spec.setAt i v (denL ns))) hinv hcon hg (InvL_getElem? hinvL hn)
          (fun c => putChild_ary c hr)
          (fun c hc _ => ⟨(Inv_ary e _).2 (InvL_listSet hc hinvL), rfl, by rw [den_ary, denL_listSet]⟩)
          (by rw [setAt_self _ _ _ (by simp [denL_getElem?, hn]), den_ary])
          ih'
    | nil => simp [isCon] at hcon
    | raw c => simp [isCon] at hcon
    | docNil => simp [isCon] at hcon
    | nilAry => simp [isCon] at hcon

/-! ### `withPath` -/

/-- `withPath` on a pointer of the specification's domain, against `nav` -/
theorem withPath_nav {o : Opts} {e : Bool} {r : Root} {path : Bytes} {toks : List Bytes}
    (hinv : Inv e r.con) (hcon : isCon r.con = true)
    (hp : Spec.parsePointer path = some toks) (hne : toks ≠ []) :
    ∃ ts key, toks = ts ++ [key] ∧
      match nav (specOpts o) (den r.con) ts with
      | .ok pk =>
        ∃ (s pc : Node) (rb : Node → Node), Inv e pc ∧ isCon pc = true ∧ den pc = pk.1 ∧
          (∀ pc', Inv e pc' → isCon pc' = true →
            Inv e (rb pc') ∧ isCon (rb pc') = true ∧ den (rb pc') = pk.2 (den pc')) ∧
          (∀ (α : Type) (act : Node → Node → Bytes → Outcome (Node × α)),
            withPath o r path act = doneOf rb (act s pc key))
      | .fail _ =>
        ∃ con', Inv e con' ∧ isCon con' = true ∧ den con' = den r.con ∧
          ∀ (α : Type) (act : Node → Node → Bytes → Outcome (Node × α)),
            withPath o r path act = .notFound con'
      | .unspec => True := by
  obtain ⟨parts, key, hsp, htoks⟩ := splitPath_of_parsePointer hp hne
  refine ⟨parts.map decodeToken, key, htoks, ?_⟩
  have hw := walk_nav o e parts r.self r.con r.selfCR hinv hcon
  have hwp : ∀ (α : Type) (act : Node → Node → Bytes → Outcome (Node × α)),
      withPath o r path act = walk o (fun self c => act self c key) r.selfCR r.self r.con parts := by
    intro α act; simp only [withPath, hsp]
  cases hn : nav (specOpts o) (den r.con) (parts.map decodeToken) with
  | unspec => trivial
  | fail c =>
    rw [hn] at hw
    obtain ⟨con', h1, h2, h3, h4⟩ := hw
    exact ⟨con', h1, h2, h3, fun α act => by rw [hwp, h4]⟩
  | ok pk =>
    rw [hn] at hw
    obtain ⟨s, pc, rb, h1, h2, h3, h4, h5⟩ := hw
    exact ⟨s, pc, rb, h1, h2, h3, h4, fun α act => by rw [hwp, h5]⟩

/-- an action on the container found refines an edit of the specification -/
def ActRef {α β} (e : Bool) (key : Bytes) (act : Node → Node → Bytes → Outcome (Node × α))
    (f : Value → Bytes → Res (Value × β)) (R : α → β → Prop) : Prop :=
  ∀ s pc, Inv e pc → isCon pc = true →
    match f (den pc) key with
    | .ok pb => ∃ pc' a, act s pc key = .ok (pc', a) ∧ Inv e pc' ∧ isCon pc' = true ∧ den pc' = pb.1 ∧ R a pb.2
    | .fail _ => ∃ er, act s pc key = .err er
    | .unspec => True

theorem withPath_refines {α β} {o : Opts} {e : Bool} {r : Root} {path : Bytes} {toks : List Bytes}
    {act : Node → Node → Bytes → Outcome (Node × α)} {f : Value → Bytes → Res (Value × β)}
    {R : α → β → Prop}
    (hinv : Inv e r.con) (hcon : isCon r.con = true)
    (hp : Spec.parsePointer path = some toks) (hne : toks ≠ [])
    (hact : ∀ key, key ∈ toks → ActRef e key act f R) :
    match Spec.atParent (specOpts o) f (den r.con) toks with
    | .ok vb => ∃ con' a, withPath o r path act = .done con' a ∧ Inv e con' ∧ isCon con' = true ∧
        den con' = vb.1 ∧ R a vb.2
    | .fail _ => (∃ con', withPath o r path act = .notFound con' ∧ Inv e con' ∧ isCon con' = true ∧
        den con' = den r.con) ∨ (∃ er, withPath o r path act = .fail er)
    | .unspec => True := by
  obtain ⟨ts, key, htoks, hnav⟩ := withPath_nav (o := o) hinv hcon hp hne
  subst htoks
  rw [atParent_nav]
  have hA := hact key (by simp)
  cases hn : nav (specOpts o) (den r.con) ts with
  | unspec => trivial
  | fail c =>
    rw [hn] at hnav
    obtain ⟨con', h1, h2, h3, h4⟩ := hnav
    exact Or.inl ⟨con', h4 α act, h1, h2, h3⟩
  | ok pk =>
    rw [hn] at hnav
    obtain ⟨s, pc, rb, h1, h2, h3, h4, h5⟩ := hnav
    have hA' := hA s pc h1 h2
    rw [h3] at hA'
    simp only [Res.bind]
    cases hf : f pk.1 key with
    | unspec => trivial
    | fail c =>
      rw [hf] at hA'
      obtain ⟨er, her⟩ := hA'
      exact Or.inr ⟨er, by rw [h5, her]; rfl⟩
    | ok pb =>
      rw [hf] at hA'
      obtain ⟨pc', a, ha, hi, hc, hd, hR⟩ := hA'
      obtain ⟨x, y, z⟩ := h4 pc' hi hc
      exact ⟨rb pc', a, by rw [h5, ha]; rfl, x, y, by rw [z, hd], hR⟩

end Impl
end JP
