import JP.Lemmas.DecodeLoops
import JP.Lemmas.ScanSim

/-!
# `unmarshal` and the entry points on a well-formed text
-/

namespace JP
namespace Codec

open Scanner

theorem delimW_of_skipWs_nil (rest : Bytes) (h : skipWs rest = []) : DelimW rest := by
  cases rest with
  | nil => trivial
  | cons c cs =>
    simp only [DelimW]
    by_cases hc : isWs c = true
    · exact .inl hc
    · simp [skipWs, hc] at h

/-- `d.unmarshal(&v)` on a well-formed text: the value, the saved error, `lastKeys` -/
theorem unmarshal_spec (t : Target) (data : Bytes) (c : Cst) (left : List Bytes) (h : parseCst data = some c) :
    ∃ D v, unmarshal t data left = .ok (D, v) ∧ view v = sem c t ∧ SeOK none (bad c t) D.savedError ∧
      D.lastKeys = keysAfter c t left := by
  obtain ⟨rest, hp, hrest⟩ := parseCst_inv data c h
  obtain ⟨x, bs', hx⟩ := parseValue_cons_of_some hp
  obtain ⟨ws, hdata, hws⟩ := skipWs_prefix data
  have hxws : isWs x = false := skipWs_head_nonws data x bs' hx
  have hsw := scanWhile_ws' data [] ws x bs' (bv []) 0 none left (by rw [hx] at hdata; simpa using hdata) hws
    (fun c hc => step_bv_ws [] c hc) hxws
  obtain ⟨vt, D', v, se', _, _, hval, hview, hse, hpost⟩ :=
    (typed_all (data.length + 1)).1 0 (skipWs data) c rest hp hp [] rfl (.inl rfl) ws x bs' hx none left
      (fuelFor data) (by simp only [fuelFor]; omega) (delimW_of_skipWs_nil rest hrest) t
  refine ⟨D', v, ?_, hview, ?_, hpost.lk⟩
  · simp only [unmarshal]
    have e0 : ({ data := data, off := 0, opcode := 0, scan := Scan.init, savedError := none, lastKeys := left } : DState)
        = atD data ([] : Bytes).length (bv [], 0) none left := rfl
    rw [e0, hsw]
    simp only [List.nil_append]
    rw [← hdata] at hval
    exact hval
  · rw [hpost.se]; exact hse

theorem valid_of_parseCst (data : Bytes) (c : Cst) (h : parseCst data = some c) : Scanner.valid data = true := by
  rw [valid_iff_parseCst, h]; rfl

/-- a well-typed well-formed text decodes -/
theorem decode_ok (t : Target) (data : Bytes) (c : Cst) (left : List Bytes) (h : parseCst data = some c)
    (hb : bad c t = false) :
    ∃ v, unmarshalValidWithKeys t data left = .ok ⟨v, keysAfter c t left⟩ ∧ view v = sem c t := by
  obtain ⟨D, v, hu, hview, hse, hlk⟩ := unmarshal_spec t data c left h
  refine ⟨v, ?_, hview⟩
  have : D.savedError = none := by rw [hb] at hse; exact hse.1 rfl
  simp only [unmarshalValidWithKeys, hu, finish, this, hlk]

/-- an ill-typed well-formed text yields an error (and the partly filled value) -/
theorem decode_err (t : Target) (data : Bytes) (c : Cst) (left : List Bytes) (h : parseCst data = some c)
    (hb : bad c t = true) :
    ∃ e v, unmarshalValidWithKeys t data left = .error e v ∧ view v = sem c t := by
  obtain ⟨D, v, hu, hview, hse, hlk⟩ := unmarshal_spec t data c left h
  rw [hb] at hse
  have := (hse.2 rfl).1
  cases hs : D.savedError with
  | none => rw [hs] at this; cases this
  | some e =>
    refine ⟨e, v, ?_, hview⟩
    simp only [unmarshalValidWithKeys, hu, finish, hs]

/-- the checked entry points agree with the unchecked ones on well-formed texts -/
theorem checked_eq (t : Target) (data : Bytes) (c : Cst) (left : List Bytes) (h : parseCst data = some c) :
    unmarshalWithKeys t data left = unmarshalValidWithKeys t data left := by
  simp only [unmarshalWithKeys, valid_of_parseCst data c h, Bool.not_true, Bool.false_eq_true, if_false,
    unmarshalValidWithKeys]

/-- ... and reject every other text before decoding anything -/
theorem checked_syntax (t : Target) (data : Bytes) (left : List Bytes) (h : parseCst data = none) :
    unmarshalWithKeys t data left = .error .syntax (zero t) := by
  have : Scanner.valid data = false := by rw [valid_iff_parseCst, h]; rfl
  simp only [unmarshalWithKeys, this, Bool.not_false, if_true]

end Codec
end JP
