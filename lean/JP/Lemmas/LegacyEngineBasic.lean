import JP.Lemmas.LegacyMarshal

/-!
# Legacy engine lemmas, part 1: the invariant `Inv` on the constructors, lists, container methods

The container methods of the legacy package (`conGet`, `conSet`, `conAdd`, `conRemove` on a parsed
container) refine the specification's container edits (`getIn`, `replaceIn`, `addIn`, `removeIn`)
with *ordered* equality for the association-list order `den` picks.
-/

namespace JP
namespace Legacy

open Value
open Impl (listSet listInsert QK Outcome Err)
open Spec (Res readIdx slotIdx)

/-! ### list forms -/

def InvL (ns : List Node) : Prop := ∀ n ∈ ns, Inv n

def InvM (ob : NMembers) : Prop := ∀ kn ∈ ob, QK true kn.1 = true ∧ Inv kn.2

theorem Inv_rawNil : Inv .rawNil := ⟨rfl, rfl⟩

theorem Inv_ary (ns : List Node) : Inv (.ary ns) ↔ InvL ns := by
  simp only [Inv, WF, LT, WFL_iff, LTL_iff, InvL]
  constructor
  · intro h n hn; exact ⟨h.1 n hn, h.2 n hn⟩
  · intro h; exact ⟨fun n hn => (h n hn).1, fun n hn => (h n hn).2⟩

theorem Inv_doc (ob : NMembers) :
    Inv (.doc ob) ↔ (ob.map Prod.fst).Nodup ∧ InvM ob := by
  simp only [Inv, WF, LT, WFM_iff, LTM_iff, InvM, Bool.and_eq_true, nodupKeys_iffL]
  constructor
  · rintro ⟨⟨h1, h2⟩, h3⟩
    exact ⟨h1, fun kn hkn => ⟨(h3 kn hkn).1, h2 kn hkn, (h3 kn hkn).2⟩⟩
  · rintro ⟨h1, h2⟩
    exact ⟨⟨h1, fun kn hkn => (h2 kn hkn).2.1⟩, fun kn hkn => ⟨(h2 kn hkn).1, (h2 kn hkn).2.2⟩⟩

theorem Inv_docNil : ¬ Inv .docNil := by simp [Inv, WF]

theorem den_isContainer {n : Node} (hc : isDA n = true) : (den n).isContainer = true := by
  cases n <;> simp only [isDA] at hc <;> first | contradiction | rfl

theorem isDA_of_container {n : Node} (h : isDA n = true) : ∃ x, (n = .doc x) ∨ (∃ ns, n = .ary ns) := by
  cases n <;> simp only [isDA] at h <;> first | contradiction | skip
  · rename_i ob; exact ⟨ob, Or.inl rfl⟩
  · rename_i ns; exact ⟨[], Or.inr ⟨ns, rfl⟩⟩

/-! ### arrays -/

theorem denL_getElem? (ns : List Node) (i : Nat) : (denL ns)[i]? = ns[i]?.map den := by
  simp [denL_eq_map]

theorem denL_listSet (i : Nat) (n : Node) (ns : List Node) :
    denL (listSet i n ns) = Spec.setAt i (den n) (denL ns) := by
  rw [Impl.listSet_eq_setAt, denL_eq_map, denL_eq_map, Impl.setAt_map]

theorem denL_listInsert (i : Nat) (n : Node) (ns : List Node) :
    denL (listInsert i n ns) = Spec.insertAt i (den n) (denL ns) := by
  rw [Impl.listInsert_eq_insertAt, denL_eq_map, denL_eq_map, Impl.insertAt_map]

theorem denL_eraseIdx (i : Nat) (ns : List Node) : denL (ns.eraseIdx i) = (denL ns).eraseIdx i := by
  induction ns generalizing i with
  | nil => simp [denL]
  | cons x xs ih => cases i with
    | zero => simp [denL]
    | succ i => simp [denL, ih]

theorem InvL_listSet {i n ns} (hn : Inv n) (h : InvL ns) : InvL (listSet i n ns) := by
  intro x hx
  rcases Impl.mem_listSet hx with rfl | hx
  · exact hn
  · exact h x hx

theorem InvL_listInsert {i n ns} (hn : Inv n) (h : InvL ns) : InvL (listInsert i n ns) := by
  intro x hx
  rcases Impl.mem_listInsert hx with rfl | hx
  · exact hn
  · exact h x hx

theorem InvL_eraseIdx {i ns} (h : InvL ns) : InvL (ns.eraseIdx i) :=
  fun x hx => h x (List.mem_of_mem_eraseIdx hx)

theorem InvL_getElem? {i : Nat} {ns : List Node} {n} (h : InvL ns) (hi : ns[i]? = some n) : Inv n :=
  h n (List.mem_of_getElem? hi)

/-! ### objects -/

theorem mem_setNL {k : Bytes} {n : Node} {ob : NMembers} {p : Bytes × Node}
    (h : p ∈ setN k n ob) : p = (k, n) ∨ p ∈ ob := by
  induction ob with
  | nil => simp [setN] at h; exact Or.inl h
  | cons q ms ih =>
    obtain ⟨k', n'⟩ := q
    simp only [setN] at h
    split at h
    · rcases List.mem_cons.1 h with h | h
      · exact Or.inl h
      · exact Or.inr (List.mem_cons_of_mem _ h)
    · rcases List.mem_cons.1 h with h | h
      · exact Or.inr (h ▸ List.mem_cons_self)
      · rcases ih h with h | h
        · exact Or.inl h
        · exact Or.inr (List.mem_cons_of_mem _ h)

theorem mem_eraseNL {k : Bytes} {ob : NMembers} {p : Bytes × Node} (h : p ∈ eraseN k ob) : p ∈ ob := by
  induction ob with
  | nil => simp [eraseN] at h
  | cons q ms ih =>
    obtain ⟨k', n'⟩ := q
    simp only [eraseN] at h
    split at h
    · exact List.mem_cons_of_mem _ h
    · rcases List.mem_cons.1 h with h | h
      · exact h ▸ List.mem_cons_self
      · exact List.mem_cons_of_mem _ (ih h)

theorem InvM_setN {k n ob} (hk : QK true k = true) (hn : Inv n) (h : InvM ob) : InvM (setN k n ob) := by
  intro p hp
  rcases mem_setNL hp with rfl | hp
  · exact ⟨hk, hn⟩
  · exact h p hp

theorem InvM_eraseN {k ob} (h : InvM ob) : InvM (eraseN k ob) :=
  fun p hp => h p (mem_eraseNL hp)

theorem InvM_lookupN {k ob n} (h : InvM ob) (hl : lookupN k ob = some n) : QK true k = true ∧ Inv n :=
  h (k, n) (lookupN_memL hl)

theorem Inv_doc_setN {ob k n} (h : Inv (.doc ob)) (hk : QK true k = true) (hn : Inv n) :
    Inv (.doc (setN k n ob)) := by
  rw [Inv_doc] at *
  exact ⟨nodup_setN h.1, InvM_setN hk hn h.2⟩

theorem Inv_doc_eraseN {ob k} (h : Inv (.doc ob)) : Inv (.doc (eraseN k ob)) := by
  rw [Inv_doc] at *
  exact ⟨nodup_eraseN h.1, InvM_eraseN h.2⟩

theorem den_doc (ob : NMembers) : den (.doc ob) = .obj (denM ob) := by simp only [den]
theorem den_ary (ns : List Node) : den (.ary ns) = .arr (denL ns) := by simp only [den]

theorem lookupN_denM (k : Bytes) (ob : NMembers) : Value.lookup k (denM ob) = (lookupN k ob).map den :=
  (lookupN_den k ob).symm

/-! ### the container methods on arrays, in terms of the specification's index functions -/

theorem conGet_ary (neg : Bool) (ns : List Node) (key : Bytes) :
    match readIdx neg ns.length key with
    | .at i => ∃ n, ns[i]? = some n ∧ conGet neg (.ary ns) key = .ok n
    | .bad => ∃ e, conGet neg (.ary ns) key = .err e
    | .unspec => True := by
  have := Impl.readIdx_cases neg ns.length key
  cases hr : readIdx neg ns.length key with
  | unspec => trivial
  | «at» i =>
    rw [hr] at this
    obtain ⟨hi, idx, ha, h | h⟩ := this
    · obtain ⟨h0, h1⟩ := h
      have hlt : ¬ idx < 0 := by omega
      refine ⟨ns[i], by simp [hi], ?_⟩
      simp [conGet, ha, hlt, h1, hi]
    · obtain ⟨h0, h1, h2, h3⟩ := h
      have h4 : ¬ idx < -(ns.length : Int) := by omega
      refine ⟨ns[i], by simp [hi], ?_⟩
      simp [conGet, ha, h0, h1, h4, h3, hi]
  | bad =>
    rw [hr] at this
    rcases this with ha | ⟨idx, ha, h | h⟩
    · exact ⟨.other, by simp [conGet, ha]⟩
    · obtain ⟨h0, h1⟩ := h
      have hlt : ¬ idx < 0 := by omega
      have : ns[idx.toNat]? = none := by simp; omega
      exact ⟨.invalidIndex, by simp [conGet, ha, hlt, this]⟩
    · obtain ⟨h0, h1⟩ := h
      rcases h1 with h1 | h1
      · exact ⟨.invalidIndex, by simp [conGet, ha, h0, h1]⟩
      · refine ⟨.invalidIndex, ?_⟩
        simp only [conGet, ha, h0, if_true, h1]
        split <;> rfl

theorem conSet_ary (neg : Bool) (ns : List Node) (key : Bytes) (val : Node) :
    match readIdx neg ns.length key with
    | .at i => conSet neg (.ary ns) key val = .ok (.ary (listSet i val ns))
    | _ => True := by
  have := Impl.readIdx_cases neg ns.length key
  cases hr : readIdx neg ns.length key with
  | unspec => trivial
  | bad => trivial
  | «at» i =>
    rw [hr] at this
    obtain ⟨hi, idx, ha, h | h⟩ := this
    · obtain ⟨h0, h1⟩ := h
      have hlt : ¬ idx < 0 := by omega
      simp [conSet, ha, hlt, h1, hi]
    · obtain ⟨h0, h1, h2, h3⟩ := h
      have h4 : ¬ idx < -(ns.length : Int) := by omega
      simp [conSet, ha, h0, h1, h4, h3, hi]

theorem conRemove_ary (neg : Bool) (ns : List Node) (key : Bytes) :
    match readIdx neg ns.length key with
    | .at i => conRemove neg (.ary ns) key = .ok (.ary (ns.eraseIdx i))
    | .bad => ∃ e, conRemove neg (.ary ns) key = .err e
    | .unspec => True := by
  have := Impl.readIdx_cases neg ns.length key
  cases hr : readIdx neg ns.length key with
  | unspec => trivial
  | «at» i =>
    rw [hr] at this
    obtain ⟨hi, idx, ha, h | h⟩ := this
    · obtain ⟨h0, h1⟩ := h
      have hlt : ¬ idx < 0 := by omega
      have hge : ¬ idx ≥ (ns.length : Int) := by omega
      simp [conRemove, ha, hlt, hge, h1]
    · obtain ⟨h0, h1, h2, h3⟩ := h
      have h4 : ¬ idx < -(ns.length : Int) := by omega
      have hge : ¬ idx ≥ (ns.length : Int) := by omega
      simp [conRemove, ha, h0, h1, h4, h3, hge]
  | bad =>
    rw [hr] at this
    rcases this with ha | ⟨idx, ha, h | h⟩
    · exact ⟨.other, by simp [conRemove, ha]⟩
    · obtain ⟨h0, h1⟩ := h
      have hge : idx ≥ (ns.length : Int) := by omega
      exact ⟨.invalidIndex, by simp [conRemove, ha, hge]⟩
    · obtain ⟨h0, h1⟩ := h
      have hge : ¬ idx ≥ (ns.length : Int) := by omega
      rcases h1 with h1 | h1
      · exact ⟨.invalidIndex, by simp [conRemove, ha, h0, h1, hge]⟩
      · refine ⟨.invalidIndex, ?_⟩
        simp only [conRemove, ha, hge, if_false, h0, if_true, h1]
        split <;> rfl

theorem conAdd_ary (neg : Bool) (ns : List Node) (key : Bytes) (val : Node) :
    match slotIdx neg ns.length key with
    | .at i => conAdd neg (.ary ns) key val = .ok (.ary (listInsert i val ns))
    | .bad => ∃ e, conAdd neg (.ary ns) key val = .err e
    | .unspec => True := by
  have := Impl.slotIdx_cases neg ns.length key
  cases hr : slotIdx neg ns.length key with
  | unspec => trivial
  | «at» i =>
    rw [hr] at this
    obtain ⟨hi, h | h⟩ := this
    · obtain ⟨h0, h1⟩ := h
      subst h0; subst h1
      simp [conAdd, Impl.listInsert_length]
    · obtain ⟨hd, idx, ha, h | h⟩ := h
      · obtain ⟨h0, h1⟩ := h
        have hlt : ¬ idx < 0 := by omega
        have hge : ¬ idx ≥ (ns.length : Int) + 1 := by omega
        simp [conAdd, hd, ha, hlt, hge, h1]
      · obtain ⟨h0, h1, h2, h3⟩ := h
        have h4 : ¬ idx < -((ns.length : Int) + 1) := by omega
        have hge : ¬ idx ≥ (ns.length : Int) + 1 := by omega
        simp [conAdd, hd, ha, h0, h1, h4, hge, h3, hi]
  | bad =>
    rw [hr] at this
    obtain ⟨hd, this⟩ := this
    rcases this with ha | ⟨idx, ha, h | h⟩
    · exact ⟨.other, by simp [conAdd, hd, ha]⟩
    · obtain ⟨h0, h1⟩ := h
      have hge : idx ≥ (ns.length : Int) + 1 := by omega
      exact ⟨.invalidIndex, by simp [conAdd, hd, ha, hge]⟩
    · obtain ⟨h0, h1⟩ := h
      have hge : ¬ idx ≥ (ns.length : Int) + 1 := by omega
      rcases h1 with h1 | h1
      · exact ⟨.invalidIndex, by simp [conAdd, hd, ha, h0, h1, hge]⟩
      · refine ⟨.invalidIndex, ?_⟩
        simp only [conAdd, hd, if_false, ha, hge, h0, if_true, h1]
        split <;> rfl

/-! ### the container methods refine the specification's container edits -/

theorem specOpts_neg (neg : Bool) : (specOpts neg).neg = neg := rfl

theorem conAdd_refines {neg : Bool} {pc val : Node} {key : Bytes}
    (h : Inv pc) (hc : isDA pc = true) (hv : Inv val) (hk : QK true key = true) :
    match Spec.addIn (specOpts neg) (den val) (den pc) key with
    | .ok (p', _) => ∃ pc', conAdd neg pc key val = .ok pc' ∧ Inv pc' ∧ isDA pc' = true ∧ den pc' = p'
    | .fail _ => ∃ err, conAdd neg pc key val = .err err
    | .unspec => True := by
  cases pc with
  | doc ob =>
    simp only [den_doc, Spec.addIn]
    exact ⟨.doc (setN key val ob), rfl, Inv_doc_setN h hk hv, rfl, by rw [den_doc, denM_setN]⟩
  | ary ns =>
    rw [den_ary]
    simp only [Spec.addIn, denL_length, specOpts_neg]
    have := conAdd_ary neg ns key val
    cases hr : Spec.slotIdx neg ns.length key with
    | unspec => trivial
    | bad => rw [hr] at this; exact this
    | «at» i =>
      rw [hr] at this
      refine ⟨_, this, ?_, rfl, ?_⟩
      · rw [Inv_ary] at h ⊢; exact InvL_listInsert hv h
      · rw [den_ary, denL_listInsert]
  | nil => simp [isDA] at hc
  | rawNil => simp [isDA] at hc
  | raw c => simp [isDA] at hc
  | docNil => simp [isDA] at hc

/-- `get`, strict reading (`remove`, `move`, `copy`): an absent member is an error for the
specification; the legacy `partialDoc.get` answers a nil node instead -/
theorem conGet_refines {neg : Bool} {pc : Node} {key : Bytes}
    (h : Inv pc) (hc : isDA pc = true) :
    match Spec.getIn (specOpts neg) false (den pc) key with
    | .ok (_, v) => ∃ n, conGet neg pc key = .ok n ∧ Inv n ∧ den n = v
    | .fail c => (∃ err, conGet neg pc key = .err err) ∨
        (c = .absentMember ∧ conGet neg pc key = .ok .nil ∧ ∃ ob, pc = .doc ob ∧ lookupN key ob = none)
    | .unspec => True := by
  cases pc with
  | doc ob =>
    simp only [den_doc, Spec.getIn, lookupN_denM, conGet]
    rw [Inv_doc] at h
    cases hl : lookupN key ob with
    | none => exact Or.inr ⟨rfl, rfl, ob, rfl, hl⟩
    | some n => exact ⟨n, rfl, (InvM_lookupN h.2 hl).2, rfl⟩
  | ary ns =>
    rw [den_ary]
    simp only [Spec.getIn, denL_length, specOpts_neg]
    have := conGet_ary neg ns key
    cases hr : Spec.readIdx neg ns.length key with
    | unspec => trivial
    | bad => rw [hr] at this; exact Or.inl this
    | «at» i =>
      rw [hr] at this
      obtain ⟨n, hn, hg⟩ := this
      rw [Inv_ary] at h
      simp only [denL_getElem?, hn, Option.map_some]
      exact ⟨n, hg, InvL_getElem? h hn, rfl⟩
  | nil => simp [isDA] at hc
  | rawNil => simp [isDA] at hc
  | raw c => simp [isDA] at hc
  | docNil => simp [isDA] at hc

/-- `get` as `test` uses it: an absent member reads as null — the legacy `get` hands out a nil
node, whose value is null -/
theorem conGet_refines_test {neg : Bool} {pc : Node} {key : Bytes}
    (h : Inv pc) (hc : isDA pc = true) :
    match Spec.getIn (specOpts neg) true (den pc) key with
    | .ok (_, v) => ∃ n, conGet neg pc key = .ok n ∧ Inv n ∧ den n = v
    | .fail _ => ∃ err, conGet neg pc key = .err err
    | .unspec => True := by
  cases pc with
  | doc ob =>
    simp only [den_doc, Spec.getIn, lookupN_denM, conGet]
    rw [Inv_doc] at h
    cases hl : lookupN key ob with
    | none => exact ⟨.nil, rfl, Inv_nil, rfl⟩
    | some n => exact ⟨n, rfl, (InvM_lookupN h.2 hl).2, rfl⟩
  | ary ns =>
    rw [den_ary]
    simp only [Spec.getIn, denL_length, specOpts_neg]
    have := conGet_ary neg ns key
    cases hr : Spec.readIdx neg ns.length key with
    | unspec => trivial
    | bad => rw [hr] at this; exact this
    | «at» i =>
      rw [hr] at this
      obtain ⟨n, hn, hg⟩ := this
      rw [Inv_ary] at h
      simp only [denL_getElem?, hn, Option.map_some]
      exact ⟨n, hg, InvL_getElem? h hn, rfl⟩
  | nil => simp [isDA] at hc
  | rawNil => simp [isDA] at hc
  | raw c => simp [isDA] at hc
  | docNil => simp [isDA] at hc

theorem conRemove_refines {neg : Bool} {pc : Node} {key : Bytes}
    (h : Inv pc) (hc : isDA pc = true) :
    match Spec.removeIn (specOpts neg) (den pc) key with
    | .ok (p', _) => ∃ pc', conRemove neg pc key = .ok pc' ∧ Inv pc' ∧ isDA pc' = true ∧ den pc' = p'
    | .fail _ => ∃ err, conRemove neg pc key = .err err
    | .unspec => True := by
  cases pc with
  | doc ob =>
    simp only [den_doc, Spec.removeIn, lookupN_denM]
    cases hl : lookupN key ob with
    | none => exact ⟨.missing, by simp [conRemove, hl]⟩
    | some n =>
      refine ⟨.doc (eraseN key ob), by simp [conRemove, hl], Inv_doc_eraseN h, rfl, ?_⟩
      rw [den_doc, denM_eraseN _ _ ((Inv_doc ob).1 h).1]
  | ary ns =>
    rw [den_ary]
    simp only [Spec.removeIn, denL_length, specOpts_neg]
    have := conRemove_ary neg ns key
    cases hr : Spec.readIdx neg ns.length key with
    | unspec => trivial
    | bad => rw [hr] at this; exact this
    | «at» i =>
      rw [hr] at this
      have hi := Impl.readIdx_cases neg ns.length key
      rw [hr] at hi
      have hlt : i < ns.length := hi.1
      have : (denL ns)[i]? = some (den ns[i]) := by simp [denL_eq_map, hlt]
      simp only [this]
      refine ⟨_, by assumption, ?_, rfl, ?_⟩
      · rw [Inv_ary] at h ⊢; exact InvL_eraseIdx h
      · rw [den_ary, denL_eraseIdx]
  | nil => simp [isDA] at hc
  | rawNil => simp [isDA] at hc
  | raw c => simp [isDA] at hc
  | docNil => simp [isDA] at hc

/-- `set` where the specification's `replace` succeeds.  (Where it fails because the member is
absent the legacy `set` *succeeds*: a documented deviation, not in the property.) -/
theorem conSet_refines {neg : Bool} {pc val : Node} {key : Bytes}
    (h : Inv pc) (hc : isDA pc = true) (hv : Inv val) (hk : QK true key = true) :
    match Spec.replaceIn (specOpts neg) (den val) (den pc) key with
    | .ok (p', _) => ∃ pc', conSet neg pc key val = .ok pc' ∧ Inv pc' ∧ isDA pc' = true ∧ den pc' = p'
    | _ => True := by
  cases pc with
  | doc ob =>
    simp only [den_doc, Spec.replaceIn]
    cases hl : Value.lookup key (denM ob) with
    | none => trivial
    | some old =>
      exact ⟨.doc (setN key val ob), rfl, Inv_doc_setN h hk hv, rfl, by rw [den_doc, denM_setN]⟩
  | ary ns =>
    rw [den_ary]
    simp only [Spec.replaceIn, denL_length, specOpts_neg]
    have := conSet_ary neg ns key val
    have hi := Impl.readIdx_cases neg ns.length key
    cases hr : Spec.readIdx neg ns.length key with
    | unspec => trivial
    | bad => trivial
    | «at» i =>
      rw [hr] at this hi
      have hlt : i < ns.length := hi.1
      simp only [hlt, if_true]
      refine ⟨_, this, ?_, rfl, ?_⟩
      · rw [Inv_ary] at h ⊢; exact InvL_listSet hv h
      · rw [den_ary, denL_listSet]
  | nil => simp [isDA] at hc
  | rawNil => simp [isDA] at hc
  | raw c => simp [isDA] at hc
  | docNil => simp [isDA] at hc

/-! ### the container methods on the nil map (what a raw `null` on the way is parsed to) -/

theorem conAdd_docNil (neg key val) : conAdd neg .docNil key val = .err .invalid := rfl
theorem conSet_docNil (neg key val) : conSet neg .docNil key val = .err .invalid := rfl
theorem conRemove_docNil (neg key) : conRemove neg .docNil key = .err .missing := rfl
theorem conGet_docNil (neg key) : conGet neg .docNil key = .ok .nil := rfl

end Legacy
end JP
