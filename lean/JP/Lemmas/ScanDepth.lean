import JP.Lemmas.ScanStep

/-!
# Each byte closes at most one container: an input shorter than the stack cannot be valid
-/

namespace JP
namespace Scanner

/-- with at least two open containers, a step keeps `endTop = false` and pops at most one frame -/
def DP (s : Scan) (r : Scan × Nat) : Prop :=
  s.endTop = false → 2 ≤ s.stack.length → (r.1.endTop = false ∧ s.stack.length ≤ r.1.stack.length + 1)

theorem dp_error (s : Scan) : DP s s.error := fun h _ => ⟨h, Nat.le_succ _⟩
theorem dp_goto (s : Scan) (st : St) (op : Nat) : DP s (s.goto st op) := fun h _ => ⟨h, Nat.le_succ _⟩
theorem dp_same (s : Scan) (op : Nat) : DP s (s, op) := fun h _ => ⟨h, Nat.le_succ _⟩
theorem dp_st (s : Scan) (st : St) (op : Nat) : DP s ({ s with st := st }, op) := fun h _ => ⟨h, Nat.le_succ _⟩
theorem dp_push (s : Scan) (st : St) (p op : Nat) : DP s (({ s with st := st }).push p op) := by
  intro h _
  unfold Scan.push; simp only; split
  · exact ⟨h, by simp only [List.length_cons]; omega⟩
  · exact ⟨h, by simp only [Scan.error, List.length_cons]; omega⟩
theorem dp_pop (s : Scan) (op : Nat) : DP s (s.pop, op) := by
  intro h h2
  unfold Scan.pop
  simp only
  have : s.stack.tail.isEmpty = false := by
    cases hs : s.stack with
    | nil => rw [hs] at h2; simp at h2
    | cons a t => cases t with
      | nil => rw [hs] at h2; simp at h2
      | cons b t => rfl
  simp only [this, Bool.false_eq_true, if_false]
  exact ⟨h, by simp only [List.length_tail]; omega⟩

macro "dp_tac" : tactic => `(tactic| first
  | exact dp_error _
  | exact dp_goto _ _ _
  | exact dp_same _ _
  | exact dp_pop _ _
  | exact dp_push _ _ _ _)

theorem dp_stateEndTop (s : Scan) (c : UInt8) : DP s (stateEndTop s c) := by
  unfold stateEndTop; split
  · exact fun h _ => ⟨h, Nat.le_succ _⟩
  · dp_tac

theorem dp_stateEndValue (s : Scan) (c : UInt8) : DP s (stateEndValue s c) := by
  unfold stateEndValue
  split
  · rename_i h; intro _ h2; rw [h] at h2; simp at h2
  · rename_i ps rest hs
    repeat' split
    all_goals first | dp_tac | skip
    all_goals (intro h _; exact ⟨h, by simp only [hs, List.length_cons]; omega⟩)

theorem dp_stateBeginValue (s : Scan) (c : UInt8) : DP s (stateBeginValue s c) := by
  unfold stateBeginValue
  repeat' split
  all_goals dp_tac

theorem dp_stateBeginString (s : Scan) (c : UInt8) : DP s (stateBeginString s c) := by
  unfold stateBeginString
  repeat' split
  all_goals dp_tac

theorem dp_state0 (s : Scan) (c : UInt8) : DP s (state0 s c) := by
  unfold state0
  repeat' split
  all_goals first | dp_tac | exact dp_stateEndValue _ _

theorem dp_stateESign (s : Scan) (c : UInt8) : DP s (stateESign s c) := by
  unfold stateESign
  split
  all_goals dp_tac

theorem dp_hexStep (s : Scan) (c : UInt8) (n : St) : DP s (hexStep s c n) := by
  unfold hexStep
  split
  all_goals dp_tac

theorem dp_expect (s : Scan) (c w : UInt8) (n : St) : DP s (expect s c w n) := by
  unfold expect
  split
  all_goals dp_tac

theorem dp_step (s : Scan) (c : UInt8) : DP s (step s c) := by
  unfold step
  split
  all_goals first
    | exact dp_stateEndValue _ _ | exact dp_stateEndTop _ _ | exact dp_stateBeginValue _ _
    | exact dp_stateBeginString _ _ | exact dp_state0 _ _ | exact dp_stateESign _ _
    | exact dp_hexStep _ _ _ | exact dp_expect _ _ _ _ | exact dp_same _ _
    | skip
  · unfold stateBeginValueOrEmpty
    repeat' split
    all_goals first | dp_tac | exact dp_stateEndValue _ _ | exact dp_stateBeginValue _ _
  · unfold stateBeginStringOrEmpty
    repeat' split
    all_goals first | dp_tac | exact dp_stateBeginString _ _ | skip
    rename_i hs
    intro h h2
    have := dp_stateEndValue { s with stack := parseObjectValue :: _ } c h
      (by simp only [hs, List.length_cons] at h2 ⊢; omega)
    exact ⟨this.1, by have := this.2; simp only [hs, List.length_cons] at this ⊢; omega⟩
  · unfold stateInString
    repeat' split
    all_goals dp_tac
  · unfold stateInStringEsc
    repeat' split
    all_goals dp_tac
  · unfold stateNeg
    repeat' split
    all_goals dp_tac
  · unfold state1
    split
    all_goals first | dp_tac | exact dp_state0 _ _
  · unfold stateDot
    split
    all_goals dp_tac
  · unfold stateDot0
    repeat' split
    all_goals first | dp_tac | exact dp_stateEndValue _ _
  · unfold stateE
    split
    all_goals first | dp_tac | exact dp_stateESign _ _
  · unfold stateE0
    split
    all_goals first | dp_tac | exact dp_stateEndValue _ _


/-- a space never completes the top-level value while a container is open -/
theorem step_space_endTop (s : Scan) (h : s.endTop = false) (hs : s.stack ≠ []) :
    (step s 32).1.endTop = false := by
  obtain ⟨st, stack, endTop, err⟩ := s
  simp only at h hs; subst h
  cases stack with
  | nil => exact absurd rfl hs
  | cons p stk =>
    cases st <;> simp [step, stateBeginValueOrEmpty, stateBeginValue, stateBeginStringOrEmpty,
      stateBeginString, stateEndValue, stateEndTop, stateInString, stateInStringEsc, hexStep, stateNeg,
      state1, state0, stateDot, stateDot0, stateE, stateESign, stateE0, expect, Scan.error, Scan.goto,
      isSpace, isDigit_32, isHex'_32]

theorem eof_of_open (s : Scan) (h : s.endTop = false) (hs : s.stack ≠ []) : eof s = false := by
  simp only [eof, h, step_space_endTop s h hs]
  simp

/-- fewer bytes left than open containers: the text cannot be valid -/
theorem vf_short (bs : Bytes) : ∀ (s : Scan), s.endTop = false → bs.length < s.stack.length →
    validFrom s bs = false := by
  induction bs with
  | nil =>
    intro s h hl
    exact eof_of_open s h (by intro h'; rw [h'] at hl; simp at hl)
  | cons c cs ih =>
    intro s h hl
    rw [validFrom_cons]
    split
    · rfl
    · simp only [List.length_cons] at hl
      have := dp_step s c h (by omega)
      exact ih _ this.1 (by omega)

end Scanner
end JP
