import JP.Lemmas.FloatParse

/-!
# The sign: printing `-x` is printing `x` behind a `-`
-/

namespace JP
namespace Codec
namespace Float

theorem roundsTo_neg (bits : Nat) (x : FP) (c : Nat) (e : Int) :
    roundsTo bits x.neg c e = roundsTo bits x c e := rfl

theorem candPick_neg (bits : Nat) (x : FP) (lo r b : Nat) (e : Int) :
    candPick bits x.neg lo r b e = candPick bits x lo r b e := rfl

theorem cand_neg (bits : Nat) (x : FP) (N D : Nat) (k : Int) (n : Nat) :
    cand bits x.neg N D k n = cand bits x N D k n := by
  simp only [cand, candPick_neg]

theorem search_neg (bits : Nat) (x : FP) (N D : Nat) (k : Int) : ∀ (fuel n : Nat),
    search bits x.neg N D k fuel n = search bits x N D k fuel n := by
  intro fuel
  induction fuel with
  | zero => intro n; rfl
  | succ f ih => intro n; simp only [search, cand_neg, ih]

theorem shortest_neg (bits : Nat) (x : FP) : shortest bits x.neg = shortest bits x := by
  simp only [shortest, search_neg]
  rfl

theorem layout_neg (fmt : Fmt) (ds : Bytes) (dp : Int) :
    layout fmt true ds dp = 45 :: layout fmt false ds dp := by
  unfold layout fmtE fmtF
  split <;> simp

theorem neg_neg (x : FP) : x.neg.neg = x := by
  cases x; simp [FP.neg]

/-! ## reading a literal that starts with `-` -/

theorem splitE_head_minus (t : Bytes) : (splitE (45 :: t)).1 = 45 :: (splitE t).1 := by
  simp [splitE]

theorem parseLit_head_neg (s : Bytes) (h : s.head? = some 45) (l : Lit) (hl : parseLit s = some l) :
    l.neg = true := by
  cases s with
  | nil => simp at h
  | cons c t =>
    simp only [List.head?_cons, Option.some.injEq] at h
    subst h
    simp only [parseLit, splitE_head_minus] at hl
    cases hm : parseMant (45 :: (splitE t).1) with
    | none => rw [hm] at hl; simp at hl
    | some r =>
      obtain ⟨n, ip, fp⟩ := r
      have hn : n = true := by
        unfold parseMant at hm
        simp only [List.head?_cons, decide_true, if_true] at hm
        split at hm
        · simp at hm
        · split at hm
          · simp at hm; exact hm.1
          · split at hm
            · simp at hm; exact hm.1
            · simp at hm
      subst hn
      rw [hm] at hl
      simp only at hl
      cases he : (splitE (45 :: t)).2 with
      | none => rw [he] at hl; simp at hl; rw [← hl]
      | some r =>
        rw [he] at hl
        simp only at hl
        cases hp : parseExp r with
        | none => rw [hp] at hl; simp at hl
        | some e => rw [hp] at hl; simp at hl; rw [← hl]

theorem isDigit_45 : isDigit 45 = false := by decide

theorem parseLit_double_minus (s : Bytes) (h : s.head? = some 45) : parseLit (45 :: s) = none := by
  cases s with
  | nil => simp at h
  | cons c t =>
    simp only [List.head?_cons, Option.some.injEq] at h
    subst h
    have hm : parseMant (45 :: 45 :: (splitE t).1) = none := by
      unfold parseMant
      simp only [List.head?_cons, decide_true, if_true, List.drop_succ_cons, List.drop_zero]
      have hsd : (splitDot (45 :: (splitE t).1)).1 = 45 :: (splitDot (splitE t).1).1 := by
        simp [splitDot]
      have : intOk (splitDot (45 :: (splitE t).1)).1 = false := by
        rw [hsd]; simp [intOk, allDigits, isDigit_45]
      simp [this]
    simp only [parseLit, splitE_head_minus, hm]

theorem parseFloat_neg_iff (bits : Nat) (x : FP) (hx : x.sign = false) (s : Bytes) :
    parseFloat bits (45 :: s) = some (x.neg, false) ↔ parseFloat bits s = some (x, false) := by
  by_cases hh : s.head? = some 45
  · constructor
    · intro h
      unfold parseFloat at h
      rw [parseLit_double_minus s hh] at h
      simp at h
    · intro h
      unfold parseFloat at h
      cases hl : parseLit s with
      | none => rw [hl] at h; simp at h
      | some l =>
        rw [hl] at h
        simp only [Option.some.injEq, Prod.mk.injEq] at h
        have := parseLit_head_neg s hh l hl
        rw [← h.1] at hx
        simp only at hx
        rw [this] at hx
        exact absurd hx (by simp)
  · have hs : parseFloat bits (45 :: s) = (parseFloat bits s).map fun r => (r.1.neg, r.2) := by
      unfold parseFloat
      rw [parseLit_neg s hh]
      cases hl : parseLit s with
      | none => rfl
      | some l =>
        have := parseLit_pos s hh l hl
        simp [FP.neg, this]
    rw [hs]
    cases hp : parseFloat bits s with
    | none => simp
    | some r =>
      obtain ⟨y, e⟩ := r
      simp only [Option.map_some, Option.some.injEq, Prod.mk.injEq]
      constructor
      · rintro ⟨h1, h2⟩
        have := congrArg FP.neg h1
        rw [neg_neg, neg_neg] at this
        exact ⟨this, h2⟩
      · rintro ⟨h1, h2⟩
        rw [h1]; exact ⟨rfl, h2⟩

theorem formatShortest_neg (bits : Nat) (fmt : Fmt) (x : FP) (hx : x.sign = false) :
    formatShortest bits fmt x.neg = (formatShortest bits fmt x).map (fun b => 45 :: b) := by
  unfold formatShortest
  rw [shortest_neg]
  cases hs : shortest bits x with
  | none => rfl
  | some r =>
    obtain ⟨ds, dp⟩ := r
    have hsn : x.neg.sign = true := by simp [FP.neg, hx]
    simp only [hsn, hx, layout_neg]
    by_cases hp : parseFloat bits (layout fmt false ds dp) = some (x, false)
    · have := (parseFloat_neg_iff bits x hx _).2 hp
      simp [hp, this]
    · have : ¬ parseFloat bits (45 :: layout fmt false ds dp) = some (x.neg, false) :=
        fun h => hp ((parseFloat_neg_iff bits x hx _).1 h)
      simp [hp, this]

/-! ## the clean-up behind a sign -/

theorem cleanRev_snoc (r : Bytes) : cleanRev (r ++ [45]) = cleanRev r ++ [45] := by
  unfold cleanRev
  split
  · rename_i d rp heq
    -- r ++ [45] = d :: 48 :: 45 :: 101 :: rp
    match r, heq with
    | [], heq => simp at heq
    | [a], heq => simp at heq
    | [a, b], heq => simp at heq
    | [a, b, c], heq => simp at heq
    | a :: b :: c :: e :: rest, heq =>
      simp only [List.cons_append, List.cons.injEq] at heq
      obtain ⟨rfl, rfl, rfl, rfl, hr⟩ := heq
      simp [← hr]
  · rename_i hno
    split
    · exact (hno _ _ rfl).elim
    · rfl

theorem cleanExp_minus (b : Bytes) : cleanExp (45 :: b) = 45 :: cleanExp b := by
  unfold cleanExp
  rw [List.reverse_cons, cleanRev_snoc]
  simp

theorem floatEncode_neg (bits : Nat) (x : FP) (hx : x.sign = false) :
    floatEncode bits x.neg false = (floatEncode bits x false).map (fun b => 45 :: b) := by
  have h1 : x.neg.isFinite bits = x.isFinite bits := rfl
  have h2 : useE bits x.neg = useE bits x := rfl
  simp only [floatEncode, h1, h2, formatShortest_neg bits _ x hx]
  by_cases hf : x.isFinite bits = true
  · simp only [hf, Bool.not_true, Bool.false_eq_true, if_false]
    cases hs : formatShortest bits (if useE bits x = true then Fmt.e else Fmt.f) x with
    | none => rfl
    | some b =>
      simp only [Option.map_some]
      by_cases hu : useE bits x = true
      · simp [hu, cleanExp_minus]
      · simp [hu]
  · simp [hf]

end Float
end Codec
end JP
