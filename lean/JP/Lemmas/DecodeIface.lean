import JP.Lemmas.DecodeBasic
import JP.Codec.Sem

/-!
# The `*Interface` fast paths on a well-formed text (decoding into `any`)

Induction along the reference parser (`parse_ind`): `valueInterface` / `arrayInterface` /
`objectInterface` return the dynamic value of the parse tree (`sem c .any`), leave `savedError` and
`lastKeys` alone, and have read one byte beyond the value.
-/

namespace JP
namespace Codec

open Scanner

def StartOp (op : Nat) : Prop := op = scanBeginLiteral ∨ op = scanBeginObject ∨ op = scanBeginArray

/-- the state after a value that ends `rest.length` bytes before the end of `data`, at stack `stk` -/
structure PostV (D' : DState) (data : Bytes) (n : Nat) (stk : List Nat) (rest : Bytes)
    (se : Option DErr) (lk : List Bytes) : Prop where
  data : D'.data = data
  se : D'.savedError = se
  lk : D'.lastKeys = lk
  pos : ∀ y rest', rest = y :: rest' →
    D'.off = n + 1 ∧ D'.scan = (step (ev stk) y).1 ∧ D'.opcode = (step (ev stk) y).2

theorem PostV.eq {D' : DState} {data : Bytes} {n : Nat} {stk : List Nat} {rest : Bytes} {se : Option DErr}
    {lk : List Bytes} (h : PostV D' data n stk rest se lk) (y : UInt8) (rest' : Bytes) (hr : rest = y :: rest') :
    D' = atD data (n + 1) (step (ev stk) y) se lk := by
  obtain ⟨h1, h2, h3, h4⟩ := h
  obtain ⟨a, b, c⟩ := h4 y rest' hr
  cases D'
  simp only [atD] at *
  simp [h1, h2, h3, a, b, c]

theorem postV_atD (data : Bytes) (n : Nat) (stk : List Nat) (X : St) (rest : Bytes) (se : Option DErr)
    (lk : List Bytes) : PostV (atD data (n + 1) (afterLit (mk X stk) rest) se lk) data n stk rest se lk := by
  refine ⟨rfl, rfl, rfl, ?_⟩
  intro y rest' hr
  subst hr
  rw [afterLit_cons]
  exact ⟨rfl, rfl, rfl⟩

/-- `scanNext` after the closing bracket of a container -/
theorem postV_scanNext (pre vt rest : Bytes) (stk : List Nat) (op : Nat) (se : Option DErr) (lk : List Bytes) :
    PostV (scanNext (atD (pre ++ (vt ++ rest)) (pre ++ vt).length (afterClose stk, op) se lk))
      (pre ++ (vt ++ rest)) (pre ++ vt).length stk rest se lk := by
  cases rest with
  | nil =>
    refine ⟨?_, ?_, ?_, fun y r h => by cases h⟩
    all_goals (simp only [scanNext]; split <;> rfl)
  | cons y r =>
    have e : pre ++ (vt ++ y :: r) = (pre ++ vt) ++ y :: r := by simp
    rw [e, scanNext_afterClose (pre ++ vt) y r stk op se lk]
    refine ⟨rfl, rfl, rfl, ?_⟩
    intro y' r' h
    simp only [List.cons.injEq] at h
    obtain ⟨rfl, rfl⟩ := h
    exact ⟨rfl, rfl, rfl⟩

theorem startOp_ne_endArray {op : Nat} (h : StartOp op) : op ≠ scanEndArray := by
  rcases h with rfl | rfl | rfl <;> decide

/-- the first byte of a number -/
theorem step_bv_numhead (stk : List Nat) (c : UInt8) (h : c = 45 ∨ isDigit c = true) :
    ∃ X, step (bv stk) c = (mk X stk, scanBeginLiteral) := by
  rcases h with rfl | hd
  · exact ⟨_, step_bv_minus stk⟩
  · obtain ⟨h1, h2, h3, h4, h5, h6⟩ := numHead_spec c (.inr hd)
    have hws := (startByte_spec c (startByte_num c (.inr hd))).1
    have h7 : c ≠ 45 := by intro h; subst h; revert hd; decide
    rw [step_bv_num stk c hws h1 h2 h3 h4 h5 h6 h7]
    by_cases h48 : c = 48
    · exact ⟨.state0, by simp [h48]⟩
    · have : 49 ≤ c.toNat ∧ c.toNat ≤ 57 := by
        have := (isDigit_iff c).1 hd
        have : c.toNat ≠ 48 := fun h => h48 (by
          have := (u8_eq_iff c 48 (by decide)).2 h; simpa using this)
        omega
      exact ⟨.state1, by simp [h48, this]⟩

def IfaceV (f dd : Nat) (bs : Bytes) (c : Cst) (rest : Bytes) : Prop :=
  ∀ stk : List Nat, stk.length = dd → ∀ (pre : Bytes) (x : UInt8) (bs' : Bytes), bs = x :: bs' →
    ∀ (se : Option DErr) (lk : List Bytes) (G : Nat), 2 * f ≤ G → DelimW rest →
    ∃ vt D' v, bs = vt ++ rest ∧ StartOp (step (bv stk) x).2 ∧
      valueInterface G (atD (pre ++ bs) (pre.length + 1) (step (bv stk) x) se lk) = .ok (D', v) ∧
      view v = sem c .any ∧ PostV D' (pre ++ bs) (pre ++ vt).length stk rest se lk

def IfaceE (f dd : Nat) (bs : Bytes) (xs : List Cst) (rest : Bytes) : Prop :=
  ∀ stk : List Nat, stk.length + 1 = dd → ∀ (pre : Bytes) (x : UInt8) (bs' : Bytes), bs = x :: bs' →
    ∀ (se : Option DErr) (lk : List Bytes) (G : Nat), 2 * f + 1 ≤ G → ∀ (d0 : DState) (acc : List DVal),
    scanWhile scanSkipSpace d0 = atD (pre ++ bs) (pre.length + 1) (step (bv (2 :: stk)) x) se lk →
    ∃ et vs, bs = et ++ rest ∧
      arrayInterface G d0 acc =
        .ok (atD (pre ++ bs) (pre ++ et).length (afterClose stk, scanEndArray) se lk, acc ++ vs) ∧
      mapRawL parseCst vs = semL xs .any

def IfaceM (f dd : Nat) (bs : Bytes) (ms : List (Bytes × Cst)) (rest : Bytes) : Prop :=
  ∀ stk : List Nat, stk.length + 1 = dd → ∀ (pre : Bytes) (bs' : Bytes), bs = 34 :: bs' →
    ∀ (se : Option DErr) (lk : List Bytes) (G : Nat), 2 * f + 1 ≤ G → ∀ (d0 : DState) (m : DMembers),
    scanWhile scanSkipSpace d0 =
      atD (pre ++ bs) (pre.length + 1) (step (mk .stateBeginString (0 :: stk)) 34) se lk →
    ∃ mt m', bs = mt ++ rest ∧
      objectInterface G d0 m =
        .ok (atD (pre ++ bs) (pre ++ mt).length (afterClose stk, scanEndObject) se lk, m') ∧
      mapRawM parseCst m' = semM ms .any (mapRawM parseCst m)

/-- the value `literalInterface` builds from the literal's text -/
def litIfaceVal : Bytes → Option DVal
  | [] => none
  | c :: item' =>
    if c = 110 then some .null
    else if c = 116 ∨ c = 102 then some (.bool (c = 116))
    else if c = 34 then (unquoteBytes (c :: item')).map .str
    else if c ≠ 45 ∧ !isDigit c then none
    else some (.num (c :: item'))

theorem literalInterface_of (d d1 : DState) (item : Bytes) (v : DVal) (hres : rescanLiteral d = .ok d1)
    (hslice : slice? d1.data d.readIndex d1.readIndex = some item) (hval : litIfaceVal item = some v) :
    literalInterface d = .ok (d1, v) := by
  simp only [literalInterface, hres, hslice]
  cases item with
  | nil => simp [litIfaceVal] at hval
  | cons c item' =>
    simp only [litIfaceVal] at hval
    simp only
    by_cases h1 : c = 110
    · simp only [h1, if_true, Option.some.injEq] at hval ⊢; rw [hval]
    · simp only [h1, if_false] at hval ⊢
      by_cases h2 : c = 116 ∨ c = 102
      · simp only [h2, if_true, Option.some.injEq] at hval ⊢; rw [hval]
      · simp only [h2, if_false] at hval ⊢
        by_cases h3 : c = 34
        · simp only [h3, if_true] at hval ⊢
          cases hu : unquoteBytes (34 :: item') with
          | none => rw [hu] at hval; simp at hval
          | some s =>
            rw [hu] at hval
            simp only [Option.map_some, Option.some.injEq] at hval
            simp only [hval]
        · simp only [h3, if_false] at hval ⊢
          by_cases h4 : c ≠ 45 ∧ (!isDigit c) = true
          · rw [if_pos h4] at hval; cases hval
          · rw [if_neg h4] at hval ⊢
            simp only [Option.some.injEq] at hval; rw [hval]

theorem valueInterface_lit (G : Nat) (d d1 : DState) (item : Bytes) (v : DVal) (hop : d.opcode = scanBeginLiteral)
    (hres : rescanLiteral d = .ok d1) (hslice : slice? d1.data d.readIndex d1.readIndex = some item)
    (hval : litIfaceVal item = some v) : valueInterface (G + 1) d = .ok (d1, v) := by
  have e1 : (scanBeginLiteral = scanBeginArray) = False := by decide
  have e2 : (scanBeginLiteral = scanBeginObject) = False := by decide
  simp only [valueInterface, hop, e1, e2, if_false, if_true]
  exact literalInterface_of d d1 item v hres hslice hval

theorem view_str (s : Bytes) : view (.str s) = .str s := rfl

theorem iface_str (f d : Nat) (cs b rest : Bytes) (h : parseStrBody cs = some (b, rest)) :
    IfaceV (f + 1) d (34 :: cs) (.str b) rest := by
  intro stk _ pre x bs' hx se lk G hG _
  obtain ⟨hcs, hvb⟩ := parseStrBody_split cs b rest h
  simp only [List.cons.injEq] at hx
  obtain ⟨rfl, rfl⟩ := hx
  obtain ⟨G, rfl⟩ : ∃ G', G = G' + 1 := ⟨G - 1, by omega⟩
  have hdata : (34 : UInt8) :: cs = strText b ++ rest := by rw [hcs]; simp [strText]
  rw [hdata]
  refine ⟨strText b, atD (pre ++ (strText b ++ rest)) ((pre ++ strText b).length + 1)
    (afterLit (mk .stateInString stk) rest) se lk, .str (unquote b), rfl, ?_, ?_, rfl, postV_atD _ _ stk _ rest se lk⟩
  · rw [step_bv_quote]; exact .inl rfl
  · rw [step_bv_quote]
    refine valueInterface_lit G _ _ (strText b) _ rfl (rescan_string pre b rest hvb _ _ se lk) ?_ ?_
    · simp only [DState.readIndex, atD_off, atD_data, Nat.add_sub_cancel, slice_mid]
    · have := unquoteBytes_strText b hvb
      simp only [strText] at this
      simp only [litIfaceVal, strText, this]
      rw [if_neg (by decide), if_neg (by decide)]
      rfl

theorem iface_word_aux (w rest : Bytes) (v : DVal) (stk : List Nat) (X : St) (pre : Bytes) (x : UInt8) (bs' : Bytes)
    (hx : w ++ rest = x :: bs') (hw : w = ascii "true" ∨ w = ascii "false" ∨ w = ascii "null")
    (hX : step (bv stk) x = (mk X stk, scanBeginLiteral)) (hv : litIfaceVal w = some v)
    (hsem : view v = sem (.lit w) .any) (se : Option DErr) (lk : List Bytes) (G : Nat) :
    ∃ vt D' v, w ++ rest = vt ++ rest ∧ StartOp (step (bv stk) x).2 ∧
      valueInterface (G + 1) (atD (pre ++ (w ++ rest)) (pre.length + 1) (step (bv stk) x) se lk) = .ok (D', v) ∧
      view v = sem (.lit w) .any ∧ PostV D' (pre ++ (w ++ rest)) (pre ++ vt).length stk rest se lk := by
  rw [hX]
  refine ⟨w, atD (pre ++ (w ++ rest)) ((pre ++ w).length + 1) (afterLit (mk X stk) rest) se lk,
    v, rfl, .inl rfl, ?_, hsem, postV_atD _ _ stk _ rest se lk⟩
  refine valueInterface_lit G _ _ w _ rfl (rescan_word pre w rest hw _ _ se lk) ?_ hv
  simp only [DState.readIndex, atD_off, atD_data, Nat.add_sub_cancel, slice_mid]

theorem iface_word (f d : Nat) (w rest : Bytes) (hw : w = ascii "true" ∨ w = ascii "false" ∨ w = ascii "null") :
    IfaceV (f + 1) d (w ++ rest) (.lit w) rest := by
  intro stk _ pre x bs' hx se lk G hG _
  obtain ⟨G, rfl⟩ : ∃ G', G = G' + 1 := ⟨G - 1, by omega⟩
  rcases hw with rfl | rfl | rfl
  · have : x = 116 := by simp [ascii] at hx; exact hx.1.symm
    subst this
    exact iface_word_aux _ rest (.bool true) stk _ pre _ bs' hx (.inl rfl) (step_bv_t stk) rfl rfl se lk G
  · have : x = 102 := by simp [ascii] at hx; exact hx.1.symm
    subst this
    exact iface_word_aux _ rest (.bool false) stk _ pre _ bs' hx (.inr (.inl rfl)) (step_bv_f stk) rfl rfl se lk G
  · have : x = 110 := by simp [ascii] at hx; exact hx.1.symm
    subst this
    exact iface_word_aux _ rest .null stk _ pre _ bs' hx (.inr (.inr rfl)) (step_bv_n stk) rfl rfl se lk G

theorem lit_head_ne (c : UInt8) (lt : Bytes) (w : Bytes) (x : UInt8) (wt : Bytes) (hw : w = x :: wt) (h : c ≠ x) :
    c :: lt ≠ w := by
  rw [hw]; intro h'; simp only [List.cons.injEq] at h'; exact h h'.1

theorem sem_num_any (c : UInt8) (lt : Bytes) (h1 : c ≠ 110) (h2 : c ≠ 116) (h3 : c ≠ 102) :
    sem (.lit (c :: lt)) .any = .num (c :: lt) := by
  simp only [sem, semLit]
  rw [if_neg (lit_head_ne c lt nullLit 110 _ rfl h1), if_neg (lit_head_ne c lt (ascii "true") 116 _ rfl h2),
    if_neg (lit_head_ne c lt (ascii "false") 102 _ rfl h3)]

theorem iface_num (f d : Nat) (c : UInt8) (cs l rest : Bytes) (hc : c = 45 ∨ isDigit c = true)
    (hp : parseNumber (c :: cs) = some (l, rest)) : IfaceV (f + 1) d (c :: cs) (.lit l) rest := by
  intro stk _ pre x bs' hx se lk G hG hdl
  obtain ⟨G, rfl⟩ : ∃ G', G = G' + 1 := ⟨G - 1, by omega⟩
  simp only [List.cons.injEq] at hx
  obtain ⟨rfl, rfl⟩ := hx
  obtain ⟨hsp, hself⟩ := parseNumber_prefix _ _ _ hp
  have halpha := parseNumber_alphabet _ _ _ hp
  obtain ⟨c', lt, hl, _⟩ := parseNumber_head l l [] hself
  subst hl
  have hcc : c' = c := by simp only [List.cons_append, List.cons.injEq] at hsp; exact hsp.1.symm
  subst hcc
  obtain ⟨h1, h2, h3, h4, h5, h6⟩ := numHead_spec c' hc
  obtain ⟨X, hX⟩ := step_bv_numhead stk c' hc
  rw [hX, hsp]
  refine ⟨c' :: lt, atD (pre ++ (c' :: lt ++ rest)) ((pre ++ c' :: lt).length + 1) (afterLit (mk X stk) rest) se lk,
    .num (c' :: lt), rfl, .inl rfl, ?_, ?_, postV_atD _ _ stk _ rest se lk⟩
  · refine valueInterface_lit G _ _ (c' :: lt) _ rfl
      (rescan_number pre c' lt rest hc (fun b hb => halpha b (List.mem_cons_of_mem _ hb)) (delimW_numEnd rest hdl)
        _ _ se lk) ?_ ?_
    · simp only [DState.readIndex, atD_off, atD_data, Nat.add_sub_cancel, slice_mid]
    · simp only [litIfaceVal]
      rw [if_neg h6, if_neg (by intro h; rcases h with h | h; exact h4 h; exact h5 h), if_neg h3,
        if_neg (by intro h; rcases hc with hc | hc; exact h.1 hc; simp [hc] at h)]
  · rw [sem_num_any c' lt h6 h4 h5]; rfl

/-! ### primed forms: the data as a variable -/

theorem scanWhile_ws' (data pre ws : Bytes) (y : UInt8) (post : Bytes) (s : Scan) (op0 : Nat) (se : Option DErr)
    (lk : List Bytes) (hdata : data = pre ++ (ws ++ y :: post)) (hws : ∀ b ∈ ws, isWs b = true)
    (hs : ∀ c, isWs c = true → step s c = (s, scanSkipSpace)) (hy : isWs y = false) :
    scanWhile scanSkipSpace (atD data pre.length (s, op0) se lk) =
      atD data ((pre ++ ws).length + 1) (step s y) se lk := by
  subst hdata
  exact scanWhile_ws pre ws y post s op0 se lk hws hs (step_nonws_ne_skip s y hy)

theorem skipSpaceIf_ev' (data pre : Bytes) (y : UInt8) (r0 : Bytes) (y' : UInt8) (post' : Bytes) (p : Nat)
    (stk : List Nat) (se : Option DErr) (lk : List Bytes) (hdata : data = pre ++ y :: r0)
    (h : skipWs (y :: r0) = y' :: post') :
    ∃ ws, y :: r0 = ws ++ y' :: post' ∧ (∀ b ∈ ws, isWs b = true) ∧
      skipSpaceIf (atD data (pre.length + 1) (step (ev (p :: stk)) y) se lk) =
        atD data ((pre ++ ws).length + 1) (step (ev (p :: stk)) y') se lk := by
  subst hdata
  exact skipSpaceIf_ev pre y r0 y' post' p stk se lk h

/-! ### one turn of the loops -/

theorem arrayInterface_done (G : Nat) (d0 D1 : DState) (acc : List DVal) (h1 : scanWhile scanSkipSpace d0 = D1)
    (hop : D1.opcode = scanEndArray) : arrayInterface (G + 1) d0 acc = .ok (D1, acc) := by
  simp only [arrayInterface, h1, hop, if_true]

theorem arrayInterface_last (G : Nat) (d0 D1 D2 D3 : DState) (v : DVal) (acc : List DVal)
    (h1 : scanWhile scanSkipSpace d0 = D1) (hop : D1.opcode ≠ scanEndArray)
    (h2 : valueInterface G D1 = .ok (D2, v)) (h3 : skipSpaceIf D2 = D3) (hop3 : D3.opcode = scanEndArray) :
    arrayInterface (G + 1) d0 acc = .ok (D3, acc ++ [v]) := by
  simp only [arrayInterface, h1, hop, if_false, h2, h3, hop3, if_true]

theorem arrayInterface_more (G : Nat) (d0 D1 D2 D3 : DState) (v : DVal) (acc : List DVal)
    (h1 : scanWhile scanSkipSpace d0 = D1) (hop : D1.opcode ≠ scanEndArray)
    (h2 : valueInterface G D1 = .ok (D2, v)) (h3 : skipSpaceIf D2 = D3) (hop3 : D3.opcode = scanArrayValue) :
    arrayInterface (G + 1) d0 acc = arrayInterface G D3 (acc ++ [v]) := by
  have e1 : (scanArrayValue = scanEndArray) = False := by decide
  simp only [arrayInterface, h1, hop, if_false, h2, h3, hop3, e1, ne_eq, not_true_eq_false]

theorem skipWs_cons_ne_nil {r : Bytes} {y : UInt8} {r' : Bytes} (h : skipWs r = y :: r') : ∃ y0 r0, r = y0 :: r0 := by
  cases r with
  | nil => simp [skipWs] at h
  | cons y0 r0 => exact ⟨y0, r0, rfl⟩

theorem iface_elast (f d : Nat) (bs : Bytes) (c : Cst) (r r' : Bytes) (ih : IfaceV f d bs c r)
    (h93 : skipWs r = 93 :: r') : IfaceE (f + 1) d bs [c] r' := by
  intro stk hstk pre x bs' hx se lk G hG d0 acc hd0
  obtain ⟨G, rfl⟩ : ∃ G', G = G' + 1 := ⟨G - 1, by omega⟩
  obtain ⟨vt, D2, v, hbs, hstart, hval, hview, hpost⟩ :=
    ih (2 :: stk) (by simpa using hstk) pre x bs' hx se lk G (by omega) (delimW_of_skipWs r r' 93 h93 (by simp))
  obtain ⟨y, r0, rfl⟩ := skipWs_cons_ne_nil h93
  have hD2 := hpost.eq y r0 rfl
  have hdata : pre ++ bs = (pre ++ vt) ++ y :: r0 := by rw [hbs]; simp
  obtain ⟨ws, hr, hws, hskip⟩ := skipSpaceIf_ev' (pre ++ bs) (pre ++ vt) y r0 93 r' 2 stk se lk hdata h93
  rw [← hD2, step_ev_arr_rbrack] at hskip
  refine ⟨vt ++ ws ++ [93], [v], by rw [hbs, hr]; simp, ?_, by simp [mapRawL, semL, ← hview, view]⟩
  rw [arrayInterface_last G d0 _ D2 _ v acc hd0 (startOp_ne_endArray hstart) hval hskip rfl]
  simp only [List.length_append, List.length_cons, List.length_nil, Nat.add_assoc]

theorem iface_emore (f d : Nat) (bs : Bytes) (c : Cst) (r r' : Bytes) (xs : List Cst) (rest : Bytes)
    (ih : IfaceV f d bs c r) (h44 : skipWs r = 44 :: r') (hne : ∃ x2 b2, skipWs r' = x2 :: b2)
    (ihE : IfaceE f d (skipWs r') xs rest) : IfaceE (f + 1) d bs (c :: xs) rest := by
  intro stk hstk pre x bs' hx se lk G hG d0 acc hd0
  obtain ⟨G, rfl⟩ : ∃ G', G = G' + 1 := ⟨G - 1, by omega⟩
  obtain ⟨vt, D2, v, hbs, hstart, hval, hview, hpost⟩ :=
    ih (2 :: stk) (by simpa using hstk) pre x bs' hx se lk G (by omega) (delimW_of_skipWs r r' 44 h44 (by simp))
  obtain ⟨y, r0, rfl⟩ := skipWs_cons_ne_nil h44
  have hD2 := hpost.eq y r0 rfl
  have hdata : pre ++ bs = (pre ++ vt) ++ y :: r0 := by rw [hbs]; simp
  obtain ⟨ws, hr, hws, hskip⟩ := skipSpaceIf_ev' (pre ++ bs) (pre ++ vt) y r0 44 r' 2 stk se lk hdata h44
  rw [← hD2, step_ev_arr_comma] at hskip
  obtain ⟨x2, b2, hx2⟩ := hne
  obtain ⟨ws', hr', hws'⟩ := skipWs_prefix r'
  have hx2ws : isWs x2 = false := skipWs_head_nonws r' x2 b2 hx2
  have hdata2 : pre ++ bs = (pre ++ vt ++ ws ++ [44]) ++ (ws' ++ x2 :: b2) := by
    rw [hbs, hr, hr', hx2]; simp
  have hsw := scanWhile_ws' (pre ++ bs) (pre ++ vt ++ ws ++ [44]) ws' x2 b2 (bv (2 :: stk)) scanArrayValue se lk
    hdata2 hws' (fun c hc => step_bv_ws (2 :: stk) c hc) hx2ws
  have hlen : (pre ++ vt ++ ws ++ [44]).length = (pre ++ vt ++ ws).length + 1 := by
    simp only [List.length_append, List.length_cons, List.length_nil]
  rw [hlen] at hsw
  have hdata3 : pre ++ bs = (pre ++ vt ++ ws ++ [44] ++ ws') ++ skipWs r' := by rw [hdata2, hx2]; simp
  rw [hdata3] at hsw
  obtain ⟨et', vs', het', hloop, hsem⟩ := ihE stk hstk (pre ++ vt ++ ws ++ [44] ++ ws') x2 b2 hx2 se lk G (by omega)
    _ (acc ++ [v]) hsw
  refine ⟨vt ++ ws ++ [44] ++ ws' ++ et', v :: vs', by rw [hbs, hr, hr', het']; simp, ?_,
    by simp only [mapRawL, semL, hsem]; rw [← hview]; rfl⟩
  rw [arrayInterface_more G d0 _ D2 _ v acc hd0 (startOp_ne_endArray hstart) hval hskip rfl]
  rw [← hdata3] at hloop
  rw [hloop]
  simp only [List.append_assoc, List.singleton_append]

theorem valueInterface_arr (G : Nat) (d d1 : DState) (vs : List DVal) (hop : d.opcode = scanBeginArray)
    (h : arrayInterface G d [] = .ok (d1, vs)) : valueInterface (G + 1) d = .ok (scanNext d1, .list vs) := by
  simp only [valueInterface, hop, if_true, h]

theorem valueInterface_obj (G : Nat) (d d1 : DState) (m : DMembers) (hop : d.opcode = scanBeginObject)
    (h : objectInterface G d [] = .ok (d1, m)) : valueInterface (G + 1) d = .ok (scanNext d1, .map m) := by
  have e1 : (scanBeginObject = scanBeginArray) = False := by decide
  simp only [valueInterface, hop, e1, if_false, if_true, h]

theorem iface_arr0 (f d : Nat) (cs r : Bytes) (hd : d + 1 ≤ maxDepth) (hs : skipWs cs = 93 :: r) :
    IfaceV (f + 1) d (91 :: cs) (.arr []) r := by
  intro stk hstk pre x bs' hx se lk G hG _
  obtain ⟨G, rfl⟩ : ∃ G', G = G' + 2 := ⟨G - 2, by omega⟩
  simp only [List.cons.injEq] at hx
  obtain ⟨rfl, rfl⟩ := hx
  obtain ⟨ws, hcs, hws, _⟩ := skipWs_split cs 93 r hs
  have h0 := step_lbrack_ok stk (by omega)
  rw [h0]
  have hdata : pre ++ 91 :: cs = (pre ++ [91]) ++ (ws ++ 93 :: r) := by rw [hcs]; simp
  have hsw := scanWhile_ws' (pre ++ 91 :: cs) (pre ++ [91]) ws 93 r (mk .stateBeginValueOrEmpty (2 :: stk))
    scanBeginArray se lk hdata hws (fun c hc => step_bvoe_ws (2 :: stk) c hc) (by decide)
  rw [step_bvoe_rbrack] at hsw
  have hlen : (pre ++ [91]).length = pre.length + 1 := by simp
  rw [hlen] at hsw
  have hloop := arrayInterface_done G _ _ [] hsw rfl
  have hvt : (91 : UInt8) :: cs = (91 :: ws ++ [93]) ++ r := by rw [hcs]; simp
  refine ⟨91 :: ws ++ [93], _, .list [], hvt, .inr (.inr rfl), valueInterface_arr (G + 1) _ _ [] rfl hloop, rfl, ?_⟩
  have hoff : (pre ++ [91] ++ ws).length + 1 = (pre ++ (91 :: ws ++ [93])).length := by
    simp only [List.length_append, List.length_cons, List.length_nil]; omega
  rw [hoff, hvt]
  exact postV_scanNext pre (91 :: ws ++ [93]) r stk scanEndArray se lk

theorem iface_arr (f d : Nat) (cs : Bytes) (xs : List Cst) (rest : Bytes) (hd : d + 1 ≤ maxDepth)
    (hs : ∀ r, skipWs cs ≠ 93 :: r) (hne : ∃ x2 b2, skipWs cs = x2 :: b2)
    (ih : IfaceE f (d + 1) (skipWs cs) xs rest) : IfaceV (f + 1) d (91 :: cs) (.arr xs) rest := by
  intro stk hstk pre x bs' hx se lk G hG _
  obtain ⟨G, rfl⟩ : ∃ G', G = G' + 1 := ⟨G - 1, by omega⟩
  simp only [List.cons.injEq] at hx
  obtain ⟨rfl, rfl⟩ := hx
  obtain ⟨x2, b2, hx2⟩ := hne
  obtain ⟨ws, hcs, hws⟩ := skipWs_prefix cs
  have hx2ws : isWs x2 = false := skipWs_head_nonws cs x2 b2 hx2
  have hx293 : x2 ≠ 93 := fun h => hs b2 (by rw [hx2, h])
  have h0 := step_lbrack_ok stk (by omega)
  rw [h0]
  have hdata : pre ++ 91 :: cs = (pre ++ [91]) ++ (ws ++ x2 :: b2) := by rw [hcs, hx2]; simp
  have hsw := scanWhile_ws' (pre ++ 91 :: cs) (pre ++ [91]) ws x2 b2 (mk .stateBeginValueOrEmpty (2 :: stk))
    scanBeginArray se lk hdata hws (fun c hc => step_bvoe_ws (2 :: stk) c hc) hx2ws
  rw [step_bvoe_other (2 :: stk) x2 hx2ws hx293] at hsw
  have hlen : (pre ++ [91]).length = pre.length + 1 := by simp
  rw [hlen] at hsw
  have hdata2 : pre ++ 91 :: cs = (pre ++ [91] ++ ws) ++ skipWs cs := by rw [hdata, hx2]; simp
  rw [hdata2] at hsw
  obtain ⟨et, vs, het, hloop, hsem⟩ := ih stk (by omega) (pre ++ [91] ++ ws) x2 b2 hx2 se lk G (by omega) _ [] hsw
  rw [← hdata2] at hloop
  have hvt : (91 : UInt8) :: cs = (91 :: ws ++ et) ++ rest := by rw [hcs, het]; simp
  refine ⟨91 :: ws ++ et, _, .list vs, hvt, .inr (.inr rfl),
    valueInterface_arr G _ _ vs rfl (by rw [hloop]; rfl), by simp only [view, mapRaw, sem, hsem], ?_⟩
  have hoff : (pre ++ [91] ++ ws ++ et).length = (pre ++ (91 :: ws ++ et)).length := by
    simp only [List.length_append, List.length_cons, List.length_nil]; omega
  rw [hoff, hvt]
  exact postV_scanNext pre (91 :: ws ++ et) rest stk scanEndArray se lk

theorem objectInterface_done (G : Nat) (d0 D1 : DState) (m : DMembers) (h1 : scanWhile scanSkipSpace d0 = D1)
    (hop : D1.opcode = scanEndObject) : objectInterface (G + 1) d0 m = .ok (D1, m) := by
  simp only [objectInterface, h1, hop, if_true]

theorem objectInterface_last (G : Nat) (d0 D1 D2 D3 D4 D5 D6 : DState) (item key : Bytes) (v : DVal) (m : DMembers)
    (h1 : scanWhile scanSkipSpace d0 = D1) (hop1 : D1.opcode = scanBeginLiteral)
    (hres : rescanLiteral D1 = .ok D2) (hslice : slice? D2.data D1.readIndex D2.readIndex = some item)
    (hkey : unquoteBytes item = some key) (h3 : skipSpaceIf D2 = D3) (hop3 : D3.opcode = scanObjectKey)
    (h4 : scanWhile scanSkipSpace D3 = D4) (h5 : valueInterface G D4 = .ok (D5, v)) (h6 : skipSpaceIf D5 = D6)
    (hop6 : D6.opcode = scanEndObject) : objectInterface (G + 1) d0 m = .ok (D6, setD key v m) := by
  have e1 : (scanBeginLiteral = scanEndObject) = False := by decide
  simp only [objectInterface, h1, hop1, e1, if_false, ne_eq, not_true_eq_false, hres, hslice, hkey, h3, hop3, h4,
    h5, h6, hop6, if_true]

theorem objectInterface_more (G : Nat) (d0 D1 D2 D3 D4 D5 D6 : DState) (item key : Bytes) (v : DVal) (m : DMembers)
    (h1 : scanWhile scanSkipSpace d0 = D1) (hop1 : D1.opcode = scanBeginLiteral)
    (hres : rescanLiteral D1 = .ok D2) (hslice : slice? D2.data D1.readIndex D2.readIndex = some item)
    (hkey : unquoteBytes item = some key) (h3 : skipSpaceIf D2 = D3) (hop3 : D3.opcode = scanObjectKey)
    (h4 : scanWhile scanSkipSpace D3 = D4) (h5 : valueInterface G D4 = .ok (D5, v)) (h6 : skipSpaceIf D5 = D6)
    (hop6 : D6.opcode = scanObjectValue) : objectInterface (G + 1) d0 m = objectInterface G D6 (setD key v m) := by
  have e1 : (scanBeginLiteral = scanEndObject) = False := by decide
  have e2 : (scanObjectValue = scanEndObject) = False := by decide
  simp only [objectInterface, h1, hop1, e1, if_false, ne_eq, not_true_eq_false, hres, hslice, hkey, h3, hop3, h4,
    h5, h6, hop6, e2]

theorem mapRawM_setD {ρ σ : Type} (f : ρ → σ) (k : Bytes) (v : DValG ρ) (m : DMembersG ρ) :
    mapRawM f (setD k v m) = setD k (mapRaw f v) (mapRawM f m) := by
  induction m with
  | nil => rfl
  | cons a m ih =>
    obtain ⟨k', v'⟩ := a
    simp only [setD, mapRawM]
    split
    · rfl
    · simp only [mapRawM, ih]

/-- the common part of the two member cases: from the key to the state after the member's value -/
theorem iface_member (f d : Nat) (cs k r r1 : Bytes) (c : Cst) (r2 : Bytes) (y' : UInt8) (r3 : Bytes)
    (hk : parseStrBody cs = some (k, r)) (h58 : skipWs r = 58 :: r1) (hne : ∃ xv bv', skipWs r1 = xv :: bv')
    (ih : IfaceV f d (skipWs r1) c r2) (hy' : skipWs r2 = y' :: r3) (hy'd : y' = 44 ∨ y' = 93 ∨ y' = 125)
    (stk : List Nat) (hstk : stk.length + 1 = d) (pre : Bytes) (se : Option DErr) (lk : List Bytes) (G : Nat)
    (hG : 2 * f ≤ G) (d0 : DState)
    (hd0 : scanWhile scanSkipSpace d0 =
      atD (pre ++ 34 :: cs) (pre.length + 1) (step (mk .stateBeginString (0 :: stk)) 34) se lk) :
    ∃ mt D1 D2 D3 D4 D5 vv, 34 :: cs = mt ++ y' :: r3 ∧
      scanWhile scanSkipSpace d0 = D1 ∧ D1.opcode = scanBeginLiteral ∧ rescanLiteral D1 = .ok D2 ∧
      slice? D2.data D1.readIndex D2.readIndex = some (strText k) ∧ skipSpaceIf D2 = D3 ∧
      D3.opcode = scanObjectKey ∧ scanWhile scanSkipSpace D3 = D4 ∧ valueInterface G D4 = .ok (D5, vv) ∧
      view vv = sem c .any ∧
      skipSpaceIf D5 = atD (pre ++ 34 :: cs) ((pre ++ mt).length + 1) (step (ev (1 :: stk)) y') se lk := by
  obtain ⟨hcs, hvb⟩ := parseStrBody_split cs k r hk
  obtain ⟨yk, rk0, rfl⟩ := skipWs_cons_ne_nil h58
  rw [step_bs_quote] at hd0
  have hdata1 : pre ++ 34 :: cs = pre ++ (strText k ++ yk :: rk0) := by rw [hcs]; simp [strText]
  have hres := rescan_string pre k (yk :: rk0) hvb (mk .stateInString (0 :: stk)) scanBeginLiteral se lk
  rw [← hdata1, afterLit_cons] at hres
  have hdata2 : pre ++ 34 :: cs = (pre ++ strText k) ++ yk :: rk0 := by rw [hdata1]; simp
  obtain ⟨ws1, hr, hws1, hskip1⟩ := skipSpaceIf_ev' (pre ++ 34 :: cs) (pre ++ strText k) yk rk0 58 r1 0 stk se lk hdata2 h58
  rw [step_ev_key_colon] at hskip1
  obtain ⟨xv, bv', hxv⟩ := hne
  obtain ⟨ws2, hr1, hws2⟩ := skipWs_prefix r1
  have hxvws : isWs xv = false := skipWs_head_nonws r1 xv bv' hxv
  have hdata3 : pre ++ 34 :: cs = (pre ++ strText k ++ ws1 ++ [58]) ++ (ws2 ++ xv :: bv') := by
    rw [hdata2, hr, hr1, hxv]; simp
  have hsw := scanWhile_ws' (pre ++ 34 :: cs) (pre ++ strText k ++ ws1 ++ [58]) ws2 xv bv' (bv (1 :: stk))
    scanObjectKey se lk hdata3 hws2 (fun c hc => step_bv_ws (1 :: stk) c hc) hxvws
  have hlen : (pre ++ strText k ++ ws1 ++ [58]).length = (pre ++ strText k ++ ws1).length + 1 := by
    simp only [List.length_append, List.length_cons, List.length_nil]
  rw [hlen] at hsw
  have hdata4 : pre ++ 34 :: cs = (pre ++ strText k ++ ws1 ++ [58] ++ ws2) ++ skipWs r1 := by rw [hdata3, hxv]; simp
  obtain ⟨vt, D5, vv, hvt, _, hval, hview, hpost⟩ := ih (1 :: stk) (by simpa using hstk)
    (pre ++ strText k ++ ws1 ++ [58] ++ ws2) xv bv' hxv se lk G hG (delimW_of_skipWs r2 r3 y' hy' hy'd)
  rw [← hdata4] at hval hpost
  obtain ⟨y2, r20, rfl⟩ := skipWs_cons_ne_nil hy'
  have hD5 := hpost.eq y2 r20 rfl
  have hdata5 : pre ++ 34 :: cs = (pre ++ strText k ++ ws1 ++ [58] ++ ws2 ++ vt) ++ y2 :: r20 := by
    rw [hdata4, hvt]; simp
  obtain ⟨ws3, hr2, hws3, hskip3⟩ := skipSpaceIf_ev' (pre ++ 34 :: cs) (pre ++ strText k ++ ws1 ++ [58] ++ ws2 ++ vt)
    y2 r20 y' r3 1 stk se lk hdata5 hy'
  rw [← hD5] at hskip3
  refine ⟨strText k ++ ws1 ++ [58] ++ ws2 ++ vt ++ ws3, _, _, _, _, D5, vv, ?_, hd0, rfl, hres, ?_, hskip1, rfl, hsw,
    hval, hview, ?_⟩
  · have := hdata5
    rw [hr2] at this
    have h2 : pre ++ 34 :: cs = pre ++ ((strText k ++ ws1 ++ [58] ++ ws2 ++ vt ++ ws3) ++ y' :: r3) := by
      rw [this]; simp
    exact List.append_cancel_left h2
  · simp only [DState.readIndex, atD_off, atD_data, Nat.add_sub_cancel]
    rw [hdata1]
    exact slice_mid pre (strText k) (yk :: rk0)
  · rw [hskip3]
    simp only [List.append_assoc]

theorem iface_mlast (f d : Nat) (cs k r r1 : Bytes) (c : Cst) (r2 r3 : Bytes)
    (hk : parseStrBody cs = some (k, r)) (h58 : skipWs r = 58 :: r1) (hne : ∃ xv bv', skipWs r1 = xv :: bv')
    (ih : IfaceV f d (skipWs r1) c r2) (h125 : skipWs r2 = 125 :: r3) :
    IfaceM (f + 1) d (34 :: cs) [(k, c)] r3 := by
  intro stk hstk pre bs' hx se lk G hG d0 m hd0
  obtain ⟨G, rfl⟩ : ∃ G', G = G' + 1 := ⟨G - 1, by omega⟩
  obtain ⟨hcs, hvb⟩ := parseStrBody_split cs k r hk
  obtain ⟨mt, D1, D2, D3, D4, D5, vv, hmt, h1, hop1, hres, hslice, h3, hop3, h4, h5, hview, h6⟩ :=
    iface_member f d cs k r r1 c r2 125 r3 hk h58 hne ih h125 (by simp) stk hstk pre se lk G (by omega) d0 hd0
  rw [step_ev_val_rbrace] at h6
  refine ⟨mt ++ [125], setD (unquote k) vv m, by rw [hmt]; simp, ?_, ?_⟩
  · rw [objectInterface_last G d0 D1 D2 D3 D4 D5 _ (strText k) (unquote k) vv m h1 hop1 hres hslice
      (unquoteBytes_strText k hvb) h3 hop3 h4 h5 h6 rfl]
    simp only [List.length_append, List.length_cons, List.length_nil, Nat.add_assoc]
  · rw [mapRawM_setD]
    simp only [semM]
    rw [← hview]; rfl

theorem iface_mmore (f d : Nat) (cs k r r1 : Bytes) (c : Cst) (r2 r3 : Bytes) (ms : List (Bytes × Cst)) (rest : Bytes)
    (hk : parseStrBody cs = some (k, r)) (h58 : skipWs r = 58 :: r1) (hne : ∃ xv bv', skipWs r1 = xv :: bv')
    (ih : IfaceV f d (skipWs r1) c r2) (h44 : skipWs r2 = 44 :: r3) (hne3 : ∃ b3, skipWs r3 = 34 :: b3)
    (ihM : IfaceM f d (skipWs r3) ms rest) : IfaceM (f + 1) d (34 :: cs) ((k, c) :: ms) rest := by
  intro stk hstk pre bs' hx se lk G hG d0 m hd0
  obtain ⟨G, rfl⟩ : ∃ G', G = G' + 1 := ⟨G - 1, by omega⟩
  obtain ⟨hcs, hvb⟩ := parseStrBody_split cs k r hk
  obtain ⟨mt, D1, D2, D3, D4, D5, vv, hmt, h1, hop1, hres, hslice, h3, hop3, h4, h5, hview, h6⟩ :=
    iface_member f d cs k r r1 c r2 44 r3 hk h58 hne ih h44 (by simp) stk hstk pre se lk G (by omega) d0 hd0
  rw [step_ev_val_comma] at h6
  obtain ⟨b3, hb3⟩ := hne3
  obtain ⟨ws4, hr3, hws4⟩ := skipWs_prefix r3
  have hdata : pre ++ 34 :: cs = (pre ++ mt ++ [44]) ++ (ws4 ++ 34 :: b3) := by rw [hmt, hr3, hb3]; simp
  have hsw := scanWhile_ws' (pre ++ 34 :: cs) (pre ++ mt ++ [44]) ws4 34 b3 (mk .stateBeginString (0 :: stk))
    scanObjectValue se lk hdata hws4 (fun c hc => step_bs_ws (0 :: stk) c hc) (by decide)
  have hlen : (pre ++ mt ++ [44]).length = (pre ++ mt).length + 1 := by
    simp only [List.length_append, List.length_cons, List.length_nil]
  rw [hlen] at hsw
  have hdata2 : pre ++ 34 :: cs = (pre ++ mt ++ [44] ++ ws4) ++ skipWs r3 := by rw [hdata, hb3]; simp
  rw [hdata2] at hsw
  obtain ⟨mt', m', hmt', hloop, hsem⟩ := ihM stk hstk (pre ++ mt ++ [44] ++ ws4) b3 hb3 se lk G (by omega) _
    (setD (unquote k) vv m) hsw
  rw [← hdata2] at hloop
  refine ⟨mt ++ [44] ++ ws4 ++ mt', m', by rw [hmt, hr3, hmt']; simp, ?_, ?_⟩
  · rw [objectInterface_more G d0 D1 D2 D3 D4 D5 _ (strText k) (unquote k) vv m h1 hop1 hres hslice
      (unquoteBytes_strText k hvb) h3 hop3 h4 h5 h6 rfl, hloop]
    simp only [List.append_assoc]
  · rw [hsem, mapRawM_setD]
    simp only [semM]
    rw [← hview]; rfl

theorem iface_obj0 (f d : Nat) (cs r : Bytes) (hd : d + 1 ≤ maxDepth) (hs : skipWs cs = 125 :: r) :
    IfaceV (f + 1) d (123 :: cs) (.obj []) r := by
  intro stk hstk pre x bs' hx se lk G hG _
  obtain ⟨G, rfl⟩ : ∃ G', G = G' + 2 := ⟨G - 2, by omega⟩
  simp only [List.cons.injEq] at hx
  obtain ⟨rfl, rfl⟩ := hx
  obtain ⟨ws, hcs, hws, _⟩ := skipWs_split cs 125 r hs
  have h0 := step_lbrace_ok stk (by omega)
  rw [h0]
  have hdata : pre ++ 123 :: cs = (pre ++ [123]) ++ (ws ++ 125 :: r) := by rw [hcs]; simp
  have hsw := scanWhile_ws' (pre ++ 123 :: cs) (pre ++ [123]) ws 125 r (mk .stateBeginStringOrEmpty (0 :: stk))
    scanBeginObject se lk hdata hws (fun c hc => step_bsoe_ws (0 :: stk) c hc) (by decide)
  rw [step_bsoe_rbrace] at hsw
  have hlen : (pre ++ [123]).length = pre.length + 1 := by simp
  rw [hlen] at hsw
  have hloop := objectInterface_done G _ _ [] hsw rfl
  have hvt : (123 : UInt8) :: cs = (123 :: ws ++ [125]) ++ r := by rw [hcs]; simp
  refine ⟨123 :: ws ++ [125], _, .map [], hvt, .inr (.inl rfl), valueInterface_obj (G + 1) _ _ [] rfl hloop, rfl, ?_⟩
  have hoff : (pre ++ [123] ++ ws).length + 1 = (pre ++ (123 :: ws ++ [125])).length := by
    simp only [List.length_append, List.length_cons, List.length_nil]; omega
  rw [hoff, hvt]
  exact postV_scanNext pre (123 :: ws ++ [125]) r stk scanEndObject se lk

theorem iface_obj (f d : Nat) (cs : Bytes) (ms : List (Bytes × Cst)) (rest : Bytes) (hd : d + 1 ≤ maxDepth)
    (hs : ∀ r, skipWs cs ≠ 125 :: r) (hne : ∃ b2, skipWs cs = 34 :: b2)
    (ih : IfaceM f (d + 1) (skipWs cs) ms rest) : IfaceV (f + 1) d (123 :: cs) (.obj ms) rest := by
  intro stk hstk pre x bs' hx se lk G hG _
  obtain ⟨G, rfl⟩ : ∃ G', G = G' + 1 := ⟨G - 1, by omega⟩
  simp only [List.cons.injEq] at hx
  obtain ⟨rfl, rfl⟩ := hx
  obtain ⟨b2, hx2⟩ := hne
  obtain ⟨ws, hcs, hws⟩ := skipWs_prefix cs
  have h0 := step_lbrace_ok stk (by omega)
  rw [h0]
  have hdata : pre ++ 123 :: cs = (pre ++ [123]) ++ (ws ++ 34 :: b2) := by rw [hcs, hx2]; simp
  have hsw := scanWhile_ws' (pre ++ 123 :: cs) (pre ++ [123]) ws 34 b2 (mk .stateBeginStringOrEmpty (0 :: stk))
    scanBeginObject se lk hdata hws (fun c hc => step_bsoe_ws (0 :: stk) c hc) (by decide)
  rw [step_bsoe_other (0 :: stk) 34 (by decide) (by decide)] at hsw
  have hlen : (pre ++ [123]).length = pre.length + 1 := by simp
  rw [hlen] at hsw
  have hdata2 : pre ++ 123 :: cs = (pre ++ [123] ++ ws) ++ skipWs cs := by rw [hdata, hx2]; simp
  rw [hdata2] at hsw
  obtain ⟨mt, m', hmt, hloop, hsem⟩ := ih stk (by omega) (pre ++ [123] ++ ws) b2 hx2 se lk G (by omega) _ [] hsw
  rw [← hdata2] at hloop
  have hvt : (123 : UInt8) :: cs = (123 :: ws ++ mt) ++ rest := by rw [hcs, hmt]; simp
  refine ⟨123 :: ws ++ mt, _, .map m', hvt, .inr (.inl rfl),
    valueInterface_obj G _ _ m' rfl hloop, by simp only [view, mapRaw, sem, hsem]; rfl, ?_⟩
  have hoff : (pre ++ [123] ++ ws ++ mt).length = (pre ++ (123 :: ws ++ mt)).length := by
    simp only [List.length_append, List.length_cons, List.length_nil]; omega
  rw [hoff, hvt]
  exact postV_scanNext pre (123 :: ws ++ mt) rest stk scanEndObject se lk

theorem parseValue_cons_of_some {f d : Nat} {bs : Bytes} {c : Cst} {rest : Bytes}
    (h : parseValue f d bs = some (c, rest)) : ∃ x b, bs = x :: b := by
  cases bs with
  | nil => cases f <;> simp [parseValue] at h
  | cons x b => exact ⟨x, b, rfl⟩

theorem parseElems_cons_of_some {f d : Nat} {bs : Bytes} {xs : List Cst} {rest : Bytes}
    (h : parseElems f d bs = some (xs, rest)) : ∃ x b, bs = x :: b := by
  cases f with
  | zero => simp [parseElems] at h
  | succ f =>
    obtain ⟨x, r, hv, _⟩ := parseElems_inv f d bs xs rest h
    exact parseValue_cons_of_some hv

theorem parseMembers_cons_of_some {f d : Nat} {bs : Bytes} {ms : List (Bytes × Cst)} {rest : Bytes}
    (h : parseMembers f d bs = some (ms, rest)) : ∃ b, bs = 34 :: b := by
  cases f with
  | zero => simp [parseMembers] at h
  | succ f =>
    obtain ⟨cs, _, _, _, _, _, hbs, _⟩ := parseMembers_inv f d bs ms rest h
    exact ⟨cs, hbs⟩

theorem iface_all (f : Nat) :
    (∀ d bs c rest, parseValue f d bs = some (c, rest) → IfaceV f d bs c rest) ∧
    (∀ d bs xs rest, parseElems f d bs = some (xs, rest) → xs ≠ [] ∧ IfaceE f d bs xs rest) ∧
    (∀ d bs ms rest, parseMembers f d bs = some (ms, rest) → ms ≠ [] ∧ IfaceM f d bs ms rest) :=
  parse_ind (PV := IfaceV) (PE := IfaceE) (PM := IfaceM)
    (fun f d cs r hd hs => iface_obj0 f d cs r hd hs)
    (fun f d cs ms rest hd hs _ hp ih => iface_obj f d cs ms rest hd hs (parseMembers_cons_of_some hp) ih)
    (fun f d cs r hd hs => iface_arr0 f d cs r hd hs)
    (fun f d cs xs rest hd hs _ hp ih => iface_arr f d cs xs rest hd hs (parseElems_cons_of_some hp) ih)
    (fun f d cs b rest h => iface_str f d cs b rest h)
    (fun f d w rest hw => iface_word f d w rest hw)
    (fun f d c cs l rest hc hp => iface_num f d c cs l rest hc hp)
    (fun f d bs x r r' _ ih h93 => iface_elast f d bs x r r' ih h93)
    (fun f d bs x r r' xs rest _ ih h44 _ hp ihE =>
      iface_emore f d bs x r r' xs rest ih h44 (parseElems_cons_of_some hp) ihE)
    (fun f d cs k r r1 v r2 r3 hk h58 hv ih h125 =>
      iface_mlast f d cs k r r1 v r2 r3 hk h58 (parseValue_cons_of_some hv) ih h125)
    (fun f d cs k r r1 v r2 r3 ms rest hk h58 hv ih h44 _ hp ihM =>
      iface_mmore f d cs k r r1 v r2 r3 ms rest hk h58 (parseValue_cons_of_some hv) ih h44
        (parseMembers_cons_of_some hp) ihM)
    f

end Codec
end JP
