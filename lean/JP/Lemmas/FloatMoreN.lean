import JP.Lemmas.FloatNatFmt3
import JP.Lemmas.FloatNearest
import JP.Lemmas.FloatClamp

/-!
# Printing an integer float (binary64, below `2^53`): `floatEncode 64 (FP.ofNat 64 n) false = some (decimal n)`

`floatEncode_nat` of `FloatNatFmt3` has `n < 10^15`; here every integer below `2^53` (all of them floats).
The new point: a shorter candidate `(n / 10^w + 1) · 10^w` may be `≥ 2^53`, where `roundsTo_ofNat` does not
apply; `roundRat_nearest` (the result is nearest among ALL floats, in particular nearer than the float `2^53`)
excludes it.  Above `2^53` the statement is false (`2^69` prints as `590295810358705700000`).
-/

namespace JP
namespace Codec
namespace Float

open JP.Codec.Typed (decimal)

theorem two53_lt_e16 : 2 ^ (mantBits 64 + 1) < 10 ^ 16 := by decide
theorem mb64p1 : 2 ^ (mantBits 64 + 1) = 2 ^ 53 := by decide

/-- the float `n < 2^53` in units of `2^-1074` -/
theorem ulps_ofNat (n : Nat) (h0 : n ≠ 0) (hn : n < 2 ^ 53) :
    ulps 64 ⟨false, (FP.ofNat 64 n).exp, (FP.ofNat 64 n).mant⟩ = n * 2 ^ 1074 := by
  have hn53 : n < 2 ^ (mantBits 64 + 1) := by rw [mb64p1]; exact hn
  obtain ⟨hlm, hQ1, hQ2⟩ := ofNat_bounds 64 n h0 hn53
  rw [ofNat_exp 64 n h0, ofNat_mant 64 n h0]
  rw [mb64] at hlm hQ1 hQ2
  unfold ulps FP.sig
  simp only [bias64, mb64]
  rw [if_neg (by omega), if_neg (by omega)]
  have e1 : 2 ^ 52 + (n * 2 ^ (52 - Nat.log2 n) - 2 ^ 52) = n * 2 ^ (52 - Nat.log2 n) := by
    generalize n * 2 ^ (52 - Nat.log2 n) = X at *
    omega
  rw [e1, Nat.mul_assoc, ← Nat.pow_add]
  have e2 : 52 - Nat.log2 n + (1023 + Nat.log2 n - 1) = 1074 := by omega
  rw [e2]

theorem ulps_two53 : ulps 64 ⟨false, 1076, 0⟩ = 2 ^ 53 * 2 ^ 1074 := by decide +kernel

/-- a decimal `c · 10^e ≥ 2^53` is not read as an integer float below `2^53` -/
theorem roundsTo_ofNat_big (n c e : Nat) (h0 : n ≠ 0) (hn : n < 2 ^ 53) (hbig : 2 ^ 53 ≤ c * 10 ^ e) :
    roundsTo 64 (FP.ofNat 64 n) c (e : Int) = false := by
  have hc : c ≠ 0 := by
    intro h; subst h; simp at hbig
  unfold roundsTo
  simp only
  rw [roundDec_eq_roundRat 64 c (e : Int) hc]
  have hge : ((e : Nat) : Int) ≥ 0 := by omega
  simp only [hge, if_true, Int.toNat_natCast]
  generalize c * 10 ^ e = m at hbig
  cases hr : (decide ((roundRat 64 m 1).1 = (FP.ofNat 64 n).exp) &&
      decide ((roundRat 64 m 1).2.1 = (FP.ofNat 64 n).mant) && !(roundRat 64 m 1).2.2) with
  | false => rfl
  | true =>
    exfalso
    simp only [Bool.and_eq_true, decide_eq_true_eq, Bool.not_eq_true'] at hr
    obtain ⟨⟨h1, h2⟩, h3⟩ := hr
    have hnear := roundRat_nearest 64 m 1 (by omega) (by omega) h3 ⟨false, 1076, 0⟩ (by decide)
    rw [h1, h2, ulps_ofNat n h0 hn, ulps_two53] at hnear
    simp only [bias64, mb64, Nat.mul_one] at hnear
    have hP : 0 < 2 ^ 1074 := two_pow_pos 1074
    have e74 : 1023 + 52 - 1 = 1074 := by omega
    rw [e74] at hnear
    generalize 2 ^ 1074 = P at hnear hP
    have hb : n * P < 2 ^ 53 * P := Nat.mul_lt_mul_of_pos_right hn hP
    have ht : 2 ^ 53 * P ≤ m * P := Nat.mul_le_mul_right _ hbig
    unfold adiff at hnear
    generalize m * P = a at *
    generalize n * P = b at *
    generalize 2 ^ 53 * P = t at *
    omega

theorem shortest_nat53 (n c z : Nat) (h0 : n ≠ 0) (hn : n < 2 ^ 53) (hcz : n = c * 10 ^ z)
    (hc : c % 10 ≠ 0) :
    shortest 64 (FP.ofNat 64 n) = some (decimal c, ((decimal n).length : Int)) := by
  have hn53 : n < 2 ^ (mantBits 64 + 1) := by rw [mb64p1]; exact hn
  have hn16 : n < 10 ^ 16 := Nat.lt_trans hn53 two53_lt_e16
  obtain ⟨hlm, hQ1, hQ2⟩ := ofNat_bounds 64 n h0 hn53
  have hl52 : Nat.log2 n ≤ 52 := by rw [mb64] at hlm; exact hlm
  have hcpos : 0 < c := by omega
  have hlenEq : (decimal n).length = (decimal c).length + z := by
    rw [hcz, decimal_mul_pow c z hcpos]; simp
  have hlc := decimal_length_pos c
  have hlen16 : (decimal n).length ≤ 16 := decimal_length_le n 15 hn16
  have hD : 0 < 2 ^ (mantBits 64 - Nat.log2 n) := Nat.pos_of_ne_zero (by simp)
  -- the fields
  have hexp := ofNat_exp 64 n h0
  have hmant := ofNat_mant 64 n h0
  have hz : (FP.ofNat 64 n).isZero = false := by
    simp only [FP.isZero, hexp, bias64]
    simp
  have hsig : (FP.ofNat 64 n).sig 64 = n * 2 ^ (mantBits 64 - Nat.log2 n) := by
    simp only [FP.sig, hexp, hmant, bias64]
    rw [if_neg (by omega)]
    omega
  have hq : (FP.ofNat 64 n).qexp 64 = -((mantBits 64 - Nat.log2 n : Nat) : Int) := by
    simp only [FP.qexp, hexp, bias64, mb64] at *
    rw [if_neg (by omega)]
    omega
  -- the search
  have hsearch : search 64 (FP.ofNat 64 n) (n * 2 ^ (mantBits 64 - Nat.log2 n))
      (2 ^ (mantBits 64 - Nat.log2 n)) ((decimal n).length : Int) 17 1 = some (c, (z : Int)) := by
    generalize hlen : (decimal n).length = len at hlenEq hlen16
    apply search_first 64 _ _ _ _ _ (len - z)
    · -- the exact candidate
      unfold cand
      obtain ⟨hdiv, hmod⟩ := candAB_nat n (2 ^ (mantBits 64 - Nat.log2 n)) len (len - z) hD (by omega)
      simp only
      rw [hdiv, hmod]
      have hw : len - (len - z) = z := by omega
      have he : (len : Int) - ((len - z : Nat) : Int) = (z : Int) := by omega
      rw [hw, he]
      have hdz : n / 10 ^ z = c := by
        rw [hcz]; exact Nat.mul_div_cancel c (Nat.pos_of_ne_zero (by simp))
      have hmz : n % 10 ^ z = 0 := by
        rw [hcz]; exact Nat.mul_mod_left c (10 ^ z)
      rw [hdz, hmz, Nat.zero_mul]
      apply candPick_exact
      rw [roundsTo_ofNat 64 n c z h0 hn53 (by rw [← hcz]; exact hn53) (by omega)]
      simp [hcz]
    · -- shorter candidates fail
      intro j hj1 hj2
      unfold cand
      obtain ⟨hdiv, hmod⟩ := candAB_nat n (2 ^ (mantBits 64 - Nat.log2 n)) len j hD (by omega)
      simp only
      rw [hdiv, hmod]
      have hwz : z < len - j := by omega
      have he : (len : Int) - (j : Int) = ((len - j : Nat) : Int) := by omega
      rw [he]
      generalize hw : len - j = w at hwz
      have hw16 : w ≤ 16 := by omega
      have hp : 0 < 10 ^ w := Nat.pos_of_ne_zero (by simp)
      have hmodne : n % 10 ^ w ≠ 0 := by
        intro h
        rw [hcz] at h
        have := mod_pow10_zero c z w hc h
        omega
      obtain ⟨f1, f2, f3⟩ := div_pow_facts n (10 ^ w) hp
      apply candPick_none
      · intro h
        rcases Nat.mul_eq_zero.1 h with h | h
        · exact hmodne h
        · omega
      · rw [roundsTo_ofNat 64 n _ w h0 hn53 (by omega) (by omega)]
        simp only [decide_eq_false_iff_not]
        intro h; exact hmodne (f3 h)
      · by_cases hbig : (n / 10 ^ w + 1) * 10 ^ w < 2 ^ (mantBits 64 + 1)
        · rw [roundsTo_ofNat 64 n _ w h0 hn53 hbig (by omega)]
          simp only [decide_eq_false_iff_not]
          omega
        · rw [mb64p1] at hbig
          exact roundsTo_ofNat_big n _ w h0 hn (by omega)
    · omega
    · omega
  -- numerator and denominator of the value (`qexp = 0` when `2^52 ≤ n`)
  have hN : (if (FP.ofNat 64 n).qexp 64 ≥ 0
      then (FP.ofNat 64 n).sig 64 * 2 ^ ((FP.ofNat 64 n).qexp 64).toNat else (FP.ofNat 64 n).sig 64)
      = n * 2 ^ (mantBits 64 - Nat.log2 n) := by
    rw [hq, hsig]
    by_cases h : mantBits 64 - Nat.log2 n = 0
    · rw [h]; simp
    · rw [if_neg (by omega)]
  have hDen : (if (FP.ofNat 64 n).qexp 64 ≥ 0 then 1 else 2 ^ (-(FP.ofNat 64 n).qexp 64).toNat)
      = 2 ^ (mantBits 64 - Nat.log2 n) := by
    rw [hq]
    by_cases h : mantBits 64 - Nat.log2 n = 0
    · rw [h]; simp
    · rw [if_neg (by omega)]
      congr 1; omega
  unfold shortest
  have hmd : maxDigits 64 = 17 := by decide
  simp only [hz, Bool.false_eq_true, if_false, hN, hDen, hmd]
  rw [decPoint_nat 64 n h0 hn53, hsearch]
  simp only [stripZeros_decimal c hc, hlenEq]
  simp

/-- an integer below `2^53` prints as its decimal digits -/
theorem floatEncode_nat53 (n : Nat) (h0 : n ≠ 0) (hn : n < 2 ^ 53) :
    floatEncode 64 (FP.ofNat 64 n) false = some (decimal n) := by
  have hn53 : n < 2 ^ (mantBits 64 + 1) := by rw [mb64p1]; exact hn
  obtain ⟨hlm, _, _⟩ := ofNat_bounds 64 n h0 hn53
  have hl52 : Nat.log2 n ≤ 52 := by rw [mb64] at hlm; exact hlm
  obtain ⟨c, z, hcz, hc⟩ := strip_pow10 n (by omega)
  have hcpos : 0 < c := by omega
  have hexp := ofNat_exp 64 n h0
  rw [bias64] at hexp
  have hfin : (FP.ofNat 64 n).isFinite 64 = true := by
    simp only [FP.isFinite, hexp, expMax64, decide_eq_true_eq]; omega
  have huse : useE 64 (FP.ofNat 64 n) = false := by
    have h1 : (FP.ofNat 64 n).ltMag (cutLo 64) = false := by
      simp only [FP.ltMag, cutLo, hexp]
      simp; omega
    have h2 : (FP.ofNat 64 n).ltMag (cutHi 64) = true := by
      simp only [FP.ltMag, cutHi, hexp]
      simp; omega
    simp [useE, h1, h2]
  have hfmt : formatShortest 64 Fmt.f (FP.ofNat 64 n) = some (decimal n) := by
    unfold formatShortest
    rw [shortest_nat53 n c z h0 hn hcz hc]
    simp only [layout]
    have hsign : (FP.ofNat 64 n).sign = false := by simp [FP.ofNat, h0]
    rw [hsign]
    have hf : fmtF false (decimal c) (((decimal n).length : Nat) : Int) = decimal n := by
      have := fmtF_nat c z hcpos
      rw [← hcz] at this; exact this
    simp only [show (Fmt.f = Fmt.e) = False by simp, if_false, hf]
    rw [parseFloat_decimal 64 n hn53]
    simp
  unfold floatEncode
  simp only [hfin, Bool.not_true, Bool.false_eq_true, if_false, huse, hfmt]
  simp

/-! ## above `2^53` the statement is false -/

/-- `2^69 = 590295810358705651712` is a float, printed with 16 digits -/
example : floatEncode 64 ⟨false, 1092, 0⟩ false = some (ascii "590295810358705700000") := by decide +kernel
example : floatEncode 64 ⟨false, 1092, 0⟩ false ≠ some (decimal (2 ^ 69)) := by decide +kernel
example : decimal (2 ^ 69) = ascii "590295810358705651712" := by decide +kernel

end Float
end Codec
end JP
