import JP.Lemmas.EscScan
import JP.Lemmas.TextUtf8
import JP.Lemmas.EnginePointer

/-!
# EscapeHTML off: what the encoder and the pointer decoder do to U+2028 / U+2029

* `quoteBody_false_escapes` (T3): with escaping off the only HTML-class escapes the encoder writes
  are ` ` / ` `, each for a raw occurrence in the string, and it leaves no raw one;
* `rawLineSeps_token` (T5): a raw U+2028/U+2029 in a decoded reference token is one in the pointer.
-/

namespace JP
namespace Impl

/-! ### one ASCII byte -/

set_option maxRecDepth 100000 in
theorem quoteAscii_false_cls : ∀ b : UInt8, b.toNat < 128 → cls b.toNat → quoteAscii false b = [b] := by
  apply byte_forall; decide

theorem quoteAscii_ne_E2 (e : Bool) (b : UInt8) (hb : b.toNat < 128) : ∀ c ∈ quoteAscii e b, c ≠ 0xE2 := by
  intro c hc
  have := quoteAscii_ascii e b hb c hc
  rintro rfl
  revert this; decide

theorem hE_quoteAscii_false (b : UInt8) (hb : b.toNat < 128) (X : Bytes) :
    hE (quoteAscii false b ++ X) = hE X := by
  rcases quoteAscii_cases_false b hb with ⟨h1, _, _, h4⟩ | ⟨h1, h2, _⟩ | ⟨h1, h2, _, _⟩
  · rw [h1]; exact hE_plain _ _ h4
  · rw [h1]; exact hE_bs_other _ _ (simpleEsc_plain _ h2).2
  · have hc : ¬ cls b.toNat := by
      intro hc
      have := quoteAscii_false_cls b hb hc
      rw [h1] at this
      cases this
    rw [h1]
    show hE (92 :: 117 :: 48 :: 48 :: _ :: _ :: X) = _
    rw [hE_u4 _ _ _ _ _ _ h2, if_neg hc]

/-! ### one multi-byte rune -/

theorem ascii_ufffd : ascii "\\ufffd" = [92, 117, 102, 102, 102, 100] := by decide
theorem ascii_u202 : ascii "\\u202" = [92, 117, 50, 48, 50] := by decide

theorem hE_ufffd (X : Bytes) : hE (ascii "\\ufffd" ++ X) = hE X := by
  rw [ascii_ufffd]
  show hE (92 :: 117 :: 102 :: 102 :: 102 :: 100 :: X) = _
  rw [hE_u4 _ _ _ _ _ 0xfffd (by decide), if_neg (by decide)]

theorem rawLineSeps_ufffd (X : Bytes) : rawLineSeps (ascii "\\ufffd" ++ X) = rawLineSeps X := by
  rw [ascii_ufffd]
  exact rawLineSeps_ascii _ X (by decide)

/-- the bytes of U+2028 / U+2029 -/
theorem decodeRune_ls_bytes (b : UInt8) (rest : Bytes) (h : (decodeRune (b :: rest)).1 = 0x2028) :
    ∃ t, b :: rest = 0xE2 :: 0x80 :: 0xA8 :: t ∧ (decodeRune (b :: rest)).2 = 3 := by
  rcases decodeRune_cases b rest with ⟨h1, hd⟩ | ⟨h1, hd⟩ | ⟨b1, t, rfl, h1, h2, c1, c2, hd⟩ |
      ⟨b1, b2, t, rfl, h1, h2, c1, c2, c3, c4, d1, d2, hd⟩ |
      ⟨b1, b2, b3, t, rfl, h1, h2, c1, c2, c3, c4, d1, d2, f1, f2, hd⟩
  · rw [hd] at h; simp only at h; omega
  · rw [hd] at h; simp [runeError] at h
  · rw [hd] at h; simp only at h; omega
  · rw [hd] at h ⊢
    simp only at h
    have e1 : b.toNat = 0xE2 := by omega
    have e2 : b1.toNat = 0x80 := by omega
    have e3 : b2.toNat = 0xA8 := by omega
    refine ⟨t, ?_, rfl⟩
    rw [(byte_eq_iff b 0xE2).2 e1, (byte_eq_iff b1 0x80).2 e2, (byte_eq_iff b2 0xA8).2 e3]
  · rw [hd] at h; simp only at h
    have := c3
    omega

theorem decodeRune_ps_bytes (b : UInt8) (rest : Bytes) (h : (decodeRune (b :: rest)).1 = 0x2029) :
    ∃ t, b :: rest = 0xE2 :: 0x80 :: 0xA9 :: t ∧ (decodeRune (b :: rest)).2 = 3 := by
  rcases decodeRune_cases b rest with ⟨h1, hd⟩ | ⟨h1, hd⟩ | ⟨b1, t, rfl, h1, h2, c1, c2, hd⟩ |
      ⟨b1, b2, t, rfl, h1, h2, c1, c2, c3, c4, d1, d2, hd⟩ |
      ⟨b1, b2, b3, t, rfl, h1, h2, c1, c2, c3, c4, d1, d2, f1, f2, hd⟩
  · rw [hd] at h; simp only at h; omega
  · rw [hd] at h; simp [runeError] at h
  · rw [hd] at h; simp only at h; omega
  · rw [hd] at h ⊢
    simp only at h
    have e1 : b.toNat = 0xE2 := by omega
    have e2 : b1.toNat = 0x80 := by omega
    have e3 : b2.toNat = 0xA9 := by omega
    refine ⟨t, ?_, rfl⟩
    rw [(byte_eq_iff b 0xE2).2 e1, (byte_eq_iff b1 0x80).2 e2, (byte_eq_iff b2 0xA9).2 e3]
  · rw [hd] at h; simp only at h
    have := c3
    omega

theorem ne_E2_of_cont (x : UInt8) (h2 : x.toNat ≤ 0xBF) : x ≠ 0xE2 := by
  rintro rfl; revert h2; decide

/-- a raw valid multi-byte rune other than U+2028/9 shows no line-separator window -/
theorem rawLineSeps_rune (b : UInt8) (rest Y : Bytes) (hb : 0x80 ≤ b.toNat) (hok : runeOk (b :: rest))
    (h1 : (decodeRune (b :: rest)).1 ≠ 0x2028) (h2 : (decodeRune (b :: rest)).1 ≠ 0x2029) :
    rawLineSeps ((b :: rest).take (decodeRune (b :: rest)).2 ++ Y) = rawLineSeps Y := by
  rcases decodeRune_cases b rest with ⟨g1, hd⟩ | ⟨g1, hd⟩ | ⟨b1, t, rfl, g1, g2, c1, c2, hd⟩ |
      ⟨b1, b2, t, rfl, g1, g2, c1, c2, c3, c4, d1, d2, hd⟩ |
      ⟨b1, b2, b3, t, rfl, g1, g2, c1, c2, c3, c4, d1, d2, f1, f2, hd⟩
  · omega
  · exact absurd (by rw [hd]; exact ⟨rfl, rfl⟩) hok
  · rw [hd]
    show rawLineSeps (b :: b1 :: Y) = _
    rw [rawLineSeps_ne _ _ (by rintro rfl; revert g2; decide), rawLineSeps_ne _ _ (ne_E2_of_cont b1 c2)]
  · rw [hd] at h1 h2 ⊢
    show rawLineSeps (b :: b1 :: b2 :: Y) = _
    rw [rawLineSeps_cons, rawLineSeps_ne _ _ (ne_E2_of_cont b1 c2), rawLineSeps_ne _ _ (ne_E2_of_cont b2 d2)]
    have n1 : ¬ (b = 0xE2 ∧ (b1 :: b2 :: Y).take 2 = [0x80, 0xA8]) := by
      rintro ⟨rfl, e⟩
      simp only [List.take_succ_cons, List.take_zero, List.cons.injEq, and_true] at e
      obtain ⟨rfl, rfl⟩ := e
      exact h1 (by decide)
    have n2 : ¬ (b = 0xE2 ∧ (b1 :: b2 :: Y).take 2 = [0x80, 0xA9]) := by
      rintro ⟨rfl, e⟩
      simp only [List.take_succ_cons, List.take_zero, List.cons.injEq, and_true] at e
      obtain ⟨rfl, rfl⟩ := e
      exact h2 (by decide)
    rw [if_neg n1, if_neg n2]
    rfl
  · rw [hd]
    show rawLineSeps (b :: b1 :: b2 :: b3 :: Y) = _
    rw [rawLineSeps_ne _ _ (by rintro rfl; revert g1; decide), rawLineSeps_ne _ _ (ne_E2_of_cont b1 c2),
      rawLineSeps_ne _ _ (ne_E2_of_cont b2 d2), rawLineSeps_ne _ _ (ne_E2_of_cont b3 f2)]

theorem hE_high_append (T Y : Bytes) (hT : ∀ x ∈ T, 0x80 ≤ x.toNat) : hE (T ++ Y) = hE Y := by
  have := Cpl_noBS T (fun c hc => by
    have := hT c hc
    rintro rfl; revert this; decide)
  rw [this.1, this.2, List.nil_append]

/-! ### T3 -/

/-- **T3**: with escaping off, every HTML-class escape the encoder writes is ` `/` ` for a raw
occurrence in the string, and no raw one is left -/
theorem quoteBody_false_escapes : ∀ k : Bytes,
    (∀ v ∈ hE (quoteBody false k), v ∈ rawLineSeps k) ∧ rawLineSeps (quoteBody false k) = [] := by
  apply rune_induction
  · exact ⟨by intro v hv; simp [quoteBody_nil, hE_nil] at hv, by simp [quoteBody_nil, rawLineSeps]⟩
  · intro b rest ih
    by_cases hb : b.toNat < 128
    · have hd : (b :: rest).drop (decodeRune (b :: rest)).2 = rest := by
        rw [decodeRune_one b rest hb]; rfl
      rw [hd] at ih
      rw [quoteBody_ascii false b rest hb]
      refine ⟨?_, ?_⟩
      · intro v hv
        rw [hE_quoteAscii_false b hb] at hv
        exact rawLineSeps_suffix [b] rest v (ih.1 v hv)
      · rw [rawLineSeps_ascii _ _ (quoteAscii_ne_E2 false b hb), ih.2]
    · have hb' : 0x80 ≤ b.toNat := by omega
      rw [quoteBody_multi false b rest hb]
      by_cases herr : (decodeRune (b :: rest)).1 = runeError ∧ (decodeRune (b :: rest)).2 = 1
      · rw [if_pos herr]
        have hd : (b :: rest).drop (decodeRune (b :: rest)).2 = rest := by rw [herr.2]; rfl
        rw [hd] at ih
        refine ⟨?_, ?_⟩
        · intro v hv
          rw [hE_ufffd] at hv
          exact rawLineSeps_suffix [b] rest v (ih.1 v hv)
        · rw [rawLineSeps_ufffd, ih.2]
      · rw [if_neg herr]
        by_cases hls : (decodeRune (b :: rest)).1 = 0x2028 ∨ (decodeRune (b :: rest)).1 = 0x2029
        · rw [if_pos hls]
          rcases hls with hl | hl
          · obtain ⟨t, ht, hsz⟩ := decodeRune_ls_bytes b rest hl
            simp only [List.cons.injEq] at ht
            obtain ⟨rfl, rfl⟩ := ht
            rw [hsz] at ih
            rw [hl, hsz]
            simp only [List.drop_succ_cons, List.drop_zero] at ih ⊢
            rw [ascii_u202, hexLower_8]
            refine ⟨?_, ?_⟩
            · intro v hv
              change v ∈ hE (92 :: 117 :: 50 :: 48 :: 50 :: 56 :: quoteBody false t) at hv
              rw [hE_u4 _ _ _ _ _ 0x2028 (by decide), if_pos (by decide)] at hv
              rw [rawLineSeps_cons]
              simp only [List.mem_cons] at hv
              rcases hv with rfl | hv
              · simp
              · apply List.mem_append_right
                exact rawLineSeps_suffix [0x80, 0xA8] t v (ih.1 v hv)
            · change rawLineSeps ([92, 117, 50, 48, 50, 56] ++ quoteBody false t) = []
              rw [rawLineSeps_ascii _ _ (by decide), ih.2]
          · obtain ⟨t, ht, hsz⟩ := decodeRune_ps_bytes b rest hl
            simp only [List.cons.injEq] at ht
            obtain ⟨rfl, rfl⟩ := ht
            rw [hsz] at ih
            rw [hl, hsz]
            simp only [List.drop_succ_cons, List.drop_zero] at ih ⊢
            rw [ascii_u202, hexLower_9]
            refine ⟨?_, ?_⟩
            · intro v hv
              change v ∈ hE (92 :: 117 :: 50 :: 48 :: 50 :: 57 :: quoteBody false t) at hv
              rw [hE_u4 _ _ _ _ _ 0x2029 (by decide), if_pos (by decide)] at hv
              rw [rawLineSeps_cons]
              simp only [List.mem_cons] at hv
              rcases hv with rfl | hv
              · simp
              · apply List.mem_append_right
                exact rawLineSeps_suffix [0x80, 0xA9] t v (ih.1 v hv)
            · change rawLineSeps ([92, 117, 50, 48, 50, 57] ++ quoteBody false t) = []
              rw [rawLineSeps_ascii _ _ (by decide), ih.2]
        · rw [if_neg hls]
          have hls' := not_or.1 hls
          refine ⟨?_, ?_⟩
          · intro v hv
            rw [hE_high_append _ _ (rune_bytes_high b rest hb')] at hv
            exact rawLineSeps_drop _ _ v (ih.1 v hv)
          · rw [rawLineSeps_rune b rest _ hb' herr hls'.1 hls'.2, ih.2]

theorem quoteBody_false_BA {A : Nat → Prop} (k : Bytes) (h : ∀ v ∈ rawLineSeps k, A v) :
    BA A (quoteBody false k) := by
  obtain ⟨h1, h2⟩ := quoteBody_false_escapes k
  exact ⟨fun v hv => h v (h1 v hv), by rw [h2]; simp⟩

/-! ### T5: reference tokens -/

theorem decodeToken_cons_of_head {l : Bytes} {x : UInt8} (h : (decodeToken l).head? = some x)
    (h1 : x ≠ 47) (h2 : x ≠ 126) : ∃ l', l = x :: l' ∧ decodeToken l = x :: decodeToken l' := by
  rcases l with _ | ⟨a, _ | ⟨b, rest⟩⟩
  · simp [decodeToken] at h
  · simp only [decodeToken, List.head?_cons, Option.some.injEq] at h
    subst h
    exact ⟨[], rfl, rfl⟩
  · simp only [decodeToken] at h ⊢
    split at h
    · simp only [List.head?_cons, Option.some.injEq] at h; exact absurd h.symm h1
    · split at h
      · simp only [List.head?_cons, Option.some.injEq] at h; exact absurd h.symm h2
      · rename_i n1 n2
        simp only [List.head?_cons, Option.some.injEq] at h
        subst h
        exact ⟨b :: rest, rfl, by simp only [n1, n2, if_false]⟩

theorem decodeToken_take2 {l : Bytes} {x y : UInt8} (h : (decodeToken l).take 2 = [x, y])
    (hx1 : x ≠ 47) (hx2 : x ≠ 126) (hy1 : y ≠ 47) (hy2 : y ≠ 126) : l.take 2 = [x, y] := by
  obtain ⟨t, ht⟩ := (take2_eq _ x y).1 h
  obtain ⟨l', rfl, hd⟩ := decodeToken_cons_of_head (l := l) (x := x) (by rw [ht]; rfl) hx1 hx2
  rw [hd] at ht
  simp only [List.cons.injEq, true_and] at ht
  obtain ⟨l'', rfl, _⟩ := decodeToken_cons_of_head (l := l') (x := y) (by rw [ht]; rfl) hy1 hy2
  rfl

theorem rawLineSeps_decodeToken : ∀ (n : Nat) (p : Bytes), p.length ≤ n →
    ∀ v ∈ rawLineSeps (decodeToken p), v ∈ rawLineSeps p := by
  intro n
  induction n with
  | zero =>
    intro p hp v hv
    have : p = [] := List.length_eq_zero_iff.1 (by omega)
    subst this
    simp [decodeToken, rawLineSeps] at hv
  | succ n ih =>
    intro p hp v hv
    rcases p with _ | ⟨a, _ | ⟨b, rest⟩⟩
    · simp [decodeToken, rawLineSeps] at hv
    · simpa [decodeToken] using hv
    · simp only [List.length_cons] at hp
      have hstep : decodeToken (a :: b :: rest) =
          if a = 126 ∧ b = 49 then 47 :: decodeToken rest
          else if a = 126 ∧ b = 48 then 126 :: decodeToken rest
          else a :: decodeToken (b :: rest) := by simp only [decodeToken]
      rw [hstep] at hv
      split at hv
      · rw [rawLineSeps_ne _ _ (by decide)] at hv
        exact rawLineSeps_suffix [a, b] rest v (ih rest (by omega) v hv)
      · split at hv
        · rw [rawLineSeps_ne _ _ (by decide)] at hv
          exact rawLineSeps_suffix [a, b] rest v (ih rest (by omega) v hv)
        · rw [rawLineSeps_cons] at hv ⊢
          rcases List.mem_append.1 hv with h | h
          · apply List.mem_append_left
            by_cases h1 : a = 0xE2 ∧ (decodeToken (b :: rest)).take 2 = [0x80, 0xA8]
            · rw [if_pos h1] at h
              rw [if_pos ⟨h1.1, decodeToken_take2 h1.2 (by decide) (by decide) (by decide) (by decide)⟩]
              exact h
            · rw [if_neg h1] at h
              by_cases h2 : a = 0xE2 ∧ (decodeToken (b :: rest)).take 2 = [0x80, 0xA9]
              · rw [if_pos h2] at h
                have h2' := decodeToken_take2 h2.2 (by decide) (by decide) (by decide) (by decide)
                have h1' : ¬ (a = 0xE2 ∧ (b :: rest).take 2 = [0x80, 0xA8]) := by
                  rintro ⟨_, h3⟩; rw [h2'] at h3; simp at h3
                rw [if_neg h1', if_pos ⟨h2.1, h2'⟩]; exact h
              · rw [if_neg h2] at h; simp at h
          · exact List.mem_append_right _ (ih (b :: rest) (by simp only [List.length_cons]; omega) v h)

/-- the pieces of a split are contiguous parts of the text -/
theorem splitSlash_parts : ∀ (x : Bytes) (p0 : Bytes) (ps : List Bytes), splitSlash x = p0 :: ps →
    (∃ post, x = p0 ++ post) ∧ ∀ p ∈ ps, ∃ pre post, x = pre ++ p ++ post
  | [], p0, ps, h => by
    simp only [splitSlash, List.cons.injEq] at h
    obtain ⟨rfl, rfl⟩ := h
    exact ⟨⟨[], rfl⟩, by simp⟩
  | c :: cs, p0, ps, h => by
    simp only [splitSlash] at h
    cases hs : splitSlash cs with
    | nil => exact absurd hs (splitSlash_ne_nil cs)
    | cons q qs =>
      rw [hs] at h
      simp only at h
      obtain ⟨⟨post, hpost⟩, hrest⟩ := splitSlash_parts cs q qs hs
      split at h
      · rename_i hc
        simp only [List.cons.injEq] at h
        obtain ⟨rfl, rfl⟩ := h
        refine ⟨⟨c :: cs, rfl⟩, ?_⟩
        intro p hp
        simp only [List.mem_cons] at hp
        rcases hp with rfl | hp
        · exact ⟨[c], post, by rw [hpost]; simp⟩
        · obtain ⟨pre, post', h'⟩ := hrest p hp
          exact ⟨c :: pre, post', by rw [h']; simp⟩
      · simp only [List.cons.injEq] at h
        obtain ⟨rfl, rfl⟩ := h
        refine ⟨⟨post, by rw [hpost]; rfl⟩, ?_⟩
        intro p hp
        obtain ⟨pre, post', h'⟩ := hrest p hp
        exact ⟨c :: pre, post', by rw [h']; simp⟩

/-- **T5**: a raw U+2028/U+2029 in a decoded reference token is a raw one in the pointer -/
theorem rawLineSeps_token (path p : Bytes) (hp : p ∈ splitSlash path) :
    ∀ v ∈ rawLineSeps (decodeToken p), v ∈ rawLineSeps path := by
  intro v hv
  have h1 := rawLineSeps_decodeToken _ p (Nat.le_refl _) v hv
  cases hs : splitSlash path with
  | nil => exact absurd hs (splitSlash_ne_nil path)
  | cons p0 ps =>
    rw [hs] at hp
    obtain ⟨⟨post, hpost⟩, hrest⟩ := splitSlash_parts path p0 ps hs
    simp only [List.mem_cons] at hp
    rcases hp with rfl | hp
    · rw [hpost]; exact rawLineSeps_prefix _ _ v h1
    · obtain ⟨pre, post', h'⟩ := hrest p hp
      rw [h', List.append_assoc]
      exact rawLineSeps_suffix _ _ v (rawLineSeps_prefix _ _ v h1)

end Impl
end JP
