import JP.Lemmas.EqualBasic

/-!
# `eqCC` on ALL syntax trees, repeated member names included

The map view of a member list: one entry per DISTINCT decoded name, the LAST occurrence wins
(`lookupLastC`).  `dkeys` lists the distinct names; `eqCCM ms os` says "every map entry of `ms`
has an equal partner in the map of `os`" (`eqCCM_iff`).  With equally many distinct names,
inclusion of the name sets in one direction gives the other one (pigeonhole on `dkeys`), which is
what makes Go's one-sided loop symmetric.
-/

namespace JP
open Value Cst

namespace Impl

/-- the distinct decoded names of a member list (those of the map after decoding) -/
def dkeys : List (Bytes × Cst) → List Bytes
  | [] => []
  | (k, _) :: ms => if hasKeyC (unquote k) ms then dkeys ms else unquote k :: dkeys ms

theorem mem_dkeys (k : Bytes) : ∀ (ms : List (Bytes × Cst)), k ∈ dkeys ms ↔ hasKeyC k ms = true
  | [] => by simp [dkeys, hasKeyC]
  | (k', v) :: ms => by
    have ih := mem_dkeys k ms
    by_cases hk : unquote k' = k
    · subst hk
      cases hh : hasKeyC (unquote k') ms with
      | true => simp [dkeys, hasKeyC, hh, ih]
      | false => simp [dkeys, hasKeyC, hh]
    · have hk' : ¬ k = unquote k' := fun e => hk e.symm
      cases hh : hasKeyC (unquote k') ms with
      | true => simp [dkeys, hasKeyC, hh, ih, hk]
      | false => simp [dkeys, hasKeyC, hh, ih, hk, hk']

theorem dkeys_nodup : ∀ (ms : List (Bytes × Cst)), (dkeys ms).Nodup
  | [] => by simp [dkeys]
  | (k, v) :: ms => by
    have ih := dkeys_nodup ms
    cases hh : hasKeyC (unquote k) ms with
    | true => simpa [dkeys, hh] using ih
    | false =>
      simp only [dkeys, hh, Bool.false_eq_true, if_false, List.nodup_cons]
      refine ⟨?_, ih⟩
      intro hm
      rw [mem_dkeys, hh] at hm
      cases hm

theorem length_dkeys : ∀ (ms : List (Bytes × Cst)), (dkeys ms).length = uniqueCount ms
  | [] => rfl
  | (k, v) :: ms => by
    have ih := length_dkeys ms
    cases hh : hasKeyC (unquote k) ms with
    | true => simpa [dkeys, uniqueCount, hh] using ih
    | false => simp [dkeys, uniqueCount, hh, ih]

theorem lookupLastC_none_iff (k : Bytes) : ∀ (ms : List (Bytes × Cst)),
    lookupLastC k ms = none ↔ hasKeyC k ms = false
  | [] => by simp [lookupLastC, hasKeyC]
  | (k', v) :: ms => by
    have ih := lookupLastC_none_iff k ms
    cases hl : lookupLastC k ms with
    | some c =>
      have : hasKeyC k ms = true := by
        cases hh : hasKeyC k ms with
        | true => rfl
        | false => rw [ih.mpr hh] at hl; cases hl
      simp [lookupLastC, hasKeyC, hl, this]
    | none =>
      have := ih.mp hl
      by_cases hk : unquote k' = k <;> simp [lookupLastC, hasKeyC, hl, this, hk]

theorem lookupLastC_some_of_hasKey (k : Bytes) (ms : List (Bytes × Cst)) (h : hasKeyC k ms = true) :
    ∃ v, lookupLastC k ms = some v := by
  cases hl : lookupLastC k ms with
  | some v => exact ⟨v, rfl⟩
  | none => rw [(lookupLastC_none_iff k ms).mp hl] at h; cases h

theorem hasKey_of_lookupLastC (k : Bytes) (v : Cst) (ms : List (Bytes × Cst))
    (h : lookupLastC k ms = some v) : hasKeyC k ms = true := by
  cases hh : hasKeyC k ms with
  | true => rfl
  | false => rw [(lookupLastC_none_iff k ms).mpr hh] at h; cases h

/-- the value found is the value of a member -/
theorem mem_of_lookupLastC (k : Bytes) (v : Cst) : ∀ (ms : List (Bytes × Cst)),
    lookupLastC k ms = some v → ∃ k', (k', v) ∈ ms
  | [], h => by simp [lookupLastC] at h
  | (k', v') :: ms, h => by
    cases hl : lookupLastC k ms with
    | some c =>
      simp only [lookupLastC, hl, Option.some.injEq] at h
      subst h
      obtain ⟨k'', hm⟩ := mem_of_lookupLastC k c ms hl
      exact ⟨k'', List.mem_cons_of_mem _ hm⟩
    | none =>
      simp only [lookupLastC, hl] at h
      by_cases hk : unquote k' = k
      · simp only [hk, if_true, Option.some.injEq] at h
        subst h
        exact ⟨k', List.mem_cons_self⟩
      · simp [hk] at h

/-- `eqCCM` = inclusion of the map of the left in the map of the right, values compared by `eqCC` -/
theorem eqCCM_iff : ∀ (ms os : List (Bytes × Cst)),
    eqCCM ms os = true ↔
      ∀ k v, lookupLastC k ms = some v → ∃ ov, lookupLastC k os = some ov ∧ eqCC v ov = true
  | [], os => by simp [eqCCM, lookupLastC]
  | (k', v') :: ms, os => by
    have ih := eqCCM_iff ms os
    simp only [eqCCM, Bool.and_eq_true, ih]
    constructor
    · intro ⟨h1, h2⟩ k v hl
      cases hl' : lookupLastC k ms with
      | some c =>
        simp only [lookupLastC, hl', Option.some.injEq] at hl
        subst hl
        exact h2 k c hl'
      | none =>
        simp only [lookupLastC, hl'] at hl
        by_cases hk : unquote k' = k
        · simp only [hk, if_true, Option.some.injEq] at hl
          subst hl
          have hh := (lookupLastC_none_iff k ms).mp hl'
          rw [hk, hh] at h1
          simp only [Bool.false_eq_true, if_false] at h1
          cases ho : lookupLastC k os with
          | none => rw [ho] at h1; cases h1
          | some ov => rw [ho] at h1; exact ⟨ov, rfl, h1⟩
        · simp [hk] at hl
    · intro h
      constructor
      · cases hh : hasKeyC (unquote k') ms with
        | true => simp
        | false =>
          have hn := (lookupLastC_none_iff _ ms).mpr hh
          have : lookupLastC (unquote k') ((k', v') :: ms) = some v' := by
            simp [lookupLastC, hn]
          obtain ⟨ov, ho, he⟩ := h _ _ this
          simp [ho, he]
      · intro k v hl
        exact h k v (by simp [lookupLastC, hl])

/-- names of the left map are names of the right map -/
theorem eqCCM_dkeys_subset (ms os : List (Bytes × Cst)) (h : eqCCM ms os = true) :
    ∀ k ∈ dkeys ms, k ∈ dkeys os := by
  intro k hk
  rw [mem_dkeys] at hk ⊢
  obtain ⟨v, hv⟩ := lookupLastC_some_of_hasKey k ms hk
  obtain ⟨ov, ho, _⟩ := (eqCCM_iff ms os).mp h k v hv
  exact hasKey_of_lookupLastC k ov os ho

/-- pigeonhole: equally many distinct names and inclusion one way give inclusion the other way -/
theorem eqCCM_dkeys_superset (ms os : List (Bytes × Cst)) (hc : uniqueCount ms = uniqueCount os)
    (h : eqCCM ms os = true) : ∀ k ∈ dkeys os, k ∈ dkeys ms :=
  subset_of_nodup_length_le (dkeys ms) (dkeys os) (dkeys_nodup ms) (dkeys_nodup os)
    (eqCCM_dkeys_subset ms os h) (by rw [length_dkeys, length_dkeys, hc]; exact Nat.le_refl _)

/-! ### the three laws on member lists, given the laws for the member values of the left -/

theorem eqCCM_symm_of (ms os : List (Bytes × Cst))
    (ih : ∀ p ∈ ms, ∀ b, eqCC p.2 b = true → eqCC b p.2 = true)
    (hc : uniqueCount ms = uniqueCount os) (h : eqCCM ms os = true) : eqCCM os ms = true := by
  rw [eqCCM_iff]
  intro k ov ho
  have hk : k ∈ dkeys ms :=
    eqCCM_dkeys_superset ms os hc h k ((mem_dkeys k os).mpr (hasKey_of_lookupLastC k ov os ho))
  obtain ⟨v, hv⟩ := lookupLastC_some_of_hasKey k ms ((mem_dkeys k ms).mp hk)
  obtain ⟨ov', ho', he⟩ := (eqCCM_iff ms os).mp h k v hv
  rw [ho] at ho'
  cases ho'
  obtain ⟨k', hm⟩ := mem_of_lookupLastC k v ms hv
  exact ⟨v, hv, ih (k', v) hm ov he⟩

theorem eqCCM_refl_of (ms : List (Bytes × Cst)) (ih : ∀ p ∈ ms, eqCC p.2 p.2 = true) :
    eqCCM ms ms = true := by
  rw [eqCCM_iff]
  intro k v hv
  obtain ⟨k', hm⟩ := mem_of_lookupLastC k v ms hv
  exact ⟨v, hv, ih (k', v) hm⟩

theorem eqCCM_trans_of (ms os cs : List (Bytes × Cst))
    (ih : ∀ p ∈ ms, ∀ b c, eqCC p.2 b = true → eqCC b c = true → eqCC p.2 c = true)
    (h1 : eqCCM ms os = true) (h2 : eqCCM os cs = true) : eqCCM ms cs = true := by
  rw [eqCCM_iff]
  intro k v hv
  obtain ⟨ov, ho, he⟩ := (eqCCM_iff ms os).mp h1 k v hv
  obtain ⟨cv, hcv, he'⟩ := (eqCCM_iff os cs).mp h2 k ov ho
  obtain ⟨k', hm⟩ := mem_of_lookupLastC k v ms hv
  exact ⟨cv, hcv, ih (k', v) hm ov cv he he'⟩

/-! ### literals -/

theorem eqCC_lit_lit (a b : Bytes) :
    eqCC (.lit a) (.lit b) =
      if a = ascii "null" ∨ b = ascii "null" then decide (a = ascii "null" ∧ b = ascii "null")
      else a == b := by
  simp [eqCC, isNullLit]

theorem eqCC_lit_str (a s : Bytes) : eqCC (.lit a) (.str s) = false := by
  by_cases h : a = ascii "null" <;> simp [eqCC, isNullLit, h]
theorem eqCC_lit_arr (a : Bytes) (xs : List Cst) : eqCC (.lit a) (.arr xs) = false := by
  by_cases h : a = ascii "null" <;> simp [eqCC, isNullLit, h]
theorem eqCC_lit_obj (a : Bytes) (ms : List (Bytes × Cst)) : eqCC (.lit a) (.obj ms) = false := by
  by_cases h : a = ascii "null" <;> simp [eqCC, isNullLit, h]

theorem eqCC_lit_lit_true (a b : Bytes) : eqCC (.lit a) (.lit b) = true ↔ a = b := by
  rw [eqCC_lit_lit]
  by_cases ha : a = ascii "null" <;> by_cases hb : b = ascii "null" <;> simp [ha, hb]
  · intro e; exact hb e.symm

/-! ### the main inductions -/

mutual
theorem eqCC_symm_imp : ∀ (a b : Cst), eqCC a b = true → eqCC b a = true
  | .lit s, b, h => by
    cases b with
    | lit t => rw [eqCC_lit_lit_true] at h ⊢; exact h.symm
    | str t => rw [eqCC_lit_str] at h; cases h
    | arr ys => rw [eqCC_lit_arr] at h; cases h
    | obj os => rw [eqCC_lit_obj] at h; cases h
  | .str s, b, h => by
    cases b with
    | lit t => simp [eqCC] at h
    | str t =>
      simp only [eqCC, beq_iff_eq] at h ⊢
      exact h.symm
    | arr ys => simp [eqCC] at h
    | obj os => simp [eqCC] at h
  | .arr xs, b, h => by
    cases b with
    | lit t => simp [eqCC] at h
    | str t => simp [eqCC] at h
    | arr ys =>
      simp only [eqCC] at h ⊢
      exact eqCCL_symm_imp xs ys h
    | obj os => simp [eqCC] at h
  | .obj ms, b, h => by
    cases b with
    | lit t => simp [eqCC] at h
    | str t => simp [eqCC] at h
    | arr ys => simp [eqCC] at h
    | obj os =>
      simp only [eqCC, Bool.and_eq_true, beq_iff_eq] at h ⊢
      exact ⟨h.1.symm, eqCCM_symm_of ms os (eqCCM_symm_all ms) h.1 h.2⟩
theorem eqCCL_symm_imp : ∀ (xs ys : List Cst), eqCCL xs ys = true → eqCCL ys xs = true
  | [], ys, h => by
    cases ys with
    | nil => rfl
    | cons y ys => simp [eqCCL] at h
  | x :: xs, ys, h => by
    cases ys with
    | nil => simp [eqCCL] at h
    | cons y ys =>
      simp only [eqCCL, Bool.and_eq_true] at h ⊢
      exact ⟨eqCC_symm_imp x y h.1, eqCCL_symm_imp xs ys h.2⟩
theorem eqCCM_symm_all : ∀ (ms : List (Bytes × Cst)),
    ∀ p ∈ ms, ∀ b, eqCC p.2 b = true → eqCC b p.2 = true
  | [], p, hp => by cases hp
  | (k, v) :: ms, p, hp => by
    rcases List.mem_cons.mp hp with e | hm
    · subst e; exact eqCC_symm_imp v
    · exact eqCCM_symm_all ms p hm
end

mutual
theorem eqCC_refl_all : ∀ (a : Cst), eqCC a a = true
  | .lit s => by rw [eqCC_lit_lit_true]
  | .str s => by simp [eqCC]
  | .arr xs => by simp only [eqCC]; exact eqCCL_refl_all xs
  | .obj ms => by
    simp only [eqCC, Bool.and_eq_true, beq_iff_eq]
    exact ⟨trivial, eqCCM_refl_of ms (eqCCM_refl_all ms)⟩
theorem eqCCL_refl_all : ∀ (xs : List Cst), eqCCL xs xs = true
  | [] => rfl
  | x :: xs => by
    simp only [eqCCL, Bool.and_eq_true]
    exact ⟨eqCC_refl_all x, eqCCL_refl_all xs⟩
theorem eqCCM_refl_all : ∀ (ms : List (Bytes × Cst)), ∀ p ∈ ms, eqCC p.2 p.2 = true
  | [], p, hp => by cases hp
  | (k, v) :: ms, p, hp => by
    rcases List.mem_cons.mp hp with e | hm
    · subst e; exact eqCC_refl_all v
    · exact eqCCM_refl_all ms p hm
end

mutual
theorem eqCC_trans_all : ∀ (a b c : Cst), eqCC a b = true → eqCC b c = true → eqCC a c = true
  | .lit s, b, c, h1, h2 => by
    cases b with
    | lit t =>
      rw [eqCC_lit_lit_true] at h1
      subst h1
      exact h2
    | str t => rw [eqCC_lit_str] at h1; cases h1
    | arr ys => rw [eqCC_lit_arr] at h1; cases h1
    | obj os => rw [eqCC_lit_obj] at h1; cases h1
  | .str s, b, c, h1, h2 => by
    cases b with
    | lit t => simp [eqCC] at h1
    | str t =>
      cases c with
      | lit u => simp [eqCC] at h2
      | str u =>
        simp only [eqCC, beq_iff_eq] at h1 h2 ⊢
        exact h1.trans h2
      | arr zs => simp [eqCC] at h2
      | obj cs => simp [eqCC] at h2
    | arr ys => simp [eqCC] at h1
    | obj os => simp [eqCC] at h1
  | .arr xs, b, c, h1, h2 => by
    cases b with
    | lit t => simp [eqCC] at h1
    | str t => simp [eqCC] at h1
    | arr ys =>
      cases c with
      | lit u => simp [eqCC] at h2
      | str u => simp [eqCC] at h2
      | arr zs =>
        simp only [eqCC] at h1 h2 ⊢
        exact eqCCL_trans_all xs ys zs h1 h2
      | obj cs => simp [eqCC] at h2
    | obj os => simp [eqCC] at h1
  | .obj ms, b, c, h1, h2 => by
    cases b with
    | lit t => simp [eqCC] at h1
    | str t => simp [eqCC] at h1
    | arr ys => simp [eqCC] at h1
    | obj os =>
      cases c with
      | lit u => simp [eqCC] at h2
      | str u => simp [eqCC] at h2
      | arr zs => simp [eqCC] at h2
      | obj cs =>
        simp only [eqCC, Bool.and_eq_true, beq_iff_eq] at h1 h2 ⊢
        exact ⟨h1.1.trans h2.1, eqCCM_trans_of ms os cs (eqCCM_trans_all ms) h1.2 h2.2⟩
theorem eqCCL_trans_all : ∀ (xs ys zs : List Cst),
    eqCCL xs ys = true → eqCCL ys zs = true → eqCCL xs zs = true
  | [], ys, zs, h1, h2 => by
    cases ys with
    | nil => exact h2
    | cons y ys => simp [eqCCL] at h1
  | x :: xs, ys, zs, h1, h2 => by
    cases ys with
    | nil => simp [eqCCL] at h1
    | cons y ys =>
      cases zs with
      | nil => simp [eqCCL] at h2
      | cons z zs =>
        simp only [eqCCL, Bool.and_eq_true] at h1 h2 ⊢
        exact ⟨eqCC_trans_all x y z h1.1 h2.1, eqCCL_trans_all xs ys zs h1.2 h2.2⟩
theorem eqCCM_trans_all : ∀ (ms : List (Bytes × Cst)),
    ∀ p ∈ ms, ∀ b c, eqCC p.2 b = true → eqCC b c = true → eqCC p.2 c = true
  | [], p, hp => by cases hp
  | (k, v) :: ms, p, hp => by
    rcases List.mem_cons.mp hp with e | hm
    · subst e; exact eqCC_trans_all v
    · exact eqCCM_trans_all ms p hm
end

/-- symmetry as an equation of Booleans -/
theorem eqCC_symm_eq (a b : Cst) : eqCC a b = eqCC b a := by
  cases h1 : eqCC a b with
  | true => exact (eqCC_symm_imp a b h1).symm
  | false =>
    cases h2 : eqCC b a with
    | false => rfl
    | true => rw [eqCC_symm_imp b a h2] at h1; cases h1

end Impl
end JP
