import JP.Lemmas.StreamSeq

/-!
# The sticky error `dec.err`, and errors that are not sticky
-/

namespace JP
namespace Codec
namespace Stream

open Scanner

/-! ### a set `dec.err` is never cleared, and `Decode` returns it -/

theorem decode_sticky (t : Target) (D : Dec) (e : SErr) (h : D.err = some e) : decode t D = (D, .err e) := by
  simp only [decode, h]

theorem peek_err (D : Dec) : (peek D).1.err = D.err := by
  unfold peek
  split <;> rfl

theorem more_err (D : Dec) : (more D).1.err = D.err := peek_err D

theorem popState_err (D D1 : Dec) (h : popState D = some D1) : D1.err = D.err := by
  unfold popState at h
  split at h
  · cases h
  · simp only [Option.some.injEq] at h
    rw [← h]; rfl

theorem tokenKey_err (D : Dec) (e : SErr) (h : D.err = some e) : (tokenKey D).1.err = some e := by
  have hd := decode_sticky .str { D with tokenState := .topValue } e h
  simp only [tokenKey, hd, tokenKeyFinish]
  exact h

theorem tokenValue_err (D : Dec) (e : SErr) (h : D.err = some e) : (tokenValue D).1.err = some e := by
  unfold tokenValue
  split
  · exact h
  · simp only [decode_sticky .any D e h]; exact h

/-- the state a round of `Token` leaves (continuing or returning) has `dec.err = e` -/
def KeepsErr (e : SErr) : Dec ⊕ (Dec × TokRes) → Prop
  | .inl D2 => D2.err = some e
  | .inr x => x.1.err = some e

/-- one round of `Token` keeps a set `dec.err` -/
theorem tokenStep_err (D : Dec) (c : UInt8) (e : SErr) (h : D.err = some e) : KeepsErr e (tokenStep D c) := by
  unfold tokenStep
  repeat' split
  all_goals first
    | exact h
    | (rename_i hp; exact (popState_err D _ hp).trans h)
    | exact tokenKey_err D e h
    | exact tokenValue_err D e h

theorem tokenLoop_err (e : SErr) : ∀ (f : Nat) (D : Dec), D.err = some e → (tokenLoop f D).1.err = some e := by
  intro f
  induction f with
  | zero => intro D h; exact h
  | succ f ih =>
    intro D h
    have hp : (peek D).1.err = some e := (peek_err D).trans h
    simp only [tokenLoop]
    split
    · exact hp
    · rename_i c hc
      have := tokenStep_err (peek D).1 c e hp
      split
      · rename_i D2 h2
        rw [h2] at this
        exact ih D2 this
      · rename_i x h2
        rw [h2] at this
        exact this

theorem token_err (D : Dec) (e : SErr) (h : D.err = some e) : (token D).1.err = some e :=
  tokenLoop_err e _ D h

/-- a call of `Token`, `More` or `Decode` never clears a set `dec.err` -/
theorem runStep_err (D : Dec) (s : Step) (e : SErr) (h : D.err = some e) : (runStep D s).1.err = some e := by
  cases s with
  | token => exact token_err D e h
  | more => exact (more_err D).trans h
  | decode t => simp only [runStep, decode_sticky t D e h]; exact h

/-- the state after a program -/
def runAll : Dec → List Step → Dec
  | d, [] => d
  | d, s :: ss => runAll (runStep d s).1 ss

theorem runAll_err (e : SErr) : ∀ (prog : List Step) (D : Dec), D.err = some e → (runAll D prog).err = some e
  | [], _, h => h
  | s :: ss, D, h => runAll_err e ss _ (runStep_err D s e h)

/-! ### which errors are sticky -/

theorem resOf_ne_err (se : Option DErr) (v : DVal) (e : SErr) : resOf se v ≠ .err e := by
  cases se <;> simp [resOf]

theorem prepareAfterPeek_errs (want : UInt8) (e0 : SErr) (next : TokState) (d1 : Dec) (o : Option UInt8) (e : SErr)
    (h : (prepareAfterPeek want e0 next d1 o).2 = some e) : e = .eof ∨ e = e0 := by
  cases o with
  | none => simp only [prepareAfterPeek, Option.some.injEq] at h; exact .inl h.symm
  | some c =>
    simp only [prepareAfterPeek] at h
    split at h
    · simp only [Option.some.injEq] at h; exact .inr h.symm
    · cases h

theorem tokenPrepare_errs (D : Dec) (e : SErr) (h : (tokenPrepareForDecode D).2 = some e) :
    e = .eof ∨ e = .expectedComma ∨ e = .expectedColon := by
  unfold tokenPrepareForDecode at h
  split at h
  · rcases prepareAfterPeek_errs _ _ _ _ _ e h with h | h
    · exact .inl h
    · exact .inr (.inl h)
  · split at h
    · rcases prepareAfterPeek_errs _ _ _ _ _ e h with h | h
      · exact .inl h
      · exact .inr (.inr h)
    · cases h

theorem prepareAfterPeek_fst_err (want : UInt8) (e0 : SErr) (next : TokState) (d1 : Dec) (o : Option UInt8) :
    (prepareAfterPeek want e0 next d1 o).1.err = d1.err := by
  cases o with
  | none => rfl
  | some c =>
    simp only [prepareAfterPeek]
    split <;> rfl

theorem tokenPrepare_err (D : Dec) : (tokenPrepareForDecode D).1.err = D.err := by
  unfold tokenPrepareForDecode
  split
  · dsimp only
    rw [prepareAfterPeek_fst_err]; exact peek_err D
  · split
    · dsimp only
      rw [prepareAfterPeek_fst_err]; exact peek_err D
    · rfl

theorem readValue_err (D : Dec) (e : SErr) (h : (readValue D).2 = .err e) : (readValue D).1.err = some e := by
  unfold readValue at h ⊢
  split at h
  · cases h
  · rename_i e' he
    simp only [he]
    simp only [ReadRes.err.injEq] at h
    rw [h]

theorem decodeRead_ne_err (t : Target) (D : Dec) (n : Nat) (e : SErr) : (decodeRead t D n).2 ≠ .err e := by
  unfold decodeRead
  split
  · exact resOf_ne_err _ _ e
  · simp
  · simp

/-- an error that only `readValue` produces (`syntax`: the scanner rejected a byte; `unexpectedEOF`: the input
ended inside a value) is saved in `dec.err` by the call that returns it -/
theorem decode_err_saved (t : Target) (D D' : Dec) (e : SErr) (he : e = .syntax ∨ e = .unexpectedEOF)
    (h : decode t D = (D', .err e)) : D'.err = some e := by
  unfold decode at h
  split at h
  · rename_i e' herr
    simp only [Prod.mk.injEq, DecRes.err.injEq] at h
    rw [← h.1, ← h.2]; exact herr
  · dsimp only at h
    unfold decodeAfterPrepare at h
    split at h
    · rename_i e' hp
      simp only [Prod.mk.injEq, DecRes.err.injEq] at h
      have := tokenPrepare_errs D e' hp
      rw [h.2] at this
      rcases he with rfl | rfl <;> (rcases this with h | h | h <;> cases h)
    · split at h
      · simp only [Prod.mk.injEq, DecRes.err.injEq] at h
        rcases he with rfl | rfl <;> cases h.2
      · dsimp only at h
        unfold decodeAfterRead at h
        split at h
        · rename_i e' hr
          simp only [Prod.mk.injEq, DecRes.err.injEq] at h
          rw [← h.1, ← h.2]
          exact readValue_err _ e' hr
        · rename_i n hr
          have := decodeRead_ne_err t (readValue (tokenPrepareForDecode D).1).1 n e
          rw [h] at this
          exact absurd rfl this

/-- **a syntax error is sticky**: once `Decode` has returned the scanner's error, every later `Decode`
returns it, whatever calls of `Token`, `More`, `Decode` come in between -/
theorem syntax_sticky (t : Target) (D D' : Dec) (h : decode t D = (D', .err .syntax)) (prog : List Step)
    (t' : Target) : decode t' (runAll D' prog) = (runAll D' prog, .err .syntax) :=
  decode_sticky t' _ .syntax (runAll_err .syntax prog D' (decode_err_saved t D D' .syntax (.inl rfl) h))

/-! ### an `UnmarshalTypeError` is not sticky -/

/-- `Decode` into a variable of the wrong type in front of a well-formed value: the error is returned, the value
has been consumed, `dec.err` stays nil, the token state moves on -/
theorem type_error_not_sticky (t : Target) (D : Dec) (ws vt r : Bytes) (c : Cst) (nv : NextValue D.rest ws vt r c)
    (herr : D.err = none) (hst : valueAllowed D.tokenState = true) (hbad : bad c t = true) :
    ∃ e v D', decode t D = (D', .unmarshalErr e v) ∧ view v = sem c t ∧ D'.err = none ∧ D'.rest = r ∧
      D'.tokenState = valueEnd D.tokenState ∧ D'.tokenStack = D.tokenStack := by
  obtain ⟨DS, v, _, hview, hse, _, hdec⟩ := decode_next t D ws vt r c nv herr hst
  rw [hbad] at hse
  have h1 := (hse.2 rfl).1
  cases hs : DS.savedError with
  | none => rw [hs] at h1; cases h1
  | some e =>
    refine ⟨e, v, { D with rest := r, tokenState := valueEnd D.tokenState, lastKeys := DS.lastKeys }, ?_, hview, herr,
      rfl, rfl, rfl⟩
    rw [hdec, hs]; rfl

end Stream
end Codec
end JP
