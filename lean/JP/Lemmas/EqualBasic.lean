import JP.Impl.Den

/-!
# Basic facts for C06/C02: duplicate-free keys, lookups, the pigeonhole argument,
`litValue` is injective, the denotation of a well-formed parsed object.
-/

namespace JP
open Value

/-! ### `nodupKeys` is `List.Nodup` -/

theorem nodupKeys_iff (ks : List Bytes) : nodupKeys ks = true ↔ ks.Nodup := by
  induction ks with
  | nil => simp [nodupKeys]
  | cons k ks ih =>
    simp only [nodupKeys, Bool.and_eq_true, Bool.not_eq_true', List.nodup_cons, ih]
    constructor
    · intro ⟨h1, h2⟩
      refine ⟨?_, h2⟩
      intro hm
      have := List.contains_iff_mem.mpr hm
      simp_all
    · intro ⟨h1, h2⟩
      refine ⟨?_, h2⟩
      cases hc : ks.contains k with
      | false => simp_all
      | true => exact absurd (List.contains_iff_mem.mp hc) h1

theorem nodupKeys_cons (k : Bytes) (ks : List Bytes) :
    nodupKeys (k :: ks) = true ↔ k ∉ ks ∧ nodupKeys ks = true := by
  rw [nodupKeys_iff, List.nodup_cons, nodupKeys_iff]

/-! ### pigeonhole, by counting -/

theorem length_le_of_nodup_subset {α : Type} [DecidableEq α] :
    ∀ (A B : List α), A.Nodup → (∀ x ∈ A, x ∈ B) → A.length ≤ B.length
  | [], _, _, _ => by simp
  | a :: A, B, hn, hs => by
    have ⟨ha, hA⟩ := List.nodup_cons.mp hn
    have haB : a ∈ B := hs a (by simp)
    have hsub : ∀ x ∈ A, x ∈ B.erase a := by
      intro x hx
      have hne : x ≠ a := fun h => ha (h ▸ hx)
      exact (List.mem_erase_of_ne hne).mpr (hs x (by simp [hx]))
    have ih := length_le_of_nodup_subset A (B.erase a) hA hsub
    have hl := List.length_erase_of_mem haB
    have hpos : 0 < B.length := List.length_pos_of_mem haB
    simp only [List.length_cons]
    omega

theorem subset_of_nodup_length_le {α : Type} [DecidableEq α] :
    ∀ (A B : List α), A.Nodup → B.Nodup → (∀ x ∈ A, x ∈ B) → B.length ≤ A.length →
      ∀ x ∈ B, x ∈ A
  | [], B, _, _, _, hl => by
    intro x hx
    have : 0 < B.length := List.length_pos_of_mem hx
    simp only [List.length_nil] at hl
    omega
  | a :: A, B, hn, hB, hs, hl => by
    have ⟨ha, hA⟩ := List.nodup_cons.mp hn
    have haB : a ∈ B := hs a (by simp)
    have hsub : ∀ x ∈ A, x ∈ B.erase a := by
      intro x hx
      have hne : x ≠ a := fun h => ha (h ▸ hx)
      exact (List.mem_erase_of_ne hne).mpr (hs x (by simp [hx]))
    have hlen := List.length_erase_of_mem haB
    have hpos : 0 < B.length := List.length_pos_of_mem haB
    have ih := subset_of_nodup_length_le A (B.erase a) hA (hB.erase a) hsub
      (by simp only [List.length_cons] at hl; omega)
    intro x hx
    by_cases hxa : x = a
    · simp [hxa]
    · have := ih x ((List.mem_erase_of_ne hxa).mpr hx)
      simp [this]

/-- two duplicate-free lists, the first included in the second: equal length iff the reverse
inclusion holds -/
theorem length_eq_iff_subset {α : Type} [DecidableEq α] (A B : List α) (hA : A.Nodup)
    (hB : B.Nodup) (hs : ∀ x ∈ A, x ∈ B) : A.length = B.length ↔ ∀ x ∈ B, x ∈ A := by
  constructor
  · intro h
    exact subset_of_nodup_length_le A B hA hB hs (by omega)
  · intro h
    have h1 := length_le_of_nodup_subset A B hA hs
    have h2 := length_le_of_nodup_subset B A hB h
    omega

/-! ### lookups in member lists -/

namespace Value

theorem lookup_isSome_iff_E (k : Bytes) : ∀ (ms : Members), (lookup k ms).isSome = true ↔ k ∈ ms.map Prod.fst
  | [] => by simp [lookup]
  | (k', v) :: ms => by
    simp only [lookup, List.map_cons, List.mem_cons]
    by_cases h : k' = k
    · simp [h]
    · rw [if_neg h, lookup_isSome_iff_E k ms]
      constructor
      · intro hm; exact Or.inr hm
      · intro hm
        cases hm with
        | inl h' => exact absurd h'.symm h
        | inr h' => exact h'

theorem lookup_eq_none_iff_E (k : Bytes) (ms : Members) : lookup k ms = none ↔ k ∉ ms.map Prod.fst := by
  rw [← lookup_isSome_iff_E]
  cases lookup k ms <;> simp

theorem mem_of_lookup_E (k : Bytes) (v : Value) : ∀ (ms : Members), lookup k ms = some v → (k, v) ∈ ms
  | [] => by simp [lookup]
  | (k', v') :: ms => by
    simp only [lookup]
    by_cases h : k' = k
    · rw [if_pos h]; intro hv; cases hv; simp [h]
    · rw [if_neg h]; intro hv; exact List.mem_cons_of_mem _ (mem_of_lookup_E k v ms hv)

theorem lookup_of_mem_nodup (k : Bytes) (v : Value) :
    ∀ (ms : Members), (ms.map Prod.fst).Nodup → (k, v) ∈ ms → lookup k ms = some v
  | [], _ => by simp
  | (k', v') :: ms, hn => by
    simp only [List.map_cons, List.nodup_cons] at hn
    intro hm
    simp only [lookup]
    cases List.mem_cons.mp hm with
    | inl h => cases h; simp
    | inr h =>
      have hk : k ∈ ms.map Prod.fst := List.mem_map.mpr ⟨(k, v), h, rfl⟩
      have hne : k' ≠ k := fun e => hn.1 (e ▸ hk)
      rw [if_neg hne]
      exact lookup_of_mem_nodup k v ms hn.2 h

/-- for duplicate-free keys the map view rebuilt from the key list is the list itself -/
theorem map_lookup_self_aux (ms' : Members) :
    ∀ (ms : Members), (∀ k v, (k, v) ∈ ms → lookup k ms' = some v) →
      (ms.map Prod.fst).map (fun k => (k, (lookup k ms').getD .null)) = ms
  | [], _ => rfl
  | (k, v) :: ms, h => by
    simp only [List.map_cons]
    rw [h k v (by simp), map_lookup_self_aux ms' ms (fun k v hm => h k v (List.mem_cons_of_mem _ hm))]
    rfl

theorem map_lookup_self (ms : Members) (hn : (ms.map Prod.fst).Nodup) :
    (ms.map Prod.fst).map (fun k => (k, (lookup k ms).getD .null)) = ms :=
  map_lookup_self_aux ms ms (fun k v hm => lookup_of_mem_nodup k v ms hn hm)

/-! ### `eqvM`, `subKeys` and the pigeonhole -/

theorem eqvM_keys_subset : ∀ (xs ys : Members), eqvM xs ys = true → ∀ k ∈ xs.map Prod.fst, k ∈ ys.map Prod.fst
  | [], _, _ => by simp
  | (k, v) :: xs, ys, h => by
    simp only [eqvM, Bool.and_eq_true] at h
    intro k' hk'
    simp only [List.map_cons, List.mem_cons] at hk'
    cases hk' with
    | inl e =>
      subst e
      rw [← lookup_isSome_iff_E]
      cases hl : lookup k' ys with
      | none => rw [hl] at h; simp at h
      | some w => rfl
    | inr hm => exact eqvM_keys_subset xs ys h.2 k' hm

theorem subKeys_iff_E (ys xs : Members) :
    subKeys ys xs = true ↔ ∀ k ∈ ys.map Prod.fst, k ∈ xs.map Prod.fst := by
  simp only [subKeys, List.all_eq_true, lookup_isSome_iff_E]
  constructor
  · intro h k hk
    obtain ⟨m, hm, rfl⟩ := List.mem_map.mp hk
    exact h m hm
  · intro h m hm
    exact h m.1 (List.mem_map.mpr ⟨m, hm, rfl⟩)

/-- Go's test (sizes equal, one-sided inclusion) against two-sided inclusion -/
theorem pigeon (xs ys : Members) (hx : nodupKeys (xs.map Prod.fst) = true)
    (hy : nodupKeys (ys.map Prod.fst) = true) (h : eqvM xs ys = true) :
    (xs.length == ys.length) = subKeys ys xs := by
  have hx' := (nodupKeys_iff _).mp hx
  have hy' := (nodupKeys_iff _).mp hy
  have hs := eqvM_keys_subset xs ys h
  have := length_eq_iff_subset _ _ hx' hy' hs
  simp only [List.length_map] at this
  cases hsk : subKeys ys xs with
  | true =>
    have := this.mpr ((subKeys_iff_E ys xs).mp hsk)
    simp [this]
  | false =>
    cases hl : (xs.length == ys.length) with
    | false => rfl
    | true =>
      have hl' : xs.length = ys.length := by simpa using hl
      have := (subKeys_iff_E ys xs).mpr (this.mp hl')
      rw [hsk] at this; cases this

theorem eqv_obj_nodup (xs ys : Members) (hx : nodupKeys (xs.map Prod.fst) = true)
    (hy : nodupKeys (ys.map Prod.fst) = true) :
    eqv (.obj xs) (.obj ys) = (xs.length == ys.length && eqvM xs ys) := by
  simp only [eqv]
  cases h : eqvM xs ys with
  | false => simp
  | true => simp [pigeon xs ys hx hy h]

end Value

/-! ### literals -/

theorem litValue_inj (s t : Bytes) : Cst.litValue s = Cst.litValue t ↔ s = t := by
  constructor
  · intro h
    unfold Cst.litValue at h
    split at h <;> split at h <;> (try split at h) <;> (try split at h) <;> (try split at h) <;>
      (try split at h) <;> simp_all
  · intro h; rw [h]

end JP
