import JP.Lemmas.HeapCon

/-!
# `set`, `add`, `remove` through an address: ONE cell is rewritten, and the result represents
what `Impl.conSet/conAdd/conRemove` compute
-/

namespace JP
namespace Heap

open JP.Impl (Node NMembers Outcome listSet listInsert lookupN setN eraseN)

/-- the outcome of rewriting the one cell `c`: the container now stands for `con'`; its footprint
lies within the old one and the footprint `extra` of the value linked in -/
def Wrote (h : Heap) (c : Nat) (fc extra : List Nat) (h' : Heap) (con' : Node) : Prop :=
  ∃ fc' cell', h' = h.set c cell' ∧ Repr h' con' (some c) fc' ∧ ∀ x ∈ fc', x ∈ extra ∨ x ∈ fc

theorem docSet_wrote {h : Heap} {c : Nat} {keys : List Bytes} {ms : NMembers} {ps : PMembers}
    {fm : List Nat} {val : Node} {p : Ptr} {fv : List Nat} (key : Bytes)
    (ha : h[c]? = some (.doc keys ps)) (hm : ReprM h ms ps fm) (hn : c ∉ fm)
    (rv : Repr h val p fv) (d : Disj fv (c :: fm)) :
    Wrote h c (c :: fm) fv (h.set c (docSetP keys ps key p)) (Impl.docSet keys ms key val) := by
  obtain ⟨fp', hs, sub⟩ := ReprM.set ms key hm rv (fun x hx hy => d x hx (by simp [hy]))
  have hc0 : c ∉ fp' := by
    intro hx
    rcases sub c hx with h1 | h1
    · exact d c h1 (by simp)
    · exact hn h1
  refine ⟨c :: fp', _, rfl, ?_, fun x hx => ?_⟩
  · simp only [docSetP, Impl.docSet]
    refine Repr.mk_doc ?_ (ReprM.write hs _ hc0) hc0
    rw [List.getElem?_set_self (List.getElem?_eq_some_iff.mp ha).1]
  · simp only [List.mem_cons] at hx ⊢
    rcases hx with rfl | hx
    · exact Or.inr (Or.inl rfl)
    · rcases sub x hx with h1 | h1
      · exact Or.inl h1
      · exact Or.inr (Or.inr h1)

theorem ary_wrote {h : Heap} {c : Nat} {ps : List Ptr} {fm : List Nat} {ns' : List Node} {ps' : List Ptr}
    {fp' fv : List Nat} (ha : h[c]? = some (.ary ps)) (hn : c ∉ fm) (hfv : c ∉ fv)
    (hs : ReprL h ns' ps' fp') (sub : ∀ x ∈ fp', x ∈ fv ∨ x ∈ fm) :
    Wrote h c (c :: fm) fv (h.set c (.ary ps')) (.ary ns') := by
  have hc0 : c ∉ fp' := by
    intro hx
    rcases sub c hx with h1 | h1
    · exact hfv h1
    · exact hn h1
  refine ⟨c :: fp', _, rfl, ?_, fun x hx => ?_⟩
  · refine Repr.mk_ary ?_ (ReprL.write hs _ hc0) hc0
    rw [List.getElem?_set_self (List.getElem?_eq_some_iff.mp ha).1]
  · simp only [List.mem_cons] at hx ⊢
    rcases hx with rfl | hx
    · exact Or.inr (Or.inl rfl)
    · rcases sub x hx with h1 | h1
      · exact Or.inl h1
      · exact Or.inr (Or.inr h1)

theorem hAdd_refines (o : Impl.Opts) {h : Heap} {con : Node} {c : Nat} {fc : List Nat} {val : Node}
    {p : Ptr} {fv : List Nat} (key : Bytes) (r : Repr h con (some c) fc) (rv : Repr h val p fv)
    (d : Disj fv fc) :
    OutRel (Wrote h c fc fv) (hAdd o h c key p) (Impl.conAdd o con key val) := by
  cases con with
  | nil => simp only [Repr] at r; cases r.1
  | raw x =>
    simp only [Repr] at r; obtain ⟨a', e, ha, rfl⟩ := r; cases e
    simp [hAdd, ha, cellAdd, Impl.conAdd, writeBack]
  | docNil =>
    simp only [Repr] at r; obtain ⟨a', e, ha, rfl⟩ := r; cases e
    simp [hAdd, ha, cellAdd, Impl.conAdd, writeBack]
  | nilAry =>
    simp only [Repr] at r; obtain ⟨a', e, ha, rfl⟩ := r; cases e
    simp [hAdd, ha, cellAdd, Impl.conAdd, writeBack]
  | doc keys ms =>
    simp only [Repr] at r; obtain ⟨a', ps, fm, e, ha, hm, hn, rfl⟩ := r; cases e
    simp only [hAdd, ha, cellAdd, Impl.conAdd, writeBack, OutRel_ok_ok]
    exact docSet_wrote key ha hm hn rv d
  | ary ns =>
    simp only [Repr] at r; obtain ⟨a', ps, fm, e, ha, hm, hn, rfl⟩ := r; cases e
    rw [conAdd_ary]
    simp only [hAdd, ha, cellAdd, ReprL.length_eq ns hm]
    have hfv : c ∉ fv := fun hx => d c hx (by simp)
    have d' : Disj fv fm := fun x hx hy => d x hx (by simp [hy])
    cases hi : addIdx o ns.length key with
    | err e => simp [writeBack]
    | panic => simp [writeBack]
    | ok oi =>
      cases oi with
      | none =>
        simp only [writeBack, OutRel_ok_ok]
        obtain ⟨fp', hs, sub⟩ := ReprL.snoc hm rv d'
        exact ary_wrote ha hn hfv hs sub
      | some i =>
        simp only [writeBack, OutRel_ok_ok]
        obtain ⟨fp', hs, sub⟩ := ReprL.insert ns i hm rv d'
        exact ary_wrote ha hn hfv hs sub

theorem hSet_refines (o : Impl.Opts) {h : Heap} {con : Node} {c : Nat} {fc : List Nat} {val : Node}
    {p : Ptr} {fv : List Nat} (key : Bytes) (r : Repr h con (some c) fc) (rv : Repr h val p fv)
    (d : Disj fv fc) :
    OutRel (Wrote h c fc fv) (hSet o h c key p) (Impl.conSet o con key val) := by
  cases con with
  | nil => simp only [Repr] at r; cases r.1
  | raw x =>
    simp only [Repr] at r; obtain ⟨a', e, ha, rfl⟩ := r; cases e
    simp [hSet, ha, cellSet, Impl.conSet, writeBack]
  | docNil =>
    simp only [Repr] at r; obtain ⟨a', e, ha, rfl⟩ := r; cases e
    simp [hSet, ha, cellSet, Impl.conSet, writeBack]
  | nilAry =>
    simp only [Repr] at r; obtain ⟨a', e, ha, rfl⟩ := r; cases e
    simp [hSet, ha, cellSet, Impl.conSet, writeBack]
  | doc keys ms =>
    simp only [Repr] at r; obtain ⟨a', ps, fm, e, ha, hm, hn, rfl⟩ := r; cases e
    simp only [hSet, ha, cellSet, Impl.conSet, writeBack, OutRel_ok_ok]
    exact docSet_wrote key ha hm hn rv d
  | ary ns =>
    simp only [Repr] at r; obtain ⟨a', ps, fm, e, ha, hm, hn, rfl⟩ := r; cases e
    rw [conSet_ary]
    simp only [hSet, ha, cellSet, ReprL.length_eq ns hm]
    have hfv : c ∉ fv := fun hx => d c hx (by simp)
    cases hi : setIdx o ns.length key with
    | err e => simp [writeBack]
    | panic => simp [writeBack]
    | ok i =>
      simp only [writeBack, OutRel_ok_ok]
      have hlt := setIdx_lt hi
      obtain ⟨n0, hn0⟩ : ∃ n0, ns[i]? = some n0 := ⟨ns[i], List.getElem?_eq_getElem hlt⟩
      obtain ⟨p0, f0, rest, _, _, _, _, sr, wand⟩ := ReprL.focus ns i hm hn0
      obtain ⟨fp', hs, sub⟩ := wand h val p fv rv (fun _ _ => rfl)
        (fun x hx hy => d x hx (by simp [sr x hy]))
      exact ary_wrote ha hn hfv hs (fun x hx => (sub x hx).elim Or.inl (fun h1 => Or.inr (sr x h1)))

/-- the outcome of `remove`: as `Wrote`, and the node a preceding `get` of the same key handed out
is now a tree of its own, DISJOINT from the container it left -/
def Removed (o : Impl.Opts) (s : Node) (h : Heap) (con : Node) (c : Nat) (fc : List Nat) (key : Bytes)
    (h' : Heap) (con' : Node) : Prop :=
  ∃ fc' cell', h' = h.set c cell' ∧ Repr h' con' (some c) fc' ∧ (∀ x ∈ fc', x ∈ fc) ∧
    ∀ p n, hGet o h c key = .ok p → Impl.conGet o s con key = .ok n →
      ∃ fn, Repr h' n p fn ∧ Disj fn fc' ∧ ∀ x ∈ fn, x ∈ fc

theorem hRemove_refines (o : Impl.Opts) (s : Node) {h : Heap} {con : Node} {c : Nat} {fc : List Nat}
    (key : Bytes) (r : Repr h con (some c) fc) :
    OutRel (Removed o s h con c fc key) (hRemove o h c key) (Impl.conRemove o con key) := by
  have r0 := r
  cases con with
  | nil => simp only [Repr] at r; cases r.1
  | raw x =>
    simp only [Repr] at r; obtain ⟨a', e, ha, rfl⟩ := r; cases e
    simp [hRemove, ha, cellRemove, Impl.conRemove, writeBack]
  | docNil =>
    simp only [Repr] at r; obtain ⟨a', e, ha, rfl⟩ := r; cases e
    simp [hRemove, ha, cellRemove, Impl.conRemove, writeBack]
  | nilAry =>
    simp only [Repr] at r; obtain ⟨a', e, ha, rfl⟩ := r; cases e
    simp [hRemove, ha, cellRemove, Impl.conRemove, writeBack]
  | doc keys ms =>
    simp only [Repr] at r; obtain ⟨a', ps, fm, e, ha, hm, hn, rfl⟩ := r; cases e
    simp only [hRemove, ha, cellRemove, Impl.conRemove]
    cases hk : lookupN key ms with
    | none =>
      have hp := ReprM.lookup_none ms key hm hk
      simp only [hp]
      by_cases hal : o.allow = true
      · simp only [hal, if_true, writeBack, OutRel_ok_ok]
        refine ⟨c :: fm, _, rfl, by rw [set_same ha]; exact r0, fun x hx => hx, ?_⟩
        intro p n hg _
        simp [hGet, ha, cellGet, hp] at hg
      · simp [hal, writeBack]
    | some n0 =>
      obtain ⟨p, f, rest, hp, hr, hl, dr, sf, sr⟩ := ReprM.erase ms key hm hk
      simp only [hp]
      by_cases hkc : keys.contains key = true
      · simp only [hkc, if_true, writeBack, OutRel_ok_ok]
        have hc0 : c ∉ rest := fun hx => hn (sr c hx)
        refine ⟨c :: rest, _, rfl, ?_, fun x hx => ?_, ?_⟩
        · refine Repr.mk_doc ?_ (ReprM.write hl _ hc0) hc0
          rw [List.getElem?_set_self (List.getElem?_eq_some_iff.mp ha).1]
        · simp only [List.mem_cons] at hx ⊢
          rcases hx with rfl | hx
          · exact Or.inl rfl
          · exact Or.inr (sr x hx)
        · intro p' n' hg hg'
          simp only [hGet, ha, cellGet, hp] at hg
          simp only [Impl.conGet, hk] at hg'
          cases hg; cases hg'
          refine ⟨f, Repr.write hr _ (fun hx => hn (sf c hx)), ?_, fun x hx => by simp [sf x hx]⟩
          intro x hx hy
          simp only [List.mem_cons] at hy
          rcases hy with rfl | hy
          · exact hn (sf x hx)
          · exact dr x hx hy
      · rw [if_neg hkc, if_neg hkc]; simp [writeBack]
  | ary ns =>
    simp only [Repr] at r; obtain ⟨a', ps, fm, e, ha, hm, hn, rfl⟩ := r; cases e
    rw [conRemove_ary]
    simp only [hRemove, ha, cellRemove, ReprL.length_eq ns hm]
    cases hi : removeIdx o ns.length key with
    | err e => simp [writeBack]
    | panic => simp [writeBack]
    | ok oi =>
      cases oi with
      | none =>
        simp only [writeBack, OutRel_ok_ok]
        refine ⟨c :: fm, _, rfl, by rw [set_same ha]; exact r0, fun x hx => hx, ?_⟩
        intro p n hg hg'
        exfalso
        rw [conGet_ary] at hg'
        cases hj : getIdx o ns.length key with
        | err e => rw [hj] at hg'; cases hg'
        | panic => rw [hj] at hg'; cases hg'
        | ok j =>
          rw [hj] at hg'
          simp only at hg'
          cases hnj : ns[j]? with
          | none => rw [hnj] at hg'; cases hg'
          | some nj =>
            have hjl : j < ns.length := (List.getElem?_eq_some_iff.mp hnj).1
            rw [removeIdx_of_getIdx hj hjl] at hi
            cases hi
      | some i =>
        simp only [writeBack, OutRel_ok_ok]
        have hlt := removeIdx_lt hi
        obtain ⟨n0, hn0⟩ : ∃ n0, ns[i]? = some n0 := ⟨ns[i], List.getElem?_eq_getElem hlt⟩
        obtain ⟨p, f, rest, hp, hr, hl, dr, sf, sr⟩ := ReprL.erase ns i hm hn0
        have hc0 : c ∉ rest := fun hx => hn (sr c hx)
        refine ⟨c :: rest, _, rfl, ?_, fun x hx => ?_, ?_⟩
        · refine Repr.mk_ary ?_ (ReprL.write hl _ hc0) hc0
          rw [List.getElem?_set_self (List.getElem?_eq_some_iff.mp ha).1]
        · simp only [List.mem_cons] at hx ⊢
          rcases hx with rfl | hx
          · exact Or.inl rfl
          · exact Or.inr (sr x hx)
        · intro p' n' hg hg'
          rw [conGet_ary] at hg'
          simp only [hGet, ha, cellGet, ReprL.length_eq ns hm] at hg
          cases hj : getIdx o ns.length key with
          | err e => rw [hj] at hg'; cases hg'
          | panic => rw [hj] at hg'; cases hg'
          | ok j =>
            rw [hj] at hg' hg
            simp only at hg' hg
            cases hnj : ns[j]? with
            | none => rw [hnj] at hg'; cases hg'
            | some nj =>
              have hjl : j < ns.length := (List.getElem?_eq_some_iff.mp hnj).1
              rw [removeIdx_of_getIdx hj hjl] at hi
              cases hi
              rw [hnj] at hg'; rw [hp] at hg
              rw [hn0] at hnj
              cases hg; cases hg'; cases hnj
              refine ⟨f, Repr.write hr _ (fun hx => hn (sf c hx)), ?_, fun x hx => by simp [sf x hx]⟩
              intro x hx hy
              simp only [List.mem_cons] at hy
              rcases hy with rfl | hy
              · exact hn (sf x hx)
              · exact dr x hx hy

end Heap
end JP
