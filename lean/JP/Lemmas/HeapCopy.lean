import JP.Lemmas.HeapStable
import JP.Lemmas.HeapApply

/-!
# `copy`: the Go code keeps the pointers it found, the value model walks again

`Impl.opCopy` is first rewritten into named pieces (`opCopy_eq`, by `rfl`); the stability of `find`
(`HeapStable`) shows that the value model's second and third walks reach the cells the heap model
still holds pointers to.
-/

namespace JP
namespace Heap

open JP.Impl (Node NMembers Outcome walk Walk putChild conGet Opts Op Root)

def afterW (r : Root) {α : Type} : Walk α → Option Root
  | .done con _ => some { r with con := con }
  | .doneSelf s _ => some { r with self := s }
  | _ => none

def failOfW {α : Type} : Walk α → Outcome (Root × Int)
  | .panic => .panic
  | .fail e => .err e
  | _ => .err .missing

def srcOfW : Walk Node → Outcome Node
  | .done _ v => .ok v
  | .doneSelf _ v => .ok v
  | .panic => .panic
  | _ => .err .other

def addAct (o : Opts) (cp : Node) : Node → Node → Bytes → Outcome (Node × Unit) :=
  fun _ con key =>
    match Impl.conAdd o con key cp with
    | .ok con' => .ok (con', ())
    | .err e => .err e
    | .panic => .panic

def vCopyLink (o : Opts) (acc : Int) (op : Op) (r2 : Root) (val : Node) : Outcome (Root × Int) :=
  let cps := Impl.deepCopy o.esc val
  let acc' := acc + cps.2
  if o.limit > 0 ∧ acc' > o.limit then .err .copySize
  else
    let w3 : Walk Unit := Impl.withPath o r2 op.path (addAct o cps.1)
    match afterW r2 w3 with
    | some r3 => .ok (r3, acc')
    | none => failOfW w3

def vCopyTail (o : Opts) (acc : Int) (op : Op) (frm : Bytes) (r1 : Root) : Outcome (Root × Int) :=
  let w2 : Walk Unit := Impl.withPath o r1 op.path fun _ con _ => .ok (con, ())
  match afterW r1 w2 with
  | none => failOfW w2
  | some r2 =>
    let src : Outcome Node := if frm = [] then .ok r2.con else srcOfW (Impl.copySource o r2 frm)
    match src with
    | .panic => .panic
    | .err e => .err e
    | .ok val =>
      if frm = [] && Impl.isDocNil r2.con then .err .expectedObject else vCopyLink o acc op r2 val

theorem opCopy_eq (o : Opts) (r : Root) (acc : Int) (op : Op) :
    Impl.opCopy o r acc op =
      match op.frm with
      | none => .err .missing
      | some frm =>
        let w1 : Walk Node :=
          if frm = [] then (if Impl.isNullN r.con then .fail .invalid else .done r.con r.con)
          else Impl.copySource o r frm
        match afterW r w1 with
        | none => failOfW w1
        | some r1 => vCopyTail o acc op frm r1 := by
  unfold Impl.opCopy
  cases op.frm with
  | none => rfl
  | some frm => rfl

/-- `deepCopy`: nil stays nil; anything else is marshalled (the recursion returns: the source is a
tree) into ONE fresh raw cell -/
theorem hDeepCopy_refines (esc : Bool) {h : Heap} {v : Node} {p : Ptr} {fv : List Nat}
    (rv : Repr h v p fv) :
    ∃ ext cp fcp, hDeepCopy esc h p = .ok (h ++ ext, cp, (Impl.deepCopy esc v).2) ∧
      Repr (h ++ ext) (Impl.deepCopy esc v).1 cp fcp ∧ ∀ x ∈ fcp, h.length ≤ x := by
  cases p with
  | none =>
    obtain ⟨rfl, _⟩ := Repr.none_iff rv
    exact ⟨[], none, [], by simp [hDeepCopy, Impl.deepCopy], by simpa [Impl.deepCopy] using Repr.mk_nil h,
      fun x hx => by cases hx⟩
  | some a =>
    have hm := marshal_fuelOf esc rv
    have hd : Impl.deepCopy esc v = (.raw (Impl.cstOf esc v), (Cst.print (Impl.cstOf esc v)).length) := by
      cases v with
      | nil => simp only [Repr] at rv; cases rv.1
      | raw c => rfl
      | doc k m => rfl
      | ary k => rfl
      | docNil => rfl
      | nilAry => rfl
    refine ⟨[.raw (Impl.cstOf esc v)], some h.length, [h.length], ?_, ?_, fun x hx => by simp at hx; omega⟩
    · simp only [hDeepCopy, hm, hd]
    · rw [hd]; exact Repr.mk_raw (by simp)

theorem copyLink_refines (o : Opts) {h0 : Heap} {fp : List Nat} {h2 : Heap} {root : Nat} {r2 : Root}
    {fpB : List Nat} (acc : Int) (op : Op) {p : Ptr} {v : Node} {fv : List Nat}
    (hr2 : Repr h2 r2.con (some root) fpB) (e02 : Ext h0 h2 fp fpB) (rv : Repr h2 v p fv)
    {c2 : Nat} {key2 : Bytes} (hfind : findObject o h2 root op.path = .ok (h2, some (c2, key2))) :
    OutRel (RelAcc h0 fp) (copyLink o root acc h2 p c2 key2) (vCopyLink o acc op r2 v) := by
  obtain ⟨ext, cp, fcp, hdc, rcp, frcp⟩ := hDeepCopy_refines o.esc rv
  unfold copyLink vCopyLink
  rw [hdc]
  simp only
  by_cases hl : o.limit > 0 ∧ acc + ((Impl.deepCopy o.esc v).2 : Int) > o.limit
  · simp only [hl, and_self, if_true, OutRel_err_err]
  · simp only [hl, if_false]
    have hF := findObject_refines o r2 op.path hr2
    rw [hfind] at hF
    simp only [FoundP] at hF
    obtain ⟨conc, fc, ctx, plug, s', hrc, dc, e1, hctx, vctx, hw⟩ := hF
    rw [hw]
    have dv : Disj fcp fc := by
      intro x hx hy
      have := frcp x hx
      have := Repr.valid _ hrc x hy
      omega
    have hA := hAdd_refines o key2 (Repr.alloc hrc ext) rcp dv
    simp only [addAct]
    cases h1a : hAdd o (h2 ++ ext) c2 key2 cp with
    | panic =>
      cases h2a : Impl.conAdd o conc key2 (Impl.deepCopy o.esc v).1 with
      | panic => simp [doneOf, afterW, failOfW]
      | ok x => rw [h1a, h2a] at hA; simp at hA
      | err e => rw [h1a, h2a] at hA; simp at hA
    | err e =>
      cases h2a : Impl.conAdd o conc key2 (Impl.deepCopy o.esc v).1 with
      | panic => rw [h1a, h2a] at hA; simp at hA
      | ok x => rw [h1a, h2a] at hA; simp at hA
      | err e' =>
        rw [h1a, h2a] at hA; simp only [OutRel_err_err] at hA; subst hA
        simp [doneOf, afterW, failOfW]
    | ok h' =>
      cases h2a : Impl.conAdd o conc key2 (Impl.deepCopy o.esc v).1 with
      | panic => rw [h1a, h2a] at hA; simp at hA
      | err e' => rw [h1a, h2a] at hA; simp at hA
      | ok con' =>
        rw [h1a, h2a] at hA; simp only [OutRel_ok_ok] at hA
        simp only [doneOf, afterW, OutRel_ok_ok, RelAcc]
        obtain ⟨fp', hr', e'⟩ := link_fresh hrc dc e1 hctx vctx frcp hA
        exact ⟨⟨fp', hr', Ext.trans e02 e'⟩, trivial⟩

theorem isDocNil_eq {h : Heap} {n : Node} {a : Nat} {f : List Nat} (r : Repr h n (some a) f) :
    rootIsDocNil h a = Impl.isDocNil n := by
  unfold rootIsDocNil
  cases n with
  | nil => simp only [Repr] at r; cases r.1
  | raw c => simp only [Repr] at r; obtain ⟨a', e, ha, _⟩ := r; cases e; simp [ha, cellIsDocNil, Impl.isDocNil]
  | docNil => simp only [Repr] at r; obtain ⟨a', e, ha, _⟩ := r; cases e; simp [ha, cellIsDocNil, Impl.isDocNil]
  | nilAry => simp only [Repr] at r; obtain ⟨a', e, ha, _⟩ := r; cases e; simp [ha, cellIsDocNil, Impl.isDocNil]
  | doc k m =>
    simp only [Repr] at r; obtain ⟨a', ps, f0, e, ha, _⟩ := r; cases e; simp [ha, cellIsDocNil, Impl.isDocNil]
  | ary k =>
    simp only [Repr] at r; obtain ⟨a', ps, f0, e, ha, _⟩ := r; cases e; simp [ha, cellIsDocNil, Impl.isDocNil]

theorem isNull_eq {h : Heap} {n : Node} {a : Nat} {f : List Nat} (r : Repr h n (some a) f) :
    ∃ c, h[a]? = some c ∧ cellIsNull c = Impl.isNullN n := by
  cases n with
  | nil => simp only [Repr] at r; cases r.1
  | raw c => simp only [Repr] at r; obtain ⟨a', e, ha, _⟩ := r; cases e; exact ⟨_, ha, rfl⟩
  | docNil => simp only [Repr] at r; obtain ⟨a', e, ha, _⟩ := r; cases e; exact ⟨_, ha, rfl⟩
  | nilAry => simp only [Repr] at r; obtain ⟨a', e, ha, _⟩ := r; cases e; exact ⟨_, ha, rfl⟩
  | doc k m => simp only [Repr] at r; obtain ⟨a', ps, f0, e, ha, _⟩ := r; cases e; exact ⟨_, ha, rfl⟩
  | ary k => simp only [Repr] at r; obtain ⟨a', ps, f0, e, ha, _⟩ := r; cases e; exact ⟨_, ha, rfl⟩

/-- the context closed again over the unchanged container -/
theorem ctx_close {h0 : Heap} {fp : List Nat} {h2 : Heap} {root c : Nat} {conc : Node} {fc ctx : List Nat}
    {plug : Node → Node} (hrc : Repr h2 conc (some c) fc) (dc : Disj fc ctx)
    (e : Ext h0 h2 fp (fc ++ ctx)) (hctx : Ctx h2 root c ctx plug) :
    ∃ fpB, Repr h2 (plug conc) (some root) fpB ∧ Ext h0 h2 fp fpB := by
  obtain ⟨fpB, hr, sub⟩ := hctx h2 conc fc hrc (fun _ _ => rfl) dc
  exact ⟨fpB, hr, e.len, e.frame, fun x hx => e.sub x (by simpa using sub x hx)⟩

theorem copyTail_refines (o : Opts) {h0 : Heap} {fp : List Nat} {h1 : Heap} {root : Nat} {r1 : Root}
    {fpA : List Nat} (acc : Int) (op : Op) (frm : Bytes) (p : Ptr)
    (hr1 : Repr h1 r1.con (some root) fpA) (e01 : Ext h0 h1 fp fpA)
    (hroot : frm = [] → p = some root)
    (hsrc : frm ≠ [] → ∃ c key, (∀ h2, Mono h1 h2 → findObject o h2 root frm = .ok (h2, some (c, key))) ∧
      hGet o h1 c key = .ok p) :
    OutRel (RelAcc h0 fp) (Heap.copyTail o root acc op frm h1 p) (vCopyTail o acc op frm r1) := by
  unfold Heap.copyTail vCopyTail
  have hF := findObject_refines o r1 op.path hr1
  cases hf : findObject o h1 root op.path with
  | panic =>
    rw [hf] at hF; simp only [FoundP] at hF
    rw [hF]; simp [afterW, failOfW]
  | err e => rw [hf] at hF; simp only [FoundP] at hF
  | ok res =>
    obtain ⟨h2, oc⟩ := res
    obtain ⟨m12, hst⟩ := findObject_stable hf
    rw [hf] at hF
    cases oc with
    | none =>
      simp only [FoundP] at hF
      obtain ⟨n', fp', _, _, hw⟩ := hF
      rw [hw]; simp [afterW, failOfW]
    | some ck =>
      obtain ⟨c2, key2⟩ := ck
      simp only [FoundP] at hF
      obtain ⟨conc, fc, ctx, plug, s', hrc, dc, e1, hctx, vctx, hw⟩ := hF
      rw [hw]
      simp only [doneOf, afterW]
      obtain ⟨fpB, hr2, e12⟩ := ctx_close hrc dc e1 hctx
      have e02 := Ext.trans e01 e12
      have hfind2 := hst c2 key2 rfl h2 (Mono.refl _)
      by_cases hfe : frm = []
      · have hp := hroot hfe
        subst hp
        simp only [hfe, if_true, Bool.true_and, decide_true]
        rw [isDocNil_eq hr2]
        by_cases hdn : Impl.isDocNil (plug conc) = true
        · simp [hdn]
        · simp only [hdn, Bool.false_eq_true, if_false]
          exact copyLink_refines o (r2 := { r1 with con := plug conc }) acc op hr2 e02 hr2 hfind2
      · obtain ⟨c, key, hfind, hget⟩ := hsrc hfe
        simp only [hfe, if_false, Bool.false_and, decide_false, Bool.false_eq_true]
        have hF3 := findObject_refines o { r1 with con := plug conc } frm hr2
        rw [hfind h2 m12] at hF3
        simp only [FoundP] at hF3
        obtain ⟨conc3, fc3, ctx3, plug3, s3, hrc3, _, _, _, _, hw3⟩ := hF3
        have hG := hGet_refines o s3 key hrc3
        rw [hGet_mono hget m12] at hG
        simp only [Impl.copySource]
        rw [hw3]
        cases hc : conGet o s3 conc3 key with
        | panic => rw [hc] at hG; simp at hG
        | err e => rw [hc] at hG; simp at hG
        | ok v =>
          rw [hc] at hG; simp only [OutRel_ok_ok] at hG
          obtain ⟨fv, _, rv, _⟩ := hG
          simp only [doneOf, srcOfW]
          exact copyLink_refines o (r2 := { r1 with con := plug conc }) acc op hr2 e02 rv hfind2

theorem opCopy_refines (o : Opts) {s : St} {r : Root} {fp : List Nat} (acc : Int) (op : Op)
    (hr : Repr s.h r.con (some s.root) fp) :
    OutRel (RelAcc s.h fp) (Heap.opCopy o s acc op) (Impl.opCopy o r acc op) := by
  rw [opCopy_eq]
  unfold Heap.opCopy
  cases op.frm with
  | none => simp
  | some frm =>
    simp only
    by_cases hfe : frm = []
    · simp only [hfe, if_true]
      obtain ⟨cell, hcell, hnull⟩ := isNull_eq hr
      simp only [hcell, hnull]
      by_cases hn : Impl.isNullN r.con = true
      · simp [hn, afterW, failOfW]
      · simp only [hn, Bool.false_eq_true, if_false, afterW]
        exact copyTail_refines o (r1 := { r with con := r.con }) acc op [] (some s.root) hr (Ext.refl _ _)
          (fun _ => rfl) (fun h => absurd rfl h)
    · simp only [hfe, if_false]
      have hF := findObject_refines o r frm hr
      cases hf : findObject o s.h s.root frm with
      | panic =>
        rw [hf] at hF; simp only [FoundP] at hF
        simp only [Impl.copySource]
        rw [hF]; simp [afterW, failOfW]
      | err e => rw [hf] at hF; simp only [FoundP] at hF
      | ok res =>
        obtain ⟨h1, oc⟩ := res
        obtain ⟨_, hst⟩ := findObject_stable hf
        rw [hf] at hF
        cases oc with
        | none =>
          simp only [FoundP] at hF
          obtain ⟨n', fp', _, _, hw⟩ := hF
          simp only [Impl.copySource]
          rw [hw]; simp [afterW, failOfW]
        | some ck =>
          obtain ⟨c, key⟩ := ck
          simp only [FoundP] at hF
          obtain ⟨conc, fc, ctx, plug, s', hrc, dc, e1, hctx, vctx, hw⟩ := hF
          simp only [Impl.copySource]
          rw [hw]
          have hG := hGet_refines o s' key hrc
          try simp only
          cases hg : hGet o h1 c key with
          | panic =>
            cases hc : conGet o s' conc key with
            | panic => simp [doneOf, afterW, failOfW]
            | ok x => rw [hg, hc] at hG; simp at hG
            | err e => rw [hg, hc] at hG; simp at hG
          | err e =>
            cases hc : conGet o s' conc key with
            | panic => rw [hg, hc] at hG; simp at hG
            | ok x => rw [hg, hc] at hG; simp at hG
            | err e' =>
              rw [hg, hc] at hG; simp only [OutRel_err_err] at hG; subst hG
              simp [doneOf, afterW, failOfW]
          | ok p =>
            cases hc : conGet o s' conc key with
            | panic => rw [hg, hc] at hG; simp at hG
            | err e' => rw [hg, hc] at hG; simp at hG
            | ok n0 =>
              simp only [doneOf, afterW]
              obtain ⟨fpA, hr1, e01⟩ := ctx_close hrc dc e1 hctx
              exact copyTail_refines o (r1 := { r with con := plug conc }) acc op frm p hr1 e01
                (fun h => absurd h hfe) (fun _ => ⟨c, key, fun h2 m => hst c key rfl h2 m, hg⟩)

end Heap
end JP
