import JP.Lemmas.LegacyBasic
import JP.Lemmas.Equal
import JP.Lemmas.EqualEquiv

/-!
# Legacy `lazyNode.equal` against `Value.eqv` (C19, and the `test` operation of C18)

The legacy `equal` compares two unparsed *scalars* by their bytes (strings: the bodies between
the quotes, without unescaping); everything else is the v5 algorithm.  On trees all of whose
string **values** have a body that `unquote` maps to itself (`PlainStr`: no escape sequence, no
invalid UTF-8 that would decode to U+FFFD, nothing the scanner rejects) the two algorithms
coincide, and the v5 theorems (`Impl.eqCC_eqv`, `Impl.eqNC_eqv`) carry over.  Member names are
compared decoded in both, they need no hypothesis.
-/

namespace JP
namespace Legacy

open Value Cst
open Impl (lookupLastC hasKeyC uniqueCount)

/-- a string body that `unquote` leaves unchanged -/
def plainBody (b : Bytes) : Bool := unquote b == b

mutual
/-- every string value (not: member name) is spelled plainly -/
def PlainStr : Cst → Bool
  | .lit _ => true
  | .str b => plainBody b
  | .arr xs => PlainStrL xs
  | .obj ms => PlainStrM ms
def PlainStrL : List Cst → Bool
  | [] => true
  | x :: xs => PlainStr x && PlainStrL xs
def PlainStrM : List (Bytes × Cst) → Bool
  | [] => true
  | (_, v) :: ms => PlainStr v && PlainStrM ms
end

mutual
/-- no backslash in any string body or member name -/
def NoEscapes : Cst → Bool
  | .lit _ => true
  | .str b => !b.contains 92
  | .arr xs => NoEscapesL xs
  | .obj ms => NoEscapesM ms
def NoEscapesL : List Cst → Bool
  | [] => true
  | x :: xs => NoEscapes x && NoEscapesL xs
def NoEscapesM : List (Bytes × Cst) → Bool
  | [] => true
  | (k, v) :: ms => !k.contains 92 && NoEscapes v && NoEscapesM ms
end

theorem PlainStr_of_lookupLastC (k : Bytes) (c : Cst) : ∀ (ms : List (Bytes × Cst)),
    PlainStrM ms = true → lookupLastC k ms = some c → PlainStr c = true
  | [], _ => by simp [lookupLastC]
  | (k', v) :: ms, h => by
    simp only [PlainStrM, Bool.and_eq_true] at h
    simp only [lookupLastC]
    cases hl : lookupLastC k ms with
    | some c' =>
      intro e; cases e
      exact PlainStr_of_lookupLastC k c ms h.2 hl
    | none =>
      by_cases hk : unquote k' = k
      · simp only [hk, if_true]; intro e; cases e; exact h.1
      · simp [hk]

mutual
theorem eqCC_impl : ∀ (a b : Cst), PlainStr a = true → PlainStr b = true →
    Legacy.eqCC a b = Impl.eqCC a b
  | .lit s, b, _, _ => by cases b <;> simp only [Legacy.eqCC, Impl.eqCC]
  | .str s, b, ha, hb => by
    cases b with
    | str t =>
      simp only [PlainStr, plainBody, beq_iff_eq] at ha hb
      simp only [Legacy.eqCC, Impl.eqCC, ha, hb]
    | lit t => simp only [Legacy.eqCC, Impl.eqCC]
    | arr ys => simp only [Legacy.eqCC, Impl.eqCC]
    | obj os => simp only [Legacy.eqCC, Impl.eqCC]
  | .arr xs, b, ha, hb => by
    cases b with
    | arr ys =>
      simp only [PlainStr] at ha hb
      simp only [Legacy.eqCC, Impl.eqCC]
      exact eqCCL_impl xs ys ha hb
    | lit t => simp only [Legacy.eqCC, Impl.eqCC]
    | str t => simp only [Legacy.eqCC, Impl.eqCC]
    | obj os => simp only [Legacy.eqCC, Impl.eqCC]
  | .obj ms, b, ha, hb => by
    cases b with
    | obj os =>
      simp only [PlainStr] at ha hb
      simp only [Legacy.eqCC, Impl.eqCC]
      rw [eqCCM_impl ms os ha hb]
    | lit t => simp only [Legacy.eqCC, Impl.eqCC]
    | str t => simp only [Legacy.eqCC, Impl.eqCC]
    | arr ys => simp only [Legacy.eqCC, Impl.eqCC]
theorem eqCCL_impl : ∀ (xs ys : List Cst), PlainStrL xs = true → PlainStrL ys = true →
    Legacy.eqCCL xs ys = Impl.eqCCL xs ys
  | [], ys, _, _ => by simp only [Legacy.eqCCL, Impl.eqCCL]
  | x :: xs, ys, ha, hb => by
    cases ys with
    | nil => simp only [Legacy.eqCCL, Impl.eqCCL]
    | cons y ys =>
      simp only [PlainStrL, Bool.and_eq_true] at ha hb
      simp only [Legacy.eqCCL, Impl.eqCCL]
      rw [eqCC_impl x y ha.1 hb.1, eqCCL_impl xs ys ha.2 hb.2]
theorem eqCCM_impl : ∀ (ms os : List (Bytes × Cst)), PlainStrM ms = true → PlainStrM os = true →
    Legacy.eqCCM ms os = Impl.eqCCM ms os
  | [], os, _, _ => by simp only [Legacy.eqCCM, Impl.eqCCM]
  | (k, v) :: ms, os, ha, hb => by
    simp only [PlainStrM, Bool.and_eq_true] at ha
    simp only [Legacy.eqCCM, Impl.eqCCM]
    rw [eqCCM_impl ms os ha.2 hb]
    cases hl : lookupLastC (unquote k) os with
    | none => rfl
    | some ov =>
      have := PlainStr_of_lookupLastC (unquote k) ov os hb hl
      simp only [eqCC_impl v ov ha.1 this]
end

/-- **`equal` of two raw messages = structural equality of the denoted values**, for
duplicate-free names and plainly spelled strings -/
theorem eqCC_eqv (a b : Cst) (ha : noDup a.valueOf = true) (hb : noDup b.valueOf = true)
    (hpa : PlainStr a = true) (hpb : PlainStr b = true) :
    Legacy.eqCC a b = eqv a.valueOf b.valueOf := by
  rw [eqCC_impl a b hpa hpb]; exact Impl.eqCC_eqv a b ha hb

/-! ### nodes: translation to the v5 node type -/

mutual
def toImpl : Node → Impl.Node
  | .nil => .nil
  | .rawNil => .nil
  | .raw c => .raw c
  | .doc ob => .doc (ob.map Prod.fst) (toImplM ob)
  | .docNil => .docNil
  | .ary ns => .ary (toImplL ns)
def toImplM : NMembers → Impl.NMembers
  | [] => []
  | (k, n) :: ms => (k, toImpl n) :: toImplM ms
def toImplL : List Node → List Impl.Node
  | [] => []
  | n :: ns => toImpl n :: toImplL ns
end

mutual
/-- the strings of the raw messages inside a node are spelled plainly -/
def PlainN : Node → Bool
  | .raw c => PlainStr c
  | .doc ob => PlainNM ob
  | .ary ns => PlainNL ns
  | _ => true
def PlainNM : NMembers → Bool
  | [] => true
  | (_, n) :: ms => PlainN n && PlainNM ms
def PlainNL : List Node → Bool
  | [] => true
  | n :: ns => PlainN n && PlainNL ns
end

theorem keys_toImplM : ∀ (ob : NMembers), (toImplM ob).map Prod.fst = ob.map Prod.fst
  | [] => rfl
  | (k, n) :: ms => by simp only [toImplM, List.map_cons, keys_toImplM ms]

theorem length_toImplM : ∀ (ob : NMembers), (toImplM ob).length = ob.length
  | [] => rfl
  | (k, n) :: ms => by simp only [toImplM, List.length_cons, length_toImplM ms]

mutual
theorem WF_toImpl : ∀ (n : Node), WF n = true → Impl.WF (toImpl n) = true
  | .nil, _ => rfl
  | .rawNil, _ => rfl
  | .raw c, h => by simpa [toImpl, Impl.WF, WF] using h
  | .docNil, h => by simp [WF] at h
  | .doc ob, h => by
    simp only [WF, Bool.and_eq_true] at h
    simp only [toImpl]
    rw [Impl.WF_doc_iff]
    exact ⟨(keys_toImplM ob).symm, h.1, WFM_toImplM ob h.2⟩
  | .ary ns, h => by
    simp only [WF] at h
    simp only [toImpl, Impl.WF]
    exact WFL_toImplL ns h
theorem WFM_toImplM : ∀ (ob : NMembers), WFM ob = true → Impl.WFM (toImplM ob) = true
  | [], _ => rfl
  | (k, n) :: ms, h => by
    simp only [WFM, Bool.and_eq_true] at h
    simp only [toImplM, Impl.WFM, Bool.and_eq_true]
    exact ⟨WF_toImpl n h.1, WFM_toImplM ms h.2⟩
theorem WFL_toImplL : ∀ (ns : List Node), WFL ns = true → Impl.WFL (toImplL ns) = true
  | [], _ => rfl
  | n :: ns, h => by
    simp only [WFL, Bool.and_eq_true] at h
    simp only [toImplL, Impl.WFL, Bool.and_eq_true]
    exact ⟨WF_toImpl n h.1, WFL_toImplL ns h.2⟩
end

mutual
theorem den_toImpl : ∀ (n : Node), WF n = true → Impl.den (toImpl n) = den n
  | .nil, _ => rfl
  | .rawNil, _ => rfl
  | .raw c, _ => rfl
  | .docNil, h => by simp [WF] at h
  | .doc ob, h => by
    simp only [WF, Bool.and_eq_true] at h
    simp only [toImpl, den]
    rw [Impl.den_doc_wf _ _ (keys_toImplM ob).symm h.1, denM_toImplM ob h.2]
  | .ary ns, h => by
    simp only [WF] at h
    simp only [toImpl, den, Impl.den]
    rw [denL_toImplL ns h]
theorem denM_toImplM : ∀ (ob : NMembers), WFM ob = true → Impl.denM (toImplM ob) = denM ob
  | [], _ => rfl
  | (k, n) :: ms, h => by
    simp only [WFM, Bool.and_eq_true] at h
    simp only [toImplM, Impl.denM, denM, den_toImpl n h.1, denM_toImplM ms h.2]
theorem denL_toImplL : ∀ (ns : List Node), WFL ns = true → Impl.denL (toImplL ns) = denL ns
  | [], _ => rfl
  | n :: ns, h => by
    simp only [WFL, Bool.and_eq_true] at h
    simp only [toImplL, Impl.denL, denL, den_toImpl n h.1, denL_toImplL ns h.2]
end

mutual
theorem eqNC_impl : ∀ (n : Node) (c : Cst), PlainN n = true → PlainStr c = true →
    Legacy.eqNC n c = Impl.eqNC (toImpl n) c
  | .nil, c, _, _ => by simp only [Legacy.eqNC, toImpl, Impl.eqNC]
  | .rawNil, c, _, _ => by simp only [Legacy.eqNC, toImpl, Impl.eqNC]
  | .docNil, c, _, _ => by cases c <;> simp only [Legacy.eqNC, toImpl, Impl.eqNC]
  | .raw a, c, hn, hc => by
    simp only [PlainN] at hn
    simp only [Legacy.eqNC, toImpl, Impl.eqNC]
    exact eqCC_impl a c hn hc
  | .doc ob, c, hn, hc => by
    cases c with
    | obj os =>
      simp only [PlainN, PlainStr] at hn hc
      simp only [Legacy.eqNC, toImpl, Impl.eqNC, length_toImplM]
      rw [eqNCM_impl ob os hn hc]
    | lit t => simp only [Legacy.eqNC, toImpl, Impl.eqNC]
    | str t => simp only [Legacy.eqNC, toImpl, Impl.eqNC]
    | arr ys => simp only [Legacy.eqNC, toImpl, Impl.eqNC]
  | .ary ns, c, hn, hc => by
    cases c with
    | arr ys =>
      simp only [PlainN, PlainStr] at hn hc
      simp only [Legacy.eqNC, toImpl, Impl.eqNC]
      exact eqNCL_impl ns ys hn hc
    | lit t => simp only [Legacy.eqNC, toImpl, Impl.eqNC]
    | str t => simp only [Legacy.eqNC, toImpl, Impl.eqNC]
    | obj os => simp only [Legacy.eqNC, toImpl, Impl.eqNC]
theorem eqNCL_impl : ∀ (ns : List Node) (ys : List Cst), PlainNL ns = true → PlainStrL ys = true →
    Legacy.eqNCL ns ys = Impl.eqNCL (toImplL ns) ys
  | [], ys, _, _ => by simp only [Legacy.eqNCL, toImplL, Impl.eqNCL]
  | n :: ns, ys, ha, hb => by
    cases ys with
    | nil => simp only [Legacy.eqNCL, toImplL, Impl.eqNCL]
    | cons y ys =>
      simp only [PlainNL, PlainStrL, Bool.and_eq_true] at ha hb
      simp only [Legacy.eqNCL, toImplL, Impl.eqNCL]
      rw [eqNC_impl n y ha.1 hb.1, eqNCL_impl ns ys ha.2 hb.2]
theorem eqNCM_impl : ∀ (ob : NMembers) (os : List (Bytes × Cst)), PlainNM ob = true →
    PlainStrM os = true → Legacy.eqNCM ob os = Impl.eqNCM (toImplM ob) os
  | [], os, _, _ => by simp only [Legacy.eqNCM, toImplM, Impl.eqNCM]
  | (k, n) :: ms, os, ha, hb => by
    simp only [PlainNM, Bool.and_eq_true] at ha
    simp only [Legacy.eqNCM, toImplM, Impl.eqNCM]
    rw [eqNCM_impl ms os ha.2 hb]
    cases hl : lookupLastC k os with
    | none => rfl
    | some ov =>
      have := PlainStr_of_lookupLastC k ov os hb hl
      simp only [eqNC_impl n ov ha.1 this]
end

/-- **a (partly parsed) legacy node against a raw message** -/
theorem eqNC_eqv (n : Node) (c : Cst) (hn : WF n = true) (hc : noDup c.valueOf = true)
    (hpn : PlainN n = true) (hpc : PlainStr c = true) :
    Legacy.eqNC n c = eqv (den n) c.valueOf := by
  rw [eqNC_impl n c hpn hpc, Impl.eqNC_eqv _ c (WF_toImpl n hn) hc, den_toImpl n hn]

end Legacy
end JP
