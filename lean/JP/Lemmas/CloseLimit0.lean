import JP.Lemmas.CopyTotal

/-!
# The copy-size limit only adds failures

Only `opCopy` reads `Opts.limit`.  Running with the limit switched off (`lim0 o`) therefore gives
the same sizes (`copySizeOf`) and, wherever the run with the limit succeeds, the same states.
`sizesFor` (`JP/Check.lean`) computes the sizes for the specification with the limit off.
-/

namespace JP
namespace Impl

/-- the option set with the copy-size limit switched off -/
def lim0 (o : Opts) : Opts := { o with limit := 0 }

theorem conGet_lim0 (o : Opts) : conGet (lim0 o) = conGet o := by
  funext s c k; cases c <;> rfl

theorem conAdd_lim0 (o : Opts) : conAdd (lim0 o) = conAdd o := by
  funext c k v; cases c <;> rfl

theorem conSet_lim0 (o : Opts) : conSet (lim0 o) = conSet o := by
  funext c k v; cases c <;> rfl

theorem conRemove_lim0 (o : Opts) : conRemove (lim0 o) = conRemove o := by
  funext c k; cases c <;> rfl

theorem putChild_lim0 (o : Opts) : putChild (lim0 o) = putChild o := by
  funext c k v; cases c <;> rfl

theorem wrapWalk_lim0 {α} (o : Opts) (con : Node) (key : Bytes) (w : Walk α) :
    wrapWalk (lim0 o) con key w = wrapWalk o con key w := by
  cases w <;> simp only [wrapWalk, putChild_lim0]

theorem walk_lim0 {α} (o : Opts) (act : Node → Node → Outcome (Node × α)) :
    ∀ (parts : List Bytes) (cr : Bool) (self con : Node),
      walk (lim0 o) act cr self con parts = walk o act cr self con parts := by
  intro parts
  induction parts with
  | nil => intro cr self con; rw [walk_nil, walk_nil]
  | cons part rest ih =>
    intro cr self con
    rw [walk_cons, walk_cons, conGet_lim0]
    cases conGet o self con (decodeToken part) with
    | panic => rfl
    | err e => rfl
    | ok next =>
      simp only
      split
      · rfl
      · cases enter cr (decodeToken part) next with
        | panic => rfl
        | err e => rfl
        | ok child => simp only [ih, wrapWalk_lim0]

theorem withPath_lim0 {α} (o : Opts) (r : Root) (path : Bytes) (act : Node → Node → Bytes → Outcome (Node × α)) :
    withPath (lim0 o) r path act = withPath o r path act := by
  unfold withPath
  split
  · rfl
  · exact walk_lim0 o _ _ _ _ _

theorem copySource_lim0 (o : Opts) (r : Root) (f : Bytes) : copySource (lim0 o) r f = copySource o r f := by
  unfold copySource
  rw [withPath_lim0, conGet_lim0]

theorem copyFirst_lim0 (o : Opts) (r : Root) (f : Bytes) : copyFirst (lim0 o) r f = copyFirst o r f := by
  unfold copyFirst; rw [copySource_lim0]

theorem destWalk_lim0 (o : Opts) (r : Root) (p : Bytes) : destWalk (lim0 o) r p = destWalk o r p := by
  unfold destWalk; rw [withPath_lim0]

theorem addWalk_lim0 (o : Opts) (r : Root) (p : Bytes) (v : Node) : addWalk (lim0 o) r p v = addWalk o r p v := by
  unfold addWalk; rw [withPath_lim0, conAdd_lim0]

theorem copySrc_lim0 (o : Opts) (r : Root) (f : Bytes) : copySrc (lim0 o) r f = copySrc o r f := by
  unfold copySrc; rw [copySource_lim0]

theorem srcVal_lim0 (o : Opts) (r : Root) (f : Bytes) : srcVal (lim0 o) r f = srcVal o r f := by
  unfold srcVal; rw [copySource_lim0]

theorem lim0_esc (o : Opts) : (lim0 o).esc = o.esc := rfl

/-- the size of a copy does not depend on the limit -/
theorem copySizeOf_lim0 (o : Opts) (r : Root) (op : Op) : copySizeOf (lim0 o) r op = copySizeOf o r op := by
  rw [copySizeOf_eq, copySizeOf_eq]
  cases op.frm with
  | none => rfl
  | some frm =>
    simp only [copyFirst_lim0, destWalk_lim0, srcVal_lim0, lim0_esc]

theorem opSize_lim0 (o : Opts) (r : Root) (op : Op) : opSize (lim0 o) r op = opSize o r op := by
  unfold opSize; rw [copySizeOf_lim0]

theorem ensure_lim0 (o : Opts) : ∀ (parts : List Bytes) (cr : Bool) (self con : Node),
    ensure (lim0 o) cr self con parts = ensure o cr self con parts
  | [], cr, self, con => by simp only [ensure]
  | [_], cr, self, con => by simp only [ensure]
  | part :: nxt :: rest, cr, self, con => by
    rw [ensure_cons2, ensure_cons2]
    simp only [ensureTarget, conGet_lim0]
    have e1 : ∀ con1 key self x, ensureAdd (lim0 o) con1 key self x = ensureAdd o con1 key self x := by
      intro con1 key self x
      cases x with
      | ok p => cases p; simp only [ensureAdd, conAdd_lim0]
      | err e => rfl
      | panic => rfl
    have e2 : ∀ con key self x, ensurePut (lim0 o) con key self x = ensurePut o con key self x := by
      intro con key self x
      cases x with
      | ok p => cases p; simp only [ensurePut, putChild_lim0]
      | err e => rfl
      | panic => rfl
    have hneg : (lim0 o).neg = o.neg := rfl
    simp only [e1, e2, hneg, ensure_lim0 o (nxt :: rest)]

theorem ensurePath_lim0 (o : Opts) (r : Root) (p : Bytes) : ensurePath (lim0 o) r p = ensurePath o r p := by
  unfold ensurePath
  split
  · rfl
  · rfl
  · rw [ensure_lim0]

theorem opAdd_lim0 (o : Opts) (r : Root) (op : Op) : opAdd (lim0 o) r op = opAdd o r op := by
  unfold opAdd
  have he : (lim0 o).ensure = o.ensure := rfl
  simp only [he, ensurePath_lim0, withPath_lim0, conAdd_lim0]

theorem opRemove_lim0 (o : Opts) (r : Root) (op : Op) : opRemove (lim0 o) r op = opRemove o r op := by
  unfold opRemove
  have he : (lim0 o).allow = o.allow := rfl
  simp only [he, withPath_lim0, conRemove_lim0]

theorem opReplace_lim0 (o : Opts) (r : Root) (op : Op) : opReplace (lim0 o) r op = opReplace o r op := by
  unfold opReplace
  simp only [withPath_lim0, conGet_lim0, conSet_lim0]

theorem opMove_lim0 (o : Opts) (r : Root) (op : Op) : opMove (lim0 o) r op = opMove o r op := by
  unfold opMove
  simp only [withPath_lim0, conGet_lim0, conRemove_lim0, conAdd_lim0, lim0_esc]

theorem opTest_lim0 (o : Opts) (r : Root) (op : Op) : opTest (lim0 o) r op = opTest o r op := by
  unfold opTest
  simp only [withPath_lim0, conGet_lim0, putChild_lim0]

/-- a successful `copy` with the limit is the same `copy` without it -/
theorem opCopy_lim0_of_ok {o : Opts} {r : Root} {acc : Int} {op : Op} {x : Root × Int}
    (h : opCopy o r acc op = .ok x) : opCopy (lim0 o) r acc op = .ok x := by
  rw [opCopy_eq] at h ⊢
  simp only [copyFirst_lim0, destWalk_lim0, copySrc_lim0, addWalk_lim0, lim0_esc]
  cases hf : op.frm with
  | none => rw [hf] at h; cases h
  | some frm =>
    rw [hf] at h
    simp only at h ⊢
    cases h1' : afterW r (copyFirst o r frm) with
    | none => rw [h1'] at h; exact absurd h (failOf_ne_ok _ _)
    | some r1 =>
      rw [h1'] at h
      simp only at h ⊢
      cases h2' : afterW r1 (destWalk o r1 op.path) with
      | none => rw [h2'] at h; exact absurd h (failOf_ne_ok _ _)
      | some r2 =>
        rw [h2'] at h
        simp only at h ⊢
        cases h3' : copySrc o r2 frm with
        | panic => rw [h3'] at h; cases h
        | err e => rw [h3'] at h; cases h
        | ok val =>
          rw [h3'] at h
          simp only at h ⊢
          split at h
          · cases h
          · rename_i hnil
            rw [if_neg hnil]
            split at h
            · cases h
            · have hl0 : ¬ ((lim0 o).limit > 0 ∧ acc + ((deepCopy o.esc val).2 : Int) > (lim0 o).limit) := by
                simp [lim0]
              rw [if_neg hl0]
              exact h

/-- a successful step with the limit is the same step without it -/
theorem applyOp_lim0_of_ok {o : Opts} {r : Root} {acc : Int} {op : Op} {x : Root × Int}
    (h : applyOp o r acc op = .ok x) : applyOp (lim0 o) r acc op = .ok x := by
  rw [applyOp_eq] at h ⊢
  simp only [opAdd_lim0, opRemove_lim0, opReplace_lim0, opMove_lim0, opTest_lim0]
  by_cases h1 : op.kind = ascii "add"
  · rw [if_pos h1] at h ⊢; exact h
  rw [if_neg h1] at h ⊢
  by_cases h2 : op.kind = ascii "remove"
  · rw [if_pos h2] at h ⊢; exact h
  rw [if_neg h2] at h ⊢
  by_cases h3 : op.kind = ascii "replace"
  · rw [if_pos h3] at h ⊢; exact h
  rw [if_neg h3] at h ⊢
  by_cases h4 : op.kind = ascii "move"
  · rw [if_pos h4] at h ⊢; exact h
  rw [if_neg h4] at h ⊢
  by_cases h5 : op.kind = ascii "test"
  · rw [if_pos h5] at h ⊢; exact h
  rw [if_neg h5] at h ⊢
  by_cases h6 : op.kind = ascii "copy"
  · rw [if_pos h6] at h ⊢; exact opCopy_lim0_of_ok h
  · rw [if_neg h6] at h; cases h

end Impl
end JP
