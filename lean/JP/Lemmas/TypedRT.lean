import JP.Props.C17typeddecNP
import JP.Lemmas.TextQuote
import JP.Lemmas.TypedLeaf
import JP.Lemmas.FloatNat

set_option linter.unusedSimpArgs false
set_option linter.unusedVariables false

/-!
# C17 — round trip of the typed codec, leaf kinds: the tree decoder on the encoder's tree gives the value back
-/

namespace JP.C17
open JP JP.Codec JP.Codec.Typed JP.Codec.TDec JP.Scanner

/-! ### `ParseUint (FormatUint n) = n`, `ParseInt (FormatInt n) = n` -/

theorem digitsVal_foldl : ∀ (s : Bytes) (acc : Nat), s.all isDigit = true →
    digitsVal acc s = some (s.foldl (fun a c => a * 10 + (c.toNat - 48)) acc)
  | [], acc, _ => rfl
  | c :: cs, acc, h => by
    simp only [List.all_cons, Bool.and_eq_true] at h
    simp only [digitsVal, h.1, if_true, List.foldl_cons]
    exact digitsVal_foldl cs _ h.2

theorem digitsVal_decimal (n : Nat) : digitsVal 0 (decimal n) = some n := by
  rw [digitsVal_foldl _ _ (decimal_digits n).1]
  have := JP.Codec.Float.digitsNat_decimal n
  simp only [JP.Codec.Float.digitsNat] at this
  rw [this]

theorem parseUint64_decimal (n : Nat) (h : n < 2 ^ 64) : parseUint64 (decimal n) = some n := by
  have hd := decimal_digits n
  have hne : (decimal n).isEmpty = false := by
    cases hh : decimal n with
    | nil => exact absurd hh hd.2
    | cons a b => rfl
  simp only [parseUint64, hne, Bool.false_eq_true, if_false, hd.1, Bool.not_true, digitsVal_decimal, h, if_true]

theorem decimal_cons (n : Nat) : ∃ c r, decimal n = c :: r ∧ isDigit c = true := by
  have hd := decimal_digits n
  cases hh : decimal n with
  | nil => exact absurd hh hd.2
  | cons a b =>
    rw [hh] at hd
    simp only [List.all_cons, Bool.and_eq_true] at hd
    exact ⟨a, b, rfl, hd.1.1⟩

theorem isDigit_ne (c : UInt8) (h : isDigit c = true) : c ≠ 45 ∧ c ≠ 43 := by
  constructor <;> (intro hc; subst hc; revert h; decide)

theorem parseInt64_fmtInt (n : Int) (hlo : -(2 ^ 63 : Int) ≤ n) (hhi : n < (2 ^ 63 : Int)) :
    parseInt64 (fmtInt n) = some n := by
  by_cases hneg : n < 0
  · have hu : parseUint64 (decimal n.natAbs) = some n.natAbs := parseUint64_decimal _ (by omega)
    have h1 : ¬ (n.natAbs > 2 ^ 63) := by omega
    have h2 : -((n.natAbs : Nat) : Int) = n := by omega
    simp only [fmtInt, hneg, if_true, parseInt64, hu, h1, if_false, h2]
  · obtain ⟨c, r, hcr, hc⟩ := decimal_cons n.natAbs
    obtain ⟨c45, c43⟩ := isDigit_ne c hc
    have hu : parseUint64 (c :: r) = some n.natAbs := by rw [← hcr]; exact parseUint64_decimal _ (by omega)
    have h1 : ¬ (n.natAbs ≥ 2 ^ 63) := by omega
    have h2 : ((n.natAbs : Nat) : Int) = n := by omega
    simp only [fmtInt, hneg, if_false, hcr, parseInt64, c45, c43, hu, h1, h2]

theorem fmtInt_head (n : Int) : ∃ c r, fmtInt n = c :: r ∧ (c = 45 ∨ isDigit c = true) := by
  by_cases hneg : n < 0
  · exact ⟨45, decimal n.natAbs, by simp only [fmtInt, hneg, if_true], .inl rfl⟩
  · obtain ⟨c, r, hcr, hc⟩ := decimal_cons n.natAbs
    exact ⟨c, r, by simp only [fmtInt, hneg, if_false, hcr], .inr hc⟩

theorem inRange_int64 (k : IntKind) (n : Int) (h : k.inRange n = true) : -(2 ^ 63 : Int) ≤ n ∧ n < (2 ^ 63 : Int) := by
  cases k <;> simp [IntKind.inRange, IntKind.bits] at h <;>
    (have h1 := of_decide_eq_true h.1; have h2 := of_decide_eq_true h.2; omega)

theorem inRange_uint64 (k : UintKind) (n : Nat) (h : k.inRange n = true) : n < 2 ^ 64 := by
  cases k <;> simp [UintKind.inRange, UintKind.bits] at h <;> (first | omega | (have h1 := of_decide_eq_true h; omega))

/-! ### the leaves of the tree decoder on the encoder's leaves -/

theorem tvalue_bool_rt (b : Bool) (cur : DV) :
    tvalue (.lit (if b then ascii "true" else ascii "false")) .bool cur = .ok (.bool b) := by
  cases b <;> rfl

theorem tvalue_int_rt (k : IntKind) (n : Int) (h : k.inRange n = true) (cur : DV) :
    tvalue (.lit (fmtInt n)) (.int k) cur = .ok (.int n) := by
  obtain ⟨c, r, hcr, hc⟩ := fmtInt_head n
  obtain ⟨hlo, hhi⟩ := inRange_int64 k n h
  have hp := parseInt64_fmtInt n hlo hhi
  rw [hcr] at hp ⊢
  exact typeddec_last_duplicate_wins_int_tree k c r n hc hp h cur

theorem tvalue_uint_rt (k : UintKind) (n : Nat) (h : k.inRange n = true) (cur : DV) :
    tvalue (.lit (decimal n)) (.uint k) cur = .ok (.uint n) := by
  obtain ⟨c, r, hcr, hc⟩ := decimal_cons n
  have hp := parseUint64_decimal n (inRange_uint64 k n h)
  rw [hcr] at hp ⊢
  obtain ⟨_, _, h3, h4, h5, h6⟩ := numHead_spec c (.inr hc)
  have hnd : ¬(c ≠ 45 ∧ (!isDigit c) = true) := by simp [hc]
  have htf : ¬(c = 116 ∨ c = 102) := fun h => h.elim h4 h5
  simp only [tvalue, tlit, h6, htf, h3, hnd, if_false, derefT, derefV, tNumber, hp, h, if_true, TR.map, rewrap]

theorem tvalue_string_rt (esc : Bool) (s : Bytes) (hs : isValidUtf8 s = true) (cur : DV) :
    tvalue (.str (quoteBody esc s)) .string cur = .ok (.str s) := by
  rw [typeddec_last_duplicate_wins_string_tree _ (VB_quoteBody esc s) cur, unquote_quoteBody esc s hs]

/-! ### the leaf class -/

/-- bool, the ten integer kinds, string -/
def rtLeafT : GoType → Bool
  | .bool => true
  | .int _ => true
  | .uint _ => true
  | .string => true
  | _ => false

/-- a string value is valid UTF-8 (nothing is replaced by U+FFFD) -/
def rtLeafV : GoVal → Bool
  | .str s => isValidUtf8 s
  | _ => true

theorem rt_leaf_tree (esc : Bool) (t : GoType) (v : GoVal) (c : Cst) (hl : rtLeafT t = true) (hv : v.hasType t = true)
    (hu : rtLeafV v = true) (hc : typedCst esc t v = some c) (cur : DV) :
    tvalue c t cur = .ok (match v with | .bool b => .bool b | .int n => .int n | .uint n => .uint n | .str s => .str s | _ => .nil)
      ∧ toGoVal t (tvalue c t cur).val = v := by
  cases t with
  | bool =>
    cases v with
    | bool b =>
      simp only [typedCst, cst, cstT, boolCst, litOrStr, Bool.false_eq_true, if_false, Option.some.injEq] at hc
      subst hc
      rw [tvalue_bool_rt]; exact ⟨rfl, rfl⟩
    | _ => simp [typedCst, cst, cstT, boolCst] at hc
  | int k =>
    cases v with
    | int n =>
      simp only [typedCst, cst, cstT, intCst, litOrStr, Bool.false_eq_true, if_false, Option.some.injEq] at hc
      subst hc
      rw [tvalue_int_rt k n (by simpa [GoVal.hasType] using hv)]; exact ⟨rfl, rfl⟩
    | _ => simp [typedCst, cst, cstT, intCst] at hc
  | uint k =>
    cases v with
    | uint n =>
      simp only [typedCst, cst, cstT, uintCst, litOrStr, Bool.false_eq_true, if_false, Option.some.injEq] at hc
      subst hc
      rw [tvalue_uint_rt k n (by simpa [GoVal.hasType] using hv)]; exact ⟨rfl, rfl⟩
    | _ => simp [typedCst, cst, cstT, uintCst] at hc
  | string =>
    cases v with
    | str s =>
      simp only [typedCst, cst, cstT, stringCst, Bool.false_eq_true, if_false, Option.some.injEq] at hc
      subst hc
      rw [tvalue_string_rt esc s (by simpa [rtLeafV] using hu)]; exact ⟨rfl, rfl⟩
    | _ => simp [typedCst, cst, cstT, stringCst] at hc
  | _ => simp [rtLeafT] at hl

theorem rt_leaf_side (t : GoType) (v : GoVal) (hl : rtLeafT t = true) (hv : v.hasType t = true) :
    t.wf = true ∧ decodable t = true ∧ v.depth = 0 := by
  cases t <;> first
    | (simp [rtLeafT] at hl; done)
    | (refine ⟨by simp [GoType.wf], by simp [decodable], ?_⟩
       cases v <;> first | (simp [GoVal.depth]; done) | (simp [GoVal.hasType, GoType.nilable] at hv; done))

end JP.C17
