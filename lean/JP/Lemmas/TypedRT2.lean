import JP.Lemmas.TypedRT
import JP.Lemmas.TypedDecAgree

set_option linter.unusedSimpArgs false
set_option linter.unusedVariables false

/-!
# C17 — round trip of the typed codec: slices and fixed arrays (nested at will) of the leaf kinds
-/

namespace JP.C17
open JP JP.Codec JP.Codec.Typed JP.Codec.TDec JP.Scanner

/-- leaf kinds, slices (other than `[]byte`) and fixed arrays of them, nested at will -/
def rtSeqT : GoType → Bool
  | .bool => true
  | .int _ => true
  | .uint _ => true
  | .string => true
  | .slice e => !e.isUint8 && rtSeqT e
  | .array _ e => rtSeqT e
  | _ => false

mutual
/-- every string in the value is valid UTF-8 -/
def rtSeqV : GoVal → Bool
  | .str s => isValidUtf8 s
  | .list xs => rtSeqVL xs
  | _ => true
def rtSeqVL : List GoVal → Bool
  | [] => true
  | x :: xs => rtSeqV x && rtSeqVL xs
end

theorem leaf_cstT_indep (esc : Bool) (f g : Bool → GoType → GoVal → Option Cst) (t : GoType) (v : GoVal)
    (hl : rtLeafT t = true) : cstT esc f false t v = cstT esc g false t v := by
  cases t <;> first | rfl | (simp [rtLeafT] at hl; done)

theorem encAll_cons_some {α : Type} (g : GoVal → Option α) (v : GoVal) (vs : List GoVal) (cs : List α)
    (h : encAll g (v :: vs) = some cs) : ∃ c cs', g v = some c ∧ encAll g vs = some cs' ∧ cs = c :: cs' := by
  simp only [encAll] at h
  cases hg : g v with
  | none => rw [hg] at h; cases h
  | some c =>
    rw [hg] at h
    cases hr : encAll g vs with
    | none => rw [hr] at h; cases h
    | some cs' =>
      rw [hr] at h
      simp only [Option.some.injEq] at h
      exact ⟨c, cs', rfl, rfl, h.symm⟩

theorem tarr_array_rt (e : GoType) (g : GoVal → Option Cst)
    (IH : ∀ v c, v.hasType e = true → rtSeqV v = true → g v = some c →
      ∃ d, tvalue c e (zeroDV e) = .ok d ∧ toGoVal e d = v) :
    ∀ (vs : List GoVal) (cs : List Cst) (pre : List DV), hasTypeAll e vs = true → rtSeqVL vs = true →
      encAll g vs = some cs →
      ∃ ds, tarr cs false e (pre ++ List.replicate vs.length (zeroDV e)) [] pre.length =
          .ok (pre ++ ds, [], pre.length + vs.length) ∧ toGoValL e ds = vs ∧ ds.length = vs.length
  | [], cs, pre, _, _, hc => by
    simp only [encAll, Option.some.injEq] at hc
    subst hc
    exact ⟨[], by simp [tarr], rfl, rfl⟩
  | v :: vs, cs, pre, ht, hu, hc => by
    obtain ⟨c, cs', hgv, hrest, rfl⟩ := encAll_cons_some g v vs cs hc
    simp only [hasTypeAll, Bool.and_eq_true] at ht
    simp only [rtSeqVL, Bool.and_eq_true] at hu
    obtain ⟨d, hd, hdv⟩ := IH v c ht.1 hu.1 hgv
    obtain ⟨ds, hds, hvs, hlen⟩ := tarr_array_rt e g IH vs cs' (pre ++ [d]) ht.2 hu.2 hrest
    refine ⟨d :: ds, ?_, by simp only [toGoValL, hdv, hvs], by simp [hlen]⟩
    rw [tarr_cons]
    simp only [Bool.false_eq_true, if_false]
    have hget : (pre ++ List.replicate (v :: vs).length (zeroDV e))[pre.length]? = some (zeroDV e) := by
      simp [List.replicate_succ]
    have hset : (pre ++ List.replicate (v :: vs).length (zeroDV e)).set pre.length d =
        (pre ++ [d]) ++ List.replicate vs.length (zeroDV e) := by
      simp [List.replicate_succ]
    simp only [telem, hget, hd, TR.map, hset]
    have hl : (pre ++ [d]).length = pre.length + 1 := by simp
    rw [hl] at hds
    rw [hds]
    have harith : pre.length + 1 + vs.length = pre.length + (vs.length + 1) := by omega
    simp only [List.append_assoc, List.singleton_append, List.length_cons, harith]

theorem tarr_slice_rt (e : GoType) (g : GoVal → Option Cst)
    (IH : ∀ v c, v.hasType e = true → rtSeqV v = true → g v = some c →
      ∃ d, tvalue c e (zeroDV e) = .ok d ∧ toGoVal e d = v) :
    ∀ (vs : List GoVal) (cs : List Cst) (pre spare : List DV), (∀ s ∈ spare, s = zeroDV e) →
      hasTypeAll e vs = true → rtSeqVL vs = true → encAll g vs = some cs →
      ∃ ds sp, tarr cs true e pre spare pre.length = .ok (pre ++ ds, sp, pre.length + vs.length) ∧
        toGoValL e ds = vs ∧ ds.length = vs.length
  | [], cs, pre, spare, _, _, _, hc => by
    simp only [encAll, Option.some.injEq] at hc
    subst hc
    exact ⟨[], spare, by simp [tarr], rfl, rfl⟩
  | v :: vs, cs, pre, spare, hz, ht, hu, hc => by
    obtain ⟨c, cs', hgv, hrest, rfl⟩ := encAll_cons_some g v vs cs hc
    simp only [hasTypeAll, Bool.and_eq_true] at ht
    simp only [rtSeqVL, Bool.and_eq_true] at hu
    obtain ⟨d, hd, hdv⟩ := IH v c ht.1 hu.1 hgv
    obtain ⟨sp', hgrow, hz'⟩ := growSlice_fresh e pre spare hz
    obtain ⟨ds, sp, hds, hvs, hlen⟩ := tarr_slice_rt e g IH vs cs' (pre ++ [d]) sp' hz' ht.2 hu.2 hrest
    refine ⟨d :: ds, sp, ?_, by simp only [toGoValL, hdv, hvs], by simp [hlen]⟩
    rw [tarr_cons]
    simp only [if_true, hgrow]
    have hget : (pre ++ [zeroDV e])[pre.length]? = some (zeroDV e) := by simp
    have hset : (pre ++ [zeroDV e]).set pre.length d = pre ++ [d] := by simp
    simp only [telem, hget, hd, TR.map, hset]
    have hl : (pre ++ [d]).length = pre.length + 1 := by simp
    rw [hl] at hds
    rw [hds]
    have harith : pre.length + 1 + vs.length = pre.length + (vs.length + 1) := by omega
    simp only [List.append_assoc, List.singleton_append, List.length_cons, harith]

theorem rt_seq_leaf (esc : Bool) (t : GoType) (fuel : Nat) (v : GoVal) (c : Cst) (hl : rtLeafT t = true)
    (hv : v.hasType t = true) (hu : rtSeqV v = true) (hc : cst esc fuel false t v = some c) :
    ∃ d, tvalue c t (zeroDV t) = .ok d ∧ toGoVal t d = v := by
  cases fuel with
  | zero => simp [cst] at hc
  | succ fuel =>
    have hc' : typedCst esc t v = some c := by
      rw [typedCst, cst, leaf_cstT_indep esc _ (cst esc fuel) t v hl]
      simpa only [cst] using hc
    have hu' : rtLeafV v = true := by
      cases v <;> first | rfl | (simpa [rtLeafV, rtSeqV] using hu)
    have h := rt_leaf_tree esc t v c hl hv hu' hc' (zeroDV t)
    refine ⟨_, h.1, ?_⟩
    have h2 := h.2
    rw [h.1] at h2
    exact h2

theorem rt_seq_tree (esc : Bool) : ∀ (t : GoType) (fuel : Nat) (v : GoVal) (c : Cst), rtSeqT t = true →
    v.hasType t = true → rtSeqV v = true → cst esc fuel false t v = some c →
    ∃ d, tvalue c t (zeroDV t) = .ok d ∧ toGoVal t d = v
  | .bool, fuel, v, c, _, hv, hu, hc => rt_seq_leaf esc .bool fuel v c rfl hv hu hc
  | .int k, fuel, v, c, _, hv, hu, hc => rt_seq_leaf esc (.int k) fuel v c rfl hv hu hc
  | .uint k, fuel, v, c, _, hv, hu, hc => rt_seq_leaf esc (.uint k) fuel v c rfl hv hu hc
  | .string, fuel, v, c, _, hv, hu, hc => rt_seq_leaf esc .string fuel v c rfl hv hu hc
  | .number, _, _, _, ht, _, _, _ => by simp [rtSeqT] at ht
  | .iface, _, _, _, ht, _, _, _ => by simp [rtSeqT] at ht
  | .ptr _, _, _, _, ht, _, _, _ => by simp [rtSeqT] at ht
  | .map _ _, _, _, _, ht, _, _, _ => by simp [rtSeqT] at ht
  | .struct _ _, _, _, _, ht, _, _, _ => by simp [rtSeqT] at ht
  | .slice e, fuel, v, c, ht, hv, hu, hc => by
    simp only [rtSeqT, Bool.and_eq_true, Bool.not_eq_true'] at ht
    cases fuel with
    | zero => simp [cst] at hc
    | succ fuel =>
      simp only [cst, cstT, ht.1, Bool.false_eq_true, if_false] at hc
      cases v with
      | nil =>
        simp only [sliceCst, Option.some.injEq] at hc
        subst hc
        exact ⟨.nil, by rfl, rfl⟩
      | list xs =>
        simp only [sliceCst, arrayCstBody] at hc
        cases henc : encAll (cst esc fuel false e) xs with
        | none => rw [henc] at hc; cases hc
        | some cs =>
          rw [henc] at hc
          simp only [Option.some.injEq] at hc
          subst hc
          simp only [GoVal.hasType, ht.1, Bool.not_false, Bool.true_and] at hv
          simp only [rtSeqV] at hu
          obtain ⟨ds, sp, hds, hvs, hlen⟩ := tarr_slice_rt e (cst esc fuel false e)
            (fun v c h1 h2 h3 => rt_seq_tree esc e fuel v c ht.2 h1 h2 h3) xs cs [] [] (by simp) hv hu henc
          simp only [List.length_nil, List.nil_append, Nat.zero_add] at hds
          refine ⟨finishSlice ds sp xs.length, ?_, ?_⟩
          · simp only [tvalue, derefT, zeroDV, derefV, sliceXs, sliceSpare, hds, rewrap]
          · by_cases h0 : xs.length = 0
            · have hx : xs = [] := List.eq_nil_of_length_eq_zero h0
              subst hx
              simp [finishSlice, toGoVal, ht.1, toGoValL]
            · have hnl : ¬ (xs.length < ds.length) := by omega
              simp only [finishSlice, h0, hnl, if_false, toGoVal, ht.1, Bool.false_eq_true, hvs]
      | _ => simp [sliceCst] at hc
  | .array n e, fuel, v, c, ht, hv, hu, hc => by
    simp only [rtSeqT] at ht
    cases fuel with
    | zero => simp [cst] at hc
    | succ fuel =>
      simp only [cst, cstT] at hc
      cases v with
      | list xs =>
        simp only [GoVal.hasType, Bool.and_eq_true, beq_iff_eq] at hv
        simp only [arrayCst, hv.1, if_true, arrayCstBody] at hc
        cases henc : encAll (cst esc fuel false e) xs with
        | none => rw [henc] at hc; cases hc
        | some cs =>
          rw [henc] at hc
          simp only [Option.some.injEq] at hc
          subst hc
          simp only [rtSeqV] at hu
          obtain ⟨ds, hds, hvs, hlen⟩ := tarr_array_rt e (cst esc fuel false e)
            (fun v c h1 h2 h3 => rt_seq_tree esc e fuel v c ht h1 h2 h3) xs cs [] hv.2 hu henc
          simp only [List.length_nil, List.nil_append, Nat.zero_add, hv.1] at hds
          refine ⟨finishArray e ds xs.length, ?_, ?_⟩
          · simp only [tvalue, derefT, zeroDV, derefV, arrXs, hds, rewrap, hv.1]
          · have hnl : ¬ (xs.length < ds.length) := by omega
            simp only [finishArray, hnl, if_false, toGoVal, hvs]
      | _ => simp [arrayCst] at hc

theorem rt_seq_side : ∀ (t : GoType), rtSeqT t = true → t.wf = true ∧ decodable t = true
  | .bool, _ => ⟨by simp [GoType.wf], by simp [decodable]⟩
  | .int _, _ => ⟨by simp [GoType.wf], by simp [decodable]⟩
  | .uint _, _ => ⟨by simp [GoType.wf], by simp [decodable]⟩
  | .string, _ => ⟨by simp [GoType.wf], by simp [decodable]⟩
  | .number, ht => by simp [rtSeqT] at ht
  | .iface, ht => by simp [rtSeqT] at ht
  | .ptr _, ht => by simp [rtSeqT] at ht
  | .map _ _, ht => by simp [rtSeqT] at ht
  | .struct _ _, ht => by simp [rtSeqT] at ht
  | .slice e, ht => by
    simp only [rtSeqT, Bool.and_eq_true] at ht
    have := rt_seq_side e ht.2
    exact ⟨by simpa [GoType.wf] using this.1, by simpa [decodable] using this.2⟩
  | .array _ e, ht => by
    simp only [rtSeqT] at ht
    have := rt_seq_side e ht
    exact ⟨by simpa [GoType.wf] using this.1, by simpa [decodable] using this.2⟩

end JP.C17
