import JP.Codec.Float

/-!
# Bit patterns and fields
-/

namespace JP
namespace Codec
namespace Float

theorem toBits_ofBits (bits p : Nat) (h : p < 2 ^ totalBits bits) :
    (FP.ofBits bits p).toBits bits = p := by
  unfold FP.toBits FP.ofBits totalBits mantBits expBits at *
  by_cases hb : bits = 32
  · simp only [hb, if_true] at *
    by_cases hs : p / 2 ^ (32 - 1) % 2 = 1
    · simp only [hs, decide_true, if_true]
      omega
    · simp only [hs, decide_false, Bool.false_eq_true, if_false]
      omega
  · simp only [hb, if_false] at *
    by_cases hs : p / 2 ^ (64 - 1) % 2 = 1
    · simp only [hs, decide_true, if_true]
      omega
    · simp only [hs, decide_false, Bool.false_eq_true, if_false]
      omega

theorem toBits_lt (bits : Nat) (x : FP) (h : x.wf bits = true) : x.toBits bits < 2 ^ totalBits bits := by
  unfold FP.wf at h
  simp only [Bool.and_eq_true, decide_eq_true_eq] at h
  unfold FP.toBits totalBits mantBits expBits at *
  by_cases hb : bits = 32
  · simp only [hb, if_true] at *
    split <;> omega
  · simp only [hb, if_false] at *
    split <;> omega

theorem ofBits_toBits (bits : Nat) (x : FP) (h : x.wf bits = true) :
    FP.ofBits bits (x.toBits bits) = x := by
  unfold FP.wf at h
  simp only [Bool.and_eq_true, decide_eq_true_eq] at h
  obtain ⟨s, e, m⟩ := x
  unfold FP.toBits FP.ofBits totalBits mantBits expBits at *
  by_cases hb : bits = 32
  · simp only [hb, if_true] at *
    cases s
    · simp only [Bool.false_eq_true, if_false, FP.mk.injEq, decide_eq_false_iff_not]
      refine ⟨by omega, by omega, by omega⟩
    · simp only [if_true, FP.mk.injEq, decide_eq_true_eq]
      refine ⟨by omega, by omega, by omega⟩
  · simp only [hb, if_false] at *
    cases s
    · simp only [Bool.false_eq_true, if_false, FP.mk.injEq, decide_eq_false_iff_not]
      refine ⟨by omega, by omega, by omega⟩
    · simp only [if_true, FP.mk.injEq, decide_eq_true_eq]
      refine ⟨by omega, by omega, by omega⟩

theorem ofBits_wf (bits p : Nat) : (FP.ofBits bits p).wf bits = true := by
  unfold FP.wf FP.ofBits
  simp only [Bool.and_eq_true, decide_eq_true_eq]
  exact ⟨Nat.mod_lt _ (Nat.pos_of_ne_zero (by simp)), Nat.mod_lt _ (Nat.pos_of_ne_zero (by simp))⟩

end Float
end Codec
end JP
