import JP.Lemmas.ScanStep

/-!
# The reference parser as a recogniser (only the rest of the input is kept)

Equations free of auxiliary matchers, convenient for the simulation proof.
-/

namespace JP
namespace Scanner

def rV (f d : Nat) (bs : Bytes) : Option Bytes := (parseValue f d bs).map Prod.snd
def rE (f d : Nat) (bs : Bytes) : Option Bytes := (parseElems f d bs).map Prod.snd
def rM (f d : Nat) (bs : Bytes) : Option Bytes := (parseMembers f d bs).map Prod.snd
def rS (bs : Bytes) : Option Bytes := (parseStrBody bs).map Prod.snd
def rN (bs : Bytes) : Option Bytes := (parseNumber bs).map Prod.snd
def rL (w bs : Bytes) : Option Bytes := (parseLit w bs).map Prod.snd

theorem head_ne_of (r : Bytes) (k : UInt8) (h : ∀ r', r = k :: r' → False) : ¬ r.head? = some k := by
  intro h'
  cases r with
  | nil => simp at h'
  | cons a r => simp at h'; exact h r (by rw [h'])

theorem eq_cons_of_head {r : Bytes} {k : UInt8} (h : r.head? = some k) : r = k :: r.tail := by
  cases r with
  | nil => simp at h
  | cons a r => simp at h; simp [h]

theorem head_cons_ne {r : Bytes} {k c : UInt8} {cs : Bytes} (h : ¬ r.head? = some k) (hr : r = c :: cs) :
    c ≠ k := by
  intro e; apply h; rw [hr, e]; rfl

theorem rV_zero (d : Nat) (bs : Bytes) : rV 0 d bs = none := by simp [rV, parseValue]
theorem rE_zero (d : Nat) (bs : Bytes) : rE 0 d bs = none := by simp [rE, parseElems]
theorem rM_zero (d : Nat) (bs : Bytes) : rM 0 d bs = none := by simp [rM, parseMembers]
theorem rV_nil (f d : Nat) : rV (f+1) d [] = none := by simp [rV, parseValue]

theorem rV_cons (f d : Nat) (c : UInt8) (cs : Bytes) : rV (f+1) d (c :: cs) =
    if c = 123 then
      if d + 1 > maxDepth then none
      else if (skipWs cs).head? = some 125 then some (skipWs cs).tail
      else rM f (d+1) (skipWs cs)
    else if c = 91 then
      if d + 1 > maxDepth then none
      else if (skipWs cs).head? = some 93 then some (skipWs cs).tail
      else rE f (d+1) (skipWs cs)
    else if c = 34 then rS cs
    else if c = 116 then rL (ascii "true") (c :: cs)
    else if c = 102 then rL (ascii "false") (c :: cs)
    else if c = 110 then rL (ascii "null") (c :: cs)
    else rN (c :: cs) := by
  simp only [rV, parseValue]
  by_cases h1 : c = 123
  · simp only [h1, if_true]
    by_cases hd : d + 1 > maxDepth
    · simp only [hd, if_true, Option.map_none]
    · simp only [hd, if_false]
      split
      · rename_i h; simp [h]
      · rename_i h
        simp only [head_ne_of _ _ h, if_false, rM, Option.map_map]
        rfl
  · simp only [h1, if_false]
    by_cases h2 : c = 91
    · simp only [h2, if_true]
      by_cases hd : d + 1 > maxDepth
      · simp only [hd, if_true, Option.map_none]
      · simp only [hd, if_false]
        split
        · rename_i h; simp [h]
        · rename_i h
          simp only [head_ne_of _ _ h, if_false, rE, Option.map_map]
          rfl
    · simp only [h2, if_false]
      by_cases h3 : c = 34
      · simp only [h3, if_true, rS, Option.map_map]; rfl
      · simp only [h3, if_false]
        by_cases h4 : c = 116
        · simp only [h4, if_true, rL]
        · simp only [h4, if_false]
          by_cases h5 : c = 102
          · simp only [h5, if_true, rL]
          · simp only [h5, if_false]
            by_cases h6 : c = 110
            · simp only [h6, if_true, rL]
            · simp only [h6, if_false, rN, Option.map_map]; rfl

theorem rE_succ (f d : Nat) (bs : Bytes) : rE (f+1) d bs =
    match rV f d bs with
    | none => none
    | some r =>
      if (skipWs r).head? = some 93 then some (skipWs r).tail
      else if (skipWs r).head? = some 44 then rE f d (skipWs (skipWs r).tail)
      else none := by
  simp only [rE, rV, parseElems]
  cases h : parseValue f d bs with
  | none => simp
  | some p =>
    obtain ⟨x, r⟩ := p
    simp only [Option.map_some]
    split
    · rename_i h; simp [h]
    · rename_i h
      have : ¬ (skipWs r).head? = some 93 := by rw [h]; simp
      simp only [this, if_false, h, List.head?_cons, List.tail_cons, if_true, Option.map_map]
      rfl
    · rename_i h1 h2
      simp [head_ne_of _ _ h1, head_ne_of _ _ h2]

theorem rM_succ (f d : Nat) (bs : Bytes) : rM (f+1) d bs =
    if bs.head? = some 34 then
      match rS bs.tail with
      | none => none
      | some r =>
        if (skipWs r).head? = some 58 then
          match rV f d (skipWs (skipWs r).tail) with
          | none => none
          | some r2 =>
            if (skipWs r2).head? = some 125 then some (skipWs r2).tail
            else if (skipWs r2).head? = some 44 then rM f d (skipWs (skipWs r2).tail)
            else none
        else none
    else none := by
  simp only [rM, rS, rV, parseMembers]
  split
  · rename_i cs
    simp only [List.head?_cons, if_true, List.tail_cons]
    cases hk : parseStrBody cs with
    | none => simp
    | some p =>
      obtain ⟨k, r⟩ := p
      simp only [Option.map_some]
      split
      · rename_i r1 h58
        simp only [h58, List.head?_cons, if_true, List.tail_cons]
        cases hv : parseValue f d (skipWs r1) with
        | none => simp
        | some q =>
          obtain ⟨v, r2⟩ := q
          simp only [Option.map_some]
          split
          · rename_i h; simp [h]
          · rename_i h
            have : ¬ (skipWs r2).head? = some 125 := by rw [h]; simp
            simp only [this, if_false, h, List.head?_cons, List.tail_cons, if_true, Option.map_map]
            rfl
          · rename_i h1 h2
            simp [head_ne_of _ _ h1, head_ne_of _ _ h2]
      · rename_i h
        simp [head_ne_of _ _ h]
  · rename_i h
    simp [head_ne_of _ _ h]

theorem rL_eq (w bs : Bytes) : rL w bs = if isPrefix w bs then some (bs.drop w.length) else none := by
  simp only [rL, parseLit]; split <;> simp

/-- the shape of all simulation statements: `o` is what the recogniser returns on an input of
length `len`, `lhs` the validity of the scan of that input from the configuration of interest -/
def SimRes (o : Option Bytes) (len : Nat) (lhs : Bool) (stk : List Nat) : Prop :=
  match o with
  | some rest => rest.length < len ∧ lhs = validFrom (ev stk) rest
  | none => lhs = false

theorem simRes_none {len : Nat} {lhs : Bool} {stk : List Nat} :
    SimRes none len lhs stk ↔ lhs = false := Iff.rfl
theorem simRes_some {r : Bytes} {len : Nat} {lhs : Bool} {stk : List Nat} :
    SimRes (some r) len lhs stk ↔ (r.length < len ∧ lhs = validFrom (ev stk) r) := Iff.rfl

theorem SimRes.weaken {o : Option Bytes} {len len' : Nat} {lhs lhs' : Bool} {stk : List Nat}
    (h : SimRes o len lhs stk) (hlen : len ≤ len') (hl : lhs' = lhs) : SimRes o len' lhs' stk := by
  cases o with
  | none => exact hl.trans h
  | some r => exact ⟨Nat.lt_of_lt_of_le h.1 hlen, hl.trans h.2⟩

/-- a simulation statement on a parser yields the statement on its recogniser -/
theorem simRes_of_parser {α : Type} (o : Option (α × Bytes)) (len : Nat) (lhs : Bool) (stk : List Nat)
    (h : match o with | some (_, r) => r.length < len ∧ lhs = validFrom (ev stk) r | none => lhs = false) :
    SimRes (o.map Prod.snd) len lhs stk := by
  cases o with
  | none => exact h
  | some p => obtain ⟨a, r⟩ := p; exact h

end Scanner
end JP
