import JP.Lemmas.TransduceTrace
import JP.Lemmas.ScanNum
import JP.Lemmas.ScanStr

/-!
# Token traces of strings, literal names and numbers
-/

namespace JP
namespace Scanner

/-- bytes scanned with `scanContinue` -/
def cont (l : Bytes) : List Tok := l.map (·, scanContinue)

@[simp] theorem cont_nil : cont [] = [] := rfl
@[simp] theorem cont_cons (c : UInt8) (l : Bytes) : cont (c :: l) = (c, scanContinue) :: cont l := rfl
@[simp] theorem cont_append (a b : Bytes) : cont (a ++ b) = cont a ++ cont b := by simp [cont]

/-- a literal: `scanBeginLiteral` on its first byte, `scanContinue` on the others -/
def litToks : Bytes → List Tok
  | [] => []
  | c :: l => (c, scanBeginLiteral) :: cont l

/-- a string with body `b` -/
def strToks (b : Bytes) : List Tok := (34, scanBeginLiteral) :: (cont b ++ [(34, scanContinue)])

/-! ### strings -/

theorem ftr_strBody (stk : List Nat) (cs : Bytes) : ∀ (b r : Bytes), parseStrBody cs = some (b, r) →
    ftr (mk .stateInString stk) cs = cont b ++ (34, scanContinue) :: ftr (ev stk) r := by
  have hbs : step (mk .stateInString stk) 92 = (mk .stateInStringEsc stk, scanContinue) := by
    rw [step_instr]; simp
  have hu : step (mk .stateInStringEsc stk) 117 = (mk .stateInStringEscU stk, scanContinue) := by
    rw [step_esc]; simp
  fun_induction parseStrBody cs <;> intro b r h
  all_goals try (simp at h; done)
  · -- closing quote
    rename_i cs
    simp only [Option.some.injEq, Prod.mk.injEq] at h
    obtain ⟨rfl, rfl⟩ := h
    have : step (mk .stateInString stk) 34 = (ev stk, scanContinue) := by rw [step_instr]; simp
    rw [ftr_step this (by decide) (by decide)]; rfl
  · -- simple escape
    rename_i e cs' he _ ih
    cases hp : parseStrBody cs' with
    | none => rw [hp] at h; simp at h
    | some q =>
      obtain ⟨b', r'⟩ := q
      rw [hp] at h
      simp only [Option.map_some, Option.some.injEq, Prod.mk.injEq] at h
      obtain ⟨rfl, rfl⟩ := h
      have : step (mk .stateInStringEsc stk) e = (mk .stateInString stk, scanContinue) := by
        rw [step_esc]; simp only [he, if_true]
      rw [ftr_step hbs (by decide) (by decide), ftr_step this (by decide) (by decide), ih b' r' hp]
      rfl
  · -- \uXXXX
    rename_i h1 h2 h3 h4 cs'' hh _ _ ih
    cases hp : parseStrBody cs'' with
    | none => rw [hp] at h; simp at h
    | some q =>
      obtain ⟨b', r'⟩ := q
      rw [hp] at h
      simp only [Option.map_some, Option.some.injEq, Prod.mk.injEq] at h
      obtain ⟨rfl, rfl⟩ := h
      simp only [Bool.and_eq_true] at hh
      obtain ⟨⟨⟨x1, x2⟩, x3⟩, x4⟩ := hh
      have e1 : step (mk .stateInStringEscU stk) h1 = (mk .stateInStringEscU1 stk, scanContinue) := by
        show hexStep _ _ _ = _; rw [hexStep_mk]; simp [x1]
      have e2 : step (mk .stateInStringEscU1 stk) h2 = (mk .stateInStringEscU12 stk, scanContinue) := by
        show hexStep _ _ _ = _; rw [hexStep_mk]; simp [x2]
      have e3 : step (mk .stateInStringEscU12 stk) h3 = (mk .stateInStringEscU123 stk, scanContinue) := by
        show hexStep _ _ _ = _; rw [hexStep_mk]; simp [x3]
      have e4 : step (mk .stateInStringEscU123 stk) h4 = (mk .stateInString stk, scanContinue) := by
        show hexStep _ _ _ = _; rw [hexStep_mk]; simp [x4]
      rw [ftr_step hbs (by decide) (by decide), ftr_step hu (by decide) (by decide),
        ftr_step e1 (by decide) (by decide), ftr_step e2 (by decide) (by decide),
        ftr_step e3 (by decide) (by decide), ftr_step e4 (by decide) (by decide), ih b' r' hp]
      rfl
  · -- ordinary byte
    rename_i c cs h34 h92 hlt ih
    cases hp : parseStrBody cs with
    | none => rw [hp] at h; simp at h
    | some q =>
      obtain ⟨b', r'⟩ := q
      rw [hp] at h
      simp only [Option.map_some, Option.some.injEq, Prod.mk.injEq] at h
      obtain ⟨rfl, rfl⟩ := h
      have : step (mk .stateInString stk) c = (mk .stateInString stk, scanContinue) := by
        rw [step_instr]; simp only [h34, h92, hlt, if_false]
      rw [ftr_step this (by decide) (by decide), ih b' r' hp]
      rfl

/-- a whole string, from "begin value" or "begin string" -/
theorem ftr_string {s : Scan} (stk : List Nat) (hs : step s 34 = (mk .stateInString stk, scanBeginLiteral))
    (cs b r : Bytes) (h : parseStrBody cs = some (b, r)) :
    ftr s (34 :: cs) = strToks b ++ ftr (ev stk) r := by
  rw [ftr_step hs (by decide) (by decide), ftr_strBody stk cs b r h]
  simp [strToks]

/-! ### literal names -/

theorem ftr_true (stk : List Nat) (rest : Bytes) :
    ftr (bv stk) (ascii "true" ++ rest) = litToks (ascii "true") ++ ftr (ev stk) rest := by
  have e1 : step (mk .stateT stk) 114 = (mk .stateTr stk, scanContinue) := by
    show expect _ _ _ _ = _; rw [expect_mk]; simp
  have e2 : step (mk .stateTr stk) 117 = (mk .stateTru stk, scanContinue) := by
    show expect _ _ _ _ = _; rw [expect_mk]; simp
  have e3 : step (mk .stateTru stk) 101 = (ev stk, scanContinue) := by
    show expect _ _ _ _ = _; rw [expect_mk]; simp
  show ftr (bv stk) (116 :: 114 :: 117 :: 101 :: rest) = _
  rw [ftr_step (step_bv_t stk) (by decide) (by decide), ftr_step e1 (by decide) (by decide),
    ftr_step e2 (by decide) (by decide), ftr_step e3 (by decide) (by decide)]
  rfl

theorem ftr_false (stk : List Nat) (rest : Bytes) :
    ftr (bv stk) (ascii "false" ++ rest) = litToks (ascii "false") ++ ftr (ev stk) rest := by
  have e1 : step (mk .stateF stk) 97 = (mk .stateFa stk, scanContinue) := by
    show expect _ _ _ _ = _; rw [expect_mk]; simp
  have e2 : step (mk .stateFa stk) 108 = (mk .stateFal stk, scanContinue) := by
    show expect _ _ _ _ = _; rw [expect_mk]; simp
  have e3 : step (mk .stateFal stk) 115 = (mk .stateFals stk, scanContinue) := by
    show expect _ _ _ _ = _; rw [expect_mk]; simp
  have e4 : step (mk .stateFals stk) 101 = (ev stk, scanContinue) := by
    show expect _ _ _ _ = _; rw [expect_mk]; simp
  show ftr (bv stk) (102 :: 97 :: 108 :: 115 :: 101 :: rest) = _
  rw [ftr_step (step_bv_f stk) (by decide) (by decide), ftr_step e1 (by decide) (by decide),
    ftr_step e2 (by decide) (by decide), ftr_step e3 (by decide) (by decide),
    ftr_step e4 (by decide) (by decide)]
  rfl

theorem ftr_null (stk : List Nat) (rest : Bytes) :
    ftr (bv stk) (ascii "null" ++ rest) = litToks (ascii "null") ++ ftr (ev stk) rest := by
  have e1 : step (mk .stateN stk) 117 = (mk .stateNu stk, scanContinue) := by
    show expect _ _ _ _ = _; rw [expect_mk]; simp
  have e2 : step (mk .stateNu stk) 108 = (mk .stateNul stk, scanContinue) := by
    show expect _ _ _ _ = _; rw [expect_mk]; simp
  have e3 : step (mk .stateNul stk) 108 = (ev stk, scanContinue) := by
    show expect _ _ _ _ = _; rw [expect_mk]; simp
  show ftr (bv stk) (110 :: 117 :: 108 :: 108 :: rest) = _
  rw [ftr_step (step_bv_n stk) (by decide) (by decide), ftr_step e1 (by decide) (by decide),
    ftr_step e2 (by decide) (by decide), ftr_step e3 (by decide) (by decide)]
  rfl

/-! ### numbers -/

theorem ftr_digits {s : Scan} (h : ∀ c, isDigit c = true → step s c = (s, scanContinue)) (r : Bytes) :
    ftr s r = cont (takeDigits r).1 ++ ftr s (takeDigits r).2 := by
  induction r with
  | nil => rfl
  | cons c cs ih =>
    rw [takeDigits_cons]
    split
    · rename_i hc
      rw [ftr_step (h c hc) (by decide) (by decide), ih]; rfl
    · rfl

theorem ftr_e0_end (stk : List Nat) (r : Bytes) (h : ∀ c cs, r = c :: cs → isDigit c = false) :
    ftr (mk .stateE0 stk) r = ftr (ev stk) r :=
  ftr_congr r (fun c cs hr => by rw [step_e0]; simp [h c cs hr])

theorem ftr_esign (stk : List Nat) (r : Bytes) (hd : (takeDigits r).1.isEmpty = false) :
    ftr (mk .stateESign stk) r = cont (takeDigits r).1 ++ ftr (ev stk) (takeDigits r).2 := by
  cases r with
  | nil => simp [takeDigits_nil] at hd
  | cons c cs =>
    rw [takeDigits_isEmpty_cons] at hd
    have hc : isDigit c = true := by simpa using hd
    have hs : step (mk .stateESign stk) c = (mk .stateE0 stk, scanContinue) := by
      rw [step_esign]; simp [hc]
    rw [ftr_step hs (by decide) (by decide), takeDigits_cons]
    simp only [hc, if_true]
    rw [ftr_digits (s := mk .stateE0 stk) (fun c hc => by rw [step_e0]; simp [hc]),
      ftr_e0_end stk _ (takeDigits_head cs)]
    rfl

theorem ftr_e (stk : List Nat) (r : Bytes) :
    ftr (mk .stateE stk) r = cont (stripESign r).1 ++ ftr (mk .stateESign stk) (stripESign r).2 := by
  cases r with
  | nil => rfl
  | cons c cs =>
    rw [stripESign_cons]
    by_cases h43 : c = 43
    · subst h43
      have hs : step (mk .stateE stk) 43 = (mk .stateESign stk, scanContinue) := by rw [step_e]; simp
      rw [ftr_step hs (by decide) (by decide)]; rfl
    · by_cases h45 : c = 45
      · subst h45
        have hs : step (mk .stateE stk) 45 = (mk .stateESign stk, scanContinue) := by rw [step_e]; simp
        rw [ftr_step hs (by decide) (by decide)]; rfl
      · simp only [h43, h45, if_false, cont_nil, List.nil_append]
        apply ftr_congr
        intro c' cs' hh
        simp only [List.cons.injEq] at hh
        obtain ⟨rfl, _⟩ := hh
        rw [step_e]; simp [h43, h45]

/-- the configuration behaves like the end of the integer or fraction part: an exponent may
follow, anything else ends the number -/
def ExpEnd (X : Scan) (stk : List Nat) (r2 : Bytes) : Prop := ∀ c cs, r2 = c :: cs →
  step X c = if c = 101 ∨ c = 69 then (mk .stateE stk, scanContinue) else step (ev stk) c

theorem ftr_exp (X : Scan) (stk : List Nat) (r2 ep r3 : Bytes) (hX : ExpEnd X stk r2)
    (hp : pExp r2 = some (ep, r3)) : ftr X r2 = cont ep ++ ftr (ev stk) r3 := by
  cases r2 with
  | nil =>
    simp only [pExp, Option.some.injEq, Prod.mk.injEq] at hp
    obtain ⟨rfl, rfl⟩ := hp
    rfl
  | cons e r =>
    simp only [pExp] at hp
    by_cases he : e = 101 ∨ e = 69
    · simp only [he, if_true] at hp
      by_cases hd : (takeDigits (stripESign r).2).1.isEmpty = true
      · simp [hd] at hp
      · simp only [hd, Bool.false_eq_true, if_false, Option.some.injEq, Prod.mk.injEq] at hp
        obtain ⟨rfl, rfl⟩ := hp
        have hs : step X e = (mk .stateE stk, scanContinue) := by rw [hX e r rfl]; simp [he]
        rw [ftr_step hs (by decide) (by decide), ftr_e, ftr_esign stk _ (by simpa using hd)]
        simp
    · simp only [he, if_false, Option.some.injEq, Prod.mk.injEq] at hp
      obtain ⟨rfl, rfl⟩ := hp
      simp only [cont_nil, List.nil_append]
      apply ftr_congr
      intro c' cs' hh
      simp only [List.cons.injEq] at hh
      obtain ⟨rfl, _⟩ := hh
      rw [hX e r rfl]; simp [he]

theorem ftr_dot (stk : List Nat) (r ep r3 : Bytes) (hd : (takeDigits r).1.isEmpty = false)
    (hp : pExp (takeDigits r).2 = some (ep, r3)) :
    ftr (mk .stateDot stk) r = cont (takeDigits r).1 ++ (cont ep ++ ftr (ev stk) r3) := by
  cases r with
  | nil => simp [takeDigits_nil] at hd
  | cons c cs =>
    rw [takeDigits_isEmpty_cons] at hd
    have hc : isDigit c = true := by simpa using hd
    have hs : step (mk .stateDot stk) c = (mk .stateDot0 stk, scanContinue) := by
      rw [step_dot]; simp [hc]
    rw [takeDigits_cons] at hp ⊢
    simp only [hc, if_true] at hp ⊢
    rw [ftr_step hs (by decide) (by decide),
      ftr_digits (s := mk .stateDot0 stk) (fun c hc => by rw [step_dot0]; simp [hc]),
      ftr_exp (mk .stateDot0 stk) stk _ ep r3 ?_ hp]
    · rfl
    · intro c' cs' hh
      rw [step_dot0]
      simp [takeDigits_head cs c' cs' hh]

theorem ftr_frac (stk : List Nat) (r1 fp r2 ep r3 : Bytes) (hf : pFrac r1 = some (fp, r2))
    (he : pExp r2 = some (ep, r3)) :
    ftr (mk .state0 stk) r1 = cont fp ++ (cont ep ++ ftr (ev stk) r3) := by
  cases r1 with
  | nil =>
    simp only [pFrac, Option.some.injEq, Prod.mk.injEq] at hf
    obtain ⟨rfl, rfl⟩ := hf
    rw [ftr_exp (mk .state0 stk) stk [] ep r3 (by intro c cs h; cases h) he]; rfl
  | cons c r =>
    rw [pFrac_cons] at hf
    by_cases hc : c = 46
    · subst hc
      simp only [if_true] at hf
      by_cases hd : (takeDigits r).1.isEmpty = true
      · simp [hd] at hf
      · simp only [hd, Bool.false_eq_true, if_false, Option.some.injEq, Prod.mk.injEq] at hf
        obtain ⟨rfl, rfl⟩ := hf
        have hs : step (mk .state0 stk) 46 = (mk .stateDot stk, scanContinue) := by rw [step_0]; simp
        rw [ftr_step hs (by decide) (by decide), ftr_dot stk r ep r3 (by simpa using hd) he]
        rfl
    · simp only [hc, if_false, Option.some.injEq, Prod.mk.injEq] at hf
      obtain ⟨rfl, rfl⟩ := hf
      rw [ftr_exp (mk .state0 stk) stk (c :: r) ep r3 ?_ he]; rfl
      intro c' cs' hh
      simp only [List.cons.injEq] at hh
      obtain ⟨rfl, _⟩ := hh
      rw [step_0]; simp [hc]

theorem ftr_int (s : Scan) (stk : List Nat) (op : Nat) (hop1 : op ≠ scanError) (hop2 : op ≠ scanSkipSpace)
    (h0 : step s 48 = (mk .state0 stk, op))
    (h1 : ∀ c : UInt8, 49 ≤ c.toNat ∧ c.toNat ≤ 57 → step s c = (mk .state1 stk, op))
    (r0 ip r1 : Bytes) (hp : pInt r0 = some (ip, r1)) :
    ∃ c ip', ip = c :: ip' ∧ ftr s r0 = (c, op) :: (cont ip' ++ ftr (mk .state0 stk) r1) := by
  cases r0 with
  | nil => simp [pInt] at hp
  | cons c r =>
    rw [pInt_cons] at hp
    by_cases h48 : c = 48
    · subst h48
      simp only [if_true, Option.some.injEq, Prod.mk.injEq] at hp
      obtain ⟨rfl, rfl⟩ := hp
      exact ⟨48, [], rfl, by rw [ftr_step h0 hop1 hop2]; rfl⟩
    · simp only [h48, if_false] at hp
      by_cases hd : isDigit c = true
      · simp only [hd, if_true, Option.some.injEq, Prod.mk.injEq] at hp
        obtain ⟨rfl, rfl⟩ := hp
        have h19 : 49 ≤ c.toNat ∧ c.toNat ≤ 57 := by u8_omega
        refine ⟨c, _, rfl, ?_⟩
        rw [ftr_step (h1 c h19) hop1 hop2,
          ftr_digits (s := mk .state1 stk) (fun c hc => by rw [step_1]; simp [hc])]
        congr 2
        apply ftr_congr
        intro c' cs' hh
        rw [step_1]; simp [takeDigits_head r c' cs' hh]
      · simp [hd] at hp

theorem numHead_aux (c : UInt8) (hc : 49 ≤ c.toNat ∧ c.toNat ≤ 57) :
    c ≠ 123 ∧ c ≠ 91 ∧ c ≠ 34 ∧ c ≠ 116 ∧ c ≠ 102 ∧ c ≠ 110 ∧ c ≠ 45 := by
  refine ⟨?_, ?_, ?_, ?_, ?_, ?_, ?_⟩ <;> (rintro rfl; simp at hc)

theorem ftr_number (stk : List Nat) (bs l rest : Bytes) (hh : NumHead bs)
    (hp : parseNumber bs = some (l, rest)) :
    ftr (bv stk) bs = litToks l ++ ftr (ev stk) rest := by
  rw [parseNumber_eq] at hp
  cases hpi : pInt (stripSign bs).2 with
  | none => rw [hpi] at hp; simp at hp
  | some p1 =>
    obtain ⟨ip, r1⟩ := p1
    rw [hpi] at hp
    simp only at hp
    cases hpf : pFrac r1 with
    | none => rw [hpf] at hp; simp at hp
    | some p2 =>
      obtain ⟨fp, r2⟩ := p2
      rw [hpf] at hp
      simp only at hp
      cases hpe : pExp r2 with
      | none => rw [hpe] at hp; simp at hp
      | some p3 =>
        obtain ⟨ep, r3⟩ := p3
        rw [hpe] at hp
        simp only [Option.some.injEq, Prod.mk.injEq] at hp
        obtain ⟨rfl, rfl⟩ := hp
        have hF := ftr_frac stk r1 fp r2 ep r3 hpf hpe
        cases bs with
        | nil => simp [stripSign, pInt] at hpi
        | cons c cs =>
          rw [stripSign_cons] at hpi ⊢
          by_cases h45 : c = 45
          · subst h45
            simp only [if_true] at hpi ⊢
            obtain ⟨c', ip', rfl, hI⟩ := ftr_int (mk .stateNeg stk) stk scanContinue (by decide) (by decide)
              (by rw [step_neg]; simp) (fun c hc => by
                rw [step_neg]
                have : c ≠ 48 := by intro h; subst h; simp at hc
                simp [this, hc]) cs ip r1 hpi
            rw [ftr_step (step_bv_minus stk) (by decide) (by decide), hI, hF]
            simp [litToks]
          · simp only [h45, if_false] at hpi ⊢
            obtain ⟨h0, h1, h2, h3, h4, h5, h6⟩ := hh c cs rfl
            obtain ⟨c', ip', rfl, hI⟩ := ftr_int (bv stk) stk scanBeginLiteral (by decide) (by decide)
              (by rw [step_bv_num stk 48 (by decide) (by decide) (by decide) (by decide) (by decide) (by decide)
                    (by decide) (by decide)]; simp)
              (fun c hc => by
                have hne : c ≠ 48 := by intro h; subst h; simp at hc
                have hws : isWs c = false := by
                  have : isDigit c = true := by rw [isDigit_iff]; omega
                  u8_omega
                have hx := numHead_aux c hc
                rw [step_bv_num stk c hws hx.1 hx.2.1 hx.2.2.1 hx.2.2.2.1 hx.2.2.2.2.1 hx.2.2.2.2.2.1
                  hx.2.2.2.2.2.2]
                simp [hne, hc]) (c :: cs) ip r1 hpi
            rw [hI, hF]
            simp [litToks]

end Scanner
end JP
