import JP.Lemmas.LegacyEngineBasic

/-!
# Legacy engine lemmas, part 2: `walk` / `withPath` (`findObject`) refine the specification's
navigation

Where the specification's navigation fails (cause `parentUnreachable`) the legacy `findObject`
returns nil (`notFound`) — *except* when the node on the way is a raw `null` (the duplicate a
`copy` makes of a null value): `intoDoc` parses it to a nil map without error and the walk goes
on into it; then the action runs on `.docNil` (third alternative of the `fail` clauses below).
-/

namespace JP
namespace Legacy

open Value
open Impl (listSet listInsert QK Outcome Err nav)
open Spec (Res)

/-! ### one step of `walk`, in convenient forms -/

def wrapW {α} (con : Node) (key : Bytes) : Walk α → Walk α
  | .done c a => .done (putChild con key c) a
  | .notFound => .notFound
  | .fail e => .fail e
  | .panic => .panic

/-- the walk result once the action has run on the container found -/
def doneOf {α} (rb : Node → Node) : Outcome (Node × α) → Walk α
  | .ok (pc', a) => .done (rb pc') a
  | .err e => .fail e
  | .panic => .panic

theorem walk_nil {α} (neg : Bool) (act : Node → Outcome (Node × α)) (con : Node) :
    walk neg act con [] = doneOf id (act con) := by
  rw [walk]
  cases act con with
  | ok x => obtain ⟨a, b⟩ := x; rfl
  | err e => rfl
  | panic => rfl

theorem walk_cons_err {α} {neg : Bool} {act : Node → Outcome (Node × α)}
    {con : Node} {part : Bytes} {rest : List Bytes} {er : Err}
    (hg : conGet neg con (decodeToken part) = .err er) :
    walk neg act con (part :: rest) = .notFound := by
  rw [walk]
  simp only [hg]

theorem walk_cons_notfound {α} {neg : Bool} {act : Node → Outcome (Node × α)}
    {con next : Node} {part : Bytes} {rest : List Bytes}
    (hg : conGet neg con (decodeToken part) = .ok next)
    (hn : next = .nil ∨ rawIsNil next = true ∨ ∃ er, intoContainer next = .err er) :
    walk neg act con (part :: rest) = .notFound := by
  rw [walk]
  simp only [hg]
  cases next with
  | nil => rfl
  | rawNil => rfl
  | raw c =>
    rcases hn with h | h | ⟨er, her⟩
    · cases h
    · simp [rawIsNil] at h
    · simp [rawIsNil, her]
  | doc ob =>
    rcases hn with h | h | ⟨er, her⟩
    · cases h
    · simp [rawIsNil] at h
    · simp [rawIsNil, her]
  | ary ns =>
    rcases hn with h | h | ⟨er, her⟩
    · cases h
    · simp [rawIsNil] at h
    · simp [rawIsNil, her]
  | docNil =>
    rcases hn with h | h | ⟨er, her⟩
    · cases h
    · simp [rawIsNil] at h
    · simp [rawIsNil, her]

theorem walk_cons_ok {α} {neg : Bool} {act : Node → Outcome (Node × α)}
    {con next child : Node} {part : Bytes} {rest : List Bytes}
    (hg : conGet neg con (decodeToken part) = .ok next)
    (hn : next ≠ .nil) (hr : rawIsNil next = false)
    (hc : intoContainer next = .ok child) :
    walk neg act con (part :: rest) = wrapW con (decodeToken part) (walk neg act child rest) := by
  rw [walk]
  simp only [hg]
  cases next with
  | nil => exact absurd rfl hn
  | rawNil => simp [rawIsNil] at hr
  | raw c => simp only [rawIsNil, Bool.false_eq_true, if_false, hc]
             cases walk neg act child rest <;> rfl
  | doc ob => simp only [rawIsNil, Bool.false_eq_true, if_false, hc]
              cases walk neg act child rest <;> rfl
  | ary ns => simp only [rawIsNil, Bool.false_eq_true, if_false, hc]
              cases walk neg act child rest <;> rfl
  | docNil => simp only [rawIsNil, Bool.false_eq_true, if_false, hc]
              cases walk neg act child rest <;> rfl

/-- a walk that has entered the nil map: the action runs on it when no token is left, otherwise
`get` hands out a nil node and the walk ends -/
theorem walk_docNil {α} (neg : Bool) (act : Node → Outcome (Node × α)) (rest : List Bytes) :
    walk neg act .docNil rest = match rest with
      | [] => doneOf id (act .docNil)
      | _ :: _ => .notFound := by
  cases rest with
  | nil => exact walk_nil neg act .docNil
  | cons p ps => rw [walk]; rfl

/-! ### `putChild` -/

theorem putChild_doc (ob : NMembers) (key : Bytes) (c : Node) :
    putChild (.doc ob) key c = .doc (setN key c ob) := rfl

theorem putChild_ary {neg : Bool} {ns : List Node} {key : Bytes} {i : Nat} (c : Node)
    (hr : Spec.readIdx neg ns.length key = .at i) :
    putChild (.ary ns) key c = .ary (listSet i c ns) := by
  have := Impl.readIdx_cases neg ns.length key
  rw [hr] at this
  obtain ⟨hi, idx, ha, h | h⟩ := this
  · obtain ⟨h0, h1⟩ := h
    have hlt : ¬ idx < 0 := by omega
    simp [putChild, ha, hlt, h1]
  · obtain ⟨h0, h1, h2, h3⟩ := h
    simp [putChild, ha, h0, h3]

theorem Inv_putChild_doc {ob : NMembers} {key : Bytes} {next c : Node}
    (h : Inv (.doc ob)) (hl : lookupN key ob = some next) (hc : Inv c) :
    Inv (.doc (setN key c ob)) ∧ den (.doc (setN key c ob)) = .obj (Value.set key (den c) (denM ob)) := by
  have hq : QK true key = true := (InvM_lookupN ((Inv_doc ob).1 h).2 hl).1
  exact ⟨Inv_doc_setN h hq hc, by rw [den_doc, denM_setN]⟩

/-! ### the walk refines `nav` -/

/-- what `walk` does, given the answer of `nav` -/
def WalkNav (neg : Bool) (con : Node) (parts : List Bytes) (r : Res (Value × (Value → Value))) : Prop :=
  match r with
  | .ok pk =>
    ∃ (pc : Node) (rb : Node → Node), Inv pc ∧ isDA pc = true ∧ den pc = pk.1 ∧
      (∀ pc', Inv pc' → isDA pc' = true →
        Inv (rb pc') ∧ isDA (rb pc') = true ∧ den (rb pc') = pk.2 (den pc')) ∧
      (∀ (α : Type) (act : Node → Outcome (Node × α)), walk neg act con parts = doneOf rb (act pc))
  | .fail _ =>
    (∀ (α : Type) (act : Node → Outcome (Node × α)), walk neg act con parts = .notFound) ∨
    (∃ rb : Node → Node, ∀ (α : Type) (act : Node → Outcome (Node × α)),
      walk neg act con parts = doneOf rb (act .docNil))
  | .unspec => True

theorem not_container_of_nil {next : Node} (h : next = .nil ∨ rawIsNil next = true) :
    (den next).isContainer = false := by
  rcases h with rfl | h
  · rfl
  · cases next <;> simp [rawIsNil] at h; rfl

theorem walk_step {neg : Bool} {con next : Node} {part : Bytes}
    {rest : List Bytes} (mk : Node → Node) (kk : Value → Value)
    (hg : conGet neg con (decodeToken part) = .ok next)
    (hnext : Inv next)
    (hput : ∀ c, putChild con (decodeToken part) c = mk c)
    (hmk : ∀ c, Inv c → isDA c = true → Inv (mk c) ∧ isDA (mk c) = true ∧ den (mk c) = kk (den c))
    (ih : ∀ child, Inv child → isDA child = true →
      WalkNav neg child rest (nav (specOpts neg) (den child) (rest.map decodeToken))) :
    WalkNav neg con (part :: rest)
      ((nav (specOpts neg) (den next) (rest.map decodeToken)).bind fun pk =>
        .ok (pk.1, fun p' => kk (pk.2 p'))) := by
  have hic := intoContainer_spec hnext
  by_cases hcont : (den next).isContainer = true
  · rw [if_pos hcont] at hic
    obtain ⟨child, hinto, hchild, hcc, hden⟩ := hic
    have hnn : next ≠ .nil := by
      intro h; rw [not_container_of_nil (Or.inl h)] at hcont; cases hcont
    have hrn : rawIsNil next = false := by
      cases hx : rawIsNil next with
      | false => rfl
      | true => rw [not_container_of_nil (Or.inr hx)] at hcont; cases hcont
    have ih' := ih child hchild hcc
    rw [hden] at ih'
    have hw : ∀ (α : Type) (act : Node → Outcome (Node × α)),
        walk neg act con (part :: rest) =
          wrapW con (decodeToken part) (walk neg act child rest) :=
      fun α act => walk_cons_ok hg hnn hrn hinto
    cases hn : nav (specOpts neg) (den next) (rest.map decodeToken) with
    | unspec => simp only [Res.bind, WalkNav]
    | fail c =>
      rw [hn] at ih'
      simp only [WalkNav] at ih'
      simp only [Res.bind, WalkNav]
      rcases ih' with h4 | ⟨rb, h4⟩
      · left
        intro α act
        rw [hw, h4]; rfl
      · right
        refine ⟨fun c => mk (rb c), ?_⟩
        intro α act
        rw [hw, h4]
        cases act .docNil with
        | ok x => obtain ⟨x1, x2⟩ := x; simp only [doneOf, wrapW, hput]
        | err er => rfl
        | panic => rfl
    | ok pk =>
      rw [hn] at ih'
      simp only [WalkNav] at ih'
      simp only [Res.bind, WalkNav]
      obtain ⟨pc, rb, h1, h2, h3, h4, h5⟩ := ih'
      refine ⟨pc, fun pc' => mk (rb pc'), h1, h2, h3, ?_, ?_⟩
      · intro pc' hp1 hp2
        obtain ⟨a, b, c⟩ := h4 pc' hp1 hp2
        obtain ⟨a', b', c'⟩ := hmk (rb pc') a b
        exact ⟨a', b', by rw [c', c]⟩
      · intro α act
        rw [hw, h5]
        cases act pc with
        | ok x => obtain ⟨x1, x2⟩ := x; simp only [doneOf, wrapW, hput]
        | err er => rfl
        | panic => rfl
  · have hcont' : (den next).isContainer = false := by
      cases hx : (den next).isContainer with
      | false => rfl
      | true => exact absurd hx hcont
    rw [if_neg hcont] at hic
    rw [Impl.nav_noncontainer _ _ _ hcont']
    simp only [Res.bind, WalkNav]
    rcases hic with h | h | h | h
    · exact Or.inl fun α act => walk_cons_notfound hg (Or.inl h)
    · exact Or.inl fun α act => walk_cons_notfound hg (Or.inr (Or.inl h))
    · exact Or.inl fun α act => walk_cons_notfound hg (Or.inr (Or.inr h))
    · -- a raw `null`: the walk goes on into the nil map
      have hnn : next ≠ .nil := by
        intro e; subst e; simp [intoContainer, rawIsArray, intoDoc] at h
      have hrn : rawIsNil next = false := by
        cases next <;> first | rfl | (simp [intoContainer, rawIsArray, intoDoc] at h)
      have hw : ∀ (α : Type) (act : Node → Outcome (Node × α)),
          walk neg act con (part :: rest) =
            wrapW con (decodeToken part) (walk neg act .docNil rest) :=
        fun α act => walk_cons_ok hg hnn hrn h
      cases rest with
      | nil =>
        right
        refine ⟨fun c => mk c, ?_⟩
        intro α act
        rw [hw, walk_docNil]
        cases act .docNil with
        | ok x => obtain ⟨x1, x2⟩ := x; simp only [doneOf, wrapW, hput, id]
        | err er => rfl
        | panic => rfl
      | cons p ps =>
        left
        intro α act
        rw [hw, walk_docNil]; rfl

theorem walk_nav (neg : Bool) : ∀ (parts : List Bytes) (con : Node),
    Inv con → isDA con = true →
    WalkNav neg con parts (nav (specOpts neg) (den con) (parts.map decodeToken)) := by
  intro parts
  induction parts with
  | nil =>
    intro con hinv hcon
    simp only [List.map_nil, nav, den_isContainer hcon, if_true, WalkNav]
    exact ⟨con, id, hinv, hcon, rfl, fun pc' a b => ⟨a, b, rfl⟩, fun α act => walk_nil neg act con⟩
  | cons part rest ih =>
    intro con hinv hcon
    have ih' : ∀ child, Inv child → isDA child = true →
        WalkNav neg child rest (nav (specOpts neg) (den child) (rest.map decodeToken)) :=
      fun child a b => ih child a b
    cases con with
    | doc ob =>
      rw [den_doc]
      simp only [List.map_cons, nav, lookupN_denM]
      cases hl : lookupN (decodeToken part) ob with
      | none =>
        simp only [Option.map_none, WalkNav]
        left
        intro α act
        exact walk_cons_notfound (next := .nil) (by simp [conGet, hl]) (Or.inl rfl)
      | some next =>
        simp only [Option.map_some]
        have hg : conGet neg (.doc ob) (decodeToken part) = .ok next := by simp [conGet, hl]
        have hnext : Inv next := (InvM_lookupN ((Inv_doc _).1 hinv).2 hl).2
        exact walk_step (fun c => .doc (setN (decodeToken part) c ob))
          (fun v => .obj (Value.set (decodeToken part) v (denM ob))) hg hnext
          (fun c => rfl)
          (fun c hc _ => ⟨(Inv_putChild_doc hinv hl hc).1, rfl, (Inv_putChild_doc hinv hl hc).2⟩)
          ih'
    | ary ns =>
      rw [den_ary]
      simp only [List.map_cons, nav, denL_length, specOpts_neg]
      have hget := conGet_ary neg ns (decodeToken part)
      cases hr : Spec.readIdx neg ns.length (decodeToken part) with
      | unspec => simp only [WalkNav]
      | bad =>
        rw [hr] at hget
        obtain ⟨er, her⟩ := hget
        simp only [WalkNav]
        exact Or.inl fun α act => walk_cons_err her
      | «at» i =>
        rw [hr] at hget
        obtain ⟨n, hn, hg⟩ := hget
        simp only [denL_getElem?, hn, Option.map_some]
        have hinvL := (Inv_ary ns).1 hinv
        exact walk_step (fun c => .ary (listSet i c ns))
          (fun v => .arr (Spec.setAt i v (denL ns))) hg (InvL_getElem? hinvL hn)
          (fun c => putChild_ary c hr)
          (fun c hc _ => ⟨(Inv_ary _).2 (InvL_listSet hc hinvL), rfl, by rw [den_ary, denL_listSet]⟩)
          ih'
    | nil => simp [isDA] at hcon
    | rawNil => simp [isDA] at hcon
    | raw c => simp [isDA] at hcon
    | docNil => simp [isDA] at hcon

/-! ### `withPath` -/

theorem splitPath_eq_impl {path : Bytes} {parts : List Bytes} {key : Bytes}
    (h : Impl.splitPath path = some (parts, key)) (hk : path ≠ []) :
    splitPath path = some (parts, key) := by
  unfold Impl.splitPath at h
  unfold splitPath
  cases hs : splitSlash path with
  | nil => rw [hs] at h; cases h
  | cons x xs =>
    cases xs with
    | nil =>
      rw [hs] at h
      simp only at h
      split at h
      · rename_i hpe; exact absurd hpe hk
      · cases h
    | cons y ys =>
      rw [hs] at h
      simp only at h
      split at h
      · cases h
      · exact h

/-- an action on the container found refines an edit of the specification; `L` = the failure
causes for which the action is required to report an error -/
def ActRef {α β} (L : Spec.Cause → Prop) (key : Bytes) (act : Node → Bytes → Outcome (Node × α))
    (f : Value → Bytes → Res (Value × β)) (R : α → β → Prop) : Prop :=
  ∀ pc, Inv pc → isDA pc = true →
    match f (den pc) key with
    | .ok pb => ∃ pc' a, act pc key = .ok (pc', a) ∧ Inv pc' ∧ isDA pc' = true ∧ den pc' = pb.1 ∧ R a pb.2
    | .fail c => L c → ∃ er, act pc key = .err er
    | .unspec => True

theorem withPath_refines {α β} {neg : Bool} {root : Node} {path : Bytes} {toks : List Bytes}
    {act : Node → Bytes → Outcome (Node × α)} {f : Value → Bytes → Res (Value × β)}
    {R : α → β → Prop} {L : Spec.Cause → Prop}
    (hinv : Inv root) (hcon : isDA root = true)
    (hp : Spec.parsePointer path = some toks) (hne : toks ≠ [])
    (hact : ∀ key, key ∈ toks → ActRef L key act f R) :
    match Spec.atParent (specOpts neg) f (den root) toks with
    | .ok vb => ∃ con' a, withPath neg root path act = .done con' a ∧ Inv con' ∧ isDA con' = true ∧
        den con' = vb.1 ∧ R a vb.2
    | .fail c => L c → ((∃ er, withPath neg root path act = .fail er) ∨
        (c = .parentUnreachable ∧ (withPath neg root path act = .notFound ∨
          ∃ rb key, withPath neg root path act = doneOf rb (act .docNil key))))
    | .unspec => True := by
  obtain ⟨parts, key, hsp, htoks⟩ := Impl.splitPath_of_parsePointer hp hne
  have hsp' := splitPath_eq_impl hsp (fun h => hne ((Impl.parsePointer_nil_iff hp).2 h))
  subst htoks
  rw [Impl.atParent_nav]
  have hA := hact key (by simp)
  have hw := walk_nav neg parts root hinv hcon
  have hwp : withPath neg root path act = walk neg (fun c => act c key) root parts := by
    simp only [withPath, hsp']
  cases hn : nav (specOpts neg) (den root) (parts.map decodeToken) with
  | unspec => trivial
  | fail c =>
    rw [hn] at hw
    simp only [Res.bind]
    have hc := Impl.nav_fail_cause _ _ _ _ hn
    intro _
    right
    refine ⟨hc, ?_⟩
    rcases hw with h4 | ⟨rb, h4⟩
    · left; rw [hwp, h4]
    · right; exact ⟨rb, key, by rw [hwp, h4]⟩
  | ok pk =>
    rw [hn] at hw
    obtain ⟨pc, rb, h1, h2, h3, h4, h5⟩ := hw
    have hA' := hA pc h1 h2
    rw [h3] at hA'
    simp only [Res.bind]
    cases hf : f pk.1 key with
    | unspec => trivial
    | fail c =>
      rw [hf] at hA'
      intro hL
      obtain ⟨er, her⟩ := hA' hL
      exact Or.inl ⟨er, by rw [hwp, h5, her]; rfl⟩
    | ok pb =>
      rw [hf] at hA'
      obtain ⟨pc', a, ha, hi, hc, hd, hR⟩ := hA'
      obtain ⟨x, y, z⟩ := h4 pc' hi hc
      exact ⟨rb pc', a, by rw [hwp, h5, ha]; rfl, x, y, by rw [z, hd], hR⟩

/-- the same for an action that fails on the nil map: a failure of the specification is an error
or a nil result of `findObject` -/
theorem withPath_refines_err {α β} {neg : Bool} {root : Node} {path : Bytes} {toks : List Bytes}
    {act : Node → Bytes → Outcome (Node × α)} {f : Value → Bytes → Res (Value × β)}
    {R : α → β → Prop}
    (hinv : Inv root) (hcon : isDA root = true)
    (hp : Spec.parsePointer path = some toks) (hne : toks ≠ [])
    (hact : ∀ key, key ∈ toks → ActRef (fun _ => True) key act f R)
    (hnil : ∀ key, ∃ er, act .docNil key = .err er) :
    match Spec.atParent (specOpts neg) f (den root) toks with
    | .ok vb => ∃ con' a, withPath neg root path act = .done con' a ∧ Inv con' ∧ isDA con' = true ∧
        den con' = vb.1 ∧ R a vb.2
    | .fail _ => (∃ er, withPath neg root path act = .fail er) ∨ withPath neg root path act = .notFound
    | .unspec => True := by
  have := withPath_refines (neg := neg) (act := act) (f := f) (R := R) (L := fun _ => True) hinv hcon hp hne hact
  cases hr : Spec.atParent (specOpts neg) f (den root) toks with
  | unspec => trivial
  | ok vb => rw [hr] at this; exact this
  | fail c =>
    rw [hr] at this
    rcases this trivial with h | ⟨_, h | ⟨rb, key, h⟩⟩
    · exact Or.inl h
    · exact Or.inr h
    · obtain ⟨er, her⟩ := hnil key
      rw [her] at h
      exact Or.inl ⟨er, h⟩

end Legacy
end JP
