import JP.Legacy.Check

/-!
# Legacy package: the accumulated copy-size limit (C12, legacy clause)

`copySizeOf neg r op` is the size `deepCopy` reports for the copy `op` in state `r` (the `len`
of the marshalled duplicate, as `Legacy.copySizes` of `JP/Legacy/Check.lean` lists it);
`CopyResolves` says that `copyPrepare` succeeds: source and destination container are found
and the source can be read again.
-/

namespace JP
namespace Legacy

open Impl (Err Outcome)

def copySizeOf (neg : Bool) (r : Node) (op : Op) : Nat :=
  match copyPrepare neg r op with
  | .ok (_, _, sz) => sz
  | _ => 0

def CopyResolves (neg : Bool) (r : Node) (op : Op) : Prop :=
  ∃ r2 cp sz, copyPrepare neg r op = .ok (r2, cp, sz)

/-! ### only the limit check of `copy` produces the copy-size error -/

theorem conGet_ne_cs {neg con key} : conGet neg con key ≠ .err .copySize := by
  cases con <;> simp only [conGet] <;> repeat' split
  all_goals simp

theorem conAdd_ne_cs {neg con key val} : conAdd neg con key val ≠ .err .copySize := by
  cases con <;> simp only [conAdd] <;> repeat' split
  all_goals simp

theorem conRemove_ne_cs {neg con key} : conRemove neg con key ≠ .err .copySize := by
  cases con <;> simp only [conRemove] <;> repeat' split
  all_goals simp

theorem conSet_ne_cs {neg con key val} : conSet neg con key val ≠ .err .copySize := by
  cases con <;> simp only [conSet] <;> repeat' split
  all_goals simp

/-- a walk fails only with an error of its action -/
theorem walk_fail {α} (neg : Bool) (act : Node → Outcome (Node × α)) (P : Err → Prop)
    (hact : ∀ c e, act c = .err e → P e) :
    ∀ (parts : List Bytes) (con : Node) (e : Err), walk neg act con parts = .fail e → P e
  | [], con, e, h => by
    simp only [walk] at h
    cases ha : act con with
    | ok r => obtain ⟨c, a⟩ := r; rw [ha] at h; cases h
    | err e' => rw [ha] at h; cases h; exact hact con e ha
    | panic => rw [ha] at h; cases h
  | part :: rest, con, e, h => by
    simp only [walk] at h
    cases hg : conGet neg con (decodeToken part) with
    | panic => rw [hg] at h; cases h
    | err e' => rw [hg] at h; cases h
    | ok next =>
      rw [hg] at h
      have hstep : (if rawIsNil next = true then (Walk.notFound : Walk α) else
          match intoContainer next with
          | .panic => .panic
          | .err _ => .notFound
          | .ok child =>
            match walk neg act child rest with
            | .done child' a => .done (putChild con (decodeToken part) child') a
            | .notFound => .notFound
            | .fail e => .fail e
            | .panic => .panic) = .fail e → P e := by
        intro h
        split at h
        · cases h
        · cases hi : intoContainer next with
          | panic => rw [hi] at h; cases h
          | err e' => rw [hi] at h; cases h
          | ok child =>
            rw [hi] at h
            simp only [] at h
            cases hw : walk neg act child rest with
            | done c a => rw [hw] at h; cases h
            | notFound => rw [hw] at h; cases h
            | fail e' =>
              rw [hw] at h
              simp only [Walk.fail.injEq] at h
              subst h
              exact walk_fail neg act P hact rest child _ hw
            | panic => rw [hw] at h; cases h
      cases next with
      | nil => cases h
      | _ => exact hstep h

theorem withPath_fail {α} (neg : Bool) (root : Node) (path : Bytes)
    (act : Node → Bytes → Outcome (Node × α)) (P : Err → Prop)
    (hact : ∀ c k e, act c k = .err e → P e) {e : Err}
    (h : withPath neg root path act = .fail e) : P e := by
  unfold withPath at h
  split at h
  · cases h
  · exact walk_fail neg _ P (fun c e h => hact c _ e h) _ root e h

theorem unitAct_err {x : Outcome Node} {e} (h : unitAct x = .err e) : x = .err e := by
  cases x <;> simp_all [unitAct]

theorem liftWalk_err {w : Walk Unit} {e} (h : liftWalk w = .err e) : w = .fail e ∨ e = .missing := by
  cases w <;> simp only [liftWalk] at h <;> first | contradiction | (cases h; simp)

theorem opAdd_ne_cs {neg root op} : opAdd neg root op ≠ .err .copySize := by
  unfold opAdd
  split
  · intro h
    rcases liftWalk_err h with h | h
    · exact withPath_fail neg root _ _ (fun e => e ≠ .copySize)
        (fun c k e h he => conAdd_ne_cs (he ▸ unitAct_err h)) h rfl
    · cases h
  · simp

theorem opRemove_ne_cs {neg root op} : opRemove neg root op ≠ .err .copySize := by
  unfold opRemove
  split
  · intro h
    rcases liftWalk_err h with h | h
    · exact withPath_fail neg root _ _ (fun e => e ≠ .copySize)
        (fun c k e h he => conRemove_ne_cs (he ▸ unitAct_err h)) h rfl
    · cases h
  · simp

theorem opReplace_ne_cs {neg root op} : opReplace neg root op ≠ .err .copySize := by
  unfold opReplace
  split
  · simp
  · simp
  · split
    · repeat' split
      all_goals simp
    · intro h
      rcases liftWalk_err h with h | h
      · refine withPath_fail neg root _ _ (fun e => e ≠ .copySize) ?_ h rfl
        intro c k e h he
        subst he
        cases hg : conGet neg c k with
        | panic => rw [hg] at h; cases h
        | err e' => rw [hg] at h; cases h
        | ok x => rw [hg] at h; exact conSet_ne_cs (unitAct_err h)
      · cases h

theorem opMove_ne_cs {neg root op} : opMove neg root op ≠ .err .copySize := by
  unfold opMove
  split
  · simp
  · simp
  · rename_i frm _
    simp only []
    generalize hp : withPath neg root frm _ = w
    cases w with
    | panic => simp
    | notFound => simp
    | fail e =>
      have : e ≠ .copySize := by
        refine withPath_fail neg root _ _ (fun e => e ≠ .copySize) ?_ hp
        intro c k e h he
        subst he
        cases hg : conGet neg c k with
        | panic => rw [hg] at h; cases h
        | err e' => rw [hg] at h; cases h; exact conGet_ne_cs hg
        | ok x =>
          rw [hg] at h
          cases hr : conRemove neg c k with
          | ok c' => rw [hr] at h; cases h
          | err e' => rw [hr] at h; cases h; exact conRemove_ne_cs hr
          | panic => rw [hr] at h; cases h
      intro h
      simp only [Outcome.err.injEq] at h
      exact this h
    | done root1 val =>
      simp only []
      split
      · simp
      · simp
      · intro h
        rcases liftWalk_err h with h | h
        · exact withPath_fail neg root1 _ _ (fun e => e ≠ .copySize)
            (fun c k e h he => conAdd_ne_cs (he ▸ unitAct_err h)) h rfl
        · cases h

theorem opTest_ne_cs {neg root op} : opTest neg root op ≠ .err .copySize := by
  unfold opTest
  split
  · simp
  · simp
  · split
    · cases equalTo root op.value with
      | mk b r => simp only []; split <;> simp
    · intro h
      rcases liftWalk_err h with h | h
      · refine withPath_fail neg root _ _ (fun e => e ≠ .copySize) ?_ h rfl
        intro c k e h he
        subst he
        cases hg : conGet neg c k with
        | panic => rw [hg] at h; cases h
        | err e' => rw [hg] at h; cases h; exact conGet_ne_cs hg
        | ok x =>
          rw [hg] at h
          cases x with
          | nil => simp only [] at h; split at h <;> cases h
          | _ =>
            simp only [] at h
            split at h
            · cases h
            · split at h <;> cases h
      · cases h

theorem copySource_fail_ne_cs {neg root frm e} (h : copySource neg root frm = .fail e) : e ≠ .copySize := by
  unfold copySource at h
  refine withPath_fail neg root _ _ (fun e => e ≠ .copySize) ?_ h
  intro c k e h he
  subst he
  cases hg : conGet neg c k with
  | panic => rw [hg] at h; cases h
  | err e' => rw [hg] at h; cases h; exact conGet_ne_cs hg
  | ok x => rw [hg] at h; cases h

theorem copyPrepare_ne_cs {neg root op} : copyPrepare neg root op ≠ .err .copySize := by
  unfold copyPrepare
  split
  · simp
  · simp
  · rename_i frm _
    cases h1 : copySource neg root frm with
    | panic => simp
    | notFound => simp
    | fail e =>
      have := copySource_fail_ne_cs h1
      simp only [ne_eq, Outcome.err.injEq]; exact this
    | done root1 v =>
      simp only []
      split
      · rename_i path _
        generalize hp : withPath neg root1 path _ = w
        cases w with
        | panic => simp
        | notFound => simp
        | fail e =>
          have : e ≠ .copySize := by
            refine withPath_fail neg root1 _ _ (fun e => e ≠ .copySize) ?_ hp
            intro c k e h; cases h
          simp only [ne_eq, Outcome.err.injEq]; exact this
        | done root2 u =>
          simp only []
          split
          · cases deepCopy ‹Node› with
            | mk cp sz => simp
          · simp
          · simp
      · simp

/-- the final `add` of a copy -/
def copyAdd (neg : Bool) (root2 : Node) (op : Op) (cp : Node) : Outcome Node :=
  match op.path with
  | .ok path => liftWalk (withPath neg root2 path fun con key => unitAct (conAdd neg con key cp))
  | _ => .err .missing

theorem copyAdd_ne_cs {neg root2 op cp} : copyAdd neg root2 op cp ≠ .err .copySize := by
  unfold copyAdd
  split
  · intro h
    rcases liftWalk_err h with h | h
    · exact withPath_fail neg root2 _ _ (fun e => e ≠ .copySize)
        (fun c k e h he => conAdd_ne_cs (he ▸ unitAct_err h)) h rfl
    · cases h
  · simp

theorem opCopy_eq (neg : Bool) (limit : Int) (root : Node) (acc : Int) (op : Op) :
    opCopy neg limit root acc op =
      match copyPrepare neg root op with
      | .panic => .panic
      | .err e => .err e
      | .ok (root2, cp, sz) =>
        if limit > 0 ∧ acc + sz > limit then .err .copySize
        else match copyAdd neg root2 op cp with
          | .ok root3 => .ok (root3, acc + sz)
          | .err e => .err e
          | .panic => .panic := by
  unfold opCopy copyAdd
  cases copyPrepare neg root op with
  | panic => rfl
  | err e => rfl
  | ok r =>
    obtain ⟨root2, cp, sz⟩ := r
    simp only []
    split
    · rfl
    · cases op.path <;> rfl

/-- exactness of the limit check -/
theorem opCopy_copySize_iff (neg : Bool) (limit : Int) (r : Node) (acc : Int) (op : Op) :
    opCopy neg limit r acc op = .err .copySize ↔
      (limit > 0 ∧ CopyResolves neg r op ∧ acc + (copySizeOf neg r op : Int) > limit) := by
  rw [opCopy_eq]
  unfold CopyResolves copySizeOf
  cases hp : copyPrepare neg r op with
  | panic => simp
  | err e =>
    have := copyPrepare_ne_cs (neg := neg) (root := r) (op := op)
    rw [hp] at this
    simp only [ne_eq, Outcome.err.injEq] at this
    simp [this]
  | ok x =>
    obtain ⟨root2, cp, sz⟩ := x
    simp only []
    constructor
    · intro h
      split at h
      · rename_i hl; exact ⟨hl.1, ⟨root2, cp, sz, rfl⟩, hl.2⟩
      · have := copyAdd_ne_cs (neg := neg) (root2 := root2) (op := op) (cp := cp)
        cases ha : copyAdd neg root2 op cp with
        | ok r3 => rw [ha] at h; cases h
        | err e =>
          rw [ha] at h this
          simp only [Outcome.err.injEq] at h
          subst h
          exact absurd rfl this
        | panic => rw [ha] at h; cases h
    · rintro ⟨hl, _, hgt⟩
      rw [if_pos ⟨hl, hgt⟩]

theorem opCopy_ok_inv {neg limit r acc op r' acc'} (h : opCopy neg limit r acc op = .ok (r', acc')) :
    ∃ r2 cp sz, copyPrepare neg r op = .ok (r2, cp, sz) ∧ ¬ (limit > 0 ∧ acc + sz > limit) ∧
      copyAdd neg r2 op cp = .ok r' ∧ acc' = acc + sz := by
  rw [opCopy_eq] at h
  cases hp : copyPrepare neg r op with
  | panic => rw [hp] at h; cases h
  | err e => rw [hp] at h; cases h
  | ok x =>
    obtain ⟨root2, cp, sz⟩ := x
    rw [hp] at h
    simp only [] at h
    split at h
    · cases h
    · rename_i hl
      cases ha : copyAdd neg root2 op cp with
      | ok r3 =>
        rw [ha] at h
        simp only [Outcome.ok.injEq, Prod.mk.injEq] at h
        exact ⟨root2, cp, sz, rfl, hl, by rw [ha, h.1], h.2.symm⟩
      | err e => rw [ha] at h; cases h
      | panic => rw [ha] at h; cases h

theorem opCopy_ok_acc {neg limit r acc op r' acc'} (h : opCopy neg limit r acc op = .ok (r', acc')) :
    acc' = acc + (copySizeOf neg r op : Int) := by
  obtain ⟨r2, cp, sz, hp, _, _, ha⟩ := opCopy_ok_inv h
  simp only [copySizeOf, hp, ha]

theorem opCopy_ok_within {neg limit r acc op r' acc'} (hl : limit > 0)
    (h : opCopy neg limit r acc op = .ok (r', acc')) : acc' ≤ limit := by
  obtain ⟨r2, cp, sz, _, hlim, _, ha⟩ := opCopy_ok_inv h
  subst ha
  by_cases hgt : acc + (sz : Int) > limit
  · exact absurd ⟨hl, hgt⟩ hlim
  · omega

theorem opCopy_ok_resolves {neg limit r acc op r' acc'} (h : opCopy neg limit r acc op = .ok (r', acc')) :
    CopyResolves neg r op := by
  obtain ⟨r2, cp, sz, hp, _⟩ := opCopy_ok_inv h
  exact ⟨r2, cp, sz, hp⟩

/-! ### `applyOp` -/

def liftAcc (acc : Int) (x : Outcome Node) : Outcome (Node × Int) :=
  match x with
  | .ok r' => .ok (r', acc)
  | .err e => .err e
  | .panic => .panic

theorem applyOp_eq (neg : Bool) (limit : Int) (r : Node) (acc : Int) (op : Op) :
    applyOp neg limit r acc op =
      if op.kind = ascii "add" then liftAcc acc (opAdd neg r op)
      else if op.kind = ascii "remove" then liftAcc acc (opRemove neg r op)
      else if op.kind = ascii "replace" then liftAcc acc (opReplace neg r op)
      else if op.kind = ascii "move" then liftAcc acc (opMove neg r op)
      else if op.kind = ascii "test" then liftAcc acc (opTest neg r op)
      else if op.kind = ascii "copy" then opCopy neg limit r acc op
      else .err .other := rfl

theorem liftAcc_err {acc x e} (h : liftAcc acc x = .err e) : x = .err e := by
  cases x <;> simp_all [liftAcc]

theorem liftAcc_ok {acc x r' acc'} (h : liftAcc acc x = .ok (r', acc')) : x = .ok r' ∧ acc' = acc := by
  cases x <;> simp_all [liftAcc]

theorem applyOp_copy {neg limit r acc op} (h : op.kind = ascii "copy") :
    applyOp neg limit r acc op = opCopy neg limit r acc op := by
  rw [applyOp_eq, h]
  simp [ascii]

theorem applyOp_copySize {neg limit r acc op} (h : applyOp neg limit r acc op = .err .copySize) :
    op.kind = ascii "copy" ∧ limit > 0 := by
  rw [applyOp_eq] at h
  repeat' split at h
  · exact absurd (liftAcc_err h) opAdd_ne_cs
  · exact absurd (liftAcc_err h) opRemove_ne_cs
  · exact absurd (liftAcc_err h) opReplace_ne_cs
  · exact absurd (liftAcc_err h) opMove_ne_cs
  · exact absurd (liftAcc_err h) opTest_ne_cs
  · exact ⟨‹_›, ((opCopy_copySize_iff neg limit r acc op).1 h).1⟩
  · cases h

theorem applyOp_not_copy_acc {neg limit r acc op r' acc'} (hk : op.kind ≠ ascii "copy")
    (h : applyOp neg limit r acc op = .ok (r', acc')) : acc' = acc := by
  rw [applyOp_eq] at h
  repeat' split at h
  all_goals first
    | exact (liftAcc_ok h).2
    | contradiction
    | cases h

/-! ### the running total over a whole patch -/

/-- `applyOps` that also returns the final accumulated size -/
def applyOpsAcc (neg : Bool) (limit : Int) : Node → Int → List Op → Outcome (Node × Int)
  | r, acc, [] => .ok (r, acc)
  | r, acc, op :: ops =>
    match applyOp neg limit r acc op with
    | .ok (r', acc') => applyOpsAcc neg limit r' acc' ops
    | .err e => .err e
    | .panic => .panic

def sumSizes (l : List Nat) : Int := (l.sum : Nat)

theorem sumSizes_nil : sumSizes [] = 0 := rfl
theorem sumSizes_cons (a : Nat) (l : List Nat) : sumSizes (a :: l) = (a : Int) + sumSizes l := by
  simp [sumSizes, List.sum_cons]
theorem sumSizes_append (l₁ l₂ : List Nat) : sumSizes (l₁ ++ l₂) = sumSizes l₁ + sumSizes l₂ := by
  simp [sumSizes, List.sum_append]

/-- the size one operation contributes -/
def opSize (neg : Bool) (r : Node) (op : Op) : Nat :=
  if op.kind = ascii "copy" then copySizeOf neg r op else 0

/-- `Legacy.copySizes` (run without a limit) lists `opSize` per operation -/
theorem copySizes_cons (neg : Bool) (r : Node) (acc : Int) (op : Op) (ops : List Op) :
    copySizes neg r acc (op :: ops) =
      opSize neg r op :: (match applyOp neg 0 r acc op with
        | .ok (r', acc') => copySizes neg r' acc' ops
        | _ => []) := by
  rw [copySizes]
  simp only [opSize, copySizeOf]
  cases applyOp neg 0 r acc op with
  | ok p => rfl
  | err e => rfl
  | panic => rfl

theorem applyOp_ok_acc {neg limit r acc op r' acc'} (h : applyOp neg limit r acc op = .ok (r', acc')) :
    acc' = acc + (opSize neg r op : Int) := by
  unfold opSize
  by_cases hk : op.kind = ascii "copy"
  · rw [if_pos hk]
    rw [applyOp_copy hk] at h
    exact opCopy_ok_acc h
  · rw [if_neg hk, applyOp_not_copy_acc hk h]; simp

theorem applyOp_ok_within {neg limit r acc op r' acc'} (hl : limit > 0) (ha : acc ≤ limit)
    (h : applyOp neg limit r acc op = .ok (r', acc')) : acc' ≤ limit := by
  by_cases hk : op.kind = ascii "copy"
  · rw [applyOp_copy hk] at h; exact opCopy_ok_within hl h
  · rw [applyOp_not_copy_acc hk h]; exact ha

/-- a step that succeeds under a limit succeeds without one, with the same result -/
theorem applyOp_ok_nolimit {neg limit r acc op r' acc'} (h : applyOp neg limit r acc op = .ok (r', acc')) :
    applyOp neg 0 r acc op = .ok (r', acc') := by
  by_cases hk : op.kind = ascii "copy"
  · rw [applyOp_copy hk] at h ⊢
    obtain ⟨r2, cp, sz, hp, _, ha, hacc⟩ := opCopy_ok_inv h
    rw [opCopy_eq, hp]
    simp only []
    rw [if_neg (by omega), ha, hacc]
  · rw [applyOp_eq] at h ⊢
    simp only [hk, if_false] at h ⊢
    exact h

theorem applyOpsAcc_ok_within {neg : Bool} {limit : Int} (hl : limit > 0) (ops : List Op) :
    ∀ {r acc r' acc'}, acc ≤ limit → applyOpsAcc neg limit r acc ops = .ok (r', acc') → acc' ≤ limit := by
  induction ops with
  | nil => intro r acc r' acc' ha h; simp only [applyOpsAcc, Outcome.ok.injEq, Prod.mk.injEq] at h; omega
  | cons op ops ih =>
    intro r acc r' acc' ha h
    simp only [applyOpsAcc] at h
    cases h1 : applyOp neg limit r acc op with
    | ok p =>
      obtain ⟨r1, a1⟩ := p
      rw [h1] at h
      exact ih (applyOp_ok_within hl ha h1) h
    | err e => rw [h1] at h; cases h
    | panic => rw [h1] at h; cases h

/-- the running total after a successful prefix is the start value plus the sizes
`Legacy.copySizes` lists -/
theorem applyOpsAcc_total (neg : Bool) (limit : Int) (ops : List Op) :
    ∀ {r acc r' acc'}, applyOpsAcc neg limit r acc ops = .ok (r', acc') →
      acc' = acc + sumSizes (copySizes neg r acc ops) ∧ (copySizes neg r acc ops).length = ops.length := by
  induction ops with
  | nil =>
    intro r acc r' acc' h
    simp only [applyOpsAcc, Outcome.ok.injEq, Prod.mk.injEq] at h
    simp [copySizes, sumSizes_nil, h.2]
  | cons op ops ih =>
    intro r acc r' acc' h
    simp only [applyOpsAcc] at h
    cases h1 : applyOp neg limit r acc op with
    | ok p =>
      obtain ⟨r1, acc1⟩ := p
      rw [h1] at h
      simp only [] at h
      obtain ⟨ht, hlen⟩ := ih h
      rw [copySizes_cons, applyOp_ok_nolimit h1, sumSizes_cons]
      simp only [List.length_cons, hlen, and_true]
      rw [ht, applyOp_ok_acc h1]; omega
    | err e => rw [h1] at h; cases h
    | panic => rw [h1] at h; cases h

theorem copySizes_append (neg : Bool) (limit : Int) (ops₁ ops₂ : List Op) :
    ∀ {r acc r₁ acc₁}, applyOpsAcc neg limit r acc ops₁ = .ok (r₁, acc₁) →
      copySizes neg r acc (ops₁ ++ ops₂) = copySizes neg r acc ops₁ ++ copySizes neg r₁ acc₁ ops₂ := by
  induction ops₁ with
  | nil =>
    intro r acc r₁ acc₁ h
    simp only [applyOpsAcc, Outcome.ok.injEq, Prod.mk.injEq] at h
    simp [copySizes, h.1, h.2]
  | cons op ops ih =>
    intro r acc r₁ acc₁ h
    simp only [applyOpsAcc] at h
    cases h1 : applyOp neg limit r acc op with
    | ok p =>
      obtain ⟨r1, acc1⟩ := p
      rw [h1] at h
      simp only [] at h
      rw [List.cons_append, copySizes_cons, copySizes_cons, applyOp_ok_nolimit h1]
      simp only [List.cons_append, ih h]
    | err e => rw [h1] at h; cases h
    | panic => rw [h1] at h; cases h

/-- the first copy-size failure of a patch: where exactly `applyOps` reports it -/
theorem applyOps_copySize_iff (neg : Bool) (limit : Int) (ops : List Op) : ∀ (r : Node) (acc : Int),
    applyOps neg limit r acc ops = .err .copySize ↔
      ∃ ops₁ op ops₂ r₁ acc₁, ops = ops₁ ++ op :: ops₂ ∧
        applyOpsAcc neg limit r acc ops₁ = .ok (r₁, acc₁) ∧
        applyOp neg limit r₁ acc₁ op = .err .copySize := by
  induction ops with
  | nil =>
    intro r acc
    constructor
    · intro h; simp [applyOps] at h
    · rintro ⟨ops₁, op, ops₂, _, _, h, _⟩; simp at h
  | cons op ops ih =>
    intro r acc
    simp only [applyOps]
    constructor
    · intro h
      cases h1 : applyOp neg limit r acc op with
      | ok p =>
        obtain ⟨r1, acc1⟩ := p
        rw [h1] at h
        simp only [] at h
        obtain ⟨ops₁, op', ops₂, r₁, acc₁, he, hp, hb⟩ := (ih r1 acc1).1 h
        refine ⟨op :: ops₁, op', ops₂, r₁, acc₁, by rw [he]; rfl, ?_, hb⟩
        simp only [applyOpsAcc, h1]; exact hp
      | err e =>
        rw [h1] at h
        simp only [Outcome.err.injEq] at h
        subst h
        exact ⟨[], op, ops, r, acc, rfl, rfl, h1⟩
      | panic => rw [h1] at h; cases h
    · rintro ⟨ops₁, op', ops₂, r₁, acc₁, he, hp, hb⟩
      cases ops₁ with
      | nil =>
        simp only [List.nil_append, List.cons.injEq] at he
        simp only [applyOpsAcc, Outcome.ok.injEq, Prod.mk.injEq] at hp
        rw [he.1, hp.1, hp.2, hb]
      | cons op₀ ops₁ =>
        simp only [List.cons_append, List.cons.injEq] at he
        simp only [applyOpsAcc] at hp
        rw [he.1]
        cases h1 : applyOp neg limit r acc op₀ with
        | ok p =>
          obtain ⟨r1, a1⟩ := p
          rw [h1] at hp
          simp only [] at hp ⊢
          exact (ih r1 a1).2 ⟨ops₁, op', ops₂, r₁, acc₁, he.2, hp, hb⟩
        | err e => rw [h1] at hp; cases hp
        | panic => rw [h1] at hp; cases hp

end Legacy
end JP
