import JP.Lemmas.LawsOps
import JP.Lemmas.OrderOps

/-!
# Laws of the RFC 6902 specification: `add` under EnsurePathExistsOnAdd when the parent exists

Where the parent of the location exists, `Spec.ensureAdd` has nothing to create: it either leaves
the case open (`unspec`: a negative index or an index above `ensureMaxIndex` on the way) or is the
plain `add`.  Which of the two depends on the document and on the tokens that lead to the parent
only — not on the last token, not on the value.  This is what makes the laws about the LAST token
of an `add` (`-` = length, negative indices) hold with the option on as well.
-/

namespace JP
namespace Laws

open Spec
open Impl (nav)

theorem parent_nil (o : Opts) (doc : Value) :
    parent o doc [] = if doc.isContainer then .ok doc else .fail .parentUnreachable := by
  rw [parent_eq_nav]
  simp only [nav]
  split <;> rfl

theorem parent_cons_obj (o : Opts) (ms : Value.Members) (t1 : Bytes) (ts : List Bytes) :
    parent o (.obj ms) (t1 :: ts) =
      match Value.lookup t1 ms with
      | none => .fail .parentUnreachable
      | some child => parent o child ts := by
  rw [parent_eq_nav]
  simp only [nav]
  cases Value.lookup t1 ms with
  | none => rfl
  | some child =>
    simp only [parent_eq_nav]
    cases nav o child ts <;> rfl

theorem parent_cons_arr (o : Opts) (xs : List Value) (t1 : Bytes) (ts : List Bytes) :
    parent o (.arr xs) (t1 :: ts) =
      match readIdx o.neg xs.length t1 with
      | .unspec => .unspec
      | .bad => .fail .parentUnreachable
      | .at i =>
        match xs[i]? with
        | none => .fail .parentUnreachable
        | some child => parent o child ts := by
  rw [parent_eq_nav]
  simp only [nav]
  cases readIdx o.neg xs.length t1 with
  | unspec => rfl
  | bad => rfl
  | «at» i =>
    simp only
    cases xs[i]? with
    | none => rfl
    | some child =>
      simp only [parent_eq_nav]
      cases nav o child ts <;> rfl

theorem parent_ok_container {o : Opts} {doc p : Value} {ts : List Bytes} (h : parent o doc ts = .ok p) :
    doc.isContainer = true := by
  cases hc : doc.isContainer with
  | true => rfl
  | false =>
    rw [parent_eq_nav, Impl.nav_noncontainer o doc ts hc] at h
    cases h

theorem exists_cons_append {α} (ts : List α) (t : α) : ∃ t2 ts2, ts ++ [t] = t2 :: ts2 := by
  cases ts with
  | nil => exact ⟨t, [], rfl⟩
  | cons a b => exact ⟨a, b ++ [t], rfl⟩

/-- with an existing parent, `ensureAdd` is `unspec` or the plain `add`, uniformly in the value and
in the last token -/
theorem ensureAdd_of_parent (o : Opts) : ∀ (ts : List Bytes) (doc p : Value), parent o doc ts = .ok p →
    ∃ b : Bool, ∀ (v : Value) (t : Bytes),
      ensureAdd o v doc (ts ++ [t]) =
        if b then .unspec else (atParent o (addIn o v) doc (ts ++ [t])).bind fun r => .ok r.1 := by
  intro ts
  induction ts with
  | nil =>
    intro doc p h
    have hc := parent_ok_container h
    refine ⟨false, fun v t => ?_⟩
    simp only [List.nil_append, Bool.false_eq_true, if_false]
    rw [ensureAdd_single, atParent_single_of_container hc]
  | cons t1 ts ih =>
    intro doc p h
    cases doc with
    | obj ms =>
      rw [parent_cons_obj] at h
      cases hl : Value.lookup t1 ms with
      | none => rw [hl] at h; cases h
      | some child =>
        rw [hl] at h
        simp only at h
        obtain ⟨b, hb⟩ := ih child p h
        have hcc := parent_ok_container h
        refine ⟨b, fun v t => ?_⟩
        obtain ⟨t2, ts2, he⟩ := exists_cons_append ts t
        have hb' := hb v t
        rw [he] at hb'
        rw [List.cons_append, he, ensureAdd_obj_cons, atParent_obj_cons, hl]
        simp only [hcc, if_true, hb']
        cases b with
        | true => rfl
        | false =>
          simp only [Bool.false_eq_true, if_false]
          cases atParent o (addIn o v) child (t2 :: ts2) with
          | ok r => rfl
          | fail c => rfl
          | unspec => rfl
    | arr xs =>
      rw [parent_cons_arr] at h
      cases hr : readIdx o.neg xs.length t1 with
      | unspec => rw [hr] at h; cases h
      | bad => rw [hr] at h; cases h
      | «at» i =>
        rw [hr] at h
        simp only at h
        cases hx : xs[i]? with
        | none => rw [hx] at h; cases h
        | some child =>
          rw [hx] at h
          simp only at h
          obtain ⟨b, hb⟩ := ih child p h
          have hcc := parent_ok_container h
          have hr0 := hr
          simp only [readIdx] at hr0
          cases hc : classify t1 with
          | dash => rw [hc] at hr0; cases hr0
          | name => rw [hc] at hr0; cases hr0
          | noncanon => rw [hc] at hr0; cases hr0
          | int j =>
            rw [hc] at hr0
            simp only at hr0
            by_cases hj : j < 0
            · refine ⟨true, fun v t => ?_⟩
              obtain ⟨t2, ts2, he⟩ := exists_cons_append ts t
              rw [List.cons_append, he, ensureAdd_arr_cons, hc]
              simp only [hj, if_true]
            · have h0 : 0 ≤ j := by omega
              rw [if_pos h0] at hr0
              by_cases hlt : j.toNat < xs.length
              · rw [if_pos hlt] at hr0
                cases hr0
                by_cases hmax : j.toNat > ensureMaxIndex
                · refine ⟨true, fun v t => ?_⟩
                  obtain ⟨t2, ts2, he⟩ := exists_cons_append ts t
                  rw [List.cons_append, he, ensureAdd_arr_cons, hc]
                  simp only [hj, if_false, hmax, if_true]
                · refine ⟨b, fun v t => ?_⟩
                  obtain ⟨t2, ts2, he⟩ := exists_cons_append ts t
                  have hb' := hb v t
                  rw [he] at hb'
                  rw [List.cons_append, he, ensureAdd_arr_cons, atParent_arr_cons, hc, hr]
                  simp only [hj, if_false, hmax, hx, hcc, if_true, hb']
                  cases b with
                  | true => rfl
                  | false =>
                    simp only [Bool.false_eq_true, if_false]
                    cases atParent o (addIn o v) child (t2 :: ts2) with
                    | ok r => rfl
                    | fail c => rfl
                    | unspec => rfl
              · rw [if_neg hlt] at hr0; cases hr0
    | null => rw [parent_eq_nav, Impl.nav_noncontainer o _ _ rfl] at h; cases h
    | bool x => rw [parent_eq_nav, Impl.nav_noncontainer o _ _ rfl] at h; cases h
    | num l => rw [parent_eq_nav, Impl.nav_noncontainer o _ _ rfl] at h; cases h
    | str s => rw [parent_eq_nav, Impl.nav_noncontainer o _ _ rfl] at h; cases h

/-- `add` at `ts ++ [t]` with an existing parent, whatever EnsurePathExistsOnAdd says: outside the
domain (`b`, only with the option on) or the plain walk — and `b` does not depend on the last
token, the value, the size or the accumulator -/
theorem applyOp_add_of_parent (o : Opts) (doc p : Value) (ts : List Bytes)
    (hpar : parent o doc ts = .ok p) :
    ∃ b : Bool, (o.ensure = false → b = false) ∧
      ∀ (sz acc : Nat) (v : Value) (t : Bytes) (path : Bytes), parsePointer path = some (ts ++ [t]) →
        applyOp o sz acc doc { kind := .add, path := path, value := some v } =
          if b then .unspec
          else (atParent o (addIn o v) doc (ts ++ [t])).bind fun vb => .ok (vb.1, acc) := by
  cases he : o.ensure with
  | false =>
    refine ⟨false, fun _ => rfl, fun sz acc v t path hp => ?_⟩
    rw [applyOp_add_toks hp (append_singleton_ne_nil _ _) he]
    rfl
  | true =>
    obtain ⟨b, hb⟩ := ensureAdd_of_parent o ts doc p hpar
    refine ⟨b, fun h => (by cases h), fun sz acc v t path hp => ?_⟩
    obtain ⟨t2, ts2, he2⟩ := exists_cons_append ts t
    rw [he2] at hp
    rw [applyOp_add_cons (op := { kind := .add, path := path, value := some v }) hp rfl rfl, he,
      ← he2, hb v t]
    cases b with
    | true => rfl
    | false =>
      simp only [if_true, Bool.false_eq_true, if_false]
      cases atParent o (addIn o v) doc (ts ++ [t]) with
      | ok r => rfl
      | fail c => rfl
      | unspec => rfl

end Laws
end JP
