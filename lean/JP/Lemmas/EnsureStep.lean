import JP.Lemmas.EnsureTok

/-!
# EnsurePathExistsOnAdd, part 2: one step of `Impl.ensure`

(The equation is the one of `JP/Lemmas/ApplyBasic.lean`, restated here under other names because
that file and the engine-refinement files declare a common name.)
-/

namespace JP
namespace Ens

open Impl

/-- the node `ensurePathExists` finds at `key`, `none` when it has to be created -/
def target (o : Opts) (self con : Node) (key : Bytes) : Option Node :=
  match conGet o self con key with
  | .ok .nil => none
  | .ok n => some n
  | _ => none

/-- padding of the current array up to the index about to be created -/
def pad (part : Bytes) (con : Node) : Node :=
  match atoi part, con with
  | some ai, .ary nodes =>
    if ai ≥ (nodes.length : Int) + 1 then .ary (nodes ++ padNulls (ai.toNat - nodes.length)) else con
  | _, _ => con

/-- entering the node `get key` returned (the flag and the key are no longer consulted) -/
def enter (_cr : Bool) (_key : Bytes) (next : Node) : Outcome Node :=
  intoContainer next

/-- `doc.add(key, child)` with the error ignored -/
def addIgn (o : Opts) (con1 : Node) (key : Bytes) (self : Node) :
    Outcome (Node × Node) → Outcome (Node × Node)
  | .ok (child, _) =>
    (match conAdd o con1 key child with
     | .ok con2 => .ok (con2, self)
     | .err _ => .ok (con1, self)
     | .panic => .panic)
  | .err e => .err e
  | .panic => .panic

def putRes (o : Opts) (con : Node) (key : Bytes) (self : Node) :
    Outcome (Node × Node) → Outcome (Node × Node)
  | .ok (child', _) => .ok (putChild o con key child', self)
  | .err e => .err e
  | .panic => .panic

theorem ensure_cons2 (o : Opts) (cr : Bool) (self con : Node) (part nxt : Bytes) (rest : List Bytes) :
    ensure o cr self con (part :: nxt :: rest) =
      match target o self con (decodeToken part) with
      | none =>
        if (atoi nxt).isSome ∨ nxt = [45] then
          if (atoi nxt).getD 0 < 0 ∧ !o.neg then .err .invalidIndex
          else if (atoi nxt).getD 0 < -1 then .err .invalidIndex
          else
            addIgn o (pad part con) (decodeToken part) self
              (ensure o false .nil
                (.ary (padNulls (if (atoi nxt).getD 0 < 0 then 0 else ((atoi nxt).getD 0).toNat))) (nxt :: rest))
        else
          addIgn o (pad part con) (decodeToken part) self
            (ensure o false .nil (.doc [] []) (nxt :: rest))
      | some t =>
        match enter cr (decodeToken part) t with
        | .panic => .panic
        | .err e => .err e
        | .ok child => putRes o con (decodeToken part) self (ensure o false .nil child (nxt :: rest)) := by
  rw [ensure.eq_def]
  simp only [target, enter, pad]
  cases hc : conGet o self con (decodeToken part) with
  | panic =>
    simp only []
    split
    · split; · rfl
      split; · rfl
      generalize ensure o false Node.nil _ (nxt :: rest) = x
      cases x with
      | ok p => cases p; rfl
      | err e => rfl
      | panic => rfl
    · generalize ensure o false Node.nil _ (nxt :: rest) = x
      cases x with
      | ok p => cases p; rfl
      | err e => rfl
      | panic => rfl
  | err e =>
    simp only []
    split
    · split; · rfl
      split; · rfl
      generalize ensure o false Node.nil _ (nxt :: rest) = x
      cases x with
      | ok p => cases p; rfl
      | err e => rfl
      | panic => rfl
    · generalize ensure o false Node.nil _ (nxt :: rest) = x
      cases x with
      | ok p => cases p; rfl
      | err e => rfl
      | panic => rfl
  | ok n =>
    cases n with
    | nil =>
      simp only []
      split
      · split; · rfl
        split; · rfl
        generalize ensure o false Node.nil _ (nxt :: rest) = x
        cases x with
        | ok p => cases p; rfl
        | err e => rfl
        | panic => rfl
      · generalize ensure o false Node.nil _ (nxt :: rest) = x
        cases x with
        | ok p => cases p; rfl
        | err e => rfl
        | panic => rfl
    | _ =>
      simp only []
      generalize intoContainer _ = x
      cases x with
      | panic => rfl
      | err e => rfl
      | ok child =>
        simp only []
        generalize ensure o false Node.nil child (nxt :: rest) = y
        cases y with
        | ok p => cases p; rfl
        | err e => rfl
        | panic => rfl

end Ens
end JP
