import JP.Lemmas.CloseClass

/-!
# `copy` with a positive AccumulatedCopySizeLimit

The engine refinement of `JP/Props/C01.lean` is stated for `o.limit = 0`.  Here `copy` is treated
for any limit: the specification takes the size of the copied value as a parameter `sz`; when it
is the size the model's `deepCopy` reports (`copySizeOf`, `JP/Check.lean`) and the two running
totals agree, `opCopy` refines `Spec.applyOp`, the limit check included, and the error classes
correspond (`copyLimit` ↔ `AccumulatedCopySizeError`).
-/

namespace JP
namespace Impl

open Spec (Res Cause)

theorem spec_copy_lim {so : Spec.Opts} {sz acc : Nat} {doc : Value} {sop : Spec.Op} {ptoks ftoks : List Bytes}
    (hk : sop.kind = .copy) (hp : Spec.parsePointer sop.path = some ptoks)
    (hf : Spec.parsePointer sop.frm = some ftoks) :
    Spec.applyOp so sz acc doc sop =
      (eng_copySrc so doc ftoks).bind fun v =>
        match ptoks with
        | [] => .unspec
        | _ :: _ =>
          (Spec.atParent so (fun p _ => .ok (p, ())) doc ptoks).bind fun _ =>
            if so.limit > 0 ∧ acc + sz > so.limit then .fail .copyLimit
            else (Spec.atParent so (Spec.addIn so v) doc ptoks).bind fun vb => .ok (vb.1, acc + sz) := by
  simp only [Spec.applyOp, hp, hk, hf, eng_copySrc]
  cases ftoks with
  | nil =>
    simp only [Res.bind]
    cases ptoks <;> rfl
  | cons ft fts =>
    simp only
    cases Spec.atParent so (Spec.getIn so false) doc (ft :: fts) with
    | ok pv => simp only [Res.bind]; cases ptoks <;> rfl
    | fail c => rfl
    | unspec => rfl

theorem eng_afterW_eq {α} (r : Root) (w : Walk α) : eng_afterW r w = afterW r w := by
  cases w <;> rfl

theorem srcOf_eq (o : Opts) (r2 : Root) (f : Bytes) : srcOf o r2 f = copySrc o r2 f := rfl

theorem actProbe_destWalk (o : Opts) (r : Root) (path : Bytes) : withPath o r path actProbe = destWalk o r path := rfl

/-- the limit checks of the specification and of the engine agree -/
theorem limit_check_iff (lim : Int) (acc sz : Nat) :
    (lim.toNat > 0 ∧ acc + sz > lim.toNat) ↔ (lim > 0 ∧ (acc : Int) + (sz : Int) > lim) := by
  constructor
  · rintro ⟨h1, h2⟩
    have : lim > 0 := by omega
    exact ⟨this, by omega⟩
  · rintro ⟨h1, h2⟩
    exact ⟨by omega, by omega⟩

/-- **`copy` for any limit**: refinement and error classes in one statement.  `sz` is the size the
specification is given; `hsz` says it is the size the model reports whenever source and
destination of the copy resolve; `acc` is the common running total. -/
theorem opCopy_lim {o : Opts} {r : Root} {op : Op} {sop : Spec.Op} {f : Bytes}
    (sz acc : Nat) (hr : InvRoot o.esc r)
    (hk : sop.kind = .copy) (hpath : sop.path = op.path) (hfo : op.frm = some f) (hfrm : sop.frm = f)
    (hq : ∀ toks, Spec.parsePointer op.path = some toks → ∀ t ∈ toks, QK o.esc t = true)
    (hsz : CopyResolves o r op → sz = copySizeOf o r op) :
    match Spec.applyOp (specOpts o) sz acc (den r.con) sop with
    | .ok va => ∃ r', opCopy o r (acc : Int) op = .ok (r', (va.2 : Int)) ∧ InvRoot o.esc r' ∧ den r'.con = va.1
    | .fail c => OpC2 c (opCopy o r (acc : Int) op)
    | .unspec => True := by
  cases hp : Spec.parsePointer op.path with
  | none =>
    -- the destination is outside RFC 6901: never a success; the class is that of the source half
    cases hres : Spec.applyOp (specOpts o) sz acc (den r.con) sop with
    | ok va => exact absurd hres (spec_path_none_not_ok (by rw [hpath]; exact hp) va)
    | fail c => exact opCopy_path_none_class sz acc (acc : Int) hr hk hpath hfo hfrm hp hres
    | unspec => trivial
  | some ptoks =>
    have hp' : Spec.parsePointer sop.path = some ptoks := by rw [hpath]; exact hp
    cases hpf : Spec.parsePointer f with
    | none =>
      rw [spec_copy_none hk hp' (by rw [hfrm]; exact hpf)]
      exact ⟨.missing, opCopy_from_none hfo hpf, ErrC_missing (Or.inr rfl)⟩
    | some ftoks =>
      rw [spec_copy_lim hk hp' (by rw [hfrm]; exact hpf), eng_opCopy_eq o r (acc : Int) op f hfo]
      have h1 := copy_phase1 (o := o) hr hpf
      cases hsrc : eng_copySrc (specOpts o) (den r.con) ftoks with
      | unspec => trivial
      | fail c =>
        -- the source cannot be read
        simp only [Res.bind]
        cases ftoks with
        | nil => simp [eng_copySrc] at hsrc
        | cons ft fts =>
          simp only [eng_copySrc] at hsrc
          rcases bind_fail hsrc with hf | ⟨a, _, hx⟩
          · have hw := withPath_class (o := o) (act := actCopySrc o) hr hpf (by simp)
              (fun key _ => actCopySrc_class) hf
            rw [← copySource_eq] at hw
            have hne : f ≠ [] := fun h => by
              have := (parsePointer_nil_iff hpf).2 h; cases this
            rw [copyFirst_ne o r hne]
            obtain ⟨ha, hcl⟩ := failOfW_class (r := r) hw
            simp only [ha]
            exact hcl
          · cases hx
      | ok v =>
        rw [hsrc] at h1
        obtain ⟨r1, ha, hr1, hd1⟩ := h1
        simp only [Res.bind, ha]
        cases ptoks with
        | nil => trivial
        | cons pt pts =>
          simp only
          have hw2 : WalkRef o.esc r1 (fun _ _ => True)
              (Spec.atParent (specOpts o) (fun p _ => (.ok (p, ()) : Res (Value × Unit))) (den r1.con) (pt :: pts))
              (withPath o r1 op.path actProbe) :=
            withPath_walkRef hr1 hp (by simp) (fun key _ => actProbe_ref)
          cases hres2 : Spec.atParent (specOpts o) (fun p _ => (.ok (p, ()) : Res (Value × Unit)))
              (den r.con) (pt :: pts) with
          | unspec => trivial
          | fail c =>
            rw [← hd1] at hres2
            have hw := withPath_class (o := o) (act := actProbe) hr1 hp (by simp)
              (fun key _ => actProbe_class) hres2
            obtain ⟨ha2, hcl⟩ := failOfW_class (r := r1) hw
            simp only [ha2]
            exact hcl
          | ok u =>
            rw [hd1, hres2] at hw2
            simp only [WalkRef] at hw2
            obtain ⟨con2, a, hw, h21, h22, h23, _⟩ := hw2
            rw [hw]
            simp only [eng_afterW]
            have hd2 : den con2 = den r.con := by
              rw [h23]
              exact atParent_same _ _ (fun p t pb h => by cases h; rfl) _ _ (by simp) _ hres2
            have hr2 : InvRoot o.esc { r1 with con := con2 } := ⟨h21, h22⟩
            have hs := copy_src (o := o) hr2 hd2 hpf
            rw [hsrc] at hs
            obtain ⟨val, hsv, hval, hdv⟩ := hs
            obtain ⟨hcp, hcpd⟩ := deepCopy_spec hval
            -- the size the specification was given is the size `deepCopy` reports
            have hres : CopyResolves o r op := by
              refine ⟨f, r1, { r1 with con := con2 }, val, hfo, ?_, ?_, ?_, ?_⟩
              · rw [← eng_afterW_eq]; exact ha
              · rw [← actProbe_destWalk, hw]; rfl
              · rw [← srcOf_eq]; exact hsv
              · rintro ⟨_, h⟩
                rw [isDocNil_of_isCon h22] at h
                cases h
            have hsize : sz = (deepCopy o.esc val).2 := by
              rw [hsz hres]
              obtain ⟨_, _, _, _, _⟩ := hres
              exact copySizeOf_of_resolves hfo (by rw [← eng_afterW_eq]; exact ha)
                (by rw [← actProbe_destWalk, hw]; rfl) (by rw [← srcOf_eq]; exact hsv)
            have hlim := limit_check_iff o.limit acc sz
            simp only [copyTail, hsv, isDocNil_of_isCon h22, Bool.and_false, Bool.false_eq_true, if_false]
            have hspeclim : (specOpts o).limit = o.limit.toNat := rfl
            rw [hspeclim]
            by_cases hover : o.limit > 0 ∧ (acc : Int) + (sz : Int) > o.limit
            · rw [if_pos (hlim.2 hover)]
              rw [← hsize, if_pos hover]
              exact ⟨.copySize, rfl, ⟨(fun h => nomatch h), (fun h => nomatch h)⟩, ⟨fun _ => rfl, fun _ => rfl⟩,
                fun h => by simp at h⟩
            · rw [if_neg (fun h => hover (hlim.1 h))]
              rw [← hsize, if_neg hover]
              have hw3 := addAt_refines (o := o) (path := op.path) hr2 hcp hp (by simp) (hq _ hp)
              simp only [hcpd, hdv, hd2] at hw3
              cases hres3 : Spec.atParent (specOpts o) (Spec.addIn (specOpts o) v) (den r.con) (pt :: pts) with
              | unspec => trivial
              | fail c =>
                simp only [Res.bind]
                have hadd := hres3
                rw [← hd2, ← hdv, ← hcpd] at hadd
                have hwc := withPath_class (o := o) (act := actAdd o (deepCopy o.esc val).1) (path := op.path)
                  hr2 hp (by simp) (fun key hmem => actAdd_class hcp (hq _ hp key hmem)) hadd
                obtain ⟨ha3, hcl⟩ := failOfW_class (r := { r1 with con := con2 }) hwc
                simp only [ha3]
                exact hcl
              | ok vb =>
                rw [hres3] at hw3
                simp only [WalkRef] at hw3
                obtain ⟨con3, a3, hw', h31, h32, h33, _⟩ := hw3
                rw [hw']
                simp only [Res.bind, eng_afterW]
                refine ⟨{ r1 with con := con3 }, ?_, ⟨h31, h32⟩, h33⟩
                simp only [Int.natCast_add]

end Impl
end JP
