import JP.Lemmas.ErrClass
import JP.Check

/-!
# `opCopy` and `copySizeOf` in a convenient form
-/

namespace JP
namespace Impl

/-- the state after a walk that found its container -/
def afterW (r : Root) {α} (w : Walk α) : Option Root :=
  match w with
  | .done con _ => some { r with con := con }
  | .doneSelf s _ => some { r with self := s }
  | _ => none

/-- the outcome of a copy whose walk did not find its container -/
def failOf {α} (w : Walk α) : Outcome (Root × Int) :=
  match w with
  | .panic => .panic
  | .fail e => .err e
  | _ => .err .missing

/-- the walk to the destination container of a copy -/
def destWalk (o : Opts) (r : Root) (path : Bytes) : Walk Unit :=
  withPath o r path fun _ con _ => .ok (con, ())

/-- re-reading the source of a copy -/
def copySrc (o : Opts) (r2 : Root) (frm : Bytes) : Outcome Node :=
  if frm = [] then .ok r2.con
  else match copySource o r2 frm with
    | .done _ v => .ok v
    | .doneSelf _ v => .ok v
    | .panic => .panic
    | _ => .err .other

/-- the final `add` of a copy -/
def addWalk (o : Opts) (r : Root) (path : Bytes) (val : Node) : Walk Unit :=
  withPath o r path fun _ con key =>
    match conAdd o con key val with
    | .ok con' => .ok (con', ())
    | .err e => .err e
    | .panic => .panic

theorem opCopy_eq (o : Opts) (r : Root) (acc : Int) (op : Op) :
    opCopy o r acc op =
      match op.frm with
      | none => .err .missing
      | some frm =>
        match afterW r (copyFirst o r frm) with
        | none => failOf (copyFirst o r frm)
        | some r1 =>
          match afterW r1 (destWalk o r1 op.path) with
          | none => failOf (destWalk o r1 op.path)
          | some r2 =>
            match copySrc o r2 frm with
            | .panic => .panic
            | .err e => .err e
            | .ok val =>
              if frm = [] && isDocNil r2.con then .err .expectedObject
              else if o.limit > 0 ∧ acc + ((deepCopy o.esc val).2 : Int) > o.limit then .err .copySize
              else
                match afterW r2 (addWalk o r2 op.path (deepCopy o.esc val).1) with
                | some r3 => .ok (r3, acc + ((deepCopy o.esc val).2 : Int))
                | none => failOf (addWalk o r2 op.path (deepCopy o.esc val).1) := by
  unfold opCopy
  cases op.frm with
  | none => rfl
  | some frm => rfl

/-- the source value as `copySizeOf` reads it -/
def srcVal (o : Opts) (r2 : Root) (frm : Bytes) : Node :=
  if frm = [] then r2.con
  else match copySource o r2 frm with
    | .done _ v' => v'
    | .doneSelf _ v' => v'
    | _ => .nil

theorem copySizeOf_eq (o : Opts) (r : Root) (op : Op) :
    copySizeOf o r op =
      match op.frm with
      | none => 0
      | some frm =>
        match afterW r (copyFirst o r frm) with
        | some r1 =>
          match afterW r1 (destWalk o r1 op.path) with
          | some r2 => (deepCopy o.esc (srcVal o r2 frm)).2
          | none => 0
        | none => 0 := by
  unfold copySizeOf
  cases op.frm with
  | none => rfl
  | some frm => rfl

theorem srcVal_of_copySrc {o r2 frm val} (h : copySrc o r2 frm = .ok val) : srcVal o r2 frm = val := by
  unfold copySrc at h
  unfold srcVal
  split
  · simp_all
  · rename_i hf
    simp only [hf, if_false] at h
    split at h <;> simp_all

/-- source and destination of a copy resolve: both walks of `opCopy` find their container
and the source can be read again (the second walk may have parsed inside it) -/
def CopyResolves (o : Opts) (r : Root) (op : Op) : Prop :=
  ∃ frm r1 r2 val, op.frm = some frm ∧ afterW r (copyFirst o r frm) = some r1 ∧
    afterW r1 (destWalk o r1 op.path) = some r2 ∧ copySrc o r2 frm = .ok val ∧
    ¬ (frm = [] ∧ isDocNil r2.con = true)

theorem copySizeOf_of_resolves {o r op frm r1 r2 val} (h0 : op.frm = some frm)
    (h1 : afterW r (copyFirst o r frm) = some r1)
    (h2 : afterW r1 (destWalk o r1 op.path) = some r2) (h3 : copySrc o r2 frm = .ok val) :
    copySizeOf o r op = (deepCopy o.esc val).2 := by
  rw [copySizeOf_eq, h0]
  simp only [h1, h2, srcVal_of_copySrc h3]

theorem failOf_err {α} {w : Walk α} {e : Err} (h : failOf w = .err e) : w = .fail e ∨ e = .missing := by
  cases w <;> simp only [failOf] at h <;> first | contradiction | (cases h; simp)

theorem copySource_fail_not_special {o r frm e} (h : copySource o r frm = .fail e) : ¬ Special e := by
  refine withPath_fail o _ _ _ (fun e => ¬ Special e) ?_ h
  intro s c k e h
  split at h
  · contradiction
  · rename_i h1; cases h; exact conGet_not_special h1
  · contradiction

theorem copyFirst_fail_not_special {o r frm e} (h : copyFirst o r frm = .fail e) : ¬ Special e := by
  unfold copyFirst at h
  split at h
  · split at h
    · cases h; simp [Special]
    · contradiction
  · exact copySource_fail_not_special h

theorem destWalk_fail_not_special {o r path e} (h : destWalk o r path = .fail e) : ¬ Special e := by
  refine withPath_fail o _ _ _ (fun e => ¬ Special e) ?_ h
  intro s c k e h
  contradiction

theorem addWalk_fail_not_special {o r path val e} (h : addWalk o r path val = .fail e) : ¬ Special e := by
  refine withPath_fail o _ _ _ (fun e => ¬ Special e) ?_ h
  intro s c k e h
  exact conAdd_not_special (liftAct_err h)

theorem copySrc_err {o r frm e} (h : copySrc o r frm = .err e) : e = .other := by
  unfold copySrc at h
  split at h
  · contradiction
  · split at h <;> first | contradiction | (cases h; rfl)

theorem failOf_not_special {α} {w : Walk α} {e : Err} (hw : ∀ e, w = .fail e → ¬ Special e)
    (h : failOf w = .err e) : ¬ Special e := by
  rcases failOf_err h with h | h
  · exact hw _ h
  · subst h; simp [Special]

/-- the errors of a copy: the copy-size error arises only from the limit check -/
theorem opCopy_err_special {o r acc op e} (h : opCopy o r acc op = .err e) (hs : Special e) :
    e = .copySize ∧ o.limit > 0 ∧ ∃ frm r1 r2 val, op.frm = some frm ∧
      afterW r (copyFirst o r frm) = some r1 ∧
      afterW r1 (destWalk o r1 op.path) = some r2 ∧ copySrc o r2 frm = .ok val ∧
      ¬ (frm = [] ∧ isDocNil r2.con = true) ∧ acc + ((deepCopy o.esc val).2 : Int) > o.limit := by
  rw [opCopy_eq] at h
  split at h
  · cases h; simp [Special] at hs
  · rename_i frm hfrm
    split at h
    · exact absurd hs (failOf_not_special (fun e h => copyFirst_fail_not_special h) h)
    · rename_i r1 h1
      split at h
      · exact absurd hs (failOf_not_special (fun e h => destWalk_fail_not_special h) h)
      · rename_i r2 h2
        split at h
        · contradiction
        · rename_i e' h3
          cases h
          rw [copySrc_err h3] at hs
          simp [Special] at hs
        · rename_i val h3
          split at h
          · cases h; simp [Special] at hs
          · rename_i hnil
            split at h
            · rename_i hlim
              cases h
              refine ⟨rfl, hlim.1, frm, r1, r2, val, hfrm, h1, h2, h3, ?_, hlim.2⟩
              simpa [Bool.and_eq_true, decide_eq_true_eq] using hnil
            · split at h
              · contradiction
              · exact absurd hs (failOf_not_special (fun e h => addWalk_fail_not_special h) h)

theorem opCopy_ok_acc {o r acc op r' acc'} (h : opCopy o r acc op = .ok (r', acc')) :
    acc' = acc + (copySizeOf o r op : Int) := by
  rw [opCopy_eq] at h
  split at h
  · contradiction
  · rename_i frm hfrm
    split at h
    · rename_i hn; cases hw : copyFirst o r frm <;> simp [hw, failOf] at h
    · rename_i r1 h1
      split at h
      · cases hw : destWalk o r1 op.path <;> simp [hw, failOf] at h
      · rename_i r2 h2
        split at h
        · contradiction
        · contradiction
        · rename_i val h3
          split at h
          · contradiction
          · split at h
            · contradiction
            · split at h
              · cases h
                rw [copySizeOf_of_resolves hfrm h1 h2 h3]
              · rename_i hn
                cases hw : addWalk o r2 op.path (deepCopy o.esc val).1 <;> simp [hw, failOf] at h

/-- exactness of the limit check -/
theorem opCopy_copySize_iff (o : Opts) (r : Root) (acc : Int) (op : Op) :
    opCopy o r acc op = .err .copySize ↔
      (o.limit > 0 ∧ CopyResolves o r op ∧ acc + (copySizeOf o r op : Int) > o.limit) := by
  constructor
  · intro h
    obtain ⟨_, hl, frm, r1, r2, val, h0, h1, h2, h3, h4, h5⟩ := opCopy_err_special h special_copySize
    refine ⟨hl, ⟨frm, r1, r2, val, h0, h1, h2, h3, h4⟩, ?_⟩
    rw [copySizeOf_of_resolves h0 h1 h2 h3]; exact h5
  · rintro ⟨hl, ⟨frm, r1, r2, val, h0, h1, h2, h3, h4⟩, h5⟩
    rw [copySizeOf_of_resolves h0 h1 h2 h3] at h5
    rw [opCopy_eq, h0]
    simp only [h1, h2, h3]
    have : (frm = [] && isDocNil r2.con) = false := by
      cases hb : (frm = [] && isDocNil r2.con)
      · rfl
      · simp only [Bool.and_eq_true, decide_eq_true_eq] at hb; exact absurd hb h4
    rw [this]
    simp only [Bool.false_eq_true, if_false]
    rw [if_pos ⟨hl, h5⟩]

/-! ### `opTest` never reports the copy-size error; `applyOp` -/

theorem opTest_not_copySize {o r op e} (h : opTest o r op = .err e) : e ≠ .copySize := by
  unfold opTest at h
  split at h
  · split at h
    split at h
    · contradiction
    · cases h; simp
  · rcases liftWalk_err h with h | ⟨_, h⟩
    · refine withPath_fail o _ _ _ (fun e => e ≠ .copySize) ?_ h
      intro s c k e h
      simp only [] at h
      split at h
      · contradiction
      · rename_i e' hg
        cases h
        split at hg
        · contradiction
        · intro he; subst he; exact conGet_not_special hg special_copySize
      · repeat' split at h
        all_goals first
          | contradiction
          | (cases h; simp)
    · cases h; simp

/-- the result of a non-copy operation inside `applyOp` -/
def liftAcc (acc : Int) (x : Outcome Root) : Outcome (Root × Int) :=
  match x with
  | .ok r' => .ok (r', acc)
  | .err e => .err e
  | .panic => .panic

theorem applyOp_eq (o : Opts) (r : Root) (acc : Int) (op : Op) :
    applyOp o r acc op =
      if op.kind = ascii "add" then liftAcc acc (opAdd o r op)
      else if op.kind = ascii "remove" then liftAcc acc (opRemove o r op)
      else if op.kind = ascii "replace" then liftAcc acc (opReplace o r op)
      else if op.kind = ascii "move" then liftAcc acc (opMove o r op)
      else if op.kind = ascii "test" then liftAcc acc (opTest o r op)
      else if op.kind = ascii "copy" then opCopy o r acc op
      else .err .other := rfl

theorem liftAcc_err {acc x e} (h : liftAcc acc x = .err e) : x = .err e := by
  cases x <;> simp_all [liftAcc]

theorem liftAcc_ok {acc x r' acc'} (h : liftAcc acc x = .ok (r', acc')) : x = .ok r' ∧ acc' = acc := by
  cases x <;> simp_all [liftAcc]

theorem applyOp_copy {o r acc op} (h : op.kind = ascii "copy") :
    applyOp o r acc op = opCopy o r acc op := by
  rw [applyOp_eq, h]
  simp [ascii]

theorem applyOp_testFailed {o r acc op} (h : applyOp o r acc op = .err .testFailed) :
    op.kind = ascii "test" := by
  rw [applyOp_eq] at h
  repeat' split at h
  · exact absurd special_testFailed (opAdd_not_special (liftAcc_err h))
  · exact absurd special_testFailed (opRemove_not_special (liftAcc_err h))
  · exact absurd special_testFailed (opReplace_not_special (liftAcc_err h))
  · exact absurd special_testFailed (opMove_not_special (liftAcc_err h))
  · assumption
  · have := (opCopy_err_special h special_testFailed).1; contradiction
  · cases h

theorem applyOp_copySize {o r acc op} (h : applyOp o r acc op = .err .copySize) :
    op.kind = ascii "copy" ∧ o.limit > 0 := by
  have h' := h
  rw [applyOp_eq] at h
  repeat' split at h
  · exact absurd special_copySize (opAdd_not_special (liftAcc_err h))
  · exact absurd special_copySize (opRemove_not_special (liftAcc_err h))
  · exact absurd special_copySize (opReplace_not_special (liftAcc_err h))
  · exact absurd special_copySize (opMove_not_special (liftAcc_err h))
  · exact absurd rfl (opTest_not_copySize (liftAcc_err h))
  · exact ⟨‹_›, (opCopy_err_special h special_copySize).2.1⟩
  · cases h

theorem applyOp_not_copy_acc {o r acc op r' acc'} (hk : op.kind ≠ ascii "copy")
    (h : applyOp o r acc op = .ok (r', acc')) : acc' = acc := by
  rw [applyOp_eq] at h
  repeat' split at h
  all_goals first
    | exact (liftAcc_ok h).2
    | contradiction
    | cases h

end Impl
end JP
