import JP.Lemmas.EnsureStep

/-!
# EnsurePathExistsOnAdd, part 3: specification-side equations
(`Spec.ensureAdd`, `Spec.atParent` one step, association-list and list facts)
-/

namespace JP
namespace Ens

open Impl
open Spec (Res)

/-! ### `ensureAdd` equations -/

theorem ensureAdd_nil (so : Spec.Opts) (v c : Value) : Spec.ensureAdd so v c [] = .unspec := by
  cases c <;> rfl

theorem ensureAdd_single (so : Spec.Opts) (v c : Value) (t : Bytes) :
    Spec.ensureAdd so v c [t] = (Spec.addIn so v c t).bind fun ca => .ok ca.1 := by
  cases c <;> rfl

theorem ensureAdd_obj_cons (so : Spec.Opts) (v : Value) (ms : Value.Members) (t t2 : Bytes) (ts : List Bytes) :
    Spec.ensureAdd so v (.obj ms) (t :: t2 :: ts) =
      match Value.lookup t ms with
      | some child =>
        if child.isContainer then
          (Spec.ensureAdd so v child (t2 :: ts)).bind fun c' => .ok (.obj (Value.set t c' ms))
        else .unspec
      | none =>
        (Spec.freshFor t2).bind fun fresh =>
          (Spec.ensureAdd so v fresh (t2 :: ts)).bind fun inner => .ok (.obj (ms ++ [(t, inner)])) := rfl

theorem ensureAdd_arr_cons (so : Spec.Opts) (v : Value) (xs : List Value) (t t2 : Bytes) (ts : List Bytes) :
    Spec.ensureAdd so v (.arr xs) (t :: t2 :: ts) =
      match Spec.classify t with
      | .int i =>
        if i < 0 then .unspec
        else if i.toNat > Spec.ensureMaxIndex then .unspec
        else
          match xs[i.toNat]? with
          | some child =>
            if child.isContainer then
              (Spec.ensureAdd so v child (t2 :: ts)).bind fun c' => .ok (.arr (Spec.setAt i.toNat c' xs))
            else .unspec
          | none =>
            (Spec.freshFor t2).bind fun fresh =>
              (Spec.ensureAdd so v fresh (t2 :: ts)).bind fun inner =>
                .ok (.arr (xs ++ List.replicate (i.toNat - xs.length) .null ++ [inner]))
      | _ => .unspec := rfl

theorem freshFor_ne_fail (t : Bytes) (c : Spec.Cause) : Spec.freshFor t ≠ .fail c := by
  simp only [Spec.freshFor]
  split
  · simp
  · split
    · simp
    · split <;> simp
  · simp
  · simp

/-! ### association lists and lists -/

theorem set_of_lookup_none (k : Bytes) (v : Value) (ms : Value.Members) (h : Value.lookup k ms = none) :
    Value.set k v ms = ms ++ [(k, v)] := by
  induction ms with
  | nil => rfl
  | cons m ms ih =>
    obtain ⟨k', v'⟩ := m
    simp only [Value.lookup] at h
    split at h
    · cases h
    · next hk => simp only [Value.set, hk, if_false, ih h, List.cons_append]

theorem set_set (k : Bytes) (a b : Value) (ms : Value.Members) :
    Value.set k a (Value.set k b ms) = Value.set k a ms := by
  induction ms with
  | nil => simp [Value.set]
  | cons m ms ih =>
    obtain ⟨k', v'⟩ := m
    simp only [Value.set]
    split
    · simp [Value.set]
    · next hk => simp only [Value.set, hk, if_false, ih]

theorem setAt_setAt {α} (i : Nat) (a b : α) (xs : List α) :
    Spec.setAt i a (Spec.setAt i b xs) = Spec.setAt i a xs := by
  induction xs generalizing i with
  | nil => cases i <;> rfl
  | cons x xs ih => cases i with
    | zero => rfl
    | succ i => simp [Spec.setAt, ih]

theorem setAt_append_last {α} (a b : α) (xs : List α) :
    Spec.setAt xs.length a (xs ++ [b]) = xs ++ [a] := by
  induction xs with
  | nil => rfl
  | cons x xs ih => simp [Spec.setAt, ih]

/-! ### one step of `atParent` -/

theorem atParent_obj_step {α} (so : Spec.Opts) (f : Value → Bytes → Res (Value × α))
    (t t2 : Bytes) (ts : List Bytes) (ms : Value.Members) (dc : Value) (h : Value.lookup t ms = some dc) :
    Spec.atParent so f (.obj ms) (t :: t2 :: ts) =
      (Spec.atParent so f dc (t2 :: ts)).bind fun ca => .ok (.obj (Value.set t ca.1 ms), ca.2) := by
  simp only [Spec.atParent, h]

theorem atParent_arr_step {α} (so : Spec.Opts) (f : Value → Bytes → Res (Value × α))
    (t t2 : Bytes) (ts : List Bytes) (xs : List Value) (i : Nat) (dc : Value)
    (hr : Spec.readIdx so.neg xs.length t = .at i) (h : xs[i]? = some dc) :
    Spec.atParent so f (.arr xs) (t :: t2 :: ts) =
      (Spec.atParent so f dc (t2 :: ts)).bind fun ca => .ok (.arr (Spec.setAt i ca.1 xs), ca.2) := by
  simp only [Spec.atParent, hr, h]

theorem atParent_single {α} (so : Spec.Opts) (f : Value → Bytes → Res (Value × α)) (c : Value) (t : Bytes)
    (h : c.isContainer = true) : Spec.atParent so f c [t] = f c t := by
  cases c <;> simp [Value.isContainer, Value.isObj, Value.isArr] at h <;> rfl

theorem readIdx_int {neg : Bool} {n : Nat} {t : Bytes} {i : Int} (h : Spec.classify t = .int i)
    (h0 : ¬ i < 0) (hn : i.toNat < n) : Spec.readIdx neg n t = .at i.toNat := by
  have : 0 ≤ i := by omega
  simp only [Spec.readIdx, h, this, if_true, hn]

theorem classify_int_ne_dash {t : Bytes} {i : Int} (h : Spec.classify t = .int i) : t ≠ [45] := by
  intro ht; subst ht; rw [classify_dash] at h; cases h

/-! ### the padding -/

theorem Inv_rawNull (e : Bool) : Inv e rawNull :=
  (Inv_raw e litNull).2 ⟨by rw [litNull_valueOf]; rfl, CstOK_litNull e⟩

theorem den_rawNull : den rawNull = .null := by
  show den (.raw litNull) = .null
  simp only [den]; exact litNull_valueOf

theorem denL_padNulls (n : Nat) : denL (padNulls n) = List.replicate n .null := by
  simp only [denL_eq_map, padNulls, List.map_replicate, den_rawNull]

theorem InvL_padNulls (e : Bool) (n : Nat) : InvL e (padNulls n) := by
  intro x hx
  rw [padNulls] at hx
  rw [List.eq_of_mem_replicate hx]
  exact Inv_rawNull e

theorem padNulls_length (n : Nat) : (padNulls n).length = n := by simp [padNulls]

end Ens
end JP
