import JP.Lemmas.EqvBasic
import JP.Spec.Rfc6902

/-!
# Order, frame and literal lemmas at the level of one container

`keys`, `lookup`, `numLits` of `Value.set` / `Value.erase` (objects) and element lemmas for
`Spec.insertAt` / `Spec.setAt` / `List.eraseIdx` (arrays).
-/

namespace JP
namespace Value

/-! ### names of an object after `set` / `erase` -/

theorem keys_nil : keys [] = [] := rfl

theorem keys_cons (k : Bytes) (v : Value) (ms : Members) : keys ((k, v) :: ms) = k :: keys ms := rfl

theorem keys_append (xs ys : Members) : keys (xs ++ ys) = keys xs ++ keys ys := by
  simp [keys]

theorem mem_keys_iff {k : Bytes} {ms : Members} : k ∈ keys ms ↔ (lookup k ms).isSome = true :=
  lookup_isSome_iff.symm

theorem not_mem_keys_iff {k : Bytes} {ms : Members} : k ∉ keys ms ↔ lookup k ms = none :=
  lookup_eq_none_iff.symm

/-- `replace` and `add` on an existing member keep the position of every member -/
theorem keys_set_present (k : Bytes) (v : Value) : ∀ ms : Members,
    (lookup k ms).isSome = true → keys (set k v ms) = keys ms
  | [], h => by simp [lookup] at h
  | (k', v') :: ms, h => by
    by_cases hk : k' = k
    · subst hk; simp [set, keys]
    · rw [lookup_cons_ne hk] at h
      simp only [set, hk, if_false, keys_cons, keys_set_present k v ms h]

/-- a created member is appended -/
theorem keys_set_absent (k : Bytes) (v : Value) : ∀ ms : Members,
    (lookup k ms).isNone = true → keys (set k v ms) = keys ms ++ [k]
  | [], _ => by simp [set, keys]
  | (k', v') :: ms, h => by
    by_cases hk : k' = k
    · subst hk; simp [lookup] at h
    · rw [lookup_cons_ne hk] at h
      simp only [set, hk, if_false, keys_cons, keys_set_absent k v ms h, List.cons_append]

/-- the survivors of a removal keep their relative order -/
theorem keys_erase (k : Bytes) : ∀ ms : Members,
    keys (erase k ms) = (keys ms).filter (fun k' => decide (k' ≠ k))
  | [] => rfl
  | (k', v') :: ms => by
    by_cases hk : k' = k
    · subst hk; simp [erase, keys_cons, keys_erase k' ms]
    · simp [erase, hk, keys_cons, keys_erase k ms]

theorem keys_set (k : Bytes) (v : Value) (ms : Members) :
    keys (set k v ms) = if (lookup k ms).isSome then keys ms else keys ms ++ [k] := by
  cases h : lookup k ms with
  | none => simp [keys_set_absent k v ms (by simp [h])]
  | some w => simp [keys_set_present k v ms (by simp [h])]

theorem set_absent (k : Bytes) (v : Value) : ∀ ms : Members,
    lookup k ms = none → set k v ms = ms ++ [(k, v)]
  | [], _ => rfl
  | (k', v') :: ms, h => by
    by_cases hk : k' = k
    · subst hk; simp [lookup] at h
    · rw [lookup_cons_ne hk] at h
      simp only [set, hk, if_false, set_absent k v ms h, List.cons_append]

theorem erase_absent (k : Bytes) : ∀ ms : Members, lookup k ms = none → erase k ms = ms
  | [], _ => rfl
  | (k', v') :: ms, h => by
    by_cases hk : k' = k
    · subst hk; simp [lookup] at h
    · rw [lookup_cons_ne hk] at h
      simp only [erase, hk, if_false, erase_absent k ms h]

/-- members other than `k` keep their value (one-level frame law of `set`) -/
theorem lookup_set_other {k k' : Bytes} (h : k' ≠ k) (v : Value) (ms : Members) :
    lookup k' (set k v ms) = lookup k' ms := lookup_set_ne (Ne.symm h) v ms

/-- members other than `k` keep their value (one-level frame law of `erase`) -/
theorem lookup_erase_other {k k' : Bytes} (h : k' ≠ k) (ms : Members) :
    lookup k' (erase k ms) = lookup k' ms := lookup_erase_ne (Ne.symm h) ms

/-- what is stored is what is found -/
theorem lookup_set_self (k : Bytes) (v : Value) (ms : Members) : lookup k (set k v ms) = some v :=
  lookup_set_eq k v ms

/-! ### membership in `set` / `erase` -/

theorem mem_set {m : Bytes × Value} {k : Bytes} {v : Value} : ∀ {ms : Members},
    m ∈ set k v ms → m ∈ ms ∨ m = (k, v)
  | [], h => by simp [set] at h; exact Or.inr h
  | (k', v') :: ms, h => by
    by_cases hk : k' = k
    · simp only [set, hk, if_true, List.mem_cons] at h
      rcases h with h | h
      · exact Or.inr h
      · exact Or.inl (List.mem_cons_of_mem _ h)
    · simp only [set, hk, if_false, List.mem_cons] at h
      rcases h with h | h
      · exact Or.inl (h ▸ List.mem_cons_self)
      · rcases mem_set h with h | h
        · exact Or.inl (List.mem_cons_of_mem _ h)
        · exact Or.inr h

theorem mem_erase {m : Bytes × Value} {k : Bytes} : ∀ {ms : Members}, m ∈ erase k ms → m ∈ ms
  | [], h => by simp [erase] at h
  | (k', v') :: ms, h => by
    by_cases hk : k' = k
    · simp only [erase, hk, if_true] at h
      exact List.mem_cons_of_mem _ (mem_erase h)
    · simp only [erase, hk, if_false, List.mem_cons] at h
      rcases h with h | h
      · exact h ▸ List.mem_cons_self
      · exact List.mem_cons_of_mem _ (mem_erase h)

/-! ### number literals as a membership statement -/

theorem mem_numLitsM {l : Bytes} : ∀ {ms : Members},
    l ∈ numLitsM ms ↔ ∃ k v, (k, v) ∈ ms ∧ l ∈ numLits v
  | [] => by simp [numLitsM]
  | (k', v') :: ms => by
    simp only [numLitsM, List.mem_append, mem_numLitsM (ms := ms), List.mem_cons]
    constructor
    · rintro (h | ⟨k, v, hm, hl⟩)
      · exact ⟨k', v', Or.inl rfl, h⟩
      · exact ⟨k, v, Or.inr hm, hl⟩
    · rintro ⟨k, v, hm | hm, hl⟩
      · cases hm; exact Or.inl hl
      · exact Or.inr ⟨k, v, hm, hl⟩

theorem mem_numLitsL {l : Bytes} : ∀ {xs : List Value},
    l ∈ numLitsL xs ↔ ∃ x, x ∈ xs ∧ l ∈ numLits x
  | [] => by simp [numLitsL]
  | y :: ys => by
    simp only [numLitsL, List.mem_append, mem_numLitsL (xs := ys), List.mem_cons]
    constructor
    · rintro (h | ⟨x, hm, hl⟩)
      · exact ⟨y, Or.inl rfl, h⟩
      · exact ⟨x, Or.inr hm, hl⟩
    · rintro ⟨x, hm | hm, hl⟩
      · subst hm; exact Or.inl hl
      · exact Or.inr ⟨x, hm, hl⟩

theorem numLits_obj (ms : Members) : numLits (.obj ms) = numLitsM ms := by simp only [numLits]
theorem numLits_arr (xs : List Value) : numLits (.arr xs) = numLitsL xs := by simp only [numLits]

theorem numLitsM_of_lookup {l k : Bytes} {v : Value} {ms : Members}
    (h : lookup k ms = some v) (hl : l ∈ numLits v) : l ∈ numLitsM ms :=
  mem_numLitsM.2 ⟨k, v, mem_of_lookup h, hl⟩

theorem numLitsM_set {l k : Bytes} {v : Value} {ms : Members}
    (h : l ∈ numLitsM (set k v ms)) : l ∈ numLitsM ms ∨ l ∈ numLits v := by
  obtain ⟨k', v', hm, hl⟩ := mem_numLitsM.1 h
  rcases mem_set hm with hm | hm
  · exact Or.inl (mem_numLitsM.2 ⟨k', v', hm, hl⟩)
  · cases hm; exact Or.inr hl

theorem numLitsM_erase {l k : Bytes} {ms : Members}
    (h : l ∈ numLitsM (erase k ms)) : l ∈ numLitsM ms := by
  obtain ⟨k', v', hm, hl⟩ := mem_numLitsM.1 h
  exact mem_numLitsM.2 ⟨k', v', mem_erase hm, hl⟩

theorem numLitsM_append {l : Bytes} {xs ys : Members} :
    l ∈ numLitsM (xs ++ ys) ↔ l ∈ numLitsM xs ∨ l ∈ numLitsM ys := by
  simp only [mem_numLitsM, List.mem_append]
  constructor
  · rintro ⟨k, v, hm | hm, hl⟩
    · exact Or.inl ⟨k, v, hm, hl⟩
    · exact Or.inr ⟨k, v, hm, hl⟩
  · rintro (⟨k, v, hm, hl⟩ | ⟨k, v, hm, hl⟩)
    · exact ⟨k, v, Or.inl hm, hl⟩
    · exact ⟨k, v, Or.inr hm, hl⟩

theorem numLitsL_of_getElem? {l : Bytes} {xs : List Value} {i : Nat} {x : Value}
    (h : xs[i]? = some x) (hl : l ∈ numLits x) : l ∈ numLitsL xs :=
  mem_numLitsL.2 ⟨x, List.mem_of_getElem? h, hl⟩

end Value

namespace Spec
open Value

/-! ### arrays: `insertAt`, `setAt`, `eraseIdx` -/

theorem mem_insertAt {α} {x a : α} : ∀ {i : Nat} {xs : List α}, x ∈ insertAt i a xs → x = a ∨ x ∈ xs
  | 0, xs, h => by simpa [insertAt] using h
  | _ + 1, [], h => by simpa [insertAt] using h
  | n + 1, y :: ys, h => by
    simp only [insertAt, List.mem_cons] at h ⊢
    rcases h with h | h
    · exact Or.inr (Or.inl h)
    · rcases mem_insertAt h with h | h
      · exact Or.inl h
      · exact Or.inr (Or.inr h)

theorem mem_setAt {α} {x a : α} : ∀ {i : Nat} {xs : List α}, x ∈ setAt i a xs → x = a ∨ x ∈ xs
  | _, [], h => by simp [setAt] at h
  | 0, y :: ys, h => by
    simp only [setAt, List.mem_cons] at h ⊢
    rcases h with h | h
    · exact Or.inl h
    · exact Or.inr (Or.inr h)
  | n + 1, y :: ys, h => by
    simp only [setAt, List.mem_cons] at h ⊢
    rcases h with h | h
    · exact Or.inr (Or.inl h)
    · rcases mem_setAt h with h | h
      · exact Or.inl h
      · exact Or.inr (Or.inr h)

theorem length_setAt {α} (a : α) : ∀ (i : Nat) (xs : List α), (setAt i a xs).length = xs.length
  | 0, [] => rfl
  | _ + 1, [] => rfl
  | 0, _ :: _ => rfl
  | n + 1, _ :: ys => by simp [setAt, length_setAt a n ys]

theorem length_insertAt {α} (a : α) : ∀ (i : Nat) (xs : List α), i ≤ xs.length →
    (insertAt i a xs).length = xs.length + 1
  | 0, _, _ => rfl
  | _ + 1, [], h => by simp at h
  | n + 1, _ :: ys, h => by
    simp only [List.length_cons, Nat.add_le_add_iff_right] at h
    simp [insertAt, length_insertAt a n ys h]

/-- `setAt`: the addressed element is replaced, every other index keeps its element -/
theorem getElem?_setAt {α} (a : α) : ∀ (i : Nat) (xs : List α) (j : Nat),
    (setAt i a xs)[j]? = if i = j ∧ j < xs.length then some a else xs[j]?
  | _, [], j => by simp [setAt]
  | 0, y :: ys, j => by
    cases j with
    | zero => simp [setAt]
    | succ j => simp [setAt]
  | n + 1, y :: ys, j => by
    cases j with
    | zero => simp [setAt]
    | succ j => simp [setAt, getElem?_setAt a n ys j]

theorem getElem?_setAt_self {α} (a : α) {i : Nat} {xs : List α} (h : i < xs.length) :
    (setAt i a xs)[i]? = some a := by simp [getElem?_setAt, h]

theorem getElem?_setAt_ne {α} (a : α) {i j : Nat} (xs : List α) (h : i ≠ j) :
    (setAt i a xs)[j]? = xs[j]? := by simp [getElem?_setAt, h]

/-- `insertAt` (slot within bounds): elements before the slot keep their index -/
theorem getElem?_insertAt_lt {α} (a : α) : ∀ (i : Nat) (xs : List α) (j : Nat), j < i → i ≤ xs.length →
    (insertAt i a xs)[j]? = xs[j]?
  | 0, _, _, h, _ => by omega
  | _ + 1, [], _, _, h => by simp at h
  | n + 1, y :: ys, j, hj, h => by
    simp only [List.length_cons, Nat.add_le_add_iff_right] at h
    cases j with
    | zero => simp [insertAt]
    | succ j => simp [insertAt, getElem?_insertAt_lt a n ys j (by omega) h]

/-- `insertAt`: the slot holds the inserted element -/
theorem getElem?_insertAt_self {α} (a : α) : ∀ (i : Nat) (xs : List α), i ≤ xs.length →
    (insertAt i a xs)[i]? = some a
  | 0, _, _ => by simp [insertAt]
  | _ + 1, [], h => by simp at h
  | n + 1, y :: ys, h => by
    simp only [List.length_cons, Nat.add_le_add_iff_right] at h
    simp [insertAt, getElem?_insertAt_self a n ys h]

/-- `insertAt`: elements at or after the slot move up by one -/
theorem getElem?_insertAt_ge {α} (a : α) : ∀ (i : Nat) (xs : List α) (j : Nat), i ≤ j → i ≤ xs.length →
    (insertAt i a xs)[j + 1]? = xs[j]?
  | 0, _, _, _, _ => by simp [insertAt]
  | _ + 1, [], _, _, h => by simp at h
  | n + 1, y :: ys, j, hj, h => by
    simp only [List.length_cons, Nat.add_le_add_iff_right] at h
    cases j with
    | zero => omega
    | succ j => simp [insertAt, getElem?_insertAt_ge a n ys j (by omega) h]

/-- `eraseIdx`: elements before the removed index keep their index -/
theorem getElem?_eraseIdx_lt {α} (xs : List α) {i j : Nat} (h : j < i) :
    (xs.eraseIdx i)[j]? = xs[j]? := by
  rw [List.getElem?_eraseIdx]; simp [h]

/-- `eraseIdx`: elements after the removed index move down by one -/
theorem getElem?_eraseIdx_ge {α} (xs : List α) {i j : Nat} (h : i ≤ j) :
    (xs.eraseIdx i)[j]? = xs[j + 1]? := by
  rw [List.getElem?_eraseIdx]; simp [Nat.not_lt.2 h]

/-- relative order of the other elements is kept by an insertion -/
theorem insertAt_eq_take_drop {α} (a : α) : ∀ (i : Nat) (xs : List α), i ≤ xs.length →
    insertAt i a xs = xs.take i ++ a :: xs.drop i
  | 0, _, _ => by simp [insertAt]
  | _ + 1, [], h => by simp at h
  | n + 1, y :: ys, h => by
    simp only [List.length_cons, Nat.add_le_add_iff_right] at h
    simp [insertAt, insertAt_eq_take_drop a n ys h]

theorem sublist_insertAt {α} (a : α) : ∀ (i : Nat) (xs : List α), xs.Sublist (insertAt i a xs)
  | 0, xs => by simp [insertAt]
  | _ + 1, [] => by simp
  | n + 1, y :: ys => by simp [insertAt, sublist_insertAt a n ys]

end Spec
end JP
