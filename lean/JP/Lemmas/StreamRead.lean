import JP.Codec.Stream
import JP.Lemmas.DecodeTop

/-!
# `readValue` on an input that starts with a well-formed value

`readLoop` walks through the white space in front of the value and through the value's text without
meeting `scanEnd` or `scanError`; it stops at the closing bracket of a container (the invented space
byte) or, for a scalar, at the first byte after it (or at the end of the input).  The walk is
derived from the token trace of a parsed text (`trace_of_split`), as `skip_container` is.
-/

namespace JP
namespace Codec
namespace Stream

open Scanner

/-! ### stretches without `scanEnd`, `scanError` and closing brackets -/

/-- no step of the scan of `a` from `s` returns `scanError`, `scanEnd` or a closing bracket -/
def flatOK : Scan → Bytes → Bool
  | _, [] => true
  | s, c :: cs =>
    (step s c).2 ≠ scanError && (step s c).2 ≠ scanEnd && (step s c).2 ≠ scanEndObject &&
      (step s c).2 ≠ scanEndArray && flatOK (step s c).1 cs

theorem readLoop_flat (all : Bytes) : ∀ (a : Bytes) (s : Scan) (n : Nat) (X : Bytes), flatOK s a = true →
    readLoop all s (a ++ X) n = readLoop all (runE s a) X (n + a.length) := by
  intro a
  induction a with
  | nil => intro s n X _; rfl
  | cons c a ih =>
    intro s n X h
    simp only [flatOK, Bool.and_eq_true, decide_eq_true_eq] at h
    obtain ⟨⟨⟨⟨h1, h2⟩, h3⟩, h4⟩, h5⟩ := h
    simp only [List.cons_append, readLoop, runE, h1, h2, h3, h4, if_false, false_or]
    rw [ih _ _ _ h5]
    simp only [List.length_cons]
    congr 1; omega

theorem flatOK_of_toks : ∀ (a : Bytes) (s : Scan), noErr s a = true →
    (∀ t ∈ ftr s a, t.2 < scanSkipSpace ∧ ¬ isClose t.2) → flatOK s a = true := by
  intro a
  induction a with
  | nil => intro s _ _; rfl
  | cons c a ih =>
    intro s hn ht
    simp only [noErr, Bool.and_eq_true, decide_eq_true_eq] at hn
    simp only [flatOK, Bool.and_eq_true, decide_eq_true_eq]
    by_cases hs : (step s c).2 = scanSkipSpace
    · have hf : ftr s (c :: a) = ftr (step s c).1 a := ftr_skip (s' := (step s c).1) (Prod.ext rfl hs) _
      rw [hf] at ht
      refine ⟨⟨⟨⟨hn.1, ?_⟩, ?_⟩, ?_⟩, ih _ hn.2 ht⟩ <;> rw [hs] <;> decide
    · have hf : ftr s (c :: a) = (c, (step s c).2) :: ftr (step s c).1 a := by
        simp only [ftr, hn.1, hs, if_false]
      rw [hf] at ht
      have h0 := ht _ (List.mem_cons_self ..)
      simp only at h0
      refine ⟨⟨⟨⟨hn.1, ?_⟩, ?_⟩, ?_⟩, ih _ hn.2 (fun t h => ht t (List.mem_cons_of_mem _ h))⟩
      · intro h; rw [h] at h0; exact absurd h0.1 (by decide)
      · intro h; exact h0.2 (.inl h)
      · intro h; exact h0.2 (.inr h)

/-- white space in front of a value -/
theorem flatOK_ws (stk : List Nat) : ∀ ws : Bytes, (∀ b ∈ ws, isWs b = true) → flatOK (bv stk) ws = true ∧ runE (bv stk) ws = bv stk := by
  intro ws
  induction ws with
  | nil => intro _; exact ⟨rfl, rfl⟩
  | cons c ws ih =>
    intro h
    have hc := step_bv_ws stk c (h c (List.mem_cons_self ..))
    have := ih (fun b hb => h b (List.mem_cons_of_mem _ hb))
    simp only [flatOK, runE, hc, this.1, this.2, Bool.and_true]
    exact ⟨by decide, by rw [if_neg (by decide)]⟩

/-! ### containers: the walk to the closing bracket of the outermost frame -/

theorem stateEndValue_topS_space : (stateEndValue topS 32).2 = scanEnd := by decide

theorem stateEndValue_ev_cons_space (p : Nat) (t : List Nat) :
    stateEndValue (ev (p :: t)) 32 = (ev (p :: t), scanSkipSpace) := by
  simp [stateEndValue, ev, mk, Scan.goto, isSpace]

/-- `readLoop` along a text whose token trace reaches the closing bracket of the outermost frame -/
theorem readLoop_walk (all rest : Bytes) (op : Nat) (hop : isClose op) :
    ∀ (a0 : Bytes) (z : UInt8) (s : Scan) (n : Nat), isWs z = false → Live s → 1 ≤ s.stack.length →
      noErr s (a0 ++ [z]) = true → (∀ t ∈ ftr s (a0 ++ [z]), t.2 < scanSkipSpace) →
      skipT 1 s.stack (ftr s (a0 ++ [z])) = some ([], op, []) →
      readLoop all s (a0 ++ [z] ++ rest) n = .ok (n + (a0 ++ [z]).length) := by
  intro a0
  induction a0 with
  | nil =>
    intro z s n hz hl hd hn hops hT
    simp only [List.nil_append, noErr, Bool.and_true, decide_eq_true_eq] at hn
    have hns : (step s z).2 ≠ scanSkipSpace := by
      intro hs
      have := step_skip_isWs s z hs
      rw [isSpace_eq_isWs, hz] at this; cases this
    have hf : ftr s [z] = [(z, (step s z).2)] := by simp only [ftr, hn, hns, if_false]
    simp only [List.nil_append] at hops hT ⊢
    rw [hf] at hops hT
    have hlt := hops _ (List.mem_singleton.2 rfl)
    simp only at hlt
    have hne : (step s z).2 ≠ scanEnd := by intro h; rw [h] at hlt; exact absurd hlt (by decide)
    obtain ⟨h1, h2, h3, h4⟩ := step_shape s z hl hn hne
    simp only [skipT] at hT
    split at hT
    · rename_i hlen
      simp only [Option.some.injEq, Prod.mk.injEq, and_true] at hT
      obtain ⟨hS, hop'⟩ := hT
      have hcl : isClose (step s z).2 := hop' ▸ hop
      have htail : s.stack.tail = [] := by
        have : opStack (step s z).2 s.stack = s.stack.tail := by
          rcases hcl with h | h <;> rw [h] <;> rfl
        rw [← this]; exact hS
      have hs1 : (step s z).1 = topS := by rw [h3 hcl, htail]; rfl
      simp only [List.singleton_append, readLoop, hne, if_false, hcl.elim (fun h => Or.inl h) (fun h => Or.inr h),
        if_true, hs1, stateEndValue_topS_space, List.length_singleton]
    · simp [skipT] at hT
  | cons c a0 ih =>
    intro z s n hz hl hd hn hops hT
    simp only [List.cons_append, noErr, Bool.and_eq_true, decide_eq_true_eq] at hn
    by_cases hs : (step s c).2 = scanSkipSpace
    · -- white space
      have hne : (step s c).2 ≠ scanEnd := by rw [hs]; decide
      obtain ⟨h1, h2, h3, h4⟩ := step_shape s c hl hn.1 hne
      have hst : (step s c).1.stack = s.stack := by rw [h1, hs]; rfl
      have hl' : Live (step s c).1 := ⟨h4 (by rw [hs]; intro h; rcases h with h | h <;> cases h), h2⟩
      have hf : ftr s (c :: (a0 ++ [z])) = ftr (step s c).1 (a0 ++ [z]) :=
        ftr_skip (s' := (step s c).1) (Prod.ext rfl hs) _
      simp only [List.cons_append] at hops hT ⊢
      rw [hf] at hops hT
      rw [← hst] at hT hd
      have := ih z (step s c).1 (n + 1) hz hl' hd hn.2 hops hT
      have hnc : ¬ ((step s c).2 = scanEndObject ∨ (step s c).2 = scanEndArray) := by
        rw [hs]; decide
      simp only [readLoop, hne, hnc, hn.1, if_false]
      rw [this]
      simp only [List.length_cons, List.length_append, List.length_nil]
      congr 1; omega
    · have hf : ftr s (c :: (a0 ++ [z])) = (c, (step s c).2) :: ftr (step s c).1 (a0 ++ [z]) := by
        simp only [ftr, hn.1, hs, if_false]
      simp only [List.cons_append] at hops hT ⊢
      rw [hf] at hops hT
      have hlt := hops _ (List.mem_cons_self ..)
      simp only at hlt
      have hne : (step s c).2 ≠ scanEnd := by intro h; rw [h] at hlt; exact absurd hlt (by decide)
      obtain ⟨h1, h2, h3, h4⟩ := step_shape s c hl hn.1 hne
      simp only [skipT] at hT
      split at hT
      · -- would stop here, but more tokens follow
        exfalso
        simp only [Option.some.injEq, Prod.mk.injEq] at hT
        exact ftr_ne_nil a0 z hz _ hn.2 hT.2.2
      · rename_i hlen
        rw [← h1] at hT hlen
        have hne' : (step s c).1.stack ≠ [] := by
          intro h; rw [h] at hlen; simp only [List.length_nil] at hlen; omega
        have hl' : Live (step s c).1 := by
          by_cases hc : isClose (step s c).2
          · have := h3 hc
            rw [this]
            rw [this] at hne'
            apply live_afterClose
            intro h
            apply hne'
            rw [h]; rfl
          · exact ⟨h4 hc, h2⟩
        have := ih z (step s c).1 (n + 1) hz hl' (by omega) hn.2
          (fun t ht => hops t (List.mem_cons_of_mem _ ht)) hT
        have hfin : readLoop all (step s c).1 (a0 ++ [z] ++ rest) (n + 1) = .ok (n + (c :: (a0 ++ [z])).length) := by
          rw [this]
          simp only [List.length_cons, List.length_append, List.length_nil]
          congr 1; omega
        by_cases hc : isClose (step s c).2
        · -- an inner closing bracket: the invented space is skipped, the scanner stays where it is
          have hs1 := h3 hc
          obtain ⟨p, t, hpt⟩ : ∃ p t, s.stack.tail = p :: t := by
            cases hst : s.stack.tail with
            | nil => rw [hs1, hst] at hne'; exact absurd rfl hne'
            | cons p t => exact ⟨p, t, rfl⟩
          have hs2 : (step s c).1 = ev (p :: t) := by rw [hs1, hpt]; rfl
          have hcl : (step s c).2 = scanEndObject ∨ (step s c).2 = scanEndArray := hc
          simp only [readLoop, hne, hcl, if_false, if_true]
          rw [hs2, stateEndValue_ev_cons_space]
          simp only [show scanSkipSpace ≠ scanEnd from by decide, if_false]
          rw [← hs2]; exact hfin
        · have hcl : ¬ ((step s c).2 = scanEndObject ∨ (step s c).2 = scanEndArray) := hc
          simp only [readLoop, hne, hcl, hn.1, if_false]
          exact hfin

/-- `readLoop` inside a well-formed top-level container whose opening bracket has been read -/
theorem readLoop_container (all : Bytes) (b0 : UInt8) (inner : Bytes) (c : Cst)
    (T : List Scanner.Tok) (s0 : Scan) (op0 p closeOp : Nat)
    (h0 : step (bv []) b0 = (s0, op0)) (hop1 : op0 ≠ scanError) (hop2 : op0 ≠ scanSkipSpace)
    (hstack : s0.stack = [p]) (hlive : Live s0)
    (htoks : toksV c = (b0, op0) :: T)
    (hT : skipT 1 [p] T = some ([], closeOp, [])) (hclose : isClose closeOp)
    (heq : ∀ rest', DelimW rest' → ftr (bv []) (b0 :: inner ++ rest') = toksV c ++ ftr (ev []) rest')
    (hend : EndsNonWs (b0 :: inner)) (n : Nat) (rest : Bytes) :
    readLoop all s0 (inner ++ rest) n = .ok (n + inner.length) := by
  have hE : ∀ r, DelimW r → ftr s0 (inner ++ r) = T ++ ftr (ev []) r := by
    intro r hr
    have := heq r hr
    rw [List.cons_append, ftr_step h0 hop1 hop2, htoks, List.cons_append] at this
    exact (List.cons.inj this).2
  obtain ⟨r0, hr0, halive⟩ := alive_ev [] (.inl rfl)
  have hne : noErr s0 inner = true :=
    noErr_of_eq2 s0 (ev []) inner T r0 (hE [] trivial) (hE r0 hr0) halive
  have hftr : ftr s0 inner = T := by
    have := hE [] trivial
    simpa using this
  have hTne : T ≠ [] := by intro h; rw [h] at hT; simp [skipT] at hT
  have hine : inner ≠ [] := by intro h; rw [h] at hftr; exact hTne hftr.symm
  obtain ⟨v0, z, hv, hz⟩ := hend
  have hin : ∃ a0, inner = a0 ++ [z] := by
    cases v0 with
    | nil =>
      simp only [List.nil_append, List.cons.injEq] at hv
      exact absurd hv.2 hine
    | cons e v0 =>
      simp only [List.cons_append, List.cons.injEq] at hv
      exact ⟨v0, hv.2⟩
  obtain ⟨a0, rfl⟩ := hin
  have hT' : skipT 1 s0.stack (ftr s0 (a0 ++ [z])) = some ([], closeOp, []) := by
    rw [hftr, hstack]; exact hT
  have hops : ∀ t ∈ ftr s0 (a0 ++ [z]), t.2 < scanSkipSpace := by
    rw [hftr]
    intro t ht
    exact toksV_ops c t (by rw [htoks]; exact List.mem_cons_of_mem _ ht)
  exact readLoop_walk all rest closeOp hclose a0 z s0 n hz hlive (by rw [hstack]; simp) hne hops hT'

theorem readLoop_arr (all inner rest : Bytes) (xs : List Cst)
    (heq : ∀ rest', DelimW rest' → ftr (bv []) (91 :: inner ++ rest') = toksV (.arr xs) ++ ftr (ev []) rest')
    (hend : EndsNonWs (91 :: inner)) (n : Nat) :
    readLoop all (bv []) (91 :: inner ++ rest) n = .ok (n + (91 :: inner).length) := by
  have h0 := step_lbrack_ok [] (by decide)
  have hT : skipT 1 [parseArrayValue] (toksE xs) = some ([], scanEndArray, []) := by
    have := skipT_E xs 1 parseArrayValue [] [] (Nat.le_refl _)
    simp only [List.append_nil] at this
    rw [this, closeT, if_pos (by decide)]
  have := readLoop_container all 91 inner (.arr xs) (toksE xs) _ _ parseArrayValue scanEndArray h0
    (by decide) (by decide) rfl (live_mk _ _) rfl hT (.inr rfl) heq hend (n + 1) rest
  simp only [List.cons_append, readLoop, h0]
  rw [if_neg (by decide), if_neg (by decide), if_neg (by decide), this]
  simp only [List.length_cons]
  congr 1; omega

theorem readLoop_obj (all inner rest : Bytes) (ms : List (Bytes × Cst))
    (heq : ∀ rest', DelimW rest' → ftr (bv []) (123 :: inner ++ rest') = toksV (.obj ms) ++ ftr (ev []) rest')
    (hend : EndsNonWs (123 :: inner)) (n : Nat) :
    readLoop all (bv []) (123 :: inner ++ rest) n = .ok (n + (123 :: inner).length) := by
  have h0 := step_lbrace_ok [] (by decide)
  have hT : skipT 1 [parseObjectKey] (toksM ms) = some ([], scanEndObject, []) := by
    have := skipT_M ms 1 parseObjectKey [] [] (Nat.le_refl _)
    simp only [List.append_nil] at this
    rw [this, closeT, if_pos (by decide)]
  have := readLoop_container all 123 inner (.obj ms) (toksM ms) _ _ parseObjectKey scanEndObject h0
    (by decide) (by decide) rfl (live_mk _ _) rfl hT (.inl rfl) heq hend (n + 1) rest
  simp only [List.cons_append, readLoop, h0]
  rw [if_neg (by decide), if_neg (by decide), if_neg (by decide), this]
  simp only [List.length_cons]
  congr 1; omega

/-! ### scalars: the walk to the first byte after the literal -/

/-- what may follow the text of a value with tree `c` for the scanner to see its end as the reference
parser does: nothing, white space, `,`, `]`, `}` — or anything at all after a string (the closing quote
ends it) -/
def OkNext (c : Cst) (x : Bytes) : Prop := DelimW x ∨ ∃ b, c = .str b

theorem okNext_single {c : Cst} {y : UInt8} {r : Bytes} (h : OkNext c (y :: r)) : OkNext c [y] := by
  rcases h with h | h
  · exact .inl h
  · exact .inr h

theorem ftr_ev_nil_single (y : UInt8) : ftr (ev []) [y] = [(y, scanEnd)] := by
  have hc : ftr (ev []) [y] = ftr topS [y] := ftr_congr [y] (fun c _ _ => step_ev_nil c)
  rw [hc]
  by_cases h : isWs y = true
  · rw [ftr_step (step_topS_ws y h) (by decide) (by decide)]; rfl
  · rw [ftr_step (step_topS_other y (by simpa using h)) (by decide) (by decide)]; rfl

theorem op_of_ftr_single (s : Scan) (y : UInt8) (op : Nat) (h : ftr s [y] = [(y, op)]) : (step s y).2 = op := by
  simp only [ftr] at h
  split at h
  · cases h
  · split at h
    · cases h
    · simp only [List.cons.injEq, Prod.mk.injEq, true_and, and_true] at h
      exact h

theorem delimW_single {y : UInt8} {r : Bytes} (h : DelimW (y :: r)) : DelimW [y] := h

theorem not_close_cont (l : Bytes) : ∀ t ∈ cont l, ¬ isClose t.2 := by
  intro t ht
  simp only [cont, List.mem_map] at ht
  obtain ⟨_, _, rfl⟩ := ht
  intro h; rcases h with h | h <;> cases h

theorem not_close_scalar (c : Cst) (hc : c.isArr = false ∧ c.isObj = false) : ∀ t ∈ toksV c, ¬ isClose t.2 := by
  intro t ht
  cases c with
  | lit s =>
    cases s with
    | nil => simp [toksV, litToks] at ht
    | cons a l =>
      simp only [toksV, litToks, List.mem_cons] at ht
      rcases ht with rfl | ht
      · intro h; rcases h with h | h <;> cases h
      · exact not_close_cont l t ht
  | str b =>
    simp only [toksV, strToks, List.mem_cons, List.mem_append, List.mem_singleton, List.not_mem_nil, or_false] at ht
    rcases ht with rfl | ht | rfl
    · intro h; rcases h with h | h <;> cases h
    · exact not_close_cont b t ht
    · intro h; rcases h with h | h <;> cases h
  | arr xs => simp [Cst.isArr] at hc
  | obj ms => simp [Cst.isObj] at hc

/-- after a scalar the scanner reports `scanEnd` on the next byte, or on the invented space at the end of the input -/
theorem readLoop_scalar (all vt r : Bytes) (c : Cst) (hc : c.isArr = false ∧ c.isObj = false)
    (heq : ∀ rest', OkNext c rest' → ftr (bv []) (vt ++ rest') = toksV c ++ ftr (ev []) rest')
    (hr : OkNext c r) (n : Nat) :
    readLoop all (bv []) (vt ++ r) n = .ok (n + vt.length) := by
  obtain ⟨r0, hr0, halive⟩ := alive_ev [] (.inl rfl)
  have hne : noErr (bv []) vt = true :=
    noErr_of_eq2 (bv []) (ev []) vt (toksV c) r0 (heq [] (.inl trivial)) (heq r0 (.inl hr0)) halive
  have hftr : ftr (bv []) vt = toksV c := by
    have := heq [] (.inl trivial)
    simpa using this
  have hflat : flatOK (bv []) vt = true :=
    flatOK_of_toks vt (bv []) hne (by
      rw [hftr]; intro t ht; exact ⟨toksV_ops c t ht, not_close_scalar c hc t ht⟩)
  rw [readLoop_flat all vt (bv []) n r hflat]
  have hnext : ∀ y, OkNext c [y] → (step (runE (bv []) vt) y).2 = scanEnd := by
    intro y hy
    have h1 := heq [y] hy
    rw [ftr_append_noErr vt [y] (bv []) hne, hftr, ftr_ev_nil_single] at h1
    exact op_of_ftr_single _ y _ (List.append_cancel_left h1)
  cases r with
  | nil =>
    have := hnext 32 (.inl (.inl (by decide)))
    simp only [readLoop, this, if_true]
  | cons y r' =>
    have := hnext y (okNext_single hr)
    simp only [readLoop, this, if_true]

/-! ### any value -/

theorem head_of_trace (e b : UInt8) (inner : Bytes) (op : Nat) (T : List Scanner.Tok) (he : isWs e = false)
    (h : ftr (bv []) (e :: inner) = (b, op) :: T) : e = b := by
  simp only [ftr] at h
  split at h
  · cases h
  · split at h
    · rename_i hs
      have := step_skip_isWs (bv []) e hs
      rw [isSpace_eq_isWs, he] at this; cases this
    · simp only [List.cons.injEq, Prod.mk.injEq] at h
      exact h.1.1

/-- `readLoop` on white space, the text of a value, and a continuation that starts like a delimiter (or is
empty; after a string: any continuation): it returns the length of the white space and the value -/
theorem readLoop_value (all ws vt r : Bytes) (c : Cst) (hws : ∀ b ∈ ws, isWs b = true) (hend : EndsNonWs vt)
    (hhead : ∀ e t, vt = e :: t → isWs e = false)
    (hre : ∀ F rest', vt.length + 1 ≤ F → OkNext c rest' → parseValue F 0 (vt ++ rest') = some (c, rest'))
    (hr : OkNext c r) :
    readLoop all Scan.init (ws ++ vt ++ r) 0 = .ok (ws ++ vt).length := by
  have heq : ∀ rest', OkNext c rest' → ftr (bv []) (vt ++ rest') = toksV c ++ ftr (ev []) rest' :=
    fun rest' hd => (tr_all (vt.length + 1)).1 0 (vt ++ rest') c rest' (hre _ rest' (Nat.le_refl _) hd) [] rfl
  have hw := flatOK_ws [] ws hws
  have h0 : Scan.init = bv [] := rfl
  rw [h0, List.append_assoc, readLoop_flat all ws (bv []) 0 (vt ++ r) hw.1, hw.2]
  have hlen : (ws ++ vt).length = 0 + ws.length + vt.length := by simp
  rw [hlen]
  by_cases hc : c.isArr = false ∧ c.isObj = false
  · exact readLoop_scalar all vt r c hc heq hr _
  · obtain ⟨v0, z, hv, hz⟩ := hend
    cases vt with
    | nil => simp at hv
    | cons e inner =>
      have he := hhead e inner rfl
      cases c with
      | lit s => simp [Cst.isArr, Cst.isObj] at hc
      | str b => simp [Cst.isArr, Cst.isObj] at hc
      | arr xs =>
        have h1 := heq [] (.inl trivial)
        simp only [List.append_nil, ftr_nil, toksV] at h1
        have := head_of_trace e 91 inner _ _ he h1
        subst this
        exact readLoop_arr all inner r xs (fun rest' hd => heq rest' (.inl hd)) ⟨v0, z, hv, hz⟩ _
      | obj ms =>
        have h1 := heq [] (.inl trivial)
        simp only [List.append_nil, ftr_nil, toksV] at h1
        have := head_of_trace e 123 inner _ _ he h1
        subst this
        exact readLoop_obj all inner r ms (fun rest' hd => heq rest' (.inl hd)) ⟨v0, z, hv, hz⟩ _

end Stream
end Codec
end JP
