import JP.Lemmas.LegacyEngineWalk
import JP.Lemmas.LegacyCongr

/-!
# Legacy engine lemmas, part 3: the six operations against `Spec.applyOp` on `den root`

`OpRefL k res out`: where the specification succeeds the legacy operation succeeds with a root
whose value is the specification's up to member order (`Sim`; it is the *same* ordered value for
every operation except `copy`, which re-prints the duplicated subtree with its members sorted);
where the specification fails with a *listed* cause the legacy operation reports an error.
-/

namespace JP
namespace Legacy

open Value
open Impl (QK Outcome Err nav)
open Spec (Res)

def OpRefL (k : Spec.OpKind) (res : Res (Value × Nat)) (out : Outcome Node) : Prop :=
  match res with
  | .ok va => ∃ r', out = .ok r' ∧ Inv r' ∧ isDA r' = true ∧ Sim (den r') va.1
  | .fail c => listed k c = true → ∃ er, out = .err er
  | .unspec => True

theorem sim_of_den {r : Node} {v : Value} (hi : Inv r) (h : den r = v) : Sim (den r) v := by
  subst h; exact Sim.refl (noDup_den r hi.1)

/-- the walk result of an operation whose action returns no payload, against the specification's
edit at the parent -/
def WalkRefU (res : Res (Value × Unit)) (w : Walk Unit) : Prop :=
  match res with
  | .ok vb => ∃ con' a, w = .done con' a ∧ Inv con' ∧ isDA con' = true ∧ den con' = vb.1 ∧ True
  | .fail _ => (∃ er, w = .fail er) ∨ w = .notFound
  | .unspec => True

theorem liftWalk_ref {k : Spec.OpKind} {acc : Nat} {res : Res (Value × Unit)} {w : Walk Unit}
    (h : WalkRefU res w) : OpRefL k (res.bind fun vb => .ok (vb.1, acc)) (liftWalk w) := by
  cases res with
  | unspec => trivial
  | fail c =>
    simp only [Res.bind, OpRefL]
    intro _
    rcases h with ⟨er, h⟩ | h
    · exact ⟨er, by rw [h]; rfl⟩
    · exact ⟨.missing, by rw [h]; rfl⟩
  | ok vb =>
    obtain ⟨con', a, h1, h2, h3, h4, _⟩ := h
    simp only [Res.bind, OpRefL]
    exact ⟨con', by rw [h1]; rfl, h2, h3, sim_of_den h2 h4⟩

theorem actRef_unit {L : Spec.Cause → Prop} {key : Bytes} {x : Node → Bytes → Outcome Node}
    {f : Value → Bytes → Res (Value × Unit)}
    (h : ∀ pc, Inv pc → isDA pc = true →
      match f (den pc) key with
      | .ok (p', _) => ∃ pc', x pc key = .ok pc' ∧ Inv pc' ∧ isDA pc' = true ∧ den pc' = p'
      | .fail c => L c → ∃ err, x pc key = .err err
      | .unspec => True) :
    ActRef L key (fun con key => unitAct (x con key)) f (fun _ _ => True) := by
  intro pc hi hd
  have := h pc hi hd
  cases hf : f (den pc) key with
  | unspec => trivial
  | fail c =>
    rw [hf] at this
    intro hL
    obtain ⟨er, her⟩ := this hL
    exact ⟨er, by simp only [her, unitAct]⟩
  | ok pb =>
    obtain ⟨p', u⟩ := pb
    rw [hf] at this
    obtain ⟨pc', h1, h2, h3, h4⟩ := this
    exact ⟨pc', (), by simp only [h1, unitAct], h2, h3, h4, trivial⟩

/-! ### add -/

theorem addAt_refines {neg : Bool} {root val : Node} {path : Bytes} {toks : List Bytes}
    (hr : Inv root) (hc : isDA root = true) (hp : Spec.parsePointer path = some toks) (hne : toks ≠ [])
    (hval : Inv val) (hq : ∀ x ∈ toks, QK true x = true) :
    WalkRefU (Spec.atParent (specOpts neg) (Spec.addIn (specOpts neg) (den val)) (den root) toks)
      (withPath neg root path fun con key => unitAct (conAdd neg con key val)) := by
  have := withPath_refines_err (neg := neg) (root := root) (path := path)
    (act := fun con key => unitAct (conAdd neg con key val))
    (f := Spec.addIn (specOpts neg) (den val)) (R := fun _ _ => True) hr hc hp hne
    (fun key hkey => actRef_unit fun pc hi hd => by
      have := conAdd_refines (neg := neg) (key := key) hi hd hval (hq key hkey)
      cases hf : Spec.addIn (specOpts neg) (den val) (den pc) key with
      | unspec => trivial
      | fail c => rw [hf] at this; exact fun _ => this
      | ok pb => rw [hf] at this; exact this)
    (fun key => ⟨.invalid, rfl⟩)
  cases hres : Spec.atParent (specOpts neg) (Spec.addIn (specOpts neg) (den val)) (den root) toks with
  | unspec => trivial
  | fail c => rw [hres] at this; exact this
  | ok vb => rw [hres] at this; exact this

theorem opAdd_refines {neg : Bool} {root : Node} {op : Op} {sop : Spec.Op} {path : Bytes}
    {v : Value} {t : Bytes} {ts : List Bytes} (sz acc : Nat)
    (hr : Inv root) (hc : isDA root = true)
    (hpath : op.path = .ok path) (hk : sop.kind = .add) (hsp : sop.path = path)
    (hp : Spec.parsePointer path = some (t :: ts))
    (hv : sop.value = some v) (hval : Inv op.valueNode) (hden : den op.valueNode = v)
    (hq : ∀ x ∈ t :: ts, QK true x = true) :
    OpRefL .add (Spec.applyOp (specOpts neg) sz acc (den root) sop) (opAdd neg root op) := by
  rw [Impl.spec_add hk (by rw [hsp]; exact hp) hv rfl]
  simp only [opAdd, hpath]
  rw [← hden]
  exact liftWalk_ref (addAt_refines hr hc hp (by simp) hval hq)

/-! ### remove -/

theorem opRemove_refines {neg : Bool} {root : Node} {op : Op} {sop : Spec.Op} {path : Bytes}
    {t : Bytes} {ts : List Bytes} (sz acc : Nat)
    (hr : Inv root) (hc : isDA root = true)
    (hpath : op.path = .ok path) (hk : sop.kind = .remove) (hsp : sop.path = path)
    (hp : Spec.parsePointer path = some (t :: ts)) :
    OpRefL .remove (Spec.applyOp (specOpts neg) sz acc (den root) sop) (opRemove neg root op) := by
  rw [Impl.spec_remove hk (by rw [hsp]; exact hp) rfl]
  simp only [opRemove, hpath]
  have := withPath_refines_err (neg := neg) (root := root) (path := path)
    (act := fun con key => unitAct (conRemove neg con key))
    (f := Spec.removeIn (specOpts neg)) (R := fun _ _ => True) hr hc hp (by simp)
    (fun key _ => by
      intro pc hi hd
      have := conRemove_refines (neg := neg) (key := key) hi hd
      cases hf : Spec.removeIn (specOpts neg) (den pc) key with
      | unspec => trivial
      | fail c =>
        rw [hf] at this
        obtain ⟨er, her⟩ := this
        exact fun _ => ⟨er, by simp only [her, unitAct]⟩
      | ok pb =>
        rw [hf] at this
        obtain ⟨pc', h1, h2, h3, h4⟩ := this
        exact ⟨pc', (), by simp only [h1, unitAct], h2, h3, h4, trivial⟩)
    (fun key => ⟨.missing, rfl⟩)
  -- forget the removed value
  have h2 : WalkRefU ((Spec.atParent (specOpts neg) (Spec.removeIn (specOpts neg)) (den root) (t :: ts)).bind
      fun vb => .ok (vb.1, ())) (withPath neg root path fun con key => unitAct (conRemove neg con key)) := by
    cases hres : Spec.atParent (specOpts neg) (Spec.removeIn (specOpts neg)) (den root) (t :: ts) with
    | unspec => trivial
    | fail c => rw [hres] at this; exact this
    | ok vb => rw [hres] at this; exact this
  have h3 := liftWalk_ref (k := .remove) (acc := acc) h2
  cases hres : Spec.atParent (specOpts neg) (Spec.removeIn (specOpts neg)) (den root) (t :: ts) with
  | unspec => trivial
  | fail c => rw [hres] at h3; exact h3
  | ok vb => rw [hres] at h3; exact h3

/-! ### replace -/

/-- `replaceIn` never fails with an index or comparison cause -/
theorem replaceIn_fail_cause {so : Spec.Opts} {v p : Value} {t : Bytes} {c : Spec.Cause}
    (h : Spec.replaceIn so v p t = .fail c) : c = .absentMember ∨ c = .parentUnreachable := by
  cases p with
  | obj ms =>
    simp only [Spec.replaceIn] at h
    cases hl : Value.lookup t ms with
    | none => rw [hl] at h; cases h; exact Or.inl rfl
    | some x => rw [hl] at h; cases h
  | arr xs =>
    simp only [Spec.replaceIn] at h
    cases hr : Spec.readIdx so.neg xs.length t with
    | unspec => rw [hr] at h; cases h
    | bad => rw [hr] at h; cases h; exact Or.inl rfl
    | «at» i =>
      rw [hr] at h
      simp only at h
      split at h
      · cases h
      · cases h; exact Or.inl rfl
  | null => simp only [Spec.replaceIn] at h; cases h; exact Or.inr rfl
  | bool b => simp only [Spec.replaceIn] at h; cases h; exact Or.inr rfl
  | num l => simp only [Spec.replaceIn] at h; cases h; exact Or.inr rfl
  | str s => simp only [Spec.replaceIn] at h; cases h; exact Or.inr rfl

/-- the action of `replace`: `get`, then `set` -/
def actReplace (neg : Bool) (val : Node) : Node → Bytes → Outcome (Node × Unit) :=
  fun con key =>
    match conGet neg con key with
    | .panic => .panic
    | .err _ => .err .missing
    | .ok _ => unitAct (conSet neg con key val)

theorem opReplace_eq_nonroot (neg : Bool) (root : Node) (op : Op) (path : Bytes)
    (hpath : op.path = .ok path) (hp : path ≠ []) :
    opReplace neg root op = liftWalk (withPath neg root path (actReplace neg op.valueNode)) := by
  simp only [opReplace, hpath, hp, if_false]
  rfl

theorem actReplace_ref {neg : Bool} {val : Node} {key : Bytes} (hv : Inv val) (hk : QK true key = true) :
    ActRef (fun c => c = .badIndex ∨ c = .testUnequal) key (actReplace neg val)
      (Spec.replaceIn (specOpts neg) (den val)) (fun _ _ => True) := by
  intro pc hi hd
  have hset := conSet_refines (neg := neg) (key := key) hi hd hv hk
  have hrel := Impl.replaceIn_getIn (specOpts neg) (den val) (den pc) key
  have hget := conGet_refines (neg := neg) (key := key) hi hd
  cases hf : Spec.replaceIn (specOpts neg) (den val) (den pc) key with
  | unspec => trivial
  | fail c =>
    intro hL
    rcases replaceIn_fail_cause hf with rfl | rfl <;> rcases hL with h | h <;> cases h
  | ok pb =>
    obtain ⟨p', u⟩ := pb
    rw [hf] at hset hrel
    obtain ⟨old, hold⟩ := hrel
    rw [hold] at hget
    obtain ⟨n, hn, _, _⟩ := hget
    obtain ⟨pc', h1, h2, h3, h4⟩ := hset
    exact ⟨pc', (), by simp only [actReplace, hn, h1, unitAct], h2, h3, h4, trivial⟩

theorem isContainer_valueOf (c : Cst) : c.valueOf.isContainer = (c.isArr || c.isObj) :=
  Impl.isContainer_valueOf c

theorem opReplace_refines {neg : Bool} {root : Node} {op : Op} {sop : Spec.Op} {path : Bytes}
    {toks : List Bytes} (sz acc : Nat)
    (hr : Inv root) (hc : isDA root = true)
    (hpath : op.path = .ok path) (hk : sop.kind = .replace) (hsp : sop.path = path)
    (hp : Spec.parsePointer path = some toks)
    (hv : sop.value = specValue op.value)
    (hval : ∀ c, op.value = .val c → c.valueOf.noDup = true ∧ RawOK c = true)
    (hq : ∀ x ∈ toks, QK true x = true) :
    OpRefL .replace (Spec.applyOp (specOpts neg) sz acc (den root) sop) (opReplace neg root op) := by
  cases hov : op.value with
  | absent =>
    -- no value: outside the specification's domain
    have : sop.value = none := by rw [hv, hov]; rfl
    have hun : Spec.applyOp (specOpts neg) sz acc (den root) sop = .unspec := by
      simp only [Spec.applyOp, hsp, hp, hk, this]
    rw [hun]; trivial
  | null =>
    have hsv : sop.value = some .null := by rw [hv, hov]; rfl
    have hvn : op.valueNode = .rawNil := by simp only [Op.valueNode, hov]
    cases toks with
    | nil =>
      rw [Impl.spec_replace_root hk (by rw [hsp]; exact hp) hsv]
      simp [Value.isContainer, Value.isObj, Value.isArr, Value.isNull, OpRefL]
    | cons t ts =>
      have hne : path ≠ [] := fun h => by
        have := (Impl.parsePointer_nil_iff hp).2 h; cases this
      rw [Impl.spec_replace hk (by rw [hsp]; exact hp) hsv, opReplace_eq_nonroot neg root op path hpath hne, hvn]
      have := withPath_refines (neg := neg) (root := root) (path := path)
        (act := actReplace neg .rawNil) (f := Spec.replaceIn (specOpts neg) (den Node.rawNil))
        (R := fun _ _ => True) (L := fun c => c = .badIndex ∨ c = .testUnequal) hr hc hp (by simp)
        (fun key hkey => actReplace_ref Inv_rawNil (hq key hkey))
      have hd : den Node.rawNil = .null := rfl
      rw [hd] at this
      cases hres : Spec.atParent (specOpts neg) (Spec.replaceIn (specOpts neg) .null) (den root) (t :: ts) with
      | unspec => trivial
      | ok vb =>
        rw [hres] at this
        obtain ⟨con', a, h1, h2, h3, h4, _⟩ := this
        simp only [Res.bind, OpRefL]
        exact ⟨con', by rw [h1]; rfl, h2, h3, sim_of_den h2 h4⟩
      | fail c =>
        rw [hres] at this
        simp only [Res.bind, OpRefL]
        intro hl
        have hL : c = .badIndex ∨ c = .testUnequal := by
          simp only [listed, Bool.or_eq_true, decide_eq_true_eq, Bool.and_eq_true] at hl
          rcases hl with (h | h) | ⟨h, _⟩
          · exact Or.inr h
          · exact Or.inl h
          · rcases h with h | h <;> cases h
        rcases this hL with ⟨er, h⟩ | ⟨h, _⟩
        · exact ⟨er, by rw [h]; rfl⟩
        · rcases hL with h' | h' <;> rw [h'] at h <;> cases h
  | val c =>
    have hsv : sop.value = some c.valueOf := by rw [hv, hov]; rfl
    have hvn : op.valueNode = .raw c := by simp only [Op.valueNode, hov]
    obtain ⟨hnd, hraw⟩ := hval c hov
    have hinvc : Inv (.raw c) := (Inv_raw c).2 ⟨hnd, hraw⟩
    cases toks with
    | nil =>
      have hpe : path = [] := (Impl.parsePointer_nil_iff hp).1 rfl
      rw [Impl.spec_replace_root hk (by rw [hsp]; exact hp) hsv]
      have hic := intoContainer_spec hinvc
      by_cases hcont : c.valueOf.isContainer = true
      · rw [if_pos hcont]
        have hd : den (Node.raw c) = c.valueOf := rfl
        rw [hd, if_pos hcont] at hic
        obtain ⟨child, h1, h2, h3, h4⟩ := hic
        simp only [OpRefL]
        refine ⟨child, ?_, h2, h3, sim_of_den h2 (by rw [h4])⟩
        simp only [opReplace, hpath, hpe, if_true, hov]
        cases c with
        | obj ms => simp only [intoContainer, rawIsArray, Cst.isArr, intoDoc, Bool.false_eq_true, if_false] at h1; rw [← h1]
        | arr xs => simp only [intoContainer, rawIsArray, Cst.isArr, intoAry, if_true] at h1; rw [← h1]
        | lit s => rw [isContainer_valueOf] at hcont; simp [Cst.isArr, Cst.isObj] at hcont
        | str s => rw [isContainer_valueOf] at hcont; simp [Cst.isArr, Cst.isObj] at hcont
      · rw [if_neg hcont]
        split
        · trivial
        · simp [OpRefL, listed]
    | cons t ts =>
      have hne : path ≠ [] := fun h => by
        have := (Impl.parsePointer_nil_iff hp).2 h; cases this
      rw [Impl.spec_replace hk (by rw [hsp]; exact hp) hsv, opReplace_eq_nonroot neg root op path hpath hne, hvn]
      have := withPath_refines (neg := neg) (root := root) (path := path)
        (act := actReplace neg (.raw c)) (f := Spec.replaceIn (specOpts neg) (den (Node.raw c)))
        (R := fun _ _ => True) (L := fun c => c = .badIndex ∨ c = .testUnequal) hr hc hp (by simp)
        (fun key hkey => actReplace_ref hinvc (hq key hkey))
      have hd : den (Node.raw c) = c.valueOf := rfl
      rw [hd] at this
      cases hres : Spec.atParent (specOpts neg) (Spec.replaceIn (specOpts neg) c.valueOf) (den root) (t :: ts) with
      | unspec => trivial
      | ok vb =>
        rw [hres] at this
        obtain ⟨con', a, h1, h2, h3, h4, _⟩ := this
        simp only [Res.bind, OpRefL]
        exact ⟨con', by rw [h1]; rfl, h2, h3, sim_of_den h2 h4⟩
      | fail c' =>
        rw [hres] at this
        simp only [Res.bind, OpRefL]
        intro hl
        have hL : c' = .badIndex ∨ c' = .testUnequal := by
          simp only [listed, Bool.or_eq_true, decide_eq_true_eq, Bool.and_eq_true] at hl
          rcases hl with (h | h) | ⟨h, _⟩
          · exact Or.inr h
          · exact Or.inl h
          · rcases h with h | h <;> cases h
        rcases this hL with ⟨er, h⟩ | ⟨h, _⟩
        · exact ⟨er, by rw [h]; rfl⟩
        · rcases hL with h' | h' <;> rw [h'] at h <;> cases h

end Legacy
end JP
