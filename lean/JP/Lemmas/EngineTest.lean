import JP.Lemmas.EngineOps

/-!
# Engine lemmas, part 8: `test`
-/

namespace JP
namespace Impl

open Spec (Res)

/-- the comparison of a node with a raw message decides structural equality of the values
(proved elsewhere; an explicit hypothesis of the theorems about `test`) -/
def EqSpec : Prop :=
  ∀ (n : Impl.Node) (c : Cst), Impl.WF n = true → c.valueOf.noDup = true → Impl.isNullN n = false →
    c.isNullLit = false → (Impl.eqNC n c = Value.eqv (Impl.den n) c.valueOf)

theorem isNull_iff (v : Value) : v.isNull = true ↔ v = .null := by
  cases v <;> simp [Value.isNull]

theorem isNullN_iff {e : Bool} {n : Node} (h : Inv e n) : isNullN n = true ↔ den n = .null := by
  cases n with
  | nil => simp [isNullN, den]
  | raw c => simp only [isNullN, den]; exact isNullLit_valueOf c
  | doc keys obj => rw [den_doc_inv h]; simp [isNullN]
  | ary ns => simp [isNullN, den]
  | docNil => exact absurd h (Inv_docNil e)
  | nilAry => exact absurd h (Inv_nilAry e)

theorem eqv_null_left_isNull (b : Value) : Value.eqv .null b = b.isNull := by
  cases b <;> simp [Value.eqv, Value.isNull]
theorem eqv_null_right (a : Value) : Value.eqv a .null = a.isNull := by
  cases a <;> simp [Value.eqv, Value.isNull]
theorem numEqv_null_left (b : Value) : Spec.numEqv .null b = b.isNull := by
  cases b <;> simp [Spec.numEqv, Value.isNull]
theorem numEqv_null_right (a : Value) : Spec.numEqv a .null = a.isNull := by
  cases a <;> simp [Spec.numEqv, Value.isNull]

theorem testEq_null_right (a : Value) :
    Spec.testEq a .null = if a.isNull then .ok () else .fail .testUnequal := by
  simp only [Spec.testEq, eqv_null_right, numEqv_null_right]
  cases a.isNull <;> simp

theorem testEq_null_left (b : Value) :
    Spec.testEq .null b = if b.isNull then .ok () else .fail .testUnequal := by
  simp only [Spec.testEq, eqv_null_left_isNull, numEqv_null_left]
  cases b.isNull <;> simp

/-- `equalTo` against `testEq` -/
theorem equalTo_refines (hEq : EqSpec) {e : Bool} {n : Node} {ov : Option Cst} (hn : Inv e n)
    (hov : ∀ c, ov = some c → c.valueOf.noDup = true) :
    match Spec.testEq (den n) ((ov.map Cst.valueOf).getD .null) with
    | .ok _ => (equalTo n ov).1 = true ∧ Inv e (equalTo n ov).2 ∧ den (equalTo n ov).2 = den n ∧
        (isCon n = true → isCon (equalTo n ov).2 = true)
    | .fail _ => (equalTo n ov).1 = false
    | .unspec => True := by
  have hN := isNullN_iff hn
  have hnull_case : ∀ (ov : Option Cst), ((ov.map Cst.valueOf).getD .null) = .null →
      (match ov with | none => true | some c => c.isNullLit) = true →
      match Spec.testEq (den n) ((ov.map Cst.valueOf).getD .null) with
      | .ok _ => (equalTo n ov).1 = true ∧ Inv e (equalTo n ov).2 ∧ den (equalTo n ov).2 = den n ∧
          (isCon n = true → isCon (equalTo n ov).2 = true)
      | .fail _ => (equalTo n ov).1 = false
      | .unspec => True := by
    intro ov hw ho
    rw [hw, testEq_null_right]
    have heq : equalTo n ov = (isNullN n, n) := by
      cases ov with
      | none => simp [equalTo]
      | some c => simp only at ho; simp [equalTo, ho]
    rw [heq]
    cases hx : (den n).isNull with
    | true =>
      have : isNullN n = true := hN.2 ((isNull_iff _).1 hx)
      simp [this, hn]
    | false =>
      have : isNullN n = false := by
        cases hy : isNullN n with
        | false => rfl
        | true => rw [hN.1 hy] at hx; simp [Value.isNull] at hx
      simp [this]
  cases ov with
  | none => exact hnull_case none rfl rfl
  | some c =>
    by_cases hc : c.isNullLit = true
    · exact hnull_case (some c) (by simp [(isNullLit_valueOf c).1 hc]) hc
    · have hc' : c.isNullLit = false := by cases h : c.isNullLit <;> simp_all
      have hcv : c.valueOf.isNull = false := by
        cases hx : c.valueOf.isNull with
        | false => rfl
        | true => exact absurd ((isNullLit_valueOf c).2 ((isNull_iff _).1 hx)) hc
      simp only [Option.map_some, Option.getD_some]
      by_cases hnn : isNullN n = true
      · rw [hN.1 hnn, testEq_null_left, hcv]
        simp [equalTo, hnn, hc']
      · have hnn' : isNullN n = false := by cases h : isNullN n <;> simp_all
        have heq := hEq n c hn.1 (hov c rfl) hnn' hc'
        have hequal : equalTo n (some c) = if eqNC n c then (true, deepParse n) else (false, n) := by
          simp [equalTo, hnn', hc']
        rw [hequal, heq]
        simp only [Spec.testEq]
        cases Value.eqv (den n) c.valueOf with
        | true =>
          have h4 : (true, deepParse n).1 = true ∧ Inv e (true, deepParse n).2 ∧
              den (true, deepParse n).2 = den n ∧ (isCon n = true → isCon (true, deepParse n).2 = true) :=
            ⟨rfl, Inv_deepParse hn, den_deepParse hn, isCon_deepParse⟩
          simpa using h4
        | false =>
          by_cases hnum : Spec.numEqv (den n) c.valueOf = true
          · simp [hnum]
          · simp [hnum]

/-! ### `get` as `test` uses it, with what `putChild` does afterwards -/

theorem getIn_fst {so : Spec.Opts} {b : Bool} {p : Value} {t : Bytes} {pv : Value × Value}
    (h : Spec.getIn so b p t = .ok pv) : pv.1 = p := by
  cases p with
  | obj ms =>
    simp only [Spec.getIn] at h
    cases hl : Value.lookup t ms with
    | some v => rw [hl] at h; cases h; rfl
    | none =>
      rw [hl] at h
      cases b with
      | true => simp at h; cases h; rfl
      | false => simp at h
  | arr xs =>
    simp only [Spec.getIn] at h
    cases hr : Spec.readIdx so.neg xs.length t with
    | unspec => rw [hr] at h; cases h
    | bad => rw [hr] at h; cases h
    | «at» i =>
      rw [hr] at h
      simp only at h
      cases hx : xs[i]? with
      | none => rw [hx] at h; cases h
      | some v => rw [hx] at h; cases h; rfl
  | null => simp [Spec.getIn] at h
  | bool b => simp [Spec.getIn] at h
  | num l => simp [Spec.getIn] at h
  | str s => simp [Spec.getIn] at h

theorem conGet_test_full {o : Opts} {e : Bool} {pc : Node} {key : Bytes} (s : Node)
    (h : Inv e pc) (hc : isCon pc = true) :
    match Spec.getIn (specOpts o) true (den pc) key with
    | .ok pv =>
      (∃ n, conGet o s pc key = .ok n ∧ Inv e n ∧ den n = pv.2 ∧
        ∀ c, Inv e c → den c = den n →
          (Inv e (putChild o pc key c) ∧ isCon (putChild o pc key c) = true ∧
            den (putChild o pc key c) = den pc)) ∨
      (conGet o s pc key = .err .missing ∧ pv.2 = .null)
    | .fail _ => ∃ er, conGet o s pc key = .err er ∧ er ≠ .missing
    | .unspec => True := by
  have hbase := conGet_refines_test (o := o) (key := key) s h hc
  cases hg : Spec.getIn (specOpts o) true (den pc) key with
  | unspec => trivial
  | fail c => rw [hg] at hbase; exact hbase
  | ok pv =>
    rw [hg] at hbase
    simp only at hbase ⊢
    rcases hbase with ⟨n, hn, hn1, hn2⟩ | hmiss
    · refine Or.inl ⟨n, hn, hn1, hn2, ?_⟩
      intro c hci hcd
      cases pc with
      | doc keys obj =>
        rw [conGet_doc o s keys obj key] at hn
        cases hl : lookupN key obj with
        | none => rw [hl] at hn; cases hn
        | some n' =>
          rw [hl] at hn
          cases hn
          obtain ⟨a, b⟩ := Inv_putChild_doc h hl hci
          refine ⟨a, rfl, ?_⟩
          rw [putChild_doc, b, hcd, set_lookup_self _ _ _ (by rw [lookupN_denM, hl]; rfl), den_doc_inv h]
      | ary ns =>
        have hget := conGet_ary o s ns key
        rw [den_ary] at hg
        simp only [Spec.getIn, denL_length, specOpts_neg] at hg
        cases hr : Spec.readIdx o.neg ns.length key with
        | unspec => rw [hr] at hg; cases hg
        | bad => rw [hr] at hg; cases hg
        | «at» i =>
          rw [hr] at hget
          obtain ⟨n', hn', hg'⟩ := hget
          rw [hg'] at hn
          cases hn
          rw [putChild_ary c hr]
          have hinvL := (Inv_ary e ns).1 h
          refine ⟨(Inv_ary e _).2 (InvL_listSet hci hinvL), rfl, ?_⟩
          rw [den_ary, denL_listSet, hcd, setAt_self _ _ _ (by simp [denL_getElem?, hn']), den_ary]
      | nil => simp [isCon] at hc
      | raw c => simp [isCon] at hc
      | docNil => simp [isCon] at hc
      | nilAry => simp [isCon] at hc
    · exact Or.inr hmiss

/-! ### the operation -/

theorem spec_test_root {so : Spec.Opts} {sz acc : Nat} {doc : Value} {sop : Spec.Op}
    (hk : sop.kind = .test) (hp : Spec.parsePointer sop.path = some []) :
    Spec.applyOp so sz acc doc sop =
      (Spec.testEq doc (sop.value.getD .null)).bind fun _ => .ok (doc, acc) := by
  simp only [Spec.applyOp, hp, hk]

/-- the edit `test` performs at the parent: read, compare, leave the parent alone -/
def testIn (so : Spec.Opts) (want : Value) (p : Value) (t : Bytes) : Res (Value × Unit) :=
  (Spec.getIn so true p t).bind fun pv => (Spec.testEq pv.2 want).bind fun _ => .ok (pv.1, ())

theorem spec_test {so : Spec.Opts} {sz acc : Nat} {doc : Value} {sop : Spec.Op}
    {t : Bytes} {ts : List Bytes}
    (hk : sop.kind = .test) (hp : Spec.parsePointer sop.path = some (t :: ts)) :
    Spec.applyOp so sz acc doc sop =
      (Spec.atParent so (Spec.getIn so true) doc (t :: ts)).bind fun pv =>
        (Spec.testEq pv.2 (sop.value.getD .null)).bind fun _ => .ok (doc, acc) := by
  simp only [Spec.applyOp, hp, hk]

theorem exists_concat {α} (l : List α) (h : l ≠ []) : ∃ ts t, l = ts ++ [t] :=
  ⟨l.dropLast, l.getLast h, (List.dropLast_concat_getLast h).symm⟩

/-- the two ways of writing `test` agree on the kind of result -/
theorem test_spec_rel (so : Spec.Opts) (want doc : Value) (acc : Nat) (toks : List Bytes) (hne : toks ≠ []) :
    match (Spec.atParent so (Spec.getIn so true) doc toks).bind fun pv =>
        (Spec.testEq pv.2 want).bind fun _ => (.ok (doc, acc) : Res (Value × Nat)) with
    | .ok va => ∃ vb, Spec.atParent so (testIn so want) doc toks = .ok vb ∧ vb.1 = va.1
    | .fail _ => ∃ c, Spec.atParent so (testIn so want) doc toks = .fail c
    | .unspec => True := by
  obtain ⟨ts, t, rfl⟩ := exists_concat toks hne
  rw [atParent_nav, atParent_nav]
  cases hn : nav so doc ts with
  | unspec => trivial
  | fail c => exact ⟨c, rfl⟩
  | ok pk =>
    obtain ⟨p, k⟩ := pk
    obtain ⟨_, hk⟩ := nav_ok so ts doc p k hn
    simp only [Res.bind, testIn]
    cases hg : Spec.getIn so true p t with
    | unspec => trivial
    | fail c => exact ⟨c, rfl⟩
    | ok pv =>
      have := getIn_fst hg
      simp only
      cases Spec.testEq pv.2 want with
      | unspec => trivial
      | fail c => exact ⟨c, rfl⟩
      | ok u => exact ⟨_, rfl, by simp [this, hk]⟩

def actTest (o : Opts) (ov : Option Cst) : Node → Node → Bytes → Outcome (Node × Unit) :=
  fun self con key =>
    let got : Outcome Node := match conGet o self con key with
      | .err .missing => .ok .nil
      | x => x
    match got with
    | .panic => .panic
    | .err e => .err e
    | .ok val =>
      let (b, val') := equalTo val ov
      if b then
        (match val with
         | .nil => .ok (con, ())
         | _ => .ok (putChild o con key val', ()))
      else .err .testFailed

theorem opTest_eq_nonroot (o : Opts) (r : Root) (op : Op) (hp : op.path ≠ []) :
    opTest o r op =
      liftWalk r (withPath o r op.path (actTest o op.value)) (fun _ => .err .missing) := by
  simp only [opTest, hp, if_false]
  rfl

theorem actTest_ref (hEq : EqSpec) {o : Opts} {e : Bool} {ov : Option Cst} {key : Bytes}
    (hov : ∀ c, ov = some c → c.valueOf.noDup = true) :
    ActRef e key (actTest o ov) (testIn (specOpts o) ((ov.map Cst.valueOf).getD .null))
      (fun _ _ => True) := by
  intro s pc hp hc
  have hfull := conGet_test_full (o := o) (key := key) s hp hc
  simp only [testIn]
  cases hg : Spec.getIn (specOpts o) true (den pc) key with
  | unspec => trivial
  | fail c =>
    rw [hg] at hfull
    obtain ⟨er, her, hne⟩ := hfull
    refine ⟨er, ?_⟩
    simp only [actTest, her]
    cases er <;> simp at hne ⊢
  | ok pv =>
    rw [hg] at hfull
    have hfst := getIn_fst hg
    simp only [Res.bind]
    rcases hfull with ⟨n, hn, hn1, hn2, hput⟩ | ⟨hmiss, hnull⟩
    · have heq := equalTo_refines hEq (ov := ov) hn1 hov
      rw [hn2] at heq
      cases ht : Spec.testEq pv.2 ((ov.map Cst.valueOf).getD .null) with
      | unspec => trivial
      | fail c =>
        rw [ht] at heq
        refine ⟨.testFailed, ?_⟩
        simp only [actTest, hn]
        cases hx : equalTo n ov with
        | mk b val' =>
          rw [hx] at heq
          simp only at heq
          simp [heq]
      | ok u =>
        rw [ht] at heq
        obtain ⟨h1, h2, h3, _⟩ := heq
        cases hx : equalTo n ov with
        | mk b val' =>
          rw [hx] at h1 h2 h3
          simp only at h1 h2 h3
          subst h1
          obtain ⟨a, b, c⟩ := hput val' h2 (h3.trans hn2.symm)
          cases n with
          | nil => exact ⟨pc, (), by simp [actTest, hn, hx], hp, hc, hfst.symm, trivial⟩
          | raw c' => exact ⟨_, (), by simp [actTest, hn, hx], a, b, by rw [c, hfst], trivial⟩
          | doc k' o' => exact ⟨_, (), by simp [actTest, hn, hx], a, b, by rw [c, hfst], trivial⟩
          | ary ns => exact ⟨_, (), by simp [actTest, hn, hx], a, b, by rw [c, hfst], trivial⟩
          | docNil => exact ⟨_, (), by simp [actTest, hn, hx], a, b, by rw [c, hfst], trivial⟩
          | nilAry => exact ⟨_, (), by simp [actTest, hn, hx], a, b, by rw [c, hfst], trivial⟩
    · have heq := equalTo_refines hEq (ov := ov) (Inv_nil e) hov
      simp only [den] at heq
      rw [hnull]
      cases ht : Spec.testEq .null ((ov.map Cst.valueOf).getD .null) with
      | unspec => trivial
      | fail c =>
        rw [ht] at heq
        refine ⟨.testFailed, ?_⟩
        simp only [actTest, hmiss]
        cases hx : equalTo .nil ov with
        | mk b val' =>
          rw [hx] at heq
          simp only at heq
          simp [heq]
      | ok u =>
        rw [ht] at heq
        obtain ⟨h1, _⟩ := heq
        cases hx : equalTo .nil ov with
        | mk b val' =>
          rw [hx] at h1
          simp only at h1
          subst h1
          exact ⟨pc, (), by simp [actTest, hmiss, hx], hp, hc, hfst.symm, trivial⟩

/-- a pointer outside RFC 6901: `test` finds nothing -/
theorem opTest_path_none (o : Opts) (r : Root) (op : Op)
    (hp : Spec.parsePointer op.path = none) : opTest o r op = .err .missing := by
  rw [opTest_eq_nonroot o r op (parsePointer_none_ne_nil hp), withPath_of_parsePointer_none _ _ _ hp]
  rfl

theorem opTest_refines (hEq : EqSpec) {o : Opts} {e : Bool} {r : Root} {op : Op} {sop : Spec.Op}
    (sz acc : Nat) (hr : InvRoot e r)
    (hk : sop.kind = .test) (hpath : sop.path = op.path)
    (hsval : sop.value = op.value.map Cst.valueOf)
    (hov : ∀ c, op.value = some c → c.valueOf.noDup = true) :
    OpRef e (Spec.applyOp (specOpts o) sz acc (den r.con) sop) (opTest o r op) := by
  cases hp : Spec.parsePointer op.path with
  | none =>
    rw [spec_path_none (by rw [hpath]; exact hp) (by simp [hk]), opTest_path_none o r op hp]
    exact ⟨.missing, rfl⟩
  | some toks =>
    cases toks with
    | nil =>
      have hnil : op.path = [] := (parsePointer_nil_iff hp).1 rfl
      rw [spec_test_root hk (by rw [hpath]; exact hp), hsval]
      have heq := equalTo_refines hEq (ov := op.value) hr.1 hov
      simp only [opTest, hnil, if_true]
      cases ht : Spec.testEq (den r.con) ((op.value.map Cst.valueOf).getD .null) with
      | unspec => trivial
      | fail c =>
        rw [ht] at heq
        simp only [Res.bind, OpRef]
        cases hx : equalTo r.con op.value with
        | mk b val' =>
          rw [hx] at heq
          simp only at heq
          exact ⟨.testFailed, by simp [heq]⟩
      | ok u =>
        rw [ht] at heq
        obtain ⟨h1, h2, h3, h4⟩ := heq
        simp only [Res.bind, OpRef]
        cases hx : equalTo r.con op.value with
        | mk b val' =>
          rw [hx] at h1 h2 h3 h4
          simp only at h1 h2 h3 h4
          subst h1
          exact ⟨{ r with con := val' }, by simp, ⟨h2, h4 hr.2⟩, h3⟩
    | cons t ts =>
      have hne : op.path ≠ [] := fun h => by
        have := (parsePointer_nil_iff hp).2 h; cases this
      rw [spec_test hk (by rw [hpath]; exact hp), opTest_eq_nonroot o r op hne, hsval]
      have hrel := test_spec_rel (specOpts o) ((op.value.map Cst.valueOf).getD .null) (den r.con) acc
        (t :: ts) (by simp)
      have hw : WalkRef e r (fun _ _ => True)
          (Spec.atParent (specOpts o) (testIn (specOpts o) ((op.value.map Cst.valueOf).getD .null))
            (den r.con) (t :: ts))
          (withPath o r op.path (actTest o op.value)) :=
        withPath_walkRef hr hp (by simp) (fun key _ => actTest_ref hEq hov)
      have hl := liftWalk_refines (k := fun _ => .err .missing) acc (fun _ => ⟨_, rfl⟩) hw
      cases hA : ((Spec.atParent (specOpts o) (Spec.getIn (specOpts o) true) (den r.con) (t :: ts)).bind fun pv =>
          (Spec.testEq pv.2 ((op.value.map Cst.valueOf).getD .null)).bind fun _ =>
            (.ok (den r.con, acc) : Res (Value × Nat))) with
      | unspec => trivial
      | fail c =>
        rw [hA] at hrel
        obtain ⟨c', hc'⟩ := hrel
        rw [hc'] at hl
        exact hl
      | ok va =>
        rw [hA] at hrel
        obtain ⟨vb, hvb, hvb1⟩ := hrel
        rw [hvb] at hl
        simp only [Res.bind, OpRef] at hl ⊢
        rw [← hvb1]
        exact hl

end Impl
end JP
