import JP.Lemmas.MergeLawsDiff
import JP.Check

/-!
# Laws connecting `diff` and `merge`: empty-iff-equal, round trip, minimality, literals
-/

namespace JP
namespace Spec
open Value

/-! ### null members reachable through objects only -/

mutual
/-- an object member with value null reachable through objects only (not through arrays) -/
def hasNullO : Value → Bool
  | .obj ms => hasNullOM ms
  | _ => false
def hasNullOM : Members → Bool
  | [] => false
  | (_, v) :: ms => v.isNull || hasNullO v || hasNullOM ms
end

theorem hasNullOM_false_iff : ∀ ms : Members, hasNullOM ms = false ↔
    ∀ k v, (k, v) ∈ ms → v ≠ .null ∧ hasNullO v = false
  | [] => by simp [hasNullOM]
  | (k', v') :: ms => by
    simp only [hasNullOM, Bool.or_eq_false_iff, hasNullOM_false_iff ms, List.mem_cons, isNull_false_iff]
    constructor
    · rintro ⟨⟨h1, h2⟩, h3⟩ k v (h | h)
      · cases h; exact ⟨h1, h2⟩
      · exact h3 k v h
    · intro h
      exact ⟨h k' v' (Or.inl rfl), fun k v hm => h k v (Or.inr hm)⟩

theorem hasNullO_obj (ms : Members) : hasNullO (.obj ms) = hasNullOM ms := by simp only [hasNullO]

mutual
theorem hasNullO_le : ∀ v : Value, hasNullMember v = false → hasNullO v = false
  | .null, _ => rfl
  | .bool _, _ => rfl
  | .num _, _ => rfl
  | .str _, _ => rfl
  | .arr _, _ => rfl
  | .obj ms, h => by
    simp only [hasNullMember] at h
    simp only [hasNullO]
    exact hasNullOM_le ms h
theorem hasNullOM_le : ∀ ms : Members, hasNullMemberM ms = false → hasNullOM ms = false
  | [], _ => rfl
  | (_, v) :: ms, h => by
    simp only [hasNullMemberM, Bool.or_eq_false_iff] at h
    simp only [hasNullOM, Bool.or_eq_false_iff]
    exact ⟨⟨h.1.1, hasNullO_le v h.1.2⟩, hasNullOM_le ms h.2⟩
end

/-! ### merging a null-free patch into a non-object reproduces the patch -/

theorem merge_nonobj_eqv : ∀ p : Value, ∀ t : Value, t.isObj = false → noDup p = true →
    hasNullO p = false → eqv (merge t p) p = true := by
  apply ind
  · intro t _ _ _; rfl
  · intro b t _ _ _; simp [merge, eqv]
  · intro l t _ _ _; simp [merge, eqv]
  · intro s t _ _ _; simp [merge, eqv]
  · intro xs _ t _ hp _; rw [merge_of_not_obj t rfl]; exact eqv_refl _ hp
  · intro ps ih t ht hp hn
    rw [merge_obj, mems_of_not_obj ht]
    rw [noDup_obj] at hp
    rw [hasNullO_obj, hasNullOM_false_iff] at hn
    rw [eqv_obj_iff (nodupKeys_mergeMs ps [] rfl)]
    intro k
    rw [lookup_mergeMs k ps hp.1, lookup_nil]
    cases hl : lookup k ps with
    | none => rfl
    | some p =>
      have hm := mem_of_lookup hl
      rw [mergeOpt_of_ne_null _ (hn k p hm).1]
      exact ih k p hm _ rfl ((noDupM_iff ps).1 hp.2 k p hm) (hn k p hm).2

/-! ### the patch entry of a common name is empty exactly when the values are equivalent -/

theorem isEmpty_iff_eq_nil {α : Type} (l : List α) : l.isEmpty = true ↔ l = [] := by
  cases l <;> simp

theorem eqv_nonobj_obj {av : Value} (h : av.isObj = false) (bms : Members) : eqv av (.obj bms) = false := by
  cases av <;> simp [eqv, isObj] at h ⊢

theorem diffMember_nil_iff : ∀ bv : Value, ∀ (k : Bytes) (av : Value), noDup av = true → noDup bv = true →
    (diffMember k av bv = [] ↔ eqv av bv = true) := by
  apply ind
  · intro k av _ _; rw [diffMember_of_not_obj k av rfl]; split <;> simp_all
  · intro b k av _ _; rw [diffMember_of_not_obj k av rfl]; split <;> simp_all
  · intro l k av _ _; rw [diffMember_of_not_obj k av rfl]; split <;> simp_all
  · intro s k av _ _; rw [diffMember_of_not_obj k av rfl]; split <;> simp_all
  · intro xs _ k av _ _; rw [diffMember_of_not_obj k av rfl]; split <;> simp_all
  · intro bms ih k av ha hb
    by_cases hao : av.isObj = true
    · cases av <;> simp [isObj] at hao
      rename_i ams
      rw [noDup_obj] at ha hb
      rw [diffMember_obj_obj]
      have key : diff ams bms = [] ↔ eqv (.obj ams) (.obj bms) = true := by
        rw [eq_nil_iff_lookup, eqv_obj_iff ha.1]
        refine forall_congr' fun k' => ?_
        rw [lookup_diff k' ams bms hb.1]
        cases hx : lookup k' ams with
        | none => cases hy : lookup k' bms <;> simp
        | some a' =>
          cases hy : lookup k' bms with
          | none => simp
          | some b' =>
            rw [diffOptFull_some_some, lookup_diffMember_eq_none_iff, optEqv_some_some]
            exact ih k' b' (mem_of_lookup hy) k' a' (noDup_of_lookup ha.2 hx) (noDup_of_lookup hb.2 hy)
      rw [← key, ← isEmpty_iff_eq_nil]
      split <;> simp_all
    · have hao' : av.isObj = false := by simpa using hao
      rw [diffMember_nonobj_obj k hao', eqv_nonobj_obj hao']
      simp

theorem diff_nil_iff (a b : Members) (ha : noDup (.obj a) = true) (hb : noDup (.obj b) = true) :
    diff a b = [] ↔ eqv (.obj a) (.obj b) = true := by
  rw [← diffMember_nil_iff (.obj b) [] (.obj a) ha hb, diffMember_obj_obj, ← isEmpty_iff_eq_nil]
  split <;> simp_all

/-! ### round trip -/

/-- one common name: the target member patched with the patch entry is equivalent to the new member -/
theorem roundtrip_member : ∀ bv : Value, noDup bv = true → hasNullO bv = false → bv ≠ .null →
    ∀ (k : Bytes) (av : Value), noDup av = true →
      optEqv (mergeOpt (some av) (lookup k (diffMember k av bv))) (some bv) = true := by
  have atom : ∀ bv : Value, bv.isObj = false → noDup bv = true → bv ≠ .null →
      ∀ (k : Bytes) (av : Value),
        optEqv (mergeOpt (some av) (lookup k (diffMember k av bv))) (some bv) = true := by
    intro bv hb hnd hnn k av
    rw [diffMember_of_not_obj k av hb]
    split
    · rename_i he; simpa [lookup] using he
    · rw [lookup_cons_self, mergeOpt_of_ne_null _ hnn, merge_of_not_obj _ hb]
      exact eqv_refl bv hnd
  apply ind
  · intro _ _ h; exact absurd rfl h
  · intro b h1 _ h3 k av _; exact atom _ rfl h1 h3 k av
  · intro b h1 _ h3 k av _; exact atom _ rfl h1 h3 k av
  · intro b h1 _ h3 k av _; exact atom _ rfl h1 h3 k av
  · intro b _ h1 _ h3 k av _; exact atom _ rfl h1 h3 k av
  · intro bms ih hb hn _ k av ha
    by_cases hao : av.isObj = true
    · cases av <;> simp [isObj] at hao
      rename_i ams
      have hb' := (noDup_obj _).1 hb
      have ha' := (noDup_obj _).1 ha
      have hn' := hn
      rw [hasNullO_obj, hasNullOM_false_iff] at hn'
      have key : eqv (.obj (mergeMs ams (diff ams bms))) (.obj bms) = true := by
        rw [eqv_obj_iff (nodupKeys_mergeMs _ _ ha'.1)]
        intro k'
        rw [lookup_mergeMs k' _ (nodupKeys_diff ams bms ha'.1 hb'.1), lookup_diff k' ams bms hb'.1]
        cases hx : lookup k' ams with
        | none =>
          cases hy : lookup k' bms with
          | none => rfl
          | some b' =>
            have hm := mem_of_lookup hy
            rw [diffOptFull_none_some, mergeOpt_of_ne_null _ (hn' k' b' hm).1]
            exact merge_nonobj_eqv b' _ rfl (noDup_of_lookup hb'.2 hy) (hn' k' b' hm).2
        | some a' =>
          cases hy : lookup k' bms with
          | none => rfl
          | some b' =>
            have hm := mem_of_lookup hy
            rw [diffOptFull_some_some]
            exact ih k' b' hm (noDup_of_lookup hb'.2 hy) (hn' k' b' hm).2 (hn' k' b' hm).1 k' a'
              (noDup_of_lookup ha'.2 hx)
      rw [diffMember_obj_obj]
      split
      · rename_i he
        rw [isEmpty_iff_eq_nil] at he
        rw [he, mergeMs_nil] at key
        simpa [lookup] using key
      · rw [lookup_cons_self, mergeOpt_of_ne_null _ (by simp), merge_obj]
        exact key
    · have hao' : av.isObj = false := by simpa using hao
      rw [diffMember_nonobj_obj k hao', lookup_cons_self, mergeOpt_of_ne_null _ (by simp)]
      exact merge_nonobj_eqv (.obj bms) _ hao' hb hn

theorem roundtrip_obj (a b : Members) (ha : noDup (.obj a) = true) (hb : noDup (.obj b) = true)
    (hn : hasNullO (.obj b) = false) :
    eqv (merge (.obj a) (.obj (diff a b))) (.obj b) = true := by
  have h := roundtrip_member (.obj b) hb hn (by simp) [] (.obj a) ha
  rw [diffMember_obj_obj] at h
  rw [merge_obj, mems_obj]
  split at h
  · rename_i he
    rw [isEmpty_iff_eq_nil] at he
    rw [he, mergeMs_nil]
    simpa [lookup] using h
  · rw [lookup_cons_self, mergeOpt_of_ne_null _ (by simp), merge_obj] at h
    exact h

/-! ### minimality -/

theorem minimalMs_iff (ams bms : Members) : ∀ pms : Members, minimalMs ams bms pms = true ↔
    ∀ k pv, (k, pv) ∈ pms →
      (match lookup k ams, lookup k bms with
       | some av, some bv => !eqv av bv && (if av.isObj && bv.isObj then minimalAt pv av bv else true)
       | none, some _ => true
       | some _, none => pv.isNull
       | none, none => false) = true
  | [] => by simp [minimalMs]
  | (k', pv') :: pms => by
    simp only [minimalMs, Bool.and_eq_true, minimalMs_iff ams bms pms, List.mem_cons]
    constructor
    · rintro ⟨h1, h2⟩ k pv (h | h)
      · cases h; exact h1
      · exact h2 k pv h
    · intro h
      exact ⟨h k' pv' (Or.inl rfl), fun k pv hm => h k pv (Or.inr hm)⟩

theorem minimalAt_obj_obj (pms ams bms : Members) :
    minimalAt (.obj pms) (.obj ams) (.obj bms) = (minimalMs ams bms pms && !pms.isEmpty) := by
  simp only [minimalAt]

theorem minimal_member : ∀ bv : Value, ∀ (k : Bytes) (av pv : Value), noDup av = true → noDup bv = true →
    lookup k (diffMember k av bv) = some pv →
    eqv av bv = false ∧ (av.isObj = true → bv.isObj = true → minimalAt pv av bv = true) := by
  have first : ∀ (bv : Value) (k : Bytes) (av pv : Value), noDup av = true → noDup bv = true →
      lookup k (diffMember k av bv) = some pv → eqv av bv = false := by
    intro bv k av pv ha hb hl
    cases he : eqv av bv with
    | false => rfl
    | true => rw [(diffMember_nil_iff bv k av ha hb).2 he] at hl; cases hl
  apply ind
  · intro k av pv ha hb hl; exact ⟨first _ k av pv ha hb hl, fun _ h => by cases h⟩
  · intro b k av pv ha hb hl; exact ⟨first _ k av pv ha hb hl, fun _ h => by cases h⟩
  · intro b k av pv ha hb hl; exact ⟨first _ k av pv ha hb hl, fun _ h => by cases h⟩
  · intro b k av pv ha hb hl; exact ⟨first _ k av pv ha hb hl, fun _ h => by cases h⟩
  · intro b _ k av pv ha hb hl; exact ⟨first _ k av pv ha hb hl, fun _ h => by cases h⟩
  · intro bms ih k av pv ha hb hl
    refine ⟨first _ k av pv ha hb hl, fun hao _ => ?_⟩
    cases av <;> simp [isObj] at hao
    rename_i ams
    have hb' := (noDup_obj _).1 hb
    have ha' := (noDup_obj _).1 ha
    rw [diffMember_obj_obj] at hl
    split at hl
    · cases hl
    · rename_i hne
      rw [lookup_cons_self] at hl
      cases hl
      rw [minimalAt_obj_obj, Bool.and_eq_true]
      refine ⟨?_, by simpa using hne⟩
      rw [minimalMs_iff]
      intro k' pv' hm
      have hl' := lookup_of_mem (nodupKeys_diff ams bms ha'.1 hb'.1) hm
      rw [lookup_diff k' ams bms hb'.1] at hl'
      cases hx : lookup k' ams with
      | none =>
        cases hy : lookup k' bms with
        | none => rw [hx, hy] at hl'; cases hl'
        | some b' => rfl
      | some a' =>
        cases hy : lookup k' bms with
        | none => rw [hx, hy] at hl'; simp at hl'; subst hl'; rfl
        | some b' =>
          rw [hx, hy, diffOptFull_some_some] at hl'
          have := ih k' b' (mem_of_lookup hy) k' a' pv' (noDup_of_lookup ha'.2 hx)
            (noDup_of_lookup hb'.2 hy) hl'
          simp only [this.1, Bool.not_false, Bool.true_and]
          split
          · rename_i hc
            rw [Bool.and_eq_true] at hc
            exact this.2 hc.1 hc.2
          · rfl

theorem minimalMs_diff (a b : Members) (ha : noDup (.obj a) = true) (hb : noDup (.obj b) = true) :
    minimalMs a b (diff a b) = true := by
  by_cases he : diff a b = []
  · rw [he]; simp [minimalMs]
  · have hl : lookup [] (diffMember [] (.obj a) (.obj b)) = some (.obj (diff a b)) := by
      rw [diffMember_obj_obj, if_neg (by rwa [isEmpty_iff_eq_nil]), lookup_cons_self]
    have := (minimal_member (.obj b) [] (.obj a) _ ha hb hl).2 rfl rfl
    rw [minimalAt_obj_obj, Bool.and_eq_true] at this
    exact this.1

/-! ### the patch is hereditarily duplicate-free -/

theorem noDupM_diffMember : ∀ bv : Value, ∀ (k : Bytes) (av : Value), noDup av = true → noDup bv = true →
    noDupM (diffMember k av bv) = true := by
  have atom : ∀ bv : Value, bv.isObj = false → ∀ (k : Bytes) (av : Value), noDup bv = true →
      noDupM (diffMember k av bv) = true := by
    intro bv hb k av hnd
    rw [diffMember_of_not_obj k av hb]
    split
    · rfl
    · simp [noDupM, hnd]
  apply ind
  · intro k av _ h; exact atom _ rfl k av h
  · intro b k av _ h; exact atom _ rfl k av h
  · intro b k av _ h; exact atom _ rfl k av h
  · intro b k av _ h; exact atom _ rfl k av h
  · intro b _ k av _ h; exact atom _ rfl k av h
  · intro bms ih k av ha hb
    by_cases hao : av.isObj = true
    · cases av <;> simp [isObj] at hao
      rename_i ams
      have hb' := (noDup_obj _).1 hb
      have ha' := (noDup_obj _).1 ha
      rw [diffMember_obj_obj]
      split
      · rfl
      · have hk := nodupKeys_diff ams bms ha'.1 hb'.1
        simp only [noDupM, Bool.and_true, noDup_obj]
        refine ⟨hk, (noDupM_iff _).2 ?_⟩
        intro k' v hm
        have hl := lookup_of_mem hk hm
        rw [lookup_diff k' ams bms hb'.1] at hl
        cases hx : lookup k' ams with
        | none =>
          cases hy : lookup k' bms with
          | none => rw [hx, hy] at hl; cases hl
          | some b' => rw [hx, hy] at hl; cases hl; exact noDup_of_lookup hb'.2 hy
        | some a' =>
          cases hy : lookup k' bms with
          | none => rw [hx, hy] at hl; cases hl; rfl
          | some b' =>
            rw [hx, hy, diffOptFull_some_some] at hl
            have := ih k' b' (mem_of_lookup hy) k' a' (noDup_of_lookup ha'.2 hx) (noDup_of_lookup hb'.2 hy)
            rw [diffMember_eq_of_lookup hl] at this
            simpa [noDupM] using this
    · rw [diffMember_nonobj_obj k (by simpa using hao)]
      simp [noDupM, hb]

theorem noDup_diff (a b : Members) (ha : noDup (.obj a) = true) (hb : noDup (.obj b) = true) :
    noDup (.obj (diff a b)) = true := by
  have h := noDupM_diffMember (.obj b) [] (.obj a) ha hb
  rw [diffMember_obj_obj] at h
  split at h
  · rename_i he
    rw [isEmpty_iff_eq_nil] at he
    rw [he]; rfl
  · simpa [noDupM] using h

/-! ### literals -/

theorem numLitsM_append : ∀ xs ys : Members, numLitsM (xs ++ ys) = numLitsM xs ++ numLitsM ys
  | [], ys => by simp [numLitsM]
  | (k, v) :: xs, ys => by simp [numLitsM, numLitsM_append xs ys]

theorem numLitsM_deletions (b : Members) : ∀ as : Members, numLitsM (deletions b as) = []
  | [] => by simp [deletions_nil, numLitsM]
  | (k, v) :: as => by
    rw [deletions_cons]
    split
    · exact numLitsM_deletions b as
    · simp [numLitsM, numLits, numLitsM_deletions b as]

theorem numLits_obj (ms : Members) : numLits (.obj ms) = numLitsM ms := by simp only [numLits]

theorem numLitsM_mem_of_mem {k : Bytes} {v : Value} {l : Bytes} : ∀ {ms : Members}, (k, v) ∈ ms →
    l ∈ numLits v → l ∈ numLitsM ms
  | [], h, _ => by cases h
  | (k', v') :: ms, h, hl => by
    simp only [numLitsM, List.mem_append]
    rcases List.mem_cons.1 h with h | h
    · cases h; exact Or.inl hl
    · exact Or.inr (numLitsM_mem_of_mem h hl)

theorem numLitsM_diffMs_of (a : Members) : ∀ bs : Members,
    (∀ k bv, (k, bv) ∈ bs → ∀ k' av l, l ∈ numLitsM (diffMember k' av bv) → l ∈ numLits bv) →
    ∀ l, l ∈ numLitsM (diffMs a bs) → l ∈ numLitsM bs
  | [], _, l, h => by rw [diffMs_nil] at h; exact h
  | (k, bv) :: bs, ih, l, h => by
    have ih' := numLitsM_diffMs_of a bs (fun k bv hm => ih k bv (List.mem_cons_of_mem _ hm)) l
    simp only [numLitsM, List.mem_append]
    cases ha : lookup k a with
    | none =>
      rw [diffMs_cons_none ha] at h
      simp only [numLitsM, List.mem_append] at h
      exact h.elim Or.inl fun h => Or.inr (ih' h)
    | some av =>
      rw [diffMs_cons_some ha, numLitsM_append, List.mem_append] at h
      exact h.elim (fun h => Or.inl (ih k bv List.mem_cons_self k av l h)) fun h => Or.inr (ih' h)

theorem numLits_diffMember : ∀ bv : Value, ∀ (k : Bytes) (av : Value) (l : Bytes),
    l ∈ numLitsM (diffMember k av bv) → l ∈ numLits bv := by
  have atom : ∀ bv : Value, bv.isObj = false → ∀ (k : Bytes) (av : Value) (l : Bytes),
      l ∈ numLitsM (diffMember k av bv) → l ∈ numLits bv := by
    intro bv hb k av l h
    rw [diffMember_of_not_obj k av hb] at h
    split at h
    · simp [numLitsM] at h
    · simpa [numLitsM] using h
  apply ind
  · exact atom _ rfl
  · intro b; exact atom _ rfl
  · intro b; exact atom _ rfl
  · intro b; exact atom _ rfl
  · intro b _; exact atom _ rfl
  · intro bms ih k av l h
    by_cases hao : av.isObj = true
    · cases av <;> simp [isObj] at hao
      rename_i ams
      rw [diffMember_obj_obj] at h
      split at h
      · simp [numLitsM] at h
      · simp only [numLitsM, List.append_nil, numLits_obj, diff, numLitsM_append,
          numLitsM_deletions] at h
        rw [numLits_obj]
        exact numLitsM_diffMs_of ams bms ih l h
    · rw [diffMember_nonobj_obj k (by simpa using hao)] at h
      simpa [numLitsM] using h

theorem numLits_diff (a b : Members) (l : Bytes) (h : l ∈ numLits (.obj (diff a b))) :
    l ∈ numLits (.obj b) := by
  rw [numLits_obj, diff, numLitsM_append, numLitsM_deletions, List.append_nil] at h
  rw [numLits_obj]
  exact numLitsM_diffMs_of a b (fun k bv _ => numLits_diffMember bv) l h

end Spec
end JP
