import JP.Lemmas.NoPanicWalk
import JP.Lemmas.CopySize

/-!
# The six operations keep the root invariant and never panic
-/

namespace JP
namespace Impl

theorem liftWalk_ok {Q : Unit → Prop} {r : Root} {w : Walk Unit} {k : Root → Outcome Root}
    (hr : RootOK r) (hw : WalkOK Q w) (hk : ∀ r', RootOK r' → OutOK (k r')) :
    OutOK (liftWalk r w k) := by
  cases w with
  | done con a => exact ⟨hw.1, hw.2.1, hr.2.2⟩
  | notFound con => exact hk _ ⟨hw.1, hw.2, hr.2.2⟩
  | fail e => trivial
  | panic => exact hw
  | doneSelf s a => exact ⟨hr.1, hr.2.1, hw.2.1⟩
  | notFoundSelf s => exact hk _ ⟨hr.1, hr.2.1, hw.2⟩

theorem liftAct_ok {α} {Q : α → Prop} {x : Outcome Node} {a : α} : ConOK x → Q a →
    ActOK Q (match x with
      | .ok con' => (.ok (con', a) : Outcome (Node × α))
      | .err e => .err e
      | .panic => .panic) := by
  intro hx ha
  cases x with
  | ok c => exact ⟨hx.1, hx.2, ha⟩
  | err e => trivial
  | panic => exact hx

theorem decodeRoot_ok (c : Cst) : ConOK (decodeRoot c) := by
  cases c with
  | arr xs => exact ⟨rfl, NP_decodeAry xs⟩
  | obj ms => exact ⟨rfl, NP_decodeDoc ms⟩
  | lit s => simp only [decodeRoot]; split <;> simp [ConOK, isCon]
  | str s => trivial

theorem NP_valueNode (op : Op) : NP (op.valueNode.getD .nil) := by
  unfold Op.valueNode
  cases op.value <;> simp

theorem addWalk_ok {o r path val} (hr : RootOK r) (hv : NP val) :
    WalkOK (fun _ => True) (addWalk o r path val) :=
  withPath_ok o r path _ _ hr fun _ _ _ hc hn _ => liftAct_ok (conAdd_ok hc hn hv) trivial

theorem opAdd_ok {o r op} (hr : RootOK r) (hv : op.path = [] → op.value.isSome) :
    OutOK (opAdd o r op) := by
  unfold opAdd
  split
  · rename_i hp
    have := hv hp
    cases hval : op.value with
    | none => rw [hval] at this; simp at this
    | some c =>
      simp only []
      have hd := decodeRoot_ok c
      cases h : decodeRoot c with
      | ok con => rw [h] at hd; exact ⟨hd.1, hd.2, NP_raw c⟩
      | err e => trivial
      | panic => rw [h] at hd; exact hd
  · simp only []
    have h1 : OutOK (if o.ensure then ensurePath o r op.path else .ok r) := by
      split
      · exact ensurePath_ok hr
      · exact hr
    cases hr1 : (if o.ensure then ensurePath o r op.path else Outcome.ok r) with
    | err e => trivial
    | panic => rw [hr1] at h1; exact h1
    | ok r1 =>
      rw [hr1] at h1
      exact liftWalk_ok h1 (addWalk_ok h1 (NP_valueNode op)) (fun _ _ => trivial)

theorem opRemove_ok {o r op} (hr : RootOK r) : OutOK (opRemove o r op) := by
  unfold opRemove
  refine liftWalk_ok (Q := fun _ => True) hr ?_ ?_
  · exact withPath_ok o r _ _ _ hr fun _ _ _ hc hn _ => liftAct_ok (conRemove_ok hc hn) trivial
  · intro r' hr'
    split
    · exact hr'
    · trivial

theorem opReplace_ok {o r op} (hr : RootOK r) (hv : op.path = [] → op.value.isSome) :
    OutOK (opReplace o r op) := by
  unfold opReplace
  split
  · rename_i hp
    have := hv hp
    cases hval : op.value with
    | none => rw [hval] at this; simp at this
    | some c =>
      simp only []
      cases c with
      | obj ms => exact ⟨rfl, NP_decodeDoc ms, NP_nil⟩
      | arr xs => exact ⟨rfl, NP_decodeAry xs, NP_nil⟩
      | lit s =>
        simp only []
        split
        · exact ⟨rfl, NP_nilAry, NP_nil⟩
        · trivial
      | str s => trivial
  · simp only []
    refine liftWalk_ok (Q := fun _ => True) hr ?_ (fun _ _ => trivial)
    refine withPath_ok o r _ _ _ hr ?_
    intro self con key hc hn hs
    cases hg : conGet o self con key with
    | panic => exact absurd hg (conGet_ne_panic hc)
    | err e => trivial
    | ok x => exact liftAct_ok (conSet_ok hc hn (NP_valueNode op) hg) trivial

theorem opMove_ok {o r op} (hr : RootOK r) : OutOK (opMove o r op) := by
  unfold opMove
  split
  · trivial
  · split
    · trivial
    · rename_i frm _ _
      simp only []
      generalize hwe : (withPath o r frm _) = w
      have hw : WalkOK NP w := by
        rw [← hwe]
        refine withPath_ok o r _ _ _ hr ?_
        intro self con key hc hn hs
        cases hg : conGet o self con key with
        | panic => exact absurd hg (conGet_ne_panic hc)
        | err e => trivial
        | ok x =>
          have hx : NP x := conGet_NP hs hn hg
          exact liftAct_ok (conRemove_ok hc hn) hx
      have hcont : ∀ r1 val, RootOK r1 → NP val → OutOK (liftWalk r1 (addWalk o r1 op.path val)
          (fun _ => .err .missing)) := by
        intro r1 val h1 hv
        exact liftWalk_ok h1 (addWalk_ok h1 hv) (fun _ _ => trivial)
      clear hwe
      cases w with
      | panic => exact hw
      | fail e => trivial
      | notFound c => trivial
      | notFoundSelf s => trivial
      | done con val => exact hcont _ _ ⟨hw.1, hw.2.1, hr.2.2⟩ hw.2.2
      | doneSelf s val => exact hcont _ _ ⟨hr.1, hr.2.1, hw.2.1⟩ hw.2.2

theorem equalTo_ok {n : Node} {ov : Option Cst} (hn : NP n) :
    NP (equalTo n ov).2 ∧ (isCon n = true → isCon (equalTo n ov).2 = true) := by
  cases ov with
  | none => simp [equalTo]; exact hn
  | some c =>
    simp only [equalTo]
    split
    · exact ⟨hn, id⟩
    · split
      · exact ⟨NP_deepParse n hn, isCon_deepParse⟩
      · exact ⟨hn, id⟩

theorem opTest_ok {o r op} (hr : RootOK r) : OutOK (opTest o r op) := by
  unfold opTest
  split
  · have := equalTo_ok (n := r.con) (ov := op.value) hr.2.1
    cases he : equalTo r.con op.value with
    | mk b con' =>
      rw [he] at this
      simp only []
      split
      · exact ⟨this.2 hr.1, this.1, hr.2.2⟩
      · trivial
  · refine liftWalk_ok (Q := fun _ => True) hr ?_ (fun _ _ => trivial)
    refine withPath_ok o r _ _ _ hr ?_
    intro self con key hc hn hs
    simp only []
    cases hg : conGet o self con key with
    | panic => exact absurd hg (conGet_ne_panic hc)
    | err e =>
      cases e <;> simp only [] <;> first
        | trivial
        | skip
      -- the missing case: the value reads as nil
      have := equalTo_ok (n := .nil) (ov := op.value) NP_nil
      cases he : equalTo Node.nil op.value with
      | mk b val' =>
        simp only []
        split
        · exact ⟨hc, hn, trivial⟩
        · trivial
    | ok val =>
      simp only []
      have hval := conGet_NP hs hn hg
      have := equalTo_ok (n := val) (ov := op.value) hval
      cases he : equalTo val op.value with
      | mk b val' =>
        rw [he] at this
        simp only []
        split
        · split
          · exact ⟨hc, hn, trivial⟩
          · have hp := putChild_ok (child' := val') hc hn this.1 hg
            exact ⟨hp.1, hp.2, trivial⟩
        · trivial

/-! ### copy -/

def OutOK2 : Outcome (Root × Int) → Prop
  | .ok (r', _) => RootOK r'
  | .err _ => True
  | .panic => False

theorem afterW_ok {α} {Q : α → Prop} {r : Root} {w : Walk α} {r1 : Root} (hr : RootOK r)
    (hw : WalkOK Q w) (h : afterW r w = some r1) : RootOK r1 := by
  cases w <;> simp only [afterW] at h <;> first | contradiction | cases h
  · exact ⟨hw.1, hw.2.1, hr.2.2⟩
  · exact ⟨hr.1, hr.2.1, hw.2.1⟩

theorem failOf_ok {α} {Q : α → Prop} {w : Walk α} (hw : WalkOK Q w) : OutOK2 (failOf w) := by
  cases w <;> simp only [failOf] <;> first | trivial | exact hw

theorem copySource_ok {o r frm} (hr : RootOK r) : WalkOK NP (copySource o r frm) := by
  refine withPath_ok o r _ _ _ hr ?_
  intro self con key hc hn hs
  cases hg : conGet o self con key with
  | panic => exact absurd hg (conGet_ne_panic hc)
  | err e => trivial
  | ok x => exact ⟨hc, hn, conGet_NP hs hn hg⟩

theorem copyFirst_ok {o r frm} (hr : RootOK r) : WalkOK NP (copyFirst o r frm) := by
  unfold copyFirst
  split
  · split
    · trivial
    · exact ⟨hr.1, hr.2.1, hr.2.1⟩
  · exact copySource_ok hr

theorem destWalk_ok {o r path} (hr : RootOK r) : WalkOK (fun _ => True) (destWalk o r path) :=
  withPath_ok o r _ _ _ hr fun _ _ _ hc hn _ => ⟨hc, hn, trivial⟩

theorem NP_deepCopy (esc : Bool) (n : Node) : NP (deepCopy esc n).1 := by
  cases n <;> simp [deepCopy]

theorem opCopy_ok {o r acc op} (hr : RootOK r) : OutOK2 (opCopy o r acc op) := by
  rw [opCopy_eq]
  split
  · trivial
  · rename_i frm _
    have hw1 := copyFirst_ok (o := o) (frm := frm) hr
    split
    · exact failOf_ok hw1
    · rename_i r1 h1
      have hr1 := afterW_ok hr hw1 h1
      have hw2 := destWalk_ok (o := o) (path := op.path) hr1
      split
      · exact failOf_ok hw2
      · rename_i r2 h2
        have hr2 := afterW_ok hr1 hw2 h2
        split
        · rename_i h3
          unfold copySrc at h3
          split at h3
          · contradiction
          · have hw3 := copySource_ok (o := o) (frm := frm) hr2
            split at h3 <;> first | contradiction | skip
            rename_i h4; rw [h4] at hw3; exact hw3
        · trivial
        · rename_i val h3
          split
          · trivial
          · split
            · trivial
            · have hw4 := addWalk_ok (o := o) (path := op.path) hr2 (NP_deepCopy o.esc val)
              split
              · rename_i r3 h4
                exact afterW_ok hr2 hw4 h4
              · exact failOf_ok hw4

end Impl
end JP
