import JP.Lemmas.HeapLegacyRepr
import JP.Lemmas.HeapMarshal

/-!
# Reading a legacy tree back: `Lg.abs` and `Lg.marshal` terminate within the footprint's size and
return the represented node / its `Legacy.cstOf`
-/

namespace JP
namespace Heap
namespace Lg

open JP.Impl (Outcome)
open JP.Legacy (Node NMembers cstOf cstOfL cstOfM)

/-- a footprint has at most as many cells as the heap -/
theorem LRepr.size_le {h : Heap} {n : Node} {p : Ptr} {fp : List Nat} (r : LRepr h n p fp) :
    fp.length ≤ h.length := Repr.size_le r.to

mutual
theorem abs_of_repr {h : Heap} : ∀ (n : Node) {p fp}, LRepr h n p fp → ∀ fuel, fp.length < fuel →
    abs h fuel p = some n
  | .nil, p, fp, r, fuel, _ => by
    simp only [LRepr] at r; obtain ⟨rfl, _⟩ := r
    cases fuel <;> rfl
  | .rawNil, p, fp, r, fuel, hf => by
    simp only [LRepr] at r; obtain ⟨a, rfl, ha, rfl⟩ := r
    cases fuel with
    | zero => simp at hf
    | succ k => simp only [abs, ha, absCell]
  | .raw c, p, fp, r, fuel, hf => by
    simp only [LRepr] at r; obtain ⟨a, rfl, ha, rfl⟩ := r
    cases fuel with
    | zero => simp at hf
    | succ k => simp only [abs, ha, absCell]
  | .docNil, p, fp, r, fuel, hf => by
    simp only [LRepr] at r; obtain ⟨a, rfl, ha, rfl⟩ := r
    cases fuel with
    | zero => simp at hf
    | succ k => simp only [abs, ha, absCell]
  | .doc ms, p, fp, r, fuel, hf => by
    simp only [LRepr] at r; obtain ⟨a, ps, f, rfl, ha, hm, _, rfl⟩ := r
    cases fuel with
    | zero => simp at hf
    | succ k =>
      simp only [List.length_cons] at hf
      simp only [abs, ha, absCell, absM_of_repr ms hm k (by omega)]
  | .ary ns, p, fp, r, fuel, hf => by
    simp only [LRepr] at r; obtain ⟨a, ps, f, rfl, ha, hm, _, rfl⟩ := r
    cases fuel with
    | zero => simp at hf
    | succ k =>
      simp only [List.length_cons] at hf
      simp only [abs, ha, absCell, absL_of_repr ns hm k (by omega)]
theorem absL_of_repr {h : Heap} : ∀ (ns : List Node) {ps fp}, LReprL h ns ps fp → ∀ fuel, fp.length < fuel →
    optMapL (fun p => abs h fuel p) ps = some ns
  | [], ps, fp, r, fuel, _ => by
    simp only [LReprL] at r; obtain ⟨rfl, _⟩ := r; rfl
  | n :: ns, ps, fp, r, fuel, hf => by
    simp only [LReprL] at r; obtain ⟨p, ps', f1, f2, rfl, h1, h2, _, rfl⟩ := r
    simp only [List.length_append] at hf
    simp only [optMapL, abs_of_repr n h1 fuel (by omega), absL_of_repr ns h2 fuel (by omega)]
theorem absM_of_repr {h : Heap} : ∀ (ms : NMembers) {ps fp}, LReprM h ms ps fp → ∀ fuel, fp.length < fuel →
    optMapM (fun p => abs h fuel p) ps = some ms
  | [], ps, fp, r, fuel, _ => by
    simp only [LReprM] at r; obtain ⟨rfl, _⟩ := r; rfl
  | (k, n) :: ms, ps, fp, r, fuel, hf => by
    simp only [LReprM] at r; obtain ⟨p, ps', f1, f2, rfl, h1, h2, _, rfl⟩ := r
    simp only [List.length_append] at hf
    simp only [optMapM, abs_of_repr n h1 fuel (by omega), absM_of_repr ms h2 fuel (by omega)]
end

mutual
theorem marshal_of_repr {h : Heap} : ∀ (n : Node) {p fp}, LRepr h n p fp → ∀ fuel,
    fp.length < fuel → marshal h fuel p = some (cstOf n)
  | .nil, p, fp, r, fuel, _ => by
    simp only [LRepr] at r; obtain ⟨rfl, _⟩ := r
    cases fuel <;> simp [marshal, cstOf]
  | .rawNil, p, fp, r, fuel, hf => by
    simp only [LRepr] at r; obtain ⟨a, rfl, ha, rfl⟩ := r
    cases fuel with
    | zero => simp at hf
    | succ k => simp only [marshal, ha, marshalCell, cstOf]
  | .raw c, p, fp, r, fuel, hf => by
    simp only [LRepr] at r; obtain ⟨a, rfl, ha, rfl⟩ := r
    cases fuel with
    | zero => simp at hf
    | succ k => simp only [marshal, ha, marshalCell, cstOf]
  | .docNil, p, fp, r, fuel, hf => by
    simp only [LRepr] at r; obtain ⟨a, rfl, ha, rfl⟩ := r
    cases fuel with
    | zero => simp at hf
    | succ k => simp only [marshal, ha, marshalCell, cstOf]
  | .doc ms, p, fp, r, fuel, hf => by
    simp only [LRepr] at r; obtain ⟨a, ps, f, rfl, ha, hm, _, rfl⟩ := r
    cases fuel with
    | zero => simp at hf
    | succ k =>
      simp only [List.length_cons] at hf
      simp only [marshal, ha, marshalCell, marshalM_of_repr ms hm k (by omega), cstOf]
  | .ary ns, p, fp, r, fuel, hf => by
    simp only [LRepr] at r; obtain ⟨a, ps, f, rfl, ha, hm, _, rfl⟩ := r
    cases fuel with
    | zero => simp at hf
    | succ k =>
      simp only [List.length_cons] at hf
      simp only [marshal, ha, marshalCell, marshalL_of_repr ns hm k (by omega), cstOf]
theorem marshalL_of_repr {h : Heap} : ∀ (ns : List Node) {ps fp}, LReprL h ns ps fp →
    ∀ fuel, fp.length < fuel → optMapL (fun p => marshal h fuel p) ps = some (cstOfL ns)
  | [], ps, fp, r, fuel, _ => by
    simp only [LReprL] at r; obtain ⟨rfl, _⟩ := r; simp [optMapL, cstOfL]
  | n :: ns, ps, fp, r, fuel, hf => by
    simp only [LReprL] at r; obtain ⟨p, ps', f1, f2, rfl, h1, h2, _, rfl⟩ := r
    simp only [List.length_append] at hf
    simp only [optMapL, marshal_of_repr n h1 fuel (by omega),
      marshalL_of_repr ns h2 fuel (by omega), cstOfL]
theorem marshalM_of_repr {h : Heap} : ∀ (ms : NMembers) {ps fp}, LReprM h ms ps fp →
    ∀ fuel, fp.length < fuel → optMapM (fun p => marshal h fuel p) ps = some (cstOfM ms)
  | [], ps, fp, r, fuel, _ => by
    simp only [LReprM] at r; obtain ⟨rfl, _⟩ := r; simp [optMapM, cstOfM]
  | (k, n) :: ms, ps, fp, r, fuel, hf => by
    simp only [LReprM] at r; obtain ⟨p, ps', f1, f2, rfl, h1, h2, _, rfl⟩ := r
    simp only [List.length_append] at hf
    simp only [optMapM, marshal_of_repr n h1 fuel (by omega),
      marshalM_of_repr ms h2 fuel (by omega), cstOfM]
end

/-- `fuelOf h` (number of cells + 1) always suffices on a tree -/
theorem abs_fuelOf {h : Heap} {n : Node} {p : Ptr} {fp : List Nat} (r : LRepr h n p fp) :
    abs h (fuelOf h) p = some n :=
  abs_of_repr n r _ (by have := r.size_le; simp only [fuelOf]; omega)

theorem marshal_fuelOf {h : Heap} {n : Node} {p : Ptr} {fp : List Nat} (r : LRepr h n p fp) :
    marshal h (fuelOf h) p = some (cstOf n) :=
  marshal_of_repr n r _ (by have := r.size_le; simp only [fuelOf]; omega)

end Lg
end Heap
end JP
