import JP.Lemmas.TextEsc

/-!
# The encoder's string spelling `quoteBody`: valid, clean, and decoded back by `unquote`
-/

namespace JP

/-- the letter of the two-character escape the encoder uses for `b` -/
def escLetter (b : UInt8) : UInt8 := if b = 10 then 110 else if b = 13 then 114 else if b = 9 then 116 else b

set_option maxRecDepth 100000 in
theorem quoteAscii_cases_true : ∀ b : UInt8, b.toNat < 128 →
    (quoteAscii true b = [b] ∧ 32 ≤ b.toNat ∧ b ≠ 34 ∧ b ≠ 92 ∧ plainByte b) ∨
    (quoteAscii true b = [92, escLetter b] ∧ simpleEsc (escLetter b) ∧ escChar (escLetter b) = b) ∨
    (quoteAscii true b = [92, 117, 48, 48, hexLower (b.toNat / 16), hexLower (b.toNat % 16)] ∧
      hex4 [48, 48, hexLower (b.toNat / 16), hexLower (b.toNat % 16)] = some b.toNat ∧
      isHex (hexLower (b.toNat / 16)) = true ∧ isHex (hexLower (b.toNat % 16)) = true) := by
  apply byte_forall; decide

set_option maxRecDepth 100000 in
theorem quoteAscii_cases_false : ∀ b : UInt8, b.toNat < 128 →
    (quoteAscii false b = [b] ∧ 32 ≤ b.toNat ∧ b ≠ 34 ∧ b ≠ 92) ∨
    (quoteAscii false b = [92, escLetter b] ∧ simpleEsc (escLetter b) ∧ escChar (escLetter b) = b) ∨
    (quoteAscii false b = [92, 117, 48, 48, hexLower (b.toNat / 16), hexLower (b.toNat % 16)] ∧
      hex4 [48, 48, hexLower (b.toNat / 16), hexLower (b.toNat % 16)] = some b.toNat ∧
      isHex (hexLower (b.toNat / 16)) = true ∧ isHex (hexLower (b.toNat % 16)) = true) := by
  apply byte_forall; decide

theorem quoteAscii_cases (e : Bool) (b : UInt8) (hb : b.toNat < 128) :
    (quoteAscii e b = [b] ∧ 32 ≤ b.toNat ∧ b ≠ 34 ∧ b ≠ 92 ∧ (e = true → plainByte b)) ∨
    (quoteAscii e b = [92, escLetter b] ∧ simpleEsc (escLetter b) ∧ escChar (escLetter b) = b) ∨
    (quoteAscii e b = [92, 117, 48, 48, hexLower (b.toNat / 16), hexLower (b.toNat % 16)] ∧
      hex4 [48, 48, hexLower (b.toNat / 16), hexLower (b.toNat % 16)] = some b.toNat ∧
      isHex (hexLower (b.toNat / 16)) = true ∧ isHex (hexLower (b.toNat % 16)) = true) := by
  cases e with
  | true =>
    rcases quoteAscii_cases_true b hb with ⟨h1, h2, h3, h4, h5⟩ | h | h
    · left; exact ⟨h1, h2, h3, h4, fun _ => h5⟩
    · right; left; exact h
    · right; right; exact h
  | false =>
    rcases quoteAscii_cases_false b hb with ⟨h1, h2, h3, h4⟩ | h | h
    · left; exact ⟨h1, h2, h3, h4, fun h => by cases h⟩
    · right; left; exact h
    · right; right; exact h

/-! ### one ASCII byte -/

theorem VB_quoteAscii (e : Bool) (b : UInt8) (hb : b.toNat < 128) (X : Bytes) (hX : VB X) :
    VB (quoteAscii e b ++ X) := by
  rcases quoteAscii_cases e b hb with ⟨h1, h2, h3, h4, _⟩ | ⟨h1, h2, _⟩ | ⟨h1, _, h3, h4⟩
  · rw [h1]; exact (VB_plain_iff b X h4).2 ⟨h3, h2, hX⟩
  · rw [h1]; exact (VB_simple_iff _ X h2).2 hX
  · rw [h1]; exact (VB_u_iff _ _ _ _ X).2 ⟨⟨by decide, by decide, h3, h4⟩, hX⟩

theorem encodeRune_byte (b : UInt8) (hb : b.toNat < 128) : encodeRune b.toNat = [b] := by
  rw [encodeRune_one _ hb, u8_of_toNat]

theorem isSurrogate_small (r : Nat) (h : r < 0xD800) : isSurrogate r = false := by
  simp only [isSurrogate, Bool.and_eq_false_iff, decide_eq_false_iff_not]; omega

theorem unquoteBody_quoteAscii (e : Bool) (b : UInt8) (hb : b.toNat < 128) (X : Bytes) :
    unquoteBody (quoteAscii e b ++ X) = (unquoteBody X).map (b :: ·) := by
  rcases quoteAscii_cases e b hb with ⟨h1, h2, h3, h4, _⟩ | ⟨h1, h2, h3⟩ | ⟨h1, h2, _, _⟩
  · rw [h1, List.singleton_append, unquoteBody_plain b X h4]
    rw [if_neg (by simp only [h3, false_or]; omega), if_pos hb]
  · rw [h1]
    show unquoteBody (92 :: escLetter b :: X) = _
    rw [unquoteBody_simple _ X h2, h3]
  · rw [h1]
    show unquoteBody (92 :: 117 :: 48 :: 48 :: _ :: _ :: X) = _
    rw [unquoteBody_u4 _ _ _ _ X b.toNat h2 (isSurrogate_small _ (by omega)), encodeRune_byte b hb]
    rfl

theorem hasRawHtml_quoteAscii (b : UInt8) (hb : b.toNat < 128) (X : Bytes) :
    hasRawHtml (quoteAscii true b ++ X) = hasRawHtml X := by
  rcases quoteAscii_cases true b hb with ⟨h1, _, _, _, h5⟩ | ⟨h1, h2, _⟩ | ⟨h1, _, h3, h4⟩
  · rw [h1, List.singleton_append, hasRawHtml_plain _ _ (h5 rfl)]
  · rw [h1]
    show hasRawHtml (92 :: escLetter b :: X) = _
    rw [hasRawHtml_plain _ _ (by decide), hasRawHtml_plain _ _ (simpleEsc_plain _ h2).1]
  · rw [h1]
    show hasRawHtml (92 :: 117 :: 48 :: 48 :: _ :: _ :: X) = _
    rw [hasRawHtml_plain _ _ (by decide), hasRawHtml_plain _ _ (by decide), hasRawHtml_plain _ _ (by decide),
      hasRawHtml_plain _ _ (by decide), hasRawHtml_plain _ _ (isHex_plain _ h3).1,
      hasRawHtml_plain _ _ (isHex_plain _ h4).1]

/-! ### one multi-byte rune -/

theorem VB_high_append (T Y : Bytes) (hT : ∀ x ∈ T, 0x80 ≤ x.toNat) (hY : VB Y) : VB (T ++ Y) := by
  induction T with
  | nil => exact hY
  | cons x T ih =>
    have hx := hT x (List.mem_cons_self ..)
    have h92 : x ≠ 92 := by rintro rfl; revert hx; decide
    have h34 : x ≠ 34 := by rintro rfl; revert hx; decide
    exact (VB_plain_iff x _ h92).2 ⟨h34, by omega, ih (fun y hy => hT y (List.mem_cons_of_mem _ hy))⟩

theorem rune_bytes_high (b : UInt8) (rest : Bytes) (hb : 0x80 ≤ b.toNat) :
    ∀ x ∈ (b :: rest).take (decodeRune (b :: rest)).2, 0x80 ≤ x.toNat := by
  rcases decodeRune_cases b rest with ⟨h1, hd⟩ | ⟨h1, hd⟩ | ⟨b1, t, rfl, h1, h2, c1, c2, hd⟩ |
      ⟨b1, b2, t, rfl, h1, h2, c1, c2, c3, c4, d1, d2, hd⟩ |
      ⟨b1, b2, b3, t, rfl, h1, h2, c1, c2, c3, c4, d1, d2, f1, f2, hd⟩
  · omega
  · rw [hd]; intro x hx; simp at hx; subst hx; exact hb
  · rw [hd]; intro x hx; simp at hx; rcases hx with rfl | rfl <;> assumption
  · rw [hd]; intro x hx; simp at hx; rcases hx with rfl | rfl | rfl <;> assumption
  · rw [hd]; intro x hx; simp at hx; rcases hx with rfl | rfl | rfl | rfl <;> assumption

/-- a raw multi-byte rune other than U+2028/9 shows no HTML-sensitive window -/
theorem hasRawHtml_rune (b : UInt8) (rest Y : Bytes) (hb : 0x80 ≤ b.toNat) (hok : runeOk (b :: rest))
    (h1 : (decodeRune (b :: rest)).1 ≠ 0x2028) (h2 : (decodeRune (b :: rest)).1 ≠ 0x2029) :
    hasRawHtml ((b :: rest).take (decodeRune (b :: rest)).2 ++ Y) = hasRawHtml Y := by
  have pl : ∀ x : UInt8, 0x80 ≤ x.toNat → x.toNat ≠ 0xE2 → plainByte x := by
    intro x hx hE
    refine ⟨?_, ?_, ?_, ?_⟩ <;> (rintro rfl; revert hx hE; decide)
  rcases decodeRune_cases b rest with ⟨g1, hd⟩ | ⟨g1, hd⟩ | ⟨b1, t, rfl, g1, g2, c1, c2, hd⟩ |
      ⟨b1, b2, t, rfl, g1, g2, c1, c2, c3, c4, d1, d2, hd⟩ |
      ⟨b1, b2, b3, t, rfl, g1, g2, c1, c2, c3, c4, d1, d2, f1, f2, hd⟩
  · omega
  · exact absurd (by rw [hd]; exact ⟨rfl, rfl⟩) hok
  · rw [hd]
    show hasRawHtml (b :: b1 :: Y) = _
    rw [hasRawHtml_plain _ _ (pl b hb (by omega)), hasRawHtml_plain _ _ (plain_of_cont b1 c1 c2).1]
  · rw [hd] at h1 h2 ⊢
    show hasRawHtml (b :: b1 :: b2 :: Y) = _
    by_cases hE : b.toNat = 0xE2
    · rw [hasRawHtml_cons, hasRawHtml_plain _ _ (plain_of_cont b1 c1 c2).1,
        hasRawHtml_plain _ _ (plain_of_cont b2 d1 d2).1]
      have n1 : ¬ (b1.toNat = 0x80 ∧ b2.toNat = 0xA8) := by
        rintro ⟨e1, e2⟩; apply h1; simp only [hE, e1, e2]
      have n2 : ¬ (b1.toNat = 0x80 ∧ b2.toNat = 0xA9) := by
        rintro ⟨e1, e2⟩; apply h2; simp only [hE, e1, e2]
      have m1 : ((b1 :: b2 :: Y).take 2 == [0x80, 0xA8]) = false := by
        simp only [List.take_succ_cons, List.take_zero, beq_eq_false_iff_ne, ne_eq, List.cons.injEq, and_true]
        rintro ⟨rfl, rfl⟩; exact n1 ⟨rfl, rfl⟩
      have m2 : ((b1 :: b2 :: Y).take 2 == [0x80, 0xA9]) = false := by
        simp only [List.take_succ_cons, List.take_zero, beq_eq_false_iff_ne, ne_eq, List.cons.injEq, and_true]
        rintro ⟨rfl, rfl⟩; exact n2 ⟨rfl, rfl⟩
      have k1 : b ≠ 60 := by rintro rfl; revert hb; decide
      have k2 : b ≠ 62 := by rintro rfl; revert hb; decide
      have k3 : b ≠ 38 := by rintro rfl; revert hb; decide
      rw [m1, m2]; simp [k1, k2, k3]
    · rw [hasRawHtml_plain _ _ (pl b hb hE), hasRawHtml_plain _ _ (plain_of_cont b1 c1 c2).1,
        hasRawHtml_plain _ _ (plain_of_cont b2 d1 d2).1]
  · rw [hd]
    show hasRawHtml (b :: b1 :: b2 :: b3 :: Y) = _
    rw [hasRawHtml_plain _ _ (pl b hb (by omega)), hasRawHtml_plain _ _ (plain_of_cont b1 c1 c2).1,
      hasRawHtml_plain _ _ (plain_of_cont b2 d1 d2).1, hasRawHtml_plain _ _ (plain_of_cont b3 f1 f2).1]

/-- a raw valid multi-byte rune decodes to itself -/
theorem unquoteBody_rune (b : UInt8) (rest Y : Bytes) (hb : 0x80 ≤ b.toNat) (hok : runeOk (b :: rest)) :
    unquoteBody ((b :: rest).take (decodeRune (b :: rest)).2 ++ Y) =
      (unquoteBody Y).map ((b :: rest).take (decodeRune (b :: rest)).2 ++ ·) := by
  obtain ⟨henc, _, hle, hdec⟩ := encodeRune_decodeRune b rest hok
  have hsz := decodeRune_size_pos b rest
  have h92 : b ≠ 92 := by rintro rfl; revert hb; decide
  have h34 : b ≠ 34 := by rintro rfl; revert hb; decide
  generalize hn : (decodeRune (b :: rest)).2 = n at *
  obtain ⟨n', rfl⟩ : ∃ n', n = n' + 1 := ⟨n - 1, by omega⟩
  have hdec' := hdec Y
  simp only [List.take_succ_cons, List.cons_append] at hdec' henc ⊢
  rw [unquoteBody_plain b _ h92, if_neg (by simp only [h34, false_or]; omega), if_neg (by omega), hdec', henc, hn]
  congr 1
  simp only [List.drop_succ_cons]
  rw [List.drop_left' ]
  simp only [List.length_take, List.length_cons] at hle ⊢
  omega


/-! ### the three boundary theorems -/

theorem hexLower_8 : hexLower (0x2028 % 16) = 56 := by decide
theorem hexLower_9 : hexLower (0x2029 % 16) = 57 := by decide

theorem VB_quoteBody (e : Bool) (s : Bytes) : VB (quoteBody e s) := by
  induction s using rune_induction with
  | nil => exact VB_nil
  | cons b rest ih =>
    by_cases hb : b.toNat < 128
    · rw [decodeRune_one b rest hb] at ih
      rw [quoteBody_ascii e b rest hb]
      exact VB_quoteAscii e b hb _ ih
    · rw [quoteBody_multi e b rest hb]
      split
      · rename_i h; rw [h.2] at ih
        exact (VB_u_iff _ _ _ _ _).2 ⟨⟨by decide, by decide, by decide, by decide⟩, ih⟩
      · split
        · rename_i h
          rcases h with h | h <;> rw [h]
          · rw [hexLower_8]
            exact (VB_u_iff _ _ _ _ _).2 ⟨⟨by decide, by decide, by decide, by decide⟩, ih⟩
          · rw [hexLower_9]
            exact (VB_u_iff _ _ _ _ _).2 ⟨⟨by decide, by decide, by decide, by decide⟩, ih⟩
        · exact VB_high_append _ _ (rune_bytes_high b rest (by omega)) ih

theorem quoteBody_valid (e : Bool) (s : Bytes) :
    parseStrBody (quoteBody e s ++ [34]) = some (quoteBody e s, []) := VB_quoteBody e s

theorem quoteBody_clean (s : Bytes) : hasRawHtml (quoteBody true s) = false := by
  induction s using rune_induction with
  | nil => rfl
  | cons b rest ih =>
    by_cases hb : b.toNat < 128
    · rw [decodeRune_one b rest hb] at ih
      rw [quoteBody_ascii true b rest hb, hasRawHtml_quoteAscii b hb]
      exact ih
    · rw [quoteBody_multi true b rest hb]
      split
      · rename_i h; rw [h.2] at ih
        show hasRawHtml (92 :: 117 :: 102 :: 102 :: 102 :: 100 :: _) = false
        rw [hasRawHtml_plain _ _ (by decide), hasRawHtml_plain _ _ (by decide), hasRawHtml_plain _ _ (by decide),
          hasRawHtml_plain _ _ (by decide), hasRawHtml_plain _ _ (by decide), hasRawHtml_plain _ _ (by decide)]
        exact ih
      · rename_i hok
        split
        · rename_i h
          rcases h with h | h <;> rw [h]
          · rw [hexLower_8]
            show hasRawHtml (92 :: 117 :: 50 :: 48 :: 50 :: 56 :: _) = false
            rw [hasRawHtml_plain _ _ (by decide), hasRawHtml_plain _ _ (by decide), hasRawHtml_plain _ _ (by decide),
              hasRawHtml_plain _ _ (by decide), hasRawHtml_plain _ _ (by decide), hasRawHtml_plain _ _ (by decide)]
            exact ih
          · rw [hexLower_9]
            show hasRawHtml (92 :: 117 :: 50 :: 48 :: 50 :: 57 :: _) = false
            rw [hasRawHtml_plain _ _ (by decide), hasRawHtml_plain _ _ (by decide), hasRawHtml_plain _ _ (by decide),
              hasRawHtml_plain _ _ (by decide), hasRawHtml_plain _ _ (by decide), hasRawHtml_plain _ _ (by decide)]
            exact ih
        · rename_i h
          simp only [not_or] at h
          rw [hasRawHtml_rune b rest _ (by omega) hok h.1 h.2]
          exact ih

theorem unquoteBody_quoteBody (e : Bool) (s : Bytes) (hs : isValidUtf8 s = true) :
    unquoteBody (quoteBody e s) = some s := by
  induction s using rune_induction with
  | nil => rfl
  | cons b rest ih =>
    rw [isValidUtf8_cons] at hs
    split at hs
    · cases hs
    · rename_i hok
      have ih := ih hs
      by_cases hb : b.toNat < 128
      · rw [decodeRune_one b rest hb] at ih
        rw [quoteBody_ascii e b rest hb, unquoteBody_quoteAscii e b hb]
        simp only [List.drop_succ_cons, List.drop_zero] at ih
        rw [ih]; rfl
      · rw [quoteBody_multi e b rest hb, if_neg hok]
        obtain ⟨henc, _, hle, _⟩ := encodeRune_decodeRune b rest hok
        split
        · rename_i h
          have : unquoteBody (ascii "\\u202" ++ [hexLower ((decodeRune (b :: rest)).1 % 16)]
              ++ quoteBody e ((b :: rest).drop (decodeRune (b :: rest)).2)) =
              (unquoteBody (quoteBody e ((b :: rest).drop (decodeRune (b :: rest)).2))).map
                (encodeRune (decodeRune (b :: rest)).1 ++ ·) := by
            rcases h with h | h <;> rw [h]
            · rw [hexLower_8]
              exact unquoteBody_u4 50 48 50 56 _ 0x2028 (by decide) (by decide)
            · rw [hexLower_9]
              exact unquoteBody_u4 50 48 50 57 _ 0x2029 (by decide) (by decide)
          rw [this, ih, henc]
          simp only [Option.map_some, List.take_append_drop]
        · rw [unquoteBody_rune b rest _ (by omega) hok, ih]
          simp only [Option.map_some, List.take_append_drop]

theorem unquote_quoteBody (e : Bool) (s : Bytes) (hs : isValidUtf8 s = true) : unquote (quoteBody e s) = s := by
  simp only [unquote, unquoteBody_quoteBody e s hs, Option.getD_some]


/-! ### the escape switch only changes the spelling -/

/-- the bytes one rune of the source contributes to the decoded output of the encoder's spelling -/
def runeOut (p : Bytes) : Bytes :=
  if (decodeRune p).1 = runeError ∧ (decodeRune p).2 = 1 then [0xEF, 0xBF, 0xBD] else p.take (decodeRune p).2

theorem unquoteBody_quoteBody_step (e : Bool) (b : UInt8) (rest : Bytes) :
    unquoteBody (quoteBody e (b :: rest)) =
      (unquoteBody (quoteBody e ((b :: rest).drop (decodeRune (b :: rest)).2))).map (runeOut (b :: rest) ++ ·) := by
  by_cases hb : b.toNat < 128
  · have hd := decodeRune_one b rest hb
    have : runeOut (b :: rest) = [b] := by
      simp only [runeOut, hd]
      rw [if_neg (by simp only [runeError]; omega)]; rfl
    rw [quoteBody_ascii e b rest hb, unquoteBody_quoteAscii e b hb, this, hd]; rfl
  · rw [quoteBody_multi e b rest hb]
    by_cases hok : (decodeRune (b :: rest)).1 = runeError ∧ (decodeRune (b :: rest)).2 = 1
    · rw [if_pos hok]
      have : runeOut (b :: rest) = [0xEF, 0xBF, 0xBD] := by simp only [runeOut, if_pos hok]
      rw [this, hok.2]
      exact unquoteBody_u4 102 102 102 100 _ 0xFFFD (by decide) (by decide)
    · rw [if_neg hok]
      have : runeOut (b :: rest) = (b :: rest).take (decodeRune (b :: rest)).2 := by simp only [runeOut, if_neg hok]
      rw [this]
      obtain ⟨henc, _, hle, _⟩ := encodeRune_decodeRune b rest hok
      split
      · rename_i h
        rw [← henc]
        rcases h with h | h <;> rw [h]
        · rw [hexLower_8]
          exact unquoteBody_u4 50 48 50 56 _ 0x2028 (by decide) (by decide)
        · rw [hexLower_9]
          exact unquoteBody_u4 50 48 50 57 _ 0x2029 (by decide) (by decide)
      · exact unquoteBody_rune b rest _ (by omega) hok

/-- the escape switch changes the spelling only: both spellings decode to the same bytes, for every
source string (valid UTF-8 or not) -/
theorem unquoteBody_quoteBody_indep (s : Bytes) : unquoteBody (quoteBody true s) = unquoteBody (quoteBody false s) := by
  induction s using rune_induction with
  | nil => rfl
  | cons b rest ih => rw [unquoteBody_quoteBody_step, unquoteBody_quoteBody_step, ih]

theorem unquote_quoteBody_indep (e : Bool) (s : Bytes) : unquote (quoteBody e s) = unquote (quoteBody false s) := by
  cases e with
  | false => rfl
  | true => simp only [unquote, unquoteBody_quoteBody_indep]


end JP
