import JP.Lemmas.DecodeSkip
import JP.Lemmas.TextUnq

/-!
# The primitive moves of the decoder on the configurations met on a well-formed text

`atD data n r se lk`: the decoder has just read the byte at index `n - 1`; `r` = the scanner
configuration and opcode that step returned.
-/

namespace JP
namespace Codec

open Scanner

def atD (data : Bytes) (n : Nat) (r : Scan × Nat) (se : Option DErr) (lk : List Bytes) : DState :=
  { data := data, off := n, opcode := r.2, scan := r.1, savedError := se, lastKeys := lk }

@[simp] theorem atD_data (data n r se lk) : (atD data n r se lk).data = data := rfl
@[simp] theorem atD_off (data n r se lk) : (atD data n r se lk).off = n := rfl
@[simp] theorem atD_opcode (data n r se lk) : (atD data n r se lk).opcode = r.2 := rfl
@[simp] theorem atD_scan (data n r se lk) : (atD data n r se lk).scan = r.1 := rfl
@[simp] theorem atD_se (data n r se lk) : (atD data n r se lk).savedError = se := rfl
@[simp] theorem atD_lk (data n r se lk) : (atD data n r se lk).lastKeys = lk := rfl

theorem atD_eta (d : DState) : d = atD d.data d.off (d.scan, d.opcode) d.savedError d.lastKeys := rfl

theorem drop_pre (pre X : Bytes) : (pre ++ X).drop pre.length = X := by
  simp

theorem drop_pre' (pre X : Bytes) (n : Nat) (h : n = pre.length) : (pre ++ X).drop n = X := by
  subst h; simp

/-! ### `scanWhile(scanSkipSpace)` -/

theorem scanWhileLoop_ws (s : Scan) (hs : ∀ c, isWs c = true → step s c = (s, scanSkipSpace)) (y : UInt8)
    (post : Bytes) (hy : (step s y).2 ≠ scanSkipSpace) :
    ∀ (ws : Bytes) (i : Nat), (∀ b ∈ ws, isWs b = true) →
      scanWhileLoop scanSkipSpace s i (ws ++ y :: post) = ((step s y).1, i + ws.length + 1, some (step s y).2) := by
  intro ws
  induction ws with
  | nil =>
    intro i _
    simp only [List.nil_append, scanWhileLoop, ne_eq, hy, not_false_eq_true, if_true, List.length_nil, Nat.add_zero]
  | cons w ws ih =>
    intro i hws
    have hw := hs w (hws w (List.mem_cons_self ..))
    simp only [List.cons_append, scanWhileLoop, hw, ne_eq, not_true_eq_false, if_false]
    rw [ih (i + 1) (fun b hb => hws b (List.mem_cons_of_mem _ hb))]
    simp only [List.length_cons]
    congr 2; omega

/-- skipping white space up to the byte `y`, which is then read from configuration `s` -/
theorem scanWhile_ws (pre ws : Bytes) (y : UInt8) (post : Bytes) (s : Scan) (op0 : Nat) (se : Option DErr)
    (lk : List Bytes) (hws : ∀ b ∈ ws, isWs b = true)
    (hs : ∀ c, isWs c = true → step s c = (s, scanSkipSpace)) (hy : (step s y).2 ≠ scanSkipSpace) :
    scanWhile scanSkipSpace (atD (pre ++ (ws ++ y :: post)) pre.length (s, op0) se lk) =
      atD (pre ++ (ws ++ y :: post)) ((pre ++ ws).length + 1) (step s y) se lk := by
  simp only [scanWhile, atD_data, atD_off, atD_scan, drop_pre, scanWhileLoop_ws s hs y post hy ws _ hws]
  simp only [atD, List.length_append]

/-- a byte that is not white space is not skipped -/
theorem step_nonws_ne_skip (s : Scan) (y : UInt8) (h : isWs y = false) : (step s y).2 ≠ scanSkipSpace := by
  intro hs
  have := step_skip_isWs s y hs
  rw [isSpace_eq_isWs, h] at this; cases this

/-- `if d.opcode == scanSkipSpace { d.scanWhile(scanSkipSpace) }` after a value inside a container:
the decoder ends up having read the first byte of `r` that is not white space -/
theorem skipSpaceIf_ev (pre : Bytes) (y : UInt8) (r0 : Bytes) (y' : UInt8) (post' : Bytes) (p : Nat)
    (stk : List Nat) (se : Option DErr) (lk : List Bytes) (h : skipWs (y :: r0) = y' :: post') :
    ∃ ws, y :: r0 = ws ++ y' :: post' ∧ (∀ b ∈ ws, isWs b = true) ∧
      skipSpaceIf (atD (pre ++ y :: r0) (pre.length + 1) (step (ev (p :: stk)) y) se lk) =
        atD (pre ++ y :: r0) ((pre ++ ws).length + 1) (step (ev (p :: stk)) y') se lk := by
  obtain ⟨ws, hr, hws, hy'⟩ := skipWs_split (y :: r0) y' post' h
  refine ⟨ws, hr, hws, ?_⟩
  cases ws with
  | nil =>
    simp only [List.nil_append, List.cons.injEq] at hr
    obtain ⟨rfl, rfl⟩ := hr
    have : (step (ev (p :: stk)) y).2 ≠ scanSkipSpace := step_nonws_ne_skip _ _ hy'
    simp only [skipSpaceIf, atD_opcode, this, if_false, List.append_nil]
  | cons w ws =>
    simp only [List.cons_append, List.cons.injEq] at hr
    obtain ⟨rfl, rfl⟩ := hr
    have hw : step (ev (p :: stk)) y = (ev (p :: stk), scanSkipSpace) :=
      step_ev_ws p stk y (hws y (List.mem_cons_self ..))
    simp only [skipSpaceIf, atD_opcode, hw, if_true]
    have e1 : pre ++ y :: (ws ++ y' :: post') = (pre ++ [y]) ++ (ws ++ y' :: post') := by simp
    have e2 : pre.length + 1 = (pre ++ [y]).length := by simp
    rw [e1, e2, scanWhile_ws (pre ++ [y]) ws y' post' (ev (p :: stk)) scanSkipSpace se lk
      (fun b hb => hws b (List.mem_cons_of_mem _ hb)) (fun c hc => step_ev_ws p stk c hc)
      (step_nonws_ne_skip _ _ hy')]
    simp

/-! ### slices -/

theorem slice_mid (pre vt rest : Bytes) :
    slice? (pre ++ (vt ++ rest)) pre.length (pre ++ vt).length = some vt := by
  unfold slice?
  rw [if_pos (by simp only [List.length_append]; omega)]
  congr 1
  rw [← List.append_assoc, List.take_left' rfl, List.drop_left' rfl]

/-! ### `rescanLiteral` -/

set_option maxRecDepth 100000 in
theorem hex_not_special : ∀ n : Fin 256, isHex (UInt8.ofNat n) = true → UInt8.ofNat n ≠ 92 ∧ UInt8.ofNat n ≠ 34 := by
  decide

theorem isHex_ne (h : UInt8) (hh : isHex h = true) : h ≠ 92 ∧ h ≠ 34 := by
  have := hex_not_special ⟨h.toNat, h.toNat_lt⟩
  simp only [UInt8.ofNat_toNat] at this
  exact this hh

theorem rescanStr_plain (i : Nat) (c : UInt8) (cs : Bytes) (h1 : c ≠ 92) (h2 : c ≠ 34) :
    rescanStr i (c :: cs) = rescanStr (i + 1) cs := by
  cases cs <;> simp only [rescanStr, h1, h2, if_false]

theorem rescanStr_quote (i : Nat) (cs : Bytes) : rescanStr i (34 :: cs) = i + 1 := by
  cases cs <;> simp [rescanStr]

theorem rescanStr_esc (i : Nat) (e : UInt8) (cs : Bytes) : rescanStr i (92 :: e :: cs) = rescanStr (i + 2) cs := by
  simp [rescanStr]

theorem rescanStr_body : ∀ (n : Nat) (b : Bytes), b.length ≤ n → VB b → ∀ (i : Nat) (rest : Bytes),
    rescanStr i (b ++ 34 :: rest) = i + b.length + 1 := by
  intro n
  induction n with
  | zero =>
    intro b hb _ i rest
    have : b = [] := List.eq_nil_of_length_eq_zero (by omega)
    subst this
    exact rescanStr_quote i rest
  | succ n ih =>
    intro b hb hvb i rest
    rcases VB_cases b hvb with rfl | ⟨c, t, rfl, h92, h34, _, ht⟩ | ⟨e, t, rfl, _, ht⟩ |
      ⟨h1, h2, h3, h4, t, rfl, a1, a2, a3, a4, ht⟩
    · simpa using rescanStr_quote i rest
    · simp only [List.length_cons] at hb
      rw [List.cons_append, rescanStr_plain i c _ h92 h34, ih t (by omega) ht]
      simp only [List.length_cons]; omega
    · simp only [List.length_cons] at hb
      have : rescanStr i (92 :: e :: t ++ 34 :: rest) = rescanStr (i + 2) (t ++ 34 :: rest) :=
        rescanStr_esc i e _
      rw [this, ih t (by omega) ht]
      simp only [List.length_cons]; omega
    · simp only [List.length_cons] at hb
      have : rescanStr i (92 :: 117 :: h1 :: h2 :: h3 :: h4 :: t ++ 34 :: rest) =
          rescanStr (i + 2) (h1 :: h2 :: h3 :: h4 :: (t ++ 34 :: rest)) :=
        rescanStr_esc i 117 _
      rw [this, rescanStr_plain _ h1 _ (isHex_ne h1 a1).1 (isHex_ne h1 a1).2,
        rescanStr_plain _ h2 _ (isHex_ne h2 a2).1 (isHex_ne h2 a2).2,
        rescanStr_plain _ h3 _ (isHex_ne h3 a3).1 (isHex_ne h3 a3).2,
        rescanStr_plain _ h4 _ (isHex_ne h4 a4).1 (isHex_ne h4 a4).2, ih t (by omega) ht]
      simp only [List.length_cons]; omega

/-- the continuation does not extend a number literal for `rescanLiteral` -/
def NumEnd : Bytes → Prop
  | [] => True
  | c :: _ => isNumByte c = false

theorem rescanNum_lit (l rest : Bytes) (hl : ∀ b ∈ l, isNumByte b = true) (hr : NumEnd rest) (i : Nat) :
    rescanNum i (l ++ rest) = i + l.length := by
  induction l generalizing i with
  | nil =>
    cases rest with
    | nil => rfl
    | cons c cs => simp only [NumEnd] at hr; simp [rescanNum, hr]
  | cons c l ih =>
    simp only [List.cons_append, rescanNum, hl c (List.mem_cons_self ..), if_true]
    rw [ih (fun b hb => hl b (List.mem_cons_of_mem _ hb))]
    simp only [List.length_cons]; omega

set_option maxRecDepth 100000 in
theorem ws_not_num : ∀ n : Fin 256, isWs (UInt8.ofNat n) = true → isNumByte (UInt8.ofNat n) = false := by
  decide

theorem delimW_numEnd (rest : Bytes) (h : DelimW rest) : NumEnd rest := by
  cases rest with
  | nil => trivial
  | cons c cs =>
    simp only [DelimW] at h
    simp only [NumEnd]
    rcases h with h | rfl | rfl | rfl
    · have := ws_not_num ⟨c.toNat, c.toNat_lt⟩
      simp only [UInt8.ofNat_toNat] at this
      exact this h
    all_goals decide

/-- what `rescanLiteral` leaves as scanner and opcode -/
def afterLit (s : Scan) (rest : Bytes) : Scan × Nat :=
  match rest with
  | c :: _ => stateEndValue s c
  | [] => (s, scanEnd)

/-- `rescanLiteral` given where its loop stops -/
theorem rescanLiteral_at (pre : Bytes) (b0 : UInt8) (lt rest : Bytes) (s : Scan) (op : Nat) (se : Option DErr)
    (lk : List Bytes)
    (hi : (if b0 = 34 then rescanStr (pre.length + 1) (lt ++ rest)
      else if isDigit b0 || b0 = 45 then rescanNum (pre.length + 1) (lt ++ rest)
      else if b0 = 116 then pre.length + 1 + 3
      else if b0 = 102 then pre.length + 1 + 4
      else if b0 = 110 then pre.length + 1 + 3
      else pre.length + 1) = pre.length + 1 + lt.length) :
    rescanLiteral (atD (pre ++ (b0 :: lt ++ rest)) (pre.length + 1) (s, op) se lk) =
      .ok (atD (pre ++ (b0 :: lt ++ rest)) ((pre ++ b0 :: lt).length + 1) (afterLit s rest) se lk) := by
  unfold rescanLiteral
  simp only [atD_off, Nat.add_one_ne_zero, if_false, atD_data, Nat.add_sub_cancel, drop_pre, List.cons_append]
  simp only [hi]
  have hd : (pre ++ b0 :: (lt ++ rest)).drop (pre.length + 1 + lt.length) = rest := by
    have : pre ++ b0 :: (lt ++ rest) = (pre ++ b0 :: lt) ++ rest := by simp
    rw [this]
    exact drop_pre' _ _ _ (by simp; omega)
  rw [hd]
  cases rest with
  | nil => simp [afterLit, atD]; omega
  | cons c cs => simp [afterLit, atD]; omega

theorem afterLit_cons (X : St) (stk : List Nat) (y : UInt8) (r : Bytes) :
    afterLit (mk X stk) (y :: r) = step (ev stk) y := by
  simp only [afterLit]; rw [stateEndValue_mk, step_ev]

/-- the text of a string literal with body `b` -/
def strText (b : Bytes) : Bytes := 34 :: (b ++ [34])

theorem rescan_string (pre b rest : Bytes) (hvb : VB b) (s : Scan) (op : Nat) (se : Option DErr) (lk : List Bytes) :
    rescanLiteral (atD (pre ++ (strText b ++ rest)) (pre.length + 1) (s, op) se lk) =
      .ok (atD (pre ++ (strText b ++ rest)) ((pre ++ strText b).length + 1) (afterLit s rest) se lk) := by
  have := rescanLiteral_at pre 34 (b ++ [34]) rest s op se lk (by
    simp only [if_true, List.append_assoc, List.singleton_append]
    rw [rescanStr_body _ b (Nat.le_refl _) hvb]
    simp only [List.length_append, List.length_singleton]; omega)
  exact this

theorem rescan_number (pre : Bytes) (b0 : UInt8) (lt rest : Bytes) (hb0 : b0 = 45 ∨ isDigit b0 = true)
    (hl : ∀ b ∈ lt, isNumByte b = true) (hr : NumEnd rest) (s : Scan) (op : Nat) (se : Option DErr)
    (lk : List Bytes) :
    rescanLiteral (atD (pre ++ (b0 :: lt ++ rest)) (pre.length + 1) (s, op) se lk) =
      .ok (atD (pre ++ (b0 :: lt ++ rest)) ((pre ++ b0 :: lt).length + 1) (afterLit s rest) se lk) := by
  apply rescanLiteral_at
  have h34 : b0 ≠ 34 := by
    rcases hb0 with rfl | h
    · decide
    · intro h'; subst h'; revert h; decide
  have hd : (isDigit b0 || b0 = 45) = true := by
    rcases hb0 with rfl | h
    · decide
    · simp [h]
  simp only [h34, if_false, hd, if_true]
  exact rescanNum_lit lt rest hl hr _

theorem rescan_word (pre w rest : Bytes) (hw : w = ascii "true" ∨ w = ascii "false" ∨ w = ascii "null")
    (s : Scan) (op : Nat) (se : Option DErr) (lk : List Bytes) :
    rescanLiteral (atD (pre ++ (w ++ rest)) (pre.length + 1) (s, op) se lk) =
      .ok (atD (pre ++ (w ++ rest)) ((pre ++ w).length + 1) (afterLit s rest) se lk) := by
  rcases hw with rfl | rfl | rfl
  · exact rescanLiteral_at pre 116 [114, 117, 101] rest s op se lk (by
      have h1 : isDigit 116 = false := by decide
      have h2 : isDigit 102 = false := by decide
      have h3 : isDigit 110 = false := by decide
      simp [h1, h2, h3])
  · exact rescanLiteral_at pre 102 [97, 108, 115, 101] rest s op se lk (by
      have h1 : isDigit 116 = false := by decide
      have h2 : isDigit 102 = false := by decide
      have h3 : isDigit 110 = false := by decide
      simp [h1, h2, h3])
  · exact rescanLiteral_at pre 110 [117, 108, 108] rest s op se lk (by
      have h1 : isDigit 116 = false := by decide
      have h2 : isDigit 102 = false := by decide
      have h3 : isDigit 110 = false := by decide
      simp [h1, h2, h3])

theorem unquoteBytes_strText (k : Bytes) (hvb : VB k) : unquoteBytes (strText k) = some (unquote k) := by
  simp only [unquoteBytes, strText]
  rw [if_pos (by simp), List.dropLast_concat]
  exact unquoteBody_valid k hvb

/-! ### containers -/

/-- the token trace of a consumed text in any delimiting context -/
theorem trace_of_split (vt : Bytes) (c : Cst) (d : Nat)
    (hre : ∀ F d' rest', vt.length + 1 ≤ F → d' ≤ d → DelimW rest' → parseValue F d' (vt ++ rest') = some (c, rest'))
    (stk : List Nat) (hstk : stk.length ≤ d) (rest' : Bytes) (hdl : DelimW rest') :
    ftr (bv stk) (vt ++ rest') = toksV c ++ ftr (ev stk) rest' :=
  (tr_all (vt.length + 1)).1 stk.length (vt ++ rest') c rest'
    (hre _ _ rest' (Nat.le_refl _) hstk hdl) stk rfl

theorem live_mk (X : St) (stk : List Nat) : Live (mk X stk) := ⟨rfl, rfl⟩

theorem skip_arr (stk : List Nat) (hvs : ValueStk stk) (hd : stk.length + 1 ≤ maxDepth) (pre inner rest : Bytes)
    (xs : List Cst)
    (heq : ∀ rest', DelimW rest' → ftr (bv stk) (91 :: inner ++ rest') = toksV (.arr xs) ++ ftr (ev stk) rest')
    (hend : EndsNonWs (91 :: inner)) (se : Option DErr) (lk : List Bytes) :
    skip (atD (pre ++ (91 :: inner ++ rest)) (pre.length + 1) (step (bv stk) 91) se lk) =
      .ok (atD (pre ++ (91 :: inner ++ rest)) (pre ++ 91 :: inner).length (afterClose stk, scanEndArray) se lk) := by
  have h0 := step_lbrack_ok stk hd
  have hT : skipT (stk.length + 1) (parseArrayValue :: stk) (toksE xs) = some (stk, scanEndArray, []) := by
    have := skipT_E xs (stk.length + 1) parseArrayValue stk [] (Nat.le_refl _)
    simp only [List.append_nil] at this
    rw [this, closeT, if_pos (by omega)]
  have := skip_container stk hvs 91 inner (.arr xs) (toksE xs) _ _ parseArrayValue scanEndArray h0
    (by decide) (by decide) rfl (live_mk _ _) rfl hT (.inr rfl) heq hend (pre.length + 1) rest
  simp only [skip, atD_scan, atD_off, atD_data, h0]
  have hdrop : (pre ++ (91 :: inner ++ rest)).drop (pre.length + 1) = inner ++ rest := by
    have : pre ++ (91 :: inner ++ rest) = (pre ++ [91]) ++ (inner ++ rest) := by simp
    rw [this]; exact drop_pre' _ _ _ (by simp)
  rw [hdrop]
  have hlen : (mk St.stateBeginValueOrEmpty (2 :: stk)).stack.length = stk.length + 1 := by simp [mk]
  rw [hlen, this]
  simp only [atD, List.length_append, List.length_cons]
  congr 2; omega

theorem skip_obj (stk : List Nat) (hvs : ValueStk stk) (hd : stk.length + 1 ≤ maxDepth) (pre inner rest : Bytes)
    (ms : List (Bytes × Cst))
    (heq : ∀ rest', DelimW rest' → ftr (bv stk) (123 :: inner ++ rest') = toksV (.obj ms) ++ ftr (ev stk) rest')
    (hend : EndsNonWs (123 :: inner)) (se : Option DErr) (lk : List Bytes) :
    skip (atD (pre ++ (123 :: inner ++ rest)) (pre.length + 1) (step (bv stk) 123) se lk) =
      .ok (atD (pre ++ (123 :: inner ++ rest)) (pre ++ 123 :: inner).length (afterClose stk, scanEndObject) se lk) := by
  have h0 := step_lbrace_ok stk hd
  have hT : skipT (stk.length + 1) (parseObjectKey :: stk) (toksM ms) = some (stk, scanEndObject, []) := by
    have := skipT_M ms (stk.length + 1) parseObjectKey stk [] (Nat.le_refl _)
    simp only [List.append_nil] at this
    rw [this, closeT, if_pos (by omega)]
  have := skip_container stk hvs 123 inner (.obj ms) (toksM ms) _ _ parseObjectKey scanEndObject h0
    (by decide) (by decide) rfl (live_mk _ _) rfl hT (.inl rfl) heq hend (pre.length + 1) rest
  simp only [skip, atD_scan, atD_off, atD_data, h0]
  have hdrop : (pre ++ (123 :: inner ++ rest)).drop (pre.length + 1) = inner ++ rest := by
    have : pre ++ (123 :: inner ++ rest) = (pre ++ [123]) ++ (inner ++ rest) := by simp
    rw [this]; exact drop_pre' _ _ _ (by simp)
  rw [hdrop]
  have hlen : (mk St.stateBeginStringOrEmpty (0 :: stk)).stack.length = stk.length + 1 := by simp [mk]
  rw [hlen, this]
  simp only [atD, List.length_append, List.length_cons]
  congr 2; omega

/-- `scanNext` after a closing bracket -/
theorem scanNext_afterClose (pre : Bytes) (y : UInt8) (rest' : Bytes) (stk : List Nat) (op : Nat)
    (se : Option DErr) (lk : List Bytes) :
    scanNext (atD (pre ++ y :: rest') pre.length (afterClose stk, op) se lk) =
      atD (pre ++ y :: rest') (pre.length + 1) (step (ev stk) y) se lk := by
  simp only [scanNext, atD_data, atD_off, drop_pre, atD_scan, step_afterClose]
  rfl

end Codec
end JP
