import JP.Lemmas.EncodeAny
import JP.Lemmas.ScanBasic
import JP.Lemmas.ScanSim
import JP.Lemmas.TextQuote

/-!
# Every successful output of the encoder is the print of a well-formed tree — unless a
`*lazyNode` hid an error

`redirMarshalerEncoder` drops the error of its nested `e.marshal`, so a `*lazyNode` whose raw
message is not JSON, or whose `partialDoc` has a nil map, is printed as *nothing* and the call
still succeeds (`[,]`, `{"a":}`).  `TopOK g` excludes exactly these hidden failures (raw messages
under a node are JSON texts or nil, documents under a node have a map, `which` is valid; the
payloads are of the Go types the fields have).  Errors that are *reported* need no hypothesis.
-/

namespace JP
namespace Codec
namespace Enc
open Impl

/-- `n.raw` of a node: nil, pointer to a nil message (prints `null`), or a JSON text -/
def RawPtrOK : GoVal → Bool
  | .rawPtrNil => true
  | .rawPtr none => true
  | .rawPtr (some bs) => (parseCst bs).isSome
  | _ => false

mutual
/-- a `*lazyNode` that hides no failure -/
def LazyOK : GoVal → Bool
  | .lazyNil => true
  | .lazyRaw p => RawPtrOK p
  | .lazyDoc d => DocOK d
  | .lazyAry ns => NodesOK ns
  | _ => false
/-- `n.doc` -/
def DocOK : GoVal → Bool
  | .docNilPtr => true
  | .docPtr _ obj _ => LazyOKM obj
  | _ => false
/-- `n.ary.nodes` / `partialArray.nodes` -/
def NodesOK : GoVal → Bool
  | .sliceNil => true
  | .slice xs => LazyOKL xs
  | _ => false
def LazyOKM : List (Bytes × GoVal) → Bool
  | [] => true
  | (_, g) :: ms => LazyOK g && LazyOKM ms
def LazyOKL : List GoVal → Bool
  | [] => true
  | g :: gs => LazyOK g && LazyOKL gs
end

mutual
/-- no failure is hidden anywhere inside (failures that are reported are allowed) -/
def TopOK : GoVal → Bool
  | .slice xs => TopOKL xs
  | .map ms => TopOKM ms
  | .lazyRaw p => RawPtrOK p
  | .lazyDoc d => DocOK d
  | .lazyAry ns => NodesOK ns
  | .aryPtr ns => NodesOK ns
  | .docPtr _ obj _ => TopOKM obj
  | _ => true
def TopOKL : List GoVal → Bool
  | [] => true
  | g :: gs => TopOK g && TopOKL gs
def TopOKM : List (Bytes × GoVal) → Bool
  | [] => true
  | (_, g) :: ms => TopOK g && TopOKM ms
end

/-- `w`, if it succeeded, wrote the print of a well-formed tree -/
def Wf (w : W) : Prop := ∀ out, w = W.ok out → ∃ c, WFC c = true ∧ out = Cst.print c
/-- `w` succeeded and wrote the print of a well-formed tree -/
def Sf (w : W) : Prop := ∃ c, WFC c = true ∧ w = W.ok (Cst.print c)

theorem Sf.wf {w : W} (h : Sf w) : Wf w := by
  obtain ⟨c, hc, rfl⟩ := h
  intro out ho
  cases ho
  exact ⟨c, hc, rfl⟩

theorem Sf_null : Sf (W.ok null) := ⟨litNull, WFC_litNull, rfl⟩

theorem seq_ok_inv {a b : W} {o : Bytes} (h : a.seq b = W.ok o) :
    ∃ x y, a = W.ok x ∧ b = W.ok y ∧ o = x ++ y := by
  cases a with
  | ok x =>
    cases b with
    | ok y => simp only [seq_ok_ok, W.ok.injEq] at h; exact ⟨x, y, rfl, rfl, h.symm⟩
    | err y e => simp at h
    | panic => simp at h
  | err x e => simp at h
  | panic => simp at h

theorem dropErr_ok_inv {w : W} {o : Bytes} (h : dropErr w = W.ok o) (hs : Sf w) : w = W.ok o := by
  obtain ⟨c, _, rfl⟩ := hs
  simpa using h

/-! ### leaves -/

theorem encRawMessage_wf (esc : Bool) (m : Option Bytes) : Wf (encRawMessage esc m) := by
  intro out h
  unfold encRawMessage at h
  cases hc : Scanner.compact esc (rawMarshalJSON m) with
  | none => rw [hc] at h; simp at h
  | some o =>
    rw [hc] at h
    simp only [write_eq, W.ok.injEq] at h
    subst h
    have h1 : (Scanner.compact esc (rawMarshalJSON m)).isSome = true := by rw [hc]; rfl
    rw [Scanner.compact_isSome, Scanner.valid_iff_parseCst] at h1
    cases hp : parseCst (rawMarshalJSON m) with
    | none => rw [hp] at h1; simp at h1
    | some c =>
      have h2 := compact_of_parse esc _ c hp
      rw [hc, Option.some.injEq] at h2
      exact ⟨_, WFC_escape esc c (parseCst_wfc _ c hp).1, h2⟩

theorem encRawMessage_sf (esc : Bool) (m : Option Bytes)
    (h : (parseCst (rawMarshalJSON m)).isSome = true) : Sf (encRawMessage esc m) := by
  cases hp : parseCst (rawMarshalJSON m) with
  | none => rw [hp] at h; simp at h
  | some c =>
    refine ⟨_, WFC_escape esc c (parseCst_wfc _ c hp).1, ?_⟩
    simp only [encRawMessage, compact_of_parse esc _ c hp, write_eq]

theorem encNumber_wf (l : Bytes) : Wf (encNumber l) := by
  intro out h
  simp only [encNumber] at h
  by_cases hv : isValidNumber (if l.isEmpty then [48] else l) = true
  · simp only [hv, if_true, write_eq, W.ok.injEq] at h
    subst h
    rw [isValidNumber_validNum] at hv
    exact ⟨.lit _, by simp only [WFC]; exact validLit_of_validNum _ hv, rfl⟩
  · rw [if_neg hv] at h; cases h

theorem encString_sf (esc : Bool) (s : Bytes) : Sf (encString esc s) :=
  ⟨.str (quoteBody esc s), by simp only [WFC]; exact (validBody_eq_true_iff _).2 (VB_quoteBody esc s), rfl⟩

theorem rawPtr_sf (esc : Bool) : ∀ p : GoVal, RawPtrOK p = true → Sf (enc esc p)
  | .rawPtrNil, _ => Sf_null
  | .rawPtr none, _ => by
    simp only [enc]
    exact encRawMessage_sf esc none (by decide)
  | .rawPtr (some bs), h => by
    simp only [RawPtrOK] at h
    simp only [enc]
    exact encRawMessage_sf esc (some bs) h
  | .nilIface, h | .bool _, h | .str _, h | .number _, h | .rawMsg _, h | .slice _, h | .sliceNil, h
  | .map _, h | .mapNil, h | .lazyNil, h | .lazyRaw _, h | .lazyDoc _, h | .lazyAry _, h | .lazyAryNilPtr, h
  | .lazyBad, h | .docPtr _ _ _, h | .docPtrNilMap _ _, h | .docNilPtr, h | .aryPtr _, h | .aryNilPtr, h => by
    simp [RawPtrOK] at h

/-! ### loops over results -/

/-- array elements -/
theorem printL_cons (c : Cst) (cs : List Cst) (hcs : cs ≠ []) :
    Cst.printL (c :: cs) = Cst.print c ++ 44 :: Cst.printL cs := by
  cases cs with
  | nil => exact absurd rfl hcs
  | cons d ds => rfl

theorem printM_cons (k : Bytes) (c : Cst) (ms : List (Bytes × Cst)) (hms : ms ≠ []) :
    Cst.printM ((k, c) :: ms) = 34 :: k ++ 34 :: 58 :: Cst.print c ++ 44 :: Cst.printM ms := by
  cases ms with
  | nil => exact absurd rfl hms
  | cons d ds => rfl

/-- the `TrustMarshalJSON` loop: every looked-up result is a success of the strong kind -/
theorem emitKeys_sf (f : Bool) (vals : List (Bytes × W)) (hv : ∀ x ∈ vals, Sf x.2) : ∀ keys : List Bytes,
    ∃ cms, WFCM cms = true ∧ emitKeys f vals keys = W.ok (Cst.printM cms) ∧ (keys ≠ [] → cms ≠ [])
  | [] => ⟨[], rfl, rfl, fun h => absurd rfl h⟩
  | k :: ks => by
    have hl : Sf ((lookupW k vals).getD (W.ok null)) := by
      cases hlk : lookupW k vals with
      | none => exact Sf_null
      | some w =>
        have : (k, w) ∈ vals ∨ True := Or.inr trivial
        have hmem : ∃ k', (k', w) ∈ vals := by
          clear this
          induction vals with
          | nil => simp [lookupW] at hlk
          | cons m ms ih =>
            obtain ⟨k', w'⟩ := m
            simp only [lookupW] at hlk
            split at hlk
            · simp only [Option.some.injEq] at hlk; subst hlk; exact ⟨k', List.mem_cons_self ..⟩
            · obtain ⟨k'', h⟩ := ih (fun x hx => hv x (List.mem_cons_of_mem _ hx)) hlk
              exact ⟨k'', List.mem_cons_of_mem _ h⟩
        obtain ⟨k', hm⟩ := hmem
        exact hv (k', w) hm
    obtain ⟨c, hc, hce⟩ := hl
    have hk : validBody (quoteBody f k) = true := (validBody_eq_true_iff _).2 (VB_quoteBody f k)
    obtain ⟨cms, hw, he, hne⟩ := emitKeys_sf f vals hv ks
    cases ks with
    | nil =>
      refine ⟨[(quoteBody f k, c)], by simp only [WFCM, hk, hc, Bool.and_self], ?_, fun _ => by simp⟩
      simp only [emitKeys, hce, encString_eq, nested_ok, write_eq, seq_ok_ok, Cst.printM, List.cons_append,
        List.append_assoc, List.nil_append]
    | cons k2 ks2 =>
      refine ⟨(quoteBody f k, c) :: cms, by simp only [WFCM, hk, hc, hw, Bool.and_self], ?_, fun _ => by simp⟩
      rw [printM_cons _ _ _ (hne (by simp))]
      simp only [emitKeys, hce, he, encString_eq, nested_ok, write_eq, seq_ok_ok, List.cons_append,
        List.append_assoc, List.nil_append]

/-- the `mapEncoder` loop -/
theorem emitEntries_wf (esc : Bool) : ∀ l : List (Bytes × W), (∀ x ∈ l, Wf x.2) →
    ∀ out, emitEntries esc l = W.ok out → ∃ cms, WFCM cms = true ∧ out = Cst.printM cms ∧ (l ≠ [] → cms ≠ [])
  | [], _, out, h => by
    simp only [emitEntries, write_eq, W.ok.injEq] at h
    subst h
    exact ⟨[], rfl, rfl, fun h => absurd rfl h⟩
  | [(k, w)], hl, out, h => by
    simp only [emitEntries, encString_eq, write_eq] at h
    obtain ⟨x, y, hx, hy, rfl⟩ := seq_ok_inv h
    obtain ⟨x2, y2, hx2, hy2, rfl⟩ := seq_ok_inv hy
    cases hx; cases hx2
    obtain ⟨c, hc, rfl⟩ := hl (k, w) (List.mem_cons_self ..) _ hy2
    have hk : validBody (quoteBody esc k) = true := (validBody_eq_true_iff _).2 (VB_quoteBody esc k)
    refine ⟨[(quoteBody esc k, c)], by simp only [WFCM, hk, hc, Bool.and_self], ?_, fun _ => by simp⟩
    simp only [Cst.printM, List.cons_append, List.append_assoc, List.nil_append]
  | (k, w) :: m :: ms, hl, out, h => by
    simp only [emitEntries, encString_eq, write_eq] at h
    obtain ⟨x, y, hx, hy, rfl⟩ := seq_ok_inv h
    obtain ⟨x2, y2, hx2, hy2, rfl⟩ := seq_ok_inv hy
    obtain ⟨x3, y3, hx3, hy3, rfl⟩ := seq_ok_inv hy2
    obtain ⟨x4, y4, hx4, hy4, rfl⟩ := seq_ok_inv hy3
    cases hx; cases hx2; cases hx4
    obtain ⟨c, hc, rfl⟩ := hl (k, w) (List.mem_cons_self ..) _ hx3
    obtain ⟨cms, hw, rfl, hne⟩ := emitEntries_wf esc (m :: ms) (fun x hx => hl x (List.mem_cons_of_mem _ hx)) _ hy4
    have hk : validBody (quoteBody esc k) = true := (validBody_eq_true_iff _).2 (VB_quoteBody esc k)
    refine ⟨(quoteBody esc k, c) :: cms, by simp only [WFCM, hk, hc, hw, Bool.and_self], ?_, fun _ => by simp⟩
    rw [printM_cons _ _ _ (hne (by simp))]
    simp only [List.cons_append, List.append_assoc, List.nil_append]

/-! ### the strong kind: nodes that hide nothing always succeed -/

mutual
theorem lazy_sf : ∀ (g : GoVal) (esc : Bool), LazyOK g = true → Sf (enc esc g)
  | .lazyNil, _, _ => Sf_null
  | .lazyRaw p, esc, h => by
    simp only [LazyOK] at h
    obtain ⟨c, hc, he⟩ := rawPtr_sf esc p h
    exact ⟨c, hc, by simp only [enc, he, dropErr_ok]⟩
  | .lazyDoc d, esc, h => by
    simp only [LazyOK] at h
    obtain ⟨c, hc, he⟩ := doc_sf d esc h
    exact ⟨c, hc, by simp only [enc, he, dropErr_ok]⟩
  | .lazyAry ns, esc, h => by
    simp only [LazyOK] at h
    obtain ⟨c, hc, he⟩ := nodes_sf ns esc h
    exact ⟨c, hc, by simp only [enc, he, dropErr_ok]⟩
  | .nilIface, _, h | .bool _, _, h | .str _, _, h | .number _, _, h | .rawMsg _, _, h | .rawPtr _, _, h
  | .rawPtrNil, _, h | .slice _, _, h | .sliceNil, _, h | .map _, _, h | .mapNil, _, h | .lazyAryNilPtr, _, h
  | .lazyBad, _, h | .docPtr _ _ _, _, h | .docPtrNilMap _ _, _, h | .docNilPtr, _, h | .aryPtr _, _, h
  | .aryNilPtr, _, h => by simp [LazyOK] at h
theorem doc_sf : ∀ (d : GoVal) (esc : Bool), DocOK d = true → Sf (enc esc d)
  | .docNilPtr, _, _ => Sf_null
  | .docPtr keys obj o, esc, h => by
    simp only [DocOK] at h
    obtain ⟨cms, hw, he, _⟩ := emitKeys_sf (escapedOf o) (encMembers (escapedOf o) obj)
      (lazyM_sf obj (escapedOf o) h) keys
    refine ⟨.obj cms, by simp only [WFC, hw], ?_⟩
    simp only [enc, he, write_eq, seq_ok_ok, wrapMarshaler_ok, Cst.print, List.cons_append, List.nil_append]
  | .nilIface, _, h | .bool _, _, h | .str _, _, h | .number _, _, h | .rawMsg _, _, h | .rawPtr _, _, h
  | .rawPtrNil, _, h | .slice _, _, h | .sliceNil, _, h | .map _, _, h | .mapNil, _, h | .lazyAryNilPtr, _, h
  | .lazyBad, _, h | .lazyNil, _, h | .docPtrNilMap _ _, _, h | .lazyRaw _, _, h | .aryPtr _, _, h
  | .aryNilPtr, _, h | .lazyDoc _, _, h | .lazyAry _, _, h => by simp [DocOK] at h
theorem nodes_sf : ∀ (ns : GoVal) (esc : Bool), NodesOK ns = true → Sf (enc esc ns)
  | .sliceNil, _, _ => Sf_null
  | .slice xs, esc, h => by
    simp only [NodesOK] at h
    obtain ⟨cs, hw, he⟩ := lazyL_sf xs esc h
    refine ⟨.arr cs, by simp only [WFC, hw], ?_⟩
    simp only [enc, he, write_eq, seq_ok_ok, Cst.print, List.cons_append, List.nil_append]
  | .nilIface, _, h | .bool _, _, h | .str _, _, h | .number _, _, h | .rawMsg _, _, h | .rawPtr _, _, h
  | .rawPtrNil, _, h | .docPtr _ _ _, _, h | .docNilPtr, _, h | .map _, _, h | .mapNil, _, h | .lazyAryNilPtr, _, h
  | .lazyBad, _, h | .lazyNil, _, h | .docPtrNilMap _ _, _, h | .lazyRaw _, _, h | .aryPtr _, _, h
  | .aryNilPtr, _, h | .lazyDoc _, _, h | .lazyAry _, _, h => by simp [NodesOK] at h
theorem lazyM_sf : ∀ (obj : List (Bytes × GoVal)) (esc : Bool), LazyOKM obj = true →
    ∀ x ∈ encMembers esc obj, Sf x.2
  | [], _, _, x, hx => by simp [encMembers] at hx
  | (k, g) :: ms, esc, h, x, hx => by
    simp only [LazyOKM, Bool.and_eq_true] at h
    simp only [encMembers, List.mem_cons] at hx
    rcases hx with rfl | hx
    · exact lazy_sf g esc h.1
    · exact lazyM_sf ms esc h.2 x hx
theorem lazyL_sf : ∀ (gs : List GoVal) (esc : Bool), LazyOKL gs = true →
    ∃ cs, WFCL cs = true ∧ encElems esc gs = W.ok (Cst.printL cs) ∧ (gs ≠ [] → cs ≠ [])
  | [], _, _ => ⟨[], rfl, rfl, fun h => absurd rfl h⟩
  | g :: gs, esc, h => by
    simp only [LazyOKL, Bool.and_eq_true] at h
    obtain ⟨c, hc, he⟩ := lazy_sf g esc h.1
    obtain ⟨cs, hw, hes, hne⟩ := lazyL_sf gs esc h.2
    cases gs with
    | nil =>
      exact ⟨[c], by simp only [WFCL, hc, Bool.and_self], by simp only [encElems, he, Cst.printL], fun _ => by simp⟩
    | cons g2 gs2 =>
      refine ⟨c :: cs, by simp only [WFCL, hc, hw, Bool.and_self], ?_, fun _ => by simp⟩
      rw [printL_cons _ _ (hne (by simp))]
      simp only [encElems, he, hes, write_eq, seq_ok_ok, List.cons_append, List.nil_append]
end

/-! ### the weak kind: any value -/

mutual
theorem top_wf : ∀ (g : GoVal) (esc : Bool), TopOK g = true → Wf (enc esc g)
  | .nilIface, _, _ => Sf_null.wf
  | .bool b, _, _ => by
    cases b
    · exact Sf.wf ⟨.lit (ascii "false"), by decide, rfl⟩
    · exact Sf.wf ⟨.lit (ascii "true"), by decide, rfl⟩
  | .str s, esc, _ => (encString_sf esc s).wf
  | .number l, _, _ => encNumber_wf l
  | .rawMsg m, esc, _ => encRawMessage_wf esc m
  | .rawPtr m, esc, _ => encRawMessage_wf esc m
  | .rawPtrNil, _, _ => Sf_null.wf
  | .sliceNil, _, _ => Sf_null.wf
  | .mapNil, _, _ => Sf_null.wf
  | .lazyNil, _, _ => Sf_null.wf
  | .docNilPtr, _, _ => Sf_null.wf
  | .aryNilPtr, _, _ => Sf_null.wf
  | .lazyAryNilPtr, _, _ => by intro out h; simp [enc] at h
  | .lazyBad, _, _ => by intro out h; simp [enc] at h
  | .docPtrNilMap _ _, _, _ => by intro out h; simp [enc] at h
  | .lazyRaw p, esc, h => (lazy_sf (.lazyRaw p) esc (by simpa only [LazyOK, TopOK] using h)).wf
  | .lazyDoc d, esc, h => (lazy_sf (.lazyDoc d) esc (by simpa only [LazyOK, TopOK] using h)).wf
  | .lazyAry ns, esc, h => (lazy_sf (.lazyAry ns) esc (by simpa only [LazyOK, TopOK] using h)).wf
  | .aryPtr ns, esc, h => by
    simp only [TopOK] at h
    obtain ⟨c, hc, he⟩ := nodes_sf ns esc h
    exact Sf.wf ⟨c, hc, by simp only [enc, he, dropErr_ok]⟩
  | .slice xs, esc, h => by
    simp only [TopOK] at h
    intro out ho
    simp only [enc, write_eq] at ho
    obtain ⟨x, y, hx, hy, rfl⟩ := seq_ok_inv ho
    obtain ⟨x2, y2, hx2, hy2, rfl⟩ := seq_ok_inv hy
    cases hx; cases hy2
    obtain ⟨cs, hw, rfl, _⟩ := topL_wf xs esc h _ hx2
    exact ⟨.arr cs, by simp only [WFC, hw], by simp only [Cst.print, List.cons_append, List.nil_append]⟩
  | .map ms, esc, h => by
    simp only [TopOK] at h
    intro out ho
    simp only [enc, write_eq] at ho
    obtain ⟨x, y, hx, hy, rfl⟩ := seq_ok_inv ho
    obtain ⟨x2, y2, hx2, hy2, rfl⟩ := seq_ok_inv hy
    cases hx; cases hy2
    obtain ⟨cms, hw, rfl, _⟩ := emitEntries_wf esc _
      (fun x hx => topM_wf ms esc h x ((mem_sortW _ x).1 hx)) _ hx2
    exact ⟨.obj cms, by simp only [WFC, hw], by simp only [Cst.print, List.cons_append, List.nil_append]⟩
  | .docPtr keys obj o, esc, h => by
    simp only [TopOK] at h
    intro out ho
    simp only [enc, write_eq] at ho
    -- a success of the whole loop means every looked-up member succeeded; rebuild it from the weak facts
    have hv := topM_wf obj (escapedOf o) h
    have key : ∀ keys : List Bytes, ∀ out, emitKeys (escapedOf o) (encMembers (escapedOf o) obj) keys = W.ok out →
        ∃ cms, WFCM cms = true ∧ out = Cst.printM cms ∧ (keys ≠ [] → cms ≠ []) := by
      intro keys
      induction keys with
      | nil =>
        intro out h1
        simp only [emitKeys, write_eq, W.ok.injEq] at h1
        subst h1
        exact ⟨[], rfl, rfl, fun h => absurd rfl h⟩
      | cons k ks ih =>
        intro out h1
        have hk : validBody (quoteBody (escapedOf o) k) = true := (validBody_eq_true_iff _).2 (VB_quoteBody _ k)
        have hlk : Wf ((lookupW k (encMembers (escapedOf o) obj)).getD (write null)) := by
          cases hl : lookupW k (encMembers (escapedOf o) obj) with
          | none => exact Sf_null.wf
          | some w =>
            have hmem : ∀ (l : List (Bytes × W)), lookupW k l = some w → ∃ k', (k', w) ∈ l := by
              intro l
              induction l with
              | nil => intro h; simp [lookupW] at h
              | cons m ms ih2 =>
                obtain ⟨k', w'⟩ := m
                intro h
                simp only [lookupW] at h
                split at h
                · simp only [Option.some.injEq] at h; subst h; exact ⟨k', List.mem_cons_self ..⟩
                · obtain ⟨k'', h'⟩ := ih2 h
                  exact ⟨k'', List.mem_cons_of_mem _ h'⟩
            obtain ⟨k', hm⟩ := hmem _ hl
            exact hv (k', w) hm
        cases ks with
        | nil =>
          simp only [emitKeys, encString_eq, nested_ok, write_eq] at h1
          obtain ⟨x, y, hx, hy, rfl⟩ := seq_ok_inv h1
          obtain ⟨x2, y2, hx2, hy2, rfl⟩ := seq_ok_inv hy
          cases hx; cases hx2
          have hy3 : (lookupW k (encMembers (escapedOf o) obj)).getD (W.ok null) = W.ok y2 := by
            cases hw : (lookupW k (encMembers (escapedOf o) obj)).getD (W.ok null) with
            | ok z => rw [hw] at hy2; simpa using hy2
            | err z e => rw [hw] at hy2; simp at hy2
            | panic => rw [hw] at hy2; simp at hy2
          obtain ⟨c, hc, rfl⟩ := hlk _ hy3
          refine ⟨[(quoteBody (escapedOf o) k, c)], by simp only [WFCM, hk, hc, Bool.and_self], ?_, fun _ => by simp⟩
          simp only [Cst.printM, List.cons_append, List.append_assoc, List.nil_append]
        | cons k2 ks2 =>
          simp only [emitKeys, encString_eq, nested_ok, write_eq] at h1
          obtain ⟨x, y, hx, hy, rfl⟩ := seq_ok_inv h1
          obtain ⟨x2, y2, hx2, hy2, rfl⟩ := seq_ok_inv hy
          obtain ⟨x3, y3, hx3, hy3, rfl⟩ := seq_ok_inv hy2
          obtain ⟨x4, y4, hx4, hy4, rfl⟩ := seq_ok_inv hy3
          cases hx; cases hx2; cases hx4
          have hx3' : (lookupW k (encMembers (escapedOf o) obj)).getD (W.ok null) = W.ok x3 := by
            cases hw : (lookupW k (encMembers (escapedOf o) obj)).getD (W.ok null) with
            | ok z => rw [hw] at hx3; simpa using hx3
            | err z e => rw [hw] at hx3; simp at hx3
            | panic => rw [hw] at hx3; simp at hx3
          obtain ⟨c, hc, rfl⟩ := hlk _ hx3'
          obtain ⟨cms, hw, rfl, hne⟩ := ih _ hy4
          refine ⟨(quoteBody (escapedOf o) k, c) :: cms, by simp only [WFCM, hk, hc, hw, Bool.and_self], ?_,
            fun _ => by simp⟩
          rw [printM_cons _ _ _ (hne (by simp))]
          simp only [List.cons_append, List.append_assoc, List.nil_append]
    cases hw : (W.ok [123]).seq ((emitKeys (escapedOf o) (encMembers (escapedOf o) obj) keys).seq (W.ok [125])) with
    | ok z =>
      rw [hw] at ho
      simp only [wrapMarshaler_ok, W.ok.injEq] at ho
      subst ho
      obtain ⟨x, y, hx, hy, rfl⟩ := seq_ok_inv hw
      obtain ⟨x2, y2, hx2, hy2, rfl⟩ := seq_ok_inv hy
      cases hx; cases hy2
      obtain ⟨cms, hwf, rfl, _⟩ := key keys _ hx2
      exact ⟨.obj cms, by simp only [WFC, hwf], by simp only [Cst.print, List.cons_append, List.nil_append]⟩
    | err z e => rw [hw] at ho; simp at ho
    | panic => rw [hw] at ho; simp at ho
theorem topL_wf : ∀ (gs : List GoVal) (esc : Bool), TopOKL gs = true →
    ∀ out, encElems esc gs = W.ok out → ∃ cs, WFCL cs = true ∧ out = Cst.printL cs ∧ (gs ≠ [] → cs ≠ [])
  | [], _, _, out, ho => by
    simp only [encElems, write_eq, W.ok.injEq] at ho
    subst ho
    exact ⟨[], rfl, rfl, fun h => absurd rfl h⟩
  | g :: gs, esc, h, out, ho => by
    simp only [TopOKL, Bool.and_eq_true] at h
    have h1 := top_wf g esc h.1
    have h2 := topL_wf gs esc h.2
    cases gs with
    | nil =>
      simp only [encElems] at ho
      obtain ⟨c, hc, rfl⟩ := h1 _ ho
      exact ⟨[c], by simp only [WFCL, hc, Bool.and_self], by simp only [Cst.printL], fun _ => by simp⟩
    | cons g2 gs2 =>
      simp only [encElems, write_eq] at ho
      obtain ⟨x, y, hx, hy, rfl⟩ := seq_ok_inv ho
      obtain ⟨x2, y2, hx2, hy2, rfl⟩ := seq_ok_inv hy
      cases hx2
      obtain ⟨c, hc, rfl⟩ := h1 _ hx
      obtain ⟨cs, hw, rfl, hne⟩ := h2 _ hy2
      refine ⟨c :: cs, by simp only [WFCL, hc, hw, Bool.and_self], ?_, fun _ => by simp⟩
      rw [printL_cons _ _ (hne (by simp))]
      simp only [List.cons_append, List.nil_append]
theorem topM_wf : ∀ (ms : List (Bytes × GoVal)) (esc : Bool), TopOKM ms = true →
    ∀ x ∈ encMembers esc ms, Wf x.2
  | [], _, _, x, hx => by simp [encMembers] at hx
  | (k, g) :: ms, esc, h, x, hx => by
    simp only [TopOKM, Bool.and_eq_true] at h
    simp only [encMembers, List.mem_cons] at hx
    rcases hx with rfl | hx
    · exact top_wf g esc h.1
    · exact topM_wf ms esc h.2 x hx
end

end Enc
end Codec
end JP
