import JP.Lemmas.TransduceEsc
import JP.Lemmas.TransduceTrace

/-!
# `compact` with escaping = `compact` without escaping after `HTMLEscape`, on valid texts

In a valid scan the bytes `<`, `>`, `&`, `0xE2` only occur inside strings, where the scanner
treats the byte and its `\uXXXX` spelling alike.
-/

namespace JP
namespace Scanner

/-! ### unfolding the loop -/

theorem compactLoop_zero_cons (e : Bool) (s : Scan) (c : UInt8) (cs out : Bytes) :
    compactLoop e s 0 (c :: cs) out =
      if (step s c).2 = scanError then ((step s c).1, out)
      else if (step s c).2 ≥ scanSkipSpace then compactLoop e (step s c).1 (compactEmit e c cs).2 cs out
      else compactLoop e (step s c).1 (compactEmit e c cs).2 cs ((compactEmit e c cs).1.reverse ++ out) := by
  simp only [compactLoop, Nat.lt_irrefl, if_false]

theorem compactLoop_succ_cons (e : Bool) (s : Scan) (k : Nat) (c : UInt8) (cs out : Bytes) :
    compactLoop e s (k + 1) (c :: cs) out =
      if (step s c).2 = scanError then ((step s c).1, out) else compactLoop e (step s c).1 k cs out := by
  simp only [compactLoop, Nat.zero_lt_succ, if_true, Nat.add_sub_cancel, List.reverse_nil, List.nil_append]
  split
  · rfl
  · split <;> rfl

/-- one step with a known outcome, opcode `scanContinue`, nothing pending -/
theorem compactLoop_cont {e : Bool} {s s' : Scan} {c : UInt8} (h : step s c = (s', scanContinue))
    (cs out : Bytes) : compactLoop e s 0 (c :: cs) out =
      compactLoop e s' (compactEmit e c cs).2 cs ((compactEmit e c cs).1.reverse ++ out) := by
  rw [compactLoop_zero_cons, h]
  simp only
  rw [if_neg (by decide), if_neg (by decide)]

theorem compactLoop_skip {e : Bool} {s s' : Scan} {c : UInt8} {k : Nat} (h : step s c = (s', scanContinue))
    (cs out : Bytes) : compactLoop e s (k + 1) (c :: cs) out = compactLoop e s' k cs out := by
  rw [compactLoop_succ_cons, h]
  simp only
  rw [if_neg (by decide)]

/-! ### inside a string -/

/-- a configuration inside a string -/
abbrev inStr (stk : List Nat) (et er : Bool) : Scan := ⟨.stateInString, stk, et, er⟩

theorem step_inStr_plain (stk : List Nat) (et er : Bool) (c : UInt8) (h34 : c ≠ 34) (h92 : c ≠ 92)
    (h32 : ¬ c.toNat < 32) : step (inStr stk et er) c = (inStr stk et er, scanContinue) := by
  simp [step, stateInString, h34, h92, h32]

theorem step_inStr_bs (stk : List Nat) (et er : Bool) :
    step (inStr stk et er) 92 = (⟨.stateInStringEsc, stk, et, er⟩, scanContinue) := by
  simp [step, stateInString, Scan.goto]

theorem step_esc_u (stk : List Nat) (et er : Bool) :
    step ⟨.stateInStringEsc, stk, et, er⟩ 117 = (⟨.stateInStringEscU, stk, et, er⟩, scanContinue) := by
  simp [step, stateInStringEsc, Scan.goto]

theorem step_hex (X Y : St) (stk : List Nat) (et er : Bool) (c : UInt8)
    (hX : ∀ s : Scan, s.st = X → step s c = hexStep s c Y) (hc : hexStep.isHex' c = true) :
    step ⟨X, stk, et, er⟩ c = (⟨Y, stk, et, er⟩, scanContinue) := by
  rw [hX _ rfl]
  simp [hexStep, hc, Scan.goto]

/-- a `\uXXXX` escape inside a string is copied and leaves the scanner inside the string -/
theorem compactLoop_u4 (stk : List Nat) (et er : Bool) (a b x y : UInt8) (ha : hexStep.isHex' a = true)
    (hb : hexStep.isHex' b = true) (hx : hexStep.isHex' x = true) (hy : hexStep.isHex' y = true)
    (rest out : Bytes) :
    compactLoop false (inStr stk et er) 0 (92 :: 117 :: a :: b :: x :: y :: rest) out =
      compactLoop false (inStr stk et er) 0 rest (y :: x :: b :: a :: 117 :: 92 :: out) := by
  rw [compactLoop_cont (step_inStr_bs stk et er), compactEmit_false,
    compactLoop_cont (step_esc_u stk et er), compactEmit_false,
    compactLoop_cont (step_hex .stateInStringEscU .stateInStringEscU1 stk et er a
      (fun s h => by simp [step, h]) ha), compactEmit_false,
    compactLoop_cont (step_hex .stateInStringEscU1 .stateInStringEscU12 stk et er b
      (fun s h => by simp [step, h]) hb), compactEmit_false,
    compactLoop_cont (step_hex .stateInStringEscU12 .stateInStringEscU123 stk et er x
      (fun s h => by simp [step, h]) hx), compactEmit_false,
    compactLoop_cont (step_hex .stateInStringEscU123 .stateInString stk et er y
      (fun s h => by simp [step, h]) hy), compactEmit_false]
  rfl

/-! ### the bytes the escaper touches are rejected outside strings -/

/-- the step is an error, or leaves the scanner in the error state -/
def Bad (r : Scan × Nat) : Prop := r.2 = scanError ∨ (r.1.st = .stateError ∧ r.1.err = true)

theorem isHex'_60 : hexStep.isHex' 60 = false := by decide
theorem isHex'_62 : hexStep.isHex' 62 = false := by decide
theorem isHex'_38 : hexStep.isHex' 38 = false := by decide
theorem isHex'_E2 : hexStep.isHex' 0xE2 = false := by decide
theorem isDigit_60 : isDigit 60 = false := by decide
theorem isDigit_62 : isDigit 62 = false := by decide
theorem isDigit_38 : isDigit 38 = false := by decide
theorem isDigit_E2 : isDigit 0xE2 = false := by decide

macro "sp_tac" : tactic => `(tactic| (
  intro X stk et er hX
  cases stk <;> cases X <;>
    simp [Bad, step, stateBeginValueOrEmpty, stateBeginValue, stateBeginStringOrEmpty,
      stateBeginString, stateEndValue, stateEndTop, stateInStringEsc, hexStep, stateNeg,
      state1, state0, stateDot, stateDot0, stateE, stateESign, stateE0, expect, Scan.error, Scan.goto,
      isSpace, isHex'_60, isHex'_62, isHex'_38, isHex'_E2, isDigit_60, isDigit_62, isDigit_38, isDigit_E2,
      scanError, scanContinue, scanSkipSpace, scanEnd] at hX ⊢))

theorem bad_60 : ∀ (X : St) (stk : List Nat) (et er : Bool), X ≠ .stateInString →
    Bad (step ⟨X, stk, et, er⟩ 60) := by sp_tac
theorem bad_62 : ∀ (X : St) (stk : List Nat) (et er : Bool), X ≠ .stateInString →
    Bad (step ⟨X, stk, et, er⟩ 62) := by sp_tac
theorem bad_38 : ∀ (X : St) (stk : List Nat) (et er : Bool), X ≠ .stateInString →
    Bad (step ⟨X, stk, et, er⟩ 38) := by sp_tac
theorem bad_E2 : ∀ (X : St) (stk : List Nat) (et er : Bool), X ≠ .stateInString →
    Bad (step ⟨X, stk, et, er⟩ 0xE2) := by sp_tac

theorem special_needs_inStr (s : Scan) (c : UInt8) (cs : Bytes) (hc : c = 60 ∨ c = 62 ∨ c = 38 ∨ c = 0xE2)
    (hv : validFrom s (c :: cs) = true) : s.st = .stateInString := by
  apply Classical.byContradiction
  intro hne
  have hbad : Bad (step s c) := by
    obtain ⟨X, stk, et, er⟩ := s
    rcases hc with rfl | rfl | rfl | rfl
    · exact bad_60 X stk et er hne
    · exact bad_62 X stk et er hne
    · exact bad_38 X stk et er hne
    · exact bad_E2 X stk et er hne
  rw [validFrom_cons] at hv
  rcases hbad with h | ⟨h1, h2⟩
  · simp [h] at hv
  · split at hv
    · cases hv
    · rw [vf_err _ h1 h2] at hv; cases hv

/-! ### the main lemma -/

theorem compactLoop_esc : ∀ (n : Nat) (bs : Bytes) (s : Scan) (out : Bytes), bs.length ≤ n →
    validFrom s bs = true → compactLoop true s 0 bs out = compactLoop false s 0 (escBody bs) out := by
  intro n
  induction n with
  | zero =>
    intro bs s out hn _
    cases bs with
    | nil => rfl
    | cons _ _ => simp at hn
  | succ n ih =>
    intro bs s out hn hv
    cases bs with
    | nil => rfl
    | cons c cs =>
      simp only [List.length_cons] at hn
      have hv0 := hv
      rw [validFrom_cons] at hv
      have hne : (step s c).2 ≠ scanError := by intro h; simp [h] at hv
      simp only [hne, if_false] at hv
      rcases escBody_cases c cs with ⟨hc, _⟩ | ⟨t, rfl, rfl, he⟩ | ⟨t, rfl, rfl, he⟩ | ⟨hn', hE, he⟩
      · -- `<`, `>`, `&`
        have hst := special_needs_inStr s c cs (by rcases hc with h | h | h <;> simp [h]) hv0
        obtain ⟨X, stk, et, er⟩ := s
        simp only at hst; subst hst
        rcases hc with rfl | rfl | rfl
        · have hs := step_inStr_plain stk et er 60 (by decide) (by decide) (by decide)
          rw [hs] at hv
          rw [compactLoop_cont hs, compactEmit_lt, escBody_lt,
            compactLoop_u4 stk et er 48 48 51 99 (by decide) (by decide) (by decide) (by decide)]
          exact ih cs _ _ (by omega) hv
        · have hs := step_inStr_plain stk et er 62 (by decide) (by decide) (by decide)
          rw [hs] at hv
          rw [compactLoop_cont hs, compactEmit_gt, escBody_gt,
            compactLoop_u4 stk et er 48 48 51 101 (by decide) (by decide) (by decide) (by decide)]
          exact ih cs _ _ (by omega) hv
        · have hs := step_inStr_plain stk et er 38 (by decide) (by decide) (by decide)
          rw [hs] at hv
          rw [compactLoop_cont hs, compactEmit_amp, escBody_amp,
            compactLoop_u4 stk et er 48 48 50 54 (by decide) (by decide) (by decide) (by decide)]
          exact ih cs _ _ (by omega) hv
      · -- U+2028
        have hst := special_needs_inStr s _ _ (by simp) hv0
        obtain ⟨X, stk, et, er⟩ := s
        simp only at hst; subst hst
        have hs1 := step_inStr_plain stk et er 0xE2 (by decide) (by decide) (by decide)
        have hs2 := step_inStr_plain stk et er 0x80 (by decide) (by decide) (by decide)
        have hs3 := step_inStr_plain stk et er 0xA8 (by decide) (by decide) (by decide)
        rw [hs1, vf_step hs2 (by decide), vf_step hs3 (by decide)] at hv
        simp only [List.length_cons] at hn
        rw [compactLoop_cont hs1, compactEmit_ls, compactLoop_skip hs2, compactLoop_skip hs3, he,
          compactLoop_u4 stk et er 50 48 50 56 (by decide) (by decide) (by decide) (by decide)]
        exact ih t _ _ (by omega) hv
      · -- U+2029
        have hst := special_needs_inStr s _ _ (by simp) hv0
        obtain ⟨X, stk, et, er⟩ := s
        simp only at hst; subst hst
        have hs1 := step_inStr_plain stk et er 0xE2 (by decide) (by decide) (by decide)
        have hs2 := step_inStr_plain stk et er 0x80 (by decide) (by decide) (by decide)
        have hs3 := step_inStr_plain stk et er 0xA9 (by decide) (by decide) (by decide)
        rw [hs1, vf_step hs2 (by decide), vf_step hs3 (by decide)] at hv
        simp only [List.length_cons] at hn
        rw [compactLoop_cont hs1, compactEmit_ps, compactLoop_skip hs2, compactLoop_skip hs3, he,
          compactLoop_u4 stk et er 50 48 50 57 (by decide) (by decide) (by decide) (by decide)]
        exact ih t _ _ (by omega) hv
      · -- any other byte: copied by both
        rw [he, compactLoop_zero_cons, compactLoop_zero_cons, compactEmit_plain c cs hn' hE, compactEmit_false]
        simp only [hne, if_false]
        split
        · exact ih cs _ _ (by omega) hv
        · exact ih cs _ _ (by omega) hv

/-- `compact(escape = true)` is `HTMLEscape` followed by `compact(escape = false)` on valid texts -/
theorem compact_true_eq (bs : Bytes) (hv : valid bs = true) :
    compact true bs = compact false (escBody bs) := by
  unfold compact
  rw [compactLoop_esc bs.length bs Scan.init [] (Nat.le_refl _) hv]

end Scanner
end JP
